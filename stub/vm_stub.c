/* Link-time stand-ins for the Rust VM static library (cannot be built offline).
 * No monitored property needs the VM to execute; any call aborts loudly. */
#include <stdint.h>
#include <stdlib.h>
void cairoVMCall(void*a,void*b,void*c,uintptr_t h,unsigned long long m,unsigned long long g,unsigned char x,unsigned char y,unsigned char z){abort();}
void cairoVMExecute(char*a,char*b,char*c,void*d,void*e,uintptr_t h,unsigned char s1,unsigned char s2,unsigned char s3,unsigned char s4,unsigned char s5,unsigned char s6,unsigned char s7,unsigned char s8){abort();}
char* setVersionedConstants(char*j){return 0;}
void freeString(char*s){}

#!/bin/bash
# Runs the repository's own test suite with the verif guard OFF (no -tags verif, no overlay)
# and compares the passing tests with the stable baseline in /root/.vp/BASELINE.json.
# exit 0 iff every stable_pass test passed.
export GOFLAGS=-mod=mod GOPROXY=off GOSUMDB=off GOTOOLCHAIN=local
GO=/root/go/pkg/mod/golang.org/toolchain@v0.0.1-go1.26.0.linux-amd64/bin/go
[ -x "$GO" ] || GO=go1.26
OUT=${1:-/verif/.build/baseline.json}
mkdir -p "$(dirname "$OUT")"
: > "$OUT"
for m in . ./starknet-p2p-specs; do
  (cd /repo/$m && $GO test -json -vet=off -count=1 -timeout 25m ./... >> "$OUT" 2>/dev/null)
done
python3 - "$OUT" <<'PY'
import json,sys
passed=set()
for line in open(sys.argv[1],errors='replace'):
    line=line.strip()
    if not line.startswith('{'): continue
    try: e=json.loads(line)
    except Exception: continue
    if e.get('Action')=='pass' and e.get('Test'):
        passed.add(e['Package']+'::'+e['Test'])
base=json.load(open('/root/.vp/BASELINE.json'))['stable_pass']
missing=[t for t in base if t not in passed]
print("baseline stable_pass: %d, passed now: %d, missing: %d"%(len(base),len(passed),len(missing)))
for t in missing[:40]: print("  MISSING", t)
sys.exit(1 if missing else 0)
PY

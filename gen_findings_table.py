#!/usr/bin/env python3
"""Regenerates the two tables of DESIGN.md section 7.2 (repaired defects, open known findings) from known_findings.json."""
import json, os
V = os.path.dirname(os.path.abspath(__file__))
k = json.load(open(os.path.join(V, "known_findings.json")))["findings"]
fixed = [f for f in k if f["status"] == "fixed"]
openf = [f for f in k if f["status"] == "open"]
def esc(s): return s.replace("|", "/")
t1 = "| property | commit | what failed |\n|---|---|---|\n" + "\n".join("| %s | %s | %s |" % (f["property"], f.get("commit", ""), esc(f["what"])) for f in fixed) + "\n"
t2 = "| property | witness class | what fails / why not repaired |\n|---|---|---|\n" + "\n".join("| %s | `%s` | %s |" % (f["property"], esc(f["class"]), esc(f["what"])) for f in openf) + "\n"
s = open(os.path.join(V, "DESIGN.md")).read()
a = s.index("Repaired (`fix:` commits in /repo):")
b = s.index("Open known findings (reported as `KNOWN-FINDING`")
c = s.index("False alarms met on the way")
s = s[:a] + "Repaired (`fix:` commits in /repo):\n\n" + t1 + "\n" + s[b:s.index("\n", b) + 1] + "\n" + t2 + "\n" + s[c:]
open(os.path.join(V, "DESIGN.md"), "w").write(s)
print(len(fixed), "fixed,", len(openf), "open")

#!/bin/sh
exec python3 "$(dirname "$0")/run.py" "$@"

#!/bin/bash
# usage: buildmut.sh <repo-relative-file> <mutated-file>
set -e
python3 - "$1" "$2" <<'PY'
import json,glob,os,sys
m={"/repo/verifproto/%s"%os.path.basename(f):f for f in glob.glob('/tmp/proto/src/*.go')}
m["/repo/"+sys.argv[1]]=sys.argv[2]
json.dump({"Replace":m},open('/tmp/proto/overlay_mut.json','w'))
PY
GO=/root/go/pkg/mod/golang.org/toolchain@v0.0.1-go1.26.0.linux-amd64/bin/go
cd /repo && GOTOOLCHAIN=local GOFLAGS=-mod=mod GOPROXY=off GOSUMDB=off CGO_LDFLAGS="-L/tmp/stub" $GO test -modfile=/tmp/proto/alt.mod -overlay=/tmp/proto/overlay_mut.json -vet=off -c -o /tmp/proto/proto.mut.test ./verifproto/

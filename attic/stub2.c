char compileSierraToCasm(char* s, char** r){*r=0;return 0;}
void freeCstr(char*p){}

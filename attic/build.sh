#!/bin/bash
# usage: build.sh [extra go flags]
set -e
cd /tmp/proto
python3 - <<'PY'
import json,glob,os
json.dump({"Replace":{"/repo/verifproto/%s"%os.path.basename(f):f for f in glob.glob('/tmp/proto/src/*.go')}},open('/tmp/proto/overlay.json','w'))
PY
GO=/root/go/pkg/mod/golang.org/toolchain@v0.0.1-go1.26.0.linux-amd64/bin/go
cd /repo && GOTOOLCHAIN=local GOFLAGS=-mod=mod GOPROXY=off GOSUMDB=off CGO_LDFLAGS="-L/tmp/stub" $GO test "$@" -modfile=/tmp/proto/alt.mod -overlay=/tmp/proto/overlay.json -vet=off -c -o /tmp/proto/proto.test ./verifproto/

package tendermint

import (
	"github.com/NethermindEth/juno/consensus/types"
	"github.com/NethermindEth/juno/consensus/types/actions"
	"github.com/NethermindEth/juno/consensus/votecounter"
)

/*
Check the upon condition on line 28:

	28: upon {PROPOSAL, h_p, round_p, v, vr} from proposer(h_p, round_p) AND 2f + 1 {PREVOTE,h_p, vr, id(v)} while
		step_p = propose ∧ (vr ≥ 0 ∧ vr < round_p) do
	29: if valid(v) ∧ (lockedRound_p ≤ vr ∨ lockedValue_p = v) then
	30: 	broadcast {PREVOTE, hp, round_p, id(v)}
	31: else
	32:  	broadcast {PREVOTE, hp, round_p, nil}
	33: step_p ← prevote
*/
func (s *stateMachine[V, H, A]) uponProposalAndPolkaPrevious(cachedProposal *CachedProposal[V, H, A]) bool {
	vr := cachedProposal.ValidRound
	hasQuorum := cachedProposal.ID != nil && s.voteCounter.HasQuorumForVote(vr, votecounter.Prevote, cachedProposal.ID)
	return hasQuorum &&
		s.state.step == types.StepPropose &&
		vr >= 0 &&
		vr < s.state.round
}

func (s *stateMachine[V, H, A]) doProposalAndPolkaPrevious(cachedProposal *CachedProposal[V, H, A]) actions.Action[V, H, A] {
	var votedID *H
	shouldVoteForValue := cachedProposal.Valid &&
		(s.state.lockedRound <= cachedProposal.ValidRound+1 ||
			s.state.lockedValue != nil &&
				cachedProposal.ID != nil &&
				(*s.state.lockedValue).Hash() == *cachedProposal.ID)

	if shouldVoteForValue {
		votedID = cachedProposal.ID
	}
	return s.setStepAndSendPrevote(votedID)
}

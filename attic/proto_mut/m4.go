package tendermint

import (
	"github.com/NethermindEth/juno/consensus/types"
	"github.com/NethermindEth/juno/consensus/types/actions"
	"github.com/NethermindEth/juno/consensus/votecounter"
)

/*
Check upon condition on line 36:

	36: upon {PROPOSAL, h_p, round_p, v, ∗} from proposer(h_p, round_p) AND 2f + 1 {PREVOTE, h_p, round_p, id(v)} while
		valid(v) ∧ step_p ≥ prevote for the first time do
	37: if step_p = prevote then
	38: 	lockedValue_p ← v
	39: 	lockedRound_p ← round_p
	40: 	broadcast {PRECOMMIT, h_p, round_p, id(v))}
	41: 	step_p ← precommit
	42: validValue_p ← v
	43: validRound_p ← round_p
*/
func (s *stateMachine[V, H, A]) uponProposalAndPolkaCurrent(cachedProposal *CachedProposal[V, H, A]) bool {
	hasQuorum := cachedProposal.ID != nil && s.voteCounter.HasQuorumForVote(s.state.round, votecounter.Prevote, cachedProposal.ID)
	firstTime := !s.state.lockedValueAndOrValidValueSet
	return hasQuorum &&
		cachedProposal.Valid &&
		s.state.step >= types.StepPrevote &&
		firstTime
}

func (s *stateMachine[V, H, A]) doProposalAndPolkaCurrent(cachedProposal *CachedProposal[V, H, A]) actions.Action[V, H, A] {
	var action actions.Action[V, H, A]
	if s.state.step == types.StepPrevote {
		s.state.lockedValue = cachedProposal.Value
		s.state.lockedRound = s.state.round - 1
		action = s.setStepAndSendPrecommit(cachedProposal.ID)
	}

	s.state.validValue = cachedProposal.Value
	s.state.validRound = s.state.round
	s.state.lockedValueAndOrValidValueSet = true

	return action
}

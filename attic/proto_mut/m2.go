package votecounter

import (
	"github.com/NethermindEth/juno/consensus/types"
)

type Validators[A types.Addr] interface {
	// TotalVotingPower represents N which is required to calculate the thresholds.
	TotalVotingPower(types.Height) types.VotingPower

	// ValidatorVotingPower returns the voting power of the a single validator. This is also required to implement
	// various thresholds. The assumption is that a single validator cannot have voting power more than f.
	ValidatorVotingPower(types.Height, *A) types.VotingPower

	// Proposer returns the proposer of the current round and height.
	Proposer(types.Height, types.Round) A
}

type VoteCounter[V types.Hashable[H], H types.Hash, A types.Addr] struct {
	validators        Validators[A]
	currentHeight     types.Height
	totalVotingPower  types.VotingPower
	faultyVotingPower types.VotingPower
	quorumVotingPower types.VotingPower
	roundData         roundMap[V, H, A]
	futureMessages    map[types.Height]roundMap[V, H, A]
}

func New[V types.Hashable[H], H types.Hash, A types.Addr](validators Validators[A], height types.Height) VoteCounter[V, H, A] {
	totalVotingPower := validators.TotalVotingPower(height)
	return VoteCounter[V, H, A]{
		validators:        validators,
		currentHeight:     height,
		totalVotingPower:  totalVotingPower,
		faultyVotingPower: f(totalVotingPower),
		quorumVotingPower: q(totalVotingPower),
		roundData:         make(roundMap[V, H, A]),
		futureMessages:    make(map[types.Height]roundMap[V, H, A]),
	}
}

func (v *VoteCounter[V, H, A]) StartNewHeight() {
	v.currentHeight++
	v.totalVotingPower = v.validators.TotalVotingPower(v.currentHeight)
	v.faultyVotingPower = f(v.totalVotingPower)
	v.quorumVotingPower = q(v.totalVotingPower)

	clear(v.roundData)
	var ok bool
	if v.roundData, ok = v.futureMessages[v.currentHeight]; !ok {
		v.roundData = make(roundMap[V, H, A])
	} else {
		delete(v.futureMessages, v.currentHeight)
	}
}

func (v *VoteCounter[V, H, A]) getRoundData(
	height types.Height,
	round types.Round,
) (*roundData[V, H, A], bool) {
	if height < v.currentHeight {
		return nil, false
	}

	var roundData roundMap[V, H, A]
	if height == v.currentHeight {
		roundData = v.roundData
	} else {
		var ok bool
		if roundData, ok = v.futureMessages[height]; !ok {
			roundData = make(roundMap[V, H, A])
			v.futureMessages[height] = roundData
		}
	}

	return getOrCreateRoundData(roundData, round), true
}

func getOrCreateRoundData[V types.Hashable[H], H types.Hash, A types.Addr](
	roundMap map[types.Round]*roundData[V, H, A],
	round types.Round,
) *roundData[V, H, A] {
	entry, ok := roundMap[round]
	if !ok {
		entry = new(newRoundData[V, H, A]())
		roundMap[round] = entry
	}
	return entry
}

func (v *VoteCounter[V, H, A]) AddProposal(proposal *types.Proposal[V, H, A]) bool {
	roundData, ok := v.getRoundData(proposal.Height, proposal.Round)
	if !ok {
		return false
	}

	if expectedProposer := v.validators.Proposer(proposal.Height, proposal.Round); proposal.Sender != expectedProposer {
		return false
	}

	votingPower := v.validators.ValidatorVotingPower(proposal.Height, &proposal.Sender)

	return roundData.setProposal(proposal, votingPower)
}

func (v *VoteCounter[V, H, A]) AddPrevote(prevote *types.Prevote[H, A]) bool {
	roundData, ok := v.getRoundData(prevote.Height, prevote.Round)
	if !ok {
		return false
	}

	votingPower := v.validators.ValidatorVotingPower(prevote.Height, &prevote.Sender)

	return roundData.addVote((*types.Vote[H, A])(prevote), votingPower, Prevote)
}

func (v *VoteCounter[V, H, A]) AddPrecommit(precommit *types.Precommit[H, A]) bool {
	roundData, ok := v.getRoundData(precommit.Height, precommit.Round)
	if !ok {
		return false
	}

	votingPower := v.validators.ValidatorVotingPower(precommit.Height, &precommit.Sender)

	return roundData.addVote((*types.Vote[H, A])(precommit), votingPower, Precommit)
}

func (v *VoteCounter[V, H, A]) GetProposal(round types.Round) *types.Proposal[V, H, A] {
	roundData, ok := v.roundData[round]
	if !ok {
		return nil
	}

	return roundData.proposal
}

func (v *VoteCounter[V, H, A]) HasQuorumForVote(round types.Round, voteType VoteType, id *H) bool {
	roundData, ok := v.roundData[round]
	if !ok {
		return false
	}

	return roundData.countVote(voteType, id) >= v.quorumVotingPower
}

func (v *VoteCounter[V, H, A]) HasQuorumForAny(round types.Round, voteType VoteType) bool {
	roundData, ok := v.roundData[round]
	if !ok {
		return false
	}

	return roundData.countAny(voteType) >= v.quorumVotingPower
}

func (v *VoteCounter[V, H, A]) HasFuturePrecommitQuorum(
	height types.Height,
	round types.Round,
	id *H,
) bool {
	roundData, ok := v.getRoundData(height, round)
	if !ok {
		return false
	}

	return roundData.countVote(Precommit, id) >= v.quorumVotingPower
}

func (v *VoteCounter[V, H, A]) HasNonFaultyFutureMessage(round types.Round) bool {
	roundData, ok := v.roundData[round]
	if !ok {
		return false
	}

	return roundData.countFutureMessageSenders() > v.faultyVotingPower
}

func (v *VoteCounter[V, H, A]) Proposer(round types.Round) A {
	return v.validators.Proposer(v.currentHeight, round)
}

// Todo: add separate unit tests to check f and q thresholds.
func f(totalVotingPower types.VotingPower) types.VotingPower {
	// note: integer division automatically floors the result as it return the quotient.
	return (totalVotingPower - 1) / 3
}

func q(totalVotingPower types.VotingPower) types.VotingPower {
	// Unfortunately there is no ceiling function for integers in go.
	d := totalVotingPower * 2
	q := d / 3
	r := d % 3
	if r > 3 {
		q++
	}
	return q
}

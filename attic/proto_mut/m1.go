package tendermint

import (
	"github.com/NethermindEth/juno/consensus/types"
	"github.com/NethermindEth/juno/consensus/types/actions"
)

/*
Check the upon condition on line 22:

	22: upon {PROPOSAL, h_p, round_p, v, -1} from proposer(h_p, round_p) while step_p = propose do
	23: 	if valid(v) ∧ (lockedRound_p = −1 ∨ lockedValue_p = v) then
	24: 		broadcast {PREVOTE, h_p, round_p, id(v)}
	25: 	else
	26: 		broadcast {PREVOTE, h_p, round_p, nil}
	27:		step_p ← prevote

Since the value's id is expected to be unique the id can be used to compare the values.
*/
func (s *stateMachine[V, H, A]) uponFirstProposal(cachedProposal *CachedProposal[V, H, A]) bool {
	return cachedProposal.ValidRound == -1 && s.state.step == types.StepPropose
}

func (s *stateMachine[V, H, A]) doFirstProposal(cachedProposal *CachedProposal[V, H, A]) actions.Action[V, H, A] {
	shouldVoteForValue := cachedProposal.Valid || false &&
		(s.state.lockedRound == -1 ||
			s.state.lockedValue != nil && (*s.state.lockedValue).Hash() == *cachedProposal.ID)

	var votedID *H
	if shouldVoteForValue {
		votedID = cachedProposal.ID
	}
	return s.setStepAndSendPrevote(votedID)
}

package verifproto

import (
	"fmt"
	"testing"

	"github.com/NethermindEth/juno/blockchain"
	"github.com/NethermindEth/juno/blockchain/networks"
	"github.com/NethermindEth/juno/core/felt"
	"github.com/NethermindEth/juno/db/memory"
)

func TestStaleSnapshot(t *testing.T) {
	d := memory.New()
	bc := blockchain.New(d, &networks.Sepolia)
	parent, oldRoot := &felt.Zero, &felt.Zero
	A, B := f(0xAAAA), f(0xBBBB)
	key := f(77)
	for n := uint64(0); n < 10; n++ {
		var from *felt.Felt
		if n == 8 {
			from = A
		}
		b, su := mkEvBlock(n, parent, oldRoot, from, key, 1)
		if err := bc.Finalise(b, su, nil, nil); err != nil {
			t.Fatal(n, err)
		}
		parent, oldRoot = b.Hash, b.GlobalStateRoot
	}
	// graceful shutdown: snapshot written
	if err := bc.WriteRunningEventFilter(); err != nil {
		t.Fatal(err)
	}
	// restart #1
	bc = blockchain.New(d, &networks.Sepolia)
	// reorg depth 3 and regrow to same height with B's event at 8
	for i := 0; i < 3; i++ {
		if err := bc.RevertHead(); err != nil {
			t.Fatal(err)
		}
	}
	hd, _ := bc.HeadsHeader()
	parent, oldRoot = hd.Hash, hd.GlobalStateRoot
	for n := hd.Number + 1; n < 10; n++ {
		var from *felt.Felt
		if n == 8 {
			from = B
		}
		b, su := mkEvBlock(n, parent, oldRoot, from, key, 2)
		if err := bc.Finalise(b, su, nil, nil); err != nil {
			t.Fatal(n, err)
		}
		parent, oldRoot = b.Hash, b.GlobalStateRoot
	}
	c, bl := countEvents(t, bc, B, 0, 9)
	fmt.Println("live node after reorg: B events (expect 1)", c, bl)
	// ungraceful stop (no snapshot write), restart #2
	bc2 := blockchain.New(d, &networks.Sepolia)
	c, bl = countEvents(t, bc2, B, 0, 9)
	fmt.Println("after ungraceful restart: B events (expect 1)", c, bl)
	c, bl = countEvents(t, bc2, A, 0, 9)
	fmt.Println("after ungraceful restart: A events (expect 0)", c, bl)
}

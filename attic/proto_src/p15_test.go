package verifproto

import (
	"fmt"
	"math/big"
	mrand "math/rand"
	"math/rand/v2"
	"sort"
	"testing"

	"github.com/NethermindEth/juno/core/crypto"
	"github.com/NethermindEth/juno/core/felt"
	"github.com/NethermindEth/juno/core/trie"
	"github.com/NethermindEth/juno/core/trie2"
)

type kv struct {
	k *big.Int
	v *felt.Felt
}

// refRoot: hash of the subtree that holds `items` (sorted, distinct), all of which share the
// top (height-depth) .. bits; `depth` bits have been consumed. Returns the node hash as seen by
// its parent (edge compression applied).
func refRoot(items []kv, height, depth int, h crypto.HashFn) felt.Felt {
	if len(items) == 0 {
		return felt.Zero
	}
	// longest common prefix length (in bits, from depth)
	lcp := height - depth
	if len(items) > 1 {
		x := new(big.Int).Xor(items[0].k, items[len(items)-1].k)
		// highest differing bit position (0 = LSB) within the remaining (height-depth) bits
		lcp = (height - depth) - x.BitLen()
	}
	var child felt.Felt
	if depth+lcp == height {
		child = *items[0].v
	} else {
		bit := height - depth - lcp - 1 // bit index that splits
		idx := sort.Search(len(items), func(i int) bool { return items[i].k.Bit(bit) == 1 })
		l := refRoot(items[:idx], height, depth+lcp+1, h)
		r := refRoot(items[idx:], height, depth+lcp+1, h)
		child = h(&l, &r)
	}
	if lcp == 0 {
		return child
	}
	// edge: path = the lcp bits following `depth`
	path := new(big.Int).Rsh(items[0].k, uint(height-depth-lcp))
	mask := new(big.Int).Sub(new(big.Int).Lsh(big.NewInt(1), uint(lcp)), big.NewInt(1))
	path.And(path, mask)
	pf := new(felt.Felt).SetBigInt(path)
	e := h(&child, pf)
	e.Add(&e, new(felt.Felt).SetUint64(uint64(lcp)))
	return e
}

func TestRefRoot(t *testing.T) {
	rng := rand.New(rand.NewPCG(1, 2))
	mism := 0
	for iter := 0; iter < 300; iter++ {
		n := 1 + rng.IntN(12)
		m := map[string]kv{}
		base := new(big.Int).Rand(mrand.New(mrand.NewSource(int64(rng.Uint64()>>1))), new(big.Int).Lsh(big.NewInt(1), 251))
		for len(m) < n {
			k := new(big.Int).Set(base)
			// flip a few low/high bits to create shared prefixes
			for j := 0; j < 1+rng.IntN(3); j++ {
				b := rng.IntN(251)
				if rng.IntN(2) == 0 {
					b = rng.IntN(4)
				}
				k.SetBit(k, b, k.Bit(b)^1)
			}
			m[k.String()] = kv{k, felt.NewFromUint64[felt.Felt](uint64(1 + rng.IntN(1000)))}
		}
		var items []kv
		for _, x := range m {
			items = append(items, x)
		}
		sort.Slice(items, func(i, j int) bool { return items[i].k.Cmp(items[j].k) < 0 })
		want := refRoot(items, 251, 0, crypto.Pedersen)
		var got1, got2 felt.Felt
		trie.RunOnTempTriePedersen(251, func(tr *trie.Trie) error {
			for _, it := range items {
				tr.Update(new(felt.Felt).SetBigInt(it.k), it.v)
			}
			got1, _ = tr.Hash()
			return nil
		})
		trie2.RunOnTempTriePedersen(251, func(tr *trie2.Trie) error {
			for _, it := range items {
				tr.Update(new(felt.Felt).SetBigInt(it.k), it.v)
			}
			got2, _ = tr.Hash()
			return nil
		})
		if !want.Equal(&got1) || !want.Equal(&got2) {
			mism++
			if mism < 3 {
				fmt.Println("mismatch n=", n, want.String(), got1.String(), got2.String())
			}
		}
	}
	fmt.Println("mismatches:", mism, "of 300")
}


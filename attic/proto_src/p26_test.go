package verifproto

import (
	"context"
	"fmt"
	"testing"
	"time"

	"github.com/NethermindEth/juno/blockchain"
	"github.com/NethermindEth/juno/blockchain/networks"
	"github.com/NethermindEth/juno/core"
	"github.com/NethermindEth/juno/db/memory"
	"github.com/NethermindEth/juno/feed"
	"github.com/NethermindEth/juno/pruner"
	"github.com/NethermindEth/juno/utils/log"
)

func TestPrunerRunMini(t *testing.T) {
	mem := memory.New()
	floor := &pruner.RetentionFloor{}
	bc := blockchain.New(mem, &networks.Sepolia, blockchain.WithRetentionFloor(floor))
	blocks := buildStorageChain(t, bc, 60)
	floor.Seed(mem)
	heads := feed.New[*core.Block]()
	headSub := heads.Subscribe()
	l1Sub := bc.SubscribeL1Head()
	var pruned []string
	p := pruner.New(mem, floor, 5, headSub, l1Sub.Subscription, log.NewNopZapLogger(),
		pruner.WithL2HeadsPerPrune(1),
		pruner.WithListener(&pruner.SelectiveListener{
			OnPruneCb: func(oldest, n uint64, _ time.Duration) {
				pruned = append(pruned, fmt.Sprintf("prune oldestKept=%d blocks=%d", oldest, n))
			},
			OnPruneErrorCb: func(err error) { pruned = append(pruned, "ERR "+err.Error()) },
		}))
	ctx, cancel := context.WithCancel(context.Background())
	done := make(chan error, 1)
	go func() { done <- p.Run(ctx) }()
	sendL1 := func(n uint64) {
		h := &core.L1Head{BlockNumber: n, BlockHash: blocks[n].Hash, StateRoot: blocks[n].GlobalStateRoot}
		if err := bc.SetL1Head(h); err != nil { // sends on the feed, then writes
			t.Fatal(err)
		}
	}
	barrier := func(n uint64) { // event handled once a following duplicate has been consumed
		for i := 0; i < 2; i++ {
			sendL1(n)
			for len(l1Sub.Recv()) != 0 {
				time.Sleep(time.Millisecond)
			}
		}
		// one more duplicate so that the second one's handler has returned
		sendL1(n)
		for len(l1Sub.Recv()) != 0 {
			time.Sleep(time.Millisecond)
		}
	}
	barrier(40)
	oldest, _ := pruner.OldestRetainedBlock(mem)
	fmt.Println("after L1 head 40, retained 5: oldest retained =", oldest, "(expect 35)")
	_, err := bc.BlockByNumber(34)
	fmt.Println("block 34:", err)
	_, err = bc.BlockByNumber(35)
	fmt.Println("block 35:", err)
	st, _, err := bc.StateAtBlockNumber(34)
	if err == nil {
		v, verr := st.ContractStorage(f(0x1234), f(7))
		fmt.Println("state at 34 (floor-1): storage", v.String(), verr, "(want 134 = 0x86)")
	} else {
		fmt.Println("state at 34:", err)
	}
	_, _, err = bc.StateAtBlockNumber(33)
	fmt.Println("state at 33:", err)
	cancel()
	<-done
	fmt.Println(pruned)
}

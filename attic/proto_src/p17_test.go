package verifproto

import (
	"fmt"
	"testing"

	"github.com/NethermindEth/juno/blockchain"
	"github.com/NethermindEth/juno/blockchain/networks"
	"github.com/NethermindEth/juno/core"
	"github.com/NethermindEth/juno/core/felt"
	"github.com/NethermindEth/juno/db/memory"
)

func TestRolloverFailedCommit(t *testing.T) {
	fail := false
	d := failDB{memory.New(), &fail}
	bc := blockchain.New(d, &networks.Sepolia)
	parent, oldRoot := &felt.Zero, &felt.Zero
	W := core.NumBlocksPerFilter
	for n := uint64(0); n < W-1; n++ {
		b, su := mkEvBlock(n, parent, oldRoot, nil, nil, 1)
		if err := bc.Finalise(b, su, nil, nil); err != nil {
			t.Fatal(n, err)
		}
		parent, oldRoot = b.Hash, b.GlobalStateRoot
	}
	// block W-1 closes the window: first attempt with failing commit
	b, su := mkEvBlock(W-1, parent, oldRoot, f(0xAAAA), f(77), 1)
	fail = true
	err := bc.Finalise(b, su, nil, nil)
	fmt.Println("store of window-closing block with failing commit ->", err)
	h, _ := bc.Height()
	fmt.Println("height after failed store:", h)
	b2, su2 := mkEvBlock(W-1, parent, oldRoot, f(0xAAAA), f(77), 1)
	err = bc.Finalise(b2, su2, nil, nil)
	fmt.Println("retry of the same block ->", err)
}

package verifproto

import (
	"context"
	"errors"
	"fmt"
	stdsync "sync"
	"testing"
	"time"

	"github.com/NethermindEth/juno/blockchain"
	"github.com/NethermindEth/juno/blockchain/networks"
	"github.com/NethermindEth/juno/core"
	"github.com/NethermindEth/juno/core/felt"
	"github.com/NethermindEth/juno/db/memory"
	"github.com/NethermindEth/juno/starknet"
	jsync "github.com/NethermindEth/juno/sync"
	"github.com/NethermindEth/juno/utils/log"
)

type srcBlock struct {
	b  *core.Block
	su *core.StateUpdate
}

// buildFork builds blocks [from, to) on a builder node that already holds the prefix.
func buildChain(t *testing.T, n uint64, salt uint64, prefix []srcBlock) []srcBlock {
	bc := blockchain.New(memory.New(), &networks.Sepolia)
	out := append([]srcBlock(nil), prefix...)
	parent, oldRoot := &felt.Zero, &felt.Zero
	for _, p := range prefix {
		// re-store prefix on the builder
		b, su := *p.b, *p.su
		if err := bc.Store(&b, &core.BlockCommitments{}, &su, nil); err != nil {
			t.Fatal("prefix store", err)
		}
		parent, oldRoot = p.b.Hash, p.b.GlobalStateRoot
	}
	for i := uint64(len(prefix)); i < n; i++ {
		b, su := mkEvBlock(i, parent, oldRoot, f(0xAAAA), f(1), salt*1000+i)
		if err := bc.Finalise(b, su, nil, nil); err != nil {
			t.Fatal(i, err)
		}
		parent, oldRoot = b.Hash, b.GlobalStateRoot
		out = append(out, srcBlock{b, su})
	}
	return out
}

type scriptedSource struct {
	mu       stdsync.Mutex
	chain    []srcBlock
	requests int
}

func (s *scriptedSource) BlockByNumber(ctx context.Context, n uint64) (jsync.CommittedBlock, error) {
	s.mu.Lock()
	s.requests++
	if n >= uint64(len(s.chain)) {
		s.mu.Unlock()
		time.Sleep(time.Millisecond)
		return jsync.CommittedBlock{}, errors.New("not found")
	}
	sb := s.chain[n]
	s.mu.Unlock()
	b, su := *sb.b, *sb.su
	return jsync.CommittedBlock{Block: &b, StateUpdate: &su, NewClasses: nil, Persisted: make(chan error, 1)}, nil
}

func (s *scriptedSource) BlockHeaderLatest(ctx context.Context) (*core.Header, error) {
	s.mu.Lock()
	defer s.mu.Unlock()
	return s.chain[len(s.chain)-1].b.Header, nil
}

func (s *scriptedSource) PreConfirmedBlockByNumber(context.Context, uint64, string, uint64) (starknet.PreConfirmedUpdate, error) {
	return nil, errors.New("no")
}

func (s *scriptedSource) PreConfirmedBlockLatest(context.Context, string, uint64) (starknet.PreConfirmedUpdate, uint64, error) {
	return nil, 0, errors.New("no")
}

func (s *scriptedSource) Class(context.Context, *felt.Felt) (core.ClassDefinition, error) {
	return nil, errors.New("no")
}

func TestSyncMini(t *testing.T) {
	chainA := buildChain(t, 20, 1, nil)
	chainB := buildChain(t, 25, 2, chainA[:12])
	src := &scriptedSource{chain: chainA}
	db := memory.New()
	bc := blockchain.New(db, &networks.Sepolia)
	s := jsync.New(bc, src, log.NewNopZapLogger(), 0, false, db)
	heads := s.SubscribeNewHeads()
	reorgs := s.SubscribeReorg()
	var mu stdsync.Mutex
	var events []string
	drain := func() {
		for {
			select {
			case h := <-heads.Recv():
				events = append(events, fmt.Sprintf("head %d", h.Number))
			case r := <-reorgs.Recv():
				events = append(events, fmt.Sprintf("reorg [%d,%d]", r.StartBlockNum, r.EndBlockNum))
			default:
				return
			}
		}
	}
	s.WithListener(&jsync.SelectiveListener{
		OnSyncStepDoneCb: func(op string, n uint64, _ time.Duration) {
			if op == jsync.OpStore {
				mu.Lock()
				drain()
				events = append(events, fmt.Sprintf("stored %d", n))
				mu.Unlock()
			}
		},
		OnReorgCb: func(n uint64) {
			mu.Lock()
			drain()
			events = append(events, fmt.Sprintf("reverted %d", n))
			mu.Unlock()
		},
	})
	ctx, cancel := context.WithCancel(context.Background())
	done := make(chan struct{})
	go func() { s.Run(ctx); close(done) }()
	waitHeight := func(h uint64, hash *felt.Felt) {
		for i := 0; i < 5000; i++ {
			hd, err := bc.HeadsHeader()
			if err == nil && hd.Number == h && hd.Hash.Equal(hash) {
				return
			}
			time.Sleep(2 * time.Millisecond)
		}
		t.Fatal("no convergence")
	}
	waitHeight(19, chainA[19].b.Hash)
	src.mu.Lock()
	src.chain = chainB
	src.mu.Unlock()
	waitHeight(24, chainB[24].b.Hash)
	cancel()
	<-done
	mu.Lock()
	drain()
	mu.Unlock()
	fmt.Println("requests:", src.requests)
	fmt.Println(events)
}

package verifproto

import (
	"math/big"
	"fmt"
	"reflect"
	"sort"
	"testing"

	"github.com/NethermindEth/juno/blockchain"
	"github.com/NethermindEth/juno/blockchain/networks"
	"github.com/NethermindEth/juno/core"
	"github.com/NethermindEth/juno/core/felt"
	"github.com/NethermindEth/juno/db/memory"
)

func tv(v uint64) *core.TransactionVersion { return new(core.TransactionVersion).SetUint64(v) }

func rb() map[core.Resource]core.ResourceBounds {
	return map[core.Resource]core.ResourceBounds{
		core.ResourceL1Gas:     {MaxAmount: 10, MaxPricePerUnit: f(100)},
		core.ResourceL2Gas:     {MaxAmount: 20, MaxPricePerUnit: f(200)},
		core.ResourceL1DataGas: {MaxAmount: 30, MaxPricePerUnit: f(300)},
	}
}

func sampleTxs() map[string]func() core.Transaction {
	return map[string]func() core.Transaction{
		"invoke-v0": func() core.Transaction {
			return &core.InvokeTransaction{CallData: []felt.Felt{*f(1)}, TransactionSignature: []felt.Felt{*f(2)}, MaxFee: f(3), ContractAddress: f(4), Version: tv(0), EntryPointSelector: f(5)}
		},
		"invoke-v1": func() core.Transaction {
			return &core.InvokeTransaction{CallData: []felt.Felt{*f(1)}, TransactionSignature: []felt.Felt{*f(2)}, MaxFee: f(3), ContractAddress: f(4), Version: tv(1), Nonce: f(6), SenderAddress: f(4)}
		},
		"invoke-v3": func() core.Transaction {
			return &core.InvokeTransaction{CallData: []felt.Felt{*f(1)}, TransactionSignature: []felt.Felt{*f(2)}, Version: tv(3), Nonce: f(6), SenderAddress: f(4), ResourceBounds: rb(), Tip: 1, PaymasterData: []felt.Felt{*f(9)}, AccountDeploymentData: []felt.Felt{*f(8)}, ProofFacts: []felt.Felt{*f(7)}}
		},
		"declare-v1": func() core.Transaction {
			return &core.DeclareTransaction{ClassHash: f(1), SenderAddress: f(2), MaxFee: f(3), TransactionSignature: []felt.Felt{*f(4)}, Nonce: f(5), Version: tv(1)}
		},
		"declare-v2": func() core.Transaction {
			return &core.DeclareTransaction{ClassHash: f(1), SenderAddress: f(2), MaxFee: f(3), TransactionSignature: []felt.Felt{*f(4)}, Nonce: f(5), Version: tv(2), CompiledClassHash: f(6)}
		},
		"declare-v3": func() core.Transaction {
			return &core.DeclareTransaction{ClassHash: f(1), SenderAddress: f(2), TransactionSignature: []felt.Felt{*f(4)}, Nonce: f(5), Version: tv(3), CompiledClassHash: f(6), ResourceBounds: rb(), Tip: 1, PaymasterData: []felt.Felt{*f(9)}, AccountDeploymentData: []felt.Felt{*f(8)}}
		},
		"deploy_account-v1": func() core.Transaction {
			return &core.DeployAccountTransaction{DeployTransaction: core.DeployTransaction{ContractAddressSalt: f(1), ContractAddress: f(2), ClassHash: f(3), ConstructorCallData: []felt.Felt{*f(4)}, Version: tv(1)}, MaxFee: f(5), TransactionSignature: []felt.Felt{*f(6)}, Nonce: f(7)}
		},
		"deploy_account-v3": func() core.Transaction {
			return &core.DeployAccountTransaction{DeployTransaction: core.DeployTransaction{ContractAddressSalt: f(1), ContractAddress: f(2), ClassHash: f(3), ConstructorCallData: []felt.Felt{*f(4)}, Version: tv(3)}, TransactionSignature: []felt.Felt{*f(6)}, Nonce: f(7), ResourceBounds: rb(), Tip: 1, PaymasterData: []felt.Felt{*f(9)}}
		},
		"l1_handler-v0": func() core.Transaction {
			return &core.L1HandlerTransaction{ContractAddress: f(1), EntryPointSelector: f(2), Nonce: f(3), CallData: []felt.Felt{*f(4), *f(5)}, Version: tv(0)}
		},
		"deploy-v0": func() core.Transaction {
			return &core.DeployTransaction{TransactionHash: f(0xdead), ContractAddressSalt: f(1), ContractAddress: f(2), ClassHash: f(3), ConstructorCallData: []felt.Felt{*f(4)}, Version: tv(0)}
		},
		"declare-v0": func() core.Transaction {
			return &core.DeclareTransaction{TransactionHash: f(0xbeef), ClassHash: f(1), SenderAddress: f(2), MaxFee: f(3), TransactionSignature: []felt.Felt{*f(4)}, Nonce: f(5), Version: tv(0)}
		},
	}
}

func setHash(tx core.Transaction) {
	h, err := core.TransactionHash(tx, &networks.Sepolia)
	if err != nil {
		panic(err)
	}
	switch t := tx.(type) {
	case *core.InvokeTransaction:
		t.TransactionHash = &h
	case *core.DeclareTransaction:
		t.TransactionHash = &h
	case *core.DeployAccountTransaction:
		t.TransactionHash = &h
	case *core.L1HandlerTransaction:
		t.TransactionHash = &h
	case *core.DeployTransaction:
		t.TransactionHash = &h
	}
}

// mutateField changes field `name` (possibly nested in embedded struct) in a type-appropriate way. Returns false if not applicable.
func mutateField(v reflect.Value, name string) bool {
	fv := v.FieldByName(name)
	if !fv.IsValid() {
		return false
	}
	switch x := fv.Interface().(type) {
	case *felt.Felt:
		if x == nil {
			fv.Set(reflect.ValueOf(f(1234)))
		} else {
			fv.Set(reflect.ValueOf(new(felt.Felt).Add(x, f(1))))
		}
	case []felt.Felt:
		n := append(append([]felt.Felt(nil), x...), *f(4321))
		fv.Set(reflect.ValueOf(n))
	case uint64:
		fv.SetUint(x + 1)
	case core.DataAvailabilityMode:
		fv.Set(reflect.ValueOf(core.DAModeL2))
	case map[core.Resource]core.ResourceBounds:
		if x == nil {
			return false
		}
		return false // handled separately
	case *core.TransactionVersion:
		nv := new(core.TransactionVersion)
		*nv = *x
		nv.AsFelt().Add(nv.AsFelt(), new(felt.Felt).Exp(f(2), bigInt(128))) // set the query bit
		fv.Set(reflect.ValueOf(nv))
	default:
		return false
	}
	return true
}

func TestTxFieldTable(t *testing.T) {
	mk := sampleTxs()
	var names []string
	for k := range mk {
		names = append(names, k)
	}
	sort.Strings(names)
	try := func(tx core.Transaction) bool { // returns rejected?
		b, su := mkBlock(0, &felt.Zero)
		su.OldRoot = &felt.Zero
		b.Transactions = []core.Transaction{tx}
		b.Receipts = []*core.TransactionReceipt{{Fee: f(1), TransactionHash: tx.Hash(), ExecutionResources: &core.ExecutionResources{TotalGasConsumed: &core.GasConsumed{}}}}
		b.TransactionCount = 1
		b.EventsBloom = core.EventsBloom(b.Receipts)
		builder := blockchain.New(memory.New(), &networks.Sepolia)
		if err := builder.Finalise(b, su, nil, nil); err != nil {
			panic(err)
		}
		return false
	}
	_ = try
	for _, name := range names {
		// build a valid block with the valid tx
		tx := mk[name]()
		if tx.Hash() == nil {
			setHash(tx)
		}
		b, su := mkBlock(0, &felt.Zero)
		su.OldRoot = &felt.Zero
		b.Transactions = []core.Transaction{tx}
		b.Receipts = []*core.TransactionReceipt{{Fee: f(1), TransactionHash: tx.Hash(), ExecutionResources: &core.ExecutionResources{TotalGasConsumed: &core.GasConsumed{}}}}
		b.TransactionCount = 1
		b.EventsBloom = core.EventsBloom(b.Receipts)
		builder := blockchain.New(memory.New(), &networks.Sepolia)
		if err := builder.Finalise(b, su, nil, nil); err != nil {
			t.Fatal(name, err)
		}
		node := blockchain.New(memory.New(), &networks.Sepolia)
		if _, err := node.SanityCheckNewHeight(b, su, nil); err != nil {
			t.Fatal(name, "valid rejected", err)
		}
		// enumerate fields
		rt := reflect.TypeOf(tx).Elem()
		var fields []string
		var walk func(rt reflect.Type)
		walk = func(rt reflect.Type) {
			for i := 0; i < rt.NumField(); i++ {
				sf := rt.Field(i)
				if sf.Anonymous {
					walk(sf.Type)
					continue
				}
				fields = append(fields, sf.Name)
			}
		}
		walk(rt)
		var rej, acc []string
		for _, fld := range fields {
			tx2 := mk[name]()
			if tx2.Hash() == nil {
				setHash(tx2)
			}
			// keep the ORIGINAL hash, mutate one field
			if !mutateField(reflect.ValueOf(tx2).Elem(), fld) {
				continue
			}
			b2 := *b
			hdr := *b.Header
			b2.Header = &hdr
			b2.Transactions = []core.Transaction{tx2}
			_, err := node.SanityCheckNewHeight(&b2, su, nil)
			if err != nil {
				rej = append(rej, fld)
			} else {
				acc = append(acc, fld)
			}
		}
		// resource bounds
		if _, ok := reflect.TypeOf(tx).Elem().FieldByName("ResourceBounds"); ok {
			for _, r := range []core.Resource{core.ResourceL1Gas, core.ResourceL2Gas, core.ResourceL1DataGas} {
				for _, what := range []string{"amount", "price"} {
					tx2 := mk[name]()
					setHash(tx2)
					rbv := reflect.ValueOf(tx2).Elem().FieldByName("ResourceBounds")
					m, _ := rbv.Interface().(map[core.Resource]core.ResourceBounds)
					if m == nil {
						continue
					}
					x := m[r]
					if what == "amount" {
						x.MaxAmount++
					} else {
						x.MaxPricePerUnit = new(felt.Felt).Add(x.MaxPricePerUnit, f(1))
					}
					m[r] = x
					b2 := *b
					hdr := *b.Header
					b2.Header = &hdr
					b2.Transactions = []core.Transaction{tx2}
					_, err := node.SanityCheckNewHeight(&b2, su, nil)
					label := fmt.Sprintf("RB[%s].%s", r.String(), what)
					if err != nil {
						rej = append(rej, label)
					} else {
						acc = append(acc, label)
					}
				}
			}
		}
		fmt.Printf("%-18s REJECTED: %v\n%-18s ACCEPTED: %v\n", name, rej, "", acc)
	}
}

func bigInt(n uint64) *big.Int { return new(big.Int).SetUint64(n) }

package verifproto

import (
	"crypto/rand"
	"fmt"
	"testing"

	"github.com/NethermindEth/juno/consensus/propeller"
	"github.com/NethermindEth/juno/db/pebblev2"
	"github.com/libp2p/go-libp2p/core/crypto"
	"github.com/libp2p/go-libp2p/core/peer"
)

func TestPropeller(t *testing.T) {
	priv, _, _ := crypto.GenerateEd25519Key(rand.Reader)
	var cid propeller.CommitteeID
	msg := []byte("hello world, this is a message")
	units, err := propeller.CreatePropellerUnits(priv, &cid, propeller.Nonce(5), msg, 2, 3)
	if err != nil {
		t.Fatal(err)
	}
	fmt.Println("units", len(units), "nonce in unit0:", units[0].Nonce)
	ptrs := make([]*propeller.Unit, len(units))
	for i := range units {
		ptrs[i] = &units[i]
	}
	m, _, _, err := propeller.ConstructMessageFromUnits(ptrs, 1, 2, 3)
	fmt.Println("full:", string(m), err)
	func() {
		defer func() { fmt.Println("recover:", recover()) }()
		ptrs2 := append([]*propeller.Unit(nil), ptrs...)
		ptrs2[0] = nil
		m, _, _, err := propeller.ConstructMessageFromUnits(ptrs2, 1, 2, 3)
		fmt.Println("missing0:", string(m), err)
	}()
	// validator on own units
	pub, _ := peer.IDFromPrivateKey(priv)
	_ = pub
}

func TestPebbleSnapshotHas(t *testing.T) {
	d, err := pebblev2.New(t.TempDir())
	if err != nil {
		t.Fatal(err)
	}
	defer d.Close()
	s := d.NewSnapshot()
	has, err := s.Has([]byte("missing"))
	fmt.Println("pebble snapshot Has(missing):", has, err)
	s.Close()
}

package verifproto

import (
	"context"
	"errors"
	"fmt"
	"sync"
	"testing"

	"github.com/NethermindEth/juno/blockchain/networks"
	"github.com/NethermindEth/juno/core"
	"github.com/NethermindEth/juno/core/felt"
	"github.com/NethermindEth/juno/db"
	"github.com/NethermindEth/juno/db/memory"
	"github.com/NethermindEth/juno/migration/blocktransactions"
	"github.com/NethermindEth/juno/migration/blocktransactions/txlayout"
	"github.com/NethermindEth/juno/utils/log"
)

type crashDB struct {
	db.KeyValueStore
	mu      *sync.Mutex
	allowed *int // number of batch writes still allowed; <0 = unlimited
}

type crashBatch struct {
	db.Batch
	d crashDB
}

func (b crashBatch) Write() error {
	b.d.mu.Lock()
	defer b.d.mu.Unlock()
	if *b.d.allowed == 0 {
		return errors.New("crashed")
	}
	if *b.d.allowed > 0 {
		*b.d.allowed--
	}
	return b.Batch.Write()
}

func (d crashDB) NewBatch() db.Batch              { return crashBatch{d.KeyValueStore.NewBatch(), d} }
func (d crashDB) NewBatchWithSize(n int) db.Batch { return crashBatch{d.KeyValueStore.NewBatchWithSize(n), d} }

func TestMigrationResume(t *testing.T) {
	for allowed := 1; allowed <= 3; allowed++ {
		mem := memory.New()
		const height = 79
		if err := core.WriteChainHeight(mem, height); err != nil {
			t.Fatal(err)
		}
		want := map[uint64]int{}
		for n := uint64(0); n <= height; n++ {
			b, _ := mkEvBlock(n, &felt.Zero, &felt.Zero, f(0xAAAA), f(1), n)
			hdr := core.Header{Number: n, TransactionCount: 1}
			if err := core.BlockHeadersByNumberBucket.Put(mem, n, &hdr); err != nil {
				t.Fatal(err)
			}
			if err := txlayout.TransactionLayoutPerTx.WriteTransactionsAndReceipts(mem, n, b.Transactions, b.Receipts); err != nil {
				t.Fatal(err)
			}
			want[n] = 1
		}
		a := allowed
		cdb := crashDB{mem, &sync.Mutex{}, &a}
		_, err := blocktransactions.Migrator{}.Migrate(context.Background(), cdb, &networks.Sepolia, log.NewNopZapLogger())
		fmt.Printf("allowed=%d first run err=%v\n", allowed, err)
		// "restart": rerun on the surviving content, no faults
		unlimited := -1
		cdb2 := crashDB{mem, &sync.Mutex{}, &unlimited}
		st, err := blocktransactions.Migrator{}.Migrate(context.Background(), cdb2, &networks.Sepolia, log.NewNopZapLogger())
		fmt.Printf("allowed=%d rerun state=%v err=%v\n", allowed, st, err)
		bad := 0
		for n := uint64(0); n <= height; n++ {
			txs, err := core.GetTransactionsByBlockNumber(mem, n)
			if err != nil || len(txs) != want[n] {
				bad++
				if bad < 4 {
					fmt.Printf("  block %d: txs=%d err=%v\n", n, len(txs), err)
				}
			}
		}
		fmt.Printf("allowed=%d blocks with lost transactions after resume: %d of %d\n", allowed, bad, height+1)
	}
}

package verifproto

import (
	"context"
	"fmt"
	"sync"
	"testing"

	"github.com/NethermindEth/juno/blockchain"
	"github.com/NethermindEth/juno/blockchain/networks"
	"github.com/NethermindEth/juno/core"
	"github.com/NethermindEth/juno/core/felt"
	"github.com/NethermindEth/juno/db/memory"
	"github.com/NethermindEth/juno/pruner"
)

func buildStorageChain(t *testing.T, bc *blockchain.Blockchain, n uint64) []*core.Block {
	parent, oldRoot := &felt.Zero, &felt.Zero
	addr := f(0x1234)
	var blocks []*core.Block
	for i := uint64(0); i < n; i++ {
		b, su := mkEvBlock(i, parent, oldRoot, f(0xAAAA), f(1), i)
		if i == 0 {
			su.StateDiff.DeployedContracts[*addr] = f(0xabc)
		}
		su.StateDiff.StorageDiffs[*addr] = map[felt.Felt]*felt.Felt{*f(7): f(100 + i)}
		if err := bc.Finalise(b, su, nil, nil); err != nil {
			t.Fatal(i, err)
		}
		parent, oldRoot = b.Hash, b.GlobalStateRoot
		blocks = append(blocks, b)
	}
	return blocks
}

func TestPrunePartial(t *testing.T) {
	mem := memory.New()
	bc := blockchain.New(mem, &networks.Sepolia)
	blocks := buildStorageChain(t, bc, 40)
	// crash after the first batch write of PruneUpto (batch threshold 1 byte => one batch per block)
	allowed := 5
	cdb := crashDB{mem, &sync.Mutex{}, &allowed}
	_, _, err := pruner.PruneUpto(context.Background(), cdb, 30, 1)
	fmt.Println("PruneUpto(30) with crash after 5 batch writes ->", err)
	oldest, _ := pruner.OldestRetainedBlock(mem)
	fmt.Println("oldest retained after crash:", oldest)
	// restart: fresh floor + fresh blockchain
	floor, _ := pruner.NewRetentionFloor(mem)
	bc2 := blockchain.New(mem, &networks.Sepolia, blockchain.WithRetentionFloor(floor))
	for _, n := range []uint64{0, 2, 3, 4, 5, 10} {
		rerr := pruner.RequireRetained(mem, n)
		blk, berr := bc2.BlockByNumber(n)
		var txErr error
		if blk != nil && len(blk.Transactions) > 0 {
			_, txErr = bc2.TransactionByHash(blk.Transactions[0].Hash())
		}
		st, _, serr := bc2.StateAtBlockNumber(n)
		var v felt.Felt
		var verr error
		if serr == nil {
			v, verr = st.ContractStorage(f(0x1234), f(7))
		}
		fmt.Printf("block %d: RequireRetained=%v BlockByNumber err=%v TxByHash err=%v state err=%v storage[7]=%s (want %d) verr=%v\n",
			n, rerr, berr, txErr, serr, v.String(), 100+n, verr)
	}
	_ = blocks
}

func TestNewStateHashBelowFloor(t *testing.T) {
	for _, newState := range []bool{false, true} {
		mem := memory.New()
		floor := &pruner.RetentionFloor{}
		bc := blockchain.New(mem, &networks.Sepolia, blockchain.WithNewState(newState), blockchain.WithRetentionFloor(floor))
		blocks := buildStorageChain(t, bc, 40)
		floor.Seed(mem)
		_, kept, err := pruner.PruneUpto(context.Background(), mem, 30, 1<<20)
		floor.Seed(mem)
		fmt.Println("newState", newState, "pruned, oldest kept", kept, err)
		for _, n := range []uint64{5, 28, 29, 30} {
			_, _, e1 := bc.StateAtBlockNumber(n)
			st, _, e2 := bc.StateAtBlockHash(blocks[n].Hash)
			var v felt.Felt
			var verr error
			if e2 == nil {
				v, verr = st.ContractStorage(f(0x1234), f(7))
			}
			fmt.Printf("  block %d: StateAtBlockNumber err=%v | StateAtBlockHash err=%v storage=%s (want %d) verr=%v\n", n, e1, e2, v.String(), 100+n, verr)
		}
	}
}

package verifproto

import (
	"fmt"
	"reflect"
	"testing"

	"github.com/NethermindEth/juno/blockchain"
	"github.com/NethermindEth/juno/blockchain/networks"
	"github.com/NethermindEth/juno/core"
	"github.com/NethermindEth/juno/db/memory"
	"github.com/davecgh/go-spew/spew"
)

func TestRoundTrip(t *testing.T) {
	b, su := v3Block(t)
	node := blockchain.New(memory.New(), &networks.Sepolia)
	c, err := node.SanityCheckNewHeight(b, su, nil)
	if err != nil {
		t.Fatal(err)
	}
	if err := node.Store(b, c, su, nil); err != nil {
		t.Fatal(err)
	}
	got, err := node.BlockByNumber(0)
	if err != nil {
		t.Fatal(err)
	}
	cfg := spew.ConfigState{DisablePointerAddresses: true, DisableCapacities: true, SortKeys: true, Indent: " "}
	fmt.Println("tx equal:", reflect.DeepEqual(b.Transactions, got.Transactions))
	if !reflect.DeepEqual(b.Transactions, got.Transactions) {
		fmt.Println(cfg.Sdump(b.Transactions[0]))
		fmt.Println(cfg.Sdump(got.Transactions[0]))
	}
	fmt.Println("receipts equal:", reflect.DeepEqual(b.Receipts, got.Receipts))
	if !reflect.DeepEqual(b.Receipts, got.Receipts) {
		fmt.Println(cfg.Sdump(b.Receipts[0]))
		fmt.Println(cfg.Sdump(got.Receipts[0]))
	}
	hb, hg := *b.Header, *got.Header
	hb.EventsBloom, hg.EventsBloom = nil, nil
	fmt.Println("header (sans bloom) equal:", reflect.DeepEqual(hb, hg))
	if !reflect.DeepEqual(hb, hg) {
		fmt.Println(cfg.Sdump(hb))
		fmt.Println(cfg.Sdump(hg))
	}
	fmt.Println("bloom equal:", b.EventsBloom.Equal(got.EventsBloom))
	gsu, _ := node.StateUpdateByNumber(0)
	fmt.Println("state update equal:", reflect.DeepEqual(su, gsu))
	if !reflect.DeepEqual(su, gsu) {
		fmt.Println(cfg.Sdump(su))
		fmt.Println(cfg.Sdump(gsu))
	}
	gc, _ := node.BlockCommitmentsByNumber(0)
	fmt.Println("commitments equal:", reflect.DeepEqual(c, gc))
	var _ = core.Header{}
}

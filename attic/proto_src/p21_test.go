package verifproto

import (
	"fmt"
	"math/rand/v2"
	"os"
	"strconv"
	"testing"

	"github.com/NethermindEth/juno/consensus/starknet"
	"github.com/NethermindEth/juno/consensus/tendermint"
	"github.com/NethermindEth/juno/consensus/types"
	"github.com/NethermindEth/juno/consensus/types/actions"
	"github.com/NethermindEth/juno/core/felt"
	"github.com/NethermindEth/juno/utils/log"
)

type SM = tendermint.StateMachine[starknet.Value, starknet.Hash, starknet.Address]

func hashOf(x uint64) *starknet.Hash { return felt.NewFromUint64[felt.Hash](x) }

// TestTendermintAdversary: validators 0..2 correct, 3 byzantine. Random adversarial scheduling.
func TestTendermintAdversary(t *testing.T) {
	runs := 20000
	if s := os.Getenv("TM_RUNS"); s != "" {
		runs, _ = strconv.Atoi(s)
	}
	var addrs []starknet.Address
	for i := uint64(1); i <= 4; i++ {
		addrs = append(addrs, *felt.NewFromUint64[felt.Address](i))
	}
	v := vals{addrs}
	const byz = 3
	disagreements, doubleVotes, decidedRuns := 0, 0, 0
	maxRound := types.Round(0)
	for seed := uint64(0); seed < uint64(runs); seed++ {
		rng := rand.New(rand.NewPCG(seed, 4242))
		sms := make([]SM, 3)
		for i := range sms {
			sms[i] = tendermint.New[starknet.Value, starknet.Hash, starknet.Address](log.NewNopZapLogger(), addrs[i], detApp{uint64(i)}, v, 1)
		}
		var pool []netMsg
		commits := map[int]uint64{}
		values := []uint64{7000, 7001, 7002, 7003} // ids of values the apps / byz may propose
		type voteKey struct {
			who  int
			kind int
			r    types.Round
		}
		sent := map[voteKey]string{}
		recordVote := func(who, kind int, r types.Round, id *starknet.Hash) {
			s := "nil"
			if id != nil {
				s = (*felt.Felt)(id).String()
			}
			k := voteKey{who, kind, r}
			if old, ok := sent[k]; ok && old != s {
				doubleVotes++
			}
			sent[k] = s
			if r > maxRound {
				maxRound = r
			}
		}
		handle := func(from int, acts []actions.Action[starknet.Value, starknet.Hash, starknet.Address]) {
			for _, a := range acts {
				switch a := a.(type) {
				case *starknet.BroadcastProposal:
					for j := 0; j < 3; j++ {
						if j != from {
							pool = append(pool, netMsg{j, (*starknet.Proposal)(a)})
						}
					}
				case *starknet.BroadcastPrevote:
					recordVote(from, 0, a.Round, a.ID)
					for j := 0; j < 3; j++ {
						if j != from {
							pool = append(pool, netMsg{j, (*starknet.Prevote)(a)})
						}
					}
				case *starknet.BroadcastPrecommit:
					recordVote(from, 1, a.Round, a.ID)
					for j := 0; j < 3; j++ {
						if j != from {
							pool = append(pool, netMsg{j, (*starknet.Precommit)(a)})
						}
					}
				case *actions.ScheduleTimeout:
					pool = append(pool, netMsg{from, types.Timeout(*a)})
				case *starknet.Commit:
					h := a.Value.Hash()
					commits[from] = (*felt.Felt)(&h).Uint64()
				}
			}
		}
		deliver := func(m netMsg) {
			if _, done := commits[m.to]; done {
				return
			}
			switch x := m.msg.(type) {
			case *starknet.Proposal:
				handle(m.to, sms[m.to].ProcessProposal(x))
			case *starknet.Prevote:
				handle(m.to, sms[m.to].ProcessPrevote(x))
			case *starknet.Precommit:
				handle(m.to, sms[m.to].ProcessPrecommit(x))
			case types.Timeout:
				handle(m.to, sms[m.to].ProcessTimeout(x))
			}
		}
		for i := range sms {
			handle(i, sms[i].ProcessStart(0))
		}
		for step := 0; step < 400 && len(commits) < 3; step++ {
			c := rng.IntN(100)
			switch {
			case c < 30: // byzantine injection
				to := rng.IntN(3)
				r := types.Round(rng.IntN(3))
				var id *starknet.Hash
				if rng.IntN(4) != 0 {
					id = hashOf(values[rng.IntN(len(values))])
				}
				hdr := types.MessageHeader[starknet.Address]{Height: 1, Round: r, Sender: addrs[byz]}
				switch rng.IntN(3) {
				case 0:
					deliver(netMsg{to, &starknet.Prevote{MessageHeader: hdr, ID: id}})
				case 1:
					deliver(netMsg{to, &starknet.Precommit{MessageHeader: hdr, ID: id}})
				case 2:
					// proposal only counts when byz is the proposer of that round
					if v.Proposer(1, r) == addrs[byz] {
						val := starknet.Value(*hashOf(values[rng.IntN(len(values))]))
						vr := types.Round(rng.IntN(int(r)+1)) - 1
						deliver(netMsg{to, &starknet.Proposal{MessageHeader: hdr, ValidRound: vr, Value: &val}})
					}
				}
			case len(pool) > 0:
				k := rng.IntN(len(pool))
				m := pool[k]
				pool[k] = pool[len(pool)-1]
				pool = pool[:len(pool)-1]
				if c >= 95 { // loss
					continue
				}
				if c >= 90 { // duplicate: keep it in flight as well
					pool = append(pool, m)
				}
				deliver(m)
			}
		}
		distinct := map[uint64]bool{}
		for _, c := range commits {
			distinct[c] = true
		}
		if len(distinct) > 1 {
			disagreements++
			if disagreements <= 3 {
				fmt.Println("DISAGREEMENT seed", seed, commits)
			}
		}
		if len(commits) == 3 {
			decidedRuns++
		}
	}
	fmt.Printf("runs=%d disagreements=%d doubleVotes=%d allDecided=%d maxRound=%d\n", runs, disagreements, doubleVotes, decidedRuns, maxRound)
}

package verifproto

import (
	"fmt"
	"math/rand/v2"
	stdsync "sync"
	"sync/atomic"
	"testing"

	"github.com/NethermindEth/juno/blockchain"
	"github.com/NethermindEth/juno/blockchain/networks"
	"github.com/NethermindEth/juno/core/felt"
	"github.com/NethermindEth/juno/db/memory"
)

func TestRaceStress(t *testing.T) {
	for _, newState := range []bool{false, true} {
		bc := blockchain.New(memory.New(), &networks.Sepolia, blockchain.WithNewState(newState))
		var stop atomic.Bool
		var wg stdsync.WaitGroup
		var reads atomic.Int64
		for r := 0; r < 8; r++ {
			wg.Add(1)
			go func(r int) {
				defer wg.Done()
				rng := rand.New(rand.NewPCG(uint64(r), 1))
				for !stop.Load() {
					h, err := bc.Height()
					if err != nil {
						continue
					}
					n := uint64(rng.IntN(int(h) + 1))
					switch rng.IntN(5) {
					case 0:
						bc.BlockByNumber(n)
					case 1:
						if st, _, err := bc.HeadState(); err == nil {
							st.ContractStorage(f(0x100), f(2))
							st.ContractNonce(f(0x100))
						}
					case 2:
						if st, _, err := bc.StateAtBlockNumber(n); err == nil {
							st.ContractStorage(f(0x100), f(2))
							st.ContractClassHash(f(0x101))
						}
					case 3:
						if ef, err := bc.EventFilter([]felt.Address{felt.Address(*f(0xAAAA))}, nil, nil); err == nil {
							ef.Events(nil, 50)
						}
					case 4:
						bc.Head()
					}
					reads.Add(1)
				}
			}(r)
		}
		rng := rand.New(rand.NewPCG(99, 1))
		cur := mState{}
		var hist []mState
		parent, oldRoot := &felt.Zero, &felt.Zero
		type hr struct{ h, r *felt.Felt }
		var chain []hr
		for step := 0; step < 300; step++ {
			if len(chain) > 3 && rng.IntN(6) == 0 {
				if err := bc.RevertHead(); err != nil {
					t.Fatal(err)
				}
				chain = chain[:len(chain)-1]
				hist = hist[:len(hist)-1]
				cur = hist[len(hist)-1].clone()
				parent, oldRoot = chain[len(chain)-1].h, chain[len(chain)-1].r
				continue
			}
			n := uint64(len(chain))
			b, su := mkEvBlock(n, parent, oldRoot, f(0xAAAA), f(1), uint64(step))
			genDiff(rng, cur, su, newState)
			if err := bc.Finalise(b, su, nil, nil); err != nil {
				t.Fatal(err)
			}
			parent, oldRoot = b.Hash, b.GlobalStateRoot
			chain = append(chain, hr{b.Hash, b.GlobalStateRoot})
			hist = append(hist, cur.clone())
		}
		stop.Store(true)
		wg.Wait()
		fmt.Println("newState", newState, "reads", reads.Load(), "final height", len(chain)-1)
	}
}

package verifproto

import (
	"errors"
	"fmt"
	"math/rand/v2"
	"sort"
	"testing"

	"github.com/NethermindEth/juno/blockchain"
	"github.com/NethermindEth/juno/blockchain/networks"
	"github.com/NethermindEth/juno/core"
	"github.com/NethermindEth/juno/core/felt"
	"github.com/NethermindEth/juno/db"
	"github.com/NethermindEth/juno/db/memory"
)

type mContract struct {
	class   uint64
	nonce   uint64
	storage map[uint64]uint64
}

type mState map[uint64]*mContract // addr -> contract

func (s mState) clone() mState {
	o := mState{}
	for a, c := range s {
		nc := &mContract{c.class, c.nonce, map[uint64]uint64{}}
		for k, v := range c.storage {
			nc.storage[k] = v
		}
		o[a] = nc
	}
	return o
}

func TestHistoryModel(t *testing.T) {
	mismatches := map[string]int{}
	note := func(kind string, format string, args ...any) {
		mismatches[kind]++
		if mismatches[kind] <= 3 {
			fmt.Printf("["+kind+"] "+format+"\n", args...)
		}
	}
	for _, newState := range []bool{false, true} {
		for seed := uint64(1); seed <= 30; seed++ {
			rng := rand.New(rand.NewPCG(seed, 7))
			bc := blockchain.New(memory.New(), &networks.Sepolia, blockchain.WithNewState(newState))
			parent, oldRoot := &felt.Zero, &felt.Zero
			cur := mState{}
			var hist []mState
			var hashes []*felt.Felt
			addrs := []uint64{0x100, 0x101, 0x200, 0x201}
			slots := []uint64{2, 3, 8, 9, 1000}
			nBlocks := 6 + rng.IntN(8)
			for n := uint64(0); n < uint64(nBlocks); n++ {
				b, su := mkBlock(n, parent)
				su.OldRoot = oldRoot
				for _, a := range addrs {
					c, ok := cur[a]
					if !ok {
						if rng.IntN(3) == 0 {
							cls := uint64(0xc0 + rng.IntN(3))
							su.StateDiff.DeployedContracts[*f(a)] = f(cls)
							c = &mContract{cls, 0, map[uint64]uint64{}}
							cur[a] = c
						} else {
							continue
						}
					}
					if rng.IntN(3) == 0 {
						c.nonce++
						su.StateDiff.Nonces[*f(a)] = f(c.nonce)
					}
					if _, justDeployed := su.StateDiff.DeployedContracts[*f(a)]; !justDeployed && rng.IntN(5) == 0 {
						c.class = uint64(0xd0 + rng.IntN(3))
						su.StateDiff.ReplacedClasses[*f(a)] = f(c.class)
					}
					for _, s := range slots {
						if rng.IntN(3) != 0 {
							continue
						}
						var v uint64
						switch rng.IntN(4) {
						case 0:
							v = 0
						case 1:
							v = c.storage[s] // same value rewrite (may be zero => no-op zero write)
						default:
							v = 1 + uint64(rng.IntN(50))
						}
						if !newState && v == 0 && c.storage[s] == 0 {
							continue // avoid the known legacy revert defect input (not reverting here, but keep clean)
						}
						if su.StateDiff.StorageDiffs[*f(a)] == nil {
							su.StateDiff.StorageDiffs[*f(a)] = map[felt.Felt]*felt.Felt{}
						}
						su.StateDiff.StorageDiffs[*f(a)][*f(s)] = f(v)
						if v == 0 {
							delete(c.storage, s)
						} else {
							c.storage[s] = v
						}
					}
				}
				if err := bc.Finalise(b, su, nil, nil); err != nil {
					t.Fatal(seed, n, err)
				}
				parent, oldRoot = b.Hash, b.GlobalStateRoot
				hist = append(hist, cur.clone())
				hashes = append(hashes, b.Hash)
			}
			check := func(label string, st core.StateReader, want mState, n int) {
				probeAddrs := append([]uint64{0x999}, addrs...)
				for _, a := range probeAddrs {
					wc, exists := want[a]
					ch, err := st.ContractClassHash(f(a))
					if exists {
						if err != nil || !ch.Equal(f(wc.class)) {
							note(label+"/class", "newState=%v seed=%d block=%d addr=%x got=%s err=%v want=%x", newState, seed, n, a, ch.String(), err, wc.class)
						}
					} else if !errors.Is(err, db.ErrKeyNotFound) {
						note(label+"/class-nonexistent", "newState=%v seed=%d block=%d addr=%x got=%s err=%v", newState, seed, n, a, ch.String(), err)
					}
					nn, err := st.ContractNonce(f(a))
					if exists {
						if err != nil || !nn.Equal(f(wc.nonce)) {
							note(label+"/nonce", "newState=%v seed=%d block=%d addr=%x got=%s err=%v want=%d", newState, seed, n, a, nn.String(), err, wc.nonce)
						}
					} else if !errors.Is(err, db.ErrKeyNotFound) {
						note(label+"/nonce-nonexistent", "newState=%v seed=%d block=%d addr=%x got=%s err=%v", newState, seed, n, a, nn.String(), err)
					}
					for _, s := range append([]uint64{77}, slots...) {
						v, err := st.ContractStorage(f(a), f(s))
						if exists {
							if err != nil || !v.Equal(f(wc.storage[s])) {
								note(label+"/storage", "newState=%v seed=%d block=%d addr=%x slot=%d got=%s err=%v want=%d", newState, seed, n, a, s, v.String(), err, wc.storage[s])
							}
						} else {
							if err == nil && !v.IsZero() {
								note(label+"/storage-nonexistent-nonzero", "newState=%v seed=%d block=%d addr=%x slot=%d got=%s", newState, seed, n, a, s, v.String())
							}
							if err == nil {
								mismatches["info:"+label+"/storage-nonexistent-zero-noerr"]++
							} else {
								mismatches["info:"+label+"/storage-nonexistent-err"]++
							}
						}
					}
				}
			}
			for n := range hist {
				st, _, err := bc.StateAtBlockNumber(uint64(n))
				if err != nil {
					t.Fatal(err)
				}
				check("byNumber", st, hist[n], n)
				st2, _, err := bc.StateAtBlockHash(hashes[n])
				if err != nil {
					t.Fatal(err)
				}
				check("byHash", st2, hist[n], n)
			}
			hs, _, err := bc.HeadState()
			if err != nil {
				t.Fatal(err)
			}
			check("head", hs, hist[len(hist)-1], len(hist)-1)
		}
	}
	var keys []string
	for k := range mismatches {
		keys = append(keys, k)
	}
	sort.Strings(keys)
	for _, k := range keys {
		fmt.Println(k, mismatches[k])
	}
}

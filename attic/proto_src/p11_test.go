package verifproto

import (
	"fmt"
	"os"
	"testing"

	"github.com/NethermindEth/juno/consensus/starknet"
	"github.com/NethermindEth/juno/consensus/types"
	"github.com/NethermindEth/juno/consensus/walstore"
	"github.com/NethermindEth/juno/consensus/types/wal"
	"github.com/NethermindEth/juno/core/felt"
	"github.com/NethermindEth/juno/db/memory"
)

type pathDB struct {
	*memory.Database
	path string
}

func (p pathDB) Path() string { return p.path }

// TestWALChild: run with WAL_DIR env; performs a short script and prints progress lines.
func TestWALChild(t *testing.T) {
	dir := os.Getenv("WAL_DIR")
	if dir == "" {
		t.Skip()
	}
	ws, err := walstore.NewTendermintWALStore[starknet.Value, starknet.Hash, starknet.Address](pathDB{memory.New(), dir})
	if err != nil {
		fmt.Println("OPEN-ERR", err)
		return
	}
	n := 0
	for e, err := range ws.LoadAllEntries() {
		_ = e
		if err != nil {
			fmt.Println("LOAD-ERR", err)
		}
		n++
	}
	fmt.Println("LOADED", n)
	if os.Getenv("WAL_READONLY") != "" {
		return
	}
	for h := types.Height(1); h <= 300; h++ {
		for r := 0; r < 2; r++ {
			id := felt.NewFromUint64[felt.Hash](uint64(h)*10 + uint64(r))
			pv := wal.Prevote[starknet.Hash, starknet.Address]{
				MessageHeader: types.MessageHeader[starknet.Address]{Height: h, Round: types.Round(r), Sender: *felt.NewFromUint64[felt.Address](3)},
				ID:            id,
			}
			if err := ws.SetWALEntry(&pv); err != nil {
				fmt.Println("SET-ERR", err)
			}
			fmt.Println("FLUSH-CALL", h, r)
			err := ws.Flush()
			fmt.Println("FLUSH-RET", h, r, err)
		}
		if err := ws.DeleteWALEntries(h); err != nil {
			fmt.Println("DEL-ERR", err)
		}
		fmt.Println("PRUNE-FLUSH-CALL", h)
		err := ws.Flush()
		fmt.Println("PRUNE-FLUSH-RET", h, err)
	}
	fmt.Println("CLOSE", ws.Close())
}

package verifproto

import (
	"context"
	"errors"
	"fmt"
	"math/big"
	stdsync "sync"
	"testing"
	"time"

	"github.com/NethermindEth/juno/blockchain"
	"github.com/NethermindEth/juno/blockchain/networks"
	"github.com/NethermindEth/juno/core"
	"github.com/NethermindEth/juno/db/memory"
	"github.com/NethermindEth/juno/l1"
	"github.com/NethermindEth/juno/utils/log"
)

type l1Sub struct{ errCh chan error }

func (s *l1Sub) Err() <-chan error { return s.errCh }
func (s *l1Sub) Unsubscribe()      {}

type scriptedL1 struct {
	mu        stdsync.Mutex
	finalised uint64
	latest    uint64
	sink      chan<- *l1.StateUpdate
	sub       *l1Sub
	polls     int
	history   []*l1.StateUpdate // for FilterStateUpdate
	subs      int
}

func (p *scriptedL1) ChainID(context.Context) (*big.Int, error) {
	return networks.Sepolia.L1ChainID, nil
}
func (p *scriptedL1) FinalisedHeight(context.Context) (uint64, error) {
	p.mu.Lock()
	defer p.mu.Unlock()
	p.polls++
	return p.finalised, nil
}
func (p *scriptedL1) LatestHeight(context.Context) (uint64, error) {
	p.mu.Lock()
	defer p.mu.Unlock()
	return p.latest, nil
}
func (p *scriptedL1) WatchStateUpdate(ctx context.Context, ch chan<- *l1.StateUpdate) (l1.Subscription, error) {
	p.mu.Lock()
	defer p.mu.Unlock()
	p.subs++
	if p.subs == 1 {
		return nil, errors.New("first subscribe fails")
	}
	p.sink = ch
	p.sub = &l1Sub{make(chan error, 1)}
	return p.sub, nil
}
func (p *scriptedL1) FilterStateUpdate(ctx context.Context, from, to uint64) ([]*l1.StateUpdate, error) {
	p.mu.Lock()
	defer p.mu.Unlock()
	var out []*l1.StateUpdate
	for _, e := range p.history {
		if e.L1RefHeight >= from && e.L1RefHeight <= to {
			out = append(out, e)
		}
	}
	return out, nil
}
func (p *scriptedL1) Close() {}

func TestL1Mini(t *testing.T) {
	bc := blockchain.New(memory.New(), &networks.Sepolia)
	p := &scriptedL1{finalised: 100, latest: 130}
	ev := func(l1h, l2 uint64, removed bool) *l1.StateUpdate {
		return &l1.StateUpdate{L2BlockNumber: l2, L2BlockHash: *f(l2 + 1000), StateRoot: *f(l2 + 2000), L1RefHeight: l1h, Removed: removed}
	}
	p.history = []*l1.StateUpdate{ev(50, 5, false), ev(90, 9, false), ev(120, 12, false)}
	var heads []uint64
	var hmu stdsync.Mutex
	c := l1.NewClient(p, bc, log.NewNopZapLogger(),
		l1.WithResubscribeDelay(time.Millisecond),
		l1.WithPollFinalisedInterval(time.Millisecond),
		l1.WithCatchUpChunkSize(20),
		l1.WithEventListener(l1.SelectiveListener{OnNewL1HeadCb: func(h *core.L1Head) {
			hmu.Lock()
			heads = append(heads, h.BlockNumber)
			hmu.Unlock()
		}}),
	)
	ctx, cancel := context.WithCancel(context.Background())
	done := make(chan error, 1)
	go func() { done <- c.Run(ctx) }()
	waitPolls := func(n int) {
		p.mu.Lock()
		target := p.polls + n
		p.mu.Unlock()
		for {
			p.mu.Lock()
			ok := p.polls >= target && (p.sink == nil || len(p.sink) == 0)
			p.mu.Unlock()
			if ok {
				return
			}
			time.Sleep(time.Millisecond)
		}
	}
	waitSink := func() {
		for {
			p.mu.Lock()
			s := p.sink
			p.mu.Unlock()
			if s != nil {
				return
			}
			time.Sleep(time.Millisecond)
		}
	}
	waitSink()
	waitPolls(2)
	h, err := bc.L1Head()
	fmt.Println("after catch-up: L1 head", h.BlockNumber, err, "(expect 9: highest finalised among 50,90,120 with finalised=100)")
	// live: event at 125 (l2 13), then finalise 121 -> expect 12; then removal of 125; new event at 124 (l2 14); finalise 130 -> expect 14
	p.sink <- ev(125, 13, false)
	p.mu.Lock()
	p.finalised = 121
	p.mu.Unlock()
	waitPolls(2)
	h, _ = bc.L1Head()
	fmt.Println("finalised=121: L1 head", h.BlockNumber, "(expect 12)")
	p.sink <- ev(125, 13, true)
	p.sink <- ev(124, 14, false)
	// subscription failure -> resubscribe
	p.sub.errCh <- errors.New("boom")
	time.Sleep(20 * time.Millisecond)
	p.mu.Lock()
	p.finalised = 130
	p.mu.Unlock()
	waitPolls(2)
	h, _ = bc.L1Head()
	fmt.Println("finalised=130 after removal: L1 head", h.BlockNumber, "(expect 14)")
	cancel()
	<-done
	hmu.Lock()
	fmt.Println("head sequence:", heads, "subscriptions:", p.subs)
	hmu.Unlock()
}

package verifproto

import (
	"testing"
	"time"

	"github.com/anishathalye/porcupine"
)

func TestPorc(t *testing.T) {
	m := porcupine.Model{
		Init: func() any { return "" },
		Step: func(st, in, out any) (bool, any) { return true, st },
	}
	res := porcupine.CheckOperations(m, []porcupine.Operation{{ClientId: 0, Input: 1, Call: 1, Output: 2, Return: 2}})
	_ = time.Second
	t.Log(res)
}

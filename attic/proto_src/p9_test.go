package verifproto

import (
	"context"
	"fmt"
	"sync"
	"testing"
	"time"

	"github.com/NethermindEth/juno/consensus/driver"
	"github.com/NethermindEth/juno/consensus/p2p"
	"github.com/NethermindEth/juno/consensus/starknet"
	"github.com/NethermindEth/juno/consensus/tendermint"
	"github.com/NethermindEth/juno/consensus/types"
	"github.com/NethermindEth/juno/consensus/walstore"
	"github.com/NethermindEth/juno/core/felt"
	"github.com/NethermindEth/juno/db/pebblev2"
	jsync "github.com/NethermindEth/juno/sync"
	"github.com/NethermindEth/juno/utils/log"
)

type lst[M any] struct{ ch chan M }

func (l lst[M]) Listen() <-chan M { return l.ch }

type bc[M any] struct {
	mu   *gosync
	name string
	log  *[]string
	str  func(M) string
}
type gosync = syncMutex
type syncMutex struct{ sync.Mutex }

func (b bc[M]) Broadcast(_ context.Context, m M) {
	b.mu.Lock()
	defer b.mu.Unlock()
	*b.log = append(*b.log, b.name+" "+b.str(m))
}

type vals struct{ addrs []starknet.Address }

func (v vals) TotalVotingPower(types.Height) types.VotingPower { return types.VotingPower(len(v.addrs)) }
func (v vals) ValidatorVotingPower(types.Height, *starknet.Address) types.VotingPower {
	return 1
}
func (v vals) Proposer(h types.Height, r types.Round) starknet.Address {
	return v.addrs[(int(h)+int(r))%len(v.addrs)]
}

type freshApp struct{ n *uint64 }

func (a freshApp) Value() starknet.Value {
	*a.n++
	return starknet.Value(*felt.NewFromUint64[felt.Hash](1000 + *a.n))
}
func (a freshApp) Valid(starknet.Value) bool { return true }

type cl struct{}

func (cl) OnCommit(context.Context, types.Height, starknet.Value) bool { return true }
func (cl) Listen() <-chan jsync.CommittedBlock                          { return nil }

func TestDriverRestart(t *testing.T) {
	dir := t.TempDir()
	var addrs []starknet.Address
	for i := uint64(1); i <= 4; i++ {
		addrs = append(addrs, *felt.NewFromUint64[felt.Address](i))
	}
	v := vals{addrs}
	height := types.Height(1)
	me := v.Proposer(height, 0)
	counter := uint64(0)
	var blog []string
	mu := &gosync{}
	hs := func(h *starknet.Hash) string {
		if h == nil {
			return "nil"
		}
		return (*felt.Felt)(h).String()
	}
	run := func(tag string) {
		pdb, err := pebblev2.New(dir)
		if err != nil {
			t.Fatal(err)
		}
		defer pdb.Close()
		ws, err := walstore.NewTendermintWALStore[starknet.Value, starknet.Hash, starknet.Address](pdb)
		if err != nil {
			t.Fatal(err)
		}
		sm := tendermint.New[starknet.Value, starknet.Hash, starknet.Address](log.NewNopZapLogger(), me, freshApp{&counter}, v, height)
		br := p2p.Broadcasters[starknet.Value, starknet.Hash, starknet.Address]{
			ProposalBroadcaster: bc[*starknet.Proposal]{mu, tag + " PROPOSAL", &blog, func(p *starknet.Proposal) string {
				h := p.Value.Hash()
				return fmt.Sprintf("h=%d r=%d v=%s", p.Height, p.Round, hs(&h))
			}},
			PrevoteBroadcaster: bc[*starknet.Prevote]{mu, tag + " PREVOTE", &blog, func(p *starknet.Prevote) string {
				return fmt.Sprintf("h=%d r=%d id=%s", p.Height, p.Round, hs(p.ID))
			}},
			PrecommitBroadcaster: bc[*starknet.Precommit]{mu, tag + " PRECOMMIT", &blog, func(p *starknet.Precommit) string {
				return fmt.Sprintf("h=%d r=%d id=%s", p.Height, p.Round, hs(p.ID))
			}},
		}
		ls := p2p.Listeners[starknet.Value, starknet.Hash, starknet.Address]{
			ProposalListener:  lst[*starknet.Proposal]{make(chan *starknet.Proposal)},
			PrevoteListener:   lst[*starknet.Prevote]{make(chan *starknet.Prevote)},
			PrecommitListener: lst[*starknet.Precommit]{make(chan *starknet.Precommit)},
		}
		d := driver.New[starknet.Value, starknet.Hash, starknet.Address](log.NewNopZapLogger(), ws, sm, cl{}, br, ls, nil, nil,
			func(types.Step, types.Round) time.Duration { return time.Hour })
		ctx, cancel := context.WithCancel(context.Background())
		done := make(chan error, 1)
		go func() { done <- d.Run(ctx) }()
		time.Sleep(300 * time.Millisecond)
		cancel()
		fmt.Println(tag, "run ->", <-done)
	}
	run("run1")
	run("run2")
	for _, l := range blog {
		fmt.Println(l)
	}
}

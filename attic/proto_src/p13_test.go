package verifproto

import (
	"fmt"
	"math/rand/v2"
	"testing"

	"github.com/NethermindEth/juno/consensus/starknet"
	"github.com/NethermindEth/juno/consensus/tendermint"
	"github.com/NethermindEth/juno/consensus/types"
	"github.com/NethermindEth/juno/consensus/types/actions"
	"github.com/NethermindEth/juno/core/felt"
	"github.com/NethermindEth/juno/utils/log"
)

type detApp struct{ id uint64 }

func (a detApp) Value() starknet.Value {
	return starknet.Value(*felt.NewFromUint64[felt.Hash](7000 + a.id))
}
func (a detApp) Valid(starknet.Value) bool { return true }

type netMsg struct {
	to  int
	msg any // *starknet.Proposal | *starknet.Prevote | *starknet.Precommit | types.Timeout
}

func TestTendermintSmoke(t *testing.T) {
	var addrs []starknet.Address
	for i := uint64(1); i <= 4; i++ {
		addrs = append(addrs, *felt.NewFromUint64[felt.Address](i))
	}
	v := vals{addrs}
	decided := 0
	for seed := uint64(0); seed < 200; seed++ {
		rng := rand.New(rand.NewPCG(seed, 99))
		sms := make([]tendermint.StateMachine[starknet.Value, starknet.Hash, starknet.Address], 4)
		for i := range sms {
			sms[i] = tendermint.New[starknet.Value, starknet.Hash, starknet.Address](log.NewNopZapLogger(), addrs[i], detApp{uint64(i)}, v, 1)
		}
		var pool []netMsg
		commits := map[int]string{}
		handle := func(from int, acts []actions.Action[starknet.Value, starknet.Hash, starknet.Address]) {
			for _, a := range acts {
				switch a := a.(type) {
				case *starknet.BroadcastProposal:
					for j := range sms {
						if j != from {
							pool = append(pool, netMsg{j, (*starknet.Proposal)(a)})
						}
					}
				case *starknet.BroadcastPrevote:
					for j := range sms {
						if j != from {
							pool = append(pool, netMsg{j, (*starknet.Prevote)(a)})
						}
					}
				case *starknet.BroadcastPrecommit:
					for j := range sms {
						if j != from {
							pool = append(pool, netMsg{j, (*starknet.Precommit)(a)})
						}
					}
				case *actions.ScheduleTimeout:
					pool = append(pool, netMsg{from, types.Timeout(*a)})
				case *starknet.Commit:
					h := a.Value.Hash()
					commits[from] = (*felt.Felt)(&h).String()
				}
			}
		}
		for i := range sms {
			handle(i, sms[i].ProcessStart(0))
		}
		for step := 0; step < 5000 && len(pool) > 0 && len(commits) < 4; step++ {
			k := rng.IntN(len(pool))
			m := pool[k]
			pool[k] = pool[len(pool)-1]
			pool = pool[:len(pool)-1]
			if _, done := commits[m.to]; done {
				continue
			}
			switch x := m.msg.(type) {
			case *starknet.Proposal:
				handle(m.to, sms[m.to].ProcessProposal(x))
			case *starknet.Prevote:
				handle(m.to, sms[m.to].ProcessPrevote(x))
			case *starknet.Precommit:
				handle(m.to, sms[m.to].ProcessPrecommit(x))
			case types.Timeout:
				handle(m.to, sms[m.to].ProcessTimeout(x))
			}
		}
		vals := map[string]bool{}
		for _, c := range commits {
			vals[c] = true
		}
		if len(vals) > 1 {
			t.Fatalf("seed %d disagreement %v", seed, commits)
		}
		if len(commits) == 4 {
			decided++
		}
	}
	fmt.Println("runs with all 4 decided:", decided, "of 200")
}

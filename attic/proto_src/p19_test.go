package verifproto

import (
	"bytes"
	"fmt"
	"math/rand/v2"
	"sort"
	"testing"

	"github.com/NethermindEth/juno/blockchain"
	"github.com/NethermindEth/juno/blockchain/networks"
	"github.com/NethermindEth/juno/core"
	"github.com/NethermindEth/juno/core/felt"
	"github.com/NethermindEth/juno/db"
	"github.com/NethermindEth/juno/db/memory"
)

// genDiff mutates model `cur` and fills su.StateDiff.
func genDiff(rng *rand.Rand, cur mState, su *core.StateUpdate, allowNoopZero bool) {
	addrs := []uint64{0x100, 0x101, 0x200, 0x201}
	slots := []uint64{2, 3, 8, 9, 1000}
	for _, a := range addrs {
		c, ok := cur[a]
		if !ok {
			if rng.IntN(3) == 0 {
				cls := uint64(0xc0 + rng.IntN(3))
				su.StateDiff.DeployedContracts[*f(a)] = f(cls)
				c = &mContract{cls, 0, map[uint64]uint64{}}
				cur[a] = c
			} else {
				continue
			}
		}
		if rng.IntN(3) == 0 {
			c.nonce++
			su.StateDiff.Nonces[*f(a)] = f(c.nonce)
		}
		if _, justDeployed := su.StateDiff.DeployedContracts[*f(a)]; !justDeployed && rng.IntN(5) == 0 {
			c.class = uint64(0xd0 + rng.IntN(3))
			su.StateDiff.ReplacedClasses[*f(a)] = f(c.class)
		}
		for _, s := range slots {
			if rng.IntN(3) != 0 {
				continue
			}
			var v uint64
			switch rng.IntN(4) {
			case 0:
				v = 0
			case 1:
				v = c.storage[s]
			default:
				v = 1 + uint64(rng.IntN(50))
			}
			if !allowNoopZero && v == 0 && c.storage[s] == 0 {
				continue
			}
			if su.StateDiff.StorageDiffs[*f(a)] == nil {
				su.StateDiff.StorageDiffs[*f(a)] = map[felt.Felt]*felt.Felt{}
			}
			su.StateDiff.StorageDiffs[*f(a)][*f(s)] = f(v)
			if v == 0 {
				delete(c.storage, s)
			} else {
				c.storage[s] = v
			}
		}
	}
}

func dumpKV(d db.KeyValueStore) map[string][]byte {
	out := map[string][]byte{}
	it, _ := d.NewIterator(nil, false)
	defer it.Close()
	for ok := it.First(); ok; ok = it.Next() {
		v, _ := it.Value()
		out[string(it.Key())] = v
	}
	return out
}

func TestForkConvergence(t *testing.T) {
	diffBuckets := map[string]int{}
	runs := 0
	detail, detail2 := 0, 0
	for _, newState := range []bool{false, true} {
		for seed := uint64(1); seed <= 40; seed++ {
			rng := rand.New(rand.NewPCG(seed, 11))
			// builder produces prefix+X, then (on a copy) prefix+Y
			type blk struct {
				b  *core.Block
				su *core.StateUpdate
			}
			build := func(bc *blockchain.Blockchain, from uint64, n int, parent, oldRoot *felt.Felt, cur mState, salt uint64) []blk {
				var out []blk
				for i := 0; i < n; i++ {
					b, su := mkEvBlock(from+uint64(i), parent, oldRoot, f(0xAAAA), f(1), salt*1000+from+uint64(i))
					genDiff(rng, cur, su, newState) // legacy: avoid known revert defect input
					if err := bc.Finalise(b, su, nil, nil); err != nil {
						t.Fatal(err)
					}
					parent, oldRoot = b.Hash, b.GlobalStateRoot
					out = append(out, blk{b, su})
				}
				return out
			}
			p := 2 + rng.IntN(4)
			x := 1 + rng.IntN(4)
			y := 1 + rng.IntN(4)
			builder := blockchain.New(memory.New(), &networks.Sepolia, blockchain.WithNewState(newState))
			cur := mState{}
			prefix := build(builder, 0, p, &felt.Zero, &felt.Zero, cur, 1)
			last := prefix[len(prefix)-1]
			curAtFork := cur.clone()
			xs := build(builder, uint64(p), x, last.b.Hash, last.b.GlobalStateRoot, cur, 2)
			for range xs {
				if err := builder.RevertHead(); err != nil {
					t.Fatalf("newState=%v seed=%d builder revert: %v", newState, seed, err)
				}
			}
			ys := build(builder, uint64(p), y, last.b.Hash, last.b.GlobalStateRoot, curAtFork, 3)

			store := func(bc *blockchain.Blockchain, bs []blk) {
				for _, k := range bs {
					b, su := *k.b, *k.su
					c, err := bc.SanityCheckNewHeight(&b, &su, nil)
					if err != nil {
						t.Fatal("sanity", err)
					}
					if err := bc.Store(&b, c, &su, nil); err != nil {
						t.Fatal("store", err)
					}
				}
			}
			dA, dB := memory.New(), memory.New()
			A := blockchain.New(dA, &networks.Sepolia, blockchain.WithNewState(newState))
			B := blockchain.New(dB, &networks.Sepolia, blockchain.WithNewState(newState))
			store(A, prefix)
			store(A, xs)
			for range xs {
				if err := A.RevertHead(); err != nil {
					t.Fatalf("newState=%v seed=%d A revert: %v", newState, seed, err)
				}
			}
			store(A, ys)
			store(B, prefix)
			store(B, ys)
			ka, kb := dumpKV(dA), dumpKV(dB)
			runs++
			for k, v := range ka {
				if w, ok := kb[k]; !ok {
					if detail < 12 { detail++; fmt.Printf("onlyA newState=%v seed=%d key=%x val=%x\n", newState, seed, k, v) }
					diffBuckets[fmt.Sprintf("newState=%v onlyA bucket=%s", newState, db.Bucket(k[0]))]++
				} else if !bytes.Equal(v, w) {
					if detail2 < 6 { detail2++; fmt.Printf("differ newState=%v seed=%d key=%x\n   A=%x\n   B=%x\n", newState, seed, k, v, w) }
					diffBuckets[fmt.Sprintf("newState=%v differ bucket=%s", newState, db.Bucket(k[0]))]++
				}
			}
			for k := range kb {
				if _, ok := ka[k]; !ok {
					diffBuckets[fmt.Sprintf("newState=%v onlyB bucket=%s", newState, db.Bucket(k[0]))]++
				}
			}
		}
	}
	var keys []string
	for k := range diffBuckets {
		keys = append(keys, k)
	}
	sort.Strings(keys)
	fmt.Println("runs:", runs)
	for _, k := range keys {
		fmt.Println(k, diffBuckets[k])
	}
}

package verifproto

import (
	"fmt"
	"testing"

	"github.com/NethermindEth/juno/core/felt"
	"github.com/NethermindEth/juno/core/trie"
	"github.com/NethermindEth/juno/core/trie2"
)

func TestRangeProofSibling(t *testing.T) {
	keys := []*felt.Felt{f(5), f(0x1000), f(0x1001), f(0x7000)}
	vals := []*felt.Felt{f(55), f(66), f(77), f(88)}
	trie.RunOnTempTriePedersen(251, func(tr *trie.Trie) error {
		for i := range keys {
			tr.Update(keys[i], vals[i])
		}
		root, _ := tr.Hash()
		// honest single-element range at the left sibling
		ps := trie.NewProofNodeSet()
		if err := tr.GetRangeProof(keys[1], keys[1], ps); err != nil {
			t.Fatal(err)
		}
		more, err := trie.VerifyRangeProof(&root, keys[1], []*felt.Felt{keys[1]}, []*felt.Felt{vals[1]}, ps)
		fmt.Println("legacy: range [0x1000] only -> hasMore", more, "err", err, "(right sibling 0x1001 and 0x7000 exist: hasMore must be true)")
		// range covering left sibling to 0x7000 but omitting the right sibling 0x1001
		ps2 := trie.NewProofNodeSet()
		tr.GetRangeProof(keys[1], keys[3], ps2)
		more, err = trie.VerifyRangeProof(&root, keys[1], []*felt.Felt{keys[1], keys[3]}, []*felt.Felt{vals[1], vals[3]}, ps2)
		fmt.Println("legacy: range [0x1000, 0x7000] omitting 0x1001 -> hasMore", more, "err", err, "(must be rejected)")
		// range [5 .. 0x1001] omitting 0x1000 (left sibling removed, last key is right sibling)
		ps3 := trie.NewProofNodeSet()
		tr.GetRangeProof(keys[0], keys[2], ps3)
		more, err = trie.VerifyRangeProof(&root, keys[0], []*felt.Felt{keys[0], keys[2]}, []*felt.Felt{vals[0], vals[2]}, ps3)
		fmt.Println("legacy: range [5, 0x1001] omitting 0x1000 -> hasMore", more, "err", err, "(must be rejected)")
		return nil
	})
	trie2.RunOnTempTriePedersen(251, func(tr *trie2.Trie) error {
		for i := range keys {
			tr.Update(keys[i], vals[i])
		}
		root, _ := tr.Hash()
		ps := trie2.NewProofNodeSet()
		if err := tr.GetRangeProof(keys[1], keys[1], ps); err != nil {
			t.Fatal(err)
		}
		more, err := trie2.VerifyRangeProof(&root, keys[1], []*felt.Felt{keys[1]}, []*felt.Felt{vals[1]}, ps)
		fmt.Println("trie2: range [0x1000] only -> hasMore", more, "err", err)
		ps2 := trie2.NewProofNodeSet()
		tr.GetRangeProof(keys[1], keys[3], ps2)
		more, err = trie2.VerifyRangeProof(&root, keys[1], []*felt.Felt{keys[1], keys[3]}, []*felt.Felt{vals[1], vals[3]}, ps2)
		fmt.Println("trie2: range [0x1000, 0x7000] omitting 0x1001 -> hasMore", more, "err", err, "(must be rejected)")
		ps3 := trie2.NewProofNodeSet()
		tr.GetRangeProof(keys[0], keys[2], ps3)
		more, err = trie2.VerifyRangeProof(&root, keys[0], []*felt.Felt{keys[0], keys[2]}, []*felt.Felt{vals[0], vals[2]}, ps3)
		fmt.Println("trie2: range [5, 0x1001] omitting 0x1000 -> hasMore", more, "err", err, "(must be rejected)")
		return nil
	})
}

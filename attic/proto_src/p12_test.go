package verifproto

import (
	"fmt"
	"testing"

	"github.com/NethermindEth/juno/blockchain"
	"github.com/NethermindEth/juno/blockchain/networks"
	"github.com/NethermindEth/juno/core"
	"github.com/NethermindEth/juno/core/felt"
	"github.com/NethermindEth/juno/db/memory"
	"github.com/NethermindEth/juno/l1/eth"
)

func v3Block(t *testing.T) (*core.Block, *core.StateUpdate) {
	b, su := mkBlock(0, &felt.Zero)
	su.OldRoot = &felt.Zero
	ver := new(core.TransactionVersion).SetUint64(3)
	tx := &core.InvokeTransaction{
		CallData:             []felt.Felt{*f(1), *f(2)},
		TransactionSignature: []felt.Felt{*f(11), *f(12)},
		Version:              ver,
		Nonce:                f(3),
		SenderAddress:        f(5),
		ResourceBounds: map[core.Resource]core.ResourceBounds{
			core.ResourceL1Gas:     {MaxAmount: 10, MaxPricePerUnit: f(100)},
			core.ResourceL2Gas:     {MaxAmount: 20, MaxPricePerUnit: f(200)},
			core.ResourceL1DataGas: {MaxAmount: 30, MaxPricePerUnit: f(300)},
		},
		Tip:                   7,
		PaymasterData:         []felt.Felt{},
		AccountDeploymentData: []felt.Felt{},
		NonceDAMode:           core.DAModeL1,
		FeeDAMode:             core.DAModeL1,
	}
	h, err := core.TransactionHash(tx, &networks.Sepolia)
	if err != nil {
		t.Fatal(err)
	}
	tx.TransactionHash = &h
	rc := &core.TransactionReceipt{
		Fee:             f(9),
		FeeUnit:         core.STRK,
		Events:          []*core.Event{{From: f(5), Keys: []felt.Felt{*f(1)}, Data: []felt.Felt{*f(2)}}},
		TransactionHash: &h,
		L2ToL1Message:   []*core.L2ToL1Message{{From: f(5), Payload: []felt.Felt{*f(4)}, To: eth.Address{1}}},
		ExecutionResources: &core.ExecutionResources{
			Steps:            5,
			TotalGasConsumed: &core.GasConsumed{L1Gas: 1, L1DataGas: 2, L2Gas: 3},
		},
	}
	b.Transactions = []core.Transaction{tx}
	b.Receipts = []*core.TransactionReceipt{rc}
	b.TransactionCount = 1
	b.EventCount = 1
	b.EventsBloom = core.EventsBloom(b.Receipts)
	su.StateDiff.DeployedContracts[*f(5)] = f(0xabc)
	su.StateDiff.Nonces[*f(5)] = f(4)
	builder := blockchain.New(memory.New(), &networks.Sepolia)
	if err := builder.Finalise(b, su, nil, nil); err != nil {
		t.Fatal(err)
	}
	return b, su
}

func TestTamperSpot(t *testing.T) {
	type tamper struct {
		name string
		fn   func(b *core.Block, su *core.StateUpdate)
	}
	inv := func(b *core.Block) *core.InvokeTransaction { return b.Transactions[0].(*core.InvokeTransaction) }
	ts := []tamper{
		{"none", func(b *core.Block, su *core.StateUpdate) {}},
		{"l2 gas price fri", func(b *core.Block, su *core.StateUpdate) { b.L2GasPrice = &core.GasPrice{PriceInWei: f(5), PriceInFri: f(66)} }},
		{"da mode", func(b *core.Block, su *core.StateUpdate) { b.L1DAMode = core.Calldata }},
		{"timestamp", func(b *core.Block, su *core.StateUpdate) { b.Timestamp++ }},
		{"tx tip", func(b *core.Block, su *core.StateUpdate) { inv(b).Tip++ }},
		{"tx l1 data gas bound amount", func(b *core.Block, su *core.StateUpdate) {
			rb := inv(b).ResourceBounds[core.ResourceL1DataGas]
			rb.MaxAmount++
			inv(b).ResourceBounds[core.ResourceL1DataGas] = rb
		}},
		{"tx fee DA mode", func(b *core.Block, su *core.StateUpdate) { inv(b).FeeDAMode = core.DAModeL2 }},
		{"tx signature", func(b *core.Block, su *core.StateUpdate) { inv(b).TransactionSignature[1] = *f(99) }},
		{"receipt fee", func(b *core.Block, su *core.StateUpdate) { b.Receipts[0].Fee = f(10) }},
		{"receipt L1 gas", func(b *core.Block, su *core.StateUpdate) { b.Receipts[0].ExecutionResources.TotalGasConsumed.L1Gas++ }},
		{"receipt L2 gas (not committed by protocol)", func(b *core.Block, su *core.StateUpdate) { b.Receipts[0].ExecutionResources.TotalGasConsumed.L2Gas++ }},
		{"receipt steps (not committed)", func(b *core.Block, su *core.StateUpdate) { b.Receipts[0].ExecutionResources.Steps++ }},
		{"event data", func(b *core.Block, su *core.StateUpdate) { b.Receipts[0].Events[0].Data[0] = *f(77) }},
		{"message payload", func(b *core.Block, su *core.StateUpdate) { b.Receipts[0].L2ToL1Message[0].Payload[0] = *f(77) }},
		{"reverted flag", func(b *core.Block, su *core.StateUpdate) { b.Receipts[0].Reverted = true; b.Receipts[0].RevertReason = "x" }},
		{"nonce diff value", func(b *core.Block, su *core.StateUpdate) { su.StateDiff.Nonces[*f(5)] = f(5) }},
		{"extra storage diff", func(b *core.Block, su *core.StateUpdate) {
			su.StateDiff.StorageDiffs[*f(5)] = map[felt.Felt]*felt.Felt{*f(1): f(1)}
		}},
		{"events bloom (derived, not committed)", func(b *core.Block, su *core.StateUpdate) { b.EventsBloom = core.EventsBloom(nil) }},
	}
	for _, tm := range ts {
		b, su := v3Block(t)
		tm.fn(b, su)
		node := blockchain.New(memory.New(), &networks.Sepolia)
		c, err := node.SanityCheckNewHeight(b, su, nil)
		var serr error
		if err == nil {
			serr = node.Store(b, c, su, nil)
		}
		fmt.Printf("%-45s sanity=%v store=%v\n", tm.name, err != nil, serr != nil)
	}
}

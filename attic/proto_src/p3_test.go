package verifproto

import (
	"context"
	"fmt"
	"strings"
	"testing"

	"github.com/NethermindEth/juno/blockchain"
	"github.com/NethermindEth/juno/blockchain/networks"
	"github.com/NethermindEth/juno/core/felt"
	"github.com/NethermindEth/juno/db/memory"
	"github.com/NethermindEth/juno/jsonrpc"
	"github.com/NethermindEth/juno/rpc"
	"github.com/NethermindEth/juno/sync"
	"github.com/NethermindEth/juno/utils/log"
)

func TestRPC(t *testing.T) {
	db := memory.New()
	bc := blockchain.New(db, &networks.Sepolia)
	parent := &felt.Zero
	oldRoot := &felt.Zero
	for n := uint64(0); n < 3; n++ {
		b, su := mkBlock(n, parent)
		su.OldRoot = oldRoot
		if err := bc.Finalise(b, su, nil, nil); err != nil {
			t.Fatal(err)
		}
		parent, oldRoot = b.Hash, b.GlobalStateRoot
	}
	logger := log.NewNopZapLogger()
	h := rpc.New(bc, &sync.NoopSynchronizer{}, nil, "v", logger, &networks.Sepolia)
	srv := jsonrpc.NewServer(4, logger)
	methods, path := h.MethodsV0_10()
	fmt.Println("path", path, "methods", len(methods))
	if err := srv.RegisterMethods(methods...); err != nil {
		t.Fatal(err)
	}
	for _, req := range []string{
		`{"jsonrpc":"2.0","id":1,"method":"starknet_blockNumber"}`,
		`{"jsonrpc":"2.0","id":2,"method":"starknet_getBlockWithTxHashes","params":{"block_id":{"block_number":1}}}`,
		`{"jsonrpc":"2.0","id":3,"method":"starknet_getBlockWithTxHashes","params":{"block_id":{"block_number":9}}}`,
		`5`,
		`{"jsonrpc":"2.0","id":4,"method":5}`,
	} {
		resp, _, err := srv.HandleReader(context.Background(), strings.NewReader(req))
		fmt.Println(string(resp), err)
	}
}

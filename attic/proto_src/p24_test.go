package verifproto

import (
	"context"
	"fmt"
	"strings"
	"testing"

	"github.com/NethermindEth/juno/blockchain"
	"github.com/NethermindEth/juno/blockchain/networks"
	"github.com/NethermindEth/juno/core/felt"
	"github.com/NethermindEth/juno/db/memory"
	"github.com/NethermindEth/juno/jsonrpc"
	"github.com/NethermindEth/juno/utils/log"
)

func TestRaceBigBlocks(t *testing.T) {
	for _, newState := range []bool{false, true} {
		bc := blockchain.New(memory.New(), &networks.Sepolia, blockchain.WithNewState(newState))
		parent, oldRoot := &felt.Zero, &felt.Zero
		for n := uint64(0); n < 3; n++ {
			b, su := mkEvBlock(n, parent, oldRoot, f(0xAAAA), f(1), n)
			for a := uint64(0); a < 6; a++ {
				addr := f(0x1000 + a)
				if n == 0 {
					su.StateDiff.DeployedContracts[*addr] = f(0xc1)
				}
				m := map[felt.Felt]*felt.Felt{}
				for s := uint64(0); s < 120; s++ {
					m[*f(s*7 + n)] = f(1 + s + n)
				}
				su.StateDiff.StorageDiffs[*addr] = m
			}
			if err := bc.Finalise(b, su, nil, nil); err != nil {
				t.Fatal(err)
			}
			parent, oldRoot = b.Hash, b.GlobalStateRoot
		}
		for i := 0; i < 1; i++ {
			if err := bc.RevertHead(); err != nil {
				t.Fatal(err)
			}
		}
		fmt.Println("newState", newState, "big blocks ok")
	}
}

func TestRaceJSONRPCBatch(t *testing.T) {
	srv := jsonrpc.NewServer(8, log.NewNopZapLogger())
	err := srv.RegisterMethods(jsonrpc.Method{
		Name:    "echo",
		Params:  []jsonrpc.Parameter{{Name: "x"}, {Name: "y", Optional: true}},
		Handler: func(x int, y *int) (int, *jsonrpc.Error) { return x, nil },
	})
	if err != nil {
		t.Fatal(err)
	}
	var sb strings.Builder
	sb.WriteString("[")
	for i := 0; i < 200; i++ {
		if i > 0 {
			sb.WriteString(",")
		}
		switch i % 4 {
		case 0:
			fmt.Fprintf(&sb, `{"jsonrpc":"2.0","id":%d,"method":"echo","params":[%d]}`, i, i)
		case 1:
			fmt.Fprintf(&sb, `{"jsonrpc":"2.0","id":"s%d","method":"echo","params":{"x":%d}}`, i, i)
		case 2:
			fmt.Fprintf(&sb, `{"jsonrpc":"2.0","method":"echo","params":[%d]}`, i)
		case 3:
			fmt.Fprintf(&sb, `{"jsonrpc":"2.0","id":%d,"method":"nope"}`, i)
		}
	}
	sb.WriteString("]")
	for r := 0; r < 20; r++ {
		resp, _, err := srv.HandleReader(context.Background(), strings.NewReader(sb.String()))
		if err != nil || len(resp) == 0 {
			t.Fatal(err)
		}
	}
	fmt.Println("jsonrpc batch ok")
}

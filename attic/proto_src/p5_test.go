package verifproto

import (
	"errors"
	"fmt"
	"testing"

	"github.com/NethermindEth/juno/blockchain"
	"github.com/NethermindEth/juno/blockchain/networks"
	"github.com/NethermindEth/juno/core"
	"github.com/NethermindEth/juno/core/felt"
	"github.com/NethermindEth/juno/db"
	"github.com/NethermindEth/juno/db/memory"
)

// mkEvBlock builds a block with one invoke tx emitting one event from `from` with key `key`.
func mkEvBlock(n uint64, parent, oldRoot *felt.Felt, from, key *felt.Felt, salt uint64) (*core.Block, *core.StateUpdate) {
	b, su := mkBlock(n, parent)
	su.OldRoot = oldRoot
	if from != nil {
		ver := new(core.TransactionVersion).SetUint64(1)
		tx := &core.InvokeTransaction{
			CallData:             []felt.Felt{*f(salt)},
			TransactionSignature: []felt.Felt{*f(1)},
			MaxFee:               f(1),
			ContractAddress:      f(5),
			Version:              ver,
			Nonce:                f(n),
			SenderAddress:        f(5),
		}
		h, err := core.TransactionHash(tx, &networks.Sepolia)
		if err != nil {
			panic(err)
		}
		tx.TransactionHash = &h
		rc := &core.TransactionReceipt{
			Fee:             f(1),
			Events:          []*core.Event{{From: from, Keys: []felt.Felt{*key}, Data: []felt.Felt{*f(salt)}}},
			TransactionHash: &h,
			ExecutionResources: &core.ExecutionResources{
				TotalGasConsumed: &core.GasConsumed{},
			},
		}
		b.Transactions = []core.Transaction{tx}
		b.Receipts = []*core.TransactionReceipt{rc}
		b.TransactionCount = 1
		b.EventCount = 1
		b.EventsBloom = core.EventsBloom(b.Receipts)
	}
	return b, su
}

func countEvents(t *testing.T, bc *blockchain.Blockchain, from *felt.Felt, lo, hi uint64) (int, []uint64) {
	ef, err := bc.EventFilter([]felt.Address{felt.Address(*from)}, nil, nil)
	if err != nil {
		t.Fatal(err)
	}
	ef.SetRangeEndBlockByNumber(blockchain.EventFilterFrom, lo)
	ef.SetRangeEndBlockByNumber(blockchain.EventFilterTo, hi)
	evs, _, err := ef.Events(nil, 100000)
	if err != nil {
		t.Fatal(err)
	}
	var blocks []uint64
	for _, e := range evs {
		blocks = append(blocks, e.BlockNumber)
	}
	return len(evs), blocks
}

func TestStaleBloomCache(t *testing.T) {
	d := memory.New()
	bc := blockchain.New(d, &networks.Sepolia)
	parent, oldRoot := &felt.Zero, &felt.Zero
	A, B := f(0xAAAA), f(0xBBBB)
	key := f(77)
	W := core.NumBlocksPerFilter
	// fork 1: event from A at block W-3; grow to W+5
	for n := uint64(0); n < W+5; n++ {
		var from *felt.Felt
		if n == W-3 {
			from = A
		}
		b, su := mkEvBlock(n, parent, oldRoot, from, key, 1)
		if err := bc.Finalise(b, su, nil, nil); err != nil {
			t.Fatal(n, err)
		}
		parent, oldRoot = b.Hash, b.GlobalStateRoot
	}
	c, bl := countEvents(t, bc, A, 0, W+4)
	fmt.Println("before reorg: A events", c, bl)
	c, bl = countEvents(t, bc, B, 0, W+4)
	fmt.Println("before reorg: B events", c, bl)
	// reorg back to W-6
	for h := W + 4; h >= W-5; h-- {
		if err := bc.RevertHead(); err != nil {
			t.Fatal(h, err)
		}
	}
	hd, _ := bc.HeadsHeader()
	parent, oldRoot = hd.Hash, hd.GlobalStateRoot
	fmt.Println("head after revert", hd.Number)
	// fork 2: event from B at block W-3; grow to W+5
	for n := hd.Number + 1; n < W+5; n++ {
		var from *felt.Felt
		if n == W-3 {
			from = B
		}
		b, su := mkEvBlock(n, parent, oldRoot, from, key, 2)
		if err := bc.Finalise(b, su, nil, nil); err != nil {
			t.Fatal(n, err)
		}
		parent, oldRoot = b.Hash, b.GlobalStateRoot
	}
	c, bl = countEvents(t, bc, A, 0, W+4)
	fmt.Println("after reorg: A events (expect 0)", c, bl)
	c, bl = countEvents(t, bc, B, 0, W+4)
	fmt.Println("after reorg: B events (expect 1 at W-3)", c, bl)
	// fresh node on same db (restart without snapshot)
	bc2 := blockchain.New(d, &networks.Sepolia)
	c, bl = countEvents(t, bc2, B, 0, W+4)
	fmt.Println("fresh node: B events (expect 1)", c, bl)
}

// failing db wrapper: fails the n-th batch Write
type failDB struct {
	db.KeyValueStore
	failNext *bool
}

type failBatch struct {
	db.Batch
	fail *bool
}

func (b failBatch) Write() error {
	if *b.fail {
		*b.fail = false
		return errors.New("injected commit failure")
	}
	return b.Batch.Write()
}

type failIBatch struct {
	db.IndexedBatch
	fail *bool
}

func (b failIBatch) Write() error {
	if *b.fail {
		*b.fail = false
		return errors.New("injected commit failure")
	}
	return b.IndexedBatch.Write()
}

func (d failDB) Update(fn func(db.IndexedBatch) error) error {
	batch := failIBatch{d.KeyValueStore.NewIndexedBatch(), d.failNext}
	if err := fn(batch); err != nil {
		return err
	}
	return batch.Write()
}

func (d failDB) Write(fn func(db.Batch) error) error {
	batch := failBatch{d.KeyValueStore.NewBatch(), d.failNext}
	if err := fn(batch); err != nil {
		return err
	}
	return batch.Write()
}

func TestFilterVsFailedCommit(t *testing.T) {
	fail := false
	d := failDB{memory.New(), &fail}
	bc := blockchain.New(d, &networks.Sepolia)
	parent, oldRoot := &felt.Zero, &felt.Zero
	A := f(0xAAAA)
	key := f(77)
	for n := uint64(0); n < 5; n++ {
		var from *felt.Felt
		if n == 4 {
			from = A
		}
		b, su := mkEvBlock(n, parent, oldRoot, from, key, 1)
		if err := bc.Finalise(b, su, nil, nil); err != nil {
			t.Fatal(n, err)
		}
		parent, oldRoot = b.Hash, b.GlobalStateRoot
	}
	c, bl := countEvents(t, bc, A, 0, 4)
	fmt.Println("A events before failed revert:", c, bl)
	fail = true
	err := bc.RevertHead()
	fmt.Println("revert with failing commit ->", err)
	h, _ := bc.Height()
	c, bl = countEvents(t, bc, A, 0, 4)
	fmt.Println("height", h, "A events after failed revert (expect 1):", c, bl)
}

package verifproto

import (
	"fmt"
	"testing"
	"time"

	"github.com/NethermindEth/juno/blockchain"
	"github.com/NethermindEth/juno/blockchain/networks"
	"github.com/NethermindEth/juno/core"
	"github.com/NethermindEth/juno/core/felt"
	"github.com/NethermindEth/juno/db/memory"
	_ "github.com/NethermindEth/juno/encoder/registry"
)

func f(x uint64) *felt.Felt { return felt.NewFromUint64[felt.Felt](x) }

func mkBlock(n uint64, parent *felt.Felt) (*core.Block, *core.StateUpdate) {
	rc := []*core.TransactionReceipt{}
	b := &core.Block{Header: &core.Header{
		ParentHash: parent, Number: n, SequencerAddress: f(7), Timestamp: 1000 + n,
		ProtocolVersion: "0.14.0", EventsBloom: core.EventsBloom(rc),
		L1GasPriceETH: f(1), L1GasPriceSTRK: f(2), L1DAMode: core.Blob,
		L1DataGasPrice: &core.GasPrice{PriceInWei: f(3), PriceInFri: f(4)},
		L2GasPrice:     &core.GasPrice{PriceInWei: f(5), PriceInFri: f(6)},
	}, Transactions: []core.Transaction{}, Receipts: rc}
	sd := core.EmptyStateDiff()
	su := &core.StateUpdate{OldRoot: &felt.Zero, StateDiff: &sd}
	return b, su
}

func run(t *testing.T, newState bool, zeroNoop bool) {
	db := memory.New()
	bc := blockchain.New(db, &networks.Sepolia, blockchain.WithNewState(newState))
	parent := &felt.Zero
	oldRoot := &felt.Zero
	addr := f(0x1234)
	ch := f(0xabc)
	start := time.Now()
	for n := uint64(0); n < 6; n++ {
		b, su := mkBlock(n, parent)
		su.OldRoot = oldRoot
		switch n {
		case 0:
			su.StateDiff.DeployedContracts[*addr] = ch
			su.StateDiff.StorageDiffs[*addr] = map[felt.Felt]*felt.Felt{*f(2): f(22), *f(3): f(33)}
		case 1:
			su.StateDiff.StorageDiffs[*addr] = map[felt.Felt]*felt.Felt{*f(3): f(0)}
		case 2:
			if zeroNoop {
				su.StateDiff.StorageDiffs[*addr] = map[felt.Felt]*felt.Felt{*f(99): f(0)}
			}
		}
		if err := bc.Finalise(b, su, nil, nil); err != nil {
			t.Fatalf("finalise %d: %v", n, err)
		}
		parent = b.Hash
		oldRoot = b.GlobalStateRoot
		if n == 1 {
			st, _, err := bc.HeadState()
			if err != nil {
				t.Fatal(err)
			}
			v, err := st.ContractStorage(addr, f(3))
			fmt.Printf("newState=%v head storage[3] after zero write = %s err=%v\n", newState, v.String(), err)
			v2, err := st.ContractStorage(addr, f(2))
			fmt.Printf("newState=%v head storage[2] = %s err=%v\n", newState, v2.String(), err)
		}
	}
	fmt.Println("6 blocks in", time.Since(start))
	for i := 0; i < 4; i++ {
		if err := bc.RevertHead(); err != nil {
			fmt.Printf("newState=%v zeroNoop=%v revert #%d err: %v\n", newState, zeroNoop, i, err)
			return
		}
	}
	fmt.Printf("newState=%v zeroNoop=%v reverts ok\n", newState, zeroNoop)
}

func TestProto(t *testing.T) {
	run(t, false, false)
	run(t, true, false)
	run(t, false, true)
	run(t, true, true)
}

func TestSpeed(t *testing.T) {
	db := memory.New()
	bc := blockchain.New(db, &networks.Sepolia)
	parent := &felt.Zero
	start := time.Now()
	for n := uint64(0); n < 9000; n++ {
		b, su := mkBlock(n, parent)
		if err := bc.Finalise(b, su, nil, nil); err != nil {
			t.Fatal(err)
		}
		parent = b.Hash
	}
	fmt.Println("9000 empty blocks in", time.Since(start))
}

package verifproto

import (
	"crypto/rand"
	"fmt"
	"testing"

	"github.com/NethermindEth/juno/consensus/propeller"
	"github.com/NethermindEth/juno/db"
	"github.com/NethermindEth/juno/db/memory"
	"github.com/NethermindEth/juno/db/pebblev2"
	"github.com/libp2p/go-libp2p/core/crypto"
	"github.com/libp2p/go-libp2p/core/peer"
)

func TestPropellerValidate(t *testing.T) {
	// committee of 4: publisher + 3 peers
	var privs []crypto.PrivKey
	var peers []propeller.PeerCommittee
	for i := 0; i < 4; i++ {
		p, _, _ := crypto.GenerateEd25519Key(rand.Reader)
		id, _ := peer.IDFromPrivateKey(p)
		privs = append(privs, p)
		peers = append(peers, propeller.PeerCommittee{ID: id, Stake: 1})
	}
	pubID, _ := peer.IDFromPrivateKey(privs[0])
	for _, nonce := range []propeller.Nonce{0, 5} {
		// local = some non-publisher
		var local peer.ID
		for _, p := range peers {
			if p.ID != pubID {
				local = p.ID
				break
			}
		}
		cp := append([]propeller.PeerCommittee(nil), peers...)
		sch, err := propeller.NewScheduler(local, cp)
		if err != nil {
			t.Fatal(err)
		}
		var cid propeller.CommitteeID
		units, err := propeller.CreatePropellerUnits(privs[0], &cid, nonce, []byte("hello"), sch.NumDataShards(), sch.NumCodingShards())
		if err != nil {
			t.Fatal(err)
		}
		v := propeller.NewValidator(pubID, sch)
		for i := range units {
			sender, _ := sch.PeerForShardIndex(pubID, units[i].ShardIndex)
			if sender == local {
				sender = pubID
			}
			err := v.Validate(&units[i], sender)
			fmt.Printf("nonce=%d unit %d validate: %v\n", nonce, i, err)
		}
	}
}

func dumpIter(name string, d db.KeyValueStore) {
	for _, k := range []string{"a1", "a2", "b1", "c1"} {
		d.Put([]byte(k), []byte("v"))
	}
	it, _ := d.NewIterator([]byte("a"), false)
	var keys []string
	for ok := it.First(); ok; ok = it.Next() {
		keys = append(keys, string(it.Key()))
	}
	it.Close()
	fmt.Println(name, "NewIterator(prefix=a, withUpperBound=false):", keys)
	it, _ = d.NewIterator(nil, false)
	fmt.Println(name, "unpositioned Prev:", it.Prev(), string(it.Key()))
	it.Close()
}

func TestIterPrefixNoBound(t *testing.T) {
	dumpIter("memory", memory.New())
	p, err := pebblev2.New(t.TempDir())
	if err != nil {
		t.Fatal(err)
	}
	defer p.Close()
	dumpIter("pebblev2", p)
}

#!/usr/bin/env python3
"""Regenerates DESIGN.md section 7.4 (seeded changes and which checks catch them) from seeded/*/meta.json."""
import glob, json, os, re
V = os.path.dirname(os.path.abspath(__file__))
rows = []
for d in sorted(glob.glob(os.path.join(V, "seeded", "*"))):
    m = json.load(open(os.path.join(d, "meta.json")))
    patch = open(os.path.join(d, "patch.diff")).read()
    files = sorted(set(re.findall(r"^\+\+\+ b/(\S+)", patch, re.M)))
    caught = ", ".join(m.get("caught_by") or []) or "**none**"
    classes = "; ".join(v["violation_classes"][0].split(" x")[0] for c, v in m.get("checks", {}).items() if v.get("violation_classes"))
    rows.append("| %s | %s | %s | %s | %s | %s |" % (os.path.basename(d), ", ".join(files), (m.get("needs_to_manifest") or "").replace("|", "/"),
                m.get("demo_with_patch", "?") + " / " + m.get("existing_tests_with_patch", "?")[:40], caught, classes[:160].replace("|", "/")))
sec = """### 7.4 Independently seeded changes and the checks that catch them

Each change was written by a fresh sub-agent that saw only the property text and a scratch
worktree (nothing from /verif), confirmed by `seedtest.py` (demonstration passes on the
clean tree and fails with the change; the existing tests of the touched packages pass with
it), and then offered to the registered checks (quick tier). Patch, demonstration and
meta.json (what it needs to manifest, what was run, what each check reported) are under
`/verif/seeded/<property>-<n>/`.

| id | file(s) | needs to manifest | demo with change / existing tests | caught by | first class reported |
|---|---|---|---|---|---|
""" + "\n".join(rows) + "\n\n"
s = open(os.path.join(V, "DESIGN.md")).read()
if "### 7.4 Independently seeded" in s:
    a = s.index("### 7.4 Independently seeded")
    b = s.find("\n### ", a + 10)
    b2 = s.find("\n## ", a + 10)
    ends = [x for x in (b, b2) if x != -1]
    e = min(ends) + 1 if ends else len(s)
    s = s[:a] + sec + s[e:]
else:
    s = s.rstrip("\n") + "\n\n" + sec
open(os.path.join(V, "DESIGN.md"), "w").write(s)
print(len(rows), "seeded changes listed")

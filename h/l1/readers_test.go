package vl1

import (
	"bytes"
	"errors"
	"fmt"
	"runtime"
	"strconv"
	stdsync "sync"
	"sync/atomic"
	"time"

	"github.com/NethermindEth/juno/db"
)

// Readers of the recorded L1 head (what the RPC handlers do for every finality status:
// Blockchain.L1Head()) run next to the client. Their history is judged as reads of a
// register whose writes are the heads the client records:
//
//   a read that BEGINS after head k was announced (OnNewL1Head(k) has run, so
//   SetL1Head(k) has returned) returns head k or a later one; any read returns a head
//   that was recorded, and none that is only announced after the read returned + 1
//   (one SetL1Head may be complete while its announcement is still to come).
//
// Besides free-running readers there is one DIRECTED interleaving per armed read: the
// read has just fetched the record from storage when - before it continues - the
// client records the next head (the reader is held inside the store's Get, on its own
// goroutine, until the next head has been announced or the instance ends).

func goID() uint64 {
	var buf [64]byte
	b := buf[:runtime.Stack(buf[:], false)]
	b = bytes.TrimPrefix(b, []byte("goroutine "))
	if i := bytes.IndexByte(b, ' '); i > 0 {
		n, _ := strconv.ParseUint(string(b[:i]), 10, 64)
		return n
	}
	return 0
}

type hookDB struct {
	db.KeyValueStore
	w       *world
	key     []byte
	parkGo  atomic.Uint64 // goroutine whose next Get of the head record is held back
	parked  atomic.Int64
	failPut atomic.Int64 // >0: the n-th Put of the head record from now fails
}

var errInjectedWrite = errors.New("injected database write failure")

func (h *hookDB) Get(key []byte, cb func([]byte) error) error {
	err := h.KeyValueStore.Get(key, cb)
	if bytes.Equal(key, h.key) {
		if g := h.parkGo.Load(); g != 0 && g == goID() && h.parkGo.CompareAndSwap(g, 0) {
			h.parked.Add(1)
			h.w.holdUntilNextHead()
		}
	}
	return err
}

func (h *hookDB) Put(key, value []byte) error {
	if bytes.Equal(key, h.key) {
		if n := h.failPut.Load(); n > 0 && h.failPut.Add(-1) == 0 {
			h.w.mu.Lock()
			h.w.st("injected_l1_head_write_failures", 1)
			h.w.tr("DB: the write of the L1 head record fails (injected)")
			h.w.mu.Unlock()
			return errInjectedWrite
		}
	}
	return h.KeyValueStore.Put(key, value)
}

// holdUntilNextHead returns when a further head has been announced, the current
// instance is being stopped, or - liveness guard only, no verdict depends on it - 40 ms
// have passed (most scripts record few heads).
func (w *world) holdUntilNextHead() {
	start := w.headCount.Load()
	deadline := time.Now().Add(40 * time.Millisecond)
	for w.headCount.Load() == start && !w.readersStop.Load() && time.Now().Before(deadline) {
		time.Sleep(50 * time.Microsecond)
	}
	if w.headCount.Load() != start {
		w.overtaken.Add(1)
	}
}

type readRec struct {
	Low, High int // len(w.heads) when the read began / had returned
	Val       *headRec
	Err       string
	Directed  bool
}

type readers struct {
	wg   stdsync.WaitGroup
	mu   stdsync.Mutex
	recs []readRec
}

// startReaders: n goroutines reading Blockchain.L1Head() until stopReaders. Reader 0
// arms the directed interleaving for every 5th of its reads.
func (w *world) startReaders(n int) {
	w.readersStop.Store(false)
	bc := w.bc
	for i := 0; i < n; i++ {
		w.rd.wg.Add(1)
		go func(i int) {
			defer w.rd.wg.Done()
			me := goID()
			for k := 0; !w.readersStop.Load(); k++ {
				directed := i == 0 && k%5 == 2 && w.hook != nil
				w.mu.Lock()
				low := len(w.heads)
				w.mu.Unlock()
				if directed {
					w.hook.parkGo.Store(me)
				}
				h, err := bc.L1Head()
				if directed {
					w.hook.parkGo.CompareAndSwap(me, 0)
				}
				w.mu.Lock()
				high := len(w.heads)
				w.mu.Unlock()
				rec := readRec{Low: low, High: high, Directed: directed}
				if err != nil {
					if errors.Is(err, db.ErrKeyNotFound) {
						rec.Err = "absent"
					} else {
						rec.Err = err.Error()
					}
				} else {
					hr := copyHead(&h)
					rec.Val = &hr
				}
				w.rd.mu.Lock()
				if len(w.rd.recs) < 200000 {
					w.rd.recs = append(w.rd.recs, rec)
				}
				w.rd.mu.Unlock()
				time.Sleep(time.Duration(20+(k*37+i*11)%180) * time.Microsecond)
			}
		}(i)
	}
}

func (w *world) stopReaders() {
	w.readersStop.Store(true)
	w.rd.wg.Wait()
}

// judgeReads runs at the end of a case (w.mu held; all goroutines gone).
func (w *world) judgeReads() {
	w.rd.mu.Lock()
	defer w.rd.mu.Unlock()
	same := func(a *headRec, b *headRec) bool {
		return a.L2 == b.L2 && a.Hash.Equal(&b.Hash) && a.Root.Equal(&b.Root)
	}
	w.st("l1head_reads_by_concurrent_readers", len(w.rd.recs))
	w.st("l1head_reads_held_between_storage_fetch_and_return", int(w.hook.parked.Load()))
	w.st("l1head_reads_overtaken_by_the_next_recorded_head", int(w.overtaken.Load()))
	seen := map[int]bool{}
	for _, rr := range w.rd.recs {
		w.r.Eval(1)
		if rr.Err != "" && rr.Err != "absent" {
			w.violate("l1head-read:error", fmt.Sprintf("Blockchain.L1Head() returned %s", rr.Err))
			return
		}
		lo, hi := rr.Low-1, rr.High // indices into w.heads; -1 = the record the case started with (none)
		ok := false
		if rr.Val == nil {
			ok = lo < 0 && w.initial == nil
		} else {
			if lo < 0 && w.initial != nil && same(rr.Val, w.initial) {
				ok = true
			}
			for j := max(lo, 0); j <= hi && j < len(w.heads) && !ok; j++ {
				if same(rr.Val, &w.heads[j]) {
					ok = true
					seen[j] = true
				}
			}
		}
		if ok {
			continue
		}
		got := "no record"
		if rr.Val != nil {
			got = fmt.Sprintf("L2=%d", rr.Val.L2)
		}
		cls, what := "l1head-read:value-never-recorded", "a value that was never recorded"
		for j := range w.heads {
			if rr.Val != nil && same(rr.Val, &w.heads[j]) {
				if j < lo {
					cls, what = "l1head-read:stale", fmt.Sprintf("head #%d, although head #%d (L2=%d) had been announced before the read began", j, lo, w.heads[lo].L2)
				} else {
					cls, what = "l1head-read:from-the-future", fmt.Sprintf("head #%d, which was only recorded later", j)
				}
				break
			}
		}
		if rr.Val == nil && lo >= 0 {
			cls, what = "l1head-read:stale", "no record although a head had been announced before the read began"
		}
		w.violate(cls, fmt.Sprintf("a concurrent reader's Blockchain.L1Head() (began with %d heads announced, returned with %d; held inside the storage fetch: %v) returned %s = %s",
			rr.Low, rr.High, rr.Directed, got, what))
		return
	}
	w.st("distinct_recorded_heads_seen_by_readers", len(seen))
}

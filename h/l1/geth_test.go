package vl1

// The real GethL1StateProvider (go-ethereum ethclient + the abigen filterer in
// l1/geth/contract) against a scripted L1 node served over a loopback JSON-RPC endpoint:
// what the client is TOLD by the provider must be what the L1 node delivered. The provider is a
// producer/consumer stage like the forwarder: every LogStateUpdate the node returns for a range
// must come out of FilterStateUpdate exactly once, in order, decoded faithfully - for ranges
// holding 0, 1, 2, ... dozens of logs (the collector inside the filterer reads them from a
// goroutine that ships them through a channel). On top, the real l1.Client's start-up scan over
// this provider must record the highest finalised commit.

import (
	"context"
	"encoding/json"
	"errors"
	"fmt"
	"math/big"
	"math/rand/v2"
	"net/http"
	"net/http/httptest"
	"strconv"
	"strings"
	"sync"
	"time"

	"github.com/NethermindEth/juno/blockchain"
	"github.com/NethermindEth/juno/blockchain/networks"
	"github.com/NethermindEth/juno/core/felt"
	"github.com/NethermindEth/juno/db"
	"github.com/NethermindEth/juno/db/memory"
	"github.com/NethermindEth/juno/l1"
	"github.com/NethermindEth/juno/utils/log"
	"github.com/NethermindEth/juno/verifh/lib"
)

// keccak256("LogStateUpdate(uint256,int256,uint256)") - the topic of the event as the L1 node reports it
const logStateUpdateTopic = "0xd342ddf7a308dec111745b00315c14b7efb2bdae570a6856e088ed0c65a3576c"

type gLog struct {
	L1     uint64 // Ethereum block
	Index  int    // position within the block
	L2     uint64
	Hash   felt.Felt
	Root   felt.Felt
	serial int
}

type gNode struct {
	mu        sync.Mutex
	logs      []gLog // ascending (L1, Index)
	latest    uint64
	finalised uint64
	address   string
	chainID   *big.Int
	// noFinality: the node has not seen a finalised block yet (e.g. right after a checkpoint sync):
	// "finalized" is answered with null while "safe" and "latest" have headers
	noFinality bool
	tags       []string
	calls     map[string]int
	bad       []string
}

func word(b *big.Int) string { return fmt.Sprintf("%064x", b) }
func wordU(v uint64) string  { return fmt.Sprintf("%064x", v) }
func hash32(v uint64) string { return "0x" + wordU(v) }

func gHeader(number uint64) map[string]any {
	z := hash32(0)
	return map[string]any{
		"parentHash": z, "sha3Uncles": z, "miner": "0x0000000000000000000000000000000000000000", "stateRoot": z,
		"transactionsRoot": z, "receiptsRoot": z, "logsBloom": "0x" + strings.Repeat("0", 512), "difficulty": "0x0",
		"number": fmt.Sprintf("0x%x", number), "gasLimit": "0x0", "gasUsed": "0x0", "timestamp": "0x0", "extraData": "0x",
		"mixHash": z, "nonce": "0x0000000000000000", "hash": hash32(number + 1),
	}
}

func (n *gNode) logJSON(l *gLog) map[string]any {
	return map[string]any{
		"address": n.address, "topics": []string{logStateUpdateTopic},
		"data":        "0x" + word(l.Root.BigInt(new(big.Int))) + wordU(l.L2) + word(l.Hash.BigInt(new(big.Int))),
		"blockNumber": fmt.Sprintf("0x%x", l.L1), "transactionHash": hash32(0x100000 + uint64(l.serial)), "transactionIndex": fmt.Sprintf("0x%x", l.Index),
		"blockHash": hash32(0x200000 + l.L1), "logIndex": fmt.Sprintf("0x%x", l.Index), "removed": false,
	}
}

func parseBlockTag(s string) (uint64, bool) {
	v, err := strconv.ParseUint(strings.TrimPrefix(s, "0x"), 16, 64)
	return v, err == nil
}

func (n *gNode) handle(w http.ResponseWriter, r *http.Request) {
	var req struct {
		Method string            `json:"method"`
		Params []json.RawMessage `json:"params"`
		ID     json.RawMessage   `json:"id"`
	}
	if err := json.NewDecoder(r.Body).Decode(&req); err != nil {
		http.Error(w, "bad request", http.StatusBadRequest)
		return
	}
	n.mu.Lock()
	n.calls[req.Method]++
	var result any
	switch req.Method {
	case "eth_chainId":
		result = "0x" + n.chainID.Text(16)
	case "eth_blockNumber":
		result = fmt.Sprintf("0x%x", n.latest)
	case "eth_getBlockByNumber":
		var tag string
		if len(req.Params) > 0 {
			_ = json.Unmarshal(req.Params[0], &tag)
		}
		n.tags = append(n.tags, tag)
		switch tag {
		case "finalized":
			if n.noFinality {
				result = nil
			} else {
				result = gHeader(n.finalised)
			}
		case "safe":
			result = gHeader(n.latest - min(n.latest, 3))
		case "latest":
			result = gHeader(n.latest)
		default:
			if v, ok := parseBlockTag(tag); ok && v <= n.latest {
				result = gHeader(v)
			} else {
				result = nil
			}
		}
	case "eth_getLogs":
		var q struct {
			FromBlock string   `json:"fromBlock"`
			ToBlock   string   `json:"toBlock"`
			Address   any      `json:"address"`
			Topics    []any    `json:"topics"`
		}
		if len(req.Params) == 0 || json.Unmarshal(req.Params[0], &q) != nil {
			n.bad = append(n.bad, "eth_getLogs: undecodable filter")
		}
		from, ok1 := parseBlockTag(q.FromBlock)
		to, ok2 := parseBlockTag(q.ToBlock)
		if !ok1 || !ok2 {
			n.bad = append(n.bad, fmt.Sprintf("eth_getLogs: range %q..%q", q.FromBlock, q.ToBlock))
		}
		out := []any{}
		for i := range n.logs {
			if l := &n.logs[i]; l.L1 >= from && l.L1 <= to {
				out = append(out, n.logJSON(l))
			}
		}
		result = out
	default:
		n.bad = append(n.bad, "unexpected method "+req.Method)
	}
	n.mu.Unlock()
	w.Header().Set("Content-Type", "application/json")
	_ = json.NewEncoder(w).Encode(map[string]any{"jsonrpc": "2.0", "id": req.ID, "result": result})
}

func genGethNode(rng *rand.Rand, idx int) *gNode {
	net := networks.Mainnet
	n := &gNode{calls: map[string]int{}, chainID: net.L1ChainID, address: fmt.Sprintf("0x%x", net.CoreContractAddress.Bytes())}
	blocks := uint64(40 + rng.IntN(300))
	l2 := uint64(rng.IntN(1000))
	dense := rng.IntN(3) == 0
	for b := uint64(1); b <= blocks; b++ {
		k := 0
		switch x := rng.IntN(100); {
		case dense && x < 60:
			k = 1 + rng.IntN(3)
		case x < 12:
			k = 1
		case x < 16:
			k = 2 + rng.IntN(2)
		case x < 18:
			k = 4 + rng.IntN(12) // a burst in one block
		}
		for i := 0; i < k; i++ {
			l2++
			n.logs = append(n.logs, gLog{L1: b, Index: i, L2: l2, Hash: *randFeltG(rng), Root: *randFeltG(rng), serial: len(n.logs)})
		}
	}
	n.latest = blocks
	switch rng.IntN(5) {
	case 0:
		n.finalised = blocks
	case 1:
		n.finalised = uint64(rng.IntN(int(blocks) + 1))
	default:
		n.finalised = blocks - uint64(rng.IntN(int(min(blocks, 70))))
	}
	if len(n.logs) > 0 && rng.IntN(3) == 0 {
		// finality exactly at / one below a log
		l := n.logs[rng.IntN(len(n.logs))]
		n.finalised = l.L1 - uint64(rng.IntN(2))
	}
	return n
}

func randFeltG(rng *rand.Rand) *felt.Felt {
	var b [32]byte
	for i := range b {
		b[i] = byte(rng.Uint32())
	}
	b[0] &= 0x07 // < 2^251
	return new(felt.Felt).SetBytes(b[:])
}

func (n *gNode) inRange(from, to uint64) []gLog {
	var out []gLog
	for _, l := range n.logs {
		if l.L1 >= from && l.L1 <= to {
			out = append(out, l)
		}
	}
	return out
}

func describeUpdates(us []*l1.StateUpdate) []string {
	var out []string
	for _, u := range us {
		out = append(out, fmt.Sprintf("l1=%d l2=%d hash=%s root=%s removed=%v", u.L1RefHeight, u.L2BlockNumber, u.L2BlockHash.String(), u.StateRoot.String(), u.Removed))
	}
	return out
}

func describeLogs(ls []gLog) []string {
	var out []string
	for _, l := range ls {
		out = append(out, fmt.Sprintf("l1=%d l2=%d hash=%s root=%s removed=false", l.L1, l.L2, l.Hash.String(), l.Root.String()))
	}
	return out
}

func gethCase(r *lib.Run, idx int) {
	rng := lib.Rng("C17/geth", uint64(idx))
	node := genGethNode(rng, idx)
	srv := httptest.NewServer(http.HandlerFunc(node.handle))
	defer srv.Close()
	net := networks.Mainnet
	ctx, cancel := context.WithTimeout(context.Background(), 120*time.Second) // watchdog: a call normally takes < 10 ms
	defer cancel()
	caseIdx := idx
	r.Count("geth_cases", 1)
	witness := func(extra map[string]any) map[string]any {
		m := map[string]any{"l1_blocks": node.latest, "finalised": node.finalised, "logs": len(node.logs)}
		for k, v := range extra {
			m[k] = v
		}
		return m
	}
	provider, err := l1.NewGethL1StateProvider(ctx, srv.URL, net.CoreContractAddress)
	if err != nil {
		r.Inconclusive("geth-layer:dial-failed")
		r.Note("geth layer: " + err.Error())
		return
	}
	if idx%4 == 3 {
		// a node without finality: the provider must say so, and the client's start-up scan must
		// record nothing - no commit is finalised as far as the node has told
		node.noFinality = true
		r.Count("geth_cases_with_a_node_that_reports_no_finalised_block", 1)
		v, err := provider.FinalisedHeight(ctx)
		r.Eval(1)
		if err == nil {
			r.Violation("geth-provider:finalised-height-invented", caseIdx, fmt.Sprintf("the node answers null for the finalized tag; FinalisedHeight returned %d without error (tags asked: %v)", v, node.tags), witness(nil))
		}
		provider.Close()
		chain := blockchain.New(memory.New(), &net)
		p2, err := l1.NewGethL1StateProvider(ctx, srv.URL, net.CoreContractAddress)
		if err != nil {
			r.Inconclusive("geth-layer:dial-failed")
			return
		}
		client := l1.NewClient(p2, chain, log.NewNopZapLogger(), l1.WithResubscribeDelay(time.Millisecond), l1.WithCatchUpChunkSize(50))
		cerr := client.CatchUpL1Head(ctx)
		r.Eval(1)
		if head, herr := chain.L1Head(); herr == nil {
			r.Violation("geth-provider:head-recorded-although-the-node-reports-no-finalised-block", caseIdx,
				fmt.Sprintf("start-up scan (returned %v) recorded Starknet block %d; the node answered null for the finalized tag (tags asked: %v)", cerr, head.BlockNumber, node.tags), witness(nil))
		} else {
			r.Count("geth_scans_recording_nothing_without_finality", 1)
		}
		r.Case("geth|no-finality")
		return
	}
	// (a) heights and chain id
	if v, err := provider.FinalisedHeight(ctx); err != nil || v != node.finalised {
		r.Violation("geth-provider:finalised-height-differs-from-node", caseIdx, fmt.Sprintf("FinalisedHeight = %d, %v; the node answered %d", v, err, node.finalised), witness(nil))
	}
	if v, err := provider.LatestHeight(ctx); err != nil || v != node.latest {
		r.Violation("geth-provider:latest-height-differs-from-node", caseIdx, fmt.Sprintf("LatestHeight = %d, %v; the node answered %d", v, err, node.latest), witness(nil))
	}
	if v, err := provider.ChainID(ctx); err != nil || v.Cmp(node.chainID) != 0 {
		r.Violation("geth-provider:chain-id-differs-from-node", caseIdx, fmt.Sprintf("ChainID = %v, %v", v, err), witness(nil))
	}
	r.Eval(3)
	// (b) ranges
	type rg struct{ from, to uint64 }
	var ranges []rg
	chunk := uint64([]int{1, 5, 10, 50, 1000}[rng.IntN(5)])
	for from := uint64(0); from <= node.latest; from += chunk { // a whole forward sweep in chunks
		ranges = append(ranges, rg{from, min(node.latest, from+chunk-1)})
		if len(ranges) > 40 {
			break
		}
	}
	for i := 0; i < 12; i++ {
		a, b := uint64(rng.IntN(int(node.latest)+1)), uint64(rng.IntN(int(node.latest)+1))
		if a > b {
			a, b = b, a
		}
		ranges = append(ranges, rg{a, b})
	}
	for _, l := range node.logs {
		if l.Index >= 3 { // blocks with bursts, alone and with neighbours
			ranges = append(ranges, rg{l.L1, l.L1}, rg{l.L1 - min(l.L1, 3), min(node.latest, l.L1+3)})
			break
		}
	}
	ranges = append(ranges, rg{0, node.latest}, rg{node.latest + 1, node.latest + 10})
	for _, q := range ranges {
		want := node.inRange(q.from, q.to)
		for rep := 0; rep < 3; rep++ {
			got, err := provider.FilterStateUpdate(ctx, q.from, q.to)
			r.Eval(1)
			r.Count("geth_filter_calls", 1)
			r.Count(fmt.Sprintf("geth_filter_calls/logs_in_range=%s", bucketG(len(want))), 1)
			if err != nil {
				if ctx.Err() != nil {
					r.Inconclusive("geth-layer:watchdog")
					return
				}
				r.Violation("geth-provider:filter-fails-on-a-healthy-node", caseIdx, fmt.Sprintf("FilterStateUpdate(%d,%d): %v", q.from, q.to, err), witness(nil))
				return
			}
			g, w := describeUpdates(got), describeLogs(want)
			if strings.Join(g, "\n") != strings.Join(w, "\n") {
				kind := "different"
				switch {
				case len(g) < len(w):
					kind = "lost"
				case len(g) > len(w):
					kind = "extra-or-duplicated"
				}
				r.Violation(fmt.Sprintf("geth-provider:state-updates-%s:logs-in-range=%s", kind, bucketG(len(want))), caseIdx,
					fmt.Sprintf("FilterStateUpdate(%d,%d) returned %d state updates, the L1 node delivered %d logs for that range (attempt %d)", q.from, q.to, len(g), len(w), rep+1),
					witness(map[string]any{"returned": g, "delivered_by_node": w}))
				return
			}
			r.Count("geth_state_updates_delivered_and_returned", len(want))
		}
	}
	provider.Close()

	// (c) the client's start-up scan over the real provider
	var wantHead *gLog
	for i := range node.logs {
		if l := &node.logs[i]; l.L1 <= node.finalised {
			wantHead = l
		}
	}
	for rep := 0; rep < 3; rep++ {
		chain := blockchain.New(memory.New(), &net)
		p2, err := l1.NewGethL1StateProvider(ctx, srv.URL, net.CoreContractAddress)
		if err != nil {
			r.Inconclusive("geth-layer:dial-failed")
			return
		}
		cs := uint64([]int{1, 7, 10, 64, 1000}[rng.IntN(5)])
		client := l1.NewClient(p2, chain, log.NewNopZapLogger(), l1.WithResubscribeDelay(time.Millisecond), l1.WithCatchUpChunkSize(cs))
		err = client.CatchUpL1Head(ctx) // closes the provider
		r.Eval(1)
		r.Count("geth_catch_up_scans", 1)
		if err != nil {
			if ctx.Err() != nil {
				r.Inconclusive("geth-layer:watchdog")
				return
			}
			r.Violation("geth-provider:catch-up-fails-on-a-healthy-node", caseIdx, err.Error(), witness(map[string]any{"chunk": cs}))
			return
		}
		head, herr := chain.L1Head()
		switch {
		case wantHead == nil:
			if herr == nil {
				r.Violation("geth-provider:catch-up-records-a-head-without-finalised-log", caseIdx, fmt.Sprintf("recorded Starknet block %d", head.BlockNumber), witness(map[string]any{"chunk": cs}))
			} else if !errors.Is(herr, db.ErrKeyNotFound) {
				r.Violation("geth-provider:l1-head-read-error", caseIdx, herr.Error(), nil)
			} else {
				r.Count("geth_catch_up_scans_without_finalised_log", 1)
			}
		case herr != nil:
			r.Violation("geth-provider:catch-up-records-no-head", caseIdx, fmt.Sprintf("the node delivered finalised commits up to Starknet block %d (L1 block %d); L1Head(): %v", wantHead.L2, wantHead.L1, herr), witness(map[string]any{"chunk": cs}))
		case head.BlockNumber != wantHead.L2 || !head.BlockHash.Equal(&wantHead.Hash) || !head.StateRoot.Equal(&wantHead.Root):
			r.Violation("geth-provider:catch-up-head-is-not-the-highest-finalised-commit", caseIdx,
				fmt.Sprintf("recorded Starknet block %d, the highest finalised commit the node delivered is Starknet block %d (L1 block %d, finalised %d, chunk %d)", head.BlockNumber, wantHead.L2, wantHead.L1, node.finalised, cs),
				witness(map[string]any{"chunk": cs}))
		default:
			r.Count("geth_catch_up_scans_recording_the_highest_finalised_commit", 1)
		}
	}
	node.mu.Lock()
	bad := append([]string{}, node.bad...)
	for m, c := range node.calls {
		r.Count("geth_node_requests/"+m, c)
	}
	node.mu.Unlock()
	if len(bad) > 0 {
		r.Note("geth layer: the scripted node received requests it does not model: " + strings.Join(bad[:min(len(bad), 3)], "; "))
		r.Inconclusive("geth-layer:unmodelled-request")
	}
	r.Case(fmt.Sprintf("geth|logs%s|fin%v", bucketG(len(node.logs)), wantHead != nil))
}

func bucketG(n int) string {
	switch {
	case n == 0:
		return "0"
	case n == 1:
		return "1"
	case n == 2:
		return "2"
	case n <= 5:
		return "3-5"
	case n <= 20:
		return "6-20"
	default:
		return ">20"
	}
}

func gethLayer(r *lib.Run) {
	n := r.N(10, 150)
	if r.Race {
		n = r.N(6, 40)
	}
	r.Cases(n, 0, func(idx int) { gethCase(r, idx) })
}

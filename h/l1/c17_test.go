package vl1

import (
	"context"
	"fmt"
	"github.com/NethermindEth/juno/db"
	"math/rand/v2"
	"os"
	"runtime"
	"slices"
	"strings"
	"testing"
	"time"

	"github.com/NethermindEth/juno/blockchain"
	"github.com/NethermindEth/juno/blockchain/networks"
	"github.com/NethermindEth/juno/core"
	"github.com/NethermindEth/juno/db/memory"
	"github.com/NethermindEth/juno/l1"
	"github.com/NethermindEth/juno/utils/log"
	"github.com/NethermindEth/juno/verifh/lib"
)

// watchdog for every logical wait; firing makes the case Inconclusive, never a verdict.
const watchdog = 40 * time.Second

// ---------------------------------------------------------------- scripts

type opKind int

const (
	opMine opKind = iota
	opBurst
	opReorg
	opFinalise
	opSubErr
	opFailWatch
	opFailFinal
	opWait
	opCheck
	opRestart
	opOutage
	opStall
	opFailHeadWrite
)

type op struct {
	K      opKind
	Blocks []int // mine: logs per new block; reorg: logs per block of the new branch
	A, B   uint64
	F1, F2 bool
	// mine / reorg: finalise (mode FinA-1, parameter FinB) after the model changed but
	// before the deliveries are physically sent (0: no)
	FinA int
	FinB uint64
}

type histSeg struct {
	Gap    uint64
	Events int
}

type script struct {
	BaseL1, BaseL2 uint64
	L2Gap          bool
	Hist           []histSeg
	TailGap        uint64
	Pace           int // 0: deliveries are never paced; n: wait for a poll after an item with probability 1/n
	FinMode        int
	FinP           uint64
	Inst           []instCfg
	Ops            []op
}

var opNames = map[opKind]string{opMine: "mine", opBurst: "burst", opReorg: "reorg", opFinalise: "finalise", opSubErr: "suberr",
	opFailWatch: "failwatch", opFailFinal: "failfinalised", opWait: "wait", opCheck: "check", opRestart: "restart", opOutage: "outage", opStall: "stall", opFailHeadWrite: "fail-head-write"}

func (o op) String() string {
	switch o.K {
	case opMine:
		if o.FinA > 0 {
			return fmt.Sprintf("mine%v+finalise(mode=%d,p=%d)", o.Blocks, o.FinA-1, o.FinB)
		}
		return fmt.Sprintf("mine%v", o.Blocks)
	case opBurst:
		return fmt.Sprintf("burst(%d blocks x1 log)", o.A)
	case opReorg:
		fin := ""
		if o.FinA > 0 {
			fin = fmt.Sprintf("+finalise(mode=%d,p=%d)", o.FinA-1, o.FinB)
		}
		return fmt.Sprintf("reorg(depth=%d,desc=%v,noticeUndelivered=%v,new=%v)%s", o.A, o.F1, o.F2, o.Blocks, fin)
	case opFinalise:
		return fmt.Sprintf("finalise(mode=%d,p=%d)", o.A, o.B)
	case opSubErr:
		return "suberr"
	case opFailWatch:
		return fmt.Sprintf("failwatch(%d)", o.A)
	case opFailFinal:
		return fmt.Sprintf("failfinalised(%d)", o.A)
	case opWait:
		return fmt.Sprintf("wait(%d)", o.A)
	case opCheck:
		return "check"
	case opFailHeadWrite:
		return "fail-head-write(the next database write of the L1 head record fails; then a block with a log is mined and finalised)"
	case opRestart:
		return fmt.Sprintf("restart(cfg#%d)", o.A)
	case opOutage:
		return fmt.Sprintf("outage(reorg depth=%d,desc=%v,new=%v; connection drops right after the notices; %d failed resubscribes; finalise(mode=%d,p=%d))", o.A, o.F1, o.Blocks, o.B, o.FinA-1, o.FinB)
	case opStall:
		return fmt.Sprintf("stall(%d failing finalised queries; once the client sits in its retry loop: reorg depth=%d,desc=%v,new=%v; finalise(mode=%d,p=%d))", o.B, o.A, o.F1, o.Blocks, o.FinA-1, o.FinB)
	}
	return "?"
}

func (s *script) String() string {
	var b strings.Builder
	fmt.Fprintf(&b, "baseL1=%d baseL2=%d l2gap=%v pace=%d hist=%v tail=%d fin(mode=%d,p=%d) inst=%+v ops=[", s.BaseL1, s.BaseL2, s.L2Gap, s.Pace, s.Hist, s.TailGap, s.FinMode, s.FinP, s.Inst)
	for i, o := range s.Ops {
		if i > 0 {
			b.WriteString(" ")
		}
		b.WriteString(o.String())
	}
	b.WriteString("]")
	return b.String()
}

func genBlocks(rng *rand.Rand, n int) []int {
	out := make([]int, n)
	for i := range out {
		switch x := rng.IntN(100); {
		case x < 45:
			out[i] = 0
		case x < 82:
			out[i] = 1
		case x < 94:
			out[i] = 2
		default:
			out[i] = 3
		}
	}
	return out
}

func genChunk(rng *rand.Rand) uint64 {
	switch x := rng.IntN(100); {
	case x < 10:
		return 0 // default 1000
	case x < 24:
		return 1
	case x < 38:
		return 2 + uint64(rng.IntN(4))
	case x < 58:
		return 6 + uint64(rng.IntN(45))
	case x < 84:
		return 51 + uint64(rng.IntN(250))
	default:
		return 301 + uint64(rng.IntN(700))
	}
}

func genInst(rng *rand.Rand) instCfg {
	c := instCfg{Chunk: genChunk(rng), WaitSubscribed: rng.IntN(100) < 55}
	if rng.IntN(100) < 10 {
		c.FailChainID = 1 + rng.IntN(2)
	}
	if rng.IntN(100) < 4 {
		c.FailLatest = true
	}
	if rng.IntN(100) < 15 {
		c.FailFilterAt = 1 + rng.IntN(4)
	}
	return c
}

func genScript(rng *rand.Rand) *script {
	s := &script{}
	if rng.IntN(5) == 0 {
		s.BaseL1 = 0
	} else {
		s.BaseL1 = 1 + uint64(rng.IntN(1500))
	}
	s.BaseL2 = uint64(rng.IntN(1000))
	if rng.IntN(8) == 0 {
		s.BaseL2 = 0
	}
	s.L2Gap = rng.IntN(3) == 0
	if rng.IntN(100) >= 12 {
		n := 1 + rng.IntN(10)
		for i := 0; i < n; i++ {
			var g uint64
			switch x := rng.IntN(100); {
			case x < 25:
				g = 0
			case x < 55:
				g = 1 + uint64(rng.IntN(5))
			case x < 85:
				g = 6 + uint64(rng.IntN(45))
			default:
				g = 51 + uint64(rng.IntN(300))
			}
			ev := 1
			if x := rng.IntN(10); x >= 9 {
				ev = 3
			} else if x >= 7 {
				ev = 2
			}
			s.Hist = append(s.Hist, histSeg{g, ev})
		}
	}
	s.TailGap = uint64(rng.IntN(60))
	if rng.IntN(4) == 0 {
		s.TailGap = 0
	}
	switch rng.IntN(4) {
	case 0:
		s.Pace = 1
	case 1:
		s.Pace = 3
	}
	s.FinMode = rng.IntN(6)
	s.FinP = rng.Uint64() >> 1
	s.Inst = []instCfg{genInst(rng)}

	nops := 4 + rng.IntN(37)
	for i := 0; i < nops; i++ {
		switch x := rng.IntN(1000); {
		case x < 300:
			o := op{K: opMine, Blocks: genBlocks(rng, 1+rng.IntN(5))}
			if rng.IntN(4) == 0 {
				o.FinA, o.FinB = 1+rng.IntN(5), rng.Uint64()>>1
			}
			s.Ops = append(s.Ops, o)
		case x < 306:
			s.Ops = append(s.Ops, op{K: opBurst, A: 130 + uint64(rng.IntN(70))})
		case x < 400:
			d := 1 + uint64(rng.IntN(6))
			if rng.IntN(6) == 0 {
				d = 1 + uint64(rng.IntN(40))
			}
			nb := int(min(d, 8)) + rng.IntN(3)
			o := op{K: opReorg, A: d, F1: rng.IntN(2) == 0, F2: rng.IntN(2) == 0, Blocks: genBlocks(rng, nb)}
			if rng.IntN(3) == 0 {
				o.FinA, o.FinB = 1+rng.IntN(5), rng.Uint64()>>1
			}
			s.Ops = append(s.Ops, o)
		case x < 600:
			s.Ops = append(s.Ops, op{K: opFinalise, A: uint64(rng.IntN(5)), B: rng.Uint64() >> 1})
		case x < 665:
			s.Ops = append(s.Ops, op{K: opSubErr})
		case x < 695:
			s.Ops = append(s.Ops, op{K: opFailWatch, A: 1 + uint64(rng.IntN(3))})
		case x < 725:
			s.Ops = append(s.Ops, op{K: opFailFinal, A: 1 + uint64(rng.IntN(3))})
		case x < 750:
			d := 1 + uint64(rng.IntN(4))
			s.Ops = append(s.Ops, op{K: opOutage, A: d, B: 1 + uint64(rng.IntN(3)), F1: rng.IntN(2) == 0, F2: rng.IntN(2) == 0,
				Blocks: genBlocks(rng, int(d)+rng.IntN(3)), FinA: 1 + rng.IntN(4), FinB: rng.Uint64() >> 1})
		case x < 775:
			d := 1 + uint64(rng.IntN(4))
			s.Ops = append(s.Ops, op{K: opStall, A: d, B: 3 + uint64(rng.IntN(4)), F1: rng.IntN(2) == 0, F2: rng.IntN(2) == 0,
				Blocks: genBlocks(rng, int(d)+rng.IntN(3)), FinA: 1 + rng.IntN(4), FinB: rng.Uint64() >> 1})
		case x < 925:
			s.Ops = append(s.Ops, op{K: opWait, A: uint64(rng.IntN(5))})
		case x < 975:
			s.Ops = append(s.Ops, op{K: opCheck})
		default:
			s.Inst = append(s.Inst, genInst(rng))
			s.Ops = append(s.Ops, op{K: opRestart, A: uint64(len(s.Inst) - 1)})
		}
	}
	if rng.IntN(10) < 7 {
		s.Ops = append(s.Ops, op{K: opFinalise, A: uint64(rng.IntN(5)), B: rng.Uint64() >> 1})
	}
	s.Ops = append(s.Ops, op{K: opCheck})
	return s
}

// withWriteFailure inserts (own PRNG stream, so the scripts themselves are unchanged) one
// failing write of the L1 head record into every fourth script.
func withWriteFailure(s *script, idx int) {
	rng := lib.Rng("C17/fail-head-write", uint64(idx))
	if rng.IntN(4) != 0 {
		return
	}
	at := rng.IntN(len(s.Ops) + 1)
	s.Ops = slices.Insert(s.Ops, at, op{K: opFailHeadWrite})
}

// ---------------------------------------------------------------- violations

type witness struct {
	Script    string
	Latest    uint64
	Finalised uint64
	LastF     uint64
	Canonical []string
	View      []string
	Heads     []string
	Trace     []string
}

func (w *world) violate(class, brief string) {
	if w.violated {
		return
	}
	w.violated = true
	wit := witness{Script: w.sc.String(), Latest: w.latest, Finalised: w.finalised, Trace: w.trace}
	for _, e := range w.chain {
		wit.Canonical = append(wit.Canonical, e.String())
	}
	if in := w.inst; in != nil {
		wit.LastF = in.lastF
		for _, v := range in.view {
			wit.View = append(wit.View, fmt.Sprintf("%v order=%d removed=%v", v.e, v.order, v.removed))
		}
	}
	for _, h := range w.heads {
		wit.Heads = append(wit.Heads, fmt.Sprintf("inst%d L2=%d ev=%v", h.Inst, h.L2, h.ev))
	}
	w.r.Violation(class, w.idx, brief, wit)
}

// classify a head that is not the one the property designates; x is the designated log (may be nil).
func classify(rec *headRec, in *instance, f uint64, x *viewEntry) string {
	e := rec.ev
	if e == nil || rec.L2 != e.L2 || !rec.Root.Equal(&e.Root) {
		return "head-is-no-log-of-the-L1-node"
	}
	v := in.view[e.ID]
	switch {
	case v == nil:
		return "head-never-delivered-to-client"
	case v.removed:
		return "head-is-a-removed-log"
	case e.L1 > f:
		return "head-above-finalised-height"
	case x != nil && e.L1 == x.e.L1:
		return "head-not-last-log-of-its-block"
	case x != nil && e.L1 < x.e.L1:
		return "head-below-highest-finalised-log"
	}
	return "head-unexpected"
}

// ---------------------------------------------------------------- observation points (client goroutine)

// onHead is l1.EventListener.OnNewL1Head: runs in the client goroutine right after
// Blockchain.SetL1Head. Everything the client has taken from its channel has been
// applied by now, so the designated head is a function of the consumed prefix and the
// finalised height it was last told.
func (w *world) onHead(in *instance, h *core.L1Head) {
	rec := copyHead(h)
	w.mu.Lock()
	defer w.mu.Unlock()
	w.advanceView(in)
	rec.Inst = in.id
	rec.ev = w.byHash[rec.Hash.String()]
	in.heads++
	if in.watchCalls == 0 {
		in.catchupHeads++
		w.st("heads_recorded_by_catchup", 1)
	}
	w.st("heads_recorded", 1)
	w.tr("HEAD inst%d L2=%d %v (told finalised=%d)", in.id, rec.L2, rec.ev, in.lastF)
	w.r.Eval(1)
	if !in.haveF {
		w.violate("record:head-without-any-finalised-answer", fmt.Sprintf("head L2=%d recorded before the L1 node ever answered a finalised height", rec.L2))
	}
	// logs whose removal notice has been delivered into the client's channel but not
	// yet read. The scripted node never answers a finalised height at or above such a
	// notice unless the client verifiably stopped reading its channel for an
	// arbitrarily long time (resubscription loop / finalised-height retry loop) after
	// the notice was delivered.
	doomed := map[int]bool{}
	cause := ""
	for i := in.consumed; i < len(in.queue); i++ {
		if it := in.queue[i]; it.removed {
			doomed[it.e.ID] = true
			if rec.ev == it.e {
				if i < in.exposed {
					cause = "a-subscription-outage"
				} else {
					cause = "a-stalled-finalised-height-query"
				}
			}
		}
	}
	if rec.ev != nil && doomed[rec.ev.ID] && in.view[rec.ev.ID] != nil && !in.view[rec.ev.ID].removed && rec.ev.L1 <= in.lastF {
		w.violate("record:head-is-a-log-whose-removal-notice-sat-unread-in-the-client-channel-across-"+cause,
			fmt.Sprintf("recorded head L2=%d (%v, told finalised=%d) although the removal notice of that log had been delivered into the client's update channel before %s; "+
				"the client asked for / used the finalised height without first draining the channel", rec.L2, rec.ev, in.lastF, cause))
	}
	x := best(in, in.lastF, doomed)
	if x == nil || !sameHead(&rec, x.e) {
		cls := classify(&rec, in, in.lastF, x)
		exp := "none"
		if x != nil {
			exp = x.e.String()
		}
		w.violate("record:"+cls, fmt.Sprintf("recorded head L2=%d (%v) while the node had told finalised=%d; designated log: %s", rec.L2, rec.ev, in.lastF, exp))
	}
	if st, err := w.storedHead(); err != nil || st == nil || st.L2 != rec.L2 || !st.Hash.Equal(&rec.Hash) || !st.Root.Equal(&rec.Root) {
		w.violate("record:stored-head-differs-from-announced", fmt.Sprintf("OnNewL1Head announced L2=%d but Blockchain.L1Head() = %+v (err %v)", rec.L2, st, err))
	}
	if n := len(w.heads); n > 0 {
		if rec.L2 < w.heads[n-1].L2 {
			w.violate("order:l2-block-number-regressed", fmt.Sprintf("head moved from Starknet block %d back to %d", w.heads[n-1].L2, rec.L2))
		}
		if rec.Hash.Equal(&w.heads[n-1].Hash) {
			w.st("heads_rerecorded_identical", 1)
		}
	}
	if rec.ev != nil && rec.ev.L1 == in.lastF {
		w.st("heads_exactly_at_finalised_boundary", 1)
	}
	w.heads = append(w.heads, rec)
	w.headCount.Add(1)
}

// checkCatchupComplete runs at the first WatchStateUpdate call of an instance, i.e.
// right after the start-up scan returned. If the node answered every call of the scan
// and nothing was reorged meanwhile, the head must be the highest canonical log at or
// below min(finalised told, latest told) - the scan has to reach it.
func (w *world) checkCatchupComplete(in *instance) {
	if in.cancelled {
		w.st("catchup_scans_cut_short_by_shutdown", 1)
		return
	}
	if in.catchupFault || !in.latestReadOK || !in.haveF {
		w.st("catchup_scans_with_injected_failure", 1)
		return
	}
	if in.catchupReorg {
		w.st("catchup_scans_overlapping_a_reorg(not_judged_absolutely)", 1)
		return
	}
	bound := min(in.lastF, in.latestRead)
	var x *event
	for _, e := range w.chain {
		if e.L1 <= bound {
			x = e
		}
	}
	st, err := w.storedHead()
	w.r.Eval(1)
	w.st("catchup_completeness_checks", 1)
	if in.reachedGenesis {
		w.st("catchup_scans_reaching_genesis", 1)
	}
	if err != nil {
		w.violate("catchup:l1head-read-error", err.Error())
		return
	}
	if x == nil {
		w.st("catchup_with_no_finalised_log_on_chain", 1)
		if !headEq(st, in.baseline) {
			w.violate("catchup:head-recorded-without-finalised-log", fmt.Sprintf("no canonical log at or below %d, yet stored head became %+v", bound, st))
		}
		return
	}
	if !sameHead(st, x) {
		cls := "catchup:head-behind-highest-finalised-canonical-log"
		if st != nil && st.ev != nil && st.ev.L1 > x.L1 {
			cls = "catchup:head-above-finalised-height"
		}
		if x.L1 == bound {
			cls += ":log-at-boundary"
		}
		w.violate(cls, fmt.Sprintf("after an undisturbed catch-up scan (latest=%d, finalised=%d, chunk=%d, %d filter calls) stored head is %s, highest finalised canonical log is %v",
			in.latestRead, in.lastF, in.cfg.Chunk, in.filterCalls, headStr(st), x))
	}
}

func headEq(a, b *headRec) bool {
	if a == nil || b == nil {
		return a == nil && b == nil
	}
	return a.L2 == b.L2 && a.Hash.Equal(&b.Hash) && a.Root.Equal(&b.Root)
}

func headStr(h *headRec) string {
	if h == nil {
		return "none"
	}
	return fmt.Sprintf("L2=%d(%v)", h.L2, h.ev)
}

// ---------------------------------------------------------------- driver

func (w *world) waitFor(what string, cond func() bool) bool {
	deadline := time.Now().Add(watchdog)
	for i := 0; ; i++ {
		w.mu.Lock()
		ok := cond()
		ab := w.aborted != "" || w.violated
		w.mu.Unlock()
		if ok {
			return true
		}
		if ab {
			return false
		}
		if time.Now().After(deadline) {
			w.mu.Lock()
			w.aborted = "watchdog:" + what
			w.mu.Unlock()
			return false
		}
		if i < 10 {
			runtime.Gosched()
		} else {
			time.Sleep(100 * time.Microsecond)
		}
	}
}

// flush physically sends what the model delivered; the driver is the only sender, so a
// non-full channel observed under the lock cannot block.
func (w *world) flush() bool {
	for {
		w.mu.Lock()
		in := w.inst
		if in == nil || in.sent == len(in.queue) {
			w.mu.Unlock()
			return true
		}
		if len(in.sink) < cap(in.sink) {
			it := in.queue[in.sent]
			in.sink <- it.e.update(it.removed)
			in.sent++
			left := len(in.queue) - in.sent
			w.mu.Unlock()
			// pacing (not part of any verdict): let the client poll / drain in the
			// middle of a delivery so that polls fall between the items of one reorg
			if left > 0 && left < 24 && w.sc.Pace > 0 && w.pace.IntN(w.sc.Pace) == 0 {
				w.mu.Lock()
				w.st("deliveries_interleaved_with_a_poll", 1)
				w.mu.Unlock()
				t := 0
				if !w.waitFor("pace", func() bool {
					if t == 0 {
						t = in.loopPolls + 1
					}
					return in.loopPolls >= t || !in.subActive
				}) {
					return false
				}
			}
			continue
		}
		w.st("sends_held_back_by_full_channel", 1)
		w.mu.Unlock()
		if !w.waitFor("sink-space", func() bool { return len(in.sink) < cap(in.sink) }) {
			return false
		}
	}
}

// newProcess: what a node start does - a Blockchain over the database, the L1-head feed
// (which must only ever carry recorded heads, in order) and, in every other case, RPC-like
// readers of the recorded head.
func (w *world) newProcess() {
	w.bc = blockchain.New(w.hook, &networks.Sepolia)
	sub := w.bc.SubscribeL1Head()
	done := make(chan struct{})
	go func() {
		defer close(done)
		for h := range sub.Recv() {
			rec := copyHead(h)
			w.mu.Lock()
			w.feedHeads = append(w.feedHeads, rec)
			w.mu.Unlock()
		}
	}()
	w.endFeed = func() {
		sub.Unsubscribe()
		<-done
	}
	if w.idx%2 == 0 {
		w.startReaders(2)
	}
}

func (w *world) endProcess() {
	w.stopReaders()
	if w.endFeed != nil {
		w.endFeed()
		w.endFeed = nil
	}
}

func (w *world) startInstance(cfg instCfg) {
	w.mu.Lock()
	fresh := w.nextInst > 0 && (w.idx+w.nextInst)%2 == 0
	w.mu.Unlock()
	if fresh {
		// the restart is a new process: nothing survives but the database
		w.endProcess()
		w.newProcess()
		w.mu.Lock()
		w.st("restarts_as_a_new_process(fresh_Blockchain_over_the_same_database)", 1)
		w.mu.Unlock()
	}
	w.mu.Lock()
	in := &instance{id: w.nextInst, cfg: cfg, view: map[int]*viewEntry{}, failChainID: cfg.FailChainID, done: make(chan error, 1)}
	w.nextInst++
	base, err := w.storedHead()
	if err != nil {
		w.aborted = "harness: L1Head read: " + err.Error()
	}
	in.baseline = base
	w.inst = in
	w.tr("start inst%d chunk=%d", in.id, cfg.Chunk)
	w.mu.Unlock()
	opts := []l1.Option{
		l1.WithResubscribeDelay(time.Millisecond),
		l1.WithPollFinalisedInterval(time.Millisecond),
		l1.WithEventListener(l1.SelectiveListener{OnNewL1HeadCb: func(h *core.L1Head) { w.onHead(in, h) }}),
	}
	if cfg.Chunk > 0 {
		opts = append(opts, l1.WithCatchUpChunkSize(cfg.Chunk))
	}
	c := l1.NewClient(&provider{w, in}, w.bc, log.NewNopZapLogger(), opts...)
	ctx, cancel := context.WithCancel(context.Background())
	in.cancel = cancel
	go func() { in.done <- c.Run(ctx) }()
	if cfg.WaitSubscribed {
		w.waitFor("first-subscription", func() bool { return in.watchOK >= 1 })
	}
}

func (w *world) stopInstance() {
	w.mu.Lock()
	in := w.inst
	w.mu.Unlock()
	if in == nil {
		return
	}
	w.mu.Lock()
	in.cancelled = true
	w.mu.Unlock()
	in.cancel()
	select {
	case err := <-in.done:
		if err != nil {
			w.r.Note(fmt.Sprintf("case %d: Client.Run returned %v after cancellation", w.idx, err))
			w.st("run_returned_error", 1)
		}
	case <-time.After(watchdog):
		w.mu.Lock()
		w.aborted = "watchdog:client-stop"
		w.mu.Unlock()
		return
	}
	w.mu.Lock()
	if in.closed != 1 {
		w.st("provider_close_count_not_1", 1)
	}
	in.subActive = false
	w.mu.Unlock()
}

// failHeadWrite: the database refuses the next write of the L1 head record while the client
// is in live mode and a new log gets finalised. Whatever the client does about it (end with the
// error - the node's service supervisor then stops the node and the operator restarts it - or
// carry on), the finalised, delivered, never-removed commit has to be the recorded head at the
// next logical quiescence.
func (w *world) failHeadWrite() {
	w.mu.Lock()
	in := w.inst
	ok := in != nil && in.subActive && in.watchOK >= 1 && in.sent == len(in.queue) && w.aborted == "" && !w.violated
	if ok {
		w.hook.failPut.Store(1)
		w.mineBlock(1, false)
		w.mineBlock(0, false)
		w.finalise(0, 0)
		w.tr("the next write of the L1 head record will fail; one log mined, everything finalised")
	}
	w.mu.Unlock()
	if !ok {
		return
	}
	w.flush()
	ended := false
	var runErr error
	t := 0
	if !w.waitFor("after-head-write-failure", func() bool {
		select {
		case runErr = <-in.done:
			ended = true
			return true
		default:
		}
		if t == 0 {
			t = in.loopPolls + 3
		}
		return in.sent == len(in.queue) && len(in.sink) == 0 && in.loopPolls >= t
	}) {
		return
	}
	if !ended {
		if w.hook.failPut.CompareAndSwap(1, 0) {
			w.mu.Lock()
			w.st("head_write_failures_armed_but_no_write_attempted", 1)
			w.mu.Unlock()
		} else {
			w.mu.Lock()
			w.st("client_carried_on_after_failed_head_write", 1)
			w.mu.Unlock()
		}
		w.checkpoint()
		return
	}
	w.hook.failPut.Store(0)
	w.mu.Lock()
	w.st("client_runs_ended_by_failed_head_write", 1)
	w.tr("Client.Run ended: %v -> node restarted", runErr)
	cfg := in.cfg
	w.mu.Unlock()
	in.done <- runErr
	w.stopInstance()
	w.mu.Lock()
	ab := w.aborted != ""
	w.mu.Unlock()
	if ab {
		return
	}
	cfg.WaitSubscribed = true
	w.startInstance(cfg)
	w.checkpoint()
}

// checkpoint: logical quiescence, then exactness of the stored head.
func (w *world) checkpoint() {
	if !w.flush() {
		return
	}
	w.mu.Lock()
	in := w.inst
	w.mu.Unlock()
	p0 := 0
	if !w.waitFor("quiesce:drain", func() bool {
		if in.watchOK >= 1 && in.sent == len(in.queue) && len(in.sink) == 0 {
			p0 = in.loopPolls
			return true
		}
		return false
	}) {
		return
	}
	// every item had been taken at observation time; the first later poll computes the
	// head over all of them, the second one proves the first one's write has returned.
	if !w.waitFor("quiesce:two-polls", func() bool { return in.loopPolls >= p0+2 }) {
		return
	}
	w.mu.Lock()
	defer w.mu.Unlock()
	if w.violated {
		return
	}
	w.advanceView(in)
	f := w.finalised
	if in.consumed != len(in.queue) || in.lastF != f {
		w.aborted = fmt.Sprintf("harness: not quiescent (consumed %d/%d, told %d, finalised %d)", in.consumed, len(in.queue), in.lastF, f)
		return
	}
	w.r.Eval(1)
	w.st("quiescent_exactness_checks", 1)
	x := best(in, f, nil)
	st, err := w.storedHead()
	if err != nil {
		w.violate("quiescent:l1head-read-error", err.Error())
		return
	}
	w.tr("CHECK quiescent: finalised=%d stored=%s", f, headStr(st))
	if x == nil {
		w.st("quiescent_checks_expecting_unchanged_head", 1)
		if headEq(st, in.baseline) {
			return
		}
		if st == nil {
			w.violate("quiescent:stored-head-vanished", "stored head disappeared")
		} else {
			w.violate("quiescent:"+classify(st, in, f, nil), fmt.Sprintf("no delivered, unremoved log at or below finalised=%d, yet stored head is %s (was %s at start of this client)", f, headStr(st), headStr(in.baseline)))
		}
		return
	}
	if sameHead(st, x.e) {
		return
	}
	behind := st == nil || headEq(st, in.baseline)
	if !behind && st.ev != nil {
		if v := in.view[st.ev.ID]; v != nil && !v.removed && (v.e.L1 < x.e.L1 || (v.e.L1 == x.e.L1 && v.order < x.order)) && st.L2 == st.ev.L2 {
			behind = true
		}
	}
	cls := ""
	if behind {
		cls = "quiescent:head-behind-highest-finalised-delivered-log"
		if x.e.L1 == f {
			cls += ":log-at-finalised-boundary"
		}
	} else {
		cls = "quiescent:" + classify(st, in, f, x)
	}
	w.violate(cls, fmt.Sprintf("quiescent (channel empty, two further polls, finalised=%d): stored head %s, designated log %v", f, headStr(st), x.e))
}

func (w *world) exec(o op) {
	switch o.K {
	case opMine:
		w.mu.Lock()
		for _, n := range o.Blocks {
			w.mineBlock(n, false)
		}
		if o.FinA > 0 {
			w.finalise(o.FinA-1, o.FinB)
		}
		w.mu.Unlock()
		w.flush()
	case opBurst:
		w.mu.Lock()
		w.st("bursts", 1)
		for i := uint64(0); i < o.A; i++ {
			w.mineBlock(1, false)
		}
		w.mu.Unlock()
		w.flush()
	case opReorg:
		w.mu.Lock()
		w.reorg(o.A, o.F1, o.F2, o.Blocks)
		if o.FinA > 0 {
			w.finalise(o.FinA-1, o.FinB)
		}
		w.mu.Unlock()
		w.flush()
	case opFinalise:
		w.mu.Lock()
		w.finalise(int(o.A), o.B)
		w.mu.Unlock()
	case opSubErr:
		w.mu.Lock()
		if in := w.inst; in.subActive {
			select {
			case in.sub.errCh <- errInjected:
			default:
			}
			in.subActive = false
			w.st("subscription_errors", 1)
			w.tr("subscription error injected")
		}
		w.mu.Unlock()
	case opFailWatch:
		w.mu.Lock()
		w.failWatch += int(o.A)
		w.mu.Unlock()
	case opFailFinal:
		w.mu.Lock()
		w.failFinal += int(o.A)
		w.mu.Unlock()
	case opWait:
		w.mu.Lock()
		in := w.inst
		w.mu.Unlock()
		switch o.A {
		case 0, 1:
			n := 1 + int(o.A)*2
			t := 0
			w.waitFor("polls", func() bool {
				if t == 0 {
					t = in.loopPolls + n
				}
				return in.loopPolls >= t
			})
		case 2:
			w.waitFor("drain", func() bool { return in.watchOK >= 1 && len(in.sink) == 0 })
		case 3:
			runtime.Gosched()
		default:
			w.waitFor("subscribed", func() bool { return in.subActive })
		}
	case opOutage:
		// a reorg whose notices (and new-branch logs) reach the client's channel, the
		// connection dropping right after them, an outage (failed resubscribes) during
		// which L1 moves on and finalises.
		w.mu.Lock()
		in := w.inst
		if in.subActive && in.sent == len(in.queue) && w.reorg(o.A, o.F1, o.F2, o.Blocks) && len(in.queue)-in.sent <= cap(in.sink)-len(in.sink) {
			for ; in.sent < len(in.queue); in.sent++ {
				it := in.queue[in.sent]
				in.sink <- it.e.update(it.removed)
			}
			select {
			case in.sub.errCh <- errInjected:
			default:
			}
			in.subActive = false
			w.failWatch += int(o.B)
			w.st("subscription_errors", 1)
			w.st("outages_right_after_a_reorg", 1)
			w.tr("connection dropped right after the reorg notices; %d resubscribes will fail", o.B)
			w.mineBlock(0, false)
			w.mineBlock(0, false)
			w.finalise(o.FinA-1, o.FinB)
		}
		w.mu.Unlock()
		w.flush()
	case opStall:
		// the finalised-height query starts failing; while the client sits in its retry
		// loop a reorg's notices reach its channel and L1 moves on and finalises.
		w.mu.Lock()
		in := w.inst
		ok := in.subActive && in.watchOK >= 1 && in.sent == len(in.queue)
		f0 := w.finalFailures
		if ok {
			w.failFinal += int(o.B)
		}
		w.mu.Unlock()
		if ok && w.waitFor("stall", func() bool { return w.finalFailures > f0 || !in.subActive }) {
			w.mu.Lock()
			if in.subActive && w.failFinal > 0 && w.reorg(o.A, o.F1, o.F2, o.Blocks) && len(in.queue)-in.sent <= cap(in.sink)-len(in.sink) {
				for ; in.sent < len(in.queue); in.sent++ {
					it := in.queue[in.sent]
					in.sink <- it.e.update(it.removed)
				}
				w.st("reorgs_delivered_while_client_sat_in_finalised_retry_loop", 1)
				w.tr("reorg notices delivered while the client retries the finalised-height query")
				w.mineBlock(0, false)
				w.mineBlock(0, false)
				w.finalise(o.FinA-1, o.FinB)
			}
			w.mu.Unlock()
		}
		w.flush()
	case opCheck:
		w.checkpoint()
	case opFailHeadWrite:
		w.failHeadWrite()
	case opRestart:
		w.stopInstance()
		w.mu.Lock()
		ab := w.aborted != ""
		w.st("restarts", 1)
		w.mu.Unlock()
		if !ab {
			w.startInstance(w.sc.Inst[o.A])
		}
	}
}

func chunkBucket(c uint64) string {
	switch {
	case c == 0:
		return "default1000"
	case c == 1:
		return "1"
	case c <= 5:
		return "2-5"
	case c <= 50:
		return "6-50"
	case c <= 300:
		return "51-300"
	}
	return "301-1000"
}

func runCase(r *lib.Run, idx int) {
	sc := genScript(lib.Rng("C17/script", uint64(idx)))
	withWriteFailure(sc, idx)
	w := &world{
		r: r, idx: idx, sc: sc,
		byHash: map[string]*event{}, stats: map[string]int{}, baseL2: sc.BaseL2, l2gap: sc.L2Gap,
		unclamped: os.Getenv("VERIF_C17_UNCLAMPED") == "1",
		pace:      lib.Rng("C17/pace", uint64(idx)),
	}
	w.hook = &hookDB{KeyValueStore: memory.New(), w: w, key: db.L1Height.Key()}
	w.newProcess()

	// history that exists before the node starts
	w.mu.Lock()
	w.latest = sc.BaseL1
	for i, h := range sc.Hist {
		if i == 0 {
			w.latest += h.Gap
			w.mineBlock(h.Events, true)
		} else {
			w.latest += h.Gap
			w.mineBlock(h.Events, false)
		}
	}
	w.latest += sc.TailGap
	switch sc.FinMode {
	case 0: // nothing finalised yet
	case 1:
		if len(w.chain) > 0 {
			w.finalised = w.chain[sc.FinP%uint64(len(w.chain))].L1
		}
	case 2:
		if len(w.chain) > 0 {
			if l := w.chain[sc.FinP%uint64(len(w.chain))].L1; l > 0 {
				w.finalised = l - 1
			}
		}
	case 3:
		w.finalised = sc.FinP % (w.latest + 1)
	case 4:
		w.finalised = w.latest
	default:
		if len(w.chain) > 0 {
			last := w.chain[len(w.chain)-1].L1
			w.finalised = last + sc.FinP%(w.latest-last+1)
		}
	}
	w.tr("history: %d logs, latest=%d finalised=%d", len(w.chain), w.latest, w.finalised)
	w.trace = append([]string(nil), w.trace[max(0, len(w.trace)-40):]...)
	w.mu.Unlock()

	w.startInstance(sc.Inst[0])
	for _, o := range sc.Ops {
		w.mu.Lock()
		stop := w.aborted != "" || w.violated
		w.mu.Unlock()
		if stop {
			break
		}
		w.exec(o)
		w.mu.Lock()
		w.st("op:"+opNames[o.K], 1)
		w.mu.Unlock()
	}
	w.stopInstance()
	w.endProcess()

	w.mu.Lock()
	defer w.mu.Unlock()
	if w.aborted == "" && !w.violated {
		w.judgeReads()
	}
	// feed values: a subsequence of the recorded heads
	// (Blockchain.SetL1Head announces on the feed before it writes: the head whose write the
	// harness made fail was announced without being recorded - a database fault is outside the
	// property's quantifier, so exactly those announcements are set aside)
	j, unwritten := 0, w.stats["injected_l1_head_write_failures"]
	for _, fh := range w.feedHeads {
		j0 := j
		for j < len(w.heads) && !headEq(&w.heads[j], &fh) {
			j++
		}
		if j == len(w.heads) && unwritten > 0 {
			unwritten--
			j = j0
			w.st("feed_values_of_a_head_whose_write_was_made_to_fail", 1)
			continue
		}
		if j == len(w.heads) {
			w.violate("feed:value-is-not-a-recorded-head-in-order", fmt.Sprintf("L1-head feed carried L2=%d which is not a (later) recorded head", fh.L2))
			break
		}
	}
	w.r.Eval(1)
	w.st("feed_values_received", len(w.feedHeads))
	if w.aborted != "" {
		r.Inconclusive(w.aborted)
		r.Note(fmt.Sprintf("case %d: %s", idx, w.aborted))
	}
	for k, v := range w.stats {
		r.Count(k, v)
	}
	r.Count("scripts", 1)
	r.Count("chunk_size:"+chunkBucket(sc.Inst[0].Chunk), 1)
	if len(w.heads) > 0 {
		hs := make([]string, len(w.heads))
		for i, h := range w.heads {
			hs[i] = fmt.Sprint(h.L2)
		}
		r.Case(fmt.Sprintf("c%s-i%d-r%d-s%d-h%s", chunkBucket(sc.Inst[0].Chunk), len(sc.Inst), w.stats["reorgs"], w.stats["subscription_errors"], strings.Join(hs, ",")))
		if len(w.heads) > 1 {
			r.Count("scripts_with_2+_heads", 1)
		}
	} else {
		r.Count("scripts_without_any_head", 1)
	}
	if idx < 3 {
		hs := []string{}
		for _, h := range w.heads {
			hs = append(hs, fmt.Sprintf("inst%d:L2=%d(%v)", h.Inst, h.L2, h.ev))
		}
		tr := w.trace
		if len(tr) > 60 {
			tr = tr[len(tr)-60:]
		}
		r.Sample(map[string]any{"case": idx, "script": sc.String(), "heads": hs, "trace_tail": tr, "stats": w.stats})
	}
}

func TestC17(t *testing.T) {
	r := lib.Start("C17", "exploration")
	n := r.N(6000, 150000)
	r.Cases(n, 0, func(idx int) { runCase(r, idx) })
	forwarderLayer(r)
	gethLayer(r)
	r.Assume("the forwarder between the Ethereum log subscription and the client (unexported forwardStateUpdates, reached through an export file the check's build adds to package l1 by build overlay) is monitored as a producer/consumer pair on its own; the real GethL1StateProvider (ethclient + abigen filterer) is driven against a scripted L1 node over a loopback HTTP JSON-RPC endpoint for eth_getLogs / eth_getBlockByNumber / eth_blockNumber / eth_chainId (log subscriptions over websocket are not)")
	r.Assume("the scripted L1 node is well-behaved as the property's quantifier states: finalised height monotone and <= latest; logs reorged only above the finalised height; " +
		"a log delivered to the running client is reorged only while a subscription exists and its removal notice is then delivered; all removal notices of a reorg precede the new branch's logs")
	r.Assume("causality: the node never answers a finalised height >= the block of a removal notice that the client has not yet read from its channel, EXCEPT for notices that were already in the channel when the client " +
		"verifiably stopped reading it for an arbitrarily long time (it re-entered WatchStateUpdate after a subscription error, or a FinalisedHeight call failed and it sits in the retry loop): L1 may finalise during such an outage")
	r.Assume("'delivered' = returned by FilterStateUpdate or taken by the client from its subscription channel (FIFO; counted as sent - len(channel) from inside the client goroutine); removal notices additionally count from the moment they sit in the channel; logs mined while no subscription is active are lost")
	r.Assume("Blockchain.SetL1Head performs no validation against the local chain, so the local chain is left empty; memory DB")
	r.Finish("case = random L1 script (pre-existing history with 0-30 logs incl. several per block and logs at L1 block 0, initial finalised below/at/one-below/above logs; then 4-40 ops: mine blocks with 0-3 logs, "+
		"reorgs of depth 1-40 above the finalised height with removal notices ascending/descending and optionally for never-delivered logs, finalised advances (to latest / exactly at a log / one below / random / +1, also between model change and physical delivery), "+
		"subscription errors, failing resubscribes, failing FinalisedHeight, reorg+connection drop+outage, reorg delivered while the client retries the finalised query, >128-log bursts (back-pressure), deliveries paced so that polls fall between the items of one reorg, "+
		"client restarts on the same database, catch-up chunk sizes 1..1000 and default, failing ChainID/LatestHeight/k-th FilterStateUpdate) "+
		"run against the real l1.Client.Run (1 ms poll/resubscribe) on a real Blockchain; oracle at every OnNewL1Head (inside the client goroutine): head == highest-L1 (last in block) log among those consumed by the client, without a removal notice read or sitting in its channel, at or below the finalised height last told; "+
		"stored head == announced head; Starknet block number never decreases (also across restarts); after an undisturbed catch-up scan: head == highest finalised canonical log <= latest told; at logical quiescence (script paused, channel empty, two further successful polls): stored head == designated log; "+
		"L1-head feed carries recorded heads only, in order; race detector on; no wall clock in any verdict (40 s watchdogs -> inconclusive); distinct = distinct (chunk bucket, instances, reorgs, sub errors, head sequence) with at least one head", 100)
}

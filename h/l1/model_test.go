package vl1

// Scripted, well-behaved model of an Ethereum node as seen through
// l1.L1StateProvider, plus the bookkeeping the C17 oracle needs.
//
// Well-behaved means exactly what the property's quantifier grants:
//   - the finalised height never decreases and never exceeds the latest height;
//   - a log is reorged only above the finalised height, and the removal notice of
//     every reorged log that had been delivered to the running client is delivered
//     (so a delivered log is never reorged while no subscription exists);
//   - all removal notices of one reorg precede the logs of the new branch, live logs
//     arrive in non-decreasing L1 order otherwise;
//   - whatever is mined while no subscription is active is lost (never delivered);
//   - the client is never told a finalised height >= the height of a removal notice it
//     has not yet taken from its channel (a block cannot be reorged and its replacement
//     finalised within the latency of a channel read) - unless the notice was already in
//     the channel when the client verifiably stopped reading it for an unbounded time:
//     it called WatchStateUpdate again after a subscription error, or a FinalisedHeight
//     call failed and it sits in its retry loop. L1 may finalise during such an outage.
//
// VERIF_C17_UNCLAMPED=1 drops that causality rule altogether (debugging aid only; the
// select race it exposes needs a physically impossible L1 node).

import (
	"context"
	"errors"
	"fmt"
	"math/big"
	"math/rand/v2"
	"sort"
	"sync"
	"sync/atomic"

	"github.com/NethermindEth/juno/blockchain"
	"github.com/NethermindEth/juno/blockchain/networks"
	"github.com/NethermindEth/juno/core"
	"github.com/NethermindEth/juno/core/felt"
	"github.com/NethermindEth/juno/db"
	"github.com/NethermindEth/juno/l1"
	"github.com/NethermindEth/juno/verifh/lib"
)

type event struct {
	ID        int
	L1        uint64
	L2        uint64
	Hash      felt.Felt
	Root      felt.Felt
	canonical bool
	// id of the client instance this log was last delivered to (-1: never)
	deliveredInst int
}

func (e *event) String() string {
	return fmt.Sprintf("E%d@L1:%d->L2:%d", e.ID, e.L1, e.L2)
}

func (e *event) update(removed bool) *l1.StateUpdate {
	return &l1.StateUpdate{
		L2BlockNumber: e.L2, L2BlockHash: e.Hash, StateRoot: e.Root, L1RefHeight: e.L1, Removed: removed,
	}
}

// item is one thing sent on the live subscription.
type item struct {
	e       *event
	removed bool
}

// viewEntry: a log the running client has consumed (filter result or taken from the sink).
type viewEntry struct {
	e       *event
	order   int
	removed bool // the removal notice has been consumed as well
}

type headRec struct {
	Inst int
	L2   uint64
	Hash felt.Felt
	Root felt.Felt
	ev   *event
}

type instCfg struct {
	Chunk          uint64 // 0: library default (1000)
	FailChainID    int
	FailLatest     bool
	FailFilterAt   int  // k-th FilterStateUpdate call fails (0: none)
	WaitSubscribed bool // driver waits for the first subscription before going on
}

type scriptSub struct {
	w     *world
	in    *instance
	errCh chan error
}

func (s *scriptSub) Err() <-chan error { return s.errCh }
func (s *scriptSub) Unsubscribe() {
	s.w.mu.Lock()
	defer s.w.mu.Unlock()
	if s.in.sub == s {
		s.in.subActive = false
	}
}

type instance struct {
	id  int
	cfg instCfg

	sink      chan<- *l1.StateUpdate // the client's channel; the driver is the only sender
	sub       *scriptSub
	subActive bool

	queue    []item // everything delivered on the subscription, FIFO
	sent     int    // physically sent prefix of queue
	consumed int    // prefix folded into view
	// queue[:exposed] was delivered before a subscription failure after which the client
	// verifiably left its receive loop (it called WatchStateUpdate again): an outage of
	// arbitrary length lies between delivery and the client's next read
	exposed int
	// same, where the client verifiably sat in its finalised-height retry loop (a
	// FinalisedHeight call failed while these items were already in its channel)
	exposedFin int
	view       map[int]*viewEntry
	order      int

	lastF     uint64
	haveF     bool
	loopPolls int // successful FinalisedHeight calls made after the first successful subscription

	watchCalls, watchOK int
	filterCalls         int
	failChainID         int

	inCatchup      bool
	cancelled      bool
	latestRead     uint64
	latestReadOK   bool
	catchupFault   bool
	catchupReorg   bool
	catchupHeads   int
	reachedGenesis bool

	baseline *headRec // stored head when the instance started (nil: none)
	heads    int
	closed   int

	cancel context.CancelFunc
	done   chan error
}

type world struct {
	mu  sync.Mutex
	r   *lib.Run
	idx int
	sc  *script
	bc  *blockchain.Blockchain

	latest, finalised uint64
	chain             []*event // canonical logs in chain order
	byHash            map[string]*event
	nextID            int
	baseL2            uint64
	l2gap             bool

	inst     *instance
	nextInst int

	failWatch     int
	failFinal     int
	finalFailures int

	heads     []headRec
	feedHeads []headRec

	hook        *hookDB
	endFeed     func()
	initial     *headRec // the record the case started with (none)
	headCount   atomic.Int64
	overtaken   atomic.Int64
	readersStop atomic.Bool
	rd          readers

	unclamped bool
	pace      *rand.Rand // driver goroutine only
	violated  bool
	aborted   string
	stats     map[string]int
	trace     []string
}

func (w *world) tr(format string, a ...any) {
	if len(w.trace) < 700 {
		w.trace = append(w.trace, fmt.Sprintf(format, a...))
	}
}

func (w *world) st(k string, n int) { w.stats[k] += n }

// ---------------------------------------------------------------- L1 model mutation (driver side; w.mu held)

func (w *world) nextL2(gap uint64) uint64 {
	if len(w.chain) == 0 {
		return w.baseL2
	}
	n := w.chain[len(w.chain)-1].L2 + 1
	if w.l2gap {
		n += gap
	}
	return n
}

// mineBlock appends one Ethereum block carrying nEv state-update logs; live-delivers
// them if a subscription is active, otherwise they are lost for the client.
func (w *world) mineBlock(nEv int, atCurrent bool) {
	if !atCurrent {
		w.latest++
	}
	for i := 0; i < nEv; i++ {
		e := &event{ID: w.nextID, L1: w.latest, L2: w.nextL2(uint64(w.nextID % 3)), canonical: true, deliveredInst: -1}
		e.Hash = *lib.F(uint64(1_000_000 + 2*e.ID))
		e.Root = *lib.F(uint64(1_000_001 + 2*e.ID))
		w.nextID++
		w.chain = append(w.chain, e)
		w.byHash[e.Hash.String()] = e
		w.st("events_mined", 1)
		in := w.inst
		if in != nil && in.subActive {
			in.queue = append(in.queue, item{e, false})
			e.deliveredInst = in.id
			w.st("events_delivered_live", 1)
			w.tr("live %v", e)
		} else {
			w.st("events_lost_while_unsubscribed", 1)
			w.tr("mined-unseen %v", e)
		}
	}
	if nEv > 1 {
		w.st("blocks_with_several_events", 1)
	}
}

// reorg replaces every block >= fork. Returns false if no admissible fork exists.
func (w *world) reorg(depth uint64, desc, noticeUndelivered bool, newBlocks []int) bool {
	in := w.inst
	low := w.finalised + 1
	subActive := in != nil && in.subActive
	if !subActive && in != nil {
		// no subscription: the removal notice could not be delivered, so logs the
		// running client has been given must stay canonical.
		for _, e := range w.chain {
			if e.deliveredInst == in.id && e.L1+1 > low {
				low = e.L1 + 1
			}
		}
	}
	var fork uint64
	if w.latest+1 > depth {
		fork = w.latest + 1 - depth
	}
	if fork < low {
		fork = low
	}
	if fork > w.latest {
		w.st("reorgs_skipped_no_admissible_fork", 1)
		return false
	}
	cut := sort.Search(len(w.chain), func(i int) bool { return w.chain[i].L1 >= fork })
	removed := append([]*event(nil), w.chain[cut:]...)
	w.chain = w.chain[:cut]
	w.st("reorgs", 1)
	w.tr("reorg fork=%d (latest %d, finalised %d) removes %d logs, subscribed=%v", fork, w.latest, w.finalised, len(removed), subActive)
	if in != nil && in.inCatchup && in.watchCalls == 0 {
		in.catchupReorg = true
	}
	if desc {
		for i, j := 0, len(removed)-1; i < j; i, j = i+1, j-1 {
			removed[i], removed[j] = removed[j], removed[i]
		}
	}
	for _, e := range removed {
		e.canonical = false
		if !subActive {
			continue
		}
		if e.deliveredInst == in.id {
			in.queue = append(in.queue, item{e, true})
			w.st("removal_notices_for_delivered_logs", 1)
			w.tr("notice removed %v", e)
		} else if noticeUndelivered {
			in.queue = append(in.queue, item{e, true})
			w.st("removal_notices_for_never_delivered_logs", 1)
			w.tr("notice removed (never delivered) %v", e)
		}
	}
	w.latest = fork - 1
	for _, n := range newBlocks {
		w.mineBlock(n, false)
	}
	return true
}

func (w *world) finalise(mode int, p uint64) {
	target := w.finalised
	var cands []*event
	for _, e := range w.chain {
		if e.L1 > w.finalised {
			cands = append(cands, e)
		}
	}
	switch mode {
	case 0:
		target = w.latest
	case 1: // exactly the block of a not yet finalised log
		if len(cands) > 0 {
			target = cands[p%uint64(len(cands))].L1
			w.st("finalise_exactly_at_event_block", 1)
		}
	case 2: // one block below a not yet finalised log
		if len(cands) > 0 {
			target = cands[p%uint64(len(cands))].L1 - 1
			w.st("finalise_one_below_event_block", 1)
		}
	case 3:
		if w.latest > w.finalised {
			target = w.finalised + 1 + p%(w.latest-w.finalised)
		}
	default:
		target = w.finalised + 1
	}
	if target > w.latest {
		target = w.latest
	}
	if target > w.finalised {
		w.finalised = target
		w.st("finalised_advances", 1)
		w.tr("finalised := %d", target)
	}
}

// ---------------------------------------------------------------- client-view bookkeeping (w.mu held)

func (w *world) advanceView(in *instance) {
	taken := 0
	if in.sink != nil {
		taken = in.sent - len(in.sink)
	}
	for ; in.consumed < taken; in.consumed++ {
		it := in.queue[in.consumed]
		if it.removed {
			if v := in.view[it.e.ID]; v != nil {
				v.removed = true
			}
			continue
		}
		in.order++
		in.view[it.e.ID] = &viewEntry{e: it.e, order: in.order}
	}
}

// best: the log the property designates, over what the client has consumed so far.
func best(in *instance, f uint64, doomed map[int]bool) *viewEntry {
	var b *viewEntry
	for _, v := range in.view {
		if v.removed || v.e.L1 > f || doomed[v.e.ID] {
			continue
		}
		if b == nil || v.e.L1 > b.e.L1 || (v.e.L1 == b.e.L1 && v.order > b.order) {
			b = v
		}
	}
	return b
}

func (w *world) storedHead() (*headRec, error) {
	h, err := w.bc.L1Head()
	if err != nil {
		if errors.Is(err, db.ErrKeyNotFound) {
			return nil, nil
		}
		return nil, err
	}
	rec := &headRec{L2: h.BlockNumber}
	if h.BlockHash != nil {
		rec.Hash = *h.BlockHash
	}
	if h.StateRoot != nil {
		rec.Root = *h.StateRoot
	}
	rec.ev = w.byHash[rec.Hash.String()]
	return rec, nil
}

func sameHead(h *headRec, e *event) bool {
	return h != nil && e != nil && h.L2 == e.L2 && h.Hash.Equal(&e.Hash) && h.Root.Equal(&e.Root)
}

// ---------------------------------------------------------------- the provider handed to l1.Client

type provider struct {
	w  *world
	in *instance
}

var errInjected = errors.New("injected L1 node failure")

func (p *provider) ChainID(context.Context) (*big.Int, error) {
	p.w.mu.Lock()
	defer p.w.mu.Unlock()
	if p.in.failChainID > 0 {
		p.in.failChainID--
		p.w.st("chain_id_failures", 1)
		return nil, errInjected
	}
	return new(big.Int).Set(networks.Sepolia.L1ChainID), nil
}

func (p *provider) LatestHeight(context.Context) (uint64, error) {
	w, in := p.w, p.in
	w.mu.Lock()
	defer w.mu.Unlock()
	in.inCatchup = true
	if in.cfg.FailLatest {
		in.catchupFault = true
		w.st("latest_height_failures", 1)
		return 0, errInjected
	}
	in.latestRead, in.latestReadOK = w.latest, true
	w.tr("inst%d LatestHeight=%d", in.id, w.latest)
	return w.latest, nil
}

func (p *provider) FinalisedHeight(context.Context) (uint64, error) {
	w, in := p.w, p.in
	w.mu.Lock()
	defer w.mu.Unlock()
	if w.failFinal > 0 {
		w.failFinal--
		if in.watchCalls == 0 {
			in.catchupFault = true
		}
		w.st("finalised_height_failures", 1)
		w.finalFailures++
		if in.watchOK >= 1 {
			w.advanceView(in)
			// only what physically sits in the client's channel counts
			for i := max(in.consumed, in.exposed, in.exposedFin); i < in.sent; i++ {
				if in.queue[i].removed {
					w.st("removal_notices_left_unread_across_a_stalled_finalised_query", 1)
				}
			}
			in.exposedFin = max(in.exposedFin, in.sent)
		}
		return 0, errInjected
	}
	w.advanceView(in)
	f := w.finalised
	pending := len(in.queue) - in.consumed
	if pending > 0 {
		w.st("polls_with_untaken_items_in_channel", 1)
	}
	if !w.unclamped {
		for i := in.consumed; i < len(in.queue); i++ {
			it := in.queue[i]
			if i < in.exposed || i < in.exposedFin {
				if it.removed && it.e.L1 <= f {
					w.st("finalised_answers_past_a_removal_notice_left_unread_across_an_outage_or_stall", 1)
				}
				continue
			}
			if it.removed && it.e.L1-1 < f {
				f = it.e.L1 - 1
				w.st("finalised_answer_held_below_untaken_removal", 1)
			}
		}
	}
	if in.haveF && f < in.lastF {
		// the model itself must never un-finalise
		w.aborted = fmt.Sprintf("harness: finalised answer would regress %d -> %d", in.lastF, f)
		f = in.lastF
	}
	in.lastF, in.haveF = f, true
	if in.watchOK >= 1 {
		in.loopPolls++
	}
	w.st("finalised_polls", 1)
	if len(w.trace) == 0 || w.trace[len(w.trace)-1] != fmt.Sprintf("poll F=%d", f) {
		w.tr("poll F=%d", f)
	}
	return f, nil
}

func (p *provider) FilterStateUpdate(_ context.Context, from, to uint64) ([]*l1.StateUpdate, error) {
	w, in := p.w, p.in
	w.mu.Lock()
	defer w.mu.Unlock()
	in.filterCalls++
	w.st("catchup_filter_calls", 1)
	if from > to {
		w.st("filter_calls_with_from_gt_to", 1)
	}
	if in.cfg.FailFilterAt == in.filterCalls {
		in.catchupFault = true
		w.st("filter_failures", 1)
		w.tr("inst%d filter[%d,%d] fails", in.id, from, to)
		return nil, errInjected
	}
	if from == 0 {
		in.reachedGenesis = true
	}
	var out []*l1.StateUpdate
	for _, e := range w.chain {
		if e.L1 >= from && e.L1 <= to {
			out = append(out, e.update(false))
			e.deliveredInst = in.id
			in.order++
			in.view[e.ID] = &viewEntry{e: e, order: in.order}
			w.st("events_delivered_by_filter", 1)
			w.tr("inst%d filter[%d,%d] -> %v", in.id, from, to, e)
		}
	}
	return out, nil
}

func (p *provider) WatchStateUpdate(_ context.Context, ch chan<- *l1.StateUpdate) (l1.Subscription, error) {
	w, in := p.w, p.in
	w.mu.Lock()
	defer w.mu.Unlock()
	in.watchCalls++
	if in.watchCalls == 1 {
		w.checkCatchupComplete(in)
		in.inCatchup = false
	} else if !in.subActive {
		w.advanceView(in)
		for i := max(in.consumed, in.exposed); i < in.sent; i++ {
			if in.queue[i].removed {
				w.st("removal_notices_left_unread_across_an_outage", 1)
			}
		}
		in.exposed = max(in.exposed, in.sent)
	}
	if w.failWatch > 0 {
		w.failWatch--
		w.st("subscribe_failures", 1)
		return nil, errInjected
	}
	if in.sink != nil && in.sink != ch {
		// whatever is still in the abandoned channel was delivered to the client; with
		// taken = sent - len(current channel) the oracle counts it as consumed.
		w.st("client_switched_update_channel", 1)
	}
	in.sink = ch
	in.sub = &scriptSub{w: w, in: in, errCh: make(chan error, 1)}
	in.subActive = true
	in.watchOK++
	if in.watchOK > 1 {
		w.st("resubscriptions", 1)
	}
	w.tr("inst%d subscribed (#%d)", in.id, in.watchOK)
	return in.sub, nil
}

func (p *provider) Close() {
	p.w.mu.Lock()
	p.in.closed++
	p.w.mu.Unlock()
}

var _ l1.L1StateProvider = (*provider)(nil)

func copyHead(h *core.L1Head) headRec {
	rec := headRec{L2: h.BlockNumber}
	if h.BlockHash != nil {
		rec.Hash = *h.BlockHash
	}
	if h.StateRoot != nil {
		rec.Root = *h.StateRoot
	}
	return rec
}

package vl1

import (
	"errors"
	"fmt"
	"math/big"
	"sync"
	"time"

	"github.com/NethermindEth/juno/core/felt"
	"github.com/NethermindEth/juno/l1"
	"github.com/NethermindEth/juno/l1/geth/contract"
	"github.com/NethermindEth/juno/verifh/lib"
	"github.com/ethereum/go-ethereum/common"
	"github.com/ethereum/go-ethereum/core/types"
)

// forwarderLayer: the production path between the Ethereum node's log subscription and
// l1.Client (GethL1StateProvider.WatchStateUpdate -> forwardStateUpdates) is a
// producer/consumer pair. "Delivered to it" in the property means: whatever the L1 node
// pushed - logs, several per block, the same log again, the removal notice of a log (the
// same log with Removed=true), replacements - reaches the client exactly once, in order,
// decoded faithfully, until the subscription fails (the failure must surface) or the client
// unsubscribes. A lost removal notice makes a reorged-out commit the recorded L1 head.

type fakeGethSub struct {
	err   chan error
	once  sync.Once
	unsub chan struct{}
}

func (s *fakeGethSub) Err() <-chan error { return s.err }
func (s *fakeGethSub) Unsubscribe()      { s.once.Do(func() { close(s.unsub) }) }

func updKey(u *l1.StateUpdate) string {
	return fmt.Sprintf("l2=%d hash=%s root=%s l1=%d removed=%v", u.L2BlockNumber, u.L2BlockHash.String(), u.StateRoot.String(), u.L1RefHeight, u.Removed)
}

func forwarderLayer(r *lib.Run) {
	n := r.N(300, 6000)
	r.Cases(n, 0, func(idx int) {
		rng := lib.Rng("C17/forwarder", uint64(idx))
		// the stream the L1 node pushes
		var evs []*contract.StarknetLogStateUpdate
		var want []string
		l1h, l2 := uint64(100+rng.IntN(50)), uint64(rng.IntN(20))
		var live []*contract.StarknetLogStateUpdate // pushed, not removed (newest last)
		nEv := 1 + rng.IntN(14)
		shapes := map[string]int{}
		for len(evs) < nEv {
			var ev *contract.StarknetLogStateUpdate
			switch x := rng.IntN(10); {
			case x < 2 && len(live) > 0:
				// reorg: the removal notice of the most recent log(s) - the very same log, Removed=true
				k := 1 + rng.IntN(min(2, len(live)))
				for j := 0; j < k && len(evs) < nEv; j++ {
					last := live[len(live)-1]
					live = live[:len(live)-1]
					cp := *last
					cp.Raw.Removed = true
					evs = append(evs, &cp)
					shapes["removal-of-most-recent-log"]++
				}
				continue
			case x == 2 && len(evs) > 0:
				// a load-balanced endpoint pushes the previous message again, unchanged
				cp := *evs[len(evs)-1]
				ev = &cp
				shapes["same-message-again"]++
			default:
				if rng.IntN(3) > 0 {
					l1h += uint64(1 + rng.IntN(3)) // otherwise: another log in the same Ethereum block
				} else {
					shapes["second-log-in-one-l1-block"]++
				}
				l2 += uint64(1 + rng.IntN(2))
				ev = &contract.StarknetLogStateUpdate{
					GlobalRoot:  new(big.Int).SetUint64(0x1000 + l2*7 + uint64(rng.IntN(3))),
					BlockNumber: new(big.Int).SetUint64(l2),
					BlockHash:   new(big.Int).SetUint64(0xb000 + l2*13 + uint64(rng.IntN(5))),
					Raw: types.Log{BlockNumber: l1h, BlockHash: common.BigToHash(new(big.Int).SetUint64(l1h*31 + uint64(rng.IntN(4)))),
						TxHash: common.BigToHash(new(big.Int).SetUint64(0x7700 + l2)), Index: uint(rng.IntN(4))},
				}
				live = append(live, ev)
				shapes["log"]++
			}
			evs = append(evs, ev)
		}
		for _, ev := range evs {
			var bh, sr felt.Felt
			bh.SetBigInt(ev.BlockHash)
			sr.SetBigInt(ev.GlobalRoot)
			want = append(want, updKey(&l1.StateUpdate{L2BlockNumber: ev.BlockNumber.Uint64(), L2BlockHash: bh, StateRoot: sr, L1RefHeight: ev.Raw.BlockNumber, Removed: ev.Raw.Removed}))
		}
		end := []string{"subscription-error", "client-unsubscribes", "stream-ends"}[rng.IntN(3)]
		gethCh := make(chan *contract.StarknetLogStateUpdate, 1+rng.IntN(4))
		out := make(chan *l1.StateUpdate, rng.IntN(3)) // the client's channel, sometimes unbuffered
		gs := &fakeGethSub{err: make(chan error, 1), unsub: make(chan struct{})}
		sub := l1.VerifForwardStateUpdates(gs, gethCh, out)
		errBoom := errors.New("verif: websocket dropped")
		wd := time.NewTimer(60 * time.Second)
		defer wd.Stop()
		var got []string
		inconclusive := false
		// producer and consumer in lock step: push one, take everything that comes out before the
		// next push is accepted (the consumer may also stall: then the producer runs ahead into the buffers)
		pi := 0
		lost := false
		for len(got) < len(want) && !inconclusive && !lost {
			if pi < len(evs) && rng.IntN(3) == 0 {
				// the consumer stalls for a step: the producer runs ahead into the buffers if it can
				select {
				case gethCh <- evs[pi]:
					pi++
					continue
				default:
				}
			}
			var push chan *contract.StarknetLogStateUpdate
			var next *contract.StarknetLogStateUpdate
			var quiet <-chan time.Time
			if pi < len(evs) {
				push, next = gethCh, evs[pi]
			} else {
				// everything is pushed: what is still missing must arrive without further input
				quiet = time.After(30 * time.Second) // normal: microseconds; expiry means a lost message (or, on an absurdly overloaded machine, a false alarm - hence 30 s)
			}
			select {
			case push <- next:
				pi++
			case u := <-out:
				got = append(got, updKey(u))
			case e := <-sub.Err():
				r.Violation("forwarder:subscription-ended-by-itself", idx, fmt.Sprintf("the forwarding subscription ended (%v) after %d of %d messages although the L1 subscription is alive", e, len(got), len(want)), map[string]any{"pushed": want, "received": got})
				return
			case <-quiet:
				lost = true // nothing arrives any more (decided below, on the two sequences)
			case <-wd.C:
				inconclusive = true
			}
		}
		if inconclusive {
			r.Inconclusive("forwarder:watchdog")
			return
		}
		r.Eval(len(want))
		for k, v := range shapes {
			r.Count("forwarder.pushed:"+k, v)
		}
		r.Count("forwarder.messages_pushed", len(want))
		r.Count("forwarder.streams", 1)
		// exactly-once, in order, faithful
		if d := diffSeqs(want, got); d != "" {
			class := "forwarder:" + d
			// which kind of message is affected first
			i := 0
			for i < len(got) && i < len(want) && got[i] == want[i] {
				i++
			}
			if i < len(want) {
				switch {
				case evs[i].Raw.Removed:
					class += ":removal-notice"
				case i > 0 && want[i] == want[i-1]:
					class += ":repeated-message"
				default:
					class += ":log"
				}
			}
			r.Violation(class, idx, fmt.Sprintf("the client received %d of the %d messages the L1 node pushed (first difference at #%d: pushed %q)", len(got), len(want), i, func() string {
				if i < len(want) {
					return want[i]
				}
				return "<nothing more>"
			}()), map[string]any{"pushed": want, "received": got, "end": end})
			return
		}
		// how the stream ends
		switch end {
		case "subscription-error":
			gs.err <- errBoom
			select {
			case e := <-sub.Err():
				if !errors.Is(e, errBoom) {
					r.Violation("forwarder:subscription-error-not-surfaced", idx, fmt.Sprintf("the L1 subscription failed with %v; the client's subscription reports %v", errBoom, e), nil)
				}
			case <-time.After(20 * time.Second):
				r.Violation("forwarder:subscription-error-not-surfaced", idx, "the L1 subscription failed; nothing on the client's Err() channel after 20 s", nil)
			}
			select {
			case <-gs.unsub:
			case <-time.After(20 * time.Second):
				r.Violation("forwarder:l1-subscription-leaked", idx, "after the failure the underlying L1 subscription was not unsubscribed", nil)
			}
		case "client-unsubscribes":
			sub.Unsubscribe()
			select {
			case <-gs.unsub:
			case <-time.After(20 * time.Second):
				r.Violation("forwarder:l1-subscription-leaked", idx, "after Unsubscribe the underlying L1 subscription was not unsubscribed", nil)
			}
		default:
			sub.Unsubscribe()
		}
		r.Count("forwarder.ends:"+end, 1)
		r.Case(fmt.Sprintf("forwarder-%d-%v-%s", len(want), shapes, end))
		if idx == 0 {
			r.Sample(map[string]any{"kind": "forwarder stream", "pushed_by_l1_node": want, "received_by_client": got, "end": end})
		}
	})
}

func diffSeqs(want, got []string) string {
	if len(want) == len(got) {
		same := true
		for i := range want {
			if want[i] != got[i] {
				same = false
			}
		}
		if same {
			return ""
		}
		return "message-altered-or-reordered"
	}
	if len(got) < len(want) {
		return "message-lost"
	}
	return "message-duplicated"
}

package vstore

import (
	"encoding/binary"
	"encoding/json"
	"fmt"
	"math/big"
	"math/rand/v2"
	"strings"

	"github.com/NethermindEth/juno/core"
	"github.com/NethermindEth/juno/core/felt"
	"github.com/NethermindEth/juno/l1/eth"
	"github.com/bits-and-blooms/bloom/v3"
)

// shaper generates records whose *shape* is adversarial for a codec: every slice and
// map is independently nil / empty / one element / many elements, every optional
// pointer independently nil / set, felts include values whose Montgomery limbs sit on
// the CBOR integer-width boundaries (the felt codec writes raw limbs). Values need not
// be a valid Starknet block: these records go straight through core.Write*.
type shaper struct {
	rng  *rand.Rand
	seq  uint64
	safe bool           // the block under construction must be hashable (no nil in hashed pointer fields)
	cov  map[string]int // "<Type.Field>=<shape>" -> count
}

func newShaper(rng *rand.Rand) *shaper {
	return &shaper{rng: rng, seq: uint64(rng.Uint32()) << 24, cov: map[string]int{}}
}

func (s *shaper) next() uint64 { s.seq++; return s.seq }

var shapeNames = [4]string{"nil", "empty", "one", "many"}

// pick chooses one of nil / empty / one / many for a container field and records it.
func (s *shaper) pick(field string) int {
	k := s.rng.IntN(4)
	s.cov[field+"="+shapeNames[k]]++
	return k
}

func (s *shaper) count(k int) int {
	switch k {
	case 0, 1:
		return 0
	case 2:
		return 1
	default:
		return 2 + s.rng.IntN(5)
	}
}

// coin records an optional-pointer decision; required forces "set".
func (s *shaper) coin(field string, required bool) bool {
	set := required || s.rng.IntN(4) != 0
	if set {
		s.cov[field+"=set"]++
	} else {
		s.cov[field+"=nil"]++
	}
	return set
}

var (
	limbEdges    = []uint64{0, 1, 23, 24, 255, 256, 65535, 65536, 1<<32 - 1, 1 << 32, ^uint64(0)}
	topLimbEdges = []uint64{0, 1, 23, 24, 255, 256, 65535, 65536, 1<<32 - 1, 1 << 32, 0x07ffffffffffffff}
)

// rawLimbFelt returns a field element whose *internal* (Montgomery) limbs are the
// given small values; limb3 <= 0x07ff.. keeps it below the modulus, so it is a valid
// element. The felt CBOR codec encodes the internal limbs with variable width.
func (s *shaper) rawLimbFelt() felt.Felt {
	return felt.Felt{
		limbEdges[s.rng.IntN(len(limbEdges))], limbEdges[s.rng.IntN(len(limbEdges))],
		limbEdges[s.rng.IntN(len(limbEdges))], topLimbEdges[s.rng.IntN(len(topLimbEdges))],
	}
}

func (s *shaper) randFelt() felt.Felt {
	var b [32]byte
	for i := 0; i < 4; i++ {
		binary.BigEndian.PutUint64(b[i*8:], s.rng.Uint64())
	}
	b[0] &= 0x07
	if b[0] == 0x07 { // stay clearly below the modulus 0x0800000000000011...
		b[0] = 0x03
	}
	var f felt.Felt
	f.SetBytes(b[:])
	return f
}

func (s *shaper) felt() felt.Felt {
	switch s.rng.IntN(9) {
	case 0:
		return felt.Zero
	case 1:
		return *new(felt.Felt).SetUint64(uint64(s.rng.IntN(1 << 16)))
	case 2, 3:
		return s.rawLimbFelt()
	case 4:
		return *new(felt.Felt).Sub(&felt.Zero, &felt.One) // p-1
	case 5:
		return felt.One
	default:
		return s.randFelt()
	}
}

// uniq returns a non-zero felt that is distinct from every other uniq() of this shaper.
func (s *shaper) uniq() *felt.Felt {
	var b [32]byte
	binary.BigEndian.PutUint64(b[0:], s.rng.Uint64()&0x00ffffffffffffff)
	binary.BigEndian.PutUint64(b[8:], s.rng.Uint64())
	binary.BigEndian.PutUint64(b[16:], s.rng.Uint64())
	binary.BigEndian.PutUint64(b[24:], s.next())
	var f felt.Felt
	f.SetBytes(b[:])
	return &f
}

func (s *shaper) pf() *felt.Felt { f := s.felt(); return &f }

func (s *shaper) optFelt(field string, required bool) *felt.Felt {
	if !s.coin(field, required) {
		return nil
	}
	return s.pf()
}

func (s *shaper) feltsN(n int, isNil bool) []felt.Felt {
	if isNil {
		return nil
	}
	out := make([]felt.Felt, n)
	for i := range out {
		out[i] = s.felt()
	}
	return out
}

func (s *shaper) felts(field string) []felt.Felt {
	k := s.pick(field)
	return s.feltsN(s.count(k), k == 0)
}

func (s *shaper) u64() uint64 {
	switch s.rng.IntN(6) {
	case 0:
		return 0
	case 1:
		return ^uint64(0)
	case 2:
		return limbEdges[s.rng.IntN(len(limbEdges))]
	default:
		return s.rng.Uint64() >> uint(s.rng.IntN(64))
	}
}

func (s *shaper) version(v uint64) *core.TransactionVersion {
	if !s.coin("Tx.Version", s.rng.IntN(4) != 0) {
		return nil
	}
	return new(core.TransactionVersion).SetUint64(v)
}

func (s *shaper) daMode() core.DataAvailabilityMode {
	return core.DataAvailabilityMode(s.rng.IntN(2))
}

func (s *shaper) bounds(field string) map[core.Resource]core.ResourceBounds {
	k := s.pick(field)
	if k == 0 {
		return nil
	}
	m := map[core.Resource]core.ResourceBounds{}
	var rs []core.Resource
	switch k {
	case 2:
		rs = []core.Resource{core.Resource(1 + s.rng.IntN(3))}
	case 3:
		rs = []core.Resource{core.ResourceL1Gas, core.ResourceL2Gas, core.ResourceL1DataGas}
		if s.rng.IntN(3) == 0 {
			rs = rs[:2] // pre-0.13.2 style: no L1 data gas
		}
	}
	for _, r := range rs {
		m[r] = core.ResourceBounds{MaxAmount: s.u64(), MaxPricePerUnit: s.optFelt(field+".MaxPricePerUnit", s.rng.IntN(2) == 0)}
	}
	return m
}

// txKinds enumerates every transaction kind x version the node can store.
var txKinds = []string{"invoke0", "invoke1", "invoke3", "declare0", "declare1", "declare2", "declare3", "deploy0", "deploy_account1", "deploy_account3", "l1_handler0"}

func (s *shaper) tx(kind string, huge bool) core.Transaction {
	r := s.rng
	cd := func(field string) []felt.Felt {
		if huge {
			if r.IntN(3) == 0 {
				// beyond 2^17 elements: real calldata / Sierra programs of that size exist, and
				// decoder limits on array lengths sit at such powers of two
				return s.feltsN(131073+r.IntN(9000), false)
			}
			return s.feltsN(20000, false)
		}
		return s.felts(field)
	}
	// "foreign": fields of other versions populated too (the codec must not care)
	foreign := r.IntN(6) == 0
	opt := func(field string, native bool) *felt.Felt {
		if !native && !foreign {
			return nil
		}
		return s.optFelt(field, false)
	}
	switch kind {
	case "invoke0", "invoke1", "invoke3":
		v := map[string]uint64{"invoke0": 0, "invoke1": 1, "invoke3": 3}[kind]
		t := &core.InvokeTransaction{
			TransactionHash: s.uniq(), CallData: cd("Invoke.CallData"), TransactionSignature: s.felts("Invoke.TransactionSignature"),
			MaxFee: opt("Invoke.MaxFee", v < 3), ContractAddress: opt("Invoke.ContractAddress", v == 0), Version: s.version(v),
			EntryPointSelector: opt("Invoke.EntryPointSelector", v == 0), Nonce: opt("Invoke.Nonce", v >= 1), SenderAddress: opt("Invoke.SenderAddress", v >= 1),
		}
		if v == 3 || foreign {
			t.ResourceBounds = s.bounds("Invoke.ResourceBounds")
			t.Tip = s.u64()
			t.PaymasterData = s.felts("Invoke.PaymasterData")
			t.AccountDeploymentData = s.felts("Invoke.AccountDeploymentData")
			t.NonceDAMode, t.FeeDAMode = s.daMode(), s.daMode()
			t.ProofFacts = s.felts("Invoke.ProofFacts")
		}
		return t
	case "declare0", "declare1", "declare2", "declare3":
		v := map[string]uint64{"declare0": 0, "declare1": 1, "declare2": 2, "declare3": 3}[kind]
		t := &core.DeclareTransaction{
			TransactionHash: s.uniq(), ClassHash: s.optFelt("Declare.ClassHash", false), SenderAddress: s.optFelt("Declare.SenderAddress", false),
			MaxFee: opt("Declare.MaxFee", v < 3), TransactionSignature: s.felts("Declare.TransactionSignature"), Nonce: s.optFelt("Declare.Nonce", false),
			Version: s.version(v), CompiledClassHash: opt("Declare.CompiledClassHash", v >= 2),
		}
		if v == 3 || foreign {
			t.ResourceBounds = s.bounds("Declare.ResourceBounds")
			t.Tip = s.u64()
			t.PaymasterData = s.felts("Declare.PaymasterData")
			t.AccountDeploymentData = s.felts("Declare.AccountDeploymentData")
			t.NonceDAMode, t.FeeDAMode = s.daMode(), s.daMode()
		}
		return t
	case "deploy0":
		return &core.DeployTransaction{TransactionHash: s.uniq(), ContractAddressSalt: s.optFelt("Deploy.ContractAddressSalt", false),
			ContractAddress: s.optFelt("Deploy.ContractAddress", false), ClassHash: s.optFelt("Deploy.ClassHash", false),
			ConstructorCallData: cd("Deploy.ConstructorCallData"), Version: s.version(uint64(r.IntN(2)))}
	case "deploy_account1", "deploy_account3":
		v := map[string]uint64{"deploy_account1": 1, "deploy_account3": 3}[kind]
		t := &core.DeployAccountTransaction{
			DeployTransaction: core.DeployTransaction{TransactionHash: s.uniq(), ContractAddressSalt: s.optFelt("DeployAccount.ContractAddressSalt", false),
				ContractAddress: s.optFelt("DeployAccount.ContractAddress", false), ClassHash: s.optFelt("DeployAccount.ClassHash", false),
				ConstructorCallData: cd("DeployAccount.ConstructorCallData"), Version: s.version(v)},
			MaxFee: opt("DeployAccount.MaxFee", v < 3), TransactionSignature: s.felts("DeployAccount.TransactionSignature"), Nonce: s.optFelt("DeployAccount.Nonce", false),
		}
		if v == 3 || foreign {
			t.ResourceBounds = s.bounds("DeployAccount.ResourceBounds")
			t.Tip = s.u64()
			t.PaymasterData = s.felts("DeployAccount.PaymasterData")
			t.NonceDAMode, t.FeeDAMode = s.daMode(), s.daMode()
		}
		return t
	default: // l1_handler0
		// CallData[0] (the L1 sender), ContractAddress and EntryPointSelector are required by
		// MessageHash(), which the node evaluates while storing; uniqueness of the message is
		// carried by the selector so that the msg-hash -> tx-hash index has one answer.
		calldata := append([]felt.Felt{*new(felt.Felt).SetUint64(0xe7000000 + uint64(r.IntN(16)))}, s.feltsN(s.count(s.pick("L1Handler.CallData[1:]")), false)...)
		if huge {
			calldata = append(calldata, s.feltsN(20000, false)...)
		}
		return &core.L1HandlerTransaction{TransactionHash: s.uniq(), ContractAddress: s.pf(), EntryPointSelector: s.uniq(),
			Nonce: s.optFelt("L1Handler.Nonce", false), CallData: calldata, Version: s.version(0)}
	}
}

var revertReasons = []string{
	"", "x", "out of gas", "assert failed: échec ✓ 失敗 \U0001F4A5", "line1\nline2\ttab\x00nul", "\u2028\u2029 \ufeff bom",
	"0x4661696c656420746f20646573657269616c697a6520706172616d202331 ('Failed to deserialize param #1')",
}

func (s *shaper) revertReason(huge bool) string {
	if huge || s.rng.IntN(40) == 0 {
		return strings.Repeat("Error in the called contract — ✗ ", 1+s.rng.IntN(3000))
	}
	return revertReasons[s.rng.IntN(len(revertReasons))]
}

func (s *shaper) event() *core.Event {
	return &core.Event{From: s.optFelt("Event.From", s.safe), Keys: s.felts("Event.Keys"), Data: s.felts("Event.Data")}
}

func (s *shaper) ethAddr() eth.Address {
	var a eth.Address
	switch s.rng.IntN(3) {
	case 0: // zero address
	case 1:
		for i := range a {
			a[i] = 0xff
		}
	default:
		for i := range a {
			a[i] = byte(s.rng.IntN(256))
		}
	}
	return a
}

func (s *shaper) receipt(tx core.Transaction, huge bool) *core.TransactionReceipt {
	r := s.rng
	rc := &core.TransactionReceipt{
		Fee: s.optFelt("Receipt.Fee", s.safe), FeeUnit: core.FeeUnit(r.IntN(2)), TransactionHash: tx.Hash(),
		Reverted: r.IntN(3) == 0,
	}
	// the reason is stored whatever Reverted says; both combinations are legal for the codec
	if rc.Reverted || r.IntN(8) == 0 {
		rc.RevertReason = s.revertReason(huge)
		s.cov["Receipt.RevertReason="+map[bool]string{true: "empty", false: "text"}[rc.RevertReason == ""]]++
	}
	k := s.pick("Receipt.Events")
	if k != 0 {
		n := s.count(k)
		if huge {
			n = 3000
		}
		rc.Events = make([]*core.Event, n)
		for i := range rc.Events {
			rc.Events[i] = s.event()
		}
	}
	k = s.pick("Receipt.L2ToL1Message")
	if k != 0 {
		rc.L2ToL1Message = make([]*core.L2ToL1Message, s.count(k))
		for i := range rc.L2ToL1Message {
			rc.L2ToL1Message[i] = &core.L2ToL1Message{From: s.optFelt("L2ToL1Message.From", s.safe), Payload: s.felts("L2ToL1Message.Payload"), To: s.ethAddr()}
		}
	}
	_, isL1 := tx.(*core.L1HandlerTransaction)
	if s.coin("Receipt.L1ToL2Message", false) && (isL1 || r.IntN(4) == 0) {
		rc.L1ToL2Message = &core.L1ToL2Message{From: s.ethAddr(), Nonce: s.optFelt("L1ToL2Message.Nonce", false), Payload: s.felts("L1ToL2Message.Payload"),
			Selector: s.optFelt("L1ToL2Message.Selector", false), To: s.optFelt("L1ToL2Message.To", false)}
	}
	if s.coin("Receipt.ExecutionResources", false) {
		er := &core.ExecutionResources{MemoryHoles: s.u64(), Steps: s.u64()}
		if r.IntN(2) == 0 {
			er.BuiltinInstanceCounter = core.BuiltinInstanceCounter{Pedersen: s.u64(), RangeCheck: s.u64(), Bitwise: s.u64(), Output: s.u64(), Ecsda: s.u64(),
				EcOp: s.u64(), Keccak: s.u64(), Poseidon: s.u64(), SegmentArena: s.u64(), AddMod: s.u64(), MulMod: s.u64(), RangeCheck96: s.u64()}
		}
		if s.coin("ExecutionResources.DataAvailability", false) {
			er.DataAvailability = &core.DataAvailability{L1Gas: s.u64(), L1DataGas: s.u64()}
		}
		if s.coin("ExecutionResources.TotalGasConsumed", false) {
			er.TotalGasConsumed = &core.GasConsumed{L1Gas: s.u64(), L1DataGas: s.u64(), L2Gas: s.u64()}
		}
		rc.ExecutionResources = er
	}
	return rc
}

func (s *shaper) gasPrice(field string) *core.GasPrice {
	if !s.coin(field, s.safe) {
		return nil
	}
	return &core.GasPrice{PriceInWei: s.optFelt(field+".PriceInWei", s.safe), PriceInFri: s.optFelt(field+".PriceInFri", s.safe)}
}

func (s *shaper) bloom() *bloom.BloomFilter {
	f := bloom.New(core.EventsBloomLength, core.EventsBloomHashFuncs)
	n := []int{0, 1, 5, 400}[s.rng.IntN(4)]
	for i := 0; i < n; i++ {
		var b [9]byte
		binary.BigEndian.PutUint64(b[:], s.rng.Uint64())
		f.Add(b[:])
	}
	return f
}

func (s *shaper) signatures() [][]*felt.Felt {
	k := s.pick("Header.Signatures")
	if k == 0 {
		return nil
	}
	out := make([][]*felt.Felt, s.count(k))
	for i := range out {
		kk := s.pick("Header.Signatures[]")
		if kk == 0 {
			continue
		}
		out[i] = make([]*felt.Felt, s.count(kk))
		for j := range out[i] {
			out[i][j] = s.pf()
		}
	}
	return out
}

var hashedVersions = []string{"0.13.2", "0.13.2.1", "0.13.4", "0.13.5", "0.14.0", "0.14.1"}
var otherVersions = []string{"", "0.0.0", "0.9.1", "0.11.0", "0.12.3", "0.13.1.1", "99.99.99", "not-a-version ✓"}

// shapedBlock is one block-worth of records as handed to core.Write*.
type shapedBlock struct {
	Header      *core.Header
	Txs         []core.Transaction
	Receipts    []*core.TransactionReceipt
	SU          *core.StateUpdate
	Commitments *core.BlockCommitments
	Safe        bool   // hashable: hash-relevant identity can be evaluated on it
	Unequal     bool   // len(Txs) != len(Receipts) (accepted by the write accessor, never produced by Store)
	Twin        bool   // fixed-size large blob (see twinBlock)
	Desc        string // structural key
}

func (s *shaper) block(number uint64) *shapedBlock {
	r := s.rng
	s.safe = r.IntN(2) == 0
	b := &shapedBlock{Safe: s.safe}
	huge := r.IntN(25) == 0
	k := s.pick("Block.Transactions")
	n := s.count(k)
	if k == 3 && r.IntN(4) == 0 {
		n = 12 + r.IntN(30)
	}
	if huge {
		n, k = 1, 2
	}
	if k != 0 {
		b.Txs = make([]core.Transaction, 0, n)
		b.Receipts = make([]*core.TransactionReceipt, 0, n)
	}
	kinds := map[string]int{}
	evs := uint64(0)
	for i := 0; i < n; i++ {
		kind := txKinds[r.IntN(len(txKinds))]
		kinds[kind]++
		s.cov["Tx.kind="+kind]++
		tx := s.tx(kind, huge)
		rc := s.receipt(tx, huge)
		evs += uint64(len(rc.Events))
		b.Txs = append(b.Txs, tx)
		b.Receipts = append(b.Receipts, rc)
	}
	if !huge && n > 0 && r.IntN(25) == 0 {
		// the write accessor takes two independent lists
		b.Unequal = true
		if r.IntN(2) == 0 {
			b.Receipts = b.Receipts[:r.IntN(len(b.Receipts))]
		} else {
			b.Txs = b.Txs[:r.IntN(len(b.Txs))]
		}
		b.Safe = false
	}
	ver := hashedVersions[r.IntN(len(hashedVersions))]
	if !s.safe && r.IntN(2) == 0 {
		ver = otherVersions[r.IntN(len(otherVersions))]
	}
	b.Header = &core.Header{
		Hash: s.uniq(), ParentHash: s.optFelt("Header.ParentHash", s.safe), Number: number, GlobalStateRoot: s.pf(),
		SequencerAddress: s.optFelt("Header.SequencerAddress", s.safe), TransactionCount: uint64(len(b.Txs)), EventCount: evs,
		Timestamp: s.u64(), ProtocolVersion: ver, EventsBloom: s.bloom(), L1GasPriceETH: s.optFelt("Header.L1GasPriceETH", s.safe),
		Signatures: s.signatures(), L1GasPriceSTRK: s.optFelt("Header.L1GasPriceSTRK", s.safe), L1DAMode: core.L1DAMode(r.IntN(2)),
		L1DataGasPrice: s.gasPrice("Header.L1DataGasPrice"), L2GasPrice: s.gasPrice("Header.L2GasPrice"),
	}
	if r.IntN(10) == 0 {
		b.Header.TransactionCount = s.u64() // the count is a stored number of its own, not derived on read
		b.Safe = false
	}
	b.SU = &core.StateUpdate{BlockHash: s.optFelt("StateUpdate.BlockHash", false), NewRoot: s.optFelt("StateUpdate.NewRoot", false), OldRoot: s.optFelt("StateUpdate.OldRoot", false)}
	if s.coin("StateUpdate.StateDiff", s.safe) {
		b.SU.StateDiff = s.stateDiff()
	}
	b.Commitments = &core.BlockCommitments{TransactionCommitment: s.optFelt("Commitments.TransactionCommitment", false), EventCommitment: s.optFelt("Commitments.EventCommitment", false),
		ReceiptCommitment: s.optFelt("Commitments.ReceiptCommitment", false), StateDiffCommitment: s.optFelt("Commitments.StateDiffCommitment", false), StateDiffLength: s.u64()}
	ks := []string{}
	for _, kd := range txKinds {
		if kinds[kd] > 0 {
			ks = append(ks, fmt.Sprintf("%s:%d", kd, kinds[kd]))
		}
	}
	b.Desc = fmt.Sprintf("n=%d txs=%d rcs=%d safe=%v huge=%v ver=%q [%s] ev=%d", number, len(b.Txs), len(b.Receipts), b.Safe, huge, ver, strings.Join(ks, ","), evs)
	return b
}

// twinBlock: a block whose transaction blob has a fixed, large encoded size (every felt is a
// random element: 37 bytes each). Several twins in one store make a buffer-recycling
// backend hand the memory of one twin's value to the read of the next twin: a result
// that still aliases the first read then shows the other twin's bytes.
func (s *shaper) twinBlock(number uint64) *shapedBlock {
	s.safe = false
	rf := func(n int) []felt.Felt {
		out := make([]felt.Felt, n)
		for i := range out {
			out[i] = s.randFelt()
		}
		return out
	}
	p := func() *felt.Felt { f := s.randFelt(); return &f }
	tx := &core.InvokeTransaction{TransactionHash: s.uniq(), CallData: rf(20000), TransactionSignature: rf(2), MaxFee: p(),
		Version: new(core.TransactionVersion).SetUint64(1), Nonce: p(), SenderAddress: p()}
	rc := &core.TransactionReceipt{Fee: p(), TransactionHash: tx.TransactionHash, Events: []*core.Event{{From: p(), Keys: rf(2), Data: rf(3000)}},
		L2ToL1Message: []*core.L2ToL1Message{}, ExecutionResources: &core.ExecutionResources{Steps: 1 << 40}}
	return &shapedBlock{
		Header: &core.Header{Hash: s.uniq(), ParentHash: p(), Number: number, GlobalStateRoot: p(), SequencerAddress: p(), TransactionCount: 1, EventCount: 1,
			Timestamp: 1 << 40, ProtocolVersion: "0.13.4", EventsBloom: s.bloom(), L1GasPriceETH: p(), L1GasPriceSTRK: p()},
		Txs: []core.Transaction{tx}, Receipts: []*core.TransactionReceipt{rc},
		SU:          &core.StateUpdate{BlockHash: p(), NewRoot: p(), OldRoot: p(), StateDiff: &core.StateDiff{}},
		Commitments: &core.BlockCommitments{TransactionCommitment: p()},
		Twin:        true, Desc: fmt.Sprintf("n=%d twin (1 invoke v1, 20000 calldata felts, 1 event with 3000 data felts: fixed blob size)", number),
	}
}

func (s *shaper) feltMap(field string) map[felt.Felt]*felt.Felt {
	k := s.pick(field)
	if k == 0 {
		return nil
	}
	m := map[felt.Felt]*felt.Felt{}
	for i := s.count(k); i > 0; i-- {
		m[s.felt()] = s.pf()
	}
	return m
}

func (s *shaper) stateDiff() *core.StateDiff {
	d := &core.StateDiff{
		Nonces: s.feltMap("StateDiff.Nonces"), DeployedContracts: s.feltMap("StateDiff.DeployedContracts"),
		DeclaredV1Classes: s.feltMap("StateDiff.DeclaredV1Classes"), ReplacedClasses: s.feltMap("StateDiff.ReplacedClasses"),
	}
	if k := s.pick("StateDiff.StorageDiffs"); k != 0 {
		d.StorageDiffs = map[felt.Felt]map[felt.Felt]*felt.Felt{}
		for i := s.count(k); i > 0; i-- {
			d.StorageDiffs[s.felt()] = s.feltMap("StateDiff.StorageDiffs{}")
		}
	}
	if k := s.pick("StateDiff.DeclaredV0Classes"); k != 0 {
		d.DeclaredV0Classes = make([]*felt.Felt, s.count(k))
		for i := range d.DeclaredV0Classes {
			d.DeclaredV0Classes[i] = s.pf()
		}
	}
	if k := s.pick("StateDiff.MigratedClasses"); k != 0 {
		d.MigratedClasses = map[felt.SierraClassHash]felt.CasmClassHash{}
		for i := s.count(k); i > 0; i-- {
			d.MigratedClasses[felt.SierraClassHash(s.felt())] = felt.CasmClassHash(s.felt())
		}
	}
	return d
}

// --- classes

func (s *shaper) rawJSON(field string) json.RawMessage {
	switch s.pick(field) {
	case 0:
		return nil
	case 1:
		return json.RawMessage{}
	case 2:
		return json.RawMessage(`[]`)
	default:
		return json.RawMessage(fmt.Sprintf(`[{"name":"f%d","type":"function","inputs":[],"outputs":[{"name":"ü✓","type":"felt"}]}]`, s.next()))
	}
}

func (s *shaper) depEntryPoints(field string) []core.DeprecatedEntryPoint {
	k := s.pick(field)
	if k == 0 {
		return nil
	}
	out := make([]core.DeprecatedEntryPoint, s.count(k))
	for i := range out {
		out[i] = core.DeprecatedEntryPoint{Selector: s.optFelt(field+".Selector", false), Offset: s.optFelt(field+".Offset", false)}
	}
	return out
}

func (s *shaper) cairo0() *core.DeprecatedCairoClass {
	prog := []string{"", "H4sIAAAAAAAA/w==", strings.Repeat("QUJD", 1+s.rng.IntN(5000))}[s.rng.IntN(3)]
	return &core.DeprecatedCairoClass{Abi: s.rawJSON("Cairo0.Abi"), Externals: s.depEntryPoints("Cairo0.Externals"), L1Handlers: s.depEntryPoints("Cairo0.L1Handlers"),
		Constructors: s.depEntryPoints("Cairo0.Constructors"), Program: prog}
}

func (s *shaper) sierraEPs(field string) []core.SierraEntryPoint {
	k := s.pick(field)
	if k == 0 {
		return nil
	}
	out := make([]core.SierraEntryPoint, s.count(k))
	for i := range out {
		out[i] = core.SierraEntryPoint{Index: s.u64(), Selector: s.optFelt(field+".Selector", s.safe)}
	}
	return out
}

func (s *shaper) casmEPs(field string) []core.CasmEntryPoint {
	k := s.pick(field)
	if k == 0 {
		return nil
	}
	out := make([]core.CasmEntryPoint, s.count(k))
	for i := range out {
		ep := core.CasmEntryPoint{Offset: s.u64(), Selector: s.optFelt(field+".Selector", s.safe)}
		switch s.pick(field + ".Builtins") {
		case 0:
		case 1:
			ep.Builtins = []string{}
		case 2:
			ep.Builtins = []string{"range_check"}
		default:
			ep.Builtins = []string{"pedersen", "", "range_check96", "ünï"}
		}
		out[i] = ep
	}
	return out
}

func (s *shaper) segments(depth int) core.SegmentLengths {
	sl := core.SegmentLengths{Length: s.u64()}
	k := s.pick("Casm.BytecodeSegmentLengths.Children")
	if k == 0 || depth >= 3 {
		if k == 1 {
			sl.Children = []core.SegmentLengths{}
		}
		return sl
	}
	sl.Children = make([]core.SegmentLengths, s.count(k))
	for i := range sl.Children {
		sl.Children[i] = s.segments(depth + 1)
	}
	return sl
}

func (s *shaper) sierra() *core.SierraClass {
	r := s.rng
	c := &core.SierraClass{
		Abi: []string{"", `[]`, `[{"type":"function","name":"g✓"}]`}[r.IntN(3)], AbiHash: s.optFelt("Sierra.AbiHash", s.safe),
		EntryPoints: core.SierraEntryPointsByType{Constructor: s.sierraEPs("Sierra.EntryPoints.Constructor"), External: s.sierraEPs("Sierra.EntryPoints.External"), L1Handler: s.sierraEPs("Sierra.EntryPoints.L1Handler")},
		Program:     felt.Slice[felt.Felt](s.felts("Sierra.Program")), ProgramHash: s.optFelt("Sierra.ProgramHash", s.safe),
		SemanticVersion: []string{"", "0.1.0", "0.1.0-ü"}[r.IntN(3)],
	}
	if r.IntN(10) == 0 {
		c.Program = felt.Slice[felt.Felt](s.feltsN(300+r.IntN(70000), false)) // array headers of 2 and 4 length bytes
		if r.IntN(4) == 0 {
			c.Program = felt.Slice[felt.Felt](s.feltsN(131072+r.IntN(3)+r.IntN(2)*r.IntN(100000), false)) // around and beyond 2^17 elements
		}
	}
	if s.coin("Sierra.Compiled", false) {
		cc := &core.CasmClass{
			Bytecode: felt.Slice[felt.Felt](s.felts("Casm.Bytecode")), PythonicHints: s.rawJSON("Casm.PythonicHints"), CompilerVersion: []string{"", "2.1.0"}[r.IntN(2)],
			Hints: s.rawJSON("Casm.Hints"), External: s.casmEPs("Casm.External"), L1Handler: s.casmEPs("Casm.L1Handler"), Constructor: s.casmEPs("Casm.Constructor"),
			BytecodeSegmentLengths: s.segments(0),
		}
		if s.coin("Casm.Prime", false) {
			switch r.IntN(4) {
			case 0:
				cc.Prime = new(big.Int)
			case 1:
				cc.Prime = big.NewInt(int64(r.IntN(1000)))
			case 2:
				cc.Prime, _ = new(big.Int).SetString("800000000000011000000000000000000000000000000000000000000000001", 16)
			default:
				cc.Prime = new(big.Int).Lsh(big.NewInt(1), uint(64*(1+r.IntN(8))))
			}
		}
		c.Compiled = cc
	}
	return c
}

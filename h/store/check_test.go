package vstore

import (
	"errors"
	"fmt"
	"math"

	"github.com/NethermindEth/juno/blockchain"
	"github.com/NethermindEth/juno/core"
	"github.com/NethermindEth/juno/core/felt"
	"github.com/NethermindEth/juno/db"
	"github.com/NethermindEth/juno/l1/eth"
	"github.com/NethermindEth/juno/verifh/lib"
)

// expBlock is what was handed to the node for one block (pristine deep copies).
type expBlock struct {
	Header      *core.Header
	Txs         []core.Transaction
	Receipts    []*core.TransactionReceipt
	SU          *core.StateUpdate
	Commitments *core.BlockCommitments
	Desc        string
}

// env is one (case, database) observation context.
type env struct {
	r     *lib.Run
	idx   int
	layer string // "chain" | "shape"
	dbn   string // "memory" | "pebblev2"
	cfg   string // state backend etc.
	st    db.KeyValueStore
	bc    *blockchain.Blockchain
	desc  string
	evals int
	fails int
	// poison: st is a poisonStore - every mismatch is attributable to memory of a read
	// callback / UncopiedValue being retained (the same records pass on the plain store)
	poison bool
	// others: numbers of the other stored blocks, read between creating and draining a lazy result
	others []uint64
}

// interleave performs unrelated reads of other blocks (recycling the read buffers of a
// real store) between the creation of a lazily decoded result and its consumption.
func (e *env) interleave() {
	n := 0
	for _, o := range e.others {
		core.GetTransactionsAndReceiptsByBlockNumber(e.st, o)
		core.GetBlockHeaderByNumber(e.st, o)
		core.GetStateUpdateByBlockNum(e.st, o)
		core.BlockTransactionsBucket.Get(e.st, o)
		if n++; n >= 3 {
			break
		}
	}
	core.GetChainHeight(e.st)
	e.r.Count("lazy/interleaved_read_rounds", 1)
}

type witness struct {
	Layer    string
	DB       string
	Config   string
	Block    string
	Accessor string
	Path     string
	Kind     string
	Stored   string
	ReadBack string
	Note     string
}

func (e *env) report(class, accessor string, d *delta, note string) {
	e.fails++
	e.r.Count("violations_by_store/"+e.layer+"/"+e.dbn, 1)
	w := witness{Layer: e.layer, DB: e.dbn, Config: e.cfg, Block: e.desc, Accessor: accessor, Note: note}
	brief := fmt.Sprintf("[%s/%s %s] %s: %s", e.layer, e.dbn, e.cfg, accessor, note)
	if d != nil {
		w.Path, w.Kind, w.Stored, w.ReadBack = d.Path, d.Kind, d.Exp, d.Got
		brief = fmt.Sprintf("[%s/%s %s] %s: %s %s", e.layer, e.dbn, e.cfg, accessor, d.String(), note)
	}
	e.r.Violation(class, e.idx, brief+" | block: "+e.desc, w)
}

// same: oracle (1) - the value an accessor returned equals what was stored.
func (e *env) same(accessor, root string, exp, got any, err error) bool {
	if e.poison {
		return e.sameAs("retained-callback-buffer", accessor, root, exp, got, err)
	}
	return e.sameAs("read-back", accessor, root, exp, got, err)
}

// deferred: a lazily decoded result consumed after the read that produced it has returned and
// other reads have happened still equals what was stored. A mismatch here (with the
// immediate consumption being fine) means the result aliases memory owned by the store.
func (e *env) deferred(accessor, root string, exp, got any, err error) bool {
	e.r.Count("lazy/deferred_drains", 1)
	return e.sameAs("retained-callback-buffer", accessor+"[drained after other reads]", root, exp, got, err)
}

func (e *env) sameAs(prefix, accessor, root string, exp, got any, err error) bool {
	e.evals++
	if err != nil {
		if prefix == "retained-callback-buffer" {
			// one class per accessor: what the garbage decodes to (error or wrong value, which field) is incidental
			e.report(prefix+":"+accessor, accessor, nil, "unexpected error: "+err.Error())
		} else {
			e.report(prefix+":"+accessor+":error", accessor, nil, "unexpected error: "+err.Error())
		}
		return false
	}
	if d := diff(root, exp, got); d != nil {
		if prefix == "retained-callback-buffer" {
			e.report(prefix+":"+accessor, accessor, d, "")
		} else {
			e.report(prefix+":"+accessor+":"+d.ClassPath+":"+d.Kind, accessor, d, "")
		}
		return false
	}
	return true
}

// proj: oracle (2) - a partial decoder agrees with the projection of the full decoder.
func (e *env) proj(accessor, root string, fromFull, got any) {
	e.evals++
	if d := diff(root, fromFull, got); d != nil {
		e.report("partial-vs-full:"+accessor+":"+d.ClassPath+":"+d.Kind, accessor, d, "(stored = projection of the full decoder's result)")
	}
}

// absent: a probe outside what is stored must answer not-found (and must not panic).
func (e *env) absent(accessor string, err error) {
	e.evals++
	if err == nil {
		e.report("out-of-range:"+accessor+":no-error", accessor, nil, "probe outside the stored range returned a value instead of not-found")
	} else if !errors.Is(err, db.ErrKeyNotFound) {
		e.report("out-of-range:"+accessor+":wrong-error", accessor, nil, "probe outside the stored range returned "+err.Error()+" instead of key-not-found")
	}
}

// probe runs one out-of-range call; a panic inside Juno is reported under the accessor.
func (e *env) probe(accessor string, call func() error) {
	var err error
	if p := safely(func() { err = call() }); p != nil {
		e.evals++
		e.report("out-of-range:"+accessor+":panic", accessor, nil, "probe outside the stored range panicked: "+p.Error())
		return
	}
	e.absent(accessor, err)
}

func nonNil[T any](s []T) []T {
	if s == nil {
		return []T{}
	}
	return s
}

func statusOf(rc *core.TransactionReceipt) core.TransactionExecutionStatus {
	return core.TransactionExecutionStatus{Reverted: rc.Reverted, RevertReason: rc.RevertReason}
}

func eventsOf(rcs []*core.TransactionReceipt) []core.TransactionEvents {
	out := make([]core.TransactionEvents, len(rcs))
	for i, rc := range rcs {
		out[i] = core.TransactionEvents{Events: rc.Events, TransactionHash: rc.TransactionHash}
	}
	return out
}

func hashesOf(txs []core.Transaction) []felt.Felt {
	out := make([]felt.Felt, len(txs))
	for i, tx := range txs {
		out[i] = *tx.Hash()
	}
	return out
}

var farIndexes = []uint64{1 << 31, 1<<32 + 1, 1 << 62, 1 << 63, 1<<63 + 5, math.MaxUint64 - 1, math.MaxUint64}

// checkBlock runs every accessor of one stored block.
//
// The lists of transactions / receipts are compared element by element with a
// non-nil list: the list itself is not a stored value (the blob holds the elements
// and an offset index), so "nil list" vs "empty list" has no stored representation
// and LazySlice.All always answers a non-nil slice. Everything inside the elements is
// compared strictly.
func (e *env) checkBlock(x *expBlock, isHead bool) {
	st, bc := e.st, e.bc
	n := x.Header.Number
	e.desc = x.Desc
	xTxs, xRcs := nonNil(x.Txs), nonNil(x.Receipts)
	pairs := min(len(xTxs), len(xRcs))

	// ---- header: full decoder, by number and by hash
	fh, err := core.GetBlockHeaderByNumber(st, n)
	okH := e.same("core.GetBlockHeaderByNumber", "Header", x.Header, fh, err)
	h2, err := core.GetBlockHeaderByHash(st, x.Header.Hash)
	e.same("core.GetBlockHeaderByHash", "Header", x.Header, h2, err)
	num, err := core.GetBlockHeaderNumberByHash(st, x.Header.Hash)
	e.same("core.GetBlockHeaderNumberByHash", "Number", n, num, err)
	// header projections
	ph, err := core.GetBlockHeaderHashByNumber(st, n)
	e.same("core.GetBlockHeaderHashByNumber", "Header.Hash", x.Header.Hash, ph, err)
	pr, err := core.GetGlobalStateRootByBlockNumber(st, n)
	e.same("core.GetGlobalStateRootByBlockNumber", "Header.GlobalStateRoot", x.Header.GlobalStateRoot, pr, err)
	pc, err := core.GetBlockTransactionCountByNumber(st, n)
	e.same("core.GetBlockTransactionCountByNumber", "Header.TransactionCount", x.Header.TransactionCount, pc, err)
	pt, err := core.GetBlockHeaderTimestampByNumber(st, n)
	e.same("core.GetBlockHeaderTimestampByNumber", "Header.Timestamp", x.Header.Timestamp, pt, err)
	pb, err := core.GetBlockHeaderEventsBloomByNumber(st, n)
	e.same("core.GetBlockHeaderEventsBloomByNumber", "Header.EventsBloom", x.Header.EventsBloom, pb, err)
	ph2, pr2, err := core.GetBlockHeaderHashAndStateRootByNumber(st, n)
	e.same("core.GetBlockHeaderHashAndStateRootByNumber", "Header.Hash", x.Header.Hash, ph2, err)
	e.same("core.GetBlockHeaderHashAndStateRootByNumber", "Header.GlobalStateRoot", x.Header.GlobalStateRoot, pr2, err)
	if okH && fh != nil {
		e.proj("core.GetBlockHeaderHashByNumber", "Header.Hash", fh.Hash, ph)
		e.proj("core.GetGlobalStateRootByBlockNumber", "Header.GlobalStateRoot", fh.GlobalStateRoot, pr)
		e.proj("core.GetBlockTransactionCountByNumber", "Header.TransactionCount", fh.TransactionCount, pc)
		e.proj("core.GetBlockHeaderTimestampByNumber", "Header.Timestamp", fh.Timestamp, pt)
		e.proj("core.GetBlockHeaderEventsBloomByNumber", "Header.EventsBloom", fh.EventsBloom, pb)
		e.proj("core.GetBlockHeaderHashAndStateRootByNumber", "Header.Hash", fh.Hash, ph2)
		e.proj("core.GetBlockHeaderHashAndStateRootByNumber", "Header.GlobalStateRoot", fh.GlobalStateRoot, pr2)
	}

	// ---- transactions + receipts: the full decoder of the blob
	var fTxs []core.Transaction
	var fRcs []*core.TransactionReceipt
	bt, err := core.BlockTransactionsBucket.Get(st, n)
	fullOK := false
	if err != nil {
		e.same("core.BlockTransactionsBucket.Get", "BlockTransactions", nil, nil, err)
	} else {
		var e1, e2 error
		fTxs, e1 = bt.Transactions().All()
		fRcs, e2 = bt.Receipts().All()
		a := e.same("BlockTransactions.Transactions().All", "Transactions", xTxs, fTxs, e1)
		b := e.same("BlockTransactions.Receipts().All", "Receipts", xRcs, fRcs, e2)
		fullOK = a && b
		// re-encoding the fully decoded record gives the stored bytes back (codec is canonical)
		raw1, e3 := core.BlockTransactionsBucket.RawValue().Get(st, n)
		raw2, e4 := core.BlockTransactionsSerializer{}.Marshal(&bt)
		if e3 == nil && e4 == nil {
			e.same("BlockTransactionsSerializer.Marshal(Unmarshal(stored bytes))", "bytes", raw1, raw2, nil)
		} else {
			e.same("BlockTransactionsSerializer.Marshal(Unmarshal(stored bytes))", "bytes", nil, nil, errors.Join(e3, e4))
		}
	}

	// ---- lazily decoded results consumed late: created, then other blocks are read, then drained
	if bt2, err := core.BlockTransactionsBucket.Get(st, n); err == nil {
		lt, lr := bt2.Transactions(), bt2.Receipts()
		seq := lt.Iter()
		e.interleave()
		dTxs, e1 := lt.All()
		e.deferred("BlockTransactionsBucket.Get().Transactions().All", "Transactions", xTxs, dTxs, e1)
		dRcs, e2 := lr.All()
		e.deferred("BlockTransactionsBucket.Get().Receipts().All", "Receipts", xRcs, dRcs, e2)
		var seqTxs []core.Transaction
		var seqErr error
		for tx, err := range seq {
			if err != nil {
				seqErr = err
				break
			}
			seqTxs = append(seqTxs, tx)
		}
		e.deferred("BlockTransactionsBucket.Get().Transactions().Iter", "Transactions", xTxs, nonNil(seqTxs), seqErr)
		if len(xTxs) > 0 {
			last := len(xTxs) - 1
			tx, err := lt.Get(last)
			e.deferred("BlockTransactionsBucket.Get().Transactions().Get", "Transaction", xTxs[last], tx, err)
		}
		if len(xRcs) > 0 {
			rc, err := lr.Get(0)
			e.deferred("BlockTransactionsBucket.Get().Receipts().Get", "Receipt", xRcs[0], rc, err)
		}
	}
	{
		seq := core.GetTransactionsByBlockNumberIter(st, n)
		e.interleave()
		var seqTxs []core.Transaction
		var seqErr error
		for tx, err := range seq {
			if err != nil {
				seqErr = err
				break
			}
			seqTxs = append(seqTxs, tx)
		}
		e.deferred("core.GetTransactionsByBlockNumberIter", "Transactions", xTxs, nonNil(seqTxs), seqErr)
	}

	// all-at-once accessors
	txs, err := core.GetTransactionsByBlockNumber(st, n)
	e.same("core.GetTransactionsByBlockNumber", "Transactions", xTxs, txs, err)
	rcs, err := core.GetReceiptsByBlockNumber(st, n)
	e.same("core.GetReceiptsByBlockNumber", "Receipts", xRcs, rcs, err)
	txs2, rcs2, err := core.GetTransactionsAndReceiptsByBlockNumber(st, n)
	e.same("core.GetTransactionsAndReceiptsByBlockNumber", "Transactions", xTxs, txs2, err)
	e.same("core.GetTransactionsAndReceiptsByBlockNumber", "Receipts", xRcs, rcs2, err)
	blk, err := core.GetBlockByNumber(st, n)
	if err != nil || blk == nil {
		e.same("core.GetBlockByNumber", "Block", nil, nil, errors.Join(err, errors.New("no block")))
	} else {
		e.same("core.GetBlockByNumber", "Block.Header", x.Header, blk.Header, nil)
		e.same("core.GetBlockByNumber", "Block.Transactions", xTxs, blk.Transactions, nil)
		e.same("core.GetBlockByNumber", "Block.Receipts", xRcs, blk.Receipts, nil)
	}
	var itTxs []core.Transaction
	var itErr error
	for tx, err := range core.GetTransactionsByBlockNumberIter(st, n) {
		if err != nil {
			itErr = err
			break
		}
		itTxs = append(itTxs, tx)
	}
	e.same("core.GetTransactionsByBlockNumberIter", "Transactions", xTxs, nonNil(itTxs), itErr)
	evs, err := core.GetTransactionEventsByBlockNumber(st, n)
	e.same("core.GetTransactionEventsByBlockNumber", "TransactionEvents", eventsOf(xRcs), evs, err)
	hs, err := core.GetTransactionHashesByBlockNumber(st, n)
	e.same("core.GetTransactionHashesByBlockNumber", "TransactionHashes", hashesOf(xTxs), hs, err)
	if fullOK {
		e.proj("core.GetTransactionsByBlockNumber", "Transactions", fTxs, txs)
		e.proj("core.GetReceiptsByBlockNumber", "Receipts", fRcs, rcs)
		e.proj("core.GetTransactionEventsByBlockNumber", "TransactionEvents", eventsOf(fRcs), evs)
		e.proj("core.GetTransactionHashesByBlockNumber", "TransactionHashes", hashesOf(fTxs), hs)
	}

	// per-index accessors
	for i := range xTxs {
		ui := uint64(i)
		tx, err := core.GetTransactionByBlockAndIndex(st, n, ui)
		e.same("core.GetTransactionByBlockAndIndex", "Transaction", xTxs[i], tx, err)
		txh := (*felt.TransactionHash)(xTxs[i].Hash())
		tx, err = core.GetTransactionByHash(st, txh)
		e.same("core.GetTransactionByHash", "Transaction", xTxs[i], tx, err)
		bi, err := core.TransactionBlockNumbersAndIndicesByHashBucket.Get(st, txh)
		e.same("core.TransactionBlockNumbersAndIndicesByHashBucket.Get", "BlockNumIndexKey", db.BlockNumIndexKey{Number: n, Index: ui}, bi, err)
		if fullOK {
			e.proj("core.GetTransactionByBlockAndIndex", "Transaction", fTxs[i], tx)
		}
		// blockchain.Reader
		tx, err = bc.TransactionByBlockNumberAndIndex(n, ui)
		e.same("Reader.TransactionByBlockNumberAndIndex", "Transaction", xTxs[i], tx, err)
		tx, err = bc.TransactionByHash(xTxs[i].Hash())
		e.same("Reader.TransactionByHash", "Transaction", xTxs[i], tx, err)
		bn, ix, err := bc.BlockNumberAndIndexByTxHash(txh)
		e.same("Reader.BlockNumberAndIndexByTxHash", "BlockNumIndexKey", [2]uint64{n, ui}, [2]uint64{bn, ix}, err)
		if l1, ok := xTxs[i].(*core.L1HandlerTransaction); ok {
			mh := l1.MessageHash()
			th, err := core.GetL1HandlerTxnHashByMsgHash(st, mh)
			e.same("core.GetL1HandlerTxnHashByMsgHash", "TransactionHash", *l1.TransactionHash, th, err)
			eh := eth.HashFromBytes(mh)
			th, err = bc.L1HandlerTxnHash(&eh)
			e.same("Reader.L1HandlerTxnHash", "TransactionHash", *l1.TransactionHash, th, err)
		}
	}
	for i := range xRcs {
		ui := uint64(i)
		rc, err := core.GetReceiptByBlockAndIndex(st, n, ui)
		e.same("core.GetReceiptByBlockAndIndex", "Receipt", xRcs[i], rc, err)
		es, err := core.GetTransactionExecutionStatusByBlockAndIndex(st, n, ui)
		e.same("core.GetTransactionExecutionStatusByBlockAndIndex", "ExecutionStatus", statusOf(xRcs[i]), es, err)
		if fullOK {
			e.proj("core.GetReceiptByBlockAndIndex", "Receipt", fRcs[i], rc)
			e.proj("core.GetTransactionExecutionStatusByBlockAndIndex", "ExecutionStatus", statusOf(fRcs[i]), es)
		}
		es, err = bc.TransactionExecutionStatusByBlockNumberAndIndex(n, ui)
		e.same("Reader.TransactionExecutionStatusByBlockNumberAndIndex", "ExecutionStatus", statusOf(xRcs[i]), es, err)
	}
	for i := 0; i < pairs; i++ {
		ui := uint64(i)
		tx, rc, err := core.GetTransactionAndReceiptByBlockAndIndex(st, n, ui)
		e.same("core.GetTransactionAndReceiptByBlockAndIndex", "Transaction", xTxs[i], tx, err)
		e.same("core.GetTransactionAndReceiptByBlockAndIndex", "Receipt", xRcs[i], rc, err)
		tx, rcv, bh, err := bc.TransactionAndReceiptByBlockNumberAndIndex(n, ui)
		e.same("Reader.TransactionAndReceiptByBlockNumberAndIndex", "Transaction", xTxs[i], tx, err)
		e.same("Reader.TransactionAndReceiptByBlockNumberAndIndex", "Receipt", xRcs[i], &rcv, err)
		e.same("Reader.TransactionAndReceiptByBlockNumberAndIndex", "Header.Hash", x.Header.Hash, bh, err)
		rc, bh, bn, err := bc.Receipt(xTxs[i].Hash())
		e.same("Reader.Receipt", "Receipt", xRcs[i], rc, err)
		e.same("Reader.Receipt", "Header.Hash", x.Header.Hash, bh, err)
		e.same("Reader.Receipt", "Number", n, bn, err)
	}

	// ---- state update, commitments
	su, err := core.GetStateUpdateByBlockNum(st, n)
	e.same("core.GetStateUpdateByBlockNum", "StateUpdate", x.SU, su, err)
	su, err = core.GetStateUpdateByHash(st, x.Header.Hash)
	e.same("core.GetStateUpdateByHash", "StateUpdate", x.SU, su, err)
	cm, err := core.GetBlockCommitmentByBlockNum(st, n)
	e.same("core.GetBlockCommitmentByBlockNum", "BlockCommitments", x.Commitments, cm, err)

	// ---- the typed-bucket view of the same records (core/typed_buckets.go declares one codec per
	// record family; it must read what the write accessors store)
	tbh, err := core.BlockHeadersByNumberBucket.Get(st, n)
	e.same("core.BlockHeadersByNumberBucket.Get", "Header", *x.Header, tbh, err)
	tbn, err := core.BlockHeaderNumbersByHashBucket.Get(st, x.Header.Hash)
	e.same("core.BlockHeaderNumbersByHashBucket.Get", "Number", n, tbn, err)
	if x.SU != nil {
		tsu, err := core.StateUpdatesByBlockNumberBucket.Get(st, n)
		e.same("core.StateUpdatesByBlockNumberBucket.Get", "StateUpdate", *x.SU, tsu, err)
	}
	if x.Commitments != nil {
		tcm, err := core.BlockCommitmentsBucket.Get(st, n)
		e.same("core.BlockCommitmentsBucket.Get", "BlockCommitments", *x.Commitments, tcm, err)
	}
	for _, tx := range xTxs {
		if l1, ok := tx.(*core.L1HandlerTransaction); ok {
			th, err := core.L1HandlerTxnHashByMsgHashBucket.Get(st, l1.MessageHash())
			e.same("core.L1HandlerTxnHashByMsgHashBucket.Get", "TransactionHash", felt.Hash(*l1.TransactionHash), th, err)
		}
	}
	if isHead {
		tht, err := core.ChainHeightBucket.Get(st, struct{}{})
		e.same("core.ChainHeightBucket.Get", "Number", n, tht, err)
	}

	// ---- blockchain.Reader, block-level
	rb, err := bc.BlockByNumber(n)
	if err != nil || rb == nil {
		e.same("Reader.BlockByNumber", "Block", nil, nil, errors.Join(err, errors.New("no block")))
	} else {
		e.same("Reader.BlockByNumber", "Block.Header", x.Header, rb.Header, nil)
		e.same("Reader.BlockByNumber", "Block.Transactions", xTxs, rb.Transactions, nil)
		e.same("Reader.BlockByNumber", "Block.Receipts", xRcs, rb.Receipts, nil)
	}
	rb, err = bc.BlockByHash(x.Header.Hash)
	if err != nil || rb == nil {
		e.same("Reader.BlockByHash", "Block", nil, nil, errors.Join(err, errors.New("no block")))
	} else {
		e.same("Reader.BlockByHash", "Block.Header", x.Header, rb.Header, nil)
		e.same("Reader.BlockByHash", "Block.Transactions", xTxs, rb.Transactions, nil)
		e.same("Reader.BlockByHash", "Block.Receipts", xRcs, rb.Receipts, nil)
	}
	rh, err := bc.BlockHeaderByNumber(n)
	e.same("Reader.BlockHeaderByNumber", "Header", x.Header, rh, err)
	rh, err = bc.BlockHeaderByHash(x.Header.Hash)
	e.same("Reader.BlockHeaderByHash", "Header", x.Header, rh, err)
	rhh, err := bc.BlockHeaderHashByNumber(n)
	e.same("Reader.BlockHeaderHashByNumber", "Header.Hash", x.Header.Hash, rhh, err)
	rsr, err := bc.GlobalStateRootByBlockNumber(n)
	e.same("Reader.GlobalStateRootByBlockNumber", "Header.GlobalStateRoot", x.Header.GlobalStateRoot, rsr, err)
	rtc, err := bc.BlockTransactionCountByNumber(n)
	e.same("Reader.BlockTransactionCountByNumber", "Header.TransactionCount", x.Header.TransactionCount, rtc, err)
	rn, err := bc.BlockNumberByHash(x.Header.Hash)
	e.same("Reader.BlockNumberByHash", "Number", n, rn, err)
	rtxs, err := bc.TransactionsByBlockNumber(n)
	e.same("Reader.TransactionsByBlockNumber", "Transactions", xTxs, rtxs, err)
	rtxs, rrcs, err := bc.TransactionsAndReceiptsByBlockNumber(n)
	e.same("Reader.TransactionsAndReceiptsByBlockNumber", "Transactions", xTxs, rtxs, err)
	e.same("Reader.TransactionsAndReceiptsByBlockNumber", "Receipts", xRcs, rrcs, err)
	rhs, err := bc.TransactionHashesByBlockNumber(n)
	e.same("Reader.TransactionHashesByBlockNumber", "TransactionHashes", hashesOf(xTxs), rhs, err)
	rsu, err := bc.StateUpdateByNumber(n)
	e.same("Reader.StateUpdateByNumber", "StateUpdate", x.SU, rsu, err)
	rsu, err = bc.StateUpdateByHash(x.Header.Hash)
	e.same("Reader.StateUpdateByHash", "StateUpdate", x.SU, rsu, err)
	rcm, err := bc.BlockCommitmentsByNumber(n)
	e.same("Reader.BlockCommitmentsByNumber", "BlockCommitments", x.Commitments, rcm, err)
	if isHead {
		hb, err := bc.Head()
		if err != nil || hb == nil {
			e.same("Reader.Head", "Block", nil, nil, errors.Join(err, errors.New("no block")))
		} else {
			e.same("Reader.Head", "Block.Header", x.Header, hb.Header, nil)
			e.same("Reader.Head", "Block.Transactions", xTxs, hb.Transactions, nil)
			e.same("Reader.Head", "Block.Receipts", xRcs, hb.Receipts, nil)
		}
		hh, err := bc.HeadsHeader()
		e.same("Reader.HeadsHeader", "Header", x.Header, hh, err)
		ht, err := bc.Height()
		e.same("Reader.Height", "Number", n, ht, err)
	}

	// ---- probes just outside and far outside the stored index range
	probe := append([]uint64{uint64(len(xTxs)), uint64(len(xTxs)) + 1}, farIndexes...)
	for _, ix := range probe {
		e.probe("core.GetTransactionByBlockAndIndex", func() error { _, err := core.GetTransactionByBlockAndIndex(st, n, ix); return err })
		e.probe("Reader.TransactionByBlockNumberAndIndex", func() error { _, err := bc.TransactionByBlockNumberAndIndex(n, ix); return err })
	}
	probe = append([]uint64{uint64(len(xRcs)), uint64(len(xRcs)) + 1}, farIndexes...)
	for _, ix := range probe {
		e.probe("core.GetReceiptByBlockAndIndex", func() error { _, err := core.GetReceiptByBlockAndIndex(st, n, ix); return err })
		e.probe("core.GetTransactionExecutionStatusByBlockAndIndex", func() error { _, err := core.GetTransactionExecutionStatusByBlockAndIndex(st, n, ix); return err })
		e.probe("Reader.TransactionExecutionStatusByBlockNumberAndIndex", func() error { _, err := bc.TransactionExecutionStatusByBlockNumberAndIndex(n, ix); return err })
	}
	probe = append([]uint64{uint64(pairs), uint64(max(len(xTxs), len(xRcs)))}, farIndexes...)
	for _, ix := range probe {
		e.probe("core.GetTransactionAndReceiptByBlockAndIndex", func() error { _, _, err := core.GetTransactionAndReceiptByBlockAndIndex(st, n, ix); return err })
		e.probe("Reader.TransactionAndReceiptByBlockNumberAndIndex", func() error { _, _, _, err := bc.TransactionAndReceiptByBlockNumberAndIndex(n, ix); return err })
	}
}

// checkAbsentBlock probes a block number / hash the store does not hold.
func (e *env) checkAbsentBlock(n uint64, hash *felt.Felt) {
	st, bc := e.st, e.bc
	e.desc = fmt.Sprintf("absent block %d", n)
	e.probe("core.GetBlockHeaderByNumber", func() error { _, err := core.GetBlockHeaderByNumber(st, n); return err })
	e.probe("core.GetBlockHeaderHashByNumber", func() error { _, err := core.GetBlockHeaderHashByNumber(st, n); return err })
	e.probe("core.GetGlobalStateRootByBlockNumber", func() error { _, err := core.GetGlobalStateRootByBlockNumber(st, n); return err })
	e.probe("core.GetBlockTransactionCountByNumber", func() error { _, err := core.GetBlockTransactionCountByNumber(st, n); return err })
	e.probe("core.GetBlockHeaderTimestampByNumber", func() error { _, err := core.GetBlockHeaderTimestampByNumber(st, n); return err })
	e.probe("core.GetBlockHeaderEventsBloomByNumber", func() error { _, err := core.GetBlockHeaderEventsBloomByNumber(st, n); return err })
	e.probe("core.GetBlockHeaderHashAndStateRootByNumber", func() error { _, _, err := core.GetBlockHeaderHashAndStateRootByNumber(st, n); return err })
	e.probe("core.GetBlockByNumber", func() error { _, err := core.GetBlockByNumber(st, n); return err })
	e.probe("core.GetTransactionsByBlockNumber", func() error { _, err := core.GetTransactionsByBlockNumber(st, n); return err })
	e.probe("core.GetReceiptsByBlockNumber", func() error { _, err := core.GetReceiptsByBlockNumber(st, n); return err })
	e.probe("core.GetTransactionsAndReceiptsByBlockNumber", func() error { _, _, err := core.GetTransactionsAndReceiptsByBlockNumber(st, n); return err })
	e.probe("core.GetTransactionEventsByBlockNumber", func() error { _, err := core.GetTransactionEventsByBlockNumber(st, n); return err })
	e.probe("core.GetTransactionHashesByBlockNumber", func() error { _, err := core.GetTransactionHashesByBlockNumber(st, n); return err })
	for _, ix := range []uint64{0, 1, math.MaxUint64} {
		e.probe("core.GetTransactionByBlockAndIndex", func() error { _, err := core.GetTransactionByBlockAndIndex(st, n, ix); return err })
		e.probe("core.GetReceiptByBlockAndIndex", func() error { _, err := core.GetReceiptByBlockAndIndex(st, n, ix); return err })
		e.probe("core.GetTransactionAndReceiptByBlockAndIndex", func() error { _, _, err := core.GetTransactionAndReceiptByBlockAndIndex(st, n, ix); return err })
		e.probe("core.GetTransactionExecutionStatusByBlockAndIndex", func() error { _, err := core.GetTransactionExecutionStatusByBlockAndIndex(st, n, ix); return err })
		e.probe("Reader.TransactionAndReceiptByBlockNumberAndIndex", func() error { _, _, _, err := bc.TransactionAndReceiptByBlockNumberAndIndex(n, ix); return err })
	}
	var itErr error
	for _, err := range core.GetTransactionsByBlockNumberIter(st, n) {
		itErr = err
		break
	}
	e.absent("core.GetTransactionsByBlockNumberIter", itErr)
	e.probe("core.GetStateUpdateByBlockNum", func() error { _, err := core.GetStateUpdateByBlockNum(st, n); return err })
	e.probe("core.GetBlockCommitmentByBlockNum", func() error { _, err := core.GetBlockCommitmentByBlockNum(st, n); return err })
	e.probe("Reader.BlockByNumber", func() error { _, err := bc.BlockByNumber(n); return err })
	e.probe("Reader.StateUpdateByNumber", func() error { _, err := bc.StateUpdateByNumber(n); return err })
	// unknown hash
	e.probe("core.GetBlockHeaderByHash", func() error { _, err := core.GetBlockHeaderByHash(st, hash); return err })
	e.probe("core.GetStateUpdateByHash", func() error { _, err := core.GetStateUpdateByHash(st, hash); return err })
	e.probe("core.GetTransactionByHash", func() error { _, err := core.GetTransactionByHash(st, (*felt.TransactionHash)(hash)); return err })
	e.probe("Reader.BlockByHash", func() error { _, err := bc.BlockByHash(hash); return err })
	e.probe("Reader.TransactionByHash", func() error { _, err := bc.TransactionByHash(hash); return err })
	e.probe("Reader.Receipt", func() error { _, _, _, err := bc.Receipt(hash); return err })
	e.probe("Reader.BlockNumberAndIndexByTxHash", func() error { _, _, err := bc.BlockNumberAndIndexByTxHash((*felt.TransactionHash)(hash)); return err })
	eh := eth.HashFromBytes(hash.Marshal())
	e.probe("Reader.L1HandlerTxnHash", func() error { _, err := bc.L1HandlerTxnHash(&eh); return err })
}

package vstore

import (
	"bytes"
	"fmt"
	"os"
	"reflect"
	"slices"
	"sort"
	"strings"
	"sync"
	"testing"

	"github.com/NethermindEth/juno/blockchain"
	"github.com/NethermindEth/juno/blockchain/networks"
	"github.com/NethermindEth/juno/core"
	"github.com/NethermindEth/juno/core/felt"
	"github.com/NethermindEth/juno/db"
	"github.com/NethermindEth/juno/db/memory"
	"github.com/NethermindEth/juno/db/pebblev2"
	"github.com/NethermindEth/juno/encoder"
	_ "github.com/NethermindEth/juno/encoder/registry"
	"github.com/NethermindEth/juno/verifh/lib"
	"github.com/NethermindEth/juno/verifh/lib/chain"
)

var net = &networks.Sepolia

// safely runs fn; a panic is returned as an error (hash functions dereference
// pointers the codec is allowed to carry as nil).
func safely(fn func()) (err error) {
	defer func() {
		if p := recover(); p != nil {
			err = fmt.Errorf("panic: %v", p)
		}
	}()
	fn()
	return nil
}

// ------------------------------------------------------------------ layer A: valid chains through Store

func openPebble() (db.KeyValueStore, string, error) {
	dir, err := os.MkdirTemp("", "verif-c07-")
	if err != nil {
		return nil, "", err
	}
	st, err := pebblev2.New(dir)
	if err != nil {
		os.RemoveAll(dir)
		return nil, "", err
	}
	return st, dir, nil
}

func expOfBlk(b *chain.Blk) *expBlock {
	c := chain.CloneBlk(b)
	kinds := map[string]int{}
	for _, tx := range c.Block.Transactions {
		kinds[typeName(tx)+"v"+tx.TxVersion().String()]++
	}
	ks := []string{}
	for k, v := range kinds {
		ks = append(ks, fmt.Sprintf("%s:%d", k, v))
	}
	sort.Strings(ks)
	return &expBlock{Header: c.Block.Header, Txs: c.Block.Transactions, Receipts: c.Block.Receipts, SU: c.SU, Commitments: c.Commitments,
		Desc: fmt.Sprintf("n=%d ver=%s txs=%d [%s] sdlen=%d", c.Block.Number, c.Block.ProtocolVersion, len(c.Block.Transactions), strings.Join(ks, ","), c.SU.StateDiff.Length())}
}

// hashIdentity: oracle (4) on a valid block - the block read back from the node still
// verifies: transaction hashes recompute, the block hash recomputes to the stored
// hash and the recomputed commitments are the stored commitments.
func (e *env) hashIdentity(x *expBlock) {
	n := x.Header.Number
	blk, err := e.bc.BlockByNumber(n)
	if err != nil {
		return // already reported by checkBlock
	}
	su, err := e.bc.StateUpdateByNumber(n)
	if err != nil || su.StateDiff == nil {
		return
	}
	cm, err := e.bc.BlockCommitmentsByNumber(n)
	if err != nil {
		return
	}
	e.desc = x.Desc
	e.evals++
	if err := core.VerifyTransactions(blk.Transactions, net, blk.ProtocolVersion); err != nil {
		e.report("hash-identity:transaction-hash", "core.VerifyTransactions(read-back block)", nil, err.Error())
	}
	e.evals++
	got, err := core.VerifyBlockHash(blk, net, su.StateDiff, core.DeprecatedTrieBackend)
	if err != nil {
		e.report("hash-identity:block-hash", "core.VerifyBlockHash(read-back block, read-back state diff)", nil, err.Error())
		return
	}
	if d := diff("BlockCommitments", cm, got); d != nil {
		e.report("hash-identity:commitments:"+d.ClassPath, "core.VerifyBlockHash(read-back block) vs Reader.BlockCommitmentsByNumber", d, "")
	}
}

func (e *env) checkClasses(c *chain.Chain) {
	head := c.Len() - 1
	views := []struct {
		name string
		at   int
		open func() (core.StateReader, func() error, error)
	}{
		{"HeadState", head, func() (core.StateReader, func() error, error) { return e.bc.HeadState() }},
	}
	for i := 0; i <= head; i++ {
		i := i
		views = append(views, struct {
			name string
			at   int
			open func() (core.StateReader, func() error, error)
		}{"StateAtBlockNumber", i, func() (core.StateReader, func() error, error) { return e.bc.StateAtBlockNumber(uint64(i)) }})
		views = append(views, struct {
			name string
			at   int
			open func() (core.StateReader, func() error, error)
		}{"StateAtBlockHash", i, func() (core.StateReader, func() error, error) {
			return e.bc.StateAtBlockHash(c.Blocks[i].Block.Hash)
		}})
	}
	for _, v := range views {
		st := c.States[v.at]
		if len(st.Classes) == 0 {
			continue
		}
		sr, closer, err := v.open()
		if err != nil {
			e.desc = fmt.Sprintf("state view %s at block %d", v.name, v.at)
			e.same("Reader."+v.name, "State", nil, nil, err)
			continue
		}
		for h, ci := range st.Classes {
			h := h
			e.desc = fmt.Sprintf("%s(%d).Class(%s) declared at %d sierra=%v", v.name, v.at, h.String(), ci.DeclaredAt, ci.Sierra)
			got, err := sr.Class(&h)
			e.same(v.name+".Class", "DeclaredClassDefinition", &core.DeclaredClassDefinition{At: ci.DeclaredAt, Class: ci.Def}, got, err)
			e.r.Count("chain/class_reads", 1)
			if err == nil && got != nil && ci.Sierra {
				e.evals++
				if err := core.VerifyClassHashes(map[felt.Felt]core.ClassDefinition{h: got.Class}); err != nil {
					e.report("hash-identity:class-hash", v.name+".Class", nil, err.Error())
				}
			}
		}
		closer()
	}
}

func runChainCase(r *lib.Run, idx int) {
	rng := lib.Rng("C07/chain", uint64(idx))
	newState := idx%2 == 1
	opts := chain.Opts{EmptyProb: 0.15, EventRich: rng.IntN(2) == 0, NoNoopZero: lib.Avoid("noop-zero-write"), MaxTxs: 2 + rng.IntN(8)}
	g := chain.NewGen(rng, opts)
	b := chain.NewBuilder(newState)
	c := &chain.Chain{}
	k := 5 + rng.IntN(4)
	if err := g.Extend(c, b, k); err != nil {
		r.Inconclusive("generator: " + err.Error())
		return
	}
	exp := make([]*expBlock, k)
	for i, blk := range c.Blocks {
		exp[i] = expOfBlk(blk)
	}
	cfg := fmt.Sprintf("newState=%v", newState)

	run := func(dbn string, st db.KeyValueStore, reopen func() (db.KeyValueStore, error)) {
		node := chain.NewNode(st, newState)
		for i, blk := range c.Blocks {
			if err := node.StoreBlk(blk); err != nil {
				r.Violation("store-refused-valid-block", idx, fmt.Sprintf("[%s %s] Store of generated block %d failed: %v", dbn, cfg, i, err), exp[i].Desc)
				return
			}
		}
		if reopen != nil {
			// drop every in-memory object: what is read below comes from disk
			st2, err := reopen()
			if err != nil {
				r.Inconclusive("reopen: " + err.Error())
				return
			}
			st = st2
			node = chain.NewNode(st, newState)
		} else if idx%4 < 2 {
			node.Restart(false)
		}
		othersOf := func(i int) []uint64 {
			var o []uint64
			for j := k - 1; j >= 0; j-- { // biggest blocks are usually the later ones
				if j != i {
					o = append(o, uint64(j))
				}
			}
			return o
		}
		e := &env{r: r, idx: idx, layer: "chain", dbn: dbn, cfg: cfg, st: st, bc: node.BC}
		for i := range exp {
			e.others = othersOf(i)
			e.checkBlock(exp[i], i == k-1)
			e.hashIdentity(exp[i])
		}
		e.checkAbsentBlock(uint64(k), chain.F(0xdead0000+uint64(idx)))
		e.checkAbsentBlock(uint64(k)+1000, c.Blocks[0].Block.ParentHash)
		e.checkClasses(c)
		r.Eval(e.evals)
		r.Count("chain/comparisons/"+dbn, e.evals)
		// the same matrix through the poisoning reader (a fresh node over the wrapped store)
		ps := newPoisonStore(st)
		pe := &env{r: r, idx: idx, layer: "chain", dbn: dbn + "+poison", cfg: cfg, st: ps, bc: chain.NewNode(ps, newState).BC, poison: true}
		for i := range exp {
			pe.others = othersOf(i)
			pe.checkBlock(exp[i], i == k-1)
		}
		pe.checkClasses(c)
		r.Eval(pe.evals)
		r.Count("chain/comparisons/"+dbn+"+poison", pe.evals)
		r.Count("poison/get_callbacks_poisoned", int(ps.gets.Load()))
		r.Count("poison/bytes_poisoned", int(ps.poisoned.Load()))
		if reopen != nil {
			st.Close()
		}
	}
	run("memory", memory.New(), nil)
	// The block-producer path: the node does not Store blocks it was given, it FINALISES them itself
	// with a block signer (sequencer mode): Finalise computes roots, commitments and hash, has the
	// block signed and stores it. What the accessors return must be the block as finalised -
	// signature included.
	if idx%2 == 0 {
		signer := func(blockHash, commitment *felt.Felt) ([]*felt.Felt, error) {
			return []*felt.Felt{new(felt.Felt).Add(blockHash, chain.F(1)), new(felt.Felt).Add(commitment, chain.F(2))}, nil
		}
		st := memory.New()
		node := chain.NewNode(st, newState)
		sexp := make([]*expBlock, 0, k)
		okSeq := true
		for i, blk := range c.Blocks {
			cp := chain.CloneBlk(blk)
			cp.Block.Signatures = nil
			if err := node.BC.Finalise(cp.Block, cp.SU, cp.Classes, signer); err != nil {
				r.Violation("finalise-refused-valid-block", idx, fmt.Sprintf("[memory %s] Finalise (with signer) of generated block %d failed: %v", cfg, i, err), exp[i].Desc)
				okSeq = false
				break
			}
			if !cp.Block.Hash.Equal(blk.Block.Hash) {
				r.Violation("finalise-computes-another-hash", idx, fmt.Sprintf("[memory %s] block %d finalised by a second node has hash %s, the builder computed %s", cfg, i, cp.Block.Hash, blk.Block.Hash), exp[i].Desc)
				okSeq = false
				break
			}
			if len(cp.Block.Signatures) != 1 {
				r.Violation("finalise-did-not-sign", idx, fmt.Sprintf("[memory %s] block %d: %d signatures after Finalise with a signer", cfg, i, len(cp.Block.Signatures)), exp[i].Desc)
				okSeq = false
				break
			}
			sexp = append(sexp, expOfBlk(cp))
		}
		if okSeq {
			if idx%4 == 0 {
				node.Restart(false)
			}
			e := &env{r: r, idx: idx, layer: "chain", dbn: "memory+finalised-with-signer", cfg: cfg, st: st, bc: node.BC}
			for i := range sexp {
				e.others = nil
				e.checkBlock(sexp[i], i == k-1)
			}
			r.Eval(e.evals)
			r.Count("chain/comparisons/finalised-with-signer", e.evals)
			r.Count("chain/blocks_finalised_with_a_signer", len(sexp))
		}
	}
	pst, dir, err := openPebble()
	if err != nil {
		r.Inconclusive("pebble open: " + err.Error())
	} else {
		defer os.RemoveAll(dir)
		run("pebblev2", pst, func() (db.KeyValueStore, error) {
			if err := pst.Close(); err != nil {
				return nil, err
			}
			return pebblev2.New(dir)
		})
	}
	for _, x := range exp {
		r.Case("chain|" + cfg + "|" + x.Desc)
		r.Count("chain/blocks", 1)
		r.Count("chain/transactions", len(x.Txs))
		if len(x.Txs) == 0 {
			r.Count("chain/empty_blocks", 1)
		}
		for _, tx := range x.Txs {
			r.Count("chain/tx/"+typeName(tx)+"-v"+tx.TxVersion().String(), 1)
		}
		r.Count("chain/format/"+x.Header.ProtocolVersion, 1)
	}
	if idx < 2 {
		ds := []string{}
		for _, x := range exp {
			ds = append(ds, x.Desc)
		}
		r.Sample(map[string]any{"layer": "chain", "case": idx, "config": cfg, "blocks": ds})
	}
}

// ------------------------------------------------------------------ layer B: shape fuzz through core.Write*

var blockNumberEdges = []uint64{0, 1, 23, 24, 25, 255, 256, 257, 65535, 65536, 1<<32 - 1, 1 << 32, 1<<63 - 1, 1 << 63, ^uint64(0) - 1}

type shapedClass struct {
	Hash felt.Felt
	Def  core.DeclaredClassDefinition
	Meta *core.ClassCasmHashMetadata
}

type shapeCase struct {
	Blocks  []*shapedBlock // ascending block number
	Classes []*shapedClass
	L1Head  *core.L1Head
}

func genShapeCase(s *shaper, twins int) *shapeCase {
	r := s.rng
	sc := &shapeCase{}
	defer func() {
		// twins sit at consecutive numbers above everything else (kept in ascending order)
		base := uint64(1<<63) + 1000
		var rest, top []*shapedBlock
		for _, b := range sc.Blocks {
			if b.Header.Number >= base {
				top = append(top, b)
			} else {
				rest = append(rest, b)
			}
		}
		for i := 0; i < twins; i++ {
			rest = append(rest, s.twinBlock(base-uint64(twins)+uint64(i)))
		}
		sc.Blocks = append(rest, top...)
	}()
	nums := map[uint64]bool{}
	want := 3 + r.IntN(3)
	for len(nums) < want {
		if r.IntN(3) == 0 {
			nums[r.Uint64()>>uint(r.IntN(64))] = true
		} else {
			nums[blockNumberEdges[r.IntN(len(blockNumberEdges))]] = true
		}
	}
	sorted := make([]uint64, 0, len(nums))
	for n := range nums {
		sorted = append(sorted, n)
	}
	sort.Slice(sorted, func(i, j int) bool { return sorted[i] < sorted[j] })
	for _, n := range sorted {
		sc.Blocks = append(sc.Blocks, s.block(n))
	}
	for i := r.IntN(4); i > 0; i-- {
		s.safe = r.IntN(2) == 0
		cl := &shapedClass{Hash: *s.uniq()}
		cl.Def.At = s.u64()
		if r.IntN(2) == 0 {
			cl.Def.Class = s.cairo0()
			s.cov["Class.kind=cairo0"]++
		} else {
			cl.Def.Class = s.sierra()
			s.cov["Class.kind=sierra"]++
			v2 := felt.CasmClassHash(s.felt())
			at := s.u64() >> 1
			switch r.IntN(3) {
			case 0:
				m := core.NewCasmHashMetadataDeclaredV2(at, &v2)
				cl.Meta = &m
			case 1:
				v1 := felt.CasmClassHash(s.felt())
				m := core.NewCasmHashMetadataDeclaredV1(at, &v1, &v2)
				cl.Meta = &m
			default:
				v1 := felt.CasmClassHash(s.felt())
				m := core.NewCasmHashMetadataDeclaredV1(at, &v1, &v2)
				if err := m.Migrate(at + 1 + s.u64()>>2); err != nil {
					panic(err)
				}
				cl.Meta = &m
			}
		}
		sc.Classes = append(sc.Classes, cl)
	}
	if r.IntN(2) == 0 {
		sc.L1Head = &core.L1Head{BlockNumber: s.u64(), BlockHash: s.optFelt("L1Head.BlockHash", false), StateRoot: s.optFelt("L1Head.StateRoot", false)}
	}
	return sc
}

// write stores the case the way the node commits: one atomic batch per block (then one
// for the height, classes and L1 head).
func (sc *shapeCase) write(st db.KeyValueStore) error {
	for _, b := range sc.Blocks {
		batch := st.NewBatch()
		if err := sc.writeBlock(batch, b); err != nil {
			return err
		}
		if err := batch.Write(); err != nil {
			return err
		}
	}
	batch := st.NewBatch()
	if err := sc.writeRest(batch); err != nil {
		return err
	}
	return batch.Write()
}

func (sc *shapeCase) writeBlock(w db.KeyValueWriter, b *shapedBlock) error {
	{
		if err := core.WriteBlockHeader(w, b.Header); err != nil {
			return fmt.Errorf("WriteBlockHeader: %w", err)
		}
		if err := core.WriteTransactionsAndReceipts(w, b.Header.Number, b.Txs, b.Receipts); err != nil {
			return fmt.Errorf("WriteTransactionsAndReceipts: %w", err)
		}
		if err := core.WriteStateUpdateByBlockNum(w, b.Header.Number, b.SU); err != nil {
			return fmt.Errorf("WriteStateUpdateByBlockNum: %w", err)
		}
		if err := core.WriteBlockCommitment(w, b.Header.Number, b.Commitments); err != nil {
			return fmt.Errorf("WriteBlockCommitment: %w", err)
		}
		if err := core.WriteL1HandlerMsgHashes(w, b.Txs); err != nil {
			return fmt.Errorf("WriteL1HandlerMsgHashes: %w", err)
		}
	}
	return nil
}

func (sc *shapeCase) writeRest(w db.KeyValueWriter) error {
	if err := core.WriteChainHeight(w, sc.Blocks[len(sc.Blocks)-1].Header.Number); err != nil {
		return err
	}
	for _, cl := range sc.Classes {
		if err := core.WriteClass(w, &cl.Hash, &cl.Def); err != nil {
			return fmt.Errorf("WriteClass: %w", err)
		}
		if cl.Meta != nil {
			if err := core.WriteClassCasmHashMetadata(w, (*felt.SierraClassHash)(&cl.Hash), cl.Meta); err != nil {
				return fmt.Errorf("WriteClassCasmHashMetadata: %w", err)
			}
		}
	}
	if sc.L1Head != nil {
		if err := core.WriteL1Head(w, sc.L1Head); err != nil {
			return fmt.Errorf("WriteL1Head: %w", err)
		}
	}
	return nil
}

// blockDigest evaluates every hash function of the protocol that takes the block's
// records as input; used to compare "as stored" with "as read back" (oracle 4).
type blockDigest struct {
	TxHashes    []string
	MsgHashes   []string
	BlockHash   string
	Commitments *core.BlockCommitments
	SDHash      string
	SDLength    uint64
}

func digestBlock(h *core.Header, txs []core.Transaction, rcs []*core.TransactionReceipt, su *core.StateUpdate, safe bool) blockDigest {
	var d blockDigest
	for _, tx := range txs {
		tx := tx
		var s string
		if err := safely(func() {
			hh, err := core.TransactionHash(tx, net)
			if err != nil {
				s = "error: " + err.Error()
			} else {
				s = hh.String()
			}
		}); err != nil {
			s = "panic"
		}
		d.TxHashes = append(d.TxHashes, s)
		if l1, ok := tx.(*core.L1HandlerTransaction); ok {
			d.MsgHashes = append(d.MsgHashes, fmt.Sprintf("%x", l1.MessageHash()))
		}
	}
	if su != nil && su.StateDiff != nil {
		hh := su.StateDiff.Hash()
		d.SDHash, d.SDLength = hh.String(), su.StateDiff.Length()
	}
	if safe {
		// safe blocks carry no nil in any pointer the block-hash formulas dereference
		// (the commitment workers run on bare goroutines: a nil dereference there would
		// kill the process, so this is only evaluated where it is known to be defined)
		bh, cm, err := core.BlockHash(&core.Block{Header: h, Transactions: txs, Receipts: rcs}, su.StateDiff, net, nil, core.DeprecatedTrieBackend)
		if err != nil {
			d.BlockHash = "error: " + err.Error()
		} else {
			d.BlockHash, d.Commitments = bh.String(), cm
		}
	}
	return d
}

func (e *env) checkShapeCase(sc, pristine *shapeCase, digests []blockDigest) {
	st := e.st
	for i, b := range pristine.Blocks {
		x := &expBlock{Header: b.Header, Txs: b.Txs, Receipts: b.Receipts, SU: b.SU, Commitments: b.Commitments, Desc: b.Desc}
		e.others = e.others[:0]
		for _, twinsFirst := range []bool{true, false} {
			for j, o := range pristine.Blocks {
				if j != i && o.Twin == twinsFirst {
					e.others = append(e.others, o.Header.Number)
				}
			}
		}
		e.checkBlock(x, i == len(pristine.Blocks)-1)
		// oracle (4): every protocol hash over the read-back records equals the hash over the stored records
		blk, err1 := core.GetBlockByNumber(st, b.Header.Number)
		su, err2 := core.GetStateUpdateByBlockNum(st, b.Header.Number)
		if err1 == nil && err2 == nil {
			e.desc = b.Desc
			e.evals++
			var got blockDigest
			if err := safely(func() { got = digestBlock(blk.Header, blk.Transactions, blk.Receipts, su, b.Safe) }); err != nil {
				e.report("hash-identity:panic-on-read-back", "protocol hash functions over the read-back block", nil, err.Error())
			} else if d := diff("Digest", digests[i], got); d != nil {
				e.report("hash-identity:"+d.ClassPath, "protocol hash functions over the read-back block", d, "")
			}
		}
	}
	// absent neighbours of every stored number, and an unknown hash
	have := map[uint64]bool{}
	for _, b := range pristine.Blocks {
		have[b.Header.Number] = true
	}
	probed := 0
	for _, b := range pristine.Blocks {
		for _, n := range []uint64{b.Header.Number + 1, b.Header.Number - 1} {
			if !have[n] && probed < 4 {
				probed++
				e.checkAbsentBlock(n, chain.F(0xdead0000+uint64(probed)))
			}
		}
	}
	// full scan of the block-transactions bucket: exactly the stored blocks, in key order of the codec
	e.desc = "scan of BlockTransactions bucket"
	seen := 0
	type scanned struct {
		key []byte
		val core.BlockTransactions
	}
	var kept []scanned
	for ent, err := range core.BlockTransactionsBucket.Prefix().Scan(st) {
		if err != nil {
			e.same("BlockTransactionsBucket.Prefix().Scan", "scan", nil, nil, err)
			break
		}
		seen++
		kept = append(kept, scanned{slices.Clone(ent.Key), ent.Value})
		var match *shapedBlock
		for _, b := range pristine.Blocks {
			if bytes.Equal(ent.Key, core.BlockTransactionsBucket.Key(mustCBOR(b.Header.Number))) {
				match = b
			}
		}
		if match == nil {
			e.evals++
			e.report("read-back:scan:unknown-key", "BlockTransactionsBucket.Prefix().Scan", nil, fmt.Sprintf("scan yielded key %x which is no stored block's key", ent.Key))
			continue
		}
		txs, err := ent.Value.Transactions().All()
		e.same("BlockTransactionsBucket.Prefix().Scan", "Transactions", nonNil(match.Txs), txs, err)
		rcs, err := ent.Value.Receipts().All()
		e.same("BlockTransactionsBucket.Prefix().Scan", "Receipts", nonNil(match.Receipts), rcs, err)
	}
	e.same("BlockTransactionsBucket.Prefix().Scan", "entries", len(pristine.Blocks), seen, nil)
	// the yielded values are still good after the scan moved on and ended (Entry.Value must own its bytes)
	e.interleave()
	for _, k := range kept {
		for _, b := range pristine.Blocks {
			if bytes.Equal(k.key, core.BlockTransactionsBucket.Key(mustCBOR(b.Header.Number))) {
				txs, err := k.val.Transactions().All()
				e.deferred("BlockTransactionsBucket.Prefix().Scan", "Transactions", nonNil(b.Txs), txs, err)
				rcs, err := k.val.Receipts().All()
				e.deferred("BlockTransactionsBucket.Prefix().Scan", "Receipts", nonNil(b.Receipts), rcs, err)
			}
		}
	}
	for _, b := range pristine.Blocks {
		n := 0
		for ent, err := range core.BlockTransactionsBucket.Prefix().Add(b.Header.Number).Scan(st) {
			if err != nil {
				break
			}
			_ = ent
			n++
		}
		e.same("BlockTransactionsBucket.Prefix().Add(n).Scan", "entries", 1, n, nil)
	}
	// scan prefixes are values: the per-block prefixes derived from ONE bucket-level prefix, all
	// alive at once, each select their own block (a prefix must not be rewritten by a later Add
	// on its parent)
	if len(pristine.Blocks) >= 2 {
		parent := core.BlockTransactionsBucket.Prefix()
		type derived struct {
			b   *shapedBlock
			key []byte
		}
		var ds []derived
		scans := make([]func() (int, [][]byte), 0, len(pristine.Blocks))
		for _, b := range pristine.Blocks {
			p := parent.Add(b.Header.Number)
			ds = append(ds, derived{b, core.BlockTransactionsBucket.Key(mustCBOR(b.Header.Number))})
			scans = append(scans, func() (int, [][]byte) {
				n := 0
				var keys [][]byte
				for ent, err := range p.Scan(st) {
					if err != nil {
						break
					}
					n++
					keys = append(keys, slices.Clone(ent.Key))
				}
				return n, keys
			})
		}
		for i, d := range ds {
			n, keys := scans[i]()
			e.evals++
			if n != 1 || !bytes.Equal(keys[0], d.key) {
				e.report("read-back:scan:sibling-prefix-selects-another-block", "BlockTransactionsBucket: p := Prefix(); p.Add(n_i) for all i; then Scan each", nil,
					fmt.Sprintf("the prefix derived for block %d (one of %d derived from the same parent) yields %d entries with keys %x, want exactly key %x", d.b.Header.Number, len(ds), n, keys, d.key))
				break
			}
		}
	}
	// classes
	for _, cl := range pristine.Classes {
		e.desc = fmt.Sprintf("class %s (%s)", cl.Hash.String(), typeName(cl.Def.Class))
		got, err := core.GetClass(st, &cl.Hash)
		e.same("core.GetClass", "DeclaredClassDefinition", &cl.Def, got, err)
		// core.ClassBucket (typed_buckets.go, "Bucket 4: Class hash -> Class definition") over the record core.WriteClass stored
		e.evals++
		// (one class for error and wrong value: a mis-framed record usually fails to decode and occasionally decodes to garbage)
		if got2, err := core.ClassBucket.Get(st, (*felt.ClassHash)(&cl.Hash)); err != nil {
			e.report("typed-bucket:core.ClassBucket.Get:disagrees-with-record-written-by-core.WriteClass", "core.ClassBucket.Get", nil, "error: "+err.Error())
		} else if d := diff("DeclaredClassDefinition", cl.Def, got2); d != nil {
			e.report("typed-bucket:core.ClassBucket.Get:disagrees-with-record-written-by-core.WriteClass", "core.ClassBucket.Get", d, "")
		}
		has, err := core.HasClass(st, &cl.Hash)
		e.same("core.HasClass", "bool", true, has, err)
		if cl.Meta != nil {
			m, err := core.GetClassCasmHashMetadata(st, (*felt.SierraClassHash)(&cl.Hash))
			e.same("core.GetClassCasmHashMetadata", "ClassCasmHashMetadata", *cl.Meta, m, err)
		}
		// hash-relevant identity of the definition
		if got != nil {
			e.evals++
			var h1, h2 string
			e1 := safely(func() { h1 = classDigest(cl.Def.Class) })
			e2 := safely(func() { h2 = classDigest(got.Class) })
			if e1 == nil && (e2 != nil || h1 != h2) {
				e.report("hash-identity:class", "class hash functions over the read-back definition", nil, fmt.Sprintf("stored %s, read back %s (%v)", h1, h2, e2))
			}
		}
	}
	absent := chain.F(0xabcdef)
	_, err := core.GetClass(st, absent)
	e.absent("core.GetClass", err)
	_, err = core.GetClassCasmHashMetadata(st, (*felt.SierraClassHash)(absent))
	e.absent("core.GetClassCasmHashMetadata", err)
	if pristine.L1Head != nil {
		e.desc = "L1 head"
		lh, err := core.GetL1Head(st)
		e.same("core.GetL1Head", "L1Head", *pristine.L1Head, lh, err)
		lh, err = e.bc.L1Head()
		e.same("Reader.L1Head", "L1Head", *pristine.L1Head, lh, err)
		lh, err = core.L1HeightBucket.Get(st, struct{}{})
		e.same("core.L1HeightBucket.Get", "L1Head", *pristine.L1Head, lh, err)
	} else {
		_, err := core.GetL1Head(st)
		e.absent("core.GetL1Head", err)
	}
	_ = sc
}

func mustCBOR(n uint64) []byte {
	b, err := encoder.Marshal(n)
	if err != nil {
		panic(err)
	}
	return b
}

func classDigest(c core.ClassDefinition) string {
	switch t := c.(type) {
	case *core.SierraClass:
		h, _ := t.Hash()
		s := h.String()
		if t.Compiled != nil {
			h1 := t.Compiled.Hash(core.HashVersionV1)
			h2 := t.Compiled.Hash(core.HashVersionV2)
			s += "/" + h1.String() + "/" + h2.String()
		}
		return s
	default:
		return "cairo0" // the Cairo-0 class hash needs the program decoded; not a function of the stored record alone
	}
}

var (
	covMu  sync.Mutex
	covAll = map[string]int{}
)

func runShapeCase(r *lib.Run, idx int) {
	rng := lib.Rng("C07/shape", uint64(idx))
	s := newShaper(rng)
	twins := 0
	if idx%16 == 0 { // these cases also run on pebblev2
		twins = 3
	}
	sc := genShapeCase(s, twins)
	pristine := chain.DeepCopy(sc)
	// digests are taken from a third copy: StateDiff.Hash() sorts DeclaredV0Classes in place
	digests := make([]blockDigest, len(sc.Blocks))
	for i, b := range chain.DeepCopy(sc).Blocks {
		digests[i] = digestBlock(b.Header, b.Txs, b.Receipts, b.SU, b.Safe)
	}
	codecRoundTrips(r, idx, sc)

	run := func(dbn string, st db.KeyValueStore, reopen func() (db.KeyValueStore, error)) {
		var werr error
		if perr := safely(func() {
			werr = sc.write(st)
		}); perr != nil {
			werr = perr
		}
		if werr != nil {
			ds := []string{}
			for _, b := range sc.Blocks {
				ds = append(ds, b.Desc)
			}
			r.Violation("write-failed", idx, fmt.Sprintf("[shape/%s] core.Write* refused or crashed on a representable record: %v", dbn, werr), ds)
			return
		}
		if reopen != nil {
			st2, err := reopen()
			if err != nil {
				r.Inconclusive("reopen: " + err.Error())
				return
			}
			st = st2
		}
		e := &env{r: r, idx: idx, layer: "shape", dbn: dbn, cfg: "direct core.Write*", st: st, bc: blockchain.New(st, net)}
		e.checkShapeCase(sc, pristine, digests)
		r.Eval(e.evals)
		r.Count("shape/comparisons/"+dbn, e.evals)
		ps := newPoisonStore(st)
		pe := &env{r: r, idx: idx, layer: "shape", dbn: dbn + "+poison", cfg: "direct core.Write*", st: ps, bc: blockchain.New(ps, net), poison: true}
		pe.checkShapeCase(sc, pristine, digests)
		r.Eval(pe.evals)
		r.Count("shape/comparisons/"+dbn+"+poison", pe.evals)
		r.Count("poison/get_callbacks_poisoned", int(ps.gets.Load()))
		r.Count("poison/bytes_poisoned", int(ps.poisoned.Load()))
		if reopen != nil {
			st.Close()
		}
	}
	run("memory", memory.New(), nil)
	if idx%2 == 0 {
		pst, dir, err := openPebble()
		if err != nil {
			r.Inconclusive("pebble open: " + err.Error())
		} else {
			defer os.RemoveAll(dir)
			run("pebblev2", pst, func() (db.KeyValueStore, error) {
				if err := pst.Close(); err != nil {
					return nil, err
				}
				return pebblev2.New(dir)
			})
		}
	}
	// the stored objects themselves must not have been modified by writing them
	if d := diff("ShapeCase", pristine, sc); d != nil {
		r.Violation("write-mutates-input:"+d.ClassPath+":"+d.Kind, idx, "core.Write* modified the value handed to it: "+d.String(), d)
	}
	for _, b := range sc.Blocks {
		r.Case("shape|" + b.Desc)
		r.Count("shape/blocks", 1)
		r.Count("shape/transactions", len(b.Txs))
		if len(b.Txs) == 0 {
			r.Count("shape/empty_blocks", 1)
		}
		if b.Unequal {
			r.Count("shape/blocks_with_unequal_tx_receipt_counts", 1)
		}
		if b.Safe {
			r.Count("shape/blocks_with_block_hash_identity_evaluated", 1)
		}
		if b.Twin {
			r.Count("shape/twin_fixed_size_blocks", 1)
		}
		if strings.Contains(b.Desc, "huge=true") {
			r.Count("shape/huge_single_tx_blocks", 1)
		}
	}
	r.Count("shape/classes", len(sc.Classes))
	covMu.Lock()
	for k, v := range s.cov {
		covAll[k] += v
	}
	covMu.Unlock()
	if idx < 2 {
		ds := []string{}
		for _, b := range sc.Blocks {
			ds = append(ds, b.Desc)
		}
		r.Sample(map[string]any{"layer": "shape", "case": idx, "blocks": ds, "classes": len(sc.Classes), "l1head": sc.L1Head != nil})
	}
}

// ------------------------------------------------------------------ layer C: decode(encode(x)) == x

// roundTrip encodes x with encoder.Marshal, decodes into a fresh T and compares; then
// re-encodes the decoded value and compares the bytes (a second, representation-free
// view of "nothing was lost").
func roundTrip[T any](r *lib.Run, idx int, name string, x T) {
	r.Eval(1)
	r.Count("codec/round_trips", 1)
	enc, err := encoder.Marshal(x)
	if err != nil {
		r.Violation("codec:"+name+":marshal-error", idx, "encoder.Marshal("+name+") failed: "+err.Error(), show(reflect.ValueOf(x)))
		return
	}
	var y T
	if err := encoder.Unmarshal(enc, &y); err != nil {
		r.Violation("codec:"+name+":unmarshal-error", idx, "encoder.Unmarshal(encoder.Marshal("+name+")) failed: "+err.Error(), fmt.Sprintf("%d bytes, head %x", len(enc), enc[:min(64, len(enc))]))
		return
	}
	if d := diff(name, x, y); d != nil {
		r.Violation("codec:"+d.ClassPath+":"+d.Kind, idx, "decode(encode(x)) != x: "+d.String(), d)
		return
	}
	enc2, err := encoder.Marshal(y)
	if err != nil || !bytes.Equal(enc, enc2) {
		r.Violation("codec:"+name+":re-encode-differs", idx, fmt.Sprintf("encode(decode(encode(x))) != encode(x) for %s (%d vs %d bytes, err %v)", name, len(enc), len(enc2), err), nil)
	}
}

func codecRoundTrips(r *lib.Run, idx int, sc *shapeCase) {
	for _, b := range sc.Blocks {
		roundTrip(r, idx, "Header", b.Header)
		if idx%8 == 0 {
			h := *b.Header
			h.EventsBloom = nil // only the codec can carry this; the node never stores a header without bloom
			roundTrip(r, idx, "Header", &h)
		}
		for _, tx := range b.Txs {
			roundTrip[core.Transaction](r, idx, "Transaction", tx)
		}
		for _, rc := range b.Receipts {
			roundTrip(r, idx, "Receipt", rc)
		}
		roundTrip(r, idx, "StateUpdate", b.SU)
		roundTrip(r, idx, "BlockCommitments", b.Commitments)
		// the block blob through its own serializer
		r.Eval(1)
		bt, err := core.NewBlockTransactions(b.Txs, b.Receipts)
		if err != nil {
			r.Violation("codec:BlockTransactions:marshal-error", idx, "NewBlockTransactions failed: "+err.Error(), b.Desc)
			continue
		}
		enc, err := core.BlockTransactionsSerializer{}.Marshal(&bt)
		var back core.BlockTransactions
		if err == nil {
			err = core.BlockTransactionsSerializer{}.Unmarshal(enc, &back)
		}
		if err != nil {
			r.Violation("codec:BlockTransactions:error", idx, "BlockTransactionsSerializer round trip failed: "+err.Error(), b.Desc)
			continue
		}
		txs, e1 := back.Transactions().All()
		rcs, e2 := back.Receipts().All()
		if e1 != nil || e2 != nil {
			r.Violation("codec:BlockTransactions:error", idx, fmt.Sprintf("decoding the round-tripped blob failed: %v %v", e1, e2), b.Desc)
			continue
		}
		if d := diff("Transactions", nonNil(b.Txs), txs); d != nil {
			r.Violation("codec:BlockTransactions:"+d.ClassPath+":"+d.Kind, idx, "BlockTransactionsSerializer round trip: "+d.String(), d)
		}
		if d := diff("Receipts", nonNil(b.Receipts), rcs); d != nil {
			r.Violation("codec:BlockTransactions:"+d.ClassPath+":"+d.Kind, idx, "BlockTransactionsSerializer round trip: "+d.String(), d)
		}
	}
	// values built first, used afterwards: every BlockTransactions value of the scenario is
	// encoded before any of them is decoded or serialised (what a caller does that prepares
	// several blocks and writes them in one batch; the transaction-layout migration runs four
	// such builders at once). Each value must still describe its own block - an encoder that
	// hands out a buffer it re-uses for the next value does not.
	{
		var bts []core.BlockTransactions
		var owners []*shapedBlock
		for _, b := range sc.Blocks {
			bt, err := core.NewBlockTransactions(b.Txs, b.Receipts)
			if err != nil {
				continue // reported above
			}
			bts = append(bts, bt)
			owners = append(owners, b)
		}
		for i := range bts {
			b := owners[i]
			r.Eval(1)
			r.Count("block_blobs_decoded_after_later_blobs_were_built", 1)
			txs, e1 := bts[i].Transactions().All()
			rcs, e2 := bts[i].Receipts().All()
			if e1 != nil || e2 != nil {
				r.Violation("codec:BlockTransactions:value-damaged-by-building-a-later-value:error", idx,
					fmt.Sprintf("block blob %d of %d no longer decodes after the later ones were built: %v %v", i, len(bts), e1, e2), b.Desc)
				break
			}
			d := diff("Transactions", nonNil(b.Txs), txs)
			if d == nil {
				d = diff("Receipts", nonNil(b.Receipts), rcs)
			}
			if d != nil {
				r.Violation("codec:BlockTransactions:value-damaged-by-building-a-later-value", idx,
					fmt.Sprintf("block blob %d of %d built by NewBlockTransactions describes other content after the later ones were built: %s", i, len(bts), d.String()), d)
				break
			}
		}
	}
	for _, cl := range sc.Classes {
		roundTrip[core.ClassDefinition](r, idx, "ClassDefinition", cl.Def.Class)
		r.Eval(1)
		enc, err := cl.Def.MarshalBinary()
		var back core.DeclaredClassDefinition
		if err == nil {
			err = back.UnmarshalBinary(enc)
		}
		if err != nil {
			r.Violation("codec:DeclaredClassDefinition:error", idx, "DeclaredClassDefinition binary round trip failed: "+err.Error(), nil)
		} else if d := diff("DeclaredClassDefinition", cl.Def, back); d != nil {
			r.Violation("codec:"+d.ClassPath+":"+d.Kind, idx, "DeclaredClassDefinition binary round trip: "+d.String(), d)
		}
		if cl.Meta != nil {
			r.Eval(1)
			enc, err := cl.Meta.MarshalBinary()
			var back core.ClassCasmHashMetadata
			if err == nil {
				err = back.UnmarshalBinary(enc)
			}
			if err != nil {
				r.Violation("codec:ClassCasmHashMetadata:error", idx, "ClassCasmHashMetadata binary round trip failed: "+err.Error(), nil)
			} else if d := diff("ClassCasmHashMetadata", *cl.Meta, back); d != nil {
				r.Violation("codec:"+d.ClassPath+":"+d.Kind, idx, "ClassCasmHashMetadata binary round trip: "+d.String(), d)
			}
		}
	}
	if sc.L1Head != nil {
		roundTrip(r, idx, "L1Head", sc.L1Head)
	}
}

// feltCodecCase: felts and felt slices whose internal limbs sit on every CBOR
// integer-width boundary, alone and inside containers (single felt, *felt, []felt,
// felt.Slice, map key, TransactionVersion).
func feltCodecCase(r *lib.Run, idx int) {
	rng := lib.Rng("C07/felt", uint64(idx))
	s := newShaper(rng)
	for i := 0; i < 40; i++ {
		f := s.rawLimbFelt()
		roundTrip(r, idx, "Felt", f)
		roundTrip(r, idx, "*Felt", &f)
		v := core.TransactionVersion(f)
		roundTrip(r, idx, "*TransactionVersion", &v)
	}
	for _, n := range []int{0, 1, 23, 24, 255, 256, 257} {
		fs := make([]felt.Felt, n)
		for i := range fs {
			if rng.IntN(2) == 0 {
				fs[i] = s.rawLimbFelt()
			} else {
				fs[i] = s.felt()
			}
		}
		roundTrip(r, idx, "[]Felt", fs)
		roundTrip(r, idx, "felt.Slice", felt.Slice[felt.Felt](fs))
		roundTrip(r, idx, "struct{felt.Slice}", struct{ P felt.Slice[felt.Felt] }{fs})
	}
	roundTrip(r, idx, "felt.Slice(nil)", felt.Slice[felt.Felt](nil))
	roundTrip(r, idx, "struct{felt.Slice(nil)}", struct{ P felt.Slice[felt.Felt] }{})
	if idx%4 == 0 {
		for _, n := range []int{65535, 65536, 65537} {
			fs := make([]felt.Felt, n)
			for i := range fs {
				fs[i] = s.rawLimbFelt()
			}
			roundTrip(r, idx, "felt.Slice", felt.Slice[felt.Felt](fs))
		}
	}
	m := map[felt.Felt]*felt.Felt{}
	for i := 0; i < 20; i++ {
		m[s.rawLimbFelt()] = s.pf()
	}
	roundTrip(r, idx, "map[Felt]*Felt", m)
	r.Case(fmt.Sprintf("felt-codec|%d", idx))
}

// wireTags pins the CBOR tag that discriminates each interface implementation on disk
// (encoder/registry assigns 65536+position). A database written by the pinned tree holds
// these numbers; a registry whose order changes still round-trips within one process but
// decodes every existing record as the wrong type, so the numbers themselves are checked.
var wireTags = []struct {
	name string
	v    any
	tag  uint64
}{
	{"DeclareTransaction", &core.DeclareTransaction{}, 65536},
	{"DeployTransaction", &core.DeployTransaction{}, 65537},
	{"InvokeTransaction", &core.InvokeTransaction{}, 65538},
	{"L1HandlerTransaction", &core.L1HandlerTransaction{}, 65539},
	{"DeployAccountTransaction", &core.DeployAccountTransaction{}, 65540},
	{"DeprecatedCairoClass", &core.DeprecatedCairoClass{}, 65541},
	{"SierraClass", &core.SierraClass{}, 65542},
}

func checkWireTags(r *lib.Run) {
	for _, w := range wireTags {
		r.Eval(1)
		enc, err := encoder.Marshal(w.v)
		if err != nil || len(enc) < 5 || enc[0] != 0xda {
			r.Violation("codec:type-tag:"+w.name+":not-tagged", -1, fmt.Sprintf("encoding of %s does not start with a 4-byte CBOR tag (err %v, head %x)", w.name, err, enc[:min(8, len(enc))]), nil)
			continue
		}
		got := uint64(enc[1])<<24 | uint64(enc[2])<<16 | uint64(enc[3])<<8 | uint64(enc[4])
		if got != w.tag {
			r.Violation("codec:type-tag:"+w.name+":changed", -1, fmt.Sprintf("%s is written with CBOR tag %d; databases of the pinned tree hold %d for this type", w.name, got, w.tag), nil)
		}
	}
}

func TestC07(t *testing.T) {
	r := lib.Start("C07", "exploration")
	checkWireTags(r)
	nChain := r.N(48, 800)
	nShape := r.N(320, 6500)
	nFelt := r.N(16, 300)
	r.Cases(r.N(60, 1200), 0, func(idx int) { runOvertakenAccessors(r, idx) })
	r.Cases(nChain+nShape+nFelt, 0, func(idx int) {
		switch {
		case idx < nChain:
			runChainCase(r, idx)
		case idx < nChain+nShape:
			runShapeCase(r, idx)
		default:
			feltCodecCase(r, idx)
		}
	})
	// informational probe (not part of the verdict): Go strings that are not valid UTF-8. Every
	// ingestion path (feeder JSON, protobuf, VM JSON) delivers valid UTF-8, so the workload
	// above never contains one; the observed behaviour is recorded for the reader.
	{
		st := memory.New()
		h := chain.F(0x77)
		tx := &core.InvokeTransaction{TransactionHash: h, Version: new(core.TransactionVersion).SetUint64(1)}
		rc := &core.TransactionReceipt{TransactionHash: h, Reverted: true, RevertReason: "bad\xff\xfeutf8"}
		werr := core.WriteTransactionsAndReceipts(st, 7, []core.Transaction{tx}, []*core.TransactionReceipt{rc})
		_, rerr := core.GetReceiptByBlockAndIndex(st, 7, 0)
		r.Note(fmt.Sprintf("probe (no verdict): receipt whose RevertReason is not valid UTF-8: write error=%v, read error=%v", werr, rerr))
	}

	// field x shape coverage of the shape fuzz layer
	covMu.Lock()
	fields := map[string]map[string]bool{}
	for k := range covAll {
		i := strings.LastIndex(k, "=")
		if fields[k[:i]] == nil {
			fields[k[:i]] = map[string]bool{}
		}
		fields[k[:i]][k[i+1:]] = true
	}
	combos, missing := 0, []string{}
	for f, shapes := range fields {
		combos += len(shapes)
		want := []string{"nil", "set"}
		if shapes["empty"] || shapes["one"] || shapes["many"] {
			want = shapeNames[:]
		}
		if strings.HasSuffix(f, ".kind") || f == "Receipt.RevertReason" {
			continue
		}
		for _, w := range want {
			if !shapes[w] {
				missing = append(missing, f+"="+w)
			}
		}
	}
	covMu.Unlock()
	sort.Strings(missing)
	r.Count("shape/fields_varied", len(fields))
	r.Count("shape/field_shape_combinations_exercised", combos)
	r.Count("shape/field_shape_combinations_missed", len(missing))
	if len(missing) > 0 {
		r.Note("field shapes never generated in this run: " + strings.Join(missing, ", "))
	}
	for _, k := range txKinds {
		r.Count("shape/tx/"+k, covAll["Tx.kind="+k])
	}
	r.Assume("equality = reflect.DeepEqual semantics with three fixed normalisations: bloom filters by serialised bytes; InvokeTransaction.ProofFacts nil == empty (omitempty, hash-neutral - checked); *big.Int by value")
	r.Assume("the top-level transaction / receipt lists of a block are compared element-wise against a non-nil list: the blob stores elements + offsets, a nil-vs-empty *list* has no stored representation")
	r.Assume("shape-fuzz records need not be valid Starknet blocks; they keep what every stored block has: non-nil block hash, state root, bloom, non-zero unique transaction hashes, L1-handler calldata[0]/address/selector")
	r.Assume("valid chains come from lib/chain (Sepolia rules); crypto primitives and the commitment formulas are trusted when used to compare stored vs read-back digests")
	r.Finish("layer chain: case = generated valid chain (5-8 blocks, all tx kinds/versions, formats 0.13.2-0.14.1) stored with SanityCheckNewHeight+Store on memory and on pebblev2 (closed and reopened), legacy and new state backend alternating; "+
		"layer shape: case = 3-5 blocks at CBOR-width-boundary block numbers + classes + L1 head with every slice/map nil|empty|one|many and every optional nil|set, written with core.Write* to memory (and pebblev2, reopened, every 2nd case); "+
		"for every block every core.Get* accessor, typed bucket, bucket scan and blockchain.Reader method is compared with what was stored (1), every partial decoder with the projection of the full decoder (2), "+
		"encoder.Marshal/Unmarshal and the binary codecs round-trip every record (3), and block hash / tx hashes / commitments / state-diff hash / class hashes over the read-back records equal those over the stored ones (4); "+
		"index and block-number probes outside the stored range must answer key-not-found without panic; distinct = distinct block shape descriptors", 200)
}

package vstore

import (
	"bytes"
	"fmt"
	"math/big"
	"reflect"
	"strings"

	"github.com/bits-and-blooms/bloom/v3"
)

// Structural equality used by every C07 comparison.
//
// It is reflect.DeepEqual (nil and empty slices / maps are DIFFERENT, dynamic types of
// interface values must match, every struct field including unexported ones is
// compared) with exactly three documented normalisations:
//
//  1. *bloom.BloomFilter is compared by its serialised bytes (DESIGN C07: the in-memory
//     representation of the bitset is not part of what is stored).
//  2. core.InvokeTransaction.ProofFacts: nil == empty (DESIGN C07: the field is
//     `cbor:",omitempty"`; its transaction-hash contribution is the same for both -
//     the harness checks that separately via oracle (4)).
//  3. *big.Int is compared by value (Cmp): math/big does not define its internal limb
//     slice representation (nil vs empty `abs` for zero), only the value is observable.
//
// Nothing else is normalised. A difference is returned with the path where it was
// found; ClassPath is the same path with indices / map keys removed so it can be used
// as a witness class.
type delta struct {
	Path      string
	ClassPath string
	Kind      string // nil->empty | empty->nil | nil->set | set->nil | len | value | type | missing-key
	Exp       string
	Got       string
}

func (d *delta) String() string {
	return fmt.Sprintf("%s: %s (stored %s, read back %s)", d.Path, d.Kind, d.Exp, d.Got)
}

var (
	bloomPtrT = reflect.TypeOf((*bloom.BloomFilter)(nil))
	bigPtrT   = reflect.TypeOf((*big.Int)(nil))
)

// diff returns nil when exp and got are equal under the rules above.
func diff(root string, exp, got any) *delta {
	return diffV(root, root, reflect.ValueOf(exp), reflect.ValueOf(got), false)
}

func show(v reflect.Value) string {
	if !v.IsValid() {
		return "<invalid>"
	}
	var s string
	switch v.Kind() {
	case reflect.Slice, reflect.Map:
		if v.IsNil() {
			return "nil"
		}
		s = fmt.Sprintf("len=%d", v.Len())
		if v.Len() == 0 {
			return "empty(" + s + ")"
		}
		return s
	case reflect.Pointer, reflect.Interface:
		if v.IsNil() {
			return "nil"
		}
		return show(v.Elem())
	case reflect.Array:
		if v.Len() == 4 && v.Type().Elem().Kind() == reflect.Uint64 {
			return fmt.Sprintf("limbs[%#x %#x %#x %#x]", v.Index(0).Uint(), v.Index(1).Uint(), v.Index(2).Uint(), v.Index(3).Uint())
		}
	}
	if v.CanInterface() {
		s = fmt.Sprintf("%+v", v.Interface())
	} else {
		s = v.String()
	}
	if len(s) > 160 {
		s = s[:160] + "..."
	}
	return s
}

func mk(path, cpath, kind string, e, g reflect.Value) *delta {
	return &delta{Path: path, ClassPath: cpath, Kind: kind, Exp: show(e), Got: show(g)}
}

func diffV(path, cpath string, e, g reflect.Value, nilEmptyEq bool) *delta {
	if !e.IsValid() || !g.IsValid() {
		if e.IsValid() != g.IsValid() {
			return mk(path, cpath, "value", e, g)
		}
		return nil
	}
	if e.Type() != g.Type() {
		return &delta{Path: path, ClassPath: cpath, Kind: "type", Exp: e.Type().String(), Got: g.Type().String()}
	}
	switch e.Kind() {
	case reflect.Pointer:
		if e.IsNil() || g.IsNil() {
			if e.IsNil() && !g.IsNil() {
				return mk(path, cpath, "nil->set", e, g)
			}
			if !e.IsNil() && g.IsNil() {
				return mk(path, cpath, "set->nil", e, g)
			}
			return nil
		}
		if e.CanInterface() {
			switch e.Type() {
			case bloomPtrT:
				eb, err1 := e.Interface().(*bloom.BloomFilter).MarshalBinary()
				gb, err2 := g.Interface().(*bloom.BloomFilter).MarshalBinary()
				if err1 != nil || err2 != nil || !bytes.Equal(eb, gb) {
					return &delta{Path: path, ClassPath: cpath, Kind: "value", Exp: fmt.Sprintf("bloom(%d bytes)", len(eb)), Got: fmt.Sprintf("bloom(%d bytes)", len(gb))}
				}
				return nil
			case bigPtrT:
				if e.Interface().(*big.Int).Cmp(g.Interface().(*big.Int)) != 0 {
					return mk(path, cpath, "value", e, g)
				}
				return nil
			}
		}
		return diffV(path, cpath, e.Elem(), g.Elem(), false)
	case reflect.Interface:
		if e.IsNil() || g.IsNil() {
			if e.IsNil() != g.IsNil() {
				if e.IsNil() {
					return mk(path, cpath, "nil->set", e, g)
				}
				return mk(path, cpath, "set->nil", e, g)
			}
			return nil
		}
		return diffV(path, cpath, e.Elem(), g.Elem(), false)
	case reflect.Slice:
		if e.Len() == 0 && g.Len() == 0 {
			if e.IsNil() != g.IsNil() && !nilEmptyEq {
				if e.IsNil() {
					return mk(path, cpath, "nil->empty", e, g)
				}
				return mk(path, cpath, "empty->nil", e, g)
			}
			return nil
		}
		if e.Len() != g.Len() {
			return mk(path, cpath, "len", e, g)
		}
		if e.Type().Elem().Kind() == reflect.Uint8 {
			if !bytes.Equal(e.Bytes(), g.Bytes()) {
				return mk(path, cpath, "value", e, g)
			}
			return nil
		}
		for i := 0; i < e.Len(); i++ {
			if d := diffV(fmt.Sprintf("%s[%d]", path, i), cpath+"[]", e.Index(i), g.Index(i), false); d != nil {
				return d
			}
		}
		return nil
	case reflect.Array:
		for i := 0; i < e.Len(); i++ {
			if d := diffV(path, cpath, e.Index(i), g.Index(i), false); d != nil {
				// report the whole array (a felt), not one limb
				return mk(path, cpath, "value", e, g)
			}
		}
		return nil
	case reflect.Map:
		if e.IsNil() != g.IsNil() && e.Len() == 0 && g.Len() == 0 {
			if e.IsNil() {
				return mk(path, cpath, "nil->empty", e, g)
			}
			return mk(path, cpath, "empty->nil", e, g)
		}
		if e.Len() != g.Len() {
			return mk(path, cpath, "len", e, g)
		}
		it := e.MapRange()
		for it.Next() {
			gv := g.MapIndex(it.Key())
			if !gv.IsValid() {
				return &delta{Path: path + "{" + show(it.Key()) + "}", ClassPath: cpath + "{}", Kind: "missing-key", Exp: show(it.Value()), Got: "absent"}
			}
			if d := diffV(path+"{"+show(it.Key())+"}", cpath+"{}", it.Value(), gv, false); d != nil {
				return d
			}
		}
		return nil
	case reflect.Struct:
		t := e.Type()
		for i := 0; i < e.NumField(); i++ {
			f := t.Field(i)
			ne := t.PkgPath() == "github.com/NethermindEth/juno/core" && t.Name() == "InvokeTransaction" && f.Name == "ProofFacts"
			p, cp := path+"."+f.Name, cpath+"."+f.Name
			if f.Anonymous {
				p, cp = path, cpath
				if f.Type.Kind() == reflect.Pointer {
					p, cp = path+"."+f.Name, cpath+"."+f.Name
				}
			}
			if d := diffV(p, cp, e.Field(i), g.Field(i), ne); d != nil {
				return d
			}
		}
		return nil
	case reflect.Bool:
		if e.Bool() != g.Bool() {
			return mk(path, cpath, "value", e, g)
		}
	case reflect.Int, reflect.Int8, reflect.Int16, reflect.Int32, reflect.Int64:
		if e.Int() != g.Int() {
			return mk(path, cpath, "value", e, g)
		}
	case reflect.Uint, reflect.Uint8, reflect.Uint16, reflect.Uint32, reflect.Uint64, reflect.Uintptr:
		if e.Uint() != g.Uint() {
			return mk(path, cpath, "value", e, g)
		}
	case reflect.String:
		if e.String() != g.String() {
			return mk(path, cpath, "value", e, g)
		}
	case reflect.Float32, reflect.Float64:
		if e.Float() != g.Float() {
			return mk(path, cpath, "value", e, g)
		}
	default:
		panic("vstore.diff: unsupported kind " + e.Kind().String() + " at " + path)
	}
	return nil
}

// typeName gives the short dynamic type of a transaction / class for keys and counters.
func typeName(v any) string {
	if v == nil {
		return "nil"
	}
	s := reflect.TypeOf(v).String()
	s = strings.TrimPrefix(s, "*")
	return strings.TrimPrefix(s, "core.")
}

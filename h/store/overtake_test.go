package vstore

import (
	"fmt"
	"time"

	"github.com/NethermindEth/juno/core/felt"
	"github.com/NethermindEth/juno/db/memory"
	"github.com/NethermindEth/juno/verifh/lib"
	"github.com/NethermindEth/juno/verifh/lib/chain"
)

// runOvertakenAccessors: directed interleavings of one accessor call with a reorg. A lookup
// concerning the head block (transaction / receipt by hash, block by number or hash, ...) has
// done k database reads when the head is reverted and a sibling block is stored in its place
// (store read hook, on the caller's goroutine; both commits are complete before the call
// continues). The in-flight answer is not judged (it may describe either side of the reorg).
// Afterwards, on the quiescent node, every accessor is compared with a twin node that saw the
// same blocks with no overlapping reader: whatever the overlapped call left in a cache or memo
// shows as a difference.
func runOvertakenAccessors(r *lib.Run, idx int) {
	rng := lib.Rng("C07/overtaken", uint64(idx))
	newState := idx%2 == 1
	backend := map[bool]string{false: "legacy", true: "new"}[newState]
	g := chain.NewGen(rng, chain.Opts{EventRich: true, NoNoopZero: lib.Avoid("noop-zero-write"), MaxTxs: 4})
	cur := &chain.Chain{}
	builder := chain.NewBuilder(newState)
	if err := g.Extend(cur, builder, 3+rng.IntN(3)); err != nil {
		r.Violation("generator:builder-rejects-valid-block", idx, err.Error(), nil)
		return
	}
	rec := chain.NewRecDB(memory.New())
	node := chain.NewNode(rec, newState)
	trec := chain.NewRecDB(memory.New())
	twin := chain.NewNode(trec, newState)
	ps := chain.NewProbeSet()
	for _, b := range cur.Blocks {
		ps.AddBlock(b)
		if err := node.StoreBlk(b); err != nil {
			r.Violation(backend+":valid-block-rejected", idx, err.Error(), nil)
			return
		}
		if err := twin.StoreBlk(b); err != nil {
			return
		}
	}
	var steps []string
	for t := 0; t < 8; t++ {
		head := cur.Tip()
		if len(head.Block.Transactions) == 0 && t%2 == 0 {
			// lookups by transaction hash need a transaction: grow by one block instead
			if err := g.Extend(cur, builder, 1); err != nil {
				return
			}
			nb := cur.Tip()
			ps.AddBlock(nb)
			if node.StoreBlk(nb) != nil || twin.StoreBlk(nb) != nil {
				return
			}
			continue
		}
		// the sibling that replaces the head
		fork := cur.Prefix(cur.Len() - 1)
		fb, err := chain.BuilderAt(fork, fork.Len(), newState)
		if err != nil {
			return
		}
		if err := g.Extend(fork, fb, 1); err != nil {
			return
		}
		sib := fork.Tip()
		ps.AddBlock(sib)
		var th *felt.Felt
		if n := len(head.Block.Transactions); n > 0 {
			th = head.Block.Transactions[rng.IntN(n)].Hash()
		}
		kinds := []string{"BlockByNumber", "BlockByHash", "StateUpdateByNumber", "TransactionsByBlockNumber", "BlockHeaderByHash"}
		if th != nil {
			kinds = append(kinds, "TransactionByHash", "Receipt", "TransactionByHash", "Receipt", "BlockNumberAndIndexByTxHash")
		}
		kind := kinds[rng.IntN(len(kinds))]
		bc := node.BC
		var read func()
		mk := func() {
			read = func() {
				switch kind {
				case "BlockByNumber":
					_, _ = bc.BlockByNumber(head.Number())
				case "BlockByHash":
					_, _ = bc.BlockByHash(head.Block.Hash)
				case "StateUpdateByNumber":
					_, _ = bc.StateUpdateByNumber(head.Number())
				case "TransactionsByBlockNumber":
					_, _ = bc.TransactionsByBlockNumber(head.Number())
				case "BlockHeaderByHash":
					_, _ = bc.BlockHeaderByHash(head.Block.Hash)
				case "TransactionByHash":
					_, _ = bc.TransactionByHash(th)
				case "Receipt":
					_, _, _, _ = bc.Receipt(th)
				case "BlockNumberAndIndexByTxHash":
					_, _, _ = bc.BlockNumberAndIndexByTxHash((*felt.TransactionHash)(th))
				}
			}
		}
		// the number of database reads of this call is counted on the TWIN (a call on the node
		// itself would warm exactly the caches the overtaken call is meant to fill)
		nreads := 0
		bc = twin.BC
		mk()
		trec.SetOnRead(func([]byte) { nreads++ })
		read()
		trec.SetOnRead(nil)
		bc = node.BC
		mk()
		if nreads == 0 {
			r.Count("overtaken.accessor_without_database_reads:"+kind, 1)
			nreads = 1
		}
		k := 1 + rng.IntN(nreads)
		var werr error
		write := func() {
			if werr = node.BC.RevertHead(); werr == nil {
				werr = node.StoreBlk(sib)
			}
		}
		fired, _ := rec.Overtake(k, 300*time.Millisecond, read, write)
		if !fired {
			write()
			r.Count("overtaken.accessor_finished_before_the_chosen_read", 1)
		} else {
			r.Count("overtaken.accessor_calls_overtaken_by_a_reorg:"+kind, 1)
		}
		steps = append(steps, fmt.Sprintf("%s(head %d) overtaken after read %d/%d by revert+store of a sibling", kind, head.Number(), k, nreads))
		if werr != nil {
			r.Violation(backend+":overtaken:reorg-refused", idx, fmt.Sprintf("revert + store of a valid sibling of block %d refused: %v", head.Number(), werr), map[string]any{"steps": steps})
			return
		}
		if twin.BC.RevertHead() != nil || twin.StoreBlk(sib) != nil {
			return
		}
		cur, builder = fork, fb
		on, ot := chain.Probe(node.BC, ps), chain.Probe(twin.BC, ps)
		r.Eval(len(on))
		if d := chain.Diff(on, ot, 6); len(d) > 0 {
			r.Violation(fmt.Sprintf("%s:overtaken:%s:node-answers-differently-after-an-accessor-overlapped-a-reorg", backend, kind), idx,
				fmt.Sprintf("%s node, %s: afterwards the node and a twin that stored the same blocks differ: %s", backend, steps[len(steps)-1], d[0]),
				map[string]any{"steps": steps, "differences(node vs twin)": d})
			return
		}
	}
	r.Count("overtaken.histories", 1)
	r.Case(fmt.Sprintf("overtaken/%s/%v", backend, steps))
}

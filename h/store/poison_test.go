package vstore

import (
	"slices"
	"sync/atomic"

	"github.com/NethermindEth/juno/db"
)

// poisonStore is a db.KeyValueStore wrapper that makes the read contract of db.KeyValueReader
// observable: "If a given key exists, the callback will be called with the value" - the
// value belongs to the store and is only valid during the callback; Iterator.UncopiedValue
// "is invalidated by the next call to Next, Prev, or Seek". The wrapper hands every
// callback / UncopiedValue caller a PRIVATE copy and overwrites that copy with 0xff
// (CBOR "break": undecodable) as soon as the contract says it is dead: right after the
// Get callback returns; when the iterator moves or closes. A reader that retained the
// slice (directly or inside a lazily decoded structure) then sees garbage, on any
// backend, deterministically - which a buffer-recycling backend (pebble) only shows
// after some later read. Iterator.Value() is specified and implemented as a copy on
// both backends and is therefore NOT poisoned. Writes pass through.
type poisonStore struct {
	db.KeyValueStore
	gets     *atomic.Int64
	poisoned *atomic.Int64
}

func newPoisonStore(inner db.KeyValueStore) *poisonStore {
	return &poisonStore{KeyValueStore: inner, gets: new(atomic.Int64), poisoned: new(atomic.Int64)}
}

func poison(b []byte) {
	for i := range b {
		b[i] = 0xff
	}
}

type poisonReader struct {
	inner db.KeyValueReader
	p     *poisonStore
}

func (r poisonReader) Has(key []byte) (bool, error) { return r.inner.Has(key) }

func (r poisonReader) Get(key []byte, cb func([]byte) error) error {
	return r.inner.Get(key, func(v []byte) error {
		cp := slices.Clone(v)
		if cp == nil {
			cp = []byte{}
		}
		err := cb(cp)
		poison(cp)
		r.p.gets.Add(1)
		r.p.poisoned.Add(int64(len(cp)))
		return err
	})
}

func (r poisonReader) NewIterator(prefix []byte, withUpperBound bool) (db.Iterator, error) {
	it, err := r.inner.NewIterator(prefix, withUpperBound)
	if err != nil {
		return nil, err
	}
	return &poisonIterator{Iterator: it, p: r.p}, nil
}

type poisonIterator struct {
	db.Iterator
	p    *poisonStore
	live [][]byte
}

func (i *poisonIterator) kill() {
	for _, b := range i.live {
		poison(b)
		i.p.poisoned.Add(int64(len(b)))
	}
	i.live = i.live[:0]
}

func (i *poisonIterator) First() bool        { i.kill(); return i.Iterator.First() }
func (i *poisonIterator) Next() bool         { i.kill(); return i.Iterator.Next() }
func (i *poisonIterator) Prev() bool         { i.kill(); return i.Iterator.Prev() }
func (i *poisonIterator) Seek(k []byte) bool { i.kill(); return i.Iterator.Seek(k) }
func (i *poisonIterator) Close() error       { i.kill(); return i.Iterator.Close() }
func (i *poisonIterator) UncopiedValue() ([]byte, error) {
	v, err := i.Iterator.UncopiedValue()
	if err != nil || v == nil {
		return v, err
	}
	cp := slices.Clone(v)
	i.live = append(i.live, cp)
	return cp, nil
}

func (p *poisonStore) reader() poisonReader { return poisonReader{inner: p.KeyValueStore, p: p} }

func (p *poisonStore) Has(key []byte) (bool, error)                { return p.KeyValueStore.Has(key) }
func (p *poisonStore) Get(key []byte, cb func([]byte) error) error { return p.reader().Get(key, cb) }
func (p *poisonStore) NewIterator(prefix []byte, ub bool) (db.Iterator, error) {
	return p.reader().NewIterator(prefix, ub)
}

type poisonSnapshot struct {
	poisonReader
	snap db.Snapshot
}

func (s poisonSnapshot) Close() error { return s.snap.Close() }

func (p *poisonStore) NewSnapshot() db.Snapshot {
	s := p.KeyValueStore.NewSnapshot()
	return poisonSnapshot{poisonReader: poisonReader{inner: s, p: p}, snap: s}
}

type poisonIndexedBatch struct {
	db.IndexedBatch
	p *poisonStore
}

func (b poisonIndexedBatch) Get(key []byte, cb func([]byte) error) error {
	return poisonReader{inner: b.IndexedBatch, p: b.p}.Get(key, cb)
}

func (b poisonIndexedBatch) NewIterator(prefix []byte, ub bool) (db.Iterator, error) {
	return poisonReader{inner: b.IndexedBatch, p: b.p}.NewIterator(prefix, ub)
}

func (p *poisonStore) NewIndexedBatch() db.IndexedBatch {
	return poisonIndexedBatch{IndexedBatch: p.KeyValueStore.NewIndexedBatch(), p: p}
}

func (p *poisonStore) NewIndexedBatchWithSize(n int) db.IndexedBatch {
	return poisonIndexedBatch{IndexedBatch: p.KeyValueStore.NewIndexedBatchWithSize(n), p: p}
}

func (p *poisonStore) Update(fn func(db.IndexedBatch) error) error {
	return p.KeyValueStore.Update(func(b db.IndexedBatch) error {
		return fn(poisonIndexedBatch{IndexedBatch: b, p: p})
	})
}

func (p *poisonStore) WithListener(l db.EventListener) db.KeyValueStore {
	return &poisonStore{KeyValueStore: p.KeyValueStore.WithListener(l), gets: p.gets, poisoned: p.poisoned}
}

package vstore

import (
	"bytes"
	"fmt"
	"math/rand/v2"
	"os"
	"testing"

	"github.com/NethermindEth/juno/db/pebblev2"
)

func TestZZProbe(t *testing.T) {
	rng := rand.New(rand.NewPCG(1, 2))
	for _, random := range []bool{false, true} {
		for _, batch := range []bool{false, true} {
			for _, size := range []int{850000, 1000000} {
				dir, _ := os.MkdirTemp("", "verif-c07-probe-")
				st, err := pebblev2.New(dir)
				if err != nil {
					t.Fatal(err)
				}
				b := st.NewBatch()
				for k := 0; k < 6; k++ {
					v := make([]byte, size)
					for i := range v {
						if random {
							v[i] = byte(rng.Uint32())
						} else {
							v[i] = byte(k*37 + i%251)
						}
					}
					if batch {
						b.Put([]byte{0x50, byte(k)}, v)
					} else {
						st.Put([]byte{0x50, byte(k)}, v)
					}
				}
				b.Write()
				st.Close()
				st, _ = pebblev2.New(dir)
				var kept []byte
				st.Get([]byte{0x50, 0}, func(v []byte) error { kept = v; return nil })
				orig := bytes.Clone(kept)
				res := "intact after 5 other reads"
				for k := 1; k < 6; k++ {
					st.Get([]byte{0x50, byte(k)}, func(v []byte) error { return nil })
					if !bytes.Equal(orig, kept) {
						res = fmt.Sprintf("corrupted after %d other reads", k)
						break
					}
				}
				fmt.Printf("PROBE random=%v batch=%v size=%d: %s\n", random, batch, size, res)
				st.Close()
				os.RemoveAll(dir)
			}
		}
	}
}

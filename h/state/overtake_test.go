package vstate

import (
	"github.com/NethermindEth/juno/db"
	"sort"
	"bytes"
	"fmt"
	"time"

	"github.com/NethermindEth/juno/core"
	"github.com/NethermindEth/juno/core/felt"
	"github.com/NethermindEth/juno/db/memory"
	"github.com/NethermindEth/juno/verifh/lib"
	"github.com/NethermindEth/juno/verifh/lib/chain"
)

const classLegacyOvertaken = "legacy:historical-state-reader-overtaken-by-store-or-revert:answers-from-another-block"

// runOvertaken: directed interleavings of ONE reader with ONE writer. An RPC handler
// answering "state at block b" opens a reader and performs a series of point reads; the
// synchroniser stores the next block (or reverts the head) whenever it likes. Here the
// write is started right after the reader's k-th database read (store hook, reader's own
// goroutine held until the write has committed), for sampled k over the whole read
// sequence. As long as block b stays canonical the answers must be block b's state -
// there is no other block they could legitimately describe.
func runOvertaken(r *lib.Run, idx int) {
	rng := lib.Rng("C03/overtaken", uint64(idx))
	opts := chain.Opts{NoNoopZero: lib.Avoid("noop-zero-write")}
	if rng.IntN(2) == 0 {
		opts.Contracts = []uint64{0x100, 0x101}
		opts.Slots = []uint64{2, 3}
		opts.NoClasses = rng.IntN(2) == 0
	}
	g := chain.NewGen(rng, opts)
	newState := idx%2 == 1
	builderNew := rng.IntN(2) == 1
	backend := map[bool]string{false: "legacy", true: "new"}[newState]
	full := &chain.Chain{}
	if err := g.Extend(full, chain.NewBuilder(builderNew), 9+rng.IntN(4)); err != nil {
		r.Violation("generator:builder-rejects-valid-block", idx, err.Error(), nil)
		return
	}
	ps := newProbeSet(g)
	ever := map[[2]felt.Felt]bool{}
	for _, blk := range full.Blocks {
		for h := range blk.Classes {
			ps.classes[h] = struct{}{}
		}
		for a, m := range blk.SU.StateDiff.StorageDiffs {
			for k := range m {
				ever[[2]felt.Felt{a, k}] = true
			}
		}
	}
	prev := func(a, k felt.Felt) bool { return ever[[2]felt.Felt{a, k}] }
	rec := chain.NewRecDB(memory.New())
	node := chain.NewNode(rec, newState)
	height := 3 + rng.IntN(4) // blocks stored
	for _, blk := range full.Blocks[:height] {
		if err := node.StoreBlk(blk); err != nil {
			r.Violation(backend+":valid-block-rejected", idx, err.Error(), nil)
			return
		}
	}
	var done []step
	for t := 0; t < 14; t++ {
		head := uint64(height - 1)
		store := height < full.Len() && (height <= 2 || rng.IntN(3) != 0)
		b := head
		if !store || rng.IntN(3) == 0 {
			if head == 0 {
				continue
			}
			b = head - 1 - uint64(rng.IntN(int(min(head, 3))))
		}
		byHash := rng.IntN(2) == 0
		// every fourth trial the overtaken reader is a HEAD reader (its answers are not judged: it
		// legitimately describes the old or the new head); every sixth trial starts on a freshly
		// restarted node. What matters there is that the node is not confused afterwards.
		headReader := store && t%4 == 3
		if t%6 == 5 {
			if err := node.Restart(false); err != nil {
				r.Violation(backend+":restart-fails", idx, err.Error(), nil)
				return
			}
			r.Count("overtaken.trials_on_a_freshly_restarted_node", 1)
		}
		k := 1 + rng.IntN([]int{4, 30, 250}[rng.IntN(3)])
		what := "store-overtakes-reader"
		if !store {
			what = "revert-overtakes-reader"
		}
		s := step{fmt.Sprintf("%s(block %d, by hash %v, head reader %v) after read", what, b, byHash, headReader), k}
		c := &checker{r: r, idx: idx, backend: backend, steps: append(append([]step{}, done...), s), ps: ps,
			builder: map[bool]string{false: "legacy", true: "new"}[builderNew]}
		if !newState {
			// one root cause (legacy readers work on the live database, not on a snapshot): every
			// wrong answer of an overtaken legacy reader is the same finding
			c.collapse = classLegacyOvertaken
		}
		view := "overtaken-number"
		if byHash {
			view = "overtaken-hash"
		}
		read := func() {
			var sr core.StateReader
			var closer func() error
			var err error
			if headReader {
				sr, closer, err = node.BC.HeadState()
				if err != nil {
					c.fail("unexpected-error", "overtaken-head", b, head, "open", nil, nil, "state reader", err.Error())
					return
				}
				for i := range ps.contracts {
					_, _ = sr.ContractNonce(&ps.contracts[i])
					c.reads++
				}
				closer()
				return
			}
			if byHash {
				sr, closer, err = node.BC.StateAtBlockHash(full.Blocks[b].Block.Hash)
			} else {
				sr, closer, err = node.BC.StateAtBlockNumber(b)
			}
			if err != nil {
				c.fail("unexpected-error", view, b, head, "open", nil, nil, "state reader", err.Error())
				return
			}
			c.checkView(view, b, head, sr, full.States[b], prev)
			closer()
		}
		var werr error
		write := func() {
			if store {
				werr = node.StoreBlk(full.Blocks[height])
			} else {
				werr = node.BC.RevertHead()
			}
		}
		if t%2 == 0 {
			// choose the position among the reads this very query performs (a dry run counts them)
			nreads := 0
			rec.SetOnRead(func([]byte) { nreads++ })
			read() // an undisturbed query: judged like any other
			rec.SetOnRead(nil)
			if nreads > 0 {
				k = 1 + rng.IntN(nreads)
			}
		}
		// directed position (half of the trials that have one): right after the reader fetched the
		// record of a class the block being reverted / stored declares - whatever the reader does
		// with that record afterwards (e.g. put it into a cache shared by all readers) happens after
		// the write has completed
		at := func(n int, _ []byte) bool { return n == k }
		var target *chain.Blk
		if store {
			target = full.Blocks[height]
		} else {
			target = full.Blocks[height-1]
		}
		if len(target.Classes) > 0 && rng.IntN(2) == 0 && !headReader {
			var keys [][]byte
			for h := range target.Classes {
				hh := h
				keys = append(keys, db.ClassKey(&hh))
			}
			sort.Slice(keys, func(i, j int) bool { return bytes.Compare(keys[i], keys[j]) < 0 })
			want := keys[rng.IntN(len(keys))]
			at = func(_ int, key []byte) bool { return bytes.Equal(key, want) }
			r.Count("overtaken.trials_aimed_at_the_record_of_a_class_the_written_block_declares", 1)
		}
		fired, inside := rec.OvertakeAt(at, 300*time.Millisecond, read, write)
		if !fired {
			write()
			r.Count("overtaken.reader_finished_before_the_chosen_read", 1)
		} else {
			r.Count("overtaken.readers_overtaken_by:"+what, 1)
			if !inside {
				r.Count("overtaken.write_had_to_wait_for_the_reader(lock)", 1)
			}
		}
		r.Eval(c.reads)
		r.Count("overtaken.point_reads", c.reads)
		if werr != nil {
			// a valid block refused / a revert refused: the overlapping reader (of this or an earlier
			// trial) has confused the node
			r.Violation(fmt.Sprintf("%s:overtaken:%s-refused", backend, map[bool]string{true: "valid-block", false: "revert"}[store]), idx,
				fmt.Sprintf("%s node: %s of block %d refused after readers overlapped earlier writes: %v", backend, map[bool]string{true: "store", false: "revert"}[store], height-1+map[bool]int{true: 1, false: 0}[store], werr),
				map[string]any{"steps": append(append([]step{}, done...), s), "error": werr.Error()})
			return
		}
		if store {
			height++
		} else {
			height--
		}
		done = append(done, s)
		// the quiescent node after the overlap: head view and the by-number view of the new head
		// (a reader that overlapped the write must not have left anything behind - a cache entry,
		// a memoised head - that later readers are served)
		if fired && height > 0 {
			q := &checker{r: r, idx: idx, backend: backend, steps: append([]step{}, done...), ps: ps, builder: c.builder}
			nh := uint64(height - 1)
			if sr, closer, err := node.BC.HeadState(); err != nil {
				q.fail("unexpected-error", "head-after-overlap", nh, nh, "open", nil, nil, "state reader", err.Error())
			} else {
				q.checkView("head-after-overlap", nh, nh, sr, full.States[nh], prev)
				closer()
			}
			if sr, closer, err := node.BC.StateAtBlockNumber(nh); err != nil {
				q.fail("unexpected-error", "number-after-overlap", nh, nh, "open", nil, nil, "state reader", err.Error())
			} else {
				q.checkView("number-after-overlap", nh, nh, sr, full.States[nh], prev)
				closer()
			}
			r.Eval(q.reads)
			r.Count("overtaken.quiescent_rechecks_after_an_overlap", 1)
		}
	}
	r.Count("overtaken.histories", 1)
	r.Case(fmt.Sprintf("overtaken/%s/%v/%s", backend, done, full.Tip().Block.Hash.String()))
}

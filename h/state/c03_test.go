package vstate

import (
	"sort"
	"fmt"
	"strings"
	"math/rand/v2"
	"testing"

	"github.com/NethermindEth/juno/core"
	"github.com/NethermindEth/juno/core/felt"
	"github.com/NethermindEth/juno/verifh/lib"
	"github.com/NethermindEth/juno/verifh/lib/chain"
)

// history step kinds
type step struct {
	Kind string // "grow" | "revert"
	N    int
}

type witness struct {
	Backend  string
	View     string // head | number | hash
	Block    uint64
	Head     uint64
	Query    string
	Addr     string
	Key      string
	Expected string
	Got      string
	Steps    []step
	Builder  string
}

type probeSet struct {
	contracts []felt.Felt
	slots     []felt.Felt
	classes   map[felt.Felt]struct{}
}

func newProbeSet(g *chain.Gen) *probeSet {
	ps := &probeSet{classes: map[felt.Felt]struct{}{}}
	for _, a := range g.Opt.Contracts {
		ps.contracts = append(ps.contracts, *chain.F(a))
	}
	// system contracts and two addresses nothing ever deploys (one a last-bit sibling)
	for _, a := range []uint64{1, 2, 0x300, g.Opt.Contracts[0] ^ 1 ^ 0x40} {
		ps.contracts = append(ps.contracts, *chain.F(a))
	}
	seen := map[uint64]bool{}
	for _, s := range g.Opt.Slots {
		for _, x := range []uint64{s, s ^ 1} {
			if !seen[x] {
				seen[x] = true
				ps.slots = append(ps.slots, *chain.F(x))
			}
		}
	}
	ps.slots = append(ps.slots, *chain.F(0), *chain.F(0x123456789))
	ps.classes[*chain.F(0xdead)] = struct{}{}
	return ps
}

func (ps *probeSet) sortedClasses() []felt.Felt {
	out := make([]felt.Felt, 0, len(ps.classes))
	for h := range ps.classes {
		out = append(out, h)
	}
	sort.Slice(out, func(i, j int) bool { return out[i].Cmp(&out[j]) < 0 })
	return out
}

type checker struct {
	r       *lib.Run
	idx     int
	backend string
	builder string
	steps   []step
	ps      *probeSet
	reads   int
	nontriv int
	// collapse: wrong ANSWERS (not errors) of this checker are one finding with one root cause
	collapse string
}

func (c *checker) fail(kind, view string, block, head uint64, query string, addr, key *felt.Felt, exp, got string) {
	w := witness{Backend: c.backend, View: view, Block: block, Head: head, Query: query, Expected: exp, Got: got,
		Steps: append([]step{}, c.steps...), Builder: c.builder}
	if addr != nil {
		w.Addr = addr.String()
	}
	if key != nil {
		w.Key = key.String()
	}
	class := fmt.Sprintf("%s:%s:%s:%s", c.backend, view, query, kind)
	if c.collapse != "" && kind != "unexpected-error" {
		class = c.collapse
	}
	c.r.Violation(class, c.idx, fmt.Sprintf("%s %s-view block %d (head %d) %s addr=%s key=%s: expected %s, got %s",
		c.backend, view, block, head, query, w.Addr, w.Key, exp, got), w)
}

// compare one state view with the model state `st` (state after block `block`).
func (c *checker) checkView(view string, block, head uint64, sr core.StateReader, st *chain.State, prevVals func(a, k felt.Felt) bool) {
	for i := range c.ps.contracts {
		addr := &c.ps.contracts[i]
		mc, exists := st.Contracts[*addr]
		// class hash
		ch, err := sr.ContractClassHash(addr)
		c.reads++
		switch {
		case exists && !mc.System:
			c.nontriv++
			if err != nil {
				c.fail("unexpected-error", view, block, head, "class_hash", addr, nil, mc.Class.String(), "error: "+err.Error())
			} else if !ch.Equal(&mc.Class) {
				c.fail("wrong-value", view, block, head, "class_hash", addr, nil, mc.Class.String(), ch.String())
			}
		case !exists:
			if err == nil {
				c.fail("missing-not-found", view, block, head, "class_hash", addr, nil, "not found", ch.String())
			}
		default:
			// system contract 0x1/0x2 that has been written: it exists (its leaf - class hash 0, nonce 0,
			// storage root - is part of the state commitment) without a class, so the value is zero.
			// Every view of both implementations answers (0, nil); "not found" here would make the
			// contract's storage readable while the contract itself is reported as absent.
			c.r.Count("system_contract_class_hash_reads", 1)
			if err != nil {
				c.fail("unexpected-error", view, block, head, "class_hash", addr, nil, "0 (system contract that has storage)", "error: "+err.Error())
			} else if !ch.IsZero() {
				c.fail("wrong-value", view, block, head, "class_hash", addr, nil, "0", ch.String())
			}
		}
		// nonce
		nv, err := sr.ContractNonce(addr)
		c.reads++
		switch {
		case exists && !mc.System:
			if err != nil {
				c.fail("unexpected-error", view, block, head, "nonce", addr, nil, mc.Nonce.String(), "error: "+err.Error())
			} else if !nv.Equal(&mc.Nonce) {
				c.fail("wrong-value", view, block, head, "nonce", addr, nil, mc.Nonce.String(), nv.String())
			}
		case !exists:
			if err == nil {
				c.fail("missing-not-found", view, block, head, "nonce", addr, nil, "not found", nv.String())
			}
		default:
			if err != nil {
				c.fail("unexpected-error", view, block, head, "nonce", addr, nil, "0 (system contract that has storage)", "error: "+err.Error())
			} else if !nv.IsZero() {
				c.fail("wrong-value", view, block, head, "nonce", addr, nil, "0", nv.String())
			}
		}
		// storage
		for j := range c.ps.slots {
			key := &c.ps.slots[j]
			sv, err := sr.ContractStorage(addr, key)
			c.reads++
			if !exists {
				// storage of a contract that does not exist at that block: never a value. A historical
				// view must report not-found (both implementations do - also for the system contracts
				// 0x1/0x2 before their first write and after that write was reverted); the head view
				// answers zero on both implementations (the RPC layer adds the existence check), which
				// is accepted there.
				switch {
				case err == nil && !sv.IsZero():
					c.fail("wrong-value", view, block, head, "storage", addr, key, "0 or not found", sv.String())
				case err == nil && !strings.HasPrefix(view, "head"):
					c.fail("missing-not-found", view, block, head, "storage", addr, key, "not found (contract does not exist at that block)", sv.String())
				}
				continue
			}
			want := mc.Storage[*key] // zero value when unset
			if !want.IsZero() {
				c.nontriv++
			}
			if err != nil {
				c.fail("unexpected-error", view, block, head, "storage", addr, key, want.String(), "error: "+err.Error())
			} else if !sv.Equal(&want) {
				kind := "wrong-value"
				if want.IsZero() && prevVals != nil && prevVals(*addr, *key) {
					kind = "stale-value-after-zero-write"
				}
				c.fail(kind, view, block, head, "storage", addr, key, want.String(), sv.String())
			}
		}
	}
	for _, h := range c.ps.sortedClasses() { // fixed order: the k-th read of a query is the same read in every run
		hh := h
		ci, declared := st.Classes[hh]
		dc, err := sr.Class(&hh)
		c.reads++
		if declared {
			c.nontriv++
			if err != nil {
				c.fail("unexpected-error", view, block, head, "class", &hh, nil, fmt.Sprintf("declared at %d", ci.DeclaredAt), "error: "+err.Error())
			} else if dc.At != ci.DeclaredAt {
				c.fail("wrong-value", view, block, head, "class", &hh, nil, fmt.Sprintf("declared at %d", ci.DeclaredAt), fmt.Sprintf("declared at %d", dc.At))
			} else {
				_, gotSierra := dc.Class.(*core.SierraClass)
				if gotSierra != ci.Sierra {
					c.fail("wrong-value", view, block, head, "class", &hh, nil, fmt.Sprintf("sierra=%v", ci.Sierra), fmt.Sprintf("sierra=%v", gotSierra))
				} else if gotSierra {
					if gh, _ := dc.Class.Hash(); !gh.Equal(&hh) {
						c.fail("wrong-value", view, block, head, "class", &hh, nil, "definition hashing to its key", gh.String())
					}
				}
			}
		} else if err == nil {
			c.fail("missing-not-found", view, block, head, "class", &hh, nil, "not found", fmt.Sprintf("declared at %d", dc.At))
		}
		// compiled class hashes (Sierra only)
		sh := felt.SierraClassHash(hh)
		cv, err := sr.CompiledClassHash(&sh)
		c.reads++
		if declared && ci.Sierra && ci.ActiveCasm() != nil {
			want := ci.ActiveCasm()
			if err != nil {
				c.fail("unexpected-error", view, block, head, "compiled_class_hash", &hh, nil, want.String(), "error: "+err.Error())
			} else if !(*felt.Felt)(&cv).Equal(want) {
				c.fail("wrong-value", view, block, head, "compiled_class_hash", &hh, nil, want.String(), (*felt.Felt)(&cv).String())
			}
		} else if !declared && err == nil {
			c.fail("missing-not-found", view, block, head, "compiled_class_hash", &hh, nil, "not found", (*felt.Felt)(&cv).String())
		}
		cv2, err := sr.CompiledClassHashV2(&sh)
		c.reads++
		if declared && ci.Sierra && ci.CasmV2 != nil && err == nil {
			if !(*felt.Felt)(&cv2).Equal(ci.CasmV2) {
				c.fail("wrong-value", view, block, head, "compiled_class_hash_v2", &hh, nil, ci.CasmV2.String(), (*felt.Felt)(&cv2).String())
			}
		}
	}
}

func runHistory(r *lib.Run, idx int) {
	rng := lib.Rng("C03/history", uint64(idx))
	opts := chain.Opts{NoNoopZero: lib.Avoid("noop-zero-write")}
	if rng.IntN(3) == 0 {
		// concentrate on two sibling contracts and sibling slots: every history-encoding boundary
		opts.Contracts = []uint64{0x100, 0x101}
		opts.Slots = []uint64{2, 3}
		opts.NoClasses = rng.IntN(2) == 0
	}
	g := chain.NewGen(rng, opts)
	builderNew := rng.IntN(2) == 1
	ps := newProbeSet(g)
	maxLen := 14
	if !r.Quick() {
		maxLen = 14 + rng.IntN(40)
	}

	// the script
	var steps []step
	steps = append(steps, step{"grow", 2 + rng.IntN(6)})
	for i := 0; i < 2+rng.IntN(4); i++ {
		if rng.IntN(2) == 0 {
			steps = append(steps, step{"revert", 1 + rng.IntN(4)})
		}
		steps = append(steps, step{"grow", 1 + rng.IntN(5)})
	}

	nodes := map[string]*chain.Node{"legacy": chain.NewMemNode(false), "new": chain.NewMemNode(true)}
	cur := &chain.Chain{}
	builder := chain.NewBuilder(builderNew)
	var done []step
	stuck := map[string]bool{}
	// every (contract, slot) value ever written on any fork, to classify stale reads
	ever := map[[2]felt.Felt]bool{}

	// readers opened before a step and read after it: a reader for block b obtained by number
	// or hash keeps answering for block b while the chain moves on (RPC handlers hold their
	// reader while the synchroniser stores and reverts). Only readers whose block is still
	// canonical after the step are judged.
	type heldReader struct {
		node, view string
		b          uint64
		hash       felt.Felt
		sr         core.StateReader
		closer     func() error
	}
	for _, s := range steps {
		var held []heldReader
		if cur.Len() > 0 {
			head := uint64(cur.Len() - 1)
			bs := map[uint64]bool{head: true, uint64(rng.IntN(cur.Len())): true}
			if head > 0 {
				bs[head-1] = true
			}
			for name, n := range nodes {
				if stuck[name] {
					continue
				}
				for b := range bs {
					if sr, closer, err := n.BC.StateAtBlockNumber(b); err == nil {
						held = append(held, heldReader{name, "held-number", b, *cur.Blocks[b].Block.Hash, sr, closer})
					}
					if sr, closer, err := n.BC.StateAtBlockHash(cur.Blocks[b].Block.Hash); err == nil {
						held = append(held, heldReader{name, "held-hash", b, *cur.Blocks[b].Block.Hash, sr, closer})
					}
				}
			}
		}
		readHeld := func() {
			for _, h := range held {
				if !stuck[h.node] && int(h.b) < cur.Len() && cur.Blocks[h.b].Block.Hash.Equal(&h.hash) {
					c := &checker{r: r, idx: idx, backend: h.node, steps: append(append([]step{}, done...), s), ps: ps, builder: map[bool]string{false: "legacy", true: "new"}[builderNew]}
					c.checkView(h.view, h.b, uint64(cur.Len()-1), h.sr, cur.States[h.b], func(a, k felt.Felt) bool { return ever[[2]felt.Felt{a, k}] })
					r.Eval(c.reads)
					r.Count("point_reads_through_readers_held_across_a_step", c.reads)
					r.Count("readers_held_across_a_step:"+s.Kind, 1)
				}
				h.closer()
			}
			held = nil
		}
		switch s.Kind {
		case "grow":
			if cur.Len()+s.N > maxLen {
				s.N = maxLen - cur.Len()
			}
			if s.N <= 0 {
				readHeld()
				continue
			}
			from := cur.Len()
			if err := g.Extend(cur, builder, s.N); err != nil {
				r.Violation("generator:builder-rejects-valid-block", idx, err.Error(), map[string]any{"steps": done, "builderNew": builderNew})
				return
			}
			for _, blk := range cur.Blocks[from:] {
				for h := range blk.Classes {
					ps.classes[h] = struct{}{}
				}
				for a, m := range blk.SU.StateDiff.StorageDiffs {
					for k := range m {
						ever[[2]felt.Felt{a, k}] = true
					}
				}
				for name, n := range nodes {
					if stuck[name] {
						continue
					}
					if err := n.StoreBlk(blk); err != nil {
						r.Violation(name+":valid-block-rejected", idx, fmt.Sprintf("%s node rejects valid block %d: %v", name, blk.Number(), err),
							map[string]any{"steps": done, "builderNew": builderNew, "block": blk.Number(), "err": err.Error()})
						stuck[name] = true
					}
				}
			}
		case "revert":
			if s.N > cur.Len() {
				s.N = cur.Len()
			}
			if s.N == 0 {
				readHeld()
				continue
			}
			for name, n := range nodes {
				if stuck[name] {
					continue
				}
				for i := 0; i < s.N; i++ {
					if err := n.BC.RevertHead(); err != nil {
						// RevertHead failing is C04's business; this history cannot continue on that node
						r.Count("revert_errors_seen(C04 territory)", 1)
						stuck[name] = true
						break
					}
				}
			}
			cur = cur.Prefix(cur.Len() - s.N)
			var err error
			builder, err = chain.BuilderAt(cur, cur.Len(), builderNew)
			if err != nil {
				r.Violation("generator:builder-rejects-valid-block", idx, err.Error(), map[string]any{"steps": done})
				return
			}
		}
		readHeld()
		done = append(done, s)
		if cur.Len() == 0 {
			continue
		}
		head := uint64(cur.Len() - 1)
		for name, n := range nodes {
			if stuck[name] {
				continue
			}
			c := &checker{r: r, idx: idx, backend: name, steps: done, ps: ps, builder: map[bool]string{false: "legacy", true: "new"}[builderNew]}
			prev := func(a, k felt.Felt) bool { return ever[[2]felt.Felt{a, k}] }
			// head view
			sr, closer, err := n.BC.HeadState()
			if err != nil {
				c.fail("unexpected-error", "head", head, head, "open", nil, nil, "state reader", err.Error())
			} else {
				c.checkView("head", head, head, sr, cur.States[head], prev)
				closer()
			}
			// historical views, by number and by hash
			for b := uint64(0); b <= head; b++ {
				if sr, closer, err := n.BC.StateAtBlockNumber(b); err != nil {
					c.fail("unexpected-error", "number", b, head, "open", nil, nil, "state reader", err.Error())
				} else {
					c.checkView("number", b, head, sr, cur.States[b], prev)
					closer()
				}
				if sr, closer, err := n.BC.StateAtBlockHash(cur.Blocks[b].Block.Hash); err != nil {
					c.fail("unexpected-error", "hash", b, head, "open", nil, nil, "state reader", err.Error())
				} else {
					c.checkView("hash", b, head, sr, cur.States[b], prev)
					closer()
				}
			}
			r.Eval(c.reads)
			r.Count("point_reads", c.reads)
			r.Count("point_reads_with_nonzero_or_existing_expectation", c.nontriv)
			r.Count("views_checked:"+name, int(2*(head+1)+1))
		}
	}
	reverts := 0
	for _, s := range done {
		if s.Kind == "revert" {
			reverts++
		}
	}
	r.Count("histories", 1)
	r.Count("reverts_in_histories", reverts)
	if cur.Len() > 0 {
		r.Case(fmt.Sprintf("%v-%s", done, cur.Tip().Block.Hash.String()))
	}
	if idx < 2 {
		r.Sample(map[string]any{"case": idx, "steps": done, "final_height": cur.Len() - 1, "builder_new_state": builderNew,
			"contracts": len(cur.TipState().Contracts), "classes": len(cur.TipState().Classes)})
	}
}

func TestC03(t *testing.T) {
	r := lib.Start("C03", "exploration")
	n := r.N(60, 1500)
	r.Cases(n, 0, func(idx int) { runHistory(r, idx) })
	r.Cases(r.N(120, 3000), 0, func(idx int) { runOvertaken(r, idx) })
	r.Assume("the reference model interprets a state diff as the Starknet specification does (deploy, replace, nonce, storage with zero = unset, declare, CASM migration)")
	r.Assume("storage reads of a contract that does not exist may answer zero or not-found (never a value); system contracts 0x1/0x2 that have been written report class hash / nonce zero")
	r.Finish("case = random history (grow / revert / regrow on a different fork, 2-6 segments, chains up to 14 (quick) or 54 (thorough) blocks, all block formats) stored on a legacy and a new-state node; "+
		"after every segment every block<=head is queried by number, by hash and at head for every contract (incl. never-deployed and system), slot (incl. last-bit neighbours, never-written), "+
		"class (incl. undeclared) and compared with a map-based model; distinct = distinct (script, tip hash)", 20)
}

var _ = rand.New

package vpreconf

import (
	"fmt"
	"math/rand/v2"
	"os"
	"runtime/debug"
	"strconv"
	"strings"
	"testing"

	"github.com/NethermindEth/juno/core"
	"github.com/NethermindEth/juno/core/felt"
	"github.com/NethermindEth/juno/core/pending"
	"github.com/NethermindEth/juno/sync/preconfirmed"
	"github.com/NethermindEth/juno/verifh/lib"
)

const rehashAfterOps = 50

// case ids of the concurrent / poller modes (replay files carry them)
const (
	concBase = 1_000_000
	pollBase = 2_000_000
)

const ruleText = "case = one seeded run against the real preconfirmed.ChainStorage over a real Blockchain (memory DB): " +
	"(sequential) a 70-130 step writer script of ApplyUpdate (full block: bootstrap / append / same round richer / not richer / blank identifier / new round at or below tip / gap / below oldest / misaligned; delta: at tip / wrong base / below tip / other identifier / new slot / skipped offset; no-change with / without / already-held classes) built as feeder wire JSON and decoded by starknet.DecodePreConfirmedUpdate, AdvanceTo, canonical head +1 / -1 - after every step: outcome and stored chain vs the sequential model, SnapshotForBlock(head+1) and an older alignment checked for contiguity, content, exact transaction / receipt lookup, PreConfirmedStateAt reads vs canonical reference state overlaid with the view's diffs in order, structural hash re-taken across the next operation and after >= 50 further operations; " +
	"(concurrent) the same kind of script run by one writer goroutine while 4 readers take head-aligned views: same view oracles, overlay judged only when the head did not move during the read, published chain linearizable against the script (porcupine); " +
	"(poller) the real Poller fed by a scripted sequencer (full / delta / no-change answers, backfill, class fetches, new rounds, gateway errors) with head moves between ticks and 3 readers. " +
	"distinct = distinct (mode, operation/outcome sequence) with a stored chain of >= 2 blocks and at least one non-empty head-aligned view"

func feltClasses(m map[string]core.ClassDefinition) map[felt.Felt]core.ClassDefinition {
	if m == nil {
		return nil
	}
	out := make(map[felt.Felt]core.ClassDefinition, len(m))
	for k, v := range m {
		out[*fs(k)] = v
	}
	return out
}

// witness is what a replay file carries for a violated case.
type witness struct {
	Mode   string   `json:"mode"`
	Step   int      `json:"step"`
	Detail string   `json:"detail"`
	Script []string `json:"script_up_to_step"`
	Extra  any      `json:"extra,omitempty"`
}

// execStorageOp runs one storage operation of the script on the real
// ChainStorage and reports the observed outcome.
func execStorageOp(storage *preconfirmed.ChainStorage, o *op) (out outcome, affected *pending.PreConfirmed, opErr error, harnessErr error) {
	if o.Kind == opAdvance {
		if storage.AdvanceTo(o.Oldest) {
			return outApplied, nil, nil, nil
		}
		return outNoop, nil, nil, nil
	}
	update, _, err := decode(o.wire)
	if err != nil {
		return outError, nil, nil, fmt.Errorf("production decoder rejected generated %s JSON: %w", o.Kind, err)
	}
	affected, err = storage.ApplyUpdate(update, o.Num, o.Base, o.Oldest, feltClasses(o.Classes))
	switch {
	case err != nil:
		return outError, nil, err, nil
	case affected == nil:
		return outNoop, nil, nil, nil
	}
	return outApplied, affected, nil, nil
}

type heldView struct {
	view    preconfirmed.ChainReader
	hash    string
	step    int
	first   uint64
	blocks  mChain
	baseID  uint64
	base    *absState // canonical state the view was aligned to, as of its acquisition
	same    bool // same entry objects as the previous step's view (hash reused)
}

type seqRun struct {
	r       *lib.Run
	idx     int
	mode    string
	s       *script
	real    *canonReal
	storage *preconfirmed.ChainStorage
	rng     *rand.Rand
	held    []*heldView
	failed  bool
	// entries of the views fully checked since the last state change, by (first
	// slot, with/without overlay): a later step that changed nothing and sees the very same entry
	// objects needs no second content / lookup / overlay pass
	seen map[uint64][]*pending.PreConfirmed
}

func (q *seqRun) violate(class string, stepIdx int, detail string, extra any) {
	q.failed = true
	q.r.Violation(class, q.idx, fmt.Sprintf("%s step %d (%s): %s", q.mode, stepIdx, q.s.Steps[stepIdx].Op.Tag, detail),
		witness{Mode: q.mode, Step: stepIdx, Detail: detail, Script: q.s.describe(stepIdx), Extra: extra})
}

func modelMerged(b *mBlock) *absDiff { return b.merged() }

// checkView runs every view-level oracle on SnapshotForBlock(first) against
// the model suffix; overlayBlocks selects which blocks get an overlay check.
func (q *seqRun) checkView(stepIdx int, first uint64, want mChain, canon []*canonBlock, withOverlay bool) *preconfirmed.ChainReader {
	view := q.storage.SnapshotForBlock(first)
	q.r.Eval(1)
	q.r.Count("views_taken", 1)
	entries, problem := checkContiguity(&view, first)
	if problem != "" {
		q.violate("contiguity:"+problemClass(problem), stepIdx, fmt.Sprintf("SnapshotForBlock(%d): %s", first, problem), nil)
		return nil
	}
	if len(entries) != len(want) {
		q.violate("snapshot:wrong-range", stepIdx, fmt.Sprintf("SnapshotForBlock(%d) has %d blocks, model chain %s gives %d", first, len(entries), chainShape(q.s.Steps[stepIdx].After), len(want)), nil)
		return nil
	}
	if len(want) == 0 {
		q.r.Count("views_empty", 1)
		return &view
	}
	seenKey := first * 2
	if withOverlay {
		seenKey++
	}
	if prev, ok := q.seen[seenKey]; ok && len(prev) == len(entries) {
		same := true
		for i := range prev {
			same = same && prev[i] == entries[i]
		}
		if same {
			q.r.Count("views_identical_to_already_checked_view", 1)
			return &view
		}
	}
	q.seen[seenKey] = entries
	q.r.Count(fmt.Sprintf("view_length_%d", min(len(want), 6)), 1)
	if len(want) >= 17 {
		q.r.Count("views_of_17_or_more_blocks", 1)
	}
	for i, e := range entries {
		if p := compareEntry(e, want[i]); p != "" {
			q.violate("content:"+problemClass(p), stepIdx, fmt.Sprintf("view from %d: %s", first, p), nil)
			return nil
		}
	}
	// lookups: everything in the view, plus a sample of hashes the script knows
	var others []string
	for k := 0; k < 10 && len(q.s.AllTx) > 0; k++ {
		others = append(others, q.s.AllTx[q.rng.IntN(len(q.s.AllTx))])
	}
	others = append(others, hx(0xdeadbeef))
	n, lp := checkLookups(&view, want, others)
	q.r.Count("lookups", n)
	if lp != "" {
		q.violate("lookup:"+problemClass(lp), stepIdx, lp, nil)
		return nil
	}
	// blocks outside the view are not served
	for _, bn := range []uint64{first - 1, want.tip() + 1} {
		if _, _, err := view.PreConfirmedStateAt(bn, q.real.bc); err == nil {
			q.violate("overlay:state-outside-view", stepIdx, fmt.Sprintf("PreConfirmedStateAt(%d) succeeded on a view covering [%d,%d]", bn, first, want.tip()), nil)
			return nil
		}
	}
	if withOverlay && first >= 1 && int(first-1) < len(canon) {
		base := canon[first-1].State
		targets := []int{len(want) - 1}
		if len(want) > 1 {
			targets = append(targets, q.rng.IntN(len(want)-1))
		}
		for _, ti := range targets {
			ov := newOverlay(base, want, ti, modelMerged)
			reads, mm, err := checkOverlay(&view, q.real.bc, q.s.U, ov, want[ti].Number, q.rng)
			q.r.Count("overlay_reads", reads)
			q.r.Count("overlay_states_opened", 1)
			if err != nil {
				q.violate("overlay:state-unavailable", stepIdx, fmt.Sprintf("PreConfirmedStateAt(%d) on a view aligned to canonical block %d: %v", want[ti].Number, first-1, err), nil)
				return nil
			}
			if mm != nil {
				q.violate("overlay:"+strings.Fields(mm.What)[0], stepIdx,
					fmt.Sprintf("view [%d,%d] over canonical block %d: %s at block %d reads %s, overlay of the view's diffs in order gives %s",
						first, want.tip(), first-1, mm.What, mm.Block, mm.Got, mm.Want), mm)
				return nil
			}
		}
	}
	return &view
}

func (q *seqRun) recheckHeld(stepIdx int, hv *heldView, canon []*canonBlock, final bool) {
	q.r.Eval(1)
	if _, problem := checkContiguity(&hv.view, hv.first); problem != "" {
		q.violate("immutability:held-view-"+problemClass(problem), stepIdx,
			fmt.Sprintf("view taken at step %d (from %d, %d blocks) re-walked %d writer operations later: %s", hv.step, hv.first, len(hv.blocks), stepIdx-hv.step, problem), nil)
		return
	}
	if h2 := viewHash(&hv.view); h2 != hv.hash {
		q.violate("immutability:view-hash-changed", stepIdx,
			fmt.Sprintf("view taken at step %d (from %d, %d blocks) has structural hash %s after %d more writer operations, was %s", hv.step, hv.first, len(hv.blocks), h2, stepIdx-hv.step, hv.hash), nil)
		return
	}
	if stepIdx-hv.step >= rehashAfterOps {
		q.r.Count("held_views_rehashed_after_50+_ops", 1)
	} else {
		q.r.Count("held_views_rehashed_at_script_end_<50_ops", 1)
	}
	// the overlay still holds for an old view as long as the canonical block it
	// was aligned to is still the same block
	if len(hv.blocks) > 0 && int(hv.first-1) < len(canon) && canon[hv.first-1].ID == hv.baseID && q.rng.IntN(3) == 0 {
		ti := len(hv.blocks) - 1
		ov := newOverlay(canon[hv.first-1].State, hv.blocks, ti, modelMerged)
		reads, mm, err := checkOverlay(&hv.view, q.real.bc, q.s.U, ov, hv.blocks[ti].Number, q.rng)
		q.r.Count("overlay_reads", reads)
		q.r.Count("overlay_states_opened_on_old_views", 1)
		if err != nil {
			q.violate("overlay:state-unavailable-old-view", stepIdx, fmt.Sprintf("view taken at step %d aligned to still-canonical block %d: %v", hv.step, hv.first-1, err), nil)
		} else if mm != nil {
			q.violate("overlay:old-view:"+strings.Fields(mm.What)[0], stepIdx,
				fmt.Sprintf("view taken at step %d [%d,%d]: %s at block %d reads %s, want %s", hv.step, hv.first, hv.blocks.tip(), mm.What, mm.Block, mm.Got, mm.Want), mm)
		}
	}
}

// runSequential: model-based, every step compared.
func runSequential(r *lib.Run, idx int) {
	rng := lib.Rng("C20/seq", uint64(idx))
	s := genScript(rng, 70+rng.IntN(60))
	q := &seqRun{r: r, idx: idx, mode: "sequential", s: s, real: newCanonReal(), storage: preconfirmed.NewChainStorage(), rng: rng, seen: map[uint64][]*pending.PreConfirmed{}}
	for _, d := range s.Genesis {
		if err := q.real.advance(d); err != nil {
			r.Inconclusive("canonical-chain-build-failed")
			r.Note(err.Error())
			return
		}
	}
	var shape strings.Builder
	maxLen, overlays := 0, 0
	for i, st := range s.Steps {
		o := st.Op
		switch o.Kind {
		case opHeadUp:
			if err := q.real.advance(o.Canon); err != nil {
				r.Inconclusive("canonical-chain-advance-failed")
				r.Note(err.Error())
				return
			}
		case opHeadDown:
			if err := q.real.revert(); err != nil {
				r.Inconclusive("canonical-chain-revert-failed")
				r.Note(err.Error())
				return
			}
		default:
			out, affected, opErr, hErr := execStorageOp(q.storage, o)
			if hErr != nil {
				r.Inconclusive("generated-update-not-decodable")
				r.Note(hErr.Error())
				return
			}
			r.Eval(1)
			if out != st.Out {
				q.violate(fmt.Sprintf("model:outcome:%s:want-%s-got-%s", o.Tag, st.Out, out), i,
					fmt.Sprintf("documented contract gives %s (%s), storage answered %s (err=%v)", st.Out, st.Why, out, opErr), nil)
				return
			}
			if st.Affected != nil && o.Kind != opAdvance {
				if p := compareEntry(affected, st.Affected); p != "" {
					q.violate("content:returned-entry:"+problemClass(p), i, "entry returned by ApplyUpdate: "+p, nil)
					return
				}
			}
		}
		r.Count("steps", 1)
		r.Count(fmt.Sprintf("op:%s:%s", o.Tag, st.Out), 1)
		fmt.Fprintf(&shape, "%s/%d;", o.Tag, st.Out)

		h := q.real.height()
		if bh, err := q.real.bc.Height(); err != nil || bh != h {
			r.Inconclusive("canonical-height-mismatch")
			return
		}
		chain := st.After
		if st.Out == outApplied {
			q.seen = map[uint64][]*pending.PreConfirmed{}
		}
		// (1) the whole stored chain against the model
		if len(chain) > 0 {
			if q.checkView(i, chain.oldest(), chain, st.Canon, false) == nil {
				return
			}
			for _, x := range []uint64{chain.oldest() - 1, chain.tip() + 1, chain.tip() + 2} {
				if v := q.storage.SnapshotForBlock(x); v.Length() != 0 {
					q.violate("snapshot:wrong-range", i, fmt.Sprintf("SnapshotForBlock(%d) returned %d blocks, stored chain is %s", x, v.Length(), chainShape(chain)), nil)
					return
				}
			}
			maxLen = max(maxLen, len(chain))
		} else {
			for _, x := range []uint64{h, h + 1, h + 2} {
				if v := q.storage.SnapshotForBlock(x); v.Length() != 0 {
					q.violate("snapshot:wrong-range", i, fmt.Sprintf("SnapshotForBlock(%d) returned %d blocks, stored chain is empty", x, v.Length()), nil)
					return
				}
			}
		}
		// (2) the reader's view: aligned to the canonical head
		view := q.checkView(i, h+1, chain.suffix(h+1), st.Canon, true)
		if view == nil {
			return
		}
		if view.Length() > 0 {
			overlays++
		}
		hv := &heldView{view: *view, step: i, first: h + 1, blocks: chain.suffix(h + 1), baseID: st.Canon[h].ID, base: st.Canon[h].State}
		if i > 0 && st.Out != outApplied && sameEntries(&q.held[i-1].view, view) {
			hv.hash, hv.same = q.held[i-1].hash, true
		} else {
			hv.hash = viewHash(view)
		}
		q.held = append(q.held, hv)
		// (3) a reader that aligned to an older head (storage not yet re-aligned,
		// or the reader is slow): any in-range slot at or below head+1
		if len(chain) > 0 && chain.oldest() <= h && rng.IntN(2) == 0 {
			x := chain.oldest() + rng.Uint64N(min(h, chain.tip())-chain.oldest()+1)
			if q.checkView(i, x, chain.suffix(x), st.Canon, true) == nil {
				return
			}
			r.Count("views_aligned_to_older_head", 1)
		}
		// (3b) a view held across a revert of the canonical block it is aligned to: that block is
		// gone (the head is below it), so a state read through the old view must be refused - or, if
		// it is answered, be the overlay over the base the view was taken on, never over another block
		if o.Kind == opHeadDown && i >= 1 {
			if prev := q.held[i-1]; prev.view.Length() > 0 && prev.first-1 > h && prev.base != nil {
				ti := len(prev.blocks) - 1
				ov := newOverlay(prev.base, prev.blocks, ti, modelMerged)
				reads, mm, err := checkOverlay(&prev.view, q.real.bc, q.s.U, ov, prev.blocks[ti].Number, q.rng)
				r.Eval(1)
				r.Count("overlay_reads", reads)
				switch {
				case err != nil:
					r.Count("held_views_refusing_state_after_their_base_block_was_reverted", 1)
				case mm != nil:
					q.violate("overlay:held-view-after-revert-of-its-base:"+strings.Fields(mm.What)[0], i,
						fmt.Sprintf("view [%d,%d] taken over canonical block %d; that block was then reverted (head now %d); a state read through the held view is answered: %s at block %d reads %s, the overlay over the view's own base gives %s",
							prev.first, prev.blocks.tip(), prev.first-1, h, mm.What, mm.Block, mm.Got, mm.Want), mm)
					return
				default:
					r.Count("held_views_answering_over_their_own_base_after_it_was_reverted", 1)
				}
			}
		}
		// (4) immutability: the view of the previous step across exactly this
		// operation (pins the mutating operation), and views taken >= 50 writer
		// operations ago
		if i >= 1 {
			if prev := q.held[i-1]; prev.view.Length() > 0 {
				r.Eval(1)
				if h2 := viewHash(&prev.view); h2 != prev.hash {
					q.violate("immutability:view-hash-changed", i,
						fmt.Sprintf("view taken just before this operation (from %d, %d blocks) has structural hash %s after it, was %s", prev.first, len(prev.blocks), h2, prev.hash), nil)
					return
				}
				r.Count("held_views_rehashed_across_next_op", 1)
			}
		}
		if i >= rehashAfterOps && !q.held[i-rehashAfterOps].same {
			q.recheckHeld(i, q.held[i-rehashAfterOps], st.Canon, false)
			if q.failed {
				return
			}
		}
	}
	last := len(s.Steps) - 1
	for k, hv := range q.held {
		if hv.same || k+rehashAfterOps <= last { // same objects as an earlier held view / already re-taken at +50
			continue
		}
		q.recheckHeld(last, hv, s.Steps[last].Canon, true)
		if q.failed {
			return
		}
	}
	if maxLen >= 2 && overlays > 0 {
		r.Case("seq|" + shape.String())
	}
	r.Count("scripts_sequential", 1)
	if idx < 2 {
		r.Sample(map[string]any{"mode": "sequential", "case": idx, "steps": len(s.Steps), "max_chain_length": maxLen,
			"script": s.describe(24), "example_wire_update": exampleWire(s)})
	}
}

func sameEntries(a, b *preconfirmed.ChainReader) bool {
	if a.Length() != b.Length() {
		return false
	}
	var ea []*pending.PreConfirmed
	for e := range a.NewestFirst() {
		ea = append(ea, e)
	}
	i := 0
	for e := range b.NewestFirst() {
		if ea[i] != e {
			return false
		}
		i++
	}
	return true
}

func exampleWire(s *script) string {
	for _, st := range s.Steps {
		if st.Op.Kind == opDelta && len(st.Op.wire) < 6000 {
			return string(st.Op.wire)
		}
	}
	return ""
}

func TestC20(t *testing.T) {
	if _, err := templates(); err != nil {
		t.Fatalf("feeder fixtures not readable: %v", err)
	}
	r := lib.Start("C20", "exploration")
	// replay of one case: the case id carries the mode
	if v := os.Getenv("VERIF_ONLY_CASE"); v != "" {
		if k, err := strconv.Atoi(v); err == nil && k >= 0 {
			func() {
				defer func() {
					if p := recover(); p != nil {
						r.Violation("panic", k, fmt.Sprintf("panic: %v", p), map[string]any{"panic": fmt.Sprint(p), "stack": string(debug.Stack())})
					}
				}()
				switch {
				case k >= pollBase:
					runPoller(r, k-pollBase)
				case k >= concBase:
					runConcurrent(r, k-concBase)
				default:
					runSequential(r, k)
				}
			}()
			r.Finish(ruleText, 0)
			return
		}
	}
	// VERIF_C20_MODES (debugging aid): comma list out of seq,conc,poll
	modes := os.Getenv("VERIF_C20_MODES")
	on := func(m string) bool { return modes == "" || strings.Contains(modes, m) }
	total := 0
	if on("seq") {
		n := r.N(200, 4000)
		total += n
		r.Cases(n, 0, func(idx int) { runSequential(r, idx) })
	}
	if on("conc") {
		n := r.N(32, 300)
		if r.Race { // the interleavings matter most under the race detector
			n = max(n, 6)
		}
		total += n
		r.Cases(n, 4, func(idx int) { runConcurrent(r, idx) })
	}
	if on("spin") {
		n := r.N(8, 60)
		if r.Race {
			n = max(n, 4)
		}
		total += n
		r.Cases(n, 4, func(idx int) { runSpin(r, idx) })
	}
	if on("poll") {
		n := r.N(12, 100)
		if r.Race {
			n = max(n, 2)
		}
		total += n
		r.Cases(n, 4, func(idx int) { runPoller(r, idx) })
	}
	r.Assume("the canonical chain underneath (blockchain.Blockchain head / historical state reads on the memory DB, legacy state) answers correctly - that is C03's subject; here it is only the base of the overlay")
	r.Assume("single writer, as documented for ChainStorage (the poller goroutine); readers are arbitrary")
	r.Assume("feeder wire-format inputs are built from the sepolia pre_confirmed fixtures' transaction / receipt / header objects (invoke v3) plus hand-written L1_HANDLER / DECLARE / DEPLOY_ACCOUNT variants; inputs respect deployment order (a contract is written / replaced only at or after the block that deploys it)")
	r.Assume("Poller mode has no sequential model of the poller: views are judged against their own blocks, which must each be a prefix of a round the scripted sequencer served")
	r.Finish(ruleText, max(1, total/3))
}

package vpreconf

// Poller mode: the real preconfirmed.Poller drives the real ChainStorage from a
// scripted sequencer (DataSource) that answers in feeder wire format, decoded
// by the production decoder; a director goroutine evolves the sequencer and
// moves the canonical head of a real Blockchain between (and, from the
// poller's point of view, during) ticks; readers take head-aligned views at
// arbitrary times. No sequential model of the poller exists here: the
// property is evaluated on each view against the view's own blocks, and every
// block a view holds must be a prefix of a round the sequencer really served.

import (
	"context"
	"errors"
	"fmt"
	"strings"
	stdsync "sync"
	"sync/atomic"
	"time"

	"github.com/NethermindEth/juno/core"
	"github.com/NethermindEth/juno/core/felt"
	"github.com/NethermindEth/juno/core/pending"
	"github.com/NethermindEth/juno/feed"
	"github.com/NethermindEth/juno/starknet"
	"github.com/NethermindEth/juno/sync/preconfirmed"
	"github.com/NethermindEth/juno/utils/log"
	"github.com/NethermindEth/juno/verifh/lib"
)

const simRoundTxs = 9 // transactions pre-generated per round (rounds are immutable once created)

type simSlot struct {
	round   *absRound
	visible int
}

type sequencer struct {
	mu      stdsync.RWMutex
	slots   map[uint64]*simSlot  // current round per pre-confirmed height
	rounds  map[string]*absRound // every round ever created, by "height|identifier"
	latest  uint64
	failNow bool
	defs    map[string]core.ClassDefinition // immutable
	arrive  chan struct{}
	release chan struct{}
	calls   atomic.Int64 // data-source calls answered (evidence)
	kinds   [3]atomic.Int64
}

func roundKey(n uint64, ident string) string { return fmt.Sprintf("%d|%s", n, ident) }

func (s *sequencer) answer(slot *simSlot, ident string, txCount uint64, withNumber bool) (starknet.PreConfirmedUpdate, uint64, error) {
	var js []byte
	switch {
	case ident == slot.round.Ident && int(txCount) == slot.visible:
		js = noChangeJSON()
		s.kinds[0].Add(1)
	case ident == slot.round.Ident && int(txCount) < slot.visible:
		js = slot.round.deltaJSON(int(txCount), slot.visible)
		s.kinds[1].Add(1)
	default:
		js = slot.round.fullJSON(slot.visible, withNumber)
		s.kinds[2].Add(1)
	}
	s.calls.Add(1)
	u, n, err := decode(js)
	if err != nil {
		return nil, 0, fmt.Errorf("HARNESS: generated response not decodable: %w", err)
	}
	return u, n, nil
}

func (s *sequencer) PreConfirmedBlockLatest(ctx context.Context, ident string, txCount uint64) (starknet.PreConfirmedUpdate, uint64, error) {
	select {
	case s.arrive <- struct{}{}:
	case <-ctx.Done():
		return nil, 0, ctx.Err()
	}
	select {
	case <-s.release:
	case <-ctx.Done():
		return nil, 0, ctx.Err()
	}
	s.mu.RLock()
	defer s.mu.RUnlock()
	if s.failNow {
		return nil, 0, errors.New("scripted gateway failure")
	}
	slot := s.slots[s.latest]
	if slot == nil {
		return nil, 0, errors.New("no pre-confirmed block")
	}
	u, _, err := s.answer(slot, ident, txCount, true)
	return u, s.latest, err
}

func (s *sequencer) PreConfirmedBlockByNumber(ctx context.Context, n uint64, ident string, txCount uint64) (starknet.PreConfirmedUpdate, error) {
	s.mu.RLock()
	defer s.mu.RUnlock()
	slot := s.slots[n]
	if slot == nil {
		return nil, fmt.Errorf("pre-confirmed block %d not found", n)
	}
	u, _, err := s.answer(slot, ident, txCount, false)
	return u, err
}

func (s *sequencer) Class(ctx context.Context, h *felt.Felt) (core.ClassDefinition, error) {
	if d, ok := s.defs[h.String()]; ok {
		return d, nil
	}
	return nil, fmt.Errorf("class %s not found", h)
}

type pollShared struct {
	r       *lib.Run
	idx     int
	u       *universe
	seq     *sequencer
	real    *canonReal
	storage *preconfirmed.ChainStorage
	ticks   atomic.Int64
	epoch   atomic.Uint64
	canon   atomic.Pointer[[]*canonBlock]
	done    atomic.Bool
	failed  atomic.Bool
	logMu   stdsync.Mutex
	log     []string // director's tick log
	allTxMu stdsync.RWMutex
	allTx   []string
	pace    *pacer
}

func (p *pollShared) logCopy() []string {
	p.logMu.Lock()
	defer p.logMu.Unlock()
	return append([]string(nil), p.log...)
}

func (p *pollShared) fail() {
	p.failed.Store(true)
	p.pace.wake()
}

func (p *pollShared) violate(class, detail string, extra any) {
	p.fail()
	p.r.Violation(class, pollBase+p.idx, "poller: "+detail, witness{Mode: "poller", Step: int(p.ticks.Load()), Detail: detail, Script: p.logCopy(), Extra: extra})
}

// provenance maps the entries of a view to abstract slots: each must be a
// prefix of a round the sequencer created for that height, carrying only class
// definitions the sequencer serves.
func (p *pollShared) provenance(entries []*pending.PreConfirmed) (mChain, string) {
	out := make(mChain, len(entries))
	p.seq.mu.RLock()
	defer p.seq.mu.RUnlock()
	for i, e := range entries {
		rd := p.seq.rounds[roundKey(e.Block.Number, e.BlockIdentifier)]
		if rd == nil {
			return nil, fmt.Sprintf("provenance: block %d carries identifier %q which the sequencer never served for that height", e.Block.Number, e.BlockIdentifier)
		}
		n := len(e.Block.Transactions)
		if n > len(rd.Txs) {
			return nil, fmt.Sprintf("provenance: block %d holds %d transactions, its round only has %d", e.Block.Number, n, len(rd.Txs))
		}
		m := &mBlock{Number: rd.Number, Ident: rd.Ident, Txs: rd.Txs[:n], Classes: map[string]core.ClassDefinition{},
			Version: rd.Version, Time: rd.Timestamp, Seq: rd.Seq, Round: rd}
		for ch, def := range e.NewClasses {
			if p.seq.defs[ch.String()] != def {
				return nil, fmt.Sprintf("provenance: block %d registers class %s with a definition the sequencer does not serve", e.Block.Number, ch.String())
			}
			m.Classes[ch.String()] = def
		}
		if pr := compareEntry(e, m); pr != "" {
			return nil, pr
		}
		out[i] = m
	}
	return out, ""
}

// observe runs the view-level oracles on a view aligned to first. canon is the
// canonical reference valid for the whole observation or nil if undecidable.
func (p *pollShared) observe(who string, view *preconfirmed.ChainReader, first uint64, rng interface{ IntN(int) int }, e1 uint64, canon []*canonBlock, overlayEvery int) (blocks mChain, ok bool) {
	p.r.Eval(1)
	entries, problem := checkContiguity(view, first)
	if problem != "" {
		p.violate("contiguity:"+problemClass(problem), fmt.Sprintf("%s, SnapshotForBlock(%d) at tick %d: %s", who, first, p.ticks.Load(), problem), nil)
		return nil, false
	}
	if len(entries) == 0 {
		p.r.Count("poller_views_empty", 1)
		return nil, true
	}
	p.r.Count("poller_views_nonempty", 1)
	p.r.Count(fmt.Sprintf("poller_view_length_%d", min(len(entries), 6)), 1)
	blocks, pr := p.provenance(entries)
	if pr != "" {
		p.violate("content:"+problemClass(pr), fmt.Sprintf("%s, view from %d at tick %d: %s", who, first, p.ticks.Load(), pr), nil)
		return nil, false
	}
	p.allTxMu.RLock()
	var others []string
	for k := 0; k < 6 && len(p.allTx) > 0; k++ {
		others = append(others, p.allTx[rng.IntN(len(p.allTx))])
	}
	p.allTxMu.RUnlock()
	n, lp := checkLookups(view, blocks, others)
	p.r.Count("lookups", n)
	if lp != "" {
		p.violate("lookup:"+problemClass(lp), who+": "+lp, nil)
		return nil, false
	}
	if rng.IntN(overlayEvery) == 0 {
		if e1&1 == 0 && canon != nil && first >= 1 && int(first-1) < len(canon) {
			ti := rng.IntN(len(blocks))
			ov := newOverlay(canon[first-1].State, blocks, ti, modelMerged)
			rr := lib.Rng("C20/poll/probe", uint64(p.idx)*1000003+uint64(p.ticks.Load())*31+uint64(first))
			reads, mm, oerr := checkOverlay(view, p.real.bc, p.u, ov, blocks[ti].Number, rr)
			if p.epoch.Load() != e1 {
				p.r.Count("poller_overlay_discarded_head_moved", 1)
			} else {
				p.r.Count("poller_overlay_states_judged", 1)
				p.r.Count("overlay_reads", reads)
				if oerr != nil {
					p.violate("overlay:state-unavailable", fmt.Sprintf("%s: PreConfirmedStateAt(%d) on a view aligned to canonical block %d (head stable at %d): %v", who, blocks[ti].Number, first-1, len(canon)-1, oerr), nil)
					return nil, false
				}
				if mm != nil {
					p.violate("overlay:"+strings.Fields(mm.What)[0],
						fmt.Sprintf("%s: view [%d,%d] over canonical block %d: %s at block %d reads %s, overlay of the view's diffs gives %s", who, first, blocks.tip(), first-1, mm.What, mm.Block, mm.Got, mm.Want), mm)
					return nil, false
				}
			}
		}
	}
	return blocks, true
}

type pollHeld struct {
	view  preconfirmed.ChainReader
	hash  string
	tick  int64
	first uint64
	n     int
}

func (p *pollShared) recheck(who string, hv *pollHeld) bool {
	now := p.ticks.Load()
	p.r.Eval(1)
	if _, pr := checkContiguity(&hv.view, hv.first); pr != "" {
		p.violate("immutability:held-view-"+problemClass(pr), fmt.Sprintf("%s: view taken at tick %d (from %d, %d blocks) re-walked at tick %d: %s", who, hv.tick, hv.first, hv.n, now, pr), nil)
		return false
	}
	if h2 := viewHash(&hv.view); h2 != hv.hash {
		p.violate("immutability:view-hash-changed", fmt.Sprintf("%s: view taken at tick %d (from %d, %d blocks) hashed %s, now %s at tick %d", who, hv.tick, hv.first, hv.n, hv.hash, h2, now), nil)
		return false
	}
	if now-hv.tick >= rehashAfterOps {
		p.r.Count("poller_held_views_rehashed_after_50+_ticks", 1)
	} else {
		p.r.Count("poller_held_views_rehashed_at_end_<50_ticks", 1)
	}
	return true
}

func (p *pollShared) reader(id int, wg *stdsync.WaitGroup) {
	defer wg.Done()
	rng := lib.Rng(fmt.Sprintf("C20/poll/reader%d", id), uint64(p.idx))
	who := fmt.Sprintf("reader %d", id)
	var held []*pollHeld
	var myReads int64
	for iter := 0; !p.failed.Load(); iter++ {
		finishing := p.done.Load()
		e1 := p.epoch.Load()
		canonP := p.canon.Load()
		h, err := p.real.bc.Height()
		if err != nil {
			p.r.Inconclusive("height-read-failed")
			p.fail()
			return
		}
		first := h + 1
		if rng.IntN(10) == 0 {
			first = h + uint64(rng.IntN(3))
		}
		tick := p.ticks.Load()
		view := p.storage.SnapshotForBlock(first)
		p.r.Count("poller_reader_views_taken", 1)
		blocks, ok := p.observe(who, &view, first, rng, e1, *canonP, 3)
		if !ok {
			return
		}
		if len(blocks) > 0 && iter%4 == 0 && len(held) < 300 {
			held = append(held, &pollHeld{view: view, hash: viewHash(&view), tick: tick, first: first, n: len(blocks)})
		}
		for len(held) > 0 && p.ticks.Load()-held[0].tick >= rehashAfterOps {
			if !p.recheck(who, held[0]) {
				return
			}
			held = held[1:]
		}
		if finishing {
			break
		}
		myReads++
		p.pace.waitUntil(func() bool { return myReads < (p.ticks.Load()+1)*3 || p.done.Load() || p.failed.Load() })
	}
	for _, hv := range held {
		if !p.recheck(who, hv) {
			return
		}
	}
}

func runPoller(r *lib.Run, idx int) {
	rng := lib.Rng("C20/poll", uint64(idx))
	startHead := 2 + rng.Uint64N(3)
	u := newUniverse(rng, startHead+1)
	cm := &canonModel{}
	p := &pollShared{r: r, idx: idx, u: u, real: newCanonReal(), storage: preconfirmed.NewChainStorage(), pace: newPacer()}
	for i := uint64(0); i <= startHead; i++ {
		d := cm.genDiff(rng, u)
		cm.advance(d)
		if err := p.real.advance(d); err != nil {
			r.Inconclusive("canonical-chain-build-failed")
			r.Note(err.Error())
			return
		}
	}
	snap := cm.snapshot()
	p.canon.Store(&snap)
	defs := map[string]core.ClassDefinition{}
	for _, c := range u.ViewV0 {
		defs[nf(c)] = classDef(nf(c), false)
	}
	for _, c := range u.ViewV1 {
		defs[nf(c)] = classDef(nf(c), true)
	}
	seq := &sequencer{slots: map[uint64]*simSlot{}, rounds: map[string]*absRound{}, defs: defs,
		arrive: make(chan struct{}), release: make(chan struct{})}
	p.seq = seq
	var identSer, txSer uint64
	newSimRound := func(n uint64) *simSlot { // caller holds seq.mu
		identSer++
		rd := newRound(rng, n, hx(0x2cb00000+identSer))
		rd.extend(rng, u, simRoundTxs, &txSer)
		seq.rounds[roundKey(n, rd.Ident)] = rd
		p.allTxMu.Lock()
		for _, tx := range rd.Txs {
			p.allTx = append(p.allTx, tx.Hash)
		}
		p.allTxMu.Unlock()
		return &simSlot{round: rd, visible: rng.IntN(4)}
	}
	seq.mu.Lock()
	seq.latest = startHead + 1
	seq.slots[seq.latest] = newSimRound(seq.latest)
	seq.mu.Unlock()

	highest := &atomic.Pointer[core.Header]{}
	highest.Store(&core.Header{Number: 0})
	out := feed.New[*pending.PreConfirmed]()
	poller := preconfirmed.NewPoller(seq, p.storage, p.real.bc, out, highest, 200*time.Microsecond, log.NewNopZapLogger())
	ctx, cancel := context.WithCancel(context.Background())
	pollerDone := make(chan struct{})
	go func() { poller.Run(ctx); close(pollerDone) }()
	var wg stdsync.WaitGroup
	for id := 1; id <= 3; id++ {
		wg.Add(1)
		go p.reader(id, &wg)
	}
	stop := func() {
		p.done.Store(true)
		p.pace.wake()
		cancel()
		<-pollerDone
		wg.Wait()
	}

	nTicks := 120 + rng.IntN(80)
	var held []*pollHeld
	var shape strings.Builder
	nonEmpty, maxLen := 0, 0
	for t := 0; t <= nTicks && !p.failed.Load(); t++ {
		select {
		case <-seq.arrive:
		case <-time.After(60 * time.Second):
			r.Inconclusive("poller-watchdog")
			p.fail()
			stop()
			return
		}
		// the poller is parked inside the data source: storage is quiescent, the
		// tick has already realigned it to the head it read
		h := cm.height()
		view := p.storage.SnapshotForBlock(h + 1)
		blocks, ok := p.observe("director", &view, h+1, rng, p.epoch.Load(), cm.blocks, 2)
		if !ok {
			break
		}
		if len(blocks) > 0 {
			nonEmpty++
			maxLen = max(maxLen, len(blocks))
			held = append(held, &pollHeld{view: view, hash: viewHash(&view), tick: int64(t), first: h + 1, n: len(blocks)})
		}
		if t >= rehashAfterOps {
			for len(held) > 0 && int64(t)-held[0].tick >= rehashAfterOps {
				if !p.recheck("director", held[0]) {
					break
				}
				held = held[1:]
			}
		}
		if t == nTicks || p.failed.Load() {
			break
		}
		// evolve the sequencer and the canonical head for the next answer
		act := ""
		seq.mu.Lock()
		seq.failNow = false
		cur := seq.slots[seq.latest]
		w := rng.IntN(100)
		if seq.latest > h+4 && w < 60 {
			w = 80 // the canonical chain catches up
		}
		switch {
		case w < 34:
			act = "more-txs"
			cur.visible = min(simRoundTxs, cur.visible+1+rng.IntN(3))
		case w < 46:
			act = "nothing"
		case w < 60:
			act = "next-height"
			cur.visible = min(simRoundTxs, cur.visible+rng.IntN(2))
			seq.latest++
			seq.slots[seq.latest] = newSimRound(seq.latest)
		case w < 66:
			act = "jump-heights"
			cur.visible = min(simRoundTxs, cur.visible+rng.IntN(3))
			for k := 2 + rng.IntN(2); k > 0; k-- {
				seq.latest++
				seq.slots[seq.latest] = newSimRound(seq.latest)
			}
		case w < 74:
			act = "new-round-at-latest"
			seq.slots[seq.latest] = newSimRound(seq.latest)
		case w < 79:
			act = "new-round-below-latest"
			if seq.latest > h+1 {
				n := h + 1 + rng.Uint64N(seq.latest-h-1)
				for k := n + 1; k <= seq.latest; k++ {
					delete(seq.slots, k)
				}
				seq.latest = n
				seq.slots[n] = newSimRound(n)
			}
		case w < 93:
			act = "head+1"
		case w < 97:
			act = "head-1"
		default:
			act = "gateway-error"
			seq.failNow = true
		}
		seq.mu.Unlock()
		switch act {
		case "head+1", "head-1":
			p.epoch.Add(1)
			var err error
			if act == "head+1" {
				d := cm.genDiff(rng, u)
				cm.advance(d)
				err = p.real.advance(d)
			} else if cm.height() >= 2 {
				cm.revert()
				err = p.real.revert()
			}
			s2 := cm.snapshot()
			p.canon.Store(&s2)
			p.epoch.Add(1)
			if err != nil {
				r.Inconclusive("canonical-chain-move-failed")
				r.Note(err.Error())
				p.fail()
			}
			// the sequencer keeps building above the new head
			seq.mu.Lock()
			if nh := cm.height(); seq.latest <= nh && rng.IntN(5) != 0 {
				seq.latest = nh + 1
				seq.slots[seq.latest] = newSimRound(seq.latest)
			}
			seq.mu.Unlock()
		}
		r.Count("poller_tick:"+act, 1)
		fmt.Fprintf(&shape, "%s;", act)
		p.logMu.Lock()
		p.log = append(p.log, fmt.Sprintf("tick %d: head=%d view=%s then %s", t, h, chainShape(blocks), act))
		p.logMu.Unlock()
		p.ticks.Add(1)
		p.pace.wake()
		select {
		case seq.release <- struct{}{}:
		case <-time.After(60 * time.Second):
			r.Inconclusive("poller-watchdog")
			p.fail()
		}
	}
	stop()
	if p.failed.Load() {
		return
	}
	for _, hv := range held {
		if !p.recheck("director", hv) {
			return
		}
	}
	r.Count("poller_runs", 1)
	r.Count("poller_datasource_nochange", int(seq.kinds[0].Load()))
	r.Count("poller_datasource_delta", int(seq.kinds[1].Load()))
	r.Count("poller_datasource_full", int(seq.kinds[2].Load()))
	if nonEmpty >= 20 && maxLen >= 2 {
		r.Case("poll|" + shape.String())
	}
	if idx == 0 {
		r.Sample(map[string]any{"mode": "poller", "case": idx, "ticks": nTicks, "director_views_nonempty": nonEmpty, "max_view_length": maxLen, "ticks_head": p.logCopy()[:min(30, len(p.log))]})
	}
}

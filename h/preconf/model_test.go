package vpreconf

// Sequential reference model of preconfirmed.ChainStorage, written from the
// documented contract of ApplyUpdate / AdvanceTo / SnapshotForBlock (the doc
// comments in sync/preconfirmed/chain_storage.go), over abstract blocks.

import (
	"fmt"
	"strings"

	"github.com/NethermindEth/juno/core"
)

const blankIdent = "0x0"

// mBlock is one slot of the model chain: a round and how many of its
// transactions the slot currently holds, plus the registered classes.
type mBlock struct {
	Number  uint64
	Ident   string
	Txs     []*absTx
	Classes map[string]core.ClassDefinition // canonical class-hash string -> definition object
	Version string
	Time    uint64
	Seq     string
	Round   *absRound // generator bookkeeping: the round this slot was filled from
}

func (b *mBlock) merged() *absDiff {
	d := newAbsDiff()
	for _, tx := range b.Txs {
		d.merge(tx.Diff)
	}
	return d
}

func (b *mBlock) classKeys() []string { return sortedKeys(b.Classes) }

// key identifies the observable content of a slot.
func (b *mBlock) key() string {
	var sb strings.Builder
	fmt.Fprintf(&sb, "%d|%s|", b.Number, b.Ident)
	for _, tx := range b.Txs {
		sb.WriteString(tx.Hash + ",")
	}
	sb.WriteString("|")
	for _, c := range b.classKeys() {
		sb.WriteString(c + ",")
	}
	return sb.String()
}

type mChain []*mBlock // oldest first, contiguous

func (c mChain) oldest() uint64 { return c[0].Number }
func (c mChain) tip() uint64    { return c[len(c)-1].Number }
func (c mChain) contains(n uint64) bool {
	return len(c) > 0 && n >= c.oldest() && n <= c.tip()
}

// suffix is what SnapshotForBlock(n) must show.
func (c mChain) suffix(n uint64) mChain {
	if !c.contains(n) {
		return nil
	}
	return c[n-c.oldest():]
}

func (c mChain) key() string {
	parts := make([]string, len(c))
	for i, b := range c {
		parts[i] = b.key()
	}
	return strings.Join(parts, " ; ")
}

// ---------------------------------------------------------------- operations

type opKind int

const (
	opFull opKind = iota
	opDelta
	opNoChange
	opAdvance
	opHeadUp   // canonical head +1 (not a storage operation)
	opHeadDown // canonical head -1 (not a storage operation)
)

func (k opKind) String() string {
	return [...]string{"full", "delta", "nochange", "advance", "head+1", "head-1"}[k]
}

type op struct {
	Kind    opKind
	Num     uint64 // targeted block number (full/delta/nochange)
	Oldest  uint64 // oldestPreConf argument (ApplyUpdate) / AdvanceTo argument
	Base    uint64 // baseTxCount
	Round   *absRound
	From    int // delta: first tx index carried; full: 0
	To      int // number of the round's txs carried (full: [0,To), delta: [From,To))
	Classes map[string]core.ClassDefinition
	Tag     string   // scenario label (for evidence / witness)
	Canon   *absDiff // opHeadUp: diff of the new canonical block
	wire    []byte   // emitted JSON
}

type outcome int

const (
	outApplied outcome = iota
	outNoop
	outError
)

func (o outcome) String() string { return [...]string{"applied", "no-op", "error"}[o] }

func copyClasses(m map[string]core.ClassDefinition) map[string]core.ClassDefinition {
	if m == nil {
		return nil
	}
	o := make(map[string]core.ClassDefinition, len(m))
	for k, v := range m {
		o[k] = v
	}
	return o
}

func mergedClasses(a, b map[string]core.ClassDefinition) map[string]core.ClassDefinition {
	o := copyClasses(a)
	if o == nil {
		o = map[string]core.ClassDefinition{}
	}
	for k, v := range b {
		o[k] = v
	}
	return o
}

func supportedVersion(v string) bool {
	// core.CheckBlockVersion: (major, minor) <= (0, 14) at the pinned commit; the
	// generator only emits 0.14.x (supported) and 0.15.0 / 1.0.0 (unsupported).
	return strings.HasPrefix(v, "0.14.") || strings.HasPrefix(v, "0.13.")
}

func blockFromFull(o *op) *mBlock {
	return &mBlock{
		Number: o.Num, Ident: o.Round.Ident, Txs: append([]*absTx(nil), o.Round.Txs[:o.To]...),
		Classes: copyClasses(o.Classes), Version: o.Round.Version, Time: o.Round.Timestamp, Seq: o.Round.Seq,
		Round: o.Round,
	}
}

// apply is the model transition. affected is the slot the call must return
// (nil for no-op / error). why explains an expected error or no-op.
func (c mChain) apply(o *op) (next mChain, out outcome, affected *mBlock, why string) {
	switch o.Kind {
	case opAdvance:
		if len(c) == 0 {
			return c, outNoop, nil, "empty chain"
		}
		if o.Oldest == c.oldest() {
			return c, outNoop, nil, "already aligned"
		}
		if !c.contains(o.Oldest) {
			return nil, outApplied, nil, "dropped"
		}
		return append(mChain(nil), c.suffix(o.Oldest)...), outApplied, nil, "trimmed"
	case opFull, opDelta, opNoChange:
	default:
		panic("not a storage op")
	}
	if len(c) == 0 {
		if o.Kind != opFull {
			return c, outError, nil, "bootstrap needs a full block"
		}
		if o.Num != o.Oldest {
			return c, outError, nil, "bootstrap not at the oldest pre-confirmed slot"
		}
		if !supportedVersion(o.Round.Version) {
			return c, outError, nil, "unsupported version"
		}
		b := blockFromFull(o)
		return mChain{b}, outApplied, b, "bootstrap"
	}
	if c.oldest() != o.Oldest {
		return c, outError, nil, "misaligned with oldestPreConf"
	}
	if o.Num < c.oldest() {
		return c, outError, nil, "target below oldest slot"
	}
	if o.Num > c.tip()+1 {
		return c, outError, nil, "gap above tip"
	}
	if o.Num == c.tip()+1 {
		if o.Kind != opFull {
			return c, outError, nil, "append needs a full block"
		}
		if !supportedVersion(o.Round.Version) {
			return c, outError, nil, "unsupported version"
		}
		b := blockFromFull(o)
		return append(append(mChain(nil), c...), b), outApplied, b, "append"
	}
	idx := int(o.Num - c.oldest())
	target := c[idx]
	atTip := idx == len(c)-1
	switch o.Kind {
	case opFull:
		if !supportedVersion(o.Round.Version) {
			return c, outError, nil, "unsupported version"
		}
		sameRound := o.Round.Ident == target.Ident || o.Round.Ident == blankIdent
		if sameRound && o.To <= len(target.Txs) && len(o.Classes) <= len(target.Classes) {
			return c, outNoop, nil, "preserved"
		}
		b := blockFromFull(o)
		return append(append(mChain(nil), c[:idx]...), b), outApplied, b, "replaced"
	case opDelta:
		if !atTip {
			return c, outError, nil, "delta below tip"
		}
		if uint64(len(target.Txs)) != o.Base {
			return c, outError, nil, "base tx count mismatch"
		}
		if o.Round.Ident != target.Ident {
			return c, outError, nil, "identifier mismatch"
		}
		b := *target
		b.Txs = append(append([]*absTx(nil), target.Txs...), o.Round.Txs[o.From:o.To]...)
		if len(o.Classes) > 0 {
			b.Classes = mergedClasses(target.Classes, o.Classes)
		}
		return append(append(mChain(nil), c[:idx]...), &b), outApplied, &b, "delta merged"
	case opNoChange:
		if len(o.Classes) == 0 {
			return c, outNoop, nil, "nothing to register"
		}
		if !atTip {
			return c, outError, nil, "no-change below tip"
		}
		m := mergedClasses(target.Classes, o.Classes)
		if len(m) == len(target.Classes) {
			return c, outNoop, nil, "classes already held"
		}
		b := *target
		b.Classes = m
		return append(append(mChain(nil), c[:idx]...), &b), outApplied, &b, "classes registered"
	}
	panic("unreachable")
}

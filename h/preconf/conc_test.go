package vpreconf

// Concurrent mode: one writer goroutine executes a script (storage operations
// and canonical head movement on a real Blockchain), R reader goroutines take
// head-aligned views at arbitrary times. What matters most here runs under the
// race binary; the deciding oracles are the same view-level ones plus a
// linearizability check of the published chain (porcupine, one register).

import (
	"fmt"
	"strings"
	stdsync "sync"
	"sync/atomic"
	"time"

	"github.com/NethermindEth/juno/core/pending"
	"github.com/NethermindEth/juno/sync/preconfirmed"
	"github.com/NethermindEth/juno/verifh/lib"
	"github.com/anishathalye/porcupine"
)

const concReaders = 4

func entryKey(e *pending.PreConfirmed) string {
	var sb strings.Builder
	fmt.Fprintf(&sb, "%d|%s|", e.Block.Number, e.BlockIdentifier)
	for _, tx := range e.Block.Transactions {
		sb.WriteString(tx.Hash().String() + ",")
	}
	sb.WriteString("|")
	ck := make(map[string]bool, len(e.NewClasses))
	for c := range e.NewClasses {
		ck[c.String()] = true
	}
	for _, c := range sortedKeys(ck) {
		sb.WriteString(c + ",")
	}
	return sb.String()
}

// pacer is a condition variable over the run's atomic counters (logical pacing
// between the writer and the readers; no wall clock).
type pacer struct {
	mu stdsync.Mutex
	c  *stdsync.Cond
}

func newPacer() *pacer {
	p := &pacer{}
	p.c = stdsync.NewCond(&p.mu)
	return p
}

func (p *pacer) wake() {
	p.mu.Lock()
	p.c.Broadcast()
	p.mu.Unlock()
}

func (p *pacer) waitUntil(cond func() bool) {
	p.mu.Lock()
	for !cond() {
		p.c.Wait()
	}
	p.mu.Unlock()
}

type regWrite struct{ k int } // k-th storage operation of the script
type regRead struct{ first uint64 }

type concShared struct {
	r        *lib.Run
	idx      int
	s        *script
	real     *canonReal
	storage  *preconfirmed.ChainStorage
	byKey    map[string]*mBlock // every slot content the model ever publishes
	clock    atomic.Int64
	opsDone  atomic.Int64 // writer operations completed (storage ops and head moves)
	reads    atomic.Int64
	epoch    atomic.Uint64 // odd while the canonical head is being moved
	canon    atomic.Pointer[[]*canonBlock]
	done     atomic.Bool
	failed   atomic.Bool
	histMu   stdsync.Mutex
	history  []porcupine.Operation
	storeOps []mChain // chain after the k-th storage operation
	pace     *pacer
}

func (c *concShared) fail() {
	c.failed.Store(true)
	c.pace.wake()
}

func (c *concShared) violate(class string, stepIdx int, detail string, extra any) {
	c.fail()
	upto := min(stepIdx, len(c.s.Steps)-1)
	c.r.Violation(class, concBase+c.idx, "concurrent: "+detail, witness{Mode: "concurrent", Step: stepIdx, Detail: detail, Script: c.s.describe(upto), Extra: extra})
}

func (c *concShared) record(op porcupine.Operation) {
	c.histMu.Lock()
	c.history = append(c.history, op)
	c.histMu.Unlock()
}

func (c *concShared) writer() {
	defer func() {
		c.done.Store(true)
		c.pace.wake()
	}()
	k := 0
	for i, st := range c.s.Steps {
		if c.failed.Load() {
			return
		}
		o := st.Op
		switch o.Kind {
		case opHeadUp, opHeadDown:
			c.epoch.Add(1)
			var err error
			if o.Kind == opHeadUp {
				err = c.real.advance(o.Canon)
			} else {
				err = c.real.revert()
			}
			snap := st.Canon
			c.canon.Store(&snap)
			c.epoch.Add(1)
			if err != nil {
				c.r.Inconclusive("canonical-chain-move-failed")
				c.r.Note(err.Error())
				c.fail()
				return
			}
		default:
			call := c.clock.Add(1)
			out, affected, opErr, hErr := execStorageOp(c.storage, o)
			ret := c.clock.Add(1)
			if hErr != nil {
				c.r.Inconclusive("generated-update-not-decodable")
				c.fail()
				return
			}
			c.record(porcupine.Operation{ClientId: 0, Input: regWrite{k}, Call: call, Output: nil, Return: ret})
			k++
			c.r.Eval(1)
			if out != st.Out {
				c.violate(fmt.Sprintf("model:outcome:%s:want-%s-got-%s", o.Tag, st.Out, out), i,
					fmt.Sprintf("step %d: documented contract gives %s (%s), storage answered %s (err=%v)", i, st.Out, st.Why, out, opErr), nil)
				return
			}
			if st.Affected != nil && o.Kind != opAdvance {
				if p := compareEntry(affected, st.Affected); p != "" {
					c.violate("content:returned-entry:"+problemClass(p), i, "entry returned by ApplyUpdate: "+p, nil)
					return
				}
			}
		}
		c.r.Count("conc_writer_ops", 1)
		done := c.opsDone.Add(1)
		c.pace.wake()
		// logical pacing: let the readers observe (about) every state
		c.pace.waitUntil(func() bool { return c.reads.Load() >= done*3 || c.failed.Load() })
	}
}

type concHeld struct {
	view  preconfirmed.ChainReader
	hash  string
	ops   int64
	first uint64
	n     int
}

func (c *concShared) reader(id int, wg *stdsync.WaitGroup) {
	defer wg.Done()
	rng := lib.Rng(fmt.Sprintf("C20/conc/reader%d", id), uint64(c.idx))
	var held []*concHeld
	var myReads int64
	recheck := func(hv *concHeld, now int64) bool {
		c.r.Eval(1)
		if _, p := checkContiguity(&hv.view, hv.first); p != "" {
			c.violate("immutability:held-view-"+problemClass(p), int(now), fmt.Sprintf("reader %d: view taken at writer op %d (from %d, %d blocks) re-walked at op %d: %s", id, hv.ops, hv.first, hv.n, now, p), nil)
			return false
		}
		if h2 := viewHash(&hv.view); h2 != hv.hash {
			c.violate("immutability:view-hash-changed", int(now), fmt.Sprintf("reader %d: view taken at writer op %d (from %d, %d blocks) hashed %s, now %s at op %d", id, hv.ops, hv.first, hv.n, hv.hash, h2, now), nil)
			return false
		}
		if now-hv.ops >= rehashAfterOps {
			c.r.Count("conc_held_views_rehashed_after_50+_ops", 1)
		} else {
			c.r.Count("conc_held_views_rehashed_at_end_<50_ops", 1)
		}
		return true
	}
	for iter := 0; ; iter++ {
		if c.failed.Load() {
			return
		}
		finishing := c.done.Load()
		e1 := c.epoch.Load()
		canonP := c.canon.Load()
		h, err := c.real.bc.Height()
		if err != nil {
			c.r.Inconclusive("height-read-failed")
			c.fail()
			return
		}
		first := h + 1
		switch rng.IntN(8) { // mostly the production alignment, sometimes a stale / early one
		case 0:
			first = h
		case 1:
			first = h + 2
		}
		opsAt := c.opsDone.Load()
		call := c.clock.Add(1)
		view := c.storage.SnapshotForBlock(first)
		ret := c.clock.Add(1)
		c.r.Eval(1)
		c.r.Count("conc_views_taken", 1)

		entries, problem := checkContiguity(&view, first)
		if problem != "" {
			c.violate("contiguity:"+problemClass(problem), int(opsAt), fmt.Sprintf("reader %d, SnapshotForBlock(%d) around writer op %d: %s", id, first, opsAt, problem), nil)
			return
		}
		keys := make([]string, len(entries))
		blocks := make(mChain, len(entries))
		for i, e := range entries {
			keys[i] = entryKey(e)
			m := c.byKey[keys[i]]
			if m == nil {
				c.violate("content:never-published-slot", int(opsAt), fmt.Sprintf("reader %d: view from %d holds slot %q which no state of the sequential model contains", id, first, keys[i]), nil)
				return
			}
			if p := compareEntry(e, m); p != "" {
				c.violate("content:"+problemClass(p), int(opsAt), fmt.Sprintf("reader %d: view from %d: %s", id, first, p), nil)
				return
			}
			blocks[i] = m
		}
		c.record(porcupine.Operation{ClientId: id, Input: regRead{first}, Call: call, Output: strings.Join(keys, " ; "), Return: ret})
		if len(entries) > 0 {
			c.r.Count("conc_views_nonempty", 1)
			var others []string
			for k := 0; k < 6 && len(c.s.AllTx) > 0; k++ {
				others = append(others, c.s.AllTx[rng.IntN(len(c.s.AllTx))])
			}
			n, lp := checkLookups(&view, blocks, others)
			c.r.Count("lookups", n)
			if lp != "" {
				c.violate("lookup:"+problemClass(lp), int(opsAt), fmt.Sprintf("reader %d: %s", id, lp), nil)
				return
			}
			// overlay: decided only if the canonical chain did not move while reading
			if e1&1 == 0 && canonP != nil && first >= 1 && int(first-1) < len(*canonP) && rng.IntN(3) == 0 {
				canon := *canonP
				ti := rng.IntN(len(blocks))
				ov := newOverlay(canon[first-1].State, blocks, ti, modelMerged)
				reads, mm, oerr := checkOverlay(&view, c.real.bc, c.s.U, ov, blocks[ti].Number, rng)
				if c.epoch.Load() != e1 {
					c.r.Count("conc_overlay_discarded_head_moved", 1)
				} else {
					c.r.Count("conc_overlay_states_judged", 1)
					c.r.Count("overlay_reads", reads)
					if oerr != nil {
						c.violate("overlay:state-unavailable", int(opsAt), fmt.Sprintf("reader %d: PreConfirmedStateAt(%d) on a view aligned to canonical block %d (head stable at %d): %v", id, blocks[ti].Number, first-1, len(canon)-1, oerr), nil)
						return
					}
					if mm != nil {
						c.violate("overlay:"+strings.Fields(mm.What)[0], int(opsAt),
							fmt.Sprintf("reader %d: view [%d,%d] over canonical block %d: %s at block %d reads %s, overlay gives %s", id, first, blocks.tip(), first-1, mm.What, mm.Block, mm.Got, mm.Want), mm)
						return
					}
				}
			}
			if iter%3 == 0 && len(held) < 400 {
				held = append(held, &concHeld{view: view, hash: viewHash(&view), ops: opsAt, first: first, n: len(entries)})
			}
		} else {
			c.r.Count("conc_views_empty", 1)
		}
		now := c.opsDone.Load()
		for len(held) > 0 && now-held[0].ops >= rehashAfterOps {
			if !recheck(held[0], now) {
				return
			}
			held = held[1:]
		}
		c.reads.Add(1)
		c.pace.wake()
		if finishing {
			break
		}
		// logical pacing: at most a few reads per reader and writer operation
		myReads++
		c.pace.waitUntil(func() bool { return myReads < (c.opsDone.Load()+1)*3 || c.done.Load() || c.failed.Load() })
	}
	now := c.opsDone.Load()
	for _, hv := range held {
		if !recheck(hv, now) {
			return
		}
	}
}

func (c *concShared) registerModel() porcupine.Model {
	return porcupine.Model{
		Init: func() interface{} { return -1 },
		Step: func(state, input, output interface{}) (bool, interface{}) {
			k := state.(int)
			switch in := input.(type) {
			case regWrite:
				return in.k == k+1, in.k
			case regRead:
				var chain mChain
				if k >= 0 {
					chain = c.storeOps[k]
				}
				return chain.suffix(in.first).key() == output.(string), k
			}
			return false, state
		},
		Equal: func(a, b interface{}) bool { return a.(int) == b.(int) },
		DescribeOperation: func(input, output interface{}) string {
			switch in := input.(type) {
			case regWrite:
				return fmt.Sprintf("storage-op#%d", in.k)
			case regRead:
				return fmt.Sprintf("SnapshotForBlock(%d)=%q", in.first, output)
			}
			return "?"
		},
	}
}

func runConcurrent(r *lib.Run, idx int) {
	rng := lib.Rng("C20/conc", uint64(idx))
	s := genScript(rng, 160+rng.IntN(120))
	c := &concShared{r: r, idx: idx, s: s, real: newCanonReal(), storage: preconfirmed.NewChainStorage(), byKey: map[string]*mBlock{}, pace: newPacer()}
	for _, d := range s.Genesis {
		if err := c.real.advance(d); err != nil {
			r.Inconclusive("canonical-chain-build-failed")
			r.Note(err.Error())
			return
		}
	}
	c.canon.Store(&s.Canon0)
	for _, st := range s.Steps {
		if st.Op.Kind != opHeadUp && st.Op.Kind != opHeadDown {
			c.storeOps = append(c.storeOps, st.After)
		}
		for _, b := range st.After {
			c.byKey[b.key()] = b
		}
	}
	var wg stdsync.WaitGroup
	for id := 1; id <= concReaders; id++ {
		wg.Add(1)
		go c.reader(id, &wg)
	}
	c.writer()
	wg.Wait()
	if c.failed.Load() {
		return
	}
	r.Count("conc_register_history_ops", len(c.history))
	res := porcupine.CheckOperationsTimeout(c.registerModel(), c.history, 120*time.Second)
	r.Eval(1)
	switch res {
	case porcupine.Illegal:
		c.violate("register:not-linearizable", len(s.Steps)-1,
			fmt.Sprintf("history of %d storage operations and %d reads is not linearizable against the sequential model of the script", len(c.storeOps), len(c.history)-len(c.storeOps)), nil)
		return
	case porcupine.Unknown:
		r.Inconclusive("porcupine-timeout")
		return
	}
	r.Count("conc_runs_linearizable", 1)
	var shape strings.Builder
	for _, st := range s.Steps {
		fmt.Fprintf(&shape, "%s/%d;", st.Op.Tag, st.Out)
	}
	r.Case("conc|" + shape.String())
	if idx == 0 {
		r.Sample(map[string]any{"mode": "concurrent", "case": idx, "writer_steps": len(s.Steps), "readers": concReaders,
			"history_ops": len(c.history), "script_head": s.describe(12)})
	}
}

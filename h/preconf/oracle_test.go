package vpreconf

// Oracles over a preconfirmed.ChainReader ("view"): contiguity, deep structural
// hash (immutability), content against the model, overlay reads, lookups.

import (
	"crypto/sha256"
	"encoding/binary"
	"encoding/hex"
	"errors"
	"fmt"
	"hash"
	"math/rand/v2"
	"reflect"
	"sort"

	"github.com/NethermindEth/juno/blockchain"
	"github.com/NethermindEth/juno/core"
	"github.com/NethermindEth/juno/core/felt"
	"github.com/NethermindEth/juno/core/pending"
	"github.com/NethermindEth/juno/sync/preconfirmed"
)

// ---------------------------------------------------------------- deep structural hash

func deepWalk(h hash.Hash, v reflect.Value, depth int) {
	if depth > 200 {
		h.Write([]byte("<too deep>"))
		return
	}
	var buf [9]byte
	wu := func(tag byte, x uint64) {
		buf[0] = tag
		binary.LittleEndian.PutUint64(buf[1:], x)
		h.Write(buf[:])
	}
	if !v.IsValid() {
		h.Write([]byte{0xff})
		return
	}
	switch v.Kind() {
	case reflect.Pointer:
		if v.IsNil() {
			h.Write([]byte{0xfe})
			return
		}
		h.Write([]byte{'*'})
		deepWalk(h, v.Elem(), depth+1)
	case reflect.Interface:
		if v.IsNil() {
			h.Write([]byte{0xfd})
			return
		}
		h.Write([]byte("I" + v.Elem().Type().String()))
		deepWalk(h, v.Elem(), depth+1)
	case reflect.Struct:
		wu('S', uint64(v.NumField()))
		for i := 0; i < v.NumField(); i++ {
			deepWalk(h, v.Field(i), depth+1)
		}
	case reflect.Slice:
		if v.IsNil() {
			h.Write([]byte{0xfc})
			return
		}
		fallthrough
	case reflect.Array:
		wu('L', uint64(v.Len()))
		for i := 0; i < v.Len(); i++ {
			deepWalk(h, v.Index(i), depth+1)
		}
	case reflect.Map:
		if v.IsNil() {
			h.Write([]byte{0xfb})
			return
		}
		type ent struct{ k, v []byte }
		var ents []ent
		it := v.MapRange()
		for it.Next() {
			hk, hv := sha256.New(), sha256.New()
			deepWalk(hk, it.Key(), depth+1)
			deepWalk(hv, it.Value(), depth+1)
			ents = append(ents, ent{hk.Sum(nil), hv.Sum(nil)})
		}
		sort.Slice(ents, func(i, j int) bool { return string(ents[i].k) < string(ents[j].k) })
		wu('M', uint64(len(ents)))
		for _, e := range ents {
			h.Write(e.k)
			h.Write(e.v)
		}
	case reflect.String:
		wu('s', uint64(v.Len()))
		h.Write([]byte(v.String()))
	case reflect.Bool:
		if v.Bool() {
			h.Write([]byte{'T'})
		} else {
			h.Write([]byte{'F'})
		}
	case reflect.Int, reflect.Int8, reflect.Int16, reflect.Int32, reflect.Int64:
		wu('i', uint64(v.Int()))
	case reflect.Uint, reflect.Uint8, reflect.Uint16, reflect.Uint32, reflect.Uint64, reflect.Uintptr:
		wu('u', v.Uint())
	case reflect.Float32, reflect.Float64:
		wu('f', uint64(v.Float()))
	default: // func, chan, unsafe pointer: identity only by kind
		h.Write([]byte("K" + v.Kind().String()))
	}
}

// viewHash hashes everything reachable from the view through its public
// iteration: the length and every entry (block header, transactions, receipts,
// merged and per-transaction state diffs, classes, identifier), all the way
// down through pointers, maps (order-independent) and slices.
func viewHash(view *preconfirmed.ChainReader) string {
	h := sha256.New()
	var buf [8]byte
	binary.LittleEndian.PutUint64(buf[:], uint64(view.Length()))
	h.Write(buf[:])
	for e := range view.OldestFirst() {
		deepWalk(h, reflect.ValueOf(e), 0)
	}
	return hex.EncodeToString(h.Sum(nil)[:12])
}

// ---------------------------------------------------------------- contiguity

// checkContiguity demands: exactly Length entries, numbered first, first+1, ...
// in OldestFirst order, NewestFirst the exact reverse, Head the last entry.
// first is the slot the reader asked for (aligned head + 1).
func checkContiguity(view *preconfirmed.ChainReader, first uint64) (entries []*pending.PreConfirmed, problem string) {
	n := view.Length()
	for e := range view.OldestFirst() {
		entries = append(entries, e)
	}
	var newest []*pending.PreConfirmed
	for e := range view.NewestFirst() {
		newest = append(newest, e)
	}
	if n == 0 {
		if len(entries) != 0 || len(newest) != 0 || view.Head() != nil {
			return entries, "empty view yields entries"
		}
		return entries, ""
	}
	if len(entries) != n {
		return entries, fmt.Sprintf("length-mismatch: Length()=%d but OldestFirst yields %d", n, len(entries))
	}
	if len(newest) != n {
		return entries, fmt.Sprintf("length-mismatch: Length()=%d but NewestFirst yields %d", n, len(newest))
	}
	for i, e := range entries {
		if e == nil || e.Block == nil || e.Block.Header == nil {
			return entries, fmt.Sprintf("nil-entry at index %d", i)
		}
		if e.Block.Number != first+uint64(i) {
			return entries, fmt.Sprintf("not-contiguous-above-head: entry %d has number %d, want %d", i, e.Block.Number, first+uint64(i))
		}
		if newest[n-1-i] != e {
			return entries, fmt.Sprintf("iteration-order: NewestFirst[%d] differs from OldestFirst[%d]", n-1-i, i)
		}
	}
	if view.Head() != entries[n-1] {
		return entries, "head-mismatch: Head() is not the newest entry"
	}
	return entries, ""
}

func problemClass(p string) string {
	for i := 0; i < len(p); i++ {
		if p[i] == ':' || p[i] == ' ' {
			return p[:i]
		}
	}
	return p
}

// ---------------------------------------------------------------- content vs model

func txKind(tx core.Transaction) string {
	switch tx.(type) {
	case *core.InvokeTransaction:
		return "INVOKE_FUNCTION"
	case *core.L1HandlerTransaction:
		return "L1_HANDLER"
	case *core.DeclareTransaction:
		return "DECLARE"
	case *core.DeployAccountTransaction:
		return "DEPLOY_ACCOUNT"
	case *core.DeployTransaction:
		return "DEPLOY"
	}
	return fmt.Sprintf("%T", tx)
}

// compareEntry checks that a stored entry holds exactly the model slot.
func compareEntry(e *pending.PreConfirmed, m *mBlock) string {
	if e.Block.Number != m.Number {
		return fmt.Sprintf("number: holds %d, model %d", e.Block.Number, m.Number)
	}
	if e.BlockIdentifier != m.Ident {
		return fmt.Sprintf("identifier: block %d has %q, model %q", m.Number, e.BlockIdentifier, m.Ident)
	}
	if len(e.Block.Transactions) != len(m.Txs) || len(e.Block.Receipts) != len(m.Txs) || len(e.TransactionStateDiffs) != len(m.Txs) {
		return fmt.Sprintf("tx-count: block %d holds %d txs / %d receipts / %d tx diffs, model %d", m.Number,
			len(e.Block.Transactions), len(e.Block.Receipts), len(e.TransactionStateDiffs), len(m.Txs))
	}
	events := 0
	for i, tx := range m.Txs {
		got := e.Block.Transactions[i]
		if got == nil || got.Hash() == nil || got.Hash().String() != tx.Hash {
			return fmt.Sprintf("tx-list: block %d tx %d hash differs from model %s", m.Number, i, tx.Hash)
		}
		if txKind(got) != tx.Kind {
			return fmt.Sprintf("tx-list: block %d tx %d kind %s, model %s", m.Number, i, txKind(got), tx.Kind)
		}
		rc := e.Block.Receipts[i]
		if rc == nil || rc.TransactionHash == nil || rc.TransactionHash.String() != tx.Hash {
			return fmt.Sprintf("receipt-list: block %d receipt %d hash differs from model %s", m.Number, i, tx.Hash)
		}
		if len(rc.Events) != tx.Events || rc.Reverted != tx.Reverted {
			return fmt.Sprintf("receipt-list: block %d receipt %d has %d events reverted=%v, model %d/%v", m.Number, i, len(rc.Events), rc.Reverted, tx.Events, tx.Reverted)
		}
		if g, w := absFromCore(e.TransactionStateDiffs[i]).canon(), tx.Diff.canon(); g != w {
			return fmt.Sprintf("tx-diff: block %d tx %d state diff %s, model %s", m.Number, i, g, w)
		}
		events += tx.Events
	}
	hd := e.Block.Header
	if hd.TransactionCount != uint64(len(m.Txs)) || hd.EventCount != uint64(events) {
		return fmt.Sprintf("header-counts: block %d header counts %d txs / %d events, model %d / %d", m.Number, hd.TransactionCount, hd.EventCount, len(m.Txs), events)
	}
	if hd.ProtocolVersion != m.Version || hd.Timestamp != m.Time || hd.SequencerAddress == nil || hd.SequencerAddress.String() != nf(m.Seq) {
		return fmt.Sprintf("header-fields: block %d header version/timestamp/sequencer differ from the round that filled the slot", m.Number)
	}
	if e.StateUpdate == nil || e.StateUpdate.StateDiff == nil {
		return fmt.Sprintf("merged-diff: block %d has no merged state diff", m.Number)
	}
	if g, w := absFromCore(e.StateUpdate.StateDiff).canon(), m.merged().canon(); g != w {
		return fmt.Sprintf("merged-diff: block %d merged state diff %s, model %s", m.Number, g, w)
	}
	if len(e.NewClasses) != len(m.Classes) {
		return fmt.Sprintf("classes: block %d holds %d classes, model %d", m.Number, len(e.NewClasses), len(m.Classes))
	}
	for ch, def := range m.Classes {
		got, ok := e.NewClasses[*fs(ch)]
		if !ok || got != def {
			return fmt.Sprintf("classes: block %d class %s missing or not the registered definition", m.Number, ch)
		}
	}
	return ""
}

// ---------------------------------------------------------------- overlay

type expect struct {
	val    string
	absent bool // nothing below defines it: an error or a zero value are both acceptable
}

// overlay is the naive definition: canonical state `base` overlaid with the
// merged diffs of blocks[0..upto] in order (later wins; a contract deployed in
// the view reads nonce 0 / storage 0 until the view writes it).
type overlay struct {
	base    *absState
	diff    *absDiff
	classes map[string]core.ClassDefinition
}

func newOverlay(base *absState, blocks []*mBlock, upto int, mergedOf func(*mBlock) *absDiff) *overlay {
	o := &overlay{base: base, diff: newAbsDiff(), classes: map[string]core.ClassDefinition{}}
	for i := 0; i <= upto; i++ {
		o.diff.merge(mergedOf(blocks[i]))
		for ch, def := range blocks[i].Classes {
			o.classes[ch] = def
		}
	}
	return o
}

func (o *overlay) classHash(a string) expect {
	if v, ok := o.diff.Replaced[a]; ok {
		return expect{val: v}
	}
	if v, ok := o.diff.Deployed[a]; ok {
		return expect{val: v}
	}
	if v, ok := o.base.Class[a]; ok {
		return expect{val: v}
	}
	return expect{absent: true}
}

func (o *overlay) nonce(a string) expect {
	if v, ok := o.diff.Nonces[a]; ok {
		return expect{val: v}
	}
	if _, ok := o.diff.Deployed[a]; ok {
		return expect{val: "0x0"}
	}
	if _, ok := o.base.Class[a]; !ok {
		return expect{absent: true}
	}
	if v, ok := o.base.Nonce[a]; ok {
		return expect{val: v}
	}
	return expect{val: "0x0"}
}

func (o *overlay) storage(a, k string) expect {
	if v, ok := o.diff.Storage[a][k]; ok {
		return expect{val: v}
	}
	if _, ok := o.diff.Deployed[a]; ok {
		return expect{val: "0x0"}
	}
	if _, ok := o.base.Class[a]; !ok {
		return expect{absent: true}
	}
	if v, ok := o.base.Storage[a][k]; ok {
		return expect{val: v}
	}
	return expect{val: "0x0"}
}

// touched lists the contracts a diff mentions, sorted.
func touched(d *absDiff) []string {
	set := map[string]bool{}
	for a := range d.Storage {
		set[a] = true
	}
	for a := range d.Nonces {
		set[a] = true
	}
	for a := range d.Deployed {
		set[a] = true
	}
	for a := range d.Replaced {
		set[a] = true
	}
	return sortedKeys(set)
}

type readMismatch struct {
	What  string `json:"what"`
	Block uint64 `json:"at_block"`
	Want  string `json:"want"`
	Got   string `json:"got"`
}

func judge(what string, at uint64, exp expect, got *felt.Felt, err error) *readMismatch {
	g := "error: "
	if err != nil {
		g += err.Error()
	} else {
		g = got.String()
	}
	if exp.absent {
		if err != nil || got.IsZero() {
			return nil
		}
		return &readMismatch{what, at, "not found / zero", g}
	}
	if err != nil || got.String() != nf(exp.val) {
		return &readMismatch{what, at, nf(exp.val), g}
	}
	return nil
}

// checkOverlay opens PreConfirmedStateAt(block) on the view and compares every
// probe of the universe with the naive overlay. Returns the number of reads.
//
// The probe set is the diff's own touched contracts / classes plus a seeded
// sample of the rest of the universe (every base read on the memory DB copies
// the store, so the full cross product is sampled rather than enumerated).
func checkOverlay(view *preconfirmed.ChainReader, bc blockchain.Reader, u *universe, ov *overlay, block uint64, rng *rand.Rand) (reads int, mm *readMismatch, err error) {
	st, closer, err := view.PreConfirmedStateAt(block, bc)
	if err != nil {
		return 0, nil, err
	}
	defer func() { _ = closer() }()
	all := u.contracts()
	contracts := []string{all[rng.IntN(len(all))], all[rng.IntN(len(all))], all[rng.IntN(len(all))]}
	if t := touched(ov.diff); len(t) > 0 {
		contracts = append(contracts, t[rng.IntN(len(t))], t[rng.IntN(len(t))])
	}
	keys := []string{u.Keys[rng.IntN(len(u.Keys))], u.Keys[rng.IntN(len(u.Keys))]}
	allc := u.classHashes()
	classes := []string{allc[rng.IntN(len(allc))], allc[rng.IntN(len(allc))], allc[rng.IntN(len(allc))]}
	if ck := sortedKeys(ov.classes); len(ck) > 0 {
		classes = append(classes, ck[rng.IntN(len(ck))])
	}
	if ck := sortedKeys(ov.diff.DeclV1); len(ck) > 0 {
		classes = append(classes, ck[rng.IntN(len(ck))])
	}
	for _, a := range contracts {
		af := fs(a)
		an := nf(a)
		got, e := st.ContractClassHash(af)
		reads++
		if m := judge("class hash of "+an, block, ov.classHash(an), &got, e); m != nil {
			return reads, m, nil
		}
		got, e = st.ContractNonce(af)
		reads++
		if m := judge("nonce of "+an, block, ov.nonce(an), &got, e); m != nil {
			return reads, m, nil
		}
		for _, k := range keys {
			got, e = st.ContractStorage(af, fs(k))
			reads++
			if m := judge("storage "+an+"["+nf(k)+"]", block, ov.storage(an, nf(k)), &got, e); m != nil {
				return reads, m, nil
			}
		}
	}
	for _, c := range classes {
		cn := nf(c)
		cf := fs(c)
		dc, e := st.Class(cf)
		reads++
		if def, ok := ov.classes[cn]; ok {
			if e != nil || dc == nil || dc.Class != def || dc.At != 0 {
				return reads, &readMismatch{"class definition " + cn, block, "the definition registered in the view (At=0)", fmt.Sprintf("%v err=%v", dc, e)}, nil
			}
		} else if at, ok := ov.base.DeclaredAt[cn]; ok {
			if e != nil || dc == nil || dc.At != at {
				return reads, &readMismatch{"class definition " + cn, block, fmt.Sprintf("canonical declaration at %d", at), fmt.Sprintf("%v err=%v", dc, e)}, nil
			}
		} else if e == nil {
			return reads, &readMismatch{"class definition " + cn, block, "not found", fmt.Sprintf("found At=%d", dc.At)}, nil
		}
		sh := felt.SierraClassHash(*cf)
		casm, e := st.CompiledClassHash(&sh)
		reads++
		cg := felt.Felt(casm)
		ex := expect{absent: true}
		if v, ok := ov.diff.DeclV1[cn]; ok {
			ex = expect{val: v}
		}
		if m := judge("compiled class hash of "+cn, block, ex, &cg, e); m != nil {
			return reads, m, nil
		}
		casm2, e := st.CompiledClassHashV2(&sh)
		reads++
		cg2 := felt.Felt(casm2)
		ex = expect{absent: true}
		if v, ok := ov.diff.Migrated[cn]; ok {
			ex = expect{val: v}
		}
		if m := judge("compiled class hash v2 of "+cn, block, ex, &cg2, e); m != nil {
			return reads, m, nil
		}
	}
	return reads, nil, nil
}

// ---------------------------------------------------------------- lookups

// checkLookups demands that transaction / receipt lookup finds exactly the
// items of the view's blocks (with the block number the item lives in) and
// nothing else among `others`.
func checkLookups(view *preconfirmed.ChainReader, blocks []*mBlock, others []string) (n int, problem string) {
	in := map[string]uint64{}
	for _, b := range blocks {
		for _, tx := range b.Txs {
			in[tx.Hash] = b.Number // a later block wins, as in NewestFirst scanning
		}
	}
	for h, num := range in {
		hf := fs(h)
		tx, err := view.TransactionByHash(hf)
		n++
		if err != nil || tx == nil || tx.Hash().String() != h {
			return n, fmt.Sprintf("lookup-missed: transaction %s of view block %d not found (%v)", h, num, err)
		}
		rc, bn, err := view.ReceiptByHash(hf)
		n++
		if err != nil || rc == nil || rc.TransactionHash.String() != h {
			return n, fmt.Sprintf("lookup-missed: receipt %s of view block %d not found (%v)", h, num, err)
		}
		if bn != num {
			return n, fmt.Sprintf("lookup-wrong-block: receipt %s reported in block %d, lives in %d", h, bn, num)
		}
	}
	// the per-entry accessors (what rpc trace / receipt handlers use once they hold an
	// entry): every item of the entry's own block is found at its position, nothing else is
	for e := range view.OldestFirst() {
		own := map[string]bool{}
		for i, tx := range e.Block.Transactions {
			h := tx.Hash().String()
			own[h] = true
			got, at, err := e.TransactionByHash((*felt.TransactionHash)(tx.Hash()))
			n++
			if err != nil || got == nil || got.Hash().String() != h || (int(at) != i && e.Block.Transactions[at].Hash().String() != h) {
				return n, fmt.Sprintf("lookup-missed: entry of block %d: its transaction %s (item %d of %d) not found by the entry's own lookup (%v)", e.Block.Number, h, i, len(e.Block.Transactions), err)
			}
			rc, err := e.ReceiptByHash((*felt.TransactionHash)(tx.Hash()))
			n++
			if err != nil || rc == nil || rc.TransactionHash.String() != h {
				return n, fmt.Sprintf("lookup-missed: entry of block %d: receipt of its transaction %s (item %d) not found by the entry's own lookup (%v)", e.Block.Number, h, i, err)
			}
		}
		for k, h := range others {
			if own[h] || k > 24 {
				continue
			}
			got, _, err := e.TransactionByHash((*felt.TransactionHash)(fs(h)))
			n++
			if err == nil || got != nil {
				return n, fmt.Sprintf("lookup-phantom: entry of block %d: transaction %s is not in this block but the entry's own lookup returned it", e.Block.Number, h)
			}
		}
	}
	for _, h := range others {
		if _, ok := in[h]; ok {
			continue
		}
		hf := fs(h)
		tx, err := view.TransactionByHash(hf)
		n++
		if err == nil || !errors.Is(err, pending.ErrTransactionNotFound) || tx != nil {
			return n, fmt.Sprintf("lookup-phantom: transaction %s is in no block of the view but lookup returned (%v, %v)", h, tx != nil, err)
		}
		rc, _, err := view.ReceiptByHash(hf)
		n++
		if err == nil || !errors.Is(err, pending.ErrTransactionReceiptNotFound) || rc != nil {
			return n, fmt.Sprintf("lookup-phantom: receipt %s is in no block of the view but lookup returned (%v, %v)", h, rc != nil, err)
		}
	}
	return n, ""
}

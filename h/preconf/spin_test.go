package vpreconf

// Unpaced mode. The concurrent mode paces writer and readers logically (about three reads per
// writer operation) so that every state is observed and the history stays small enough for the
// linearizability check. That pacing makes windows of a few instructions inside one
// SnapshotForBlock call (e.g. between two loads of the published chain) practically unreachable.
// Here nothing is paced: the writer replays the storage operations of a generated script over and
// over at full speed, and the readers take views in tight loops, for every plausible alignment,
// checking only what needs no model: no panic, and a view is a gap-free run of exactly Length
// blocks starting at the block it was asked for. The verdict does not depend on how many
// interleavings the scheduler produced; the counts are reported.

import (
	"fmt"
	stdsync "sync"
	"sync/atomic"

	"github.com/NethermindEth/juno/sync/preconfirmed"
	"github.com/NethermindEth/juno/verifh/lib"
)

const spinBase = 3_000_000

func runSpin(r *lib.Run, idx int) {
	rng := lib.Rng("C20/spin", uint64(idx))
	s := genScript(rng, 60+rng.IntN(60))
	var ops []*op
	lo, hi := ^uint64(0), uint64(0)
	for _, st := range s.Steps {
		if st.Op.Kind == opHeadUp || st.Op.Kind == opHeadDown {
			continue
		}
		ops = append(ops, st.Op)
		for _, b := range st.After {
			lo, hi = min(lo, b.Number), max(hi, b.Number)
		}
	}
	if len(ops) == 0 || lo > hi {
		return
	}
	storage := preconfirmed.NewChainStorage()
	var done, failed atomic.Bool
	var views, nonEmpty atomic.Int64
	violate := func(class, detail string) {
		if failed.CompareAndSwap(false, true) {
			r.Violation(class, spinBase+idx, "unpaced: "+detail, witness{Mode: "unpaced", Detail: detail, Script: s.describe(len(s.Steps) - 1)})
		}
	}
	var wg stdsync.WaitGroup
	for id := 1; id <= 4; id++ {
		wg.Add(1)
		go func(id int) {
			defer wg.Done()
			first := lo
			for n := 0; !failed.Load(); n++ {
				if done.Load() && n > 16 {
					return
				}
				first++
				if first > hi+1 {
					first = lo
					if lo > 0 && n%3 == 0 {
						first = lo - 1
					}
				}
				func() {
					defer func() {
						if p := recover(); p != nil {
							violate("snapshot:panic", fmt.Sprintf("reader %d: SnapshotForBlock(%d) panicked: %v", id, first, p))
						}
					}()
					view := storage.SnapshotForBlock(first)
					views.Add(1)
					if _, problem := checkContiguity(&view, first); problem != "" {
						violate("contiguity:"+problemClass(problem), fmt.Sprintf("reader %d: SnapshotForBlock(%d) while the writer runs unpaced: %s", id, first, problem))
						return
					}
					if view.Length() > 0 {
						nonEmpty.Add(1)
					}
				}()
			}
		}(id)
	}
	rounds := r.N(40, 400)
	writes := 0
	for rd := 0; rd < rounds && !failed.Load(); rd++ {
		for _, o := range ops {
			if _, _, _, hErr := execStorageOp(storage, o); hErr != nil {
				r.Inconclusive("generated-update-not-decodable")
				failed.Store(true)
				break
			}
			writes++
		}
	}
	done.Store(true)
	wg.Wait()
	r.Eval(int(views.Load()))
	r.Count("unpaced_writer_ops", writes)
	r.Count("unpaced_views_taken", int(views.Load()))
	r.Count("unpaced_views_non_empty", int(nonEmpty.Load()))
	if !failed.Load() {
		r.Case(fmt.Sprintf("spin|%d|%d-%d|%d", len(ops), lo, hi, idx))
	}
}

package vpreconf

// Input construction for C20: abstract pre-confirmed rounds (what the oracle
// reasons about) and their emission as feeder wire-format JSON, decoded again
// with the production decoder starknet.DecodePreConfirmedUpdate.

import (
	"bytes"
	"encoding/json"
	"fmt"
	"math/rand/v2"
	"os"
	"sort"
	"sync"

	"github.com/NethermindEth/juno/core"
	"github.com/NethermindEth/juno/core/felt"
	"github.com/NethermindEth/juno/starknet"
)

// ---------------------------------------------------------------- felt helpers

func fu(x uint64) *felt.Felt { return felt.NewFromUint64[felt.Felt](x) }

func hx(x uint64) string { return fmt.Sprintf("0x%x", x) }

// nf normalises a hex felt string to the canonical felt.String() form.
func nf(s string) string {
	f, err := new(felt.Felt).SetString(s)
	if err != nil {
		panic("bad felt literal " + s + ": " + err.Error())
	}
	return f.String()
}

func fs(s string) *felt.Felt {
	f, err := new(felt.Felt).SetString(s)
	if err != nil {
		panic("bad felt literal " + s + ": " + err.Error())
	}
	return f
}

// ---------------------------------------------------------------- abstract diff

// absDiff is the harness' own representation of a state diff; all keys and
// values are canonical felt strings. It shares no code with core.StateDiff.
type absDiff struct {
	Storage  map[string]map[string]string `json:"storage,omitempty"`
	Nonces   map[string]string            `json:"nonces,omitempty"`
	Deployed map[string]string            `json:"deployed,omitempty"`
	Replaced map[string]string            `json:"replaced,omitempty"`
	DeclV1   map[string]string            `json:"declared_v1,omitempty"`
	DeclV0   []string                     `json:"declared_v0,omitempty"`
	Migrated map[string]string            `json:"migrated,omitempty"`
}

func newAbsDiff() *absDiff {
	return &absDiff{
		Storage: map[string]map[string]string{}, Nonces: map[string]string{}, Deployed: map[string]string{},
		Replaced: map[string]string{}, DeclV1: map[string]string{}, Migrated: map[string]string{},
	}
}

// merge applies `in` on top of d (later wins), the naive definition.
func (d *absDiff) merge(in *absDiff) {
	for a, m := range in.Storage {
		if d.Storage[a] == nil {
			d.Storage[a] = map[string]string{}
		}
		for k, v := range m {
			d.Storage[a][k] = v
		}
	}
	for a, v := range in.Nonces {
		d.Nonces[a] = v
	}
	for a, v := range in.Deployed {
		d.Deployed[a] = v
	}
	for a, v := range in.Replaced {
		d.Replaced[a] = v
	}
	for a, v := range in.DeclV1 {
		d.DeclV1[a] = v
	}
	for a, v := range in.Migrated {
		d.Migrated[a] = v
	}
	d.DeclV0 = append(d.DeclV0, in.DeclV0...)
}

func sortedKeys[V any](m map[string]V) []string {
	out := make([]string, 0, len(m))
	for k := range m {
		out = append(out, k)
	}
	sort.Strings(out)
	return out
}

// canon renders the diff as a canonical string (for equality / hashing).
func (d *absDiff) canon() string {
	var b bytes.Buffer
	b.WriteString("S{")
	for _, a := range sortedKeys(d.Storage) {
		if len(d.Storage[a]) == 0 {
			continue
		}
		fmt.Fprintf(&b, "%s:[", a)
		for _, k := range sortedKeys(d.Storage[a]) {
			fmt.Fprintf(&b, "%s=%s,", k, d.Storage[a][k])
		}
		b.WriteString("]")
	}
	wm := func(tag string, m map[string]string) {
		fmt.Fprintf(&b, "}%s{", tag)
		for _, a := range sortedKeys(m) {
			fmt.Fprintf(&b, "%s=%s,", a, m[a])
		}
	}
	wm("N", d.Nonces)
	wm("D", d.Deployed)
	wm("R", d.Replaced)
	wm("V1", d.DeclV1)
	wm("M", d.Migrated)
	b.WriteString("}V0[")
	for _, c := range d.DeclV0 {
		b.WriteString(c + ",")
	}
	b.WriteString("]")
	return b.String()
}

// fromCore converts a core.StateDiff into the abstract form (used to compare
// what Juno holds against what the generator encoded).
func absFromCore(sd *core.StateDiff) *absDiff {
	d := newAbsDiff()
	if sd == nil {
		return d
	}
	for a, m := range sd.StorageDiffs {
		am := map[string]string{}
		for k, v := range m {
			am[k.String()] = v.String()
		}
		d.Storage[a.String()] = am
	}
	for a, v := range sd.Nonces {
		d.Nonces[a.String()] = v.String()
	}
	for a, v := range sd.DeployedContracts {
		d.Deployed[a.String()] = v.String()
	}
	for a, v := range sd.ReplacedClasses {
		d.Replaced[a.String()] = v.String()
	}
	for a, v := range sd.DeclaredV1Classes {
		d.DeclV1[a.String()] = v.String()
	}
	for a, v := range sd.MigratedClasses {
		af, vf := felt.Felt(a), felt.Felt(v)
		d.Migrated[af.String()] = vf.String()
	}
	for _, c := range sd.DeclaredV0Classes {
		d.DeclV0 = append(d.DeclV0, c.String())
	}
	return d
}

// wire renders the diff in the feeder's per-transaction state-diff JSON shape.
func (d *absDiff) wire() map[string]any {
	type kv struct {
		Key   string `json:"key"`
		Value string `json:"value"`
	}
	st := map[string][]kv{}
	for _, a := range sortedKeys(d.Storage) {
		for _, k := range sortedKeys(d.Storage[a]) {
			st[a] = append(st[a], kv{k, d.Storage[a][k]})
		}
	}
	pair := func(m map[string]string, k1, k2 string) []map[string]string {
		out := []map[string]string{}
		for _, a := range sortedKeys(m) {
			out = append(out, map[string]string{k1: a, k2: m[a]})
		}
		return out
	}
	v0 := d.DeclV0
	if v0 == nil {
		v0 = []string{}
	}
	nonces := d.Nonces
	if nonces == nil {
		nonces = map[string]string{}
	}
	return map[string]any{
		"storage_diffs":             st,
		"nonces":                    nonces,
		"deployed_contracts":        pair(d.Deployed, "address", "class_hash"),
		"replaced_classes":          pair(d.Replaced, "address", "class_hash"),
		"declared_classes":          pair(d.DeclV1, "class_hash", "compiled_class_hash"),
		"migrated_compiled_classes": pair(d.Migrated, "class_hash", "compiled_class_hash"),
		"old_declared_contracts":    v0,
	}
}

// ---------------------------------------------------------------- abstract transactions / rounds

type absTx struct {
	Hash     string   `json:"hash"`
	Kind     string   `json:"kind"` // INVOKE_FUNCTION, L1_HANDLER, DECLARE, DEPLOY_ACCOUNT
	Events   int      `json:"events"`
	Reverted bool     `json:"reverted,omitempty"`
	Diff     *absDiff `json:"diff"`
	raw      map[string]any // wire transaction object
	rawRc    map[string]any // wire receipt object (transaction_index filled at emission)
}

// absRound is one round (block_identifier) of one pre-confirmed height, with
// the full list of transactions the sequencer will eventually have put in it.
type absRound struct {
	Number    uint64
	Ident     string
	Txs       []*absTx
	Timestamp uint64
	Version   string
	Seq       string

	deployedHere map[string]bool
	declaredHere map[string]bool
}

const fixtureDir = "/repo/clients/feeder/testdata/sepolia/preconfirmed/"

type fixtureTemplates struct {
	header map[string]any // non-list fields of latest/full.json
	tx     map[string]any
	rc     map[string]any
	full   []byte
	delta  []byte
}

var (
	tmplOnce sync.Once
	tmpl     fixtureTemplates
	tmplErr  error
)

func templates() (*fixtureTemplates, error) {
	tmplOnce.Do(func() {
		full, err := os.ReadFile(fixtureDir + "latest/full.json")
		if err != nil {
			tmplErr = err
			return
		}
		delta, err := os.ReadFile(fixtureDir + "latest/0x1cbe25d9/3.json")
		if err != nil {
			tmplErr = err
			return
		}
		var doc map[string]any
		if err := json.Unmarshal(full, &doc); err != nil {
			tmplErr = err
			return
		}
		txs, _ := doc["transactions"].([]any)
		rcs, _ := doc["transaction_receipts"].([]any)
		if len(txs) == 0 || len(rcs) == 0 {
			tmplErr = fmt.Errorf("fixture %s has no transactions", fixtureDir+"latest/full.json")
			return
		}
		tmpl.tx = txs[0].(map[string]any)
		tmpl.rc = rcs[0].(map[string]any)
		tmpl.header = map[string]any{}
		for k, v := range doc {
			switch k {
			case "transactions", "transaction_receipts", "transaction_state_diffs", "block_number", "block_identifier", "changed":
			default:
				tmpl.header[k] = v
			}
		}
		tmpl.full, tmpl.delta = full, delta
	})
	return &tmpl, tmplErr
}

func cloneJSON(m map[string]any) map[string]any {
	b, _ := json.Marshal(m)
	var out map[string]any
	_ = json.Unmarshal(b, &out)
	return out
}

// mkTx builds the wire objects of one transaction of the given kind.
func mkTx(rng *rand.Rand, hash string, kind string, events int, reverted bool, diff *absDiff) *absTx {
	t, _ := templates()
	tx := cloneJSON(t.tx)
	rc := cloneJSON(t.rc)
	tx["transaction_hash"] = hash
	tx["nonce"] = hx(rng.Uint64N(1 << 20))
	switch kind {
	case "INVOKE_FUNCTION":
		tx["calldata"] = []string{hx(rng.Uint64N(1 << 30)), hx(rng.Uint64N(1 << 30))}
	case "L1_HANDLER":
		tx = map[string]any{
			"type": "L1_HANDLER", "transaction_hash": hash, "version": "0x0",
			"contract_address":     hx(0x4000 + rng.Uint64N(16)),
			"entry_point_selector": hx(0x5000 + rng.Uint64N(16)),
			"nonce":                hx(rng.Uint64N(1 << 20)),
			"calldata":             []string{hx(rng.Uint64N(1 << 30))},
		}
		rc["l1_to_l2_consumed_message"] = map[string]any{
			"from_address": "0x8453fc6cd1bcfe8d4dfc069c400b433054d47bdc", "to_address": tx["contract_address"],
			"selector": tx["entry_point_selector"], "payload": []string{"0x1"}, "nonce": tx["nonce"],
		}
	case "DECLARE":
		tx["type"] = "DECLARE"
		delete(tx, "calldata")
		delete(tx, "proof_facts")
		tx["class_hash"] = hx(0x7000 + rng.Uint64N(1<<16))
		tx["compiled_class_hash"] = hx(0x8000 + rng.Uint64N(1<<16))
	case "DEPLOY_ACCOUNT":
		tx["type"] = "DEPLOY_ACCOUNT"
		delete(tx, "calldata")
		delete(tx, "proof_facts")
		delete(tx, "account_deployment_data")
		tx["class_hash"] = hx(0x7000 + rng.Uint64N(1<<16))
		tx["contract_address_salt"] = hx(rng.Uint64N(1 << 30))
		tx["constructor_calldata"] = []string{hx(rng.Uint64N(1 << 30))}
		tx["contract_address"] = hx(0x9000 + rng.Uint64N(1<<16))
	default:
		panic("unknown kind " + kind)
	}
	rc["transaction_hash"] = hash
	evs := []any{}
	for i := 0; i < events; i++ {
		evs = append(evs, map[string]any{
			"from_address": hx(0x4000 + rng.Uint64N(8)),
			"keys":         []string{hx(0x6000 + rng.Uint64N(8)), hx(rng.Uint64N(1 << 20))},
			"data":         []string{hx(rng.Uint64N(1 << 40))},
		})
	}
	rc["events"] = evs
	rc["actual_fee"] = hx(1 + rng.Uint64N(1<<40))
	if reverted {
		rc["execution_status"] = "REVERTED"
		rc["revert_error"] = fmt.Sprintf("reverted-%d", rng.Uint64N(1000))
	}
	return &absTx{Hash: nf(hash), Kind: kind, Events: events, Reverted: reverted, Diff: diff, raw: tx, rawRc: rc}
}

// ---------------------------------------------------------------- emission

func (r *absRound) headerJSON(includeNumber bool) map[string]any {
	t, _ := templates()
	doc := cloneJSON(t.header)
	doc["status"] = "PRE_CONFIRMED"
	doc["starknet_version"] = r.Version
	doc["timestamp"] = r.Timestamp
	doc["sequencer_address"] = r.Seq
	doc["block_identifier"] = r.Ident
	doc["changed"] = true
	if includeNumber {
		doc["block_number"] = r.Number
	}
	return doc
}

func txLists(txs []*absTx, firstIndex int) (txl, rcl, sdl []any) {
	txl, rcl, sdl = []any{}, []any{}, []any{}
	for i, tx := range txs {
		rc := cloneJSON(tx.rawRc)
		rc["transaction_index"] = firstIndex + i
		txl = append(txl, tx.raw)
		rcl = append(rcl, rc)
		sdl = append(sdl, tx.Diff.wire())
	}
	return
}

// fullJSON is the "changed": true + timestamp response carrying the first n
// transactions of the round.
func (r *absRound) fullJSON(n int, includeNumber bool) []byte {
	doc := r.headerJSON(includeNumber)
	doc["transactions"], doc["transaction_receipts"], doc["transaction_state_diffs"] = txLists(r.Txs[:n], 0)
	b, err := json.Marshal(doc)
	if err != nil {
		panic(err)
	}
	return b
}

// deltaJSON is the "changed": true response without header, carrying
// transactions [from, to) of the round.
func (r *absRound) deltaJSON(from, to int) []byte {
	doc := map[string]any{"changed": true, "block_identifier": r.Ident}
	doc["transactions"], doc["transaction_receipts"], doc["transaction_state_diffs"] = txLists(r.Txs[from:to], from)
	b, err := json.Marshal(doc)
	if err != nil {
		panic(err)
	}
	return b
}

func noChangeJSON() []byte { return []byte(`{"changed": false}`) }

// decode runs the production decode + validation path of the feeder client.
func decode(js []byte) (starknet.PreConfirmedUpdate, uint64, error) {
	env, err := starknet.DecodePreConfirmedUpdate(bytes.NewReader(js))
	if err != nil {
		return nil, 0, err
	}
	if err := env.Validate(); err != nil {
		return nil, 0, err
	}
	return env.Update, env.BlockNumber, nil
}

// ---------------------------------------------------------------- random rounds

// universe is the fixed probe set of one script.
type universe struct {
	Genesis  []string // contracts deployed in canonical block 0
	CanonNew []string // contracts canonical blocks may deploy later
	ViewNew  []string // contracts only pre-confirmed blocks deploy; ViewAt[i] is the only height allowed to deploy ViewNew[i]
	ViewAt   []uint64
	Never    string
	Keys     []string
	Classes  []string // class hashes (contract classes)
	CanonV0  []string // classes declared (cairo0) by canonical blocks
	ViewV0   []string // classes pre-confirmed blocks declare as cairo0
	ViewV1   []string // classes pre-confirmed blocks declare as sierra
}

func newUniverse(rng *rand.Rand, firstPre uint64) *universe {
	u := &universe{Never: hx(0xdead)}
	for i := uint64(0); i < 3; i++ {
		u.Genesis = append(u.Genesis, hx(0x100+i))
		u.CanonNew = append(u.CanonNew, hx(0x200+i))
	}
	// adjacent keys and addresses on purpose (last-bit siblings)
	for i := uint64(0); i < 4; i++ {
		u.ViewNew = append(u.ViewNew, hx(0x300+i))
		u.ViewAt = append(u.ViewAt, firstPre+rng.Uint64N(6))
	}
	u.Keys = []string{hx(2), hx(3), hx(0x10), hx(0x7fff)}
	u.Classes = []string{hx(0xc1), hx(0xc2), hx(0xc3)}
	u.CanonV0 = []string{hx(0xd0), hx(0xd1), hx(0xd2), hx(0xd3)}
	u.ViewV0 = []string{hx(0xe0), hx(0xe1)}
	u.ViewV1 = []string{hx(0xf0), hx(0xf1), hx(0xf2)}
	return u
}

func (u *universe) contracts() []string {
	out := append([]string{}, u.Genesis...)
	out = append(out, u.CanonNew...)
	out = append(out, u.ViewNew...)
	return append(out, u.Never)
}

func (u *universe) classHashes() []string {
	out := append([]string{}, u.CanonV0...)
	out = append(out, u.ViewV0...)
	out = append(out, u.ViewV1...)
	return append(out, hx(0xdeadc))
}

// newRound / extend generate a round of `number` and add transactions to it.
// Validity conventions (so that "overlay in order" is unambiguous): a ViewNew
// contract is deployed only at its fixed height and written only at or after
// its deployment; classes are replaced only after a deployment point.
func newRound(rng *rand.Rand, number uint64, ident string) *absRound {
	return &absRound{
		Number: number, Ident: ident, Timestamp: 1_700_000_000 + number*7 + rng.Uint64N(5),
		Version: []string{"0.14.0", "0.14.1", "0.14.2"}[rng.IntN(3)], Seq: hx(0xabc0 + rng.Uint64N(4)),
		deployedHere: map[string]bool{}, declaredHere: map[string]bool{},
	}
}

func (r *absRound) extend(rng *rand.Rand, u *universe, ntx int, txSerial *uint64) {
	number := r.Number
	deployedHere, declaredHere := r.deployedHere, r.declaredHere
	for i := 0; i < ntx; i++ {
		d := newAbsDiff()
		kind := "INVOKE_FUNCTION"
		switch rng.IntN(10) {
		case 0:
			kind = "L1_HANDLER"
		case 1:
			kind = "DEPLOY_ACCOUNT"
		case 2:
			kind = "DECLARE"
		}
		// writable contracts: genesis ones, canon-new ones (dangling writes are legal
		// input: the view just carries them), view-new ones at/after their deployment
		writable := append([]string{}, u.Genesis...)
		writable = append(writable, u.CanonNew[rng.IntN(len(u.CanonNew))])
		for j, a := range u.ViewNew {
			if number > u.ViewAt[j] || deployedHere[a] {
				writable = append(writable, a)
			}
		}
		if kind == "DEPLOY_ACCOUNT" {
			for j, a := range u.ViewNew {
				if u.ViewAt[j] == number && !deployedHere[a] && rng.IntN(2) == 0 {
					d.Deployed[nf(a)] = nf(u.Classes[rng.IntN(len(u.Classes))])
					deployedHere[a] = true
					break
				}
			}
		}
		if kind == "DECLARE" {
			if rng.IntN(2) == 0 {
				c := u.ViewV1[rng.IntN(len(u.ViewV1))]
				if !declaredHere[c] {
					d.DeclV1[nf(c)] = hx(0xca5000 + rng.Uint64N(1<<12))
					declaredHere[c] = true
				}
			} else {
				c := u.ViewV0[rng.IntN(len(u.ViewV0))]
				if !declaredHere[c] {
					d.DeclV0 = append(d.DeclV0, nf(c))
					declaredHere[c] = true
				}
			}
			if rng.IntN(4) == 0 {
				d.Migrated[nf(u.ViewV1[rng.IntN(len(u.ViewV1))])] = hx(0xb1a000 + rng.Uint64N(1<<12))
			}
		}
		nw := rng.IntN(4)
		for w := 0; w < nw; w++ {
			a := nf(writable[rng.IntN(len(writable))])
			k := nf(u.Keys[rng.IntN(len(u.Keys))])
			v := hx(1 + rng.Uint64N(1<<32))
			if rng.IntN(6) == 0 {
				v = "0x0" // write back to zero
			}
			if d.Storage[a] == nil {
				d.Storage[a] = map[string]string{}
			}
			d.Storage[a][k] = v
		}
		if rng.IntN(3) != 0 {
			a := nf(writable[rng.IntN(len(writable))])
			d.Nonces[a] = hx(1 + rng.Uint64N(1<<20))
		}
		if rng.IntN(8) == 0 {
			a := nf(writable[rng.IntN(len(writable))])
			if _, dep := d.Deployed[a]; !dep {
				d.Replaced[a] = nf(u.Classes[rng.IntN(len(u.Classes))])
			}
		}
		*txSerial++
		hash := hx(number<<32 | *txSerial)
		r.Txs = append(r.Txs, mkTx(rng, hash, kind, rng.IntN(3), rng.IntN(7) == 0, d))
	}
}

// declared lists the class hashes declared by transactions [from,to).
func (r *absRound) declared(from, to int) (v0, v1 []string) {
	for _, tx := range r.Txs[from:to] {
		v0 = append(v0, tx.Diff.DeclV0...)
		v1 = append(v1, sortedKeys(tx.Diff.DeclV1)...)
	}
	return
}

// classDef makes a distinguishable opaque class definition for a class hash.
func classDef(hash string, sierra bool) core.ClassDefinition {
	if sierra {
		return &core.SierraClass{Abi: "abi-" + hash, SemanticVersion: "0.1.0", Program: felt.Slice[felt.Felt]{*fs(hash)}}
	}
	return &core.DeprecatedCairoClass{Abi: json.RawMessage(`[{"name":"` + hash + `"}]`), Program: "prog-" + hash}
}

package vpreconf

// Canonical chain under the pre-confirmed view: a real blockchain.Blockchain on
// the memory DB whose head the writer advances / reverts, plus a naive
// reference copy of the abstract state after every block.

import (
	"fmt"
	"math/rand/v2"

	"github.com/NethermindEth/juno/blockchain"
	"github.com/NethermindEth/juno/blockchain/networks"
	"github.com/NethermindEth/juno/core"
	"github.com/NethermindEth/juno/core/felt"
	"github.com/NethermindEth/juno/db/memory"
	_ "github.com/NethermindEth/juno/encoder/registry"
)

type absState struct {
	Class      map[string]string
	Nonce      map[string]string
	Storage    map[string]map[string]string
	DeclaredAt map[string]uint64
}

func newAbsState() *absState {
	return &absState{Class: map[string]string{}, Nonce: map[string]string{}, Storage: map[string]map[string]string{}, DeclaredAt: map[string]uint64{}}
}

func (s *absState) clone() *absState {
	o := newAbsState()
	for k, v := range s.Class {
		o.Class[k] = v
	}
	for k, v := range s.Nonce {
		o.Nonce[k] = v
	}
	for a, m := range s.Storage {
		mm := map[string]string{}
		for k, v := range m {
			mm[k] = v
		}
		o.Storage[a] = mm
	}
	for k, v := range s.DeclaredAt {
		o.DeclaredAt[k] = v
	}
	return o
}

func (s *absState) apply(d *absDiff, height uint64) {
	for a, c := range d.Deployed {
		s.Class[a] = c
	}
	for a, c := range d.Replaced {
		s.Class[a] = c
	}
	for a, n := range d.Nonces {
		s.Nonce[a] = n
	}
	for a, m := range d.Storage {
		if s.Storage[a] == nil {
			s.Storage[a] = map[string]string{}
		}
		for k, v := range m {
			s.Storage[a][k] = v
		}
	}
	for _, c := range d.DeclV0 {
		if _, ok := s.DeclaredAt[c]; !ok {
			s.DeclaredAt[c] = height
		}
	}
}

// canonBlock is one block of the reference canonical chain. ID is a unique
// identity of this block instance (a regrown block at the same height gets a
// new ID), State the abstract state after it. Immutable once built.
type canonBlock struct {
	Number uint64
	ID     uint64
	State  *absState
	Diff   *absDiff
}

// canonModel is the pure reference of the canonical chain (used at script
// generation time).
type canonModel struct {
	blocks []*canonBlock
	salt   uint64
}

func (c *canonModel) height() uint64 { return uint64(len(c.blocks) - 1) }

func coreDiffFromAbs(d *absDiff) *core.StateDiff {
	sd := core.EmptyStateDiff()
	for a, m := range d.Storage {
		mm := map[felt.Felt]*felt.Felt{}
		for k, v := range m {
			mm[*fs(k)] = fs(v)
		}
		sd.StorageDiffs[*fs(a)] = mm
	}
	for a, v := range d.Nonces {
		sd.Nonces[*fs(a)] = fs(v)
	}
	for a, v := range d.Deployed {
		sd.DeployedContracts[*fs(a)] = fs(v)
	}
	for a, v := range d.Replaced {
		sd.ReplacedClasses[*fs(a)] = fs(v)
	}
	for _, c := range d.DeclV0 {
		sd.DeclaredV0Classes = append(sd.DeclaredV0Classes, fs(c))
	}
	return &sd
}

// genDiff draws the diff of the next canonical block. No zero-valued writes
// (reverting a zero write to a never-written slot is a separate, known defect
// of the legacy state and none of C20's business).
func (c *canonModel) genDiff(rng *rand.Rand, u *universe) *absDiff {
	d := newAbsDiff()
	n := uint64(len(c.blocks))
	var prev *absState
	if n == 0 {
		prev = newAbsState()
		for _, a := range u.Genesis {
			d.Deployed[nf(a)] = nf(u.Classes[rng.IntN(len(u.Classes))])
		}
		d.DeclV0 = append(d.DeclV0, nf(u.CanonV0[0]))
	} else {
		prev = c.blocks[n-1].State
	}
	exists := func(a string) bool {
		if _, ok := prev.Class[a]; ok {
			return true
		}
		_, ok := d.Deployed[a]
		return ok
	}
	if n > 0 && rng.IntN(3) == 0 {
		a := nf(u.CanonNew[rng.IntN(len(u.CanonNew))])
		if !exists(a) {
			d.Deployed[a] = nf(u.Classes[rng.IntN(len(u.Classes))])
		}
	}
	if n > 0 && rng.IntN(4) == 0 {
		cl := nf(u.CanonV0[rng.IntN(len(u.CanonV0))])
		if _, ok := prev.DeclaredAt[cl]; !ok {
			d.DeclV0 = append(d.DeclV0, cl)
		}
	}
	var live []string
	for _, a := range append(append([]string{}, u.Genesis...), u.CanonNew...) {
		if exists(nf(a)) {
			live = append(live, nf(a))
		}
	}
	c.salt++
	for w := rng.IntN(5); w > 0 && len(live) > 0; w-- {
		a := live[rng.IntN(len(live))]
		if d.Storage[a] == nil {
			d.Storage[a] = map[string]string{}
		}
		d.Storage[a][nf(u.Keys[rng.IntN(len(u.Keys))])] = hx(0x1000000 + c.salt*16 + uint64(w))
	}
	if len(live) > 0 && rng.IntN(2) == 0 {
		d.Nonces[live[rng.IntN(len(live))]] = hx(0x2000000 + c.salt)
	}
	if n > 0 && len(live) > 0 && rng.IntN(6) == 0 {
		a := live[rng.IntN(len(live))]
		if _, dep := d.Deployed[a]; !dep {
			d.Replaced[a] = nf(u.Classes[rng.IntN(len(u.Classes))])
		}
	}
	return d
}

func (c *canonModel) advance(d *absDiff) {
	n := uint64(len(c.blocks))
	prev := newAbsState()
	if n > 0 {
		prev = c.blocks[n-1].State
	}
	st := prev.clone()
	st.apply(d, n)
	c.salt++
	c.blocks = append(c.blocks, &canonBlock{Number: n, ID: c.salt, State: st, Diff: d})
}

func (c *canonModel) revert() { c.blocks = c.blocks[:len(c.blocks)-1] }

// snapshot returns an immutable copy of the per-height reference.
func (c *canonModel) snapshot() []*canonBlock {
	return append([]*canonBlock(nil), c.blocks...)
}

// canonReal is the real chain the diffs are executed on.
type canonReal struct {
	bc     *blockchain.Blockchain
	hashes []*felt.Felt
	roots  []*felt.Felt
	salt   uint64
}

func newCanonReal() *canonReal {
	return &canonReal{bc: blockchain.New(memory.New(), &networks.Sepolia)}
}

func (c *canonReal) height() uint64 { return uint64(len(c.hashes) - 1) }

// advance appends one block carrying diff d to the real chain.
func (c *canonReal) advance(d *absDiff) error {
	n := uint64(len(c.hashes))
	parent, oldRoot := &felt.Zero, &felt.Zero
	if n > 0 {
		parent, oldRoot = c.hashes[n-1], c.roots[n-1]
	}
	rc := []*core.TransactionReceipt{}
	c.salt++
	b := &core.Block{Header: &core.Header{
		ParentHash: parent, Number: n, SequencerAddress: fu(7), Timestamp: 1000 + n*3 + c.salt%3,
		ProtocolVersion: "0.14.0", EventsBloom: core.EventsBloom(rc),
		L1GasPriceETH: fu(1), L1GasPriceSTRK: fu(2), L1DAMode: core.Blob,
		L1DataGasPrice: &core.GasPrice{PriceInWei: fu(3), PriceInFri: fu(4)},
		L2GasPrice:     &core.GasPrice{PriceInWei: fu(5), PriceInFri: fu(6)},
	}, Transactions: []core.Transaction{}, Receipts: rc}
	su := &core.StateUpdate{OldRoot: oldRoot, StateDiff: coreDiffFromAbs(d)}
	classes := map[felt.Felt]core.ClassDefinition{}
	for _, cl := range d.DeclV0 {
		classes[*fs(cl)] = classDef(cl, false)
	}
	if err := c.bc.Finalise(b, su, classes, nil); err != nil {
		return fmt.Errorf("finalise canonical block %d: %w", n, err)
	}
	c.hashes = append(c.hashes, b.Hash)
	c.roots = append(c.roots, b.GlobalStateRoot)
	return nil
}

func (c *canonReal) revert() error {
	if len(c.hashes) <= 1 {
		return fmt.Errorf("refusing to revert genesis")
	}
	if err := c.bc.RevertHead(); err != nil {
		return fmt.Errorf("revert canonical head %d: %w", c.height(), err)
	}
	c.hashes = c.hashes[:len(c.hashes)-1]
	c.roots = c.roots[:len(c.roots)-1]
	return nil
}

package vpreconf

// Seeded writer scripts: a sequence of storage operations (ApplyUpdate with
// full / delta / no-change updates, AdvanceTo) and canonical head movements,
// generated against the sequential model so that every scenario of the
// quantifier (append, richer same round, preserve, new round at / below tip,
// blank identifier, delta good / bad, no-change with / without classes, gap,
// below-oldest, misaligned, bootstrap, drop, trim, revert) is reachable.

import (
	"fmt"
	"math/rand/v2"

	"github.com/NethermindEth/juno/core"
)

type step struct {
	Op       *op
	Out      outcome
	Why      string
	After    mChain        // model chain after the step
	Affected *mBlock       // slot ApplyUpdate must return
	Canon    []*canonBlock // canonical reference after the step
}

type script struct {
	U       *universe
	Genesis []*absDiff // canonical blocks built before step 0
	Canon0  []*canonBlock // canonical reference before step 0
	Steps   []*step
	AllTx   []string // every transaction hash the script ever emits
	defs    map[string]core.ClassDefinition
}

type scriptGen struct {
	rng      *rand.Rand
	u        *universe
	cm       *canonModel
	chain    mChain
	identSer uint64
	txSer    uint64
	defs     map[string]core.ClassDefinition
	allTx    map[string]bool
	maxHead  uint64
	// longTarget > 0: keep appending until the stored chain is that long (views of dozens of blocks)
	longTarget int
}

func (g *scriptGen) def(hash string, sierra bool) core.ClassDefinition {
	if d, ok := g.defs[hash]; ok {
		return d
	}
	d := classDef(hash, sierra)
	g.defs[hash] = d
	return d
}

func (g *scriptGen) newIdent() string {
	g.identSer++
	return hx(0x1cb00000 + g.identSer)
}

// classesFor returns definitions for the classes declared in txs [from,to) of r.
func (g *scriptGen) classesFor(r *absRound, from, to int) map[string]core.ClassDefinition {
	v0, v1 := r.declared(from, to)
	if len(v0)+len(v1) == 0 {
		return nil
	}
	m := map[string]core.ClassDefinition{}
	for _, c := range v0 {
		m[c] = g.def(c, false)
	}
	for _, c := range v1 {
		m[c] = g.def(c, true)
	}
	return m
}

func (g *scriptGen) extraClass() map[string]core.ClassDefinition {
	c := nf(g.u.ViewV1[g.rng.IntN(len(g.u.ViewV1))])
	if g.rng.IntN(2) == 0 {
		c = nf(g.u.ViewV0[g.rng.IntN(len(g.u.ViewV0))])
		return map[string]core.ClassDefinition{c: g.def(c, false)}
	}
	return map[string]core.ClassDefinition{c: g.def(c, true)}
}

func (g *scriptGen) ensureTxs(r *absRound, n int) {
	if len(r.Txs) < n {
		r.extend(g.rng, g.u, n-len(r.Txs), &g.txSer)
	}
	for _, tx := range r.Txs {
		g.allTx[tx.Hash] = true
	}
}

func (g *scriptGen) fullOp(tag string, num uint64, r *absRound, to int, classes map[string]core.ClassDefinition) *op {
	g.ensureTxs(r, to)
	return &op{Kind: opFull, Tag: tag, Num: num, Oldest: g.cm.height() + 1, Round: r, To: to, Classes: classes,
		wire: r.fullJSON(to, g.rng.IntN(2) == 0)}
}

func (g *scriptGen) deltaOp(tag string, num uint64, r *absRound, from, to int, base uint64, classes map[string]core.ClassDefinition) *op {
	g.ensureTxs(r, to)
	return &op{Kind: opDelta, Tag: tag, Num: num, Oldest: g.cm.height() + 1, Round: r, From: from, To: to, Base: base,
		Classes: classes, wire: r.deltaJSON(from, to)}
}

func (g *scriptGen) noChangeOp(tag string, num uint64, classes map[string]core.ClassDefinition) *op {
	return &op{Kind: opNoChange, Tag: tag, Num: num, Oldest: g.cm.height() + 1, Classes: classes, wire: noChangeJSON()}
}

// sameRoundClasses picks a class argument for a re-send of the round held by
// slot b that is unambiguous under the documented preserve rule (nil, exactly
// the held set, or a strict superset).
func (g *scriptGen) sameRoundClasses(b *mBlock) map[string]core.ClassDefinition {
	switch g.rng.IntN(4) {
	case 0:
		return copyClasses(b.Classes)
	case 1:
		return mergedClasses(b.Classes, g.extraClass())
	}
	return nil
}

func (g *scriptGen) next() *op {
	rng := g.rng
	h := g.cm.height()
	c := g.chain
	// like the poller, usually realign first once the head has moved
	if len(c) > 0 && c.oldest() != h+1 && rng.IntN(10) < 7 {
		return &op{Kind: opAdvance, Tag: "advance-to-head", Oldest: h + 1}
	}
	for {
		w := rng.IntN(100)
		// long-view scripts: the pre-confirmed tip runs far ahead of the canonical head (a node whose
		// block storage lags): appends dominate until the view is a few dozen blocks long
		if g.longTarget > 0 && len(c) < g.longTarget && rng.IntN(10) < 6 {
			w = 30
		}
		switch {
		case w < 9: // head advances
			if h >= g.maxHead {
				continue
			}
			return &op{Kind: opHeadUp, Tag: "head+1", Canon: g.cm.genDiff(rng, g.u)}
		case w < 12: // head reverts
			if h < 2 {
				continue
			}
			return &op{Kind: opHeadDown, Tag: "head-1"}
		case w < 24: // the poller's realignment
			return &op{Kind: opAdvance, Tag: "advance-to-head", Oldest: h + 1}
		case w < 26: // realignment to an arbitrary slot
			lo := h
			if len(c) > 0 && c.oldest() > 1 {
				lo = c.oldest() - 1
			}
			return &op{Kind: opAdvance, Tag: "advance-arbitrary", Oldest: lo + rng.Uint64N(6)}
		case w < 42: // bootstrap / append a new height
			num := h + 1
			if len(c) > 0 {
				num = c.tip() + 1
			}
			r := newRound(rng, num, g.newIdent())
			if rng.IntN(25) == 0 {
				r.Version = []string{"0.15.0", "1.0.0"}[rng.IntN(2)]
			}
			to := rng.IntN(4)
			var cl map[string]core.ClassDefinition
			g.ensureTxs(r, to)
			if rng.IntN(2) == 0 {
				cl = g.classesFor(r, 0, to)
			}
			tag := "full-append"
			if len(c) == 0 {
				tag = "full-bootstrap"
			}
			return g.fullOp(tag, num, r, to, cl)
		case w < 50: // same round, richer
			if len(c) == 0 {
				continue
			}
			b := c[len(c)-1]
			if rng.IntN(4) == 0 {
				b = c[rng.IntN(len(c))]
			}
			to := len(b.Txs) + 1 + rng.IntN(3)
			return g.fullOp("full-same-round-richer", b.Number, b.Round, to, g.sameRoundClasses(b))
		case w < 54: // same round, not richer
			if len(c) == 0 {
				continue
			}
			b := c[rng.IntN(len(c))]
			to := rng.IntN(len(b.Txs) + 1)
			return g.fullOp("full-same-round-not-richer", b.Number, b.Round, to, g.sameRoundClasses(b))
		case w < 57: // blank identifier
			if len(c) == 0 {
				continue
			}
			b := c[rng.IntN(len(c))]
			r := newRound(rng, b.Number, blankIdent)
			to := rng.IntN(len(b.Txs) + 3)
			return g.fullOp("full-blank-identifier", b.Number, r, to, g.sameRoundClasses(b))
		case w < 65: // new round at the tip
			if len(c) == 0 {
				continue
			}
			b := c[len(c)-1]
			r := newRound(rng, b.Number, g.newIdent())
			to := rng.IntN(4)
			g.ensureTxs(r, to)
			var cl map[string]core.ClassDefinition
			if rng.IntN(2) == 0 {
				cl = g.classesFor(r, 0, to)
			}
			return g.fullOp("full-new-round-at-tip", b.Number, r, to, cl)
		case w < 71: // new round below the tip
			if len(c) < 2 {
				continue
			}
			b := c[rng.IntN(len(c)-1)]
			r := newRound(rng, b.Number, g.newIdent())
			to := rng.IntN(4)
			g.ensureTxs(r, to)
			var cl map[string]core.ClassDefinition
			if rng.IntN(2) == 0 {
				cl = g.classesFor(r, 0, to)
			}
			return g.fullOp("full-new-round-below-tip", b.Number, r, to, cl)
		case w < 85: // delta at the tip
			if len(c) == 0 {
				continue
			}
			b := c[len(c)-1]
			from := len(b.Txs)
			to := from + 1 + rng.IntN(3)
			g.ensureTxs(b.Round, to)
			var cl map[string]core.ClassDefinition
			if rng.IntN(2) == 0 {
				cl = g.classesFor(b.Round, from, to)
			}
			return g.deltaOp("delta-at-tip", b.Number, b.Round, from, to, uint64(from), cl)
		case w < 90: // malformed / misdirected deltas
			switch rng.IntN(5) {
			case 0: // wrong base count
				if len(c) == 0 {
					continue
				}
				b := c[len(c)-1]
				from := len(b.Txs)
				return g.deltaOp("delta-wrong-base", b.Number, b.Round, from, from+1, uint64(from)+1+rng.Uint64N(2), nil)
			case 1: // below the tip
				if len(c) < 2 {
					continue
				}
				b := c[rng.IntN(len(c)-1)]
				from := len(b.Txs)
				return g.deltaOp("delta-below-tip", b.Number, b.Round, from, from+1, uint64(from), nil)
			case 2: // identifier of another round
				if len(c) == 0 {
					continue
				}
				b := c[len(c)-1]
				r := newRound(rng, b.Number, g.newIdent())
				from := len(b.Txs)
				return g.deltaOp("delta-other-identifier", b.Number, r, from, from+1, uint64(from), nil)
			case 3: // at a brand-new slot
				num := h + 1
				if len(c) > 0 {
					num = c.tip() + 1
				}
				r := newRound(rng, num, g.newIdent())
				return g.deltaOp("delta-at-new-slot", num, r, 0, 1, 0, nil)
			default: // right base, wrong offset (skips transactions of the round)
				if len(c) == 0 {
					continue
				}
				b := c[len(c)-1]
				from := len(b.Txs)
				return g.deltaOp("delta-skipping-offset", b.Number, b.Round, from+1, from+2, uint64(from), nil)
			}
		case w < 96: // no-change
			num := h + 1
			var tipBlock *mBlock
			if len(c) > 0 {
				tipBlock = c[len(c)-1]
				num = tipBlock.Number
			}
			switch rng.IntN(6) {
			case 0, 1:
				return g.noChangeOp("nochange-plain", num, nil)
			case 2, 3:
				cl := g.extraClass()
				if tipBlock != nil && rng.IntN(2) == 0 {
					if d := g.classesFor(tipBlock.Round, 0, len(tipBlock.Txs)); d != nil {
						cl = d
					}
				}
				return g.noChangeOp("nochange-with-classes", num, cl)
			case 4:
				if tipBlock == nil || len(tipBlock.Classes) == 0 {
					continue
				}
				return g.noChangeOp("nochange-classes-already-held", num, copyClasses(tipBlock.Classes))
			default:
				if len(c) < 2 {
					continue
				}
				return g.noChangeOp("nochange-below-tip", c[rng.IntN(len(c)-1)].Number, g.extraClass())
			}
		default: // misplaced full blocks
			switch rng.IntN(4) {
			case 0: // gap above the tip
				if len(c) == 0 {
					continue
				}
				num := c.tip() + 2 + rng.Uint64N(2)
				return g.fullOp("full-gap-above-tip", num, newRound(rng, num, g.newIdent()), rng.IntN(3), nil)
			case 1: // below the oldest slot
				if len(c) == 0 || c.oldest() < 2 {
					continue
				}
				num := c.oldest() - 1
				return g.fullOp("full-below-oldest", num, newRound(rng, num, g.newIdent()), rng.IntN(3), nil)
			case 2: // oldestPreConf argument that does not match
				num := h + 1
				if len(c) > 0 {
					num = c.tip() + rng.Uint64N(2)
				}
				o := g.fullOp("full-misaligned-oldest-arg", num, newRound(rng, num, g.newIdent()), rng.IntN(3), nil)
				o.Oldest += 1 + rng.Uint64N(2)
				return o
			default: // bootstrap somewhere else than head+1
				num := h + 2 + rng.Uint64N(2)
				if len(c) > 0 {
					continue
				}
				return g.fullOp("full-bootstrap-off-head", num, newRound(rng, num, g.newIdent()), rng.IntN(3), nil)
			}
		}
	}
}

// genScript builds a script of n steps. The canonical chain starts at a
// seed-chosen height in [2,5].
func genScript(rng *rand.Rand, n int) *script {
	startHead := 2 + rng.Uint64N(4)
	u := newUniverse(rng, startHead+1)
	g := &scriptGen{rng: rng, u: u, cm: &canonModel{}, defs: map[string]core.ClassDefinition{}, allTx: map[string]bool{},
		maxHead: startHead + 14}
	if rng.IntN(6) == 0 {
		g.longTarget = 17 + rng.IntN(24)
	}
	s := &script{U: u}
	for i := uint64(0); i <= startHead; i++ {
		d := g.cm.genDiff(rng, u)
		g.cm.advance(d)
		s.Genesis = append(s.Genesis, d)
	}
	s.Canon0 = g.cm.snapshot()
	for i := 0; i < n; i++ {
		o := g.next()
		st := &step{Op: o}
		switch o.Kind {
		case opHeadUp:
			g.cm.advance(o.Canon)
			st.Out, st.Why = outApplied, "canonical head advanced"
		case opHeadDown:
			g.cm.revert()
			st.Out, st.Why = outApplied, "canonical head reverted"
		default:
			g.chain, st.Out, st.Affected, st.Why = g.chain.apply(o)
		}
		st.After = g.chain
		st.Canon = g.cm.snapshot()
		s.Steps = append(s.Steps, st)
	}
	s.AllTx = sortedKeys(g.allTx)
	s.defs = g.defs
	return s
}

func (s *script) describe(upto int) []string {
	var out []string
	for i, st := range s.Steps {
		if i > upto {
			break
		}
		o := st.Op
		line := fmt.Sprintf("%d %s", i, o.Tag)
		switch o.Kind {
		case opFull:
			line += fmt.Sprintf(" num=%d ident=%s txs=[0,%d) classes=%d oldest=%d", o.Num, o.Round.Ident, o.To, len(o.Classes), o.Oldest)
		case opDelta:
			line += fmt.Sprintf(" num=%d ident=%s txs=[%d,%d) base=%d classes=%d oldest=%d", o.Num, o.Round.Ident, o.From, o.To, o.Base, len(o.Classes), o.Oldest)
		case opNoChange:
			line += fmt.Sprintf(" num=%d classes=%d oldest=%d", o.Num, len(o.Classes), o.Oldest)
		case opAdvance:
			line += fmt.Sprintf(" oldest=%d", o.Oldest)
		}
		line += fmt.Sprintf(" -> %s (%s); head=%d chain=%s", st.Out, st.Why, len(st.Canon)-1, chainShape(st.After))
		out = append(out, line)
	}
	return out
}

func chainShape(c mChain) string {
	if len(c) == 0 {
		return "[]"
	}
	s := "["
	for i, b := range c {
		if i > 0 {
			s += " "
		}
		s += fmt.Sprintf("%d:%s/%dtx/%dcl", b.Number, b.Ident, len(b.Txs), len(b.Classes))
	}
	return s + "]"
}

package vproof

import (
	"fmt"
	"math/big"
	"testing"

	"github.com/NethermindEth/juno/core/felt"
	"github.com/NethermindEth/juno/core/trie"
	"github.com/NethermindEth/juno/core/trie2"
	"github.com/NethermindEth/juno/verifh/lib"
)

func bi(s string) *big.Int { b, _ := new(big.Int).SetString(s, 16); return b }

func scen(name string, all []*big.Int, first *big.Int, claim []*big.Int, pl, pr *big.Int) {
	vals := map[string]*felt.Felt{}
	for i, k := range all {
		vals[k.String()] = lib.F(uint64(0x40 + i))
	}
	var ks, vs []*felt.Felt
	for _, k := range claim {
		ks = append(ks, lib.FeltOfBig(k))
		v := vals[k.String()]
		if v == nil {
			v = lib.F(0x99)
		}
		vs = append(vs, v)
	}
	trie.RunOnTempTriePedersen(251, func(tr *trie.Trie) error {
		for _, k := range all {
			tr.Update(lib.FeltOfBig(k), vals[k.String()])
		}
		root, _ := tr.Hash()
		ps := trie.NewProofNodeSet()
		tr.GetRangeProof(lib.FeltOfBig(pl), lib.FeltOfBig(pr), ps)
		more, err := trie.VerifyRangeProof(&root, lib.FeltOfBig(first), ks, vs, ps)
		fmt.Printf("%-40s legacy: more=%v err=%v (rootKeyLen=%d)\n", name, more, err, tr.RootKey().Len())
		return nil
	})
	trie2.RunOnTempTriePedersen(251, func(tr *trie2.Trie) error {
		for _, k := range all {
			tr.Update(lib.FeltOfBig(k), vals[k.String()])
		}
		root, _ := tr.Hash()
		ps := trie2.NewProofNodeSet()
		tr.GetRangeProof(lib.FeltOfBig(pl), lib.FeltOfBig(pr), ps)
		func() {
			defer func() {
				if p := recover(); p != nil {
					fmt.Printf("%-40s trie2: PANIC %v\n", name, p)
				}
			}()
			more, err := trie2.VerifyRangeProof(&root, lib.FeltOfBig(first), ks, vs, ps)
			fmt.Printf("%-40s trie2 : more=%v err=%v\n", name, more, err)
		}()
		return nil
	})
}

func TestScratch(t *testing.T) {
	top := new(big.Int).Lsh(big.NewInt(1), 250)
	a, b, c, d := big.NewInt(5), big.NewInt(0x1000), big.NewInt(0x1001), big.NewInt(0x7000)
	e := new(big.Int).Add(top, big.NewInt(9))
	// root = edge (all small keys)
	S := []*big.Int{a, b, c, d}
	scen("edge-root honest prefix [5,0x1000]", S, a, []*big.Int{a, b}, a, b)
	scen("edge-root honest single 5", S, a, []*big.Int{a}, a, a)
	scen("edge-root drop first", S, a, []*big.Int{b, c}, a, c)
	scen("edge-root drop middle(0x1000) of [5..0x7000]", S, a, []*big.Int{a, c, d}, a, d)
	scen("edge-root gap: [0x1000,0x7000] w/o 0x1001", S, b, []*big.Int{b, d}, b, d)
	scen("edge-root first=0x1000 omitted, [0x1001]", S, b, []*big.Int{c}, b, c)
	scen("edge-root first=0x1000 omitted, [0x1001,0x7000]", S, b, []*big.Int{c, d}, b, d)
	scen("edge-root nothing after 0x7001", S, big.NewInt(0x7001), nil, big.NewInt(0x7001), big.NewInt(0x7001))
	// root = binary
	B := []*big.Int{a, b, c, d, e}
	scen("bin-root honest prefix [5,0x1000]", B, a, []*big.Int{a, b}, a, b)
	scen("bin-root honest single 5", B, a, []*big.Int{a}, a, a)
	scen("bin-root honest whole", B, a, B, a, e)
	scen("bin-root drop first of whole", B, a, []*big.Int{b, c, d, e}, a, e)
	scen("bin-root drop 0x7000 of whole", B, a, []*big.Int{a, b, c, e}, a, e)
	scen("bin-root drop 0x7000 of [5..0x7000..e]w/ proof", B, a, []*big.Int{a, b, c, e}, a, e)
	scen("bin-root alter value middle", B, a, []*big.Int{a, b, big.NewInt(0x1002), d, e}, a, e)
	scen("bin-root nothing after e+1", B, new(big.Int).Add(e, big.NewInt(1)), nil, new(big.Int).Add(e, big.NewInt(1)), new(big.Int).Add(e, big.NewInt(1)))
	scen("bin-root range inside left half [0x1000..0x7000]", B, b, []*big.Int{b, c, d}, b, d)
	scen("bin-root inside left half drop 0x1001", B, b, []*big.Int{b, d}, b, d)
	scen("bin-root inside left half drop-first [0x1001,0x7000] first=0x1000", B, b, []*big.Int{c, d}, b, d)
}

package vproof

import (
	"context"
	"encoding/json"
	"fmt"
	"github.com/NethermindEth/juno/verifh/lib/chain"
	"math/big"
	"math/rand/v2"
	"os"
	"sort"
	"strings"
	"time"

	"github.com/NethermindEth/juno/blockchain"
	"github.com/NethermindEth/juno/blockchain/networks"
	"github.com/NethermindEth/juno/core"
	"github.com/NethermindEth/juno/core/crypto"
	"github.com/NethermindEth/juno/core/felt"
	"github.com/NethermindEth/juno/db/memory"
	_ "github.com/NethermindEth/juno/encoder/registry"
	"github.com/NethermindEth/juno/jsonrpc"
	"github.com/NethermindEth/juno/rpc"
	"github.com/NethermindEth/juno/sync"
	"github.com/NethermindEth/juno/utils/log"
	"github.com/NethermindEth/juno/verifh/lib"
)

// ---------------------------------------------------------------- abstract state (reference model)

type cstate struct {
	Class   felt.Felt
	Nonce   felt.Felt
	Storage map[string]lib.KV
}

type world struct {
	Contracts map[string]*cstate  // key = address decimal
	Addr      map[string]*big.Int // address decimal -> integer
	Classes   map[string]lib.KV   // class hash decimal -> (class hash, casm hash)
}

func (w *world) clone() *world {
	c := newWorld()
	for a, cs := range w.Contracts {
		st := map[string]lib.KV{}
		for k, v := range cs.Storage {
			st[k] = v
		}
		c.Contracts[a] = &cstate{Class: cs.Class, Nonce: cs.Nonce, Storage: st}
	}
	for a, v := range w.Addr {
		c.Addr[a] = v
	}
	for a, v := range w.Classes {
		c.Classes[a] = v
	}
	return c
}

func newWorld() *world {
	return &world{Contracts: map[string]*cstate{}, Addr: map[string]*big.Int{}, Classes: map[string]lib.KV{}}
}

var (
	classLeafVersion = new(felt.Felt).SetBytes([]byte("CONTRACT_CLASS_LEAF_V0"))
	stateVersion     = new(felt.Felt).SetBytes([]byte("STARKNET_STATE_V0"))
)

// contractLeaf: H(H(H(class_hash, storage_root), nonce), 0) with H = Pedersen.
func contractLeaf(class, storageRoot, nonce *felt.Felt) felt.Felt {
	a := crypto.Pedersen(class, storageRoot)
	b := crypto.Pedersen(&a, nonce)
	return crypto.Pedersen(&b, &felt.Zero)
}

func (w *world) storageRoot(a string) felt.Felt {
	cs := w.Contracts[a]
	if cs == nil {
		return felt.Zero
	}
	return lib.RefRoot(lib.SortedKVs(cs.Storage), height, crypto.Pedersen)
}

func (w *world) contractsRoot() felt.Felt {
	m := map[string]lib.KV{}
	for a, cs := range w.Contracts {
		sr := w.storageRoot(a)
		leaf := contractLeaf(&cs.Class, &sr, &cs.Nonce)
		m[a] = lib.KV{K: w.Addr[a], V: &leaf}
	}
	return lib.RefRoot(lib.SortedKVs(m), height, crypto.Pedersen)
}

func (w *world) classLeaf(c string) felt.Felt {
	kv, ok := w.Classes[c]
	if !ok {
		return felt.Zero
	}
	return crypto.Poseidon(classLeafVersion, kv.V)
}

func (w *world) classesRoot() felt.Felt {
	m := map[string]lib.KV{}
	for c, kv := range w.Classes {
		leaf := w.classLeaf(c)
		m[c] = lib.KV{K: kv.K, V: &leaf}
	}
	return lib.RefRoot(lib.SortedKVs(m), height, crypto.Poseidon)
}

// stateCommitment by protocol version: empty state -> 0; before 0.14.0 an empty
// class tree leaves the contracts root alone; otherwise
// Poseidon("STARKNET_STATE_V0", contracts_root, classes_root).
func stateCommitment(contracts, classes *felt.Felt, pre014 bool) felt.Felt {
	if contracts.IsZero() && classes.IsZero() {
		return felt.Zero
	}
	if classes.IsZero() && pre014 {
		return *contracts
	}
	return crypto.PoseidonElems(stateVersion, contracts, classes)
}

func pre014(version string) bool { return strings.HasPrefix(version, "0.13.") }

// ---------------------------------------------------------------- chain under observation

type chainCase struct {
	NewState bool
	Version  string
	Blocks   int
}

func mkBlock(n uint64, parent *felt.Felt, version string) *core.Block {
	rc := []*core.TransactionReceipt{}
	return &core.Block{Header: &core.Header{
		ParentHash: parent, Number: n, SequencerAddress: lib.F(7), Timestamp: 1000 + n,
		ProtocolVersion: version, EventsBloom: core.EventsBloom(rc),
		L1GasPriceETH: lib.F(1), L1GasPriceSTRK: lib.F(2), L1DAMode: core.Blob,
		L1DataGasPrice: &core.GasPrice{PriceInWei: lib.F(3), PriceInFri: lib.F(4)},
		L2GasPrice:     &core.GasPrice{PriceInWei: lib.F(5), PriceInFri: lib.F(6)},
	}, Transactions: []core.Transaction{}, Receipts: rc}
}

func dummySierra(seed uint64) *core.SierraClass {
	return &core.SierraClass{
		Abi: "[]", AbiHash: lib.F(seed + 1), Program: []felt.Felt{*lib.F(seed + 2), *lib.F(seed + 3)},
		ProgramHash: lib.F(seed + 4), SemanticVersion: "0.1.0",
		Compiled: &core.CasmClass{
			Bytecode: []felt.Felt{*lib.F(1)}, PythonicHints: json.RawMessage(`[]`), Hints: json.RawMessage(`[]`),
			CompilerVersion: "2.1.0", Prime: new(big.Int).SetUint64(17),
			External: []core.CasmEntryPoint{}, L1Handler: []core.CasmEntryPoint{}, Constructor: []core.CasmEntryPoint{},
		},
	}
}

var avoidSiblingDelete = os.Getenv("VERIF_C10_SIBLING_DELETE") != "1"

// genDiff draws the state diff of the next block and applies it to the model.
func genDiff(rng *rand.Rand, w *world, n int, addrPool, slotPool, classPool []*big.Int) (*core.StateDiff, map[felt.Felt]core.ClassDefinition) {
	sd := core.EmptyStateDiff()
	newClasses := map[felt.Felt]core.ClassDefinition{}
	// declarations
	nd := rng.IntN(3)
	if n == 0 && rng.IntN(3) > 0 {
		nd = 1 + rng.IntN(2)
	}
	for i := 0; i < nd; i++ {
		ch := classPool[rng.IntN(len(classPool))]
		if _, ok := w.Classes[ch.String()]; ok {
			continue
		}
		casm := randFelt(rng)
		chf := lib.FeltOfBig(ch)
		sd.DeclaredV1Classes[*chf] = casm
		newClasses[*chf] = dummySierra(uint64(rng.IntN(1 << 30)))
		w.Classes[ch.String()] = lib.KV{K: ch, V: casm}
	}
	classOf := func() *felt.Felt {
		if len(w.Classes) > 0 && rng.IntN(3) > 0 {
			ks := make([]string, 0, len(w.Classes))
			for k := range w.Classes {
				ks = append(ks, k)
			}
			sort.Strings(ks)
			return lib.FeltOfBig(w.Classes[ks[rng.IntN(len(ks))]].K)
		}
		return lib.F(0xc1a55 + uint64(rng.IntN(4)))
	}
	// deployments
	ndep := rng.IntN(3)
	if n == 0 {
		ndep = 2 + rng.IntN(3)
	}
	for i := 0; i < ndep; i++ {
		a := addrPool[rng.IntN(len(addrPool))]
		if _, ok := w.Contracts[a.String()]; ok || a.Cmp(big.NewInt(3)) < 0 {
			continue
		}
		ch := classOf()
		sd.DeployedContracts[*lib.FeltOfBig(a)] = ch
		w.Contracts[a.String()] = &cstate{Class: *ch, Storage: map[string]lib.KV{}}
		w.Addr[a.String()] = a
	}
	addrs := make([]string, 0, len(w.Contracts))
	for a := range w.Contracts {
		addrs = append(addrs, a)
	}
	sort.Strings(addrs)
	for _, a := range addrs {
		cs := w.Contracts[a]
		af := *lib.FeltOfBig(w.Addr[a])
		if rng.IntN(2) == 0 {
			// storage writes
			nw := 1 + rng.IntN(8)
			m := map[felt.Felt]*felt.Felt{}
			for i := 0; i < nw; i++ {
				k := slotPool[rng.IntN(len(slotPool))]
				kf := *lib.FeltOfBig(k)
				if _, dup := m[kf]; dup {
					continue
				}
				_, present := cs.Storage[k.String()]
				if present && rng.IntN(4) == 0 {
					sib := new(big.Int).SetBit(new(big.Int).Set(k), 0, k.Bit(0)^1)
					if _, sibPresent := cs.Storage[sib.String()]; sibPresent && avoidSiblingDelete {
						continue // steer around the new-state delete defect recorded for C03
					}
					m[kf] = new(felt.Felt)
					delete(cs.Storage, k.String())
					continue
				}
				v := lib.F(1 + uint64(rng.IntN(1<<30)))
				m[kf] = v
				cs.Storage[k.String()] = lib.KV{K: k, V: v}
			}
			if len(m) > 0 {
				sd.StorageDiffs[af] = m
			}
		}
		if rng.IntN(4) == 0 {
			var nn felt.Felt
			nn.Add(&cs.Nonce, lib.F(1))
			cs.Nonce = nn
			sd.Nonces[af] = cp(nn)
		}
		if _, justDeployed := sd.DeployedContracts[af]; !justDeployed && rng.IntN(8) == 0 {
			ch := classOf()
			if !ch.Equal(&cs.Class) {
				sd.ReplacedClasses[af] = ch
				cs.Class = *ch
			}
		}
	}
	return &sd, newClasses
}

// ---------------------------------------------------------------- JSON response as the spec describes it

type jNode struct {
	Left   *string `json:"left"`
	Right  *string `json:"right"`
	Path   *string `json:"path"`
	Length *int    `json:"length"`
	Child  *string `json:"child"`
}

type jMapping []struct {
	NodeHash string `json:"node_hash"`
	Node     jNode  `json:"node"`
}

type jLeaf struct {
	Nonce       *string `json:"nonce"`
	ClassHash   *string `json:"class_hash"`
	StorageRoot *string `json:"storage_root"`
}

type jResult struct {
	ClassesProof   jMapping `json:"classes_proof"`
	ContractsProof struct {
		Nodes  jMapping `json:"nodes"`
		Leaves []*jLeaf `json:"contract_leaves_data"`
	} `json:"contracts_proof"`
	StorageProofs []jMapping `json:"contracts_storage_proofs"`
	GlobalRoots   *struct {
		Contracts string `json:"contracts_tree_root"`
		Classes   string `json:"classes_tree_root"`
		BlockHash string `json:"block_hash"`
	} `json:"global_roots"`
}

type jResponse struct {
	Result *jResult `json:"result"`
	Error  *struct {
		Code    int             `json:"code"`
		Message string          `json:"message"`
		Data    json.RawMessage `json:"data"`
	} `json:"error"`
}

func hexFelt(s string) (felt.Felt, error) {
	var f felt.Felt
	if !strings.HasPrefix(s, "0x") {
		return f, fmt.Errorf("not a hex felt: %q", s)
	}
	b, ok := new(big.Int).SetString(s[2:], 16)
	if !ok {
		return f, fmt.Errorf("not a hex felt: %q", s)
	}
	f.SetBigInt(b)
	return f, nil
}

func (m jMapping) nodes() (map[felt.Felt]pnode, error) {
	out := map[felt.Felt]pnode{}
	for _, e := range m {
		k, err := hexFelt(e.NodeHash)
		if err != nil {
			return nil, err
		}
		n := e.Node
		switch {
		case n.Left != nil && n.Right != nil && n.Child == nil && n.Path == nil:
			l, err := hexFelt(*n.Left)
			if err != nil {
				return nil, err
			}
			r, err := hexFelt(*n.Right)
			if err != nil {
				return nil, err
			}
			out[k] = pnode{Bin: true, L: l, R: r}
		case n.Child != nil && n.Path != nil && n.Length != nil && n.Left == nil && n.Right == nil:
			c, err := hexFelt(*n.Child)
			if err != nil {
				return nil, err
			}
			if !strings.HasPrefix(*n.Path, "0x") {
				return nil, fmt.Errorf("edge path %q is not NUM_AS_HEX", *n.Path)
			}
			pb, ok := new(big.Int).SetString((*n.Path)[2:], 16)
			if !ok {
				return nil, fmt.Errorf("edge path %q is not NUM_AS_HEX", *n.Path)
			}
			out[k] = pnode{Child: c, Path: pb, Len: *n.Length}
		default:
			return nil, fmt.Errorf("node %s is neither BINARY_NODE nor EDGE_NODE", e.NodeHash)
		}
	}
	return out, nil
}

// ---------------------------------------------------------------- one chain case

type rpcRequest struct {
	Version   string
	BlockID   string // JSON
	BlockNum  int64  // block the id designates (-1: none / tag without a block)
	MustServe bool   // the id designates the head: the node has to answer
	Classes   []*big.Int
	Contracts []*big.Int
	Storage   []struct {
		Contract *big.Int
		Keys     []*big.Int
	}
}

func hx(b *big.Int) string { return "0x" + b.Text(16) }

func (q rpcRequest) json(id int) string {
	cl, co, st := []string{}, []string{}, []string{}
	for _, c := range q.Classes {
		cl = append(cl, `"`+hx(c)+`"`)
	}
	for _, c := range q.Contracts {
		co = append(co, `"`+hx(c)+`"`)
	}
	for _, s := range q.Storage {
		ks := []string{}
		for _, k := range s.Keys {
			ks = append(ks, `"`+hx(k)+`"`)
		}
		st = append(st, fmt.Sprintf(`{"contract_address":"%s","storage_keys":[%s]}`, hx(s.Contract), strings.Join(ks, ",")))
	}
	params := []string{`"block_id":` + q.BlockID}
	if q.Classes != nil {
		params = append(params, `"class_hashes":[`+strings.Join(cl, ",")+`]`)
	}
	if q.Contracts != nil {
		params = append(params, `"contract_addresses":[`+strings.Join(co, ",")+`]`)
	}
	if q.Storage != nil {
		params = append(params, `"contracts_storage_keys":[`+strings.Join(st, ",")+`]`)
	}
	return fmt.Sprintf(`{"jsonrpc":"2.0","id":%d,"method":"starknet_getStorageProof","params":{%s}}`, id, strings.Join(params, ","))
}

type rpcWitness struct {
	Backend  string
	Version  string
	Height   uint64
	Request  string
	Response string
	What     string
	State    string
}

func (w *world) dump() string {
	s := "contracts:"
	addrs := make([]string, 0, len(w.Contracts))
	for a := range w.Contracts {
		addrs = append(addrs, a)
	}
	sort.Strings(addrs)
	for _, a := range addrs {
		cs := w.Contracts[a]
		s += fmt.Sprintf(" {%s class=%s nonce=%s storage:", hx(w.Addr[a]), cs.Class.String(), cs.Nonce.String())
		for _, kv := range lib.SortedKVs(cs.Storage) {
			s += fmt.Sprintf(" %s=%s", kv.K.Text(16), kv.V.String())
		}
		s += "}"
	}
	s += " classes:"
	for _, kv := range w.Classes {
		s += fmt.Sprintf(" %s->casm %s", hx(kv.K), kv.V.String())
	}
	return s
}

func neighbours(rng *rand.Rand, k *big.Int) *big.Int {
	d := []int{0, 1, 2, rng.IntN(height), height - 1}[rng.IntN(5)]
	return new(big.Int).SetBit(new(big.Int).Set(k), d, k.Bit(d)^1)
}

func genRequest(rng *rand.Rand, w *world, addrPool, slotPool, classPool []*big.Int) rpcRequest {
	var q rpcRequest
	// classes
	if rng.IntN(4) > 0 {
		q.Classes = []*big.Int{}
		for i := 0; i < 1+rng.IntN(4); i++ {
			c := classPool[rng.IntN(len(classPool))]
			if rng.IntN(4) == 0 {
				c = neighbours(rng, c)
			}
			q.Classes = append(q.Classes, c)
		}
	}
	addrs := make([]string, 0, len(w.Contracts))
	for a := range w.Contracts {
		addrs = append(addrs, a)
	}
	sort.Strings(addrs)
	seen := map[string]bool{}
	if rng.IntN(5) > 0 {
		q.Contracts = []*big.Int{}
		for i := 0; i < 1+rng.IntN(4); i++ {
			var a *big.Int
			switch {
			case len(addrs) > 0 && rng.IntN(4) > 0:
				a = w.Addr[addrs[rng.IntN(len(addrs))]]
			case len(addrs) > 0 && rng.IntN(2) == 0:
				a = neighbours(rng, w.Addr[addrs[rng.IntN(len(addrs))]])
			default:
				a = addrPool[rng.IntN(len(addrPool))]
			}
			if seen[a.String()] {
				continue
			}
			seen[a.String()] = true
			q.Contracts = append(q.Contracts, a)
		}
	}
	if len(addrs) > 0 && rng.IntN(5) > 0 {
		seenS := map[string]bool{}
		for i := 0; i < 1+rng.IntN(3); i++ {
			a := addrs[rng.IntN(len(addrs))]
			if seenS[a] {
				continue
			}
			seenS[a] = true
			cs := w.Contracts[a]
			var ks []*big.Int
			present := lib.SortedKVs(cs.Storage)
			for j := 0; j < 1+rng.IntN(4); j++ {
				switch {
				case len(present) > 0 && rng.IntN(3) > 0:
					ks = append(ks, present[rng.IntN(len(present))].K)
				case len(present) > 0 && rng.IntN(2) == 0:
					ks = append(ks, neighbours(rng, present[rng.IntN(len(present))].K))
				default:
					ks = append(ks, slotPool[rng.IntN(len(slotPool))])
				}
			}
			q.Storage = append(q.Storage, struct {
				Contract *big.Int
				Keys     []*big.Int
			}{w.Addr[a], ks})
			// the storage root that anchors these slots travels in contract_leaves_data
			if rng.IntN(4) > 0 && !seen[a] {
				seen[a] = true
				q.Contracts = append(q.Contracts, w.Addr[a])
			}
		}
	}
	return q
}

type headInfo struct {
	num     uint64
	hash    felt.Felt
	root    felt.Felt
	version string
}

// verifyResponse is the independent verifier: everything the response claims
// must chain up to the state root stored in the header of the block named by
// global_roots.block_hash, that block must be the one the request designated,
// and the proven values must be the model's.
func verifyResponse(q rpcRequest, res *jResult, w *world, blocks []headInfo, counts func(string, int)) (class, what string) {
	if res.GlobalRoots == nil {
		return "rpc:global-roots-missing", "global_roots missing"
	}
	bh, err := hexFelt(res.GlobalRoots.BlockHash)
	if err != nil {
		return "rpc:malformed-response", err.Error()
	}
	var blk *headInfo
	for i := range blocks {
		if blocks[i].hash.Equal(&bh) {
			blk = &blocks[i]
		}
	}
	if blk == nil {
		return "rpc:global-roots-block-hash-unknown", "global_roots.block_hash " + bh.String() + " is not a block of the chain"
	}
	if q.BlockNum >= 0 && uint64(q.BlockNum) != blk.num {
		return "rpc:proof-served-for-other-block-than-requested",
			fmt.Sprintf("request designates block %d, response is for block %d", q.BlockNum, blk.num)
	}
	if blk.num != uint64(len(blocks)-1) {
		// the model only holds the head state; an answer for an older block cannot be judged here
		return "rpc:historical-proof-served", fmt.Sprintf("response is for block %d, head is %d", blk.num, len(blocks)-1)
	}
	croot, err := hexFelt(res.GlobalRoots.Contracts)
	if err != nil {
		return "rpc:malformed-response", err.Error()
	}
	clroot, err := hexFelt(res.GlobalRoots.Classes)
	if err != nil {
		return "rpc:malformed-response", err.Error()
	}
	sc := stateCommitment(&croot, &clroot, pre014(blk.version))
	if !sc.Equal(&blk.root) {
		return "rpc:global-roots-do-not-hash-to-block-state-root",
			fmt.Sprintf("commitment(contracts_tree_root, classes_tree_root)=%s, header state root %s", sc.String(), blk.root.String())
	}
	if want := w.contractsRoot(); !want.Equal(&croot) {
		return "rpc:contracts-tree-root-differs-from-model", fmt.Sprintf("got %s want %s", croot.String(), want.String())
	}
	if want := w.classesRoot(); !want.Equal(&clroot) {
		return "rpc:classes-tree-root-differs-from-model", fmt.Sprintf("got %s want %s", clroot.String(), want.String())
	}
	// classes
	cn, err := res.ClassesProof.nodes()
	if err != nil {
		return "rpc:malformed-response", "classes_proof: " + err.Error()
	}
	for _, c := range q.Classes {
		v, steps, err := refVerify(&clroot, c, cn, crypto.Poseidon)
		counts("rpc.class_proofs_verified", 1)
		counts("rpc.proof_nodes_walked", steps)
		if err != nil {
			return "rpc:class-proof-does-not-verify", fmt.Sprintf("class %s: %v", hx(c), err)
		}
		if want := w.classLeaf(c.String()); !v.Equal(&want) {
			return "rpc:class-proof-proves-wrong-leaf", fmt.Sprintf("class %s: proof yields %s, Poseidon(CONTRACT_CLASS_LEAF_V0, casm)=%s", hx(c), v.String(), want.String())
		}
		if v.IsZero() {
			counts("rpc.class_absence_proofs", 1)
		}
	}
	// contracts
	kn, err := res.ContractsProof.Nodes.nodes()
	if err != nil {
		return "rpc:malformed-response", "contracts_proof.nodes: " + err.Error()
	}
	if len(res.ContractsProof.Leaves) != len(q.Contracts) {
		return "rpc:contract-leaves-data-length", fmt.Sprintf("%d contract_leaves_data entries for %d requested contracts", len(res.ContractsProof.Leaves), len(q.Contracts))
	}
	leafRoot := map[string]felt.Felt{}
	for i, a := range q.Contracts {
		v, steps, err := refVerify(&croot, a, kn, crypto.Pedersen)
		counts("rpc.contract_proofs_verified", 1)
		counts("rpc.proof_nodes_walked", steps)
		if err != nil {
			return "rpc:contract-proof-does-not-verify", fmt.Sprintf("contract %s: %v", hx(a), err)
		}
		cs := w.Contracts[a.String()]
		ld := res.ContractsProof.Leaves[i]
		if cs == nil {
			counts("rpc.contract_absence_proofs", 1)
			if ld == nil {
				counts("rpc.null_leaf_data_for_absent_contract", 1)
			}
			if !v.IsZero() {
				return "rpc:contract-proof-proves-leaf-for-absent-contract", fmt.Sprintf("contract %s does not exist, proof yields %s", hx(a), v.String())
			}
			if ld != nil && (ld.ClassHash != nil && *ld.ClassHash != "0x0") {
				return "rpc:leaf-data-for-absent-contract", fmt.Sprintf("contract %s does not exist, leaf data has class %s", hx(a), *ld.ClassHash)
			}
			continue
		}
		if ld == nil || ld.Nonce == nil || ld.ClassHash == nil {
			return "rpc:leaf-data-missing-for-existing-contract", fmt.Sprintf("contract %s (request position %d)", hx(a), i)
		}
		nonce, err1 := hexFelt(*ld.Nonce)
		ch, err2 := hexFelt(*ld.ClassHash)
		if err1 != nil || err2 != nil {
			return "rpc:malformed-response", "contract_leaves_data"
		}
		if !nonce.Equal(&cs.Nonce) || !ch.Equal(&cs.Class) {
			return "rpc:leaf-data-differs-from-state", fmt.Sprintf("contract %s (position %d): leaf data nonce=%s class=%s, state nonce=%s class=%s",
				hx(a), i, nonce.String(), ch.String(), cs.Nonce.String(), cs.Class.String())
		}
		sr := w.storageRoot(a.String())
		if ld.StorageRoot != nil {
			got, err := hexFelt(*ld.StorageRoot)
			if err != nil {
				return "rpc:malformed-response", "storage_root"
			}
			if !got.Equal(&sr) {
				return "rpc:leaf-data-storage-root-differs-from-state", fmt.Sprintf("contract %s: storage_root %s, model %s", hx(a), got.String(), sr.String())
			}
			leafRoot[a.String()] = got
		}
		if want := contractLeaf(&ch, &sr, &nonce); !want.Equal(&v) {
			return "rpc:contract-leaf-hash-not-reproducible-from-leaf-data",
				fmt.Sprintf("contract %s: proof yields leaf %s, H(H(H(class,storage_root),nonce),0)=%s", hx(a), v.String(), want.String())
		}
	}
	// storage
	if len(res.StorageProofs) != len(q.Storage) {
		return "rpc:contracts-storage-proofs-length", fmt.Sprintf("%d contracts_storage_proofs for %d requested contracts", len(res.StorageProofs), len(q.Storage))
	}
	maps := make([]map[felt.Felt]pnode, len(res.StorageProofs))
	for i := range res.StorageProofs {
		if maps[i], err = res.StorageProofs[i].nodes(); err != nil {
			return "rpc:malformed-response", "contracts_storage_proofs: " + err.Error()
		}
	}
	verifyWith := func(i int, nodes map[felt.Felt]pnode) (string, string) {
		s := q.Storage[i]
		root := w.storageRoot(s.Contract.String())
		if lr, ok := leafRoot[s.Contract.String()]; ok {
			root = lr // the anchor the response itself supplies (already checked against the contract leaf)
		}
		cs := w.Contracts[s.Contract.String()]
		for _, k := range s.Keys {
			v, steps, err := refVerify(&root, k, nodes, crypto.Pedersen)
			counts("rpc.proof_nodes_walked", steps)
			if err != nil {
				return "rpc:storage-proof-does-not-verify", fmt.Sprintf("contract %s slot %s: %v", hx(s.Contract), hx(k), err)
			}
			want := felt.Zero
			if kv, ok := cs.Storage[k.String()]; ok {
				want = *kv.V
			}
			if !v.Equal(&want) {
				return "rpc:storage-proof-proves-wrong-value", fmt.Sprintf("contract %s slot %s: proof yields %s, state has %s", hx(s.Contract), hx(k), v.String(), want.String())
			}
		}
		return "", ""
	}
	for i := range q.Storage {
		cl, wh := verifyWith(i, maps[i])
		if cl == "" {
			counts("rpc.storage_slot_proofs_verified", len(q.Storage[i].Keys))
			for _, k := range q.Storage[i].Keys {
				if _, ok := w.Contracts[q.Storage[i].Contract.String()].Storage[k.String()]; !ok {
					counts("rpc.storage_absence_proofs", 1)
				}
			}
			continue
		}
		// does some other position carry the proof of this contract?
		for j := range maps {
			if j == i {
				continue
			}
			if c2, _ := verifyWith(i, maps[j]); c2 == "" {
				return "rpc:contracts-storage-proofs-not-in-request-order",
					fmt.Sprintf("the proof of contracts_storage_keys[%d] (contract %s) is at contracts_storage_proofs[%d]; positional check said: %s", i, hx(q.Storage[i].Contract), j, wh)
			}
		}
		return cl, wh
	}
	return "", ""
}

const classProofOvertaken = "rpc:getStorageProof-overtaken-by-a-block-commit:response-does-not-verify-for-the-block-it-names"

// overtakenRequest: see the call site. commit() stores block n; it is always done when this returns.
func overtakenRequest(rp *reporter, idx int, rng *rand.Rand, rec *chain.RecDB, servers map[string]*jsonrpc.Server, backend string,
	wPrev, wNext *world, blocks []headInfo, commit func() error, next headInfo, nb *core.Block,
	addrPool, slotPool, classPool []*big.Int, reqID *int,
) error {
	n := len(blocks) // number of the block being committed
	q := genRequest(rng, wPrev, addrPool, slotPool, classPool)
	q.Version = []string{"v0_10", "v0_9", "v0_8"}[rng.IntN(3)]
	switch rng.IntN(3) {
	case 0:
		q.BlockID, q.BlockNum = `"latest"`, -1
	case 1:
		q.BlockID, q.BlockNum = fmt.Sprintf(`{"block_number":%d}`, n-1), int64(n-1)
	default:
		q.BlockID, q.BlockNum = fmt.Sprintf(`{"block_hash":"%s"}`, blocks[n-1].hash.String()), int64(n-1)
	}
	q.MustServe = true
	*reqID++
	req := q.json(*reqID)
	ask := func() { _, _, _ = servers[q.Version].HandleReader(context.Background(), strings.NewReader(req)) }
	// position: among the reads this very request performs (every other time; the undisturbed
	// request warms whatever the handler caches, so the other half goes in cold at a small k)
	nreads := 0
	if rng.IntN(2) == 0 {
		return overtakenJudge(rp, idx, rng, rec, servers, backend, wPrev, wNext, blocks, commit, next, nb, q, req, 1+rng.IntN(30), 0)
	}
	rec.SetOnRead(func([]byte) { nreads++ })
	if rp.guard(idx, "rpc:"+q.Version+":getStorageProof", func() any { return rpcWitness{Backend: backend, Version: q.Version, Request: req} }, ask) {
		rec.SetOnRead(nil)
		return commit()
	}
	rec.SetOnRead(nil)
	if nreads == 0 {
		return commit()
	}
	return overtakenJudge(rp, idx, rng, rec, servers, backend, wPrev, wNext, blocks, commit, next, nb, q, req, 1+rng.IntN(nreads), nreads)
}

func overtakenJudge(rp *reporter, idx int, rng *rand.Rand, rec *chain.RecDB, servers map[string]*jsonrpc.Server, backend string,
	wPrev, wNext *world, blocks []headInfo, commit func() error, next headInfo, nb *core.Block, q rpcRequest, req string, k, nreads int,
) error {
	r := rp.r
	n := len(blocks)
	var raw []byte
	var herr, cerr error
	ask := func() { raw, _, herr = servers[q.Version].HandleReader(context.Background(), strings.NewReader(req)) }
	var fired bool
	if rp.guard(idx, "rpc:"+q.Version+":getStorageProof:overtaken", func() any { return rpcWitness{Backend: backend, Version: q.Version, Request: req} }, func() {
		fired, _ = rec.Overtake(k, 300*time.Millisecond, ask, func() { cerr = commit() })
	}) {
		return cerr
	}
	if !fired {
		r.Count("rpc.overtaken.request_finished_before_the_chosen_read", 1)
		return commit()
	}
	if cerr != nil {
		return cerr
	}
	r.Eval(1)
	r.Count("rpc.overtaken.requests_overtaken_by_the_next_block", 1)
	wit := func(what string) rpcWitness {
		resp := string(raw)
		if len(resp) > 6000 {
			resp = resp[:6000] + "..."
		}
		return rpcWitness{Backend: backend, Version: q.Version, Height: uint64(n - 1), Request: req, Response: resp,
			What: fmt.Sprintf("%s; block %d was committed right after the request's database read #%d of %d", what, n, k, nreads), State: wPrev.dump()}
	}
	var resp jResponse
	if herr != nil || json.Unmarshal(raw, &resp) != nil || (resp.Result == nil) == (resp.Error == nil) {
		rp.viol("rpc:overtaken:malformed-response", idx, fmt.Sprintf("%s/%s: unusable response to %s: %v", backend, q.Version, req, herr), wit("unusable response"))
		return nil
	}
	if resp.Error != nil && resp.Error.Code == 42 && q.BlockNum >= 0 {
		// the request names block n-1 by number / hash; by the time the handler looked, block n was
		// the head and proofs are served for the head only ("too far in the past"): a legitimate answer
		r.Count("rpc.overtaken.request_for_the_old_head_refused_as_historical", 1)
		return nil
	}
	if resp.Error != nil && resp.Error.Code == -32603 {
		// "Internal error": the handler tripped over its own reads (state opened for one block, tries /
		// records read after the next block was committed). Same call site, same history, same cause
		// as a response that does not verify: one finding (seen once in 2.4k overtaken requests of a
		// thorough run: new-state backend, v0.10, block 2 committed after read #27)
		r.Count("rpc.overtaken.symptom:internal-error", 1)
		rp.viol(classProofOvertaken, idx, fmt.Sprintf("%s/%s, request for %s overtaken by block %d after its read #%d of %d: answered with -32603 Internal error", backend, q.Version, q.BlockID, n, k, nreads), wit("internal error"))
		return nil
	}
	if resp.Error != nil {
		rp.viol(fmt.Sprintf("rpc:overtaken:head-request-refused:code%d", resp.Error.Code), idx,
			fmt.Sprintf("%s/%s: request for %s answered with error %d %s", backend, q.Version, q.BlockID, resp.Error.Code, resp.Error.Message), wit("refused"))
		return nil
	}
	next.hash, next.root = *nb.Hash, *nb.GlobalStateRoot
	w, bl := wPrev, blocks
	if resp.Result.GlobalRoots != nil {
		if bh, err := hexFelt(resp.Result.GlobalRoots.BlockHash); err == nil && bh.Equal(nb.Hash) {
			w, bl = wNext, append(append([]headInfo{}, blocks...), next)
			r.Count("rpc.overtaken.answered_for_the_new_head", 1)
		}
	}
	class, what := verifyResponse(q, resp.Result, w, bl, r.Count)
	if class != "" {
		// one call site, one cause (the handler reads head state, height, header hash and the tries
		// in separate database reads): every inconsistency of an overtaken response is one finding
		r.Count("rpc.overtaken.symptom:"+class, 1)
		rp.viol(classProofOvertaken, idx, fmt.Sprintf("%s/%s, request for %s overtaken by block %d after its read #%d of %d: %s", backend, q.Version, q.BlockID, n, k, nreads, what), wit(what))
		return nil
	}
	r.Count("rpc.overtaken.responses_fully_verified", 1)
	return nil
}

func checkChain(rp *reporter, idx int, rng *rand.Rand) {
	r := rp.r
	cc := chainCase{NewState: rng.IntN(2) == 0, Version: []string{"0.13.2", "0.14.0", "0.14.0"}[rng.IntN(3)], Blocks: 2 + rng.IntN(5)}
	backend := "legacy-state"
	if cc.NewState {
		backend = "new-state"
	}
	addrPool := lib.GenKeys(rng, height, 10)
	slotPool := lib.GenKeys(rng, height, 24)
	classPool := lib.GenKeys(rng, height, 8)
	rec := chain.NewRecDB(memory.New())
	bc := blockchain.New(rec, &networks.Sepolia, blockchain.WithNewState(cc.NewState))
	logger := log.NewNopZapLogger()
	h := rpc.New(bc, &sync.NoopSynchronizer{}, nil, "v", logger, &networks.Sepolia)
	servers := map[string]*jsonrpc.Server{}
	for _, v := range []string{"v0_8", "v0_9", "v0_10"} {
		srv := jsonrpc.NewServer(2, logger)
		var methods []jsonrpc.Method
		switch v {
		case "v0_8":
			methods, _ = h.MethodsV0_8()
		case "v0_9":
			methods, _ = h.MethodsV0_9()
		default:
			methods, _ = h.MethodsV0_10()
		}
		if err := srv.RegisterMethods(methods...); err != nil {
			panic("harness: register methods: " + err.Error())
		}
		servers[v] = srv
	}
	w := newWorld()
	var blocks []headInfo
	parent, oldRoot := &felt.Zero, &felt.Zero
	reqID := 0
	for n := 0; n < cc.Blocks; n++ {
		wPrev := w.clone()
		sd, newClasses := genDiff(rng, w, n, addrPool, slotPool, classPool)
		b := mkBlock(uint64(n), parent, cc.Version)
		su := &core.StateUpdate{OldRoot: oldRoot, StateDiff: sd}
		var err error
		if n > 0 && rng.IntN(2) == 0 {
			// directed interleaving: a proof request for the current head (block n-1) has done k
			// database reads when block n is committed, before its next read. The response names the
			// block it is for; whichever of the two it is, everything in it must verify for THAT block.
			err = overtakenRequest(rp, idx, rng, rec, servers, backend, wPrev, w, blocks, func() error { return bc.Finalise(b, su, newClasses, nil) },
				headInfo{num: uint64(n), version: cc.Version}, b, addrPool, slotPool, classPool, &reqID)
		} else {
			err = bc.Finalise(b, su, newClasses, nil)
		}
		if err != nil {
			r.Inconclusive("chain-build-failed")
			r.Note(fmt.Sprintf("case %d: Finalise(block %d) on %s failed: %v", idx, n, backend, err))
			return
		}
		parent, oldRoot = b.Hash, b.GlobalStateRoot
		blocks = append(blocks, headInfo{num: uint64(n), hash: *b.Hash, root: *b.GlobalStateRoot, version: cc.Version})
		// independent commitment of the whole state must be the header's root, else the model is not the chain
		cr, clr := w.contractsRoot(), w.classesRoot()
		if sc := stateCommitment(&cr, &clr, pre014(cc.Version)); !sc.Equal(b.GlobalStateRoot) {
			rp.viol("rpc:chain-state-root-differs-from-model:"+backend, idx,
				fmt.Sprintf("block %d on %s: header state root %s, model commitment %s", n, backend, b.GlobalStateRoot.String(), sc.String()),
				rpcWitness{Backend: backend, Height: uint64(n), State: w.dump(), What: "state root"})
			return
		}
		if n != cc.Blocks-1 && rng.IntN(3) > 0 {
			continue
		}
		// requests against this head
		nreq := 6
		for i := 0; i < nreq; i++ {
			q := genRequest(rng, w, addrPool, slotPool, classPool)
			q.Version = []string{"v0_10", "v0_9", "v0_8"}[rng.IntN(3)]
			switch v := rng.IntN(12); {
			case v < 4:
				q.BlockID, q.BlockNum, q.MustServe = `"latest"`, int64(n), true
			case v < 6:
				q.BlockID, q.BlockNum, q.MustServe = fmt.Sprintf(`{"block_number":%d}`, n), int64(n), true
			case v < 8:
				q.BlockID, q.BlockNum, q.MustServe = fmt.Sprintf(`{"block_hash":"%s"}`, b.Hash.String()), int64(n), true
			case v == 8 && n > 0:
				o := rng.IntN(n)
				q.BlockID, q.BlockNum = fmt.Sprintf(`{"block_number":%d}`, o), int64(o)
			case v == 9 && n > 0:
				o := rng.IntN(n)
				q.BlockID, q.BlockNum = fmt.Sprintf(`{"block_hash":"%s"}`, blocks[o].hash.String()), int64(o)
			case v == 10:
				q.BlockID, q.BlockNum = fmt.Sprintf(`{"block_number":%d}`, n+1+rng.IntN(3)), -1
			default:
				if q.Version == "v0_8" {
					q.BlockID, q.BlockNum = `"pending"`, -1
				} else {
					q.BlockID, q.BlockNum = []string{`"pre_confirmed"`, `"l1_accepted"`}[rng.IntN(2)], -1
				}
			}
			reqID++
			req := q.json(reqID)
			var raw []byte
			var herr error
			if rp.guard(idx, "rpc:"+q.Version+":getStorageProof", func() any {
				return rpcWitness{Backend: backend, Version: q.Version, Height: uint64(n), Request: req, State: w.dump()}
			}, func() { raw, _, herr = servers[q.Version].HandleReader(context.Background(), strings.NewReader(req)) }) {
				continue
			}
			r.Eval(1)
			r.Count("rpc.requests", 1)
			r.Count("rpc.requests["+backend+"/"+q.Version+"]", 1)
			wit := func(what string) rpcWitness {
				resp := string(raw)
				if len(resp) > 6000 {
					resp = resp[:6000] + "..."
				}
				return rpcWitness{Backend: backend, Version: q.Version, Height: uint64(n), Request: req, Response: resp, What: what, State: w.dump()}
			}
			var resp jResponse
			if herr != nil || json.Unmarshal(raw, &resp) != nil || (resp.Result == nil) == (resp.Error == nil) {
				rp.viol("rpc:malformed-response", idx, fmt.Sprintf("%s/%s: unusable response to %s: %v", backend, q.Version, req, herr), wit("unusable response"))
				continue
			}
			if resp.Error != nil {
				r.Count(fmt.Sprintf("rpc.error_code[%d]", resp.Error.Code), 1)
				if q.MustServe {
					rp.viol(fmt.Sprintf("rpc:head-request-refused:code%d", resp.Error.Code), idx,
						fmt.Sprintf("%s/%s: request for the head block %s answered with error %d %s", backend, q.Version, q.BlockID, resp.Error.Code, resp.Error.Message), wit("head refused"))
				}
				continue
			}
			r.Count("rpc.responses_with_proofs", 1)
			if !q.MustServe {
				r.Count("rpc.non_head_block_id_served", 1)
			}
			class, what := verifyResponse(q, resp.Result, w, blocks, r.Count)
			if class != "" {
				rp.viol(class, idx, fmt.Sprintf("%s/%s at height %d: %s", backend, q.Version, n, what), wit(what))
				continue
			}
			r.Count("rpc.responses_fully_verified", 1)
			if len(q.Storage) > 1 {
				r.Count("rpc.responses_with_several_storage_contracts_verified", 1)
			}
			if idx < 40 && len(q.Storage) > 0 && len(q.Classes) > 0 && r.Counter("samples.rpc") < 2 {
				r.Count("samples.rpc", 1)
				r.Sample(map[string]any{"kind": "rpc", "case": idx, "backend": backend, "version": q.Version, "request": req,
					"classes": len(q.Classes), "contracts": len(q.Contracts), "storage_contracts": len(q.Storage)})
			}
		}
	}
	r.Case(fmt.Sprintf("chain-%s-%s-b%d-c%d-cl%d-%s", backend, cc.Version, cc.Blocks, len(w.Contracts), len(w.Classes), oldRoot.String()))
	r.Count("rpc.chains["+backend+"]", 1)
}

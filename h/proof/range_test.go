package vproof

import (
	"fmt"
	"math/big"
	"math/rand/v2"
	"strings"

	"github.com/NethermindEth/juno/core/crypto"
	"github.com/NethermindEth/juno/core/felt"
	"github.com/NethermindEth/juno/verifh/lib"
)

// rangeClaim is what a range-proof responder sends: the elements it claims are
// *all* leaves in [First, last element] (or, with no elements, "nothing at or
// after First"), plus the two edge proofs (or no proof at all = whole trie).
type rangeClaim struct {
	Shape    string
	First    *big.Int
	Keys     []*big.Int
	Vals     []*felt.Felt
	P        nproof
	NilProof bool
	// the boundaries the honest prover was asked for (GetRangeProof(PL, PR)): the native
	// proof set - the prover's own node objects, cached hashes included - is re-derived
	// from them for every verification (the verifier modifies the nodes it is given)
	PL, PR *big.Int
}

func (rc rangeClaim) clone() rangeClaim {
	o := rc
	o.Keys = append([]*big.Int(nil), rc.Keys...)
	o.Vals = append([]*felt.Felt(nil), rc.Vals...)
	o.P = rc.P.clone()
	return o
}

func (rc rangeClaim) String() string {
	s := fmt.Sprintf("first=%s elems=[", rc.First.Text(16))
	for i := range rc.Keys {
		if i > 0 {
			s += " "
		}
		if i >= 24 {
			s += "..."
			break
		}
		v := "nil"
		if rc.Vals[i] != nil {
			v = rc.Vals[i].String()
		}
		s += rc.Keys[i].Text(16) + "=" + v
	}
	s += "]"
	if rc.NilProof {
		s += " proof=nil"
	}
	return s
}

// rangeTruth decides, from the leaf set alone, whether the claim is true and what hasMore must be.
func rangeTruth(items []lib.KV, rc rangeClaim) (isTrue, wantMore bool) {
	type pair struct{ k, v string }
	claimed := []pair{}
	if len(rc.Keys) != len(rc.Vals) {
		return false, false
	}
	for i := range rc.Keys {
		if rc.Vals[i] == nil {
			return false, false
		}
		pr := pair{rc.Keys[i].String(), rc.Vals[i].String()}
		if len(claimed) > 0 && claimed[len(claimed)-1] == pr {
			continue // an exact repetition says nothing new
		}
		claimed = append(claimed, pr)
	}
	var want []pair
	switch {
	case rc.NilProof:
		for _, it := range items {
			want = append(want, pair{it.K.String(), it.V.String()})
		}
	case len(rc.Keys) == 0:
		for _, it := range items {
			if it.K.Cmp(rc.First) >= 0 {
				return false, false
			}
		}
		return true, false
	default:
		last := rc.Keys[len(rc.Keys)-1]
		lo := rc.First
		for _, it := range items {
			if it.K.Cmp(lo) >= 0 && it.K.Cmp(last) <= 0 {
				want = append(want, pair{it.K.String(), it.V.String()})
			}
			if it.K.Cmp(last) > 0 {
				wantMore = true
			}
		}
	}
	if len(want) != len(claimed) {
		return false, wantMore
	}
	for i := range want {
		if want[i] != claimed[i] {
			return false, wantMore
		}
	}
	return true, wantMore
}

func isLeaf(items []lib.KV, k *big.Int) bool {
	for _, it := range items {
		if it.K.Cmp(k) == 0 {
			return true
		}
	}
	return false
}

// honestRanges builds the honest claims for one trie.
func honestRanges(rng *rand.Rand, c trieCase, im *impl, quick bool) ([]rangeClaim, error) {
	K := c.Items
	n := len(K)
	var out []rangeClaim
	mk := func(shape string, first *big.Int, i, j int) error { // elements K[i..j] inclusive (i>j: none)
		rc := rangeClaim{Shape: shape, First: first}
		for x := i; x <= j; x++ {
			rc.Keys = append(rc.Keys, K[x].K)
			rc.Vals = append(rc.Vals, K[x].V)
		}
		last := first
		if len(rc.Keys) > 0 {
			last = rc.Keys[len(rc.Keys)-1]
		}
		p, err := im.rprove(lib.FeltOfBig(first), lib.FeltOfBig(last))
		if err != nil {
			return fmt.Errorf("GetRangeProof(%s,%s): %w", first.Text(16), last.Text(16), err)
		}
		rc.P = p
		rc.PL, rc.PR = first, last
		out = append(out, rc)
		return nil
	}
	// whole trie without proof
	{
		rc := rangeClaim{Shape: "whole/nil-proof", First: big.NewInt(0), NilProof: true}
		if n > 0 {
			rc.First = K[0].K
		}
		for _, it := range K {
			rc.Keys = append(rc.Keys, it.K)
			rc.Vals = append(rc.Vals, it.V)
		}
		out = append(out, rc)
	}
	if n == 0 {
		return out, nil
	}
	max := new(big.Int).Sub(new(big.Int).Lsh(big.NewInt(1), height), big.NewInt(1))
	if err := mk("whole/with-proof", K[0].K, 0, n-1); err != nil {
		return nil, err
	}
	i := rng.IntN(n)
	if err := mk("single", K[i].K, i, i); err != nil {
		return nil, err
	}
	if n > 1 {
		j := rng.IntN(n - 1)
		if err := mk("prefix", K[0].K, 0, j); err != nil {
			return nil, err
		}
		i := 1 + rng.IntN(n-1)
		if err := mk("suffix", K[i].K, i, n-1); err != nil {
			return nil, err
		}
	}
	if n > 2 {
		i := 1 + rng.IntN(n-2)
		j := i + rng.IntN(n-1-i)
		if err := mk("middle", K[i].K, i, j); err != nil {
			return nil, err
		}
	}
	// first key absent: strictly between K[i-1] and K[i] (or below K[0])
	absentKinds := map[int]bool{}
	for tries := 0; tries < 8 && len(absentKinds) < 3; tries++ {
		i := rng.IntN(n)
		var first *big.Int
		kind := rng.IntN(3)
		if absentKinds[kind] {
			continue
		}
		switch kind {
		case 0:
			first = new(big.Int).Sub(K[i].K, big.NewInt(1))
		case 1:
			if i == 0 {
				first = big.NewInt(0)
			} else {
				first = new(big.Int).Add(K[i-1].K, big.NewInt(1))
			}
		default:
			lo := big.NewInt(0)
			if i > 0 {
				lo = K[i-1].K
			}
			first = new(big.Int).Add(lo, K[i].K)
			first.Rsh(first, 1)
		}
		if first.Sign() < 0 || isLeaf(K, first) || first.Cmp(K[i].K) >= 0 || (i > 0 && first.Cmp(K[i-1].K) <= 0) {
			continue
		}
		j := i + rng.IntN(n-i)
		if err := mk("first-absent", first, i, j); err != nil {
			return nil, err
		}
		absentKinds[kind] = true
	}
	// nothing at or after first
	if K[n-1].K.Cmp(max) < 0 {
		first := new(big.Int).Add(K[n-1].K, big.NewInt(1))
		if rng.IntN(2) == 0 {
			first = new(big.Int).Set(max)
		}
		if err := mk("no-elements-after-last-leaf", first, 1, 0); err != nil {
			return nil, err
		}
	}
	// twin leaves (same value, keys differ in one bit, alone below their parent): both boundaries
	// run through one and the same proof-set entry
	for i := 0; i+1 < n; i++ {
		x := new(big.Int).Xor(K[i].K, K[i+1].K)
		if x.BitLen() > 1 && x.BitLen() <= 26 && new(big.Int).And(x, new(big.Int).Sub(x, big.NewInt(1))).Sign() == 0 && K[i].V.Equal(K[i+1].V) {
			if err := mk("twin-pair", K[i].K, i, i+1); err != nil {
				return nil, err
			}
			break
		}
	}
	// boundaries that are last-bit siblings of another leaf
	for i := 0; i+1 < n; i++ {
		if K[i].K.Bit(0) == 0 && new(big.Int).Xor(K[i].K, K[i+1].K).Cmp(big.NewInt(1)) == 0 {
			// K[i] is a left sibling, K[i+1] its right sibling
			if i+2 < n {
				j := i + 2 + rng.IntN(n-i-2)
				if err := mk("first-is-left-sibling", K[i].K, i, j); err != nil {
					return nil, err
				}
			}
			if i > 0 {
				a := rng.IntN(i)
				if err := mk("last-is-right-sibling", K[a].K, a, i+1); err != nil {
					return nil, err
				}
			}
			if err := mk("single-left-sibling", K[i].K, i, i); err != nil {
				return nil, err
			}
			if err := mk("single-right-sibling", K[i+1].K, i+1, i+1); err != nil {
				return nil, err
			}
			if err := mk("sibling-pair", K[i].K, i, i+1); err != nil {
				return nil, err
			}
			break
		}
	}
	return out, nil
}

type rangeTamper struct {
	Op      string
	C       rangeClaim
	Dropped *big.Int // for element drops: the key that was left out
}

func rangeTampers(rng *rand.Rand, c trieCase, rc rangeClaim, h crypto.HashFn) []rangeTamper {
	var out []rangeTamper
	n := len(rc.Keys)
	pos := func(i int) string {
		switch {
		case n == 1:
			return "only"
		case i == 0:
			return "first"
		case i == n-1:
			return "last"
		case i == 1:
			return "second"
		case i == n-2:
			return "second-to-last"
		}
		return "middle"
	}
	idxs := make([]int, 0, n)
	if n <= 8 {
		for i := 0; i < n; i++ {
			idxs = append(idxs, i)
		}
	} else {
		idxs = append(idxs, 0, 1, n-2, n-1, 2+rng.IntN(n-4), 2+rng.IntN(n-4))
	}
	for _, i := range idxs {
		// element dropped
		t := rc.clone()
		d := t.Keys[i]
		t.Keys = append(t.Keys[:i:i], t.Keys[i+1:]...)
		t.Vals = append(t.Vals[:i:i], t.Vals[i+1:]...)
		out = append(out, rangeTamper{Op: "element-dropped@" + pos(i), C: t, Dropped: d})
		// value altered
		t = rc.clone()
		v := addOne(*t.Vals[i])
		t.Vals[i] = &v
		out = append(out, rangeTamper{Op: "value-altered@" + pos(i), C: t})
		// value zeroed
		t = rc.clone()
		t.Vals[i] = new(felt.Felt)
		out = append(out, rangeTamper{Op: "value-zeroed@" + pos(i), C: t})
		// key moved to an absent neighbour that keeps the order
		for _, delta := range []int64{1, -1} {
			k2 := new(big.Int).Add(rc.Keys[i], big.NewInt(delta))
			if k2.Sign() < 0 || k2.BitLen() > height || isLeaf(c.Items, k2) || k2.Cmp(rc.First) < 0 {
				continue
			}
			if (i > 0 && k2.Cmp(rc.Keys[i-1]) <= 0) || (i+1 < n && k2.Cmp(rc.Keys[i+1]) >= 0) {
				continue
			}
			t = rc.clone()
			t.Keys[i] = k2
			out = append(out, rangeTamper{Op: "key-altered@" + pos(i), C: t})
			break
		}
		// exact repetition of an element (tells no lie; must not change the verdict into an accepted falsehood)
		t = rc.clone()
		t.Keys = append(t.Keys[:i+1:i+1], t.Keys[i:]...)
		t.Vals = append(t.Vals[:i+1:i+1], t.Vals[i:]...)
		out = append(out, rangeTamper{Op: "element-repeated@" + pos(i), C: t})
	}
	// a run of neighbouring elements dropped (a whole subtree withheld): at the front, at the end, inside
	if n >= 3 {
		for _, where := range []string{"first", "last", "middle"} {
			m := 2 + rng.IntN(min(3, n-2))
			a := 0
			switch where {
			case "last":
				a = n - m
			case "middle":
				if n-m-1 < 1 {
					continue
				}
				a = 1 + rng.IntN(n-m-1)
			}
			t := rc.clone()
			t.Keys = append(t.Keys[:a:a], t.Keys[a+m:]...)
			t.Vals = append(t.Vals[:a:a], t.Vals[a+m:]...)
			out = append(out, rangeTamper{Op: fmt.Sprintf("element-run-dropped@%s", where), C: t, Dropped: rc.Keys[a]})
		}
	}
	// element added: an absent key with some value, before / between / after
	for tries := 0; tries < 6; tries++ {
		var k2 *big.Int
		at := 0
		switch {
		case n == 0:
			k2 = new(big.Int).Set(rc.First)
		default:
			at = rng.IntN(n + 1)
			switch {
			case at == n:
				k2 = new(big.Int).Add(rc.Keys[n-1], big.NewInt(1+int64(rng.IntN(3))))
			case at == 0:
				k2 = new(big.Int).Set(rc.First)
			default:
				k2 = new(big.Int).Add(rc.Keys[at-1], rc.Keys[at])
				k2.Rsh(k2, 1)
			}
		}
		if k2.BitLen() > height || isLeaf(c.Items, k2) {
			continue
		}
		if (at > 0 && k2.Cmp(rc.Keys[at-1]) <= 0) || (at < n && k2.Cmp(rc.Keys[at]) >= 0) {
			continue
		}
		t := rc.clone()
		v := lib.F(0x99)
		t.Keys = append(t.Keys[:at:at], append([]*big.Int{k2}, t.Keys[at:]...)...)
		t.Vals = append(t.Vals[:at:at], append([]*felt.Felt{v}, t.Vals[at:]...)...)
		where := "between"
		if at == n {
			where = "after-last"
		} else if at == 0 {
			where = "before-first"
		}
		out = append(out, rangeTamper{Op: "absent-element-added@" + where, C: t})
	}
	// the true next leaf appended without its proof (a true statement if accepted)
	if n > 0 {
		for _, it := range c.Items {
			if it.K.Cmp(rc.Keys[n-1]) > 0 {
				t := rc.clone()
				t.Keys = append(t.Keys, it.K)
				t.Vals = append(t.Vals, it.V)
				out = append(out, rangeTamper{Op: "next-leaf-appended", C: t})
				break
			}
		}
	}
	// two neighbours swapped
	if n > 1 {
		i := rng.IntN(n - 1)
		t := rc.clone()
		t.Keys[i], t.Keys[i+1] = t.Keys[i+1], t.Keys[i]
		t.Vals[i], t.Vals[i+1] = t.Vals[i+1], t.Vals[i]
		out = append(out, rangeTamper{Op: "elements-swapped", C: t})
	}
	// lengths differ
	if n > 0 {
		t := rc.clone()
		t.Vals = t.Vals[:n-1]
		out = append(out, rangeTamper{Op: "values-shorter-than-keys", C: t})
	}
	// first moved left over an existing leaf (claims more than was shown)
	if !rc.NilProof {
		var below *big.Int
		for _, it := range c.Items {
			if it.K.Cmp(rc.First) < 0 {
				below = it.K
			}
		}
		if below != nil {
			t := rc.clone()
			t.First = new(big.Int).Set(below)
			out = append(out, rangeTamper{Op: "first-moved-left-onto-a-leaf", C: t})
			if below.Sign() > 0 {
				t = rc.clone()
				t.First = new(big.Int).Sub(below, big.NewInt(1))
				if !isLeaf(c.Items, t.First) {
					out = append(out, rangeTamper{Op: "first-moved-left-past-a-leaf", C: t})
				}
			}
		}
	}
	if rc.NilProof {
		return out
	}
	// proof nodes
	pi := make([]int, 0, len(rc.P))
	for i := range rc.P {
		if len(rc.P) <= 10 || rng.IntN(len(rc.P)) < 10 {
			pi = append(pi, i)
		}
	}
	for _, i := range pi {
		t := rc.clone()
		t.P = append(t.P[:i:i], t.P[i+1:]...)
		out = append(out, rangeTamper{Op: "proof-node-removed", C: t})
		t = rc.clone()
		if t.P[i].N.Bin {
			if rng.IntN(2) == 0 {
				t.P[i].N.L = addOne(t.P[i].N.L)
			} else {
				t.P[i].N.R = addOne(t.P[i].N.R)
			}
			out = append(out, rangeTamper{Op: "proof-binary-child-altered/keep-key", C: t})
		} else {
			switch rng.IntN(3) {
			case 0:
				t.P[i].N.Child = addOne(t.P[i].N.Child)
				out = append(out, rangeTamper{Op: "proof-edge-child-altered/keep-key", C: t})
			case 1:
				b := rng.IntN(t.P[i].N.Len)
				t.P[i].N.Path = new(big.Int).SetBit(new(big.Int).Set(t.P[i].N.Path), b, t.P[i].N.Path.Bit(b)^1)
				out = append(out, rangeTamper{Op: "proof-edge-path-bit-flipped/keep-key", C: t})
			default:
				if t.P[i].N.Len > 1 {
					t.P[i].N.Len--
					t.P[i].N.Path = new(big.Int).Rsh(t.P[i].N.Path, 1)
					out = append(out, rangeTamper{Op: "proof-edge-length-1/keep-key", C: t})
				} else {
					t.P[i].N.Len++
					out = append(out, rangeTamper{Op: "proof-edge-length+1/keep-key", C: t})
				}
			}
		}
		// same alteration, stored under its new hash
		t2 := t.clone()
		t2.P[i].Key = t2.P[i].N.hashOf(h)
		out = append(out, rangeTamper{Op: "proof-node-altered/rekey", C: t2})
	}
	// no proof at all for a partial range
	t := rc.clone()
	t.NilProof = true
	out = append(out, rangeTamper{Op: "proof-withheld(nil)", C: t})
	t = rc.clone()
	t.P = nil
	out = append(out, rangeTamper{Op: "proof-emptied", C: t})
	return out
}

type rangeWitness struct {
	Impl     string
	Trie     string
	Root     string
	Shape    string
	Operator string `json:",omitempty"`
	Honest   string `json:",omitempty"`
	Claim    string
	Proof    string
	Discrepancy string `json:",omitempty"`
	Detail      string `json:",omitempty"`
	WantTrue bool
	WantMore bool
	GotMore  bool
	Err      string `json:",omitempty"`
}

func feltsOf(ks []*big.Int) []*felt.Felt {
	out := make([]*felt.Felt, len(ks))
	for i, k := range ks {
		out[i] = lib.FeltOfBig(k)
	}
	return out
}

// rootKind: what sits at depth 0 of the trie (the legacy package keys its nodes by
// path, and the root of a trie whose leaves differ in the top bit has the empty path).
func rootKind(c trieCase) string {
	switch {
	case len(c.Items) == 0:
		return "empty-trie"
	case len(c.Items) == 1:
		return "single-leaf-trie"
	case c.Items[0].K.Bit(height-1) != c.Items[len(c.Items)-1].K.Bit(height-1):
		return "binary-root"
	}
	return "edge-root"
}

// discrepancy names what is false about a claim, from the leaf set alone.
func discrepancy(items []lib.KV, rc rangeClaim) string {
	if len(rc.Keys) != len(rc.Vals) {
		return "malformed"
	}
	truth := map[string]string{}
	for _, it := range items {
		truth[it.K.String()] = it.V.String()
	}
	claimed := map[string]string{}
	wrongVal, absentKey := 0, 0
	for i, k := range rc.Keys {
		v := "nil"
		if rc.Vals[i] != nil {
			v = rc.Vals[i].String()
		}
		claimed[k.String()] = v
		if tv, ok := truth[k.String()]; !ok {
			absentKey++
		} else if tv != v {
			wrongVal++
		}
	}
	var missing []*big.Int
	if rc.NilProof {
		for _, it := range items {
			if _, ok := claimed[it.K.String()]; !ok {
				missing = append(missing, it.K)
			}
		}
	} else {
		last := rc.First
		if len(rc.Keys) > 0 {
			last = rc.Keys[len(rc.Keys)-1]
		}
		for _, it := range items {
			if _, ok := claimed[it.K.String()]; ok {
				continue
			}
			if it.K.Cmp(rc.First) >= 0 && (it.K.Cmp(last) <= 0 || len(rc.Keys) == 0) {
				missing = append(missing, it.K)
			}
		}
	}
	sib := func(a, b *big.Int) bool { return new(big.Int).Xor(a, b).Cmp(big.NewInt(1)) == 0 }
	switch {
	case wrongVal+absentKey == 0 && len(missing) == 1 && len(rc.Keys) > 0:
		m := missing[0]
		fk, lk := rc.Keys[0], rc.Keys[len(rc.Keys)-1]
		switch {
		case m.Cmp(rc.First) == 0 && isLeaf(items, new(big.Int).SetBit(new(big.Int).Set(m), 0, m.Bit(0)^1)):
			return "omitted-first-key-that-has-a-last-bit-sibling-leaf"
		case m.Cmp(rc.First) == 0:
			return "omitted-first-key-without-sibling-leaf"
		case fk.Cmp(rc.First) == 0 && fk.Bit(0) == 0 && sib(m, fk):
			return "omitted-boundary-sibling"
		case lk.Bit(0) == 1 && sib(m, lk):
			return "omitted-boundary-sibling"
		case m.Cmp(fk) < 0:
			return "omitted-element-before-first-claimed"
		}
		return "omitted-inner-element"
	case wrongVal+absentKey == 0 && len(missing) > 0 && len(rc.Keys) == 0:
		return "claims-nothing-at-or-after-first-but-leaves-exist"
	case wrongVal+absentKey == 0 && len(missing) > 1:
		return "omitted-several-elements"
	case len(missing) == 0 && wrongVal == 1 && absentKey == 0:
		return "wrong-value"
	case len(missing) == 0 && wrongVal == 0 && absentKey == 1:
		return "absent-key-claimed"
	case len(missing) == 1 && wrongVal == 0 && absentKey == 1:
		return "key-moved-to-absent-neighbour"
	}
	return fmt.Sprintf("mixed(missing=%d,wrong-values=%d,absent-keys=%d)", len(missing), wrongVal, absentKey)
}

const legacyGapClass = "legacy-range-proof-accepts-omitted-boundary-sibling"

// every violation decided by core/trie.VerifyRangeProof is reported under this one class
const legacyRangeClass = "legacy:VerifyRangeProof:unsound"

// checkRanges: honest ranges must verify with the right hasMore; every tampered
// claim that the verifier accepts must be a true claim with the right hasMore.
// cond names the structural condition of a witness that decides which code path of
// the verifiers it takes: a trie whose root is a binary node (root key of length 0 in
// core/trie), a single-leaf trie, else whether the claim's first key is a leaf.
func cond(impl string, c trieCase, rc rangeClaim) string {
	if impl == "trie2" {
		for _, e := range rc.P {
			if e.N.Bin && e.N.L.Equal(&e.N.R) {
				// two sibling subtrees with the same hash: one proof-set entry (one node object
				// in core/trie2) stands for both
				return "identical-sibling-subtrees-in-proof"
			}
		}
	}
	switch rk := rootKind(c); rk {
	case "binary-root", "single-leaf-trie", "empty-trie":
		return rk
	}
	if rc.NilProof {
		return "no-proof"
	}
	if isLeaf(c.Items, rc.First) {
		return "first-present"
	}
	return "first-absent"
}

func checkRanges(rp *reporter, idx int, c trieCase, im *impl, rng *rand.Rand) {
	r := rp.r
	h := c.hashFn()
	var claims []rangeClaim
	var err error
	if rp.guard(idx, im.name+":GetRangeProof", func() any { return rangeWitness{Impl: im.name, Trie: c.String()} }, func() {
		claims, err = honestRanges(rng, c, im, r.Quick())
	}) {
		return
	}
	if err != nil {
		rp.viol(im.name+":range-prove-error", idx, fmt.Sprintf("%s: %v", im.name, err), rangeWitness{Impl: im.name, Trie: c.String(), Err: err.Error()})
		return
	}
	call := func(rc rangeClaim) (bool, error) {
		return im.rverif(&im.root, lib.FeltOfBig(rc.First), feltsOf(rc.Keys), rc.Vals, rc.P, rc.NilProof)
	}
	for _, rc := range claims {
		wantTrue, wantMore := rangeTruth(c.Items, rc)
		if !wantTrue {
			panic("harness: honest range claim is not true: " + rc.String())
		}
		mk := func(op string, t rangeClaim, more bool, e error) rangeWitness {
			w := rangeWitness{Impl: im.name, Trie: c.String(), Root: im.root.String(), Shape: rc.Shape, Operator: op,
				Claim: t.String(), Proof: t.P.String(), GotMore: more}
			if op != "" {
				w.Honest = rc.String()
			}
			if e != nil {
				w.Err = e.Error()
			}
			return w
		}
		// report builds the witness only while the class still wants written-out witnesses
		report := func(class, op string, t rangeClaim, more bool, e error, isTrue, wMore bool, disc string, brief func() string) {
			detail := ""
			if im.name == "legacy" {
				// core/trie.VerifyRangeProof is recorded as one finding identified by its call site
				// (the set of shapes it gets wrong varies with the seed); the shape stays visible in
				// the counters, the brief and the witness.
				detail = class
				r.Count("legacy_range_unsound:"+detail, 1)
				class = legacyRangeClass
				inner := brief
				brief = func() string { return "{" + detail + "} " + inner() }
			}
			if !rp.want(class) {
				rp.count(class)
				return
			}
			w := mk(op, t, more, e)
			w.WantTrue, w.WantMore, w.Discrepancy, w.Detail = isTrue, wMore, disc, detail
			rp.viol(class, idx, brief(), w)
		}
		var more bool
		var e error
		if rp.guard(idx, im.name+":VerifyRangeProof:honest:"+cond(im.name, c, rc), func() any { return mk("", rc, false, nil) }, func() { more, e = call(rc) }) {
			continue
		}
		r.Eval(1)
		r.Count("range.honest_claims", 1)
		r.Count("range.honest_shape["+rc.Shape+"]", 1)
		if e != nil {
			report(fmt.Sprintf("%s:range-honest-rejected:%s:%s", im.name, rc.Shape, cond(im.name, c, rc)), "", rc, more, e, true, wantMore, "", func() string {
				return fmt.Sprintf("%s VerifyRangeProof rejects the honest range '%s' (%s): %v", im.name, rc.Shape, rc.String(), e)
			})
		} else if more != wantMore {
			report(fmt.Sprintf("%s:range-true-claim-wrong-hasMore:got-%v:%s", im.name, more, cond(im.name, c, rc)), "", rc, more, e, true, wantMore, "", func() string {
				return fmt.Sprintf("%s VerifyRangeProof returns hasMore=%v for the honest range '%s' (%s); leaves to the right exist: %v", im.name, more, rc.Shape, rc.String(), wantMore)
			})
		}
		tampers := rangeTampers(rng, c, rc, h)
		if idx < 8 && e == nil && rc.Shape == "middle" && len(rc.Keys) <= 4 && r.Counter("samples.range") < 1 {
			r.Count("samples.range", 1)
			r.Sample(map[string]any{"kind": "range", "case": idx, "impl": im.name, "leaves": len(c.Items), "honest_claim": rc.String(),
				"hasMore": more, "proof_nodes": len(rc.P), "tampered_claims_derived": len(tampers)})
		}
		// the same honest claim against the prover's own node objects (cached hashes and all)
		if im.rverifNative != nil && !rc.NilProof {
			var nm bool
			var ne error
			if !rp.guard(idx, im.name+":VerifyRangeProof:honest:native-proof-set:"+cond(im.name, c, rc), func() any { return mk("", rc, false, nil) }, func() {
				nm, ne = im.rverifNative(&im.root, lib.FeltOfBig(rc.First), feltsOf(rc.Keys), rc.Vals, lib.FeltOfBig(rc.PL), lib.FeltOfBig(rc.PR))
			}) {
				r.Eval(1)
				r.Count("range.native_set.honest_claims", 1)
				if ne != nil {
					report(fmt.Sprintf("%s:range-honest-rejected:native-proof-set:%s:%s", im.name, rc.Shape, cond(im.name, c, rc)), "", rc, nm, ne, true, wantMore, "", func() string {
						return fmt.Sprintf("%s VerifyRangeProof rejects the honest range '%s' (%s) when given the prover's own proof set: %v", im.name, rc.Shape, rc.String(), ne)
					})
				} else if nm != wantMore {
					report(fmt.Sprintf("%s:range-true-claim-wrong-hasMore:native-proof-set:got-%v:%s", im.name, nm, cond(im.name, c, rc)), "", rc, nm, ne, true, wantMore, "", func() string {
						return fmt.Sprintf("%s VerifyRangeProof returns hasMore=%v for the honest range '%s' (%s) with the prover's own proof set", im.name, nm, rc.Shape, rc.String())
					})
				}
			}
		}
		for _, t := range tampers {
			tTrue, tMore := rangeTruth(c.Items, t.C)
			var more bool
			var e error
			fam := opFamily(t.Op)
			// claims whose proof part is untouched are also offered together with the prover's own
			// node objects: a responder in the same process (or a cache of decoded nodes that keeps
			// their hashes) hands exactly those to the verifier
			if im.rverifNative != nil && !t.C.NilProof && !strings.HasPrefix(t.Op, "proof-") {
				var nm bool
				var ne error
				if !rp.guard(idx, im.name+":VerifyRangeProof:tampered:native-proof-set:"+cond(im.name, c, t.C), func() any { return mk(t.Op, t.C, false, nil) }, func() {
					nm, ne = im.rverifNative(&im.root, lib.FeltOfBig(t.C.First), feltsOf(t.C.Keys), t.C.Vals, lib.FeltOfBig(rc.PL), lib.FeltOfBig(rc.PR))
				}) {
					r.Eval(1)
					r.Count("range.native_set.tampers_applied", 1)
					switch {
					case ne != nil:
						r.Count("range.native_set.tampers_rejected", 1)
					case tTrue && nm == tMore:
						r.Count("range.native_set.tampers_accepted_but_truthful", 1)
					case tTrue:
						report(fmt.Sprintf("%s:range-true-claim-wrong-hasMore:native-proof-set:got-%v:%s", im.name, nm, cond(im.name, c, t.C)), t.Op, t.C, nm, ne, true, tMore, "", func() string {
							return fmt.Sprintf("%s VerifyRangeProof (prover's own proof set) accepts the (still true) claim %s [%s] with hasMore=%v; leaves to the right exist: %v", im.name, t.C.String(), t.Op, nm, tMore)
						})
					default:
						disc := discrepancy(c.Items, t.C)
						report(fmt.Sprintf("%s:range-accepted-lie:native-proof-set:%s:%s", im.name, disc, cond(im.name, c, t.C)), t.Op, t.C, nm, ne, false, tMore, disc, func() string {
							return fmt.Sprintf("%s VerifyRangeProof accepts a false range claim when given the prover's own proof set (%s; produced by %s on the honest range '%s'): %s",
								im.name, disc, t.Op, rc.Shape, t.C.String())
						})
					}
				}
			}
			if rp.guard(idx, im.name+":VerifyRangeProof:tampered:"+cond(im.name, c, t.C), func() any { return mk(t.Op, t.C, false, nil) }, func() { more, e = call(t.C) }) {
				continue
			}
			r.Eval(1)
			r.Count("range.tampers_applied", 1)
			r.Count("range.tamper_op["+fam+"]", 1)
			if e != nil {
				r.Count("range.tampers_rejected", 1)
				continue
			}
			if tTrue && more == tMore {
				r.Count("range.tampers_accepted_but_truthful", 1)
				continue
			}
			cd := cond(im.name, c, t.C)
			if tTrue {
				report(fmt.Sprintf("%s:range-true-claim-wrong-hasMore:got-%v:%s", im.name, more, cd), t.Op, t.C, more, e, true, tMore, "", func() string {
					return fmt.Sprintf("%s VerifyRangeProof accepts the (still true) claim %s [%s] with hasMore=%v; leaves to the right exist: %v", im.name, t.C.String(), t.Op, more, tMore)
				})
				continue
			}
			disc := discrepancy(c.Items, t.C)
			class := fmt.Sprintf("%s:range-accepted-lie:%s:%s", im.name, disc, cd)
			if im.name == "legacy" && disc == "omitted-boundary-sibling" {
				// the gap the TODO above trie.VerifyRangeProof describes: the only thing wrong with the
				// claim is that the last-bit sibling of its first (left-sibling) or last (right-sibling) key is left out
				class = legacyGapClass
			}
			report(class, t.Op, t.C, more, e, false, tMore, disc, func() string {
				return fmt.Sprintf("%s VerifyRangeProof accepts a false range claim (%s; %s; produced by %s on the honest range '%s'): %s",
					im.name, disc, cd, t.Op, rc.Shape, t.C.String())
			})
		}
	}
}

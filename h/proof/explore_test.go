package vproof

import (
	"fmt"
	"math/big"
	"testing"

	"github.com/NethermindEth/juno/core/crypto"
	"github.com/NethermindEth/juno/core/felt"
	"github.com/NethermindEth/juno/core/trie"
	"github.com/NethermindEth/juno/core/trie2"
	"github.com/NethermindEth/juno/core/trie2/trienode"
	"github.com/NethermindEth/juno/core/trie2/trieutils"
	"github.com/NethermindEth/juno/verifh/lib"
)

func TestExplore(t *testing.T) {
	keys := []*big.Int{big.NewInt(5), big.NewInt(0x1000), big.NewInt(0x1001), big.NewInt(0x7000)}
	vals := []uint64{55, 66, 77, 88}
	// empty trie
	trie.RunOnTempTriePedersen(251, func(tr *trie.Trie) error {
		root, _ := tr.Hash()
		ps := trie.NewProofNodeSet()
		err := tr.Prove(lib.F(7), ps)
		fmt.Println("legacy empty: root", root.String(), "prove err", err, "size", ps.Size())
		v, err := trie.VerifyProof(&root, lib.F(7), ps, crypto.Pedersen)
		fmt.Println("legacy empty verify:", v.String(), err)
		more, err := trie.VerifyRangeProof(&root, lib.F(7), nil, nil, ps)
		fmt.Println("legacy empty range:", more, err)
		more, err = trie.VerifyRangeProof(&root, lib.F(7), nil, nil, nil)
		fmt.Println("legacy empty range nil proof:", more, err)
		return nil
	})
	{
		tr := trie2.NewEmpty(251, crypto.Pedersen)
		root, _ := tr.Hash()
		ps := trie2.NewProofNodeSet()
		err := tr.Prove(lib.F(7), ps)
		fmt.Println("trie2 empty: root", root.String(), "prove err", err, "size", ps.Size())
		v, err := trie2.VerifyProof(&root, lib.F(7), ps, crypto.Pedersen)
		fmt.Println("trie2 empty verify:", v.String(), err)
		func() {
			defer func() { fmt.Println("recovered:", recover()) }()
			more, err := trie2.VerifyRangeProof(&root, lib.F(7), nil, nil, ps)
			fmt.Println("trie2 empty range:", more, err)
		}()
		more, err := trie2.VerifyRangeProof(&root, lib.F(7), nil, nil, nil)
		fmt.Println("trie2 empty range nil proof:", more, err)
	}
	// embedded child in trie2
	{
		tr := trie2.NewEmpty(251, crypto.Pedersen)
		for i := range keys {
			tr.Update(lib.FeltOfBig(keys[i]), lib.F(vals[i]))
		}
		root, _ := tr.Hash()
		ps := trie2.NewProofNodeSet()
		tr.Prove(lib.FeltOfBig(keys[1]), ps)
		np, err := fromTrie2(ps)
		fmt.Println("trie2 proof:", np.String(), err)
		v, err := trie2.VerifyProof(&root, lib.FeltOfBig(keys[1]), ps, crypto.Pedersen)
		fmt.Println("honest verify:", v.String(), err)
		v, err = trie2.VerifyProof(&root, lib.FeltOfBig(keys[1]), toTrie2(np, &root), crypto.Pedersen)
		fmt.Println("fresh verify:", v.String(), err)
		// embed: root edge with child binary embedded
		m := np.asMap()
		rn := m[root]
		if !rn.Bin {
			cn := m[rn.Child]
			hl, hr := trienode.HashNode(cn.L), trienode.HashNode(cn.R)
			emb := &trienode.EdgeNode{
				Path:  new(trieutils.Path).SetFelt(uint8(rn.Len), new(felt.Felt).SetBigInt(rn.Path)),
				Child: &trienode.BinaryNode{Children: [2]trienode.Node{&hl, &hr}},
			}
			ps2 := toTrie2(np, &root)
			ps2.Put(root, emb)
			done := make(chan struct{})
			go func() {
				defer func() { fmt.Println("embedded recovered:", recover()); close(done) }()
				v, err = trie2.VerifyProof(&root, lib.FeltOfBig(keys[1]), ps2, crypto.Pedersen)
				fmt.Println("embedded verify:", v.String(), err)
			}()
			<-done
		}
	}
}

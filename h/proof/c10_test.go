package vproof

import (
	"fmt"
	"math/big"
	"testing"

	"github.com/NethermindEth/juno/core/crypto"
	"github.com/NethermindEth/juno/core/felt"
	"github.com/NethermindEth/juno/core/trie2"
	"github.com/NethermindEth/juno/core/trie2/trienode"
	"github.com/NethermindEth/juno/core/trie2/trieutils"
	"github.com/NethermindEth/juno/verifh/lib"
)

// One trie case: build the same leaf set in both trie packages, then
//   - completeness for present keys, for absent keys at every divergence depth
//     (bit d of a present key flipped, d = 0..250) and for random keys;
//   - the soundness implication for structured tampers of a sample of those proofs;
//   - honest and tampered range proofs (Pedersen tries; the range verifiers are Pedersen-only).
func checkTrie(rp *reporter, idx int) {
	r := rp.r
	rng := lib.Rng("C10/trie", uint64(idx))
	c := genTrieCase(rng, idx)
	want := lib.RefRoot(c.Items, height, c.hashFn())
	legacy, err := openLegacy(c)
	if err != nil {
		rp.viol("legacy:trie-build-error", idx, err.Error(), map[string]any{"trie": c.String()})
		return
	}
	t2, err := openTrie2(c)
	if err != nil {
		rp.viol("trie2:trie-build-error", idx, err.Error(), map[string]any{"trie": c.String()})
		return
	}
	impls := []*impl{legacy, t2}
	if idx%2 == 0 {
		t2p, err := openTrie2Persisted(c)
		if err != nil {
			rp.viol("trie2-reopened-from-database:trie-build-error", idx, err.Error(), map[string]any{"trie": c.String()})
			return
		}
		impls = append(impls, t2p)
		r.Count("tries_committed_and_reopened_from_the_node_database", 1)
	}
	for _, im := range impls {
		if !im.root.Equal(&want) {
			// C01's subject; without the true root nothing below can be judged
			rp.viol(im.name+":root-differs-from-protocol-definition", idx,
				fmt.Sprintf("%s root %s, definition %s", im.name, im.root.String(), want.String()), map[string]any{"trie": c.String()})
			return
		}
	}
	// queried keys
	type query struct {
		k      *big.Int
		tamper bool
	}
	var qs []query
	seen := map[string]bool{}
	add := func(k *big.Int, tamper bool) {
		if k.BitLen() > height || seen[k.String()] {
			return
		}
		seen[k.String()] = true
		qs = append(qs, query{k, tamper})
	}
	nt := 0
	for _, i := range rng.Perm(len(c.Items)) {
		if len(qs) >= 16 {
			break
		}
		add(c.Items[i].K, nt < 4)
		nt++
	}
	if len(c.Items) > 0 {
		base := c.Items[rng.IntN(len(c.Items))].K
		tam := map[int]bool{0: true, height - 1: true, rng.IntN(height): true, rng.IntN(height): true, rng.IntN(16): true}
		for d := 0; d < height; d++ {
			add(new(big.Int).SetBit(new(big.Int).Set(base), d, base.Bit(d)^1), tam[d])
		}
	}
	for i := 0; i < 4; i++ {
		add(randFelt(rng).BigInt(new(big.Int)), i == 0)
	}
	add(big.NewInt(0), false)
	add(new(big.Int).Sub(new(big.Int).Lsh(big.NewInt(1), height), big.NewInt(1)), false)

	for _, im := range impls {
		for _, q := range qs {
			p, ok := checkMembership(rp, idx, c, im, q.k)
			if p == nil {
				continue
			}
			truth := c.truth(q.k)
			if truth.IsZero() {
				r.Count("membership.absent_queries", 1)
				r.Count("membership.absent_divergence["+divergence(&im.root, q.k, p, c.hashFn())+"]", 1)
			} else {
				r.Count("membership.present_queries", 1)
			}
			if ok && q.tamper && len(c.Items) > 0 {
				r.Count("membership.proofs_tampered", 1)
				checkTampers(rp, idx, c, im, p, q.k, rng, r.Quick() == false)
			}
		}
		// batches: keys proven into one shared proof set
		if len(c.Items) > 0 {
			brng := lib.Rng("C10/batch/"+im.name, uint64(idx))
			for b := 0; b < 3; b++ {
				var ks []*big.Int
				if b == 0 && len(c.Items) <= 12 {
					for _, it := range c.Items { // every leaf, in key order
						ks = append(ks, it.K)
					}
				} else {
					for _, i := range brng.Perm(len(qs))[:min(len(qs), 2+brng.IntN(5))] {
						ks = append(ks, qs[i].k)
					}
					for _, i := range brng.Perm(len(c.Items))[:min(len(c.Items), 1+brng.IntN(4))] {
						ks = append(ks, c.Items[i].K)
					}
					brng.Shuffle(len(ks), func(i, j int) { ks[i], ks[j] = ks[j], ks[i] })
				}
				checkBatch(rp, idx, c, im, ks)
			}
		}
		if !c.Poseidon {
			checkRanges(rp, idx, c, im, lib.Rng("C10/range/"+im.name, uint64(idx)))
		}
	}
	// both packages must emit the same proof (same node set) for the same key
	if len(c.Items) > 0 {
		k := lib.FeltOfBig(qs[0].k)
		a, _, e1 := legacy.prove(k)
		b, _, e2 := t2.prove(k)
		if e1 == nil && e2 == nil {
			am, bm := a.asMap(), b.asMap()
			same := len(am) == len(bm)
			for h, n := range am {
				if m, ok := bm[h]; !ok || m.String() != n.String() {
					same = false
				}
			}
			if !same {
				rp.viol("proof-node-sets-differ-between-trie-packages", idx, "legacy and trie2 emit different node sets for the same key",
					map[string]any{"trie": c.String(), "key": qs[0].k.Text(16), "legacy": a.String(), "trie2": b.String()})
			}
		}
	}
	// the trie object lives on: after the proofs above it is modified (overwrites, deletions - also
	// of a child of the root -, re-insertion of a deleted key with another value, emptying and
	// refilling) and hashed again, once or twice; proofs taken from the SAME object afterwards must
	// verify against the new root and establish the new values (a prover must not answer from
	// anything it remembered from before the update)
	if len(c.Items) > 0 && !c.Poseidon {
		for _, im := range impls {
			mrng := lib.Rng("C10/long-lived", uint64(idx)) // the same updates on both implementations
			cur := map[string]lib.KV{}
			for _, it := range c.Items {
				cur[it.K.String()] = it
			}
			okImpl := true
			for round := 0; round < 1+mrng.IntN(2) && okImpl; round++ {
				sorted := lib.SortedKVs(cur)
				var touched []*big.Int
				write := func(k *big.Int, v *felt.Felt) {
					if err := im.put(lib.FeltOfBig(k), v); err != nil {
						rp.viol(im.name+":update-error:long-lived", idx, err.Error(), nil)
						okImpl = false
						return
					}
					if v.IsZero() {
						delete(cur, k.String())
					} else {
						cur[k.String()] = lib.KV{K: k, V: v}
					}
					touched = append(touched, k)
				}
				switch mode := mrng.IntN(5); {
				case mode == 0 && len(sorted) > 0:
					// delete one key and write it back with another value
					k := sorted[mrng.IntN(len(sorted))].K
					write(k, new(felt.Felt))
					if okImpl && im.rehash() != nil {
						okImpl = false
					}
					write(k, lib.F(0x5000+uint64(mrng.IntN(1<<16))))
				case mode == 1 && len(sorted) > 0:
					// empty the trie, then refill part of it with new values
					for _, it := range sorted {
						write(it.K, new(felt.Felt))
					}
					if okImpl && im.rehash() != nil {
						okImpl = false
					}
					for i, it := range sorted {
						if i%2 == 0 {
							write(it.K, lib.F(0x6000+uint64(mrng.IntN(1<<16))))
						}
					}
				default:
					// first and last key (children of the top-most branching), random others
					for i := 0; i < 1+mrng.IntN(4) && len(sorted) > 0; i++ {
						k := sorted[[]int{0, len(sorted) - 1, mrng.IntN(len(sorted))}[mrng.IntN(3)]].K
						switch mrng.IntN(3) {
						case 0:
							write(k, new(felt.Felt))
						default:
							write(k, lib.F(0x7000+uint64(mrng.IntN(1<<16))))
						}
					}
					for i := 0; i < mrng.IntN(3); i++ {
						write(randFelt(mrng).BigInt(new(big.Int)), lib.F(0x8000+uint64(mrng.IntN(1<<16))))
					}
				}
				if !okImpl {
					break
				}
				if err := im.rehash(); err != nil {
					rp.viol(im.name+":hash-error:long-lived", idx, err.Error(), nil)
					break
				}
				c2 := c
				c2.Items = lib.SortedKVs(cur)
				want2 := lib.RefRoot(c2.Items, height, c.hashFn())
				r.Eval(1)
				if !want2.Equal(&im.root) {
					rp.viol(im.name+":root-mismatch:long-lived-trie-after-update", idx, fmt.Sprintf("%s: root after updating the long-lived trie is %s, the leaf set commits to %s", im.name, im.root.String(), want2.String()), nil)
					break
				}
				r.Count("membership.long_lived_trie_updates", 1)
				ks := append([]*big.Int{}, touched...)
				for _, q := range qs[:min(len(qs), 6)] {
					ks = append(ks, q.k)
				}
				for _, k := range ks {
					if _, ok := checkMembership(rp, idx, c2, im, k); ok {
						r.Count("membership.proofs_after_update_of_long_lived_trie", 1)
					}
				}
			}
		}
	}
	if len(c.Items) > 0 {
		r.Case(fmt.Sprintf("trie-p%v-n%d-%s", c.Poseidon, len(c.Items), want.String()))
	}
	r.Count("tries", 1)
	if c.Twins {
		r.Count("tries.with_twin_leaves(identical sibling subtrees)", 1)
	}
	if c.Cousins {
		r.Count("tries.with_equal_subtrees_at_different_positions", 1)
	}
	switch len(c.Items) {
	case 0:
		r.Count("tries.empty", 1)
	case 1:
		r.Count("tries.single_leaf", 1)
	}
	if idx < 8 && len(c.Items) > 1 && len(c.Items) < 8 && r.Counter("samples.trie") < 2 {
		r.Count("samples.trie", 1)
		r.Sample(map[string]any{"kind": "trie", "case": idx, "trie": c.String(), "root": want.String(), "queried_keys": len(qs)})
	}
}

// Informational (outside the attack model of the design: not a shape a wire
// decoder produces): trie2.VerifyProof on a node set in which an edge node
// embeds its binary child as an object instead of referencing it by hash.
func probeEmbeddedChild(r *lib.Run) {
	c := trieCase{}
	for i, k := range []int64{5, 0x1000, 0x1001, 0x7000} {
		c.Items = append(c.Items, lib.KV{K: big.NewInt(k), V: lib.F(uint64(0x40 + i))})
	}
	t2, err := openTrie2(c)
	if err != nil {
		return
	}
	k := c.Items[1].K
	p, _, err := t2.prove(lib.FeltOfBig(k))
	if err != nil {
		return
	}
	m := p.asMap()
	rn, ok := m[t2.root]
	if !ok || rn.Bin {
		return
	}
	cn, ok := m[rn.Child]
	if !ok || !cn.Bin {
		return
	}
	hl, hr := trienode.HashNode(cn.L), trienode.HashNode(cn.R)
	ps := toTrie2(p, &t2.root)
	ps.Put(t2.root, &trienode.EdgeNode{
		Path:  new(trieutils.Path).SetFelt(uint8(rn.Len), new(felt.Felt).SetBigInt(rn.Path)),
		Child: &trienode.BinaryNode{Children: [2]trienode.Node{&hl, &hr}},
	})
	done := make(chan string, 1)
	go func() {
		defer func() {
			if p := recover(); p != nil {
				done <- fmt.Sprintf("panic: %v", p)
			}
		}()
		v, err := trie2.VerifyProof(&t2.root, lib.FeltOfBig(k), ps, crypto.Pedersen)
		done <- fmt.Sprintf("value=%s err=%v", v.String(), err)
	}()
	res := <-done
	truth := c.truth(k)
	r.Note(fmt.Sprintf("informational, not judged (node shape no decoder produces): trie2.VerifyProof on a set whose root edge embeds its binary child as an object "+
		"(hashes unchanged) answers %s for key 0x%s whose true value is %s", res, k.Text(16), truth.String()))
}

func TestC10(t *testing.T) {
	r := lib.Start("C10", "exploration")
	rp := &reporter{r: r, seen: map[string]int{}, hung: map[string]bool{}}
	n := r.N(200, 3000)
	r.Cases(n, 0, func(idx int) {
		if idx%10 == 9 {
			checkChain(rp, idx, lib.Rng("C10/chain", uint64(idx)))
			return
		}
		checkTrie(rp, idx)
	})
	probeEmbeddedChild(r)
	r.Assume("crypto.Pedersen / crypto.Poseidon are trusted and collision resistant (oracle and code under test share the primitives)")
	r.Assume("tampered proofs contain only node shapes a decoder produces (binary = two hash references, edge = hash reference + path + length, no cached hashes); unforgeability is sampled by structured single-node/single-field tampers, not decided")
	r.Assume("RPC level: the reference state is the generator's own model of the state diffs it fed to Blockchain.Finalise; it is accepted only after its independently computed commitment equals every block's header state root")
	r.Finish("case = (a) leaf set of height 251 (Pedersen or Poseidon; empty, 1, 2, 3, 4-25, 40-120 leaves; clustered keys) built in core/trie and core/trie2: "+
		"Prove+VerifyProof for present keys, for a present key with each bit 0..250 flipped, random keys and the extremes, checked on the native node set, on a freshly rebuilt node set and by an "+
		"independent verifier; ~40 tamper operators per sampled proof judged by 'accepted => truth'; honest range proofs (whole/nil, whole, single, prefix, suffix, middle, absent first, nothing-after, "+
		"sibling boundaries, twin leaves with identical subtrees) must verify with the right hasMore, every accepted tampered range claim must be true; or (b) a 2-6 block chain on the legacy or new state backend (declare / deploy / "+
		"storage writes and deletes / nonces / class replacement) queried through the real JSON-RPC server (v0_8, v0_9, v0_10) with starknet_getStorageProof for head and non-head block ids, each response "+
		"verified by an independent spec-level verifier down to the header state root and the model's values; distinct = distinct non-empty tries (by root) + distinct chains", 40)
}

package vproof

import (
	"encoding/json"
	"fmt"
	"time"
	"math/big"
	"math/rand/v2"
	"sort"
	"strings"
	"sync"

	"github.com/NethermindEth/juno/core/crypto"
	"github.com/NethermindEth/juno/core/felt"
	"github.com/NethermindEth/juno/core/trie"
	"github.com/NethermindEth/juno/core/trie2"
	"github.com/NethermindEth/juno/core/trie2/triedb/rawdb"
	"github.com/NethermindEth/juno/core/trie2/trienode"
	"github.com/NethermindEth/juno/core/trie2/trieutils"
	"github.com/NethermindEth/juno/db/memory"
	"github.com/NethermindEth/juno/verifh/lib"
)

// ---------------------------------------------------------------- reporting

// lib.Run writes at most 20 replay files per run; one written-out witness per class
// lets every class of a run get one (every further occurrence is only counted).
const witnessesPerClass = 1

// reporter keeps the number of written-out witnesses per class small (a
// systematic defect fires in most cases) while counting every occurrence.
type reporter struct {
	r    *lib.Run
	mu   sync.Mutex
	seen map[string]int
	hung map[string]bool
}

// want reports whether a further witness of this class would still be written out
// (callers use it to skip building expensive witness objects).
func (rp *reporter) want(class string) bool {
	rp.mu.Lock()
	defer rp.mu.Unlock()
	return rp.seen[class] < witnessesPerClass
}

func (rp *reporter) count(class string) {
	rp.r.Count("violating_observations["+class+"]", 1)
	rp.mu.Lock()
	rp.seen[class]++
	rp.mu.Unlock()
}

func (rp *reporter) viol(class string, idx int, brief string, w any) {
	rp.r.Count("violating_observations["+class+"]", 1)
	rp.mu.Lock()
	n := rp.seen[class]
	rp.seen[class] = n + 1
	rp.mu.Unlock()
	if n >= witnessesPerClass {
		return
	}
	rp.r.Violation(class, idx, fmt.Sprintf("[case %d] %s", idx, brief), w)
}

// watchdog is generous: a verification normally takes well under 10 ms.
const watchdog = 90 * time.Second

// guard runs fn (a call into Juno) and converts a panic into a violation with a
// class that names the entry point and the operator that provoked it. The call is
// watched: if it does not return within the watchdog the case is inconclusive
// (never a verdict), the stuck goroutine is abandoned and the same entry
// point/operator is not exercised again in this process.
func (rp *reporter) guard(idx int, where string, ctx func() any, fn func()) (failed bool) {
	rp.mu.Lock()
	hung := rp.hung[where]
	rp.mu.Unlock()
	if hung {
		rp.r.Count("skipped_after_watchdog["+where+"]", 1)
		return true
	}
	done := make(chan any, 1)
	go func() {
		defer func() { done <- recover() }()
		fn()
	}()
	t := time.NewTimer(watchdog)
	defer t.Stop()
	select {
	case p := <-done:
		if p != nil {
			rp.viol("panic:"+where, idx, fmt.Sprintf("%s panicked: %v", where, p), map[string]any{"panic": fmt.Sprint(p), "input": ctx()})
			return true
		}
		return false
	case <-t.C:
		rp.mu.Lock()
		rp.hung[where] = true
		rp.mu.Unlock()
		if strings.Contains(where, "VerifyProof") || strings.Contains(where, "VerifyRangeProof") {
			// a verifier fed a hostile proof must come back with a verdict: normal is < 10 ms, the
			// watchdog is four orders of magnitude above that
			b, _ := json.Marshal(ctx())
			if len(b) > 4000 {
				b = b[:4000]
			}
			rp.viol("hang:"+where, idx, fmt.Sprintf("%s did not return within %s", where, watchdog), map[string]any{"input": string(b)})
			return true
		}
		rp.r.Inconclusive("watchdog:" + where)
		b, _ := json.Marshal(ctx())
		if len(b) > 1500 {
			b = b[:1500]
		}
		rp.r.Note(fmt.Sprintf("case %d: %s did not return within %s (inconclusive; input %s)", idx, where, watchdog, string(b)))
		return true
	}
}

// ---------------------------------------------------------------- trie under observation

type trieCase struct {
	Poseidon bool
	Commit   bool
	Twins    bool
	Cousins  bool     // a small subtree repeated under two different prefixes (equal inner hashes at different positions)
	Items    []lib.KV // sorted
}

func (c trieCase) hashFn() crypto.HashFn {
	if c.Poseidon {
		return crypto.Poseidon
	}
	return crypto.Pedersen
}

func (c trieCase) String() string {
	s := fmt.Sprintf("poseidon=%v commit=%v leaves=%d:", c.Poseidon, c.Commit, len(c.Items))
	for i, it := range c.Items {
		if i >= 30 {
			s += " ..."
			break
		}
		s += fmt.Sprintf(" %s=%s", it.K.Text(16), it.V.String())
	}
	return s
}

func randFelt(rng *rand.Rand) *felt.Felt {
	b := new(big.Int)
	for i := 0; i < 8; i++ {
		b.Lsh(b, 32).Or(b, new(big.Int).SetUint64(uint64(rng.Uint32())))
	}
	b.Rsh(b, 6) // < 2^250
	return new(felt.Felt).SetBigInt(b)
}

func genTrieCase(rng *rand.Rand, idx int) trieCase {
	var c trieCase
	c.Poseidon = rng.IntN(3) == 0
	c.Commit = rng.IntN(2) == 0
	var n int
	switch v := rng.IntN(40); {
	case v == 0:
		n = 0
	case v <= 2:
		n = 1
	case v <= 4:
		n = 2
	case v <= 6:
		n = 3
	case v == 7:
		n = 40 + rng.IntN(80)
	default:
		n = 4 + rng.IntN(22)
	}
	keys := lib.GenKeys(rng, height, n)
	m := map[string]lib.KV{}
	for _, k := range keys {
		var v *felt.Felt
		switch rng.IntN(4) {
		case 0:
			v = lib.F(1 + uint64(rng.IntN(3)))
		case 1:
			v = randFelt(rng)
		default:
			v = lib.F(0x40 + uint64(rng.IntN(1<<20)))
		}
		m[k.String()] = lib.KV{K: k, V: v}
	}
	// twin leaves: two keys that differ in exactly one bit (not the last), carry the same
	// value and have no other leaf below their common parent, so that the two sibling
	// subtrees are identical and share one node hash (the proof set is keyed by hash)
	if n >= 2 && rng.IntN(6) == 0 {
		b := randFelt(rng).BigInt(new(big.Int))
		j := 1 + rng.IntN(24)
		v := lib.F(1 + uint64(rng.IntN(3)))
		t := new(big.Int).SetBit(new(big.Int).Set(b), j, b.Bit(j)^1)
		m[b.String()] = lib.KV{K: b, V: v}
		m[t.String()] = lib.KV{K: t, V: v}
		c.Twins = true
	}
	// cousin subtrees: the same 2-3 leaves (same low bits, same values) below two different
	// prefixes, so that inner nodes with equal hashes sit at different positions of the trie
	// (a proof set keyed by hash holds them once)
	if n >= 2 && rng.IntN(5) == 0 {
		w := uint(1 + rng.IntN(8))
		mask := new(big.Int).Sub(new(big.Int).Lsh(big.NewInt(1), w), big.NewInt(1))
		p1 := new(big.Int).AndNot(randFelt(rng).BigInt(new(big.Int)), mask)
		var p2 *big.Int
		if rng.IntN(2) == 0 {
			p2 = new(big.Int).AndNot(randFelt(rng).BigInt(new(big.Int)), mask)
		} else { // close by: prefixes differ in one bit just above the window
			j := int(w) + rng.IntN(10)
			p2 = new(big.Int).SetBit(new(big.Int).Set(p1), j, p1.Bit(j)^1)
		}
		if p1.Cmp(p2) != 0 {
			cnt := 2 + rng.IntN(2)
			offs := map[uint64]*felt.Felt{}
			for len(offs) < cnt && len(offs) < 1<<w {
				offs[uint64(rng.IntN(1<<w))] = lib.F(0x70 + uint64(rng.IntN(4)))
			}
			if len(offs) >= 2 {
				for o, v := range offs {
					for _, pfx := range []*big.Int{p1, p2} {
						k := new(big.Int).Or(new(big.Int).Set(pfx), new(big.Int).SetUint64(o))
						m[k.String()] = lib.KV{K: k, V: v}
					}
				}
				c.Cousins = true
			}
		}
	}
	c.Items = lib.SortedKVs(m)
	return c
}

func (c trieCase) truth(k *big.Int) felt.Felt {
	i := sort.Search(len(c.Items), func(i int) bool { return c.Items[i].K.Cmp(k) >= 0 })
	if i < len(c.Items) && c.Items[i].K.Cmp(k) == 0 {
		return *c.Items[i].V
	}
	return felt.Zero
}

// impl is one trie implementation behind a neutral interface.
type impl struct {
	name   string
	root   felt.Felt
	prove  func(k *felt.Felt) (nproof, func(root, k *felt.Felt) (felt.Felt, error), error) // neutral proof + verification of the native set
	rprove func(l, r *felt.Felt) (nproof, error)
	verify func(root, k *felt.Felt, p nproof) (felt.Felt, error)
	rverif func(root, first *felt.Felt, keys, vals []*felt.Felt, p nproof, nilProof bool) (bool, error)
	// rverifNative proves [l, r] afresh and hands the prover's own proof set (its node objects) to the verifier
	rverifNative func(root, first *felt.Felt, keys, vals []*felt.Felt, l, r *felt.Felt) (bool, error)
	// proveBatch proves all keys into ONE proof set (what starknet_getStorageProof does for the keys
	// of one trie) and returns the neutral form of the set plus a verifier over the native set
	proveBatch func(keys []*felt.Felt) (nproof, func(root, k *felt.Felt) (felt.Felt, error), error)
	// put writes (value zero: deletes) a key on the SAME trie object the proofs come from; rehash
	// hashes (and, where the case says so, commits) it and makes the new root the impl's root
	put    func(k, v *felt.Felt) error
	rehash func() error
}

func openLegacy(c trieCase) (*impl, error) {
	txn := memory.New().NewIndexedBatch()
	var tr *trie.Trie
	var err error
	if c.Poseidon {
		tr, err = trie.NewTriePoseidon(txn, []byte{0x55}, height)
	} else {
		tr, err = trie.NewTriePedersen(txn, []byte{0x55}, height)
	}
	if err != nil {
		return nil, err
	}
	for _, it := range c.Items {
		if _, err := tr.Put(lib.FeltOfBig(it.K), it.V); err != nil {
			return nil, err
		}
	}
	root, err := tr.Hash()
	if err != nil {
		return nil, err
	}
	if c.Commit {
		if err := tr.Commit(); err != nil {
			return nil, err
		}
	}
	h := c.hashFn()
	var im *impl
	im = &impl{
		put: func(k, v *felt.Felt) error { _, err := tr.Put(k, v); return err },
		rehash: func() error {
			r, err := tr.Hash()
			if err != nil {
				return err
			}
			if c.Commit {
				if err := tr.Commit(); err != nil {
					return err
				}
			}
			im.root = r
			return nil
		},
		name: "legacy", root: root,
		prove: func(k *felt.Felt) (nproof, func(root, k *felt.Felt) (felt.Felt, error), error) {
			ps := trie.NewProofNodeSet()
			if err := tr.Prove(k, ps); err != nil {
				return nil, nil, err
			}
			return fromLegacy(ps), func(root, k *felt.Felt) (felt.Felt, error) { return trie.VerifyProof(root, k, ps, h) }, nil
		},
		rprove: func(l, r *felt.Felt) (nproof, error) {
			ps := trie.NewProofNodeSet()
			if err := tr.GetRangeProof(l, r, ps); err != nil {
				return nil, err
			}
			return fromLegacy(ps), nil
		},
		verify: func(root, k *felt.Felt, p nproof) (felt.Felt, error) {
			return trie.VerifyProof(root, k, toLegacy(p), h)
		},
		rverif: func(root, first *felt.Felt, keys, vals []*felt.Felt, p nproof, nilProof bool) (bool, error) {
			if nilProof {
				return trie.VerifyRangeProof(root, first, keys, vals, nil)
			}
			return trie.VerifyRangeProof(root, first, keys, vals, toLegacy(p))
		},
		proveBatch: func(keys []*felt.Felt) (nproof, func(root, k *felt.Felt) (felt.Felt, error), error) {
			ps := trie.NewProofNodeSet()
			for _, k := range keys {
				if err := tr.Prove(k, ps); err != nil {
					return nil, nil, err
				}
			}
			return fromLegacy(ps), func(root, k *felt.Felt) (felt.Felt, error) { return trie.VerifyProof(root, k, ps, h) }, nil
		},
		rverifNative: func(root, first *felt.Felt, keys, vals []*felt.Felt, l, r *felt.Felt) (bool, error) {
			ps := trie.NewProofNodeSet()
			if err := tr.GetRangeProof(l, r, ps); err != nil {
				return false, fmt.Errorf("harness: GetRangeProof: %w", err)
			}
			return trie.VerifyRangeProof(root, first, keys, vals, ps)
		},
	}
	return im, nil
}

func openTrie2(c trieCase) (*impl, error) {
	h := c.hashFn()
	tr := trie2.NewEmpty(height, h)
	for _, it := range c.Items {
		if err := tr.Update(lib.FeltOfBig(it.K), it.V); err != nil {
			return nil, err
		}
	}
	root, err := tr.Hash()
	if err != nil {
		return nil, err
	}
	var im *impl
	im = trie2Impl("trie2", h, &tr)
	im.root = root
	im.rehash = func() error {
		r, err := tr.Hash()
		if err != nil {
			return err
		}
		im.root = r
		return nil
	}
	return im, nil
}

// openTrie2Persisted: the same leaf set in a trie2 that lives in the node database (raw trie
// database over a memory store, contract-storage trie of one owner): built, COMMITTED, and
// REOPENED from the database at its root before anything is proven - the prover then walks
// nodes decoded from their stored bytes, not the objects the updates created. rehash commits
// the pending updates and reopens again.
func openTrie2Persisted(c trieCase) (*impl, error) {
	h := c.hashFn()
	store := memory.New()
	tdb := rawdb.New(store)
	owner := felt.Address(*lib.F(0xabcdef))
	mkID := func(root *felt.Felt) trieutils.TrieID {
		return trieutils.NewContractStorageTrieID(felt.StateRootHash(*root), owner)
	}
	cur := felt.Zero
	gen := uint64(0)
	tr, err := trie2.New(mkID(&cur), height, h, tdb)
	if err != nil {
		return nil, err
	}
	for _, it := range c.Items {
		if err := tr.Update(lib.FeltOfBig(it.K), it.V); err != nil {
			return nil, err
		}
	}
	var im *impl
	commitAndReopen := func() error {
		root, nodes := tr.Commit()
		if nodes != nil {
			batch := store.NewBatch()
			parent := trienode.NewMergeNodeSet(nil)
			if err := parent.Merge(nodes); err != nil {
				return err
			}
			nr, pr := felt.StateRootHash(root), felt.StateRootHash(cur)
			if err := tdb.Update(&nr, &pr, gen, nil, parent, batch); err != nil {
				return err
			}
			if err := batch.Write(); err != nil {
				return err
			}
			gen++
		}
		cur = root
		nt, err := trie2.New(mkID(&cur), height, h, tdb)
		if err != nil {
			return fmt.Errorf("reopen at root %s: %w", root.String(), err)
		}
		tr = nt
		if im != nil {
			im.root = root
		}
		return nil
	}
	if err := commitAndReopen(); err != nil {
		return nil, err
	}
	im = trie2Impl("trie2-reopened-from-database", h, &tr)
	im.root = cur
	im.rehash = commitAndReopen
	return im, nil
}

// trie2Impl wires the prover / verifier closures to whatever trie *trp currently points at.
func trie2Impl(name string, h crypto.HashFn, trp **trie2.Trie) *impl {
	return &impl{
		put:  func(k, v *felt.Felt) error { return (*trp).Update(k, v) },
		name: name,
		prove: func(k *felt.Felt) (nproof, func(root, k *felt.Felt) (felt.Felt, error), error) {
			ps := trie2.NewProofNodeSet()
			if err := (*trp).Prove(k, ps); err != nil {
				return nil, nil, err
			}
			np, err := fromTrie2(ps)
			if err != nil {
				return nil, nil, err
			}
			return np, func(root, k *felt.Felt) (felt.Felt, error) { return trie2.VerifyProof(root, k, ps, h) }, nil
		},
		rprove: func(l, r *felt.Felt) (nproof, error) {
			ps := trie2.NewProofNodeSet()
			if err := (*trp).GetRangeProof(l, r, ps); err != nil {
				return nil, err
			}
			return fromTrie2(ps)
		},
		verify: func(root, k *felt.Felt, p nproof) (felt.Felt, error) {
			return trie2.VerifyProof(root, k, toTrie2(p, root), h)
		},
		rverif: func(root, first *felt.Felt, keys, vals []*felt.Felt, p nproof, nilProof bool) (bool, error) {
			if nilProof {
				return trie2.VerifyRangeProof(root, first, keys, vals, nil)
			}
			return trie2.VerifyRangeProof(root, first, keys, vals, toTrie2(p, root))
		},
		proveBatch: func(keys []*felt.Felt) (nproof, func(root, k *felt.Felt) (felt.Felt, error), error) {
			ps := trie2.NewProofNodeSet()
			for _, k := range keys {
				if err := (*trp).Prove(k, ps); err != nil {
					return nil, nil, err
				}
			}
			np, err := fromTrie2(ps)
			if err != nil {
				return nil, nil, err
			}
			return np, func(root, k *felt.Felt) (felt.Felt, error) { return trie2.VerifyProof(root, k, ps, h) }, nil
		},
		rverifNative: func(root, first *felt.Felt, keys, vals []*felt.Felt, l, r *felt.Felt) (bool, error) {
			ps := trie2.NewProofNodeSet()
			if err := (*trp).GetRangeProof(l, r, ps); err != nil {
				return false, fmt.Errorf("harness: GetRangeProof: %w", err)
			}
			return trie2.VerifyRangeProof(root, first, keys, vals, ps)
		},
	}
}

// ---------------------------------------------------------------- membership: completeness

type memWitness struct {
	Impl     string
	Trie     string
	Root     string
	Key      string
	Operator string `json:",omitempty"`
	Proof    string
	Tampered string `json:",omitempty"`
	Truth    string
	Got      string
	Err      string `json:",omitempty"`
}

// divergence classifies where an absent key leaves the trie (for the coverage counters).
func divergence(root *felt.Felt, k *big.Int, p nproof, h crypto.HashFn) string {
	if root.IsZero() {
		return "empty-trie"
	}
	m := p.asMap()
	cur := *root
	depth := 0
	for depth < height {
		n, ok := m[cur]
		if !ok {
			return "unknown"
		}
		if n.Bin {
			if k.Bit(height-1-depth) == 1 {
				cur = n.R
			} else {
				cur = n.L
			}
			depth++
			continue
		}
		seg := new(big.Int).Rsh(k, uint(height-depth-n.Len))
		seg.And(seg, new(big.Int).Sub(new(big.Int).Lsh(big.NewInt(1), uint(n.Len)), big.NewInt(1)))
		if seg.Cmp(n.Path) != 0 {
			x := new(big.Int).Xor(seg, n.Path)
			pos := n.Len - x.BitLen() // index of first differing bit inside the edge
			where := "inner-edge"
			if depth == 0 {
				where = "root-edge"
			}
			if depth+n.Len == height {
				where = "leaf-edge"
				if depth == 0 {
					where = "root-leaf-edge"
				}
			}
			at := "mid"
			if pos == 0 {
				at = "first-bit"
			} else if pos == n.Len-1 {
				at = "last-bit"
			}
			return where + "/" + at
		}
		cur = n.Child
		depth += n.Len
	}
	return "present"
}

// checkMembership: honest proof of key k from implementation im must verify
// (native node set, freshly rebuilt node set, independent verifier) and yield the truth.
func checkMembership(rp *reporter, idx int, c trieCase, im *impl, k *big.Int) (nproof, bool) {
	r := rp.r
	kf := lib.FeltOfBig(k)
	truth := c.truth(k)
	kind := "present"
	if truth.IsZero() {
		kind = "absent"
	}
	var p nproof
	var native func(root, k *felt.Felt) (felt.Felt, error)
	var err error
	if rp.guard(idx, im.name+":Prove", func() any { return memWitness{Impl: im.name, Trie: c.String(), Key: k.Text(16)} }, func() {
		p, native, err = im.prove(kf)
	}) {
		return nil, false
	}
	r.Eval(1)
	if err != nil {
		rp.viol(im.name+":prove-error:"+kind, idx, fmt.Sprintf("%s Prove(%s) failed: %v", im.name, k.Text(16), err),
			memWitness{Impl: im.name, Trie: c.String(), Root: im.root.String(), Key: k.Text(16), Err: err.Error()})
		return nil, false
	}
	mk := func(got felt.Felt, e error) memWitness {
		w := memWitness{Impl: im.name, Trie: c.String(), Root: im.root.String(), Key: k.Text(16), Proof: p.String(), Truth: truth.String(), Got: got.String()}
		if e != nil {
			w.Err = e.Error()
		}
		return w
	}
	ok := true
	if len(c.Items) == 0 {
		// empty trie: root 0 and an empty node set. Absence of every key is what must be established.
		r.Count("membership.empty_trie_queries", 1)
		var v felt.Felt
		var e error
		if !rp.guard(idx, im.name+":VerifyProof", func() any { return mk(felt.Zero, nil) }, func() { v, e = native(&im.root, kf) }) {
			r.Eval(1)
			if e != nil || !v.IsZero() {
				rp.viol(im.name+":empty-trie-absence-proof-rejected", idx,
					fmt.Sprintf("%s: the (empty) proof produced for key %s of the empty trie (root 0) does not verify: value=%s err=%v", im.name, k.Text(16), v.String(), e), mk(v, e))
				ok = false
			}
		}
		return p, ok
	}
	type ver struct {
		name string
		fn   func() (felt.Felt, error)
	}
	for _, v := range []ver{
		{"native-node-set", func() (felt.Felt, error) { return native(&im.root, kf) }},
		{"rebuilt-node-set", func() (felt.Felt, error) { return im.verify(&im.root, kf, p) }},
		{"independent-verifier", func() (felt.Felt, error) { x, _, e := refVerify(&im.root, k, p.asMap(), c.hashFn()); return x, e }},
	} {
		var got felt.Felt
		var e error
		if rp.guard(idx, im.name+":VerifyProof:honest", func() any { return mk(felt.Zero, nil) }, func() { got, e = v.fn() }) {
			ok = false
			continue
		}
		r.Eval(1)
		if e != nil {
			rp.viol(fmt.Sprintf("%s:honest-proof-rejected:%s:%s", im.name, kind, v.name), idx,
				fmt.Sprintf("%s: honest proof of %s key %s rejected by %s: %v", im.name, kind, k.Text(16), v.name, e), mk(got, e))
			ok = false
		} else if !got.Equal(&truth) {
			rp.viol(fmt.Sprintf("%s:honest-proof-wrong-value:%s:%s", im.name, kind, v.name), idx,
				fmt.Sprintf("%s: honest proof of %s key %s yields %s by %s, true value %s", im.name, kind, k.Text(16), got.String(), v.name, truth.String()), mk(got, e))
			ok = false
		}
	}
	return p, ok
}

// checkBatch: several keys proven into one shared proof set (as the RPC does for the keys of
// one trie); every key must verify from the shared set - natively, from the rebuilt set and
// with the independent verifier - and yield the truth.
func checkBatch(rp *reporter, idx int, c trieCase, im *impl, ks []*big.Int) {
	r := rp.r
	if len(c.Items) == 0 || len(ks) < 2 {
		return
	}
	kf := make([]*felt.Felt, len(ks))
	var names []string
	for i, k := range ks {
		kf[i] = lib.FeltOfBig(k)
		names = append(names, k.Text(16))
	}
	var p nproof
	var native func(root, k *felt.Felt) (felt.Felt, error)
	var err error
	wit := func() any { return memWitness{Impl: im.name, Trie: c.String(), Key: strings.Join(names, ",")} }
	if rp.guard(idx, im.name+":Prove:batch", wit, func() { p, native, err = im.proveBatch(kf) }) {
		return
	}
	r.Eval(1)
	r.Count("membership.batched_proof_sets", 1)
	if err != nil {
		rp.viol(im.name+":prove-error:batch", idx, fmt.Sprintf("%s Prove of keys %v into one proof set failed: %v", im.name, names, err),
			memWitness{Impl: im.name, Trie: c.String(), Root: im.root.String(), Key: strings.Join(names, ","), Err: err.Error()})
		return
	}
	cond := "plain"
	if c.Cousins {
		cond = "equal-subtrees-at-different-positions"
	} else if c.Twins {
		cond = "identical-sibling-subtrees"
	}
	for i, k := range ks {
		truth := c.truth(k)
		kind := "present"
		if truth.IsZero() {
			kind = "absent"
		}
		for _, v := range []struct {
			name string
			fn   func() (felt.Felt, error)
		}{
			{"native-node-set", func() (felt.Felt, error) { return native(&im.root, kf[i]) }},
			{"rebuilt-node-set", func() (felt.Felt, error) { return im.verify(&im.root, kf[i], p) }},
			{"independent-verifier", func() (felt.Felt, error) { x, _, e := refVerify(&im.root, k, p.asMap(), c.hashFn()); return x, e }},
		} {
			var got felt.Felt
			var e error
			mk := func() memWitness {
				w := memWitness{Impl: im.name, Trie: c.String(), Root: im.root.String(), Key: k.Text(16) + " of batch " + strings.Join(names, ","), Proof: p.String(), Truth: truth.String(), Got: got.String()}
				if e != nil {
					w.Err = e.Error()
				}
				return w
			}
			if rp.guard(idx, im.name+":VerifyProof:batch", func() any { return mk() }, func() { got, e = v.fn() }) {
				continue
			}
			r.Eval(1)
			r.Count("membership.batched_keys_verified", 1)
			if e != nil {
				rp.viol(fmt.Sprintf("%s:batched-proof-rejected:%s:%s:%s", im.name, kind, v.name, cond), idx,
					fmt.Sprintf("%s: key %s (%s, #%d of %d proven into one proof set) does not verify from the shared set by %s: %v", im.name, k.Text(16), kind, i+1, len(ks), v.name, e), mk())
			} else if !got.Equal(&truth) {
				rp.viol(fmt.Sprintf("%s:batched-proof-wrong-value:%s:%s:%s", im.name, kind, v.name, cond), idx,
					fmt.Sprintf("%s: key %s (#%d of %d proven into one proof set) yields %s by %s, true value %s", im.name, k.Text(16), i+1, len(ks), got.String(), v.name, truth.String()), mk())
			}
		}
	}
}

// ---------------------------------------------------------------- membership: tampers

type tampered struct {
	Op   string
	P    nproof
	Key  *big.Int   // key to verify (may differ from the proven key)
	Root *felt.Felt // root to verify against (nil = the true root)
}

func addOne(f felt.Felt) felt.Felt {
	var o felt.Felt
	o.Add(&f, lib.F(1))
	return o
}

// memTampers enumerates the structured single-node / single-field corruptions
// of proof p (produced for key k). Variants "keep-key" leave the altered node
// stored under its original hash (only a hash check can notice), variants
// "rekey" store it under its new hash (the parent's reference then dangles).
func memTampers(rng *rand.Rand, c trieCase, p nproof, k *big.Int, root *felt.Felt, h crypto.HashFn, all bool) []tampered {
	var out []tampered
	add := func(op string, q nproof) { out = append(out, tampered{Op: op, P: q, Key: k}) }
	variants := func(op string, i int, mod func(n *pnode)) {
		q := p.clone()
		mod(&q[i].N)
		add(op+"/keep-key", q)
		q2 := q.clone()
		q2[i].Key = q2[i].N.hashOf(h)
		add(op+"/rekey", q2)
	}
	dep := p.depths(root)
	// positions on the path of k, in order, so that operators can be targeted
	for i := range p {
		if !all && len(p) > 6 && rng.IntN(len(p)) >= 6 {
			continue
		}
		n := p[i].N
		role := "inner"
		if d, ok := dep[p[i].Key]; ok && d == 0 {
			role = "root"
		}
		if n.Bin {
			if d, ok := dep[p[i].Key]; ok && d == height-1 {
				role = "bottom"
			}
			variants("binary-left-altered@"+role, i, func(n *pnode) { n.L = addOne(n.L) })
			variants("binary-right-altered@"+role, i, func(n *pnode) { n.R = addOne(n.R) })
			variants("binary-children-swapped@"+role, i, func(n *pnode) { n.L, n.R = n.R, n.L })
			if d, ok := dep[p[i].Key]; ok {
				variants("binary-child-on-path-zeroed@"+role, i, func(n *pnode) {
					if k.Bit(height-1-d) == 1 {
						n.R = felt.Zero
					} else {
						n.L = felt.Zero
					}
				})
			}
			variants("binary-turned-into-edge@"+role, i, func(n *pnode) {
				*n = pnode{Child: n.L, Path: n.R.BigInt(new(big.Int)), Len: 0}
			})
			variants("binary-turned-into-1bit-edge@"+role, i, func(n *pnode) {
				*n = pnode{Child: n.L, Path: big.NewInt(0), Len: 1}
			})
		} else {
			if d, ok := dep[p[i].Key]; ok && d+n.Len == height {
				role += "-leaf"
			}
			variants("edge-child-altered@"+role, i, func(n *pnode) { n.Child = addOne(n.Child) })
			variants("edge-child-zeroed@"+role, i, func(n *pnode) { n.Child = felt.Zero })
			bit := rng.IntN(n.Len)
			variants("edge-path-bit-flipped@"+role, i, func(n *pnode) {
				n.Path = new(big.Int).SetBit(new(big.Int).Set(n.Path), bit, n.Path.Bit(bit)^1)
			})
			variants("edge-path-last-bit-flipped@"+role, i, func(n *pnode) {
				n.Path = new(big.Int).SetBit(new(big.Int).Set(n.Path), 0, n.Path.Bit(0)^1)
			})
			variants("edge-path-first-bit-flipped@"+role, i, func(n *pnode) {
				n.Path = new(big.Int).SetBit(new(big.Int).Set(n.Path), n.Len-1, n.Path.Bit(n.Len-1)^1)
			})
			if d, ok := dep[p[i].Key]; ok {
				// the path a forger wants: exactly the bits of the verified key
				variants("edge-path-forced-to-key-bits@"+role, i, func(n *pnode) {
					seg := new(big.Int).Rsh(k, uint(height-d-n.Len))
					seg.And(seg, new(big.Int).Sub(new(big.Int).Lsh(big.NewInt(1), uint(n.Len)), big.NewInt(1)))
					if seg.Cmp(n.Path) == 0 {
						seg.SetBit(seg, 0, seg.Bit(0)^1) // already matching: force a mismatch instead
					}
					n.Path = seg
				})
			}
			if n.Len < 251 {
				variants("edge-length+1-same-path@"+role, i, func(n *pnode) { n.Len++ })
				variants("edge-length+1-path-extended@"+role, i, func(n *pnode) { n.Len++; n.Path = new(big.Int).Lsh(n.Path, 1) })
			}
			if n.Len > 1 {
				variants("edge-length-1-path-truncated@"+role, i, func(n *pnode) { n.Len--; n.Path = new(big.Int).Rsh(n.Path, 1) })
				variants("edge-length-1-same-low-bits@"+role, i, func(n *pnode) {
					n.Len--
					n.Path = new(big.Int).And(n.Path, new(big.Int).Sub(new(big.Int).Lsh(big.NewInt(1), uint(n.Len)), big.NewInt(1)))
				})
			}
			variants("edge-turned-into-binary@"+role, i, func(n *pnode) {
				*n = pnode{Bin: true, L: n.Child, R: *new(felt.Felt).SetBigInt(n.Path)}
			})
		}
		// the entry replaced by a degenerate edge: no path bits at all, pointing at the entry's own hash
		// (or at one of its children) - as a hash reference and typed as a value
		own := p[i].Key
		for _, valChild := range []bool{false, true} {
			q := p.clone()
			q[i].N = pnode{Len: 0, Path: new(big.Int), Child: own, ValChild: valChild}
			add(fmt.Sprintf("node-replaced-by-empty-path-edge-to-itself(value-typed-child=%v)@%s", valChild, role), q)
			q = p.clone()
			ch := n.Child
			if n.Bin {
				ch = n.L
			}
			q[i].N = pnode{Len: 0, Path: new(big.Int), Child: ch, ValChild: valChild}
			add(fmt.Sprintf("node-replaced-by-empty-path-edge-to-its-child(value-typed-child=%v)@%s", valChild, role), q)
		}
		// node removed
		q := append(p[:i:i].clone(), p[i+1:].clone()...)
		add("node-removed@"+role, q)
		// node replaced by another real node of the same proof (kept under the original hash)
		if len(p) > 1 {
			j := (i + 1 + rng.IntN(len(p)-1)) % len(p)
			q := p.clone()
			q[i].N = p.clone()[j].N
			add("node-replaced-by-other-real-node@"+role, q)
		}
	}
	if len(p) > 1 {
		// two entries exchange their hashes
		i := rng.IntN(len(p))
		j := (i + 1 + rng.IntN(len(p)-1)) % len(p)
		q := p.clone()
		q[i].Key, q[j].Key = q[j].Key, q[i].Key
		add("two-nodes-exchange-hashes", q)
	}
	// unrelated extra node (harmless if ignored; must not change the answer)
	{
		q := p.clone()
		extra := pnode{Bin: true, L: *randFelt(rng), R: *randFelt(rng)}
		q = append(q, pentry{extra.hashOf(h), extra})
		add("unrelated-node-added", q)
	}
	// the proof is presented for a different key: neighbours and another leaf
	for _, d := range []int{0, 1, rng.IntN(height), height - 1} {
		k2 := new(big.Int).SetBit(new(big.Int).Set(k), d, k.Bit(d)^1)
		out = append(out, tampered{Op: fmt.Sprintf("key-replaced-by-neighbour(bit%s)", bitClass(d)), P: p.clone(), Key: k2})
	}
	if len(c.Items) > 1 {
		o := c.Items[rng.IntN(len(c.Items))].K
		if o.Cmp(k) != 0 {
			out = append(out, tampered{Op: "key-replaced-by-other-leaf", P: p.clone(), Key: o})
		}
	}
	// verified against a different root
	wr := addOne(*root)
	out = append(out, tampered{Op: "root-altered", P: p.clone(), Key: k, Root: &wr})
	return out
}

func bitClass(d int) string {
	switch {
	case d == 0:
		return "0"
	case d == 1:
		return "1"
	case d == height-1:
		return "250"
	}
	return "k"
}

func opFamily(op string) string {
	for i := 0; i < len(op); i++ {
		if op[i] == '@' {
			j := i
			for j < len(op) && op[j] != '/' {
				j++
			}
			return op[:i] + op[j:]
		}
	}
	return op
}

// checkTampers applies the soundness implication: whatever the verifier
// accepts must be the truth about the key it was asked about, under the root
// it was asked about.
func checkTampers(rp *reporter, idx int, c trieCase, im *impl, p nproof, k *big.Int, rng *rand.Rand, all bool) {
	r := rp.r
	h := c.hashFn()
	for _, t := range memTampers(rng, c, p, k, &im.root, h, all) {
		root := &im.root
		if t.Root != nil {
			root = t.Root
		}
		kf := lib.FeltOfBig(t.Key)
		var got felt.Felt
		var err error
		w := func() any {
			return memWitness{Impl: im.name, Trie: c.String(), Root: root.String(), Key: t.Key.Text(16), Operator: t.Op,
				Proof: p.String(), Tampered: t.P.String()}
		}
		if rp.guard(idx, im.name+":VerifyProof:"+opFamily(t.Op), w, func() { got, err = im.verify(root, kf, t.P) }) {
			continue
		}
		r.Eval(1)
		r.Count("membership.tampers_applied", 1)
		r.Count("membership.tamper_op["+opFamily(t.Op)+"]", 1)
		if err != nil {
			r.Count("membership.tampers_rejected", 1)
			continue
		}
		truth := c.truth(t.Key)
		lie := !got.Equal(&truth)
		if t.Root != nil {
			// accepted under root+1, which commits to nothing the prover knows a preimage of
			lie = true
		}
		if !lie {
			r.Count("membership.tampers_accepted_but_truthful", 1)
			continue
		}
		mw := w().(memWitness)
		mw.Truth, mw.Got = truth.String(), got.String()
		rp.viol(fmt.Sprintf("%s:membership-accepted-lie:%s", im.name, opFamily(t.Op)), idx,
			fmt.Sprintf("%s VerifyProof accepted a tampered proof (%s) and reports %s for key %s whose true value is %s",
				im.name, t.Op, got.String(), t.Key.Text(16), truth.String()), mw)
	}
}

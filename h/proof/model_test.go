package vproof

import (
	"errors"
	"fmt"
	"math/big"

	"github.com/NethermindEth/juno/core/crypto"
	"github.com/NethermindEth/juno/core/felt"
	"github.com/NethermindEth/juno/core/trie"
	"github.com/NethermindEth/juno/core/trie2"
	"github.com/NethermindEth/juno/core/trie2/trienode"
	"github.com/NethermindEth/juno/core/trie2/trieutils"
)

const height = 251

// pnode is the implementation-neutral form of one proof node, i.e. exactly the
// information a wire format (or the JSON-RPC NODE_HASH_TO_NODE_MAPPING) carries:
// binary = (left, right), edge = (child, path, length).
type pnode struct {
	Bin   bool
	L, R  felt.Felt
	Child felt.Felt
	Path  *big.Int
	Len   int
	// ValChild: when the node set is rebuilt for core/trie2 the edge's child is typed as a value
	// (a decoder decides the child's type; a hostile sender can make it say either)
	ValChild bool
}

// pentry = one (node_hash -> node) mapping entry.
type pentry struct {
	Key felt.Felt
	N   pnode
}

type nproof []pentry

func (p nproof) clone() nproof {
	out := make(nproof, len(p))
	for i, e := range p {
		out[i] = e
		if e.N.Path != nil {
			out[i].N.Path = new(big.Int).Set(e.N.Path)
		}
	}
	return out
}

func (n pnode) String() string {
	if n.Bin {
		return fmt.Sprintf("B(%s,%s)", short(&n.L), short(&n.R))
	}
	return fmt.Sprintf("E(child=%s,path=%s,len=%d)", short(&n.Child), n.Path.Text(16), n.Len)
}

func short(f *felt.Felt) string {
	s := f.String()
	if len(s) > 14 {
		return s[:8] + ".." + s[len(s)-4:]
	}
	return s
}

func (p nproof) String() string {
	s := ""
	for _, e := range p {
		s += fmt.Sprintf("[%s -> %s] ", short(&e.Key), e.N.String())
	}
	return s
}

// hashOf is the protocol definition of a node hash (independent of both trie packages).
func (n pnode) hashOf(h crypto.HashFn) felt.Felt {
	if n.Bin {
		return h(&n.L, &n.R)
	}
	pf := new(felt.Felt).SetBigInt(n.Path)
	r := h(&n.Child, pf)
	r.Add(&r, new(felt.Felt).SetUint64(uint64(n.Len)))
	return r
}

var errRef = errors.New("ref-verifier")

// refVerify is the independent membership verifier written from the Starknet
// description of the Merkle-Patricia trie: start at the root hash, look the node
// up by hash, check its hash, binary -> follow the next key bit, edge -> the
// next `length` key bits must equal `path`, otherwise the key is absent (value
// 0); after 251 bits the current hash is the leaf value. Root 0 = empty trie.
func refVerify(root *felt.Felt, key *big.Int, nodes map[felt.Felt]pnode, h crypto.HashFn) (felt.Felt, int, error) {
	if root.IsZero() {
		return felt.Zero, 0, nil
	}
	cur := *root
	depth := 0
	steps := 0
	for depth < height {
		n, ok := nodes[cur]
		if !ok {
			return felt.Zero, steps, fmt.Errorf("%w: node %s missing at depth %d", errRef, cur.String(), depth)
		}
		if hh := n.hashOf(h); !hh.Equal(&cur) {
			return felt.Zero, steps, fmt.Errorf("%w: node stored under %s hashes to %s", errRef, cur.String(), hh.String())
		}
		steps++
		if n.Bin {
			if key.Bit(height-1-depth) == 1 {
				cur = n.R
			} else {
				cur = n.L
			}
			depth++
			continue
		}
		if n.Len <= 0 || depth+n.Len > height {
			return felt.Zero, steps, fmt.Errorf("%w: edge of length %d at depth %d", errRef, n.Len, depth)
		}
		if n.Path.BitLen() > n.Len {
			return felt.Zero, steps, fmt.Errorf("%w: edge path longer than its length", errRef)
		}
		seg := new(big.Int).Rsh(key, uint(height-depth-n.Len))
		seg.And(seg, new(big.Int).Sub(new(big.Int).Lsh(big.NewInt(1), uint(n.Len)), big.NewInt(1)))
		if seg.Cmp(n.Path) != 0 {
			return felt.Zero, steps, nil // proven absent
		}
		cur = n.Child
		depth += n.Len
	}
	return cur, steps, nil
}

func (p nproof) asMap() map[felt.Felt]pnode {
	m := make(map[felt.Felt]pnode, len(p))
	for _, e := range p {
		m[e.Key] = e.N
	}
	return m
}

// depths walks the mapping from the root and returns the depth at which each
// stored key is referenced (first reference wins); unreachable entries are absent.
func (p nproof) depths(root *felt.Felt) map[felt.Felt]int {
	m := p.asMap()
	d := map[felt.Felt]int{}
	type it struct {
		h felt.Felt
		d int
	}
	q := []it{{*root, 0}}
	for len(q) > 0 {
		x := q[0]
		q = q[1:]
		if _, seen := d[x.h]; seen || x.d >= height {
			continue
		}
		n, ok := m[x.h]
		if !ok {
			continue
		}
		d[x.h] = x.d
		if n.Bin {
			q = append(q, it{n.L, x.d + 1}, it{n.R, x.d + 1})
		} else {
			q = append(q, it{n.Child, x.d + n.Len})
		}
	}
	return d
}

// ---- legacy (core/trie) conversion

func fromLegacy(ps *trie.ProofNodeSet) nproof {
	keys := ps.Keys()
	list := ps.List()
	out := make(nproof, 0, len(keys))
	for i := range keys {
		switch n := list[i].(type) {
		case *trie.Binary:
			out = append(out, pentry{keys[i], pnode{Bin: true, L: *n.LeftHash, R: *n.RightHash}})
		case *trie.Edge:
			pf := n.Path.Felt()
			out = append(out, pentry{keys[i], pnode{Child: *n.Child, Path: pf.BigInt(new(big.Int)), Len: int(n.Path.Len())}})
		default:
			panic(fmt.Sprintf("legacy proof node of type %T", n))
		}
	}
	return out
}

func cp(f felt.Felt) *felt.Felt { return &f }

// toLegacy builds fresh legacy proof nodes (as rpc's AsProofNode / a wire decoder would).
func toLegacy(p nproof) *trie.ProofNodeSet {
	ps := trie.NewProofNodeSet()
	for _, e := range p {
		if e.N.Bin {
			ps.Put(e.Key, &trie.Binary{LeftHash: cp(e.N.L), RightHash: cp(e.N.R)})
			continue
		}
		pf := new(felt.Felt).SetBigInt(e.N.Path)
		ps.Put(e.Key, &trie.Edge{Child: cp(e.N.Child), Path: new(trie.BitArray).SetFelt(uint8(e.N.Len), pf)})
	}
	return ps
}

// ---- trie2 conversion

func fromTrie2(ps *trie2.ProofNodeSet) (nproof, error) {
	keys := ps.Keys()
	list := ps.List()
	out := make(nproof, 0, len(keys))
	flat := func(n trienode.Node) (felt.Felt, error) {
		switch c := n.(type) {
		case *trienode.HashNode:
			return felt.Felt(*c), nil
		case *trienode.ValueNode:
			return felt.Felt(*c), nil
		}
		return felt.Zero, fmt.Errorf("proof node child of type %T (not a hash/value reference)", n)
	}
	for i := range keys {
		switch n := list[i].(type) {
		case *trienode.BinaryNode:
			l, err := flat(n.Children[0])
			if err != nil {
				return nil, err
			}
			r, err := flat(n.Children[1])
			if err != nil {
				return nil, err
			}
			out = append(out, pentry{keys[i], pnode{Bin: true, L: l, R: r}})
		case *trienode.EdgeNode:
			c, err := flat(n.Child)
			if err != nil {
				return nil, err
			}
			pf := n.Path.Felt()
			out = append(out, pentry{keys[i], pnode{Child: c, Path: pf.BigInt(new(big.Int)), Len: int(n.Path.Len())}})
		default:
			return nil, fmt.Errorf("trie2 proof node of type %T", n)
		}
	}
	return out, nil
}

// toTrie2 builds fresh trie2 proof nodes the way trienode.DecodeNode shapes
// them: no cached-hash flags, children are hash references except at the
// bottom level (depth 251) where they are value nodes. The depth of an entry is
// taken from where the mapping itself places it below `root`.
func toTrie2(p nproof, root *felt.Felt) *trie2.ProofNodeSet {
	ps := trie2.NewProofNodeSet()
	dep := p.depths(root)
	ref := func(f felt.Felt, depth int) trienode.Node {
		if depth >= height {
			v := trienode.ValueNode(f)
			return &v
		}
		hn := trienode.HashNode(f)
		return &hn
	}
	for _, e := range p {
		d, ok := dep[e.Key]
		if !ok {
			d = 0
		}
		if e.N.Bin {
			ps.Put(e.Key, &trienode.BinaryNode{Children: [2]trienode.Node{ref(e.N.L, d+1), ref(e.N.R, d+1)}})
			continue
		}
		pf := new(felt.Felt).SetBigInt(e.N.Path)
		child := ref(e.N.Child, d+e.N.Len)
		if e.N.ValChild {
			v := trienode.ValueNode(e.N.Child)
			child = &v
		}
		ps.Put(e.Key, &trienode.EdgeNode{Child: child, Path: new(trieutils.Path).SetFelt(uint8(e.N.Len), pf)})
	}
	return ps
}

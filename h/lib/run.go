// Package lib holds the shared parts of the runtime-monitoring harness: seed
// derivation, evidence bookkeeping, known-finding classification.
package lib

import (
	"encoding/json"
	"fmt"
	"hash/fnv"
	"math/rand/v2"
	"os"
	"path/filepath"
	"runtime"
	"sort"
	"strconv"
	"sync"
	"time"
)

// ---------------------------------------------------------------- seeds

func splitmix(x uint64) uint64 {
	x += 0x9e3779b97f4a7c15
	x = (x ^ (x >> 30)) * 0xbf58476d1ce4e5b9
	x = (x ^ (x >> 27)) * 0x94d049bb133111eb
	return x ^ (x >> 31)
}

func strHash(s string) uint64 {
	h := fnv.New64a()
	h.Write([]byte(s))
	return h.Sum64()
}

// Seed returns VERIF_SEED (default 1).
func Seed() uint64 {
	if s := os.Getenv("VERIF_SEED"); s != "" {
		if v, err := strconv.ParseInt(s, 10, 64); err == nil {
			return uint64(v)
		}
	}
	return 1
}

// Rng returns the PRNG of case `idx` of stream `stream`; every random choice
// of the harness goes through one of these, so a case is reproduced by
// (VERIF_SEED, stream, idx) alone.
func Rng(stream string, idx uint64) *rand.Rand {
	a := splitmix(Seed() ^ strHash(stream))
	b := splitmix(a ^ (idx * 0x9e3779b97f4a7c15))
	return rand.New(rand.NewPCG(a^idx, b))
}

// ---------------------------------------------------------------- run bookkeeping

type violation struct {
	Class  string `json:"class"`
	Replay string `json:"replay"`
	Brief  string `json:"brief"`
}

type knownHit struct {
	Class string `json:"class"`
	What  string `json:"what"`
	Count int    `json:"count"`
}

// Run collects what one check execution observed.
type Run struct {
	mu       sync.Mutex
	Prop     string
	Level    string
	Tier     string
	Race     bool
	start    time.Time
	evals    int64
	distinct map[uint64]struct{}
	samples  []any
	counters map[string]int64
	assume   []string
	incon    map[string]int64
	viols    []violation
	known    map[string]*knownHit
	findings []Finding
	onlyCase int64
	abortRule  string
	abortFloor int
	classCount map[string]int
	notes    []string
}

// Start begins a run for property prop at evidence level `level`
// ("exploration" or "fault_enumeration").
func Start(prop, level string) *Run {
	r := &Run{
		Prop: prop, Level: level, Tier: os.Getenv("VERIF_TIER"), start: time.Now(),
		distinct: map[uint64]struct{}{}, counters: map[string]int64{}, incon: map[string]int64{},
		known: map[string]*knownHit{}, onlyCase: -1, classCount: map[string]int{},
	}
	if r.Tier != "thorough" {
		r.Tier = "quick"
	}
	r.Race = os.Getenv("VERIF_RACE") == "1"
	if s := os.Getenv("VERIF_ONLY_CASE"); s != "" {
		if v, err := strconv.ParseInt(s, 10, 64); err == nil {
			r.onlyCase = v
		}
	}
	r.findings = LoadFindings()
	return r
}

func (r *Run) Quick() bool { return r.Tier == "quick" }

// N picks the case-list length for the tier; the race binary gets raceDiv-times
// fewer cases (it is ~10x slower).
func (r *Run) N(quick, thorough int) int {
	n := quick
	if r.Tier == "thorough" {
		n = thorough
	}
	if s := os.Getenv("VERIF_SCALE"); s != "" {
		if f, err := strconv.ParseFloat(s, 64); err == nil && f > 0 {
			n = int(float64(n) * f)
		}
	}
	if r.Race {
		n = n / 8
	}
	if n < 1 {
		n = 1
	}
	return n
}

// Skip reports whether case idx is excluded by a --replay request.
func (r *Run) Skip(idx int) bool { return r.onlyCase >= 0 && int64(idx) != r.onlyCase }

func (r *Run) Eval(n int) {
	r.mu.Lock()
	r.evals += int64(n)
	r.mu.Unlock()
}

// Case registers a non-trivial case under a structural key; distinct keys are counted.
func (r *Run) Case(key string) {
	h := strHash(key)
	r.mu.Lock()
	r.distinct[h] = struct{}{}
	r.mu.Unlock()
}

func (r *Run) Sample(v any) {
	r.mu.Lock()
	if len(r.samples) < 5 {
		r.samples = append(r.samples, v)
	}
	r.mu.Unlock()
}

func (r *Run) Count(key string, n int) {
	r.mu.Lock()
	r.counters[key] += int64(n)
	r.mu.Unlock()
}

func (r *Run) Counter(key string) int64 {
	r.mu.Lock()
	defer r.mu.Unlock()
	return r.counters[key]
}

func (r *Run) Assume(s string) {
	r.mu.Lock()
	for _, a := range r.assume {
		if a == s {
			r.mu.Unlock()
			return
		}
	}
	r.assume = append(r.assume, s)
	r.mu.Unlock()
}

func (r *Run) Note(s string) {
	r.mu.Lock()
	if len(r.notes) < 50 {
		r.notes = append(r.notes, s)
	}
	r.mu.Unlock()
}

// Inconclusive records a case that produced no verdict (watchdog, too few events).
func (r *Run) Inconclusive(reason string) {
	r.mu.Lock()
	r.incon[reason]++
	r.mu.Unlock()
}

func replayDir() string {
	if d := os.Getenv("VERIF_REPLAY_DIR"); d != "" {
		return d
	}
	return "/verif/replays"
}

// Violation reports a refuted case. `class` is the witness classifier: if
// known_findings.json lists an *open* finding (property, class) the case is
// reported as KNOWN-FINDING, otherwise as a VIOLATION with a replay file.
// caseIdx is what --replay needs to re-run exactly this case.
func (r *Run) Violation(class string, caseIdx int, brief string, witness any) {
	r.mu.Lock()
	defer r.mu.Unlock()
	for _, f := range r.findings {
		if f.Property == r.Prop && f.Status == "open" && f.Class == class && class != "" {
			k := r.known[class]
			if k == nil {
				k = &knownHit{Class: class, What: f.What}
				r.known[class] = k
			}
			k.Count++
			return
		}
	}
	r.classCount[class]++
	if r.classCount[class] > 3 {
		return // counted; the first three witnesses of a class are enough
	}
	v := violation{Class: class, Brief: brief}
	if len(r.viols) < 60 {
		dir := filepath.Join(replayDir(), r.Prop)
		os.MkdirAll(dir, 0o755)
		suffix := ""
		if r.Race {
			suffix = "-race"
		}
		p := filepath.Join(dir, fmt.Sprintf("seed%d-%s%s-case%d-%d.json", Seed(), r.Tier, suffix, caseIdx, len(r.viols)))
		b, _ := json.MarshalIndent(map[string]any{
			"property": r.Prop, "seed": Seed(), "tier": r.Tier, "race": r.Race, "case": caseIdx,
			"class": class, "brief": brief, "witness": witness,
		}, "", " ")
		os.WriteFile(p, b, 0o644)
		v.Replay = p
	}
	r.viols = append(r.viols, v)
}

func (r *Run) Violations() int {
	r.mu.Lock()
	defer r.mu.Unlock()
	n := 0
	for _, c := range r.classCount {
		n += c
	}
	return n
}

// Finish writes the part file ($VERIF_PART) that run.py merges into
// /verif/evidence/<id>.json. floor = minimum number of distinct non-trivial
// cases below which the run counts as "observed nothing" (broken check).
func (r *Run) Finish(rule string, floor int) {
	r.mu.Lock()
	defer r.mu.Unlock()
	kn := []*knownHit{}
	for _, k := range r.known {
		kn = append(kn, k)
	}
	sort.Slice(kn, func(i, j int) bool { return kn[i].Class < kn[j].Class })
	if r.samples == nil {
		r.samples = []any{}
	}
	out := map[string]any{
		"property_id": r.Prop, "tier": r.Tier, "seed": int64(Seed()), "level": r.Level, "race": r.Race,
		"evaluations": r.evals, "distinct_nontrivial": len(r.distinct), "rule": rule,
		"samples": r.samples, "counters": r.counters, "assumptions": r.assume,
		"inconclusive": r.incon, "violations": r.viols, "violation_classes": r.classCount, "known": kn, "notes": r.notes,
		"floor": floor, "floor_ok": len(r.distinct) >= floor || r.onlyCase >= 0,
		"wall_s": time.Since(r.start).Seconds(), "gomaxprocs": runtime.GOMAXPROCS(0),
	}
	b, err := json.MarshalIndent(out, "", " ")
	if err != nil {
		panic(err)
	}
	p := os.Getenv("VERIF_PART")
	if p == "" {
		p = filepath.Join(os.TempDir(), "verif-part-"+r.Prop+".json")
	}
	if err := os.WriteFile(p, b, 0o644); err != nil {
		panic(err)
	}
	fmt.Printf("[%s] evals=%d distinct=%d violations=%d known=%d inconclusive=%d wall=%.1fs\n",
		r.Prop, r.evals, len(r.distinct), len(r.classCount), len(kn), len(r.incon), time.Since(r.start).Seconds())
}

// ---------------------------------------------------------------- parallel case driver

// Cases runs fn(idx) for idx in [0,n) on `workers` goroutines (0 = GOMAXPROCS),
// honouring --replay. A panic inside fn is converted to a violation of class
// "panic" (the harness itself must not panic; a panic in Juno code is a finding
// for every property).
func (r *Run) Cases(n, workers int, fn func(idx int)) {
	if workers <= 0 {
		workers = runtime.GOMAXPROCS(0)
	}
	ch := make(chan int)
	var wg sync.WaitGroup
	for w := 0; w < workers; w++ {
		wg.Add(1)
		go func() {
			defer wg.Done()
			for i := range ch {
				func() {
					defer func() {
						if p := recover(); p != nil {
							buf := make([]byte, 8192)
							buf = buf[:runtime.Stack(buf, false)]
							r.Violation("panic", i, fmt.Sprintf("panic: %v", p), map[string]any{"panic": fmt.Sprint(p), "stack": string(buf)})
						}
					}()
					r.bounded(i, "case-does-not-terminate", r.caseLimit(), caseRSS, nil, func() { fn(i) })
				}()
			}
		}()
	}
	for i := 0; i < n; i++ {
		if r.Skip(i) {
			continue
		}
		ch <- i
	}
	close(ch)
	wg.Wait()
}

// ---------------------------------------------------------------- known findings

// Finding is one entry of /verif/known_findings.json.
type Finding struct {
	Property string   `json:"property"`
	Class    string   `json:"class"`
	Status   string   `json:"status"` // "open" | "fixed"
	Commit   string   `json:"commit,omitempty"`
	What     string   `json:"what"`
	Avoid    []string `json:"avoid,omitempty"` // input-shape tags other workloads steer around while open
}

var (
	findingsOnce sync.Once
	findingsAll  []Finding
)

func LoadFindings() []Finding {
	findingsOnce.Do(func() {
		p := os.Getenv("VERIF_FINDINGS")
		if p == "" {
			p = "/verif/known_findings.json"
		}
		b, err := os.ReadFile(p)
		if err != nil {
			return
		}
		var doc struct {
			Findings []Finding `json:"findings"`
		}
		if err := json.Unmarshal(b, &doc); err != nil {
			panic("known_findings.json: " + err.Error())
		}
		findingsAll = doc.Findings
	})
	return findingsAll
}

// Avoid reports whether an open finding asks workloads to steer around inputs
// tagged `tag` (so that one open defect does not cascade into other properties).
func Avoid(tag string) bool {
	for _, f := range LoadFindings() {
		if f.Status != "open" {
			continue
		}
		for _, a := range f.Avoid {
			if a == tag {
				return true
			}
		}
	}
	return false
}

// ---------------------------------------------------------------- runaway guard

// A call into the code under test that normally returns within milliseconds may, on a broken
// tree, loop for ever - possibly allocating until the kernel kills the process, which would leave
// no verdict at all. Bounded runs fn under a watchdog: if the call is still running after
// `limit` (orders of magnitude above normal), or the process' resident memory passes
// runawayRSS while it is the longest-running guarded call, a violation of class `class` is
// recorded for that case, the evidence part file is written and the process ends - a goroutine
// stuck inside the code under test cannot be stopped. SetFinish must have been called.
type boundedCall struct {
	start   time.Time
	limit   time.Duration
	rss     uint64 // resident-memory limit that makes this call a suspect
	idx     int
	class   string
	witness func() any
}

const runawayRSS = 10 << 30 // bytes (guarded workloads normally stay well below 2 GB)

var (
	boundedMu    sync.Mutex
	boundedCalls = map[uint64]*boundedCall{}
	boundedSeq   uint64
	boundedOnce  sync.Once
)

// SetFinish registers the rule / floor a runaway abort writes the evidence with.
func (r *Run) SetFinish(rule string, floor int) {
	r.mu.Lock()
	r.abortRule, r.abortFloor = rule, floor
	r.mu.Unlock()
}

func rssBytes() uint64 {
	b, err := os.ReadFile("/proc/self/statm")
	if err != nil {
		return 0
	}
	var size, res uint64
	fmt.Sscanf(string(b), "%d %d", &size, &res)
	return res * uint64(os.Getpagesize())
}

func (r *Run) boundedWatch() {
	for {
		time.Sleep(time.Second)
		rss := rssBytes()
		boundedMu.Lock()
		var culprit *boundedCall
		why := ""
		for _, c := range boundedCalls {
			if time.Since(c.start) > c.limit {
				culprit, why = c, fmt.Sprintf("still running after %s", c.limit)
				break
			}
		}
		if culprit == nil {
			for _, c := range boundedCalls {
				if rss > c.rss && (culprit == nil || c.start.Before(culprit.start)) {
					culprit = c
				}
			}
			if culprit != nil {
				why = fmt.Sprintf("process memory reached %d GB while it was the longest-running guarded call", rss>>30)
			}
		}
		boundedMu.Unlock()
		if culprit == nil {
			continue
		}
		var w any
		if culprit.witness != nil {
			w = culprit.witness()
		}
		r.Violation("runaway:"+culprit.class, culprit.idx, "a call into the code under test does not terminate: "+why, w)
		r.mu.Lock()
		rule, floor := r.abortRule, r.abortFloor
		r.mu.Unlock()
		if rule == "" {
			rule = "(run aborted before its rule text was recorded)"
		}
		r.Note("run aborted by the runaway guard: the remaining cases were not executed")
		r.Finish(rule+" [aborted by the runaway guard]", floor)
		os.Exit(0)
	}
}

func (r *Run) Bounded(idx int, class string, limit time.Duration, witness func() any, fn func()) {
	r.bounded(idx, class, limit, runawayRSS, witness, fn)
}

// Every case run by Cases is guarded as a whole with very generous limits (a quick-tier case takes
// seconds to a few minutes): a case that is still running after caseLimit, or during which the
// process grows past caseRSS, ends the run with a runaway violation for that case instead of an
// out-of-memory kill or an outer timeout without verdict.
const caseRSS = 32 << 30

func (r *Run) caseLimit() time.Duration {
	if r.Quick() {
		return 30 * time.Minute
	}
	return 4 * time.Hour
}

func (r *Run) bounded(idx int, class string, limit time.Duration, rss uint64, witness func() any, fn func()) {
	boundedOnce.Do(func() { go r.boundedWatch() })
	boundedMu.Lock()
	boundedSeq++
	id := boundedSeq
	boundedCalls[id] = &boundedCall{start: time.Now(), limit: limit, rss: rss, idx: idx, class: class, witness: witness}
	boundedMu.Unlock()
	defer func() {
		boundedMu.Lock()
		delete(boundedCalls, id)
		boundedMu.Unlock()
	}()
	fn()
}

package lib

import (
	"math/big"
	"math/rand/v2"
	"sort"

	"github.com/NethermindEth/juno/core/crypto"
	"github.com/NethermindEth/juno/core/felt"
)

// KV is one leaf of an abstract trie: key as integer < 2^height, non-zero value.
type KV struct {
	K *big.Int
	V *felt.Felt
}

// SortedKVs turns a key->value map (decimal-string keys) into the sorted leaf list,
// dropping zero values (a zero value means "absent" in Starknet tries).
func SortedKVs(m map[string]KV) []KV {
	out := make([]KV, 0, len(m))
	for _, x := range m {
		if x.V == nil || x.V.IsZero() {
			continue
		}
		out = append(out, x)
	}
	sort.Slice(out, func(i, j int) bool { return out[i].K.Cmp(out[j].K) < 0 })
	return out
}

// RefRoot is the independent, recursive definition of the Starknet
// Merkle-Patricia commitment of a leaf set: empty -> 0; a subtree reached after
// `depth` bits whose leaves share `lcp` further bits is an edge
// H(child, path)+lcp over child, where child is the leaf value (bottom) or
// H(left, right). It shares nothing with core/trie or core/trie2 but the hash
// primitive.
func RefRoot(items []KV, height int, h crypto.HashFn) felt.Felt {
	return refRoot(items, height, 0, h)
}

func refRoot(items []KV, height, depth int, h crypto.HashFn) felt.Felt {
	if len(items) == 0 {
		return felt.Zero
	}
	lcp := height - depth
	if len(items) > 1 {
		x := new(big.Int).Xor(items[0].K, items[len(items)-1].K)
		lcp = (height - depth) - x.BitLen()
	}
	var child felt.Felt
	if depth+lcp == height {
		child = *items[0].V
	} else {
		bit := height - depth - lcp - 1
		idx := sort.Search(len(items), func(i int) bool { return items[i].K.Bit(bit) == 1 })
		l := refRoot(items[:idx], height, depth+lcp+1, h)
		r := refRoot(items[idx:], height, depth+lcp+1, h)
		child = h(&l, &r)
	}
	if lcp == 0 {
		return child
	}
	path := new(big.Int).Rsh(items[0].K, uint(height-depth-lcp))
	mask := new(big.Int).Sub(new(big.Int).Lsh(big.NewInt(1), uint(lcp)), big.NewInt(1))
	path.And(path, mask)
	pf := new(felt.Felt).SetBigInt(path)
	e := h(&child, pf)
	e.Add(&e, new(felt.Felt).SetUint64(uint64(lcp)))
	return e
}

// GenKeys draws n distinct keys below 2^height shaped to force every trie
// restructuring: a few random bases, each surrounded by keys differing in the
// last bit, in a handful of low / high / random bits, plus the extremes 0 and
// 2^height-1 now and then.
func GenKeys(rng *rand.Rand, height, n int) []*big.Int {
	seen := map[string]bool{}
	var out []*big.Int
	add := func(k *big.Int) {
		if k.BitLen() > height {
			return
		}
		s := k.String()
		if !seen[s] {
			seen[s] = true
			out = append(out, k)
		}
	}
	max := new(big.Int).Sub(new(big.Int).Lsh(big.NewInt(1), uint(height)), big.NewInt(1))
	randKey := func() *big.Int {
		k := new(big.Int)
		for i := 0; i < height; i += 32 {
			k.Lsh(k, 32).Or(k, new(big.Int).SetUint64(uint64(rng.Uint32())))
		}
		return k.And(k, max)
	}
	nb := 1 + rng.IntN(3)
	bases := make([]*big.Int, nb)
	for i := range bases {
		switch rng.IntN(8) {
		case 0:
			bases[i] = new(big.Int)
		case 1:
			bases[i] = new(big.Int).Set(max)
		case 2:
			bases[i] = new(big.Int).SetUint64(uint64(rng.IntN(16)))
		default:
			bases[i] = randKey()
		}
	}
	for tries := 0; len(out) < n && tries < 50*n+100; tries++ {
		b := bases[rng.IntN(nb)]
		k := new(big.Int).Set(b)
		switch rng.IntN(6) {
		case 0: // the base itself
		case 1: // sibling in the last bit
			k.SetBit(k, 0, k.Bit(0)^1)
		case 2: // low bits
			for j := 0; j < 1+rng.IntN(3); j++ {
				bit := rng.IntN(min(height, 6))
				k.SetBit(k, bit, k.Bit(bit)^1)
			}
		case 3: // one random bit (any divergence depth)
			bit := rng.IntN(height)
			k.SetBit(k, bit, k.Bit(bit)^1)
		case 4: // high bits
			for j := 0; j < 1+rng.IntN(2); j++ {
				bit := height - 1 - rng.IntN(min(height, 4))
				k.SetBit(k, bit, k.Bit(bit)^1)
			}
		case 5:
			if rng.IntN(4) == 0 {
				k = randKey()
			} else {
				for j := 0; j < 2+rng.IntN(4); j++ {
					bit := rng.IntN(height)
					k.SetBit(k, bit, k.Bit(bit)^1)
				}
			}
		}
		add(k)
	}
	return out
}

func FeltOfBig(k *big.Int) *felt.Felt { return new(felt.Felt).SetBigInt(k) }

func F(x uint64) *felt.Felt { return felt.NewFromUint64[felt.Felt](x) }

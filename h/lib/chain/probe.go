package chain

import (
	"crypto/sha256"
	"encoding/hex"
	"errors"
	"fmt"
	"sort"
	"strings"

	"github.com/NethermindEth/juno/blockchain"
	"github.com/NethermindEth/juno/core"
	"github.com/NethermindEth/juno/core/felt"
	"github.com/NethermindEth/juno/db"
	"github.com/NethermindEth/juno/encoder"
	"github.com/NethermindEth/juno/l1/eth"
)

// ProbeSet is the set of questions an observational probe asks a node: everything
// ever generated on ANY fork, so that stale entries of abandoned forks show up as
// "found on A, not found on B".
type ProbeSet struct {
	MinNumber uint64 // by-number questions cover [MinNumber, MaxNumber]
	MaxNumber uint64
	Hashes    map[felt.Felt]struct{} // block hashes
	TxHashes  map[felt.Felt]struct{}
	MsgHashes map[string]struct{} // L1 handler message hashes (raw bytes as string)
	Classes   map[felt.Felt]struct{}
	Contracts map[felt.Felt]struct{}
	Slots     map[felt.Felt]struct{}
	MaxTxIdx  uint64
	// StateBlocks limits historical state views to numbers >= StateFrom (pruned nodes)
	SkipState  bool
	SkipEvents bool
}

func NewProbeSet() *ProbeSet {
	return &ProbeSet{Hashes: map[felt.Felt]struct{}{}, TxHashes: map[felt.Felt]struct{}{}, MsgHashes: map[string]struct{}{},
		Classes: map[felt.Felt]struct{}{}, Contracts: map[felt.Felt]struct{}{}, Slots: map[felt.Felt]struct{}{}}
}

// AddBlock registers everything block b mentions.
func (ps *ProbeSet) AddBlock(b *Blk) {
	if b.Block.Number+1 > ps.MaxNumber {
		ps.MaxNumber = b.Block.Number + 1
	}
	ps.Hashes[*b.Block.Hash] = struct{}{}
	if uint64(len(b.Block.Transactions)) > ps.MaxTxIdx {
		ps.MaxTxIdx = uint64(len(b.Block.Transactions))
	}
	for _, tx := range b.Block.Transactions {
		ps.TxHashes[*tx.Hash()] = struct{}{}
		if l1, ok := tx.(*core.L1HandlerTransaction); ok {
			ps.MsgHashes[string(l1.MessageHash())] = struct{}{}
		}
	}
	for h := range b.Classes {
		ps.Classes[h] = struct{}{}
	}
	d := b.SU.StateDiff
	for a := range d.DeployedContracts {
		ps.Contracts[a] = struct{}{}
	}
	for a := range d.Nonces {
		ps.Contracts[a] = struct{}{}
	}
	for a := range d.ReplacedClasses {
		ps.Contracts[a] = struct{}{}
	}
	for a, m := range d.StorageDiffs {
		ps.Contracts[a] = struct{}{}
		for k := range m {
			ps.Slots[k] = struct{}{}
			// last-bit neighbour
			nb := new(felt.Felt).Add(&k, F(1))
			if k.Bytes()[31]&1 == 1 {
				nb = new(felt.Felt).Sub(&k, F(1))
			}
			ps.Slots[*nb] = struct{}{}
		}
	}
}

// Obs is a normalised observation: question -> answer.
type Obs map[string]string

func digest(v any) string {
	b, err := encoder.Marshal(v)
	if err != nil {
		return "ENCODE-ERR:" + err.Error()
	}
	s := sha256.Sum256(b)
	return hex.EncodeToString(s[:8]) + fmt.Sprintf("/%d", len(b))
}

func errClass(err error) string {
	if errors.Is(err, db.ErrKeyNotFound) {
		return "ERR:notfound"
	}
	msg := err.Error()
	switch {
	case strings.Contains(msg, "not found"):
		return "ERR:notfound"
	case strings.Contains(msg, "pruned"):
		return "ERR:pruned"
	}
	return "ERR:other"
}

func ans(v any, err error) string {
	if err != nil {
		return errClass(err)
	}
	return digest(v)
}

// Probe asks the node every question of the probe set through its public reader API.
func Probe(bc *blockchain.Blockchain, ps *ProbeSet) Obs {
	o := Obs{}
	h, err := bc.Height()
	if err != nil {
		o["height"] = errClass(err)
	} else {
		o["height"] = fmt.Sprint(h)
	}
	hh, err := bc.HeadsHeader()
	o["heads_header"] = ans(hh, err)
	hb, err := bc.Head()
	o["head"] = ans(hb, err)
	l1, err := bc.L1Head()
	o["l1head"] = ans(l1, err)

	for n := ps.MinNumber; n <= ps.MaxNumber; n++ {
		p := fmt.Sprintf("n%d/", n)
		b, err := bc.BlockByNumber(n)
		o[p+"block"] = ans(b, err)
		hd, err := bc.BlockHeaderByNumber(n)
		o[p+"header"] = ans(hd, err)
		su, err := bc.StateUpdateByNumber(n)
		o[p+"state_update"] = ans(su, err)
		cm, err := bc.BlockCommitmentsByNumber(n)
		o[p+"commitments"] = ans(cm, err)
		txs, err := bc.TransactionsByBlockNumber(n)
		if err == nil && len(txs) == 0 {
			o[p+"txs"] = "empty"
		} else {
			o[p+"txs"] = ans(txs, err)
		}
		ths, err := bc.TransactionHashesByBlockNumber(n)
		if err == nil && len(ths) == 0 {
			o[p+"tx_hashes"] = "empty"
		} else {
			o[p+"tx_hashes"] = ans(ths, err)
		}
		cnt, err := bc.BlockTransactionCountByNumber(n)
		o[p+"tx_count"] = ans(cnt, err)
		gr, err := bc.GlobalStateRootByBlockNumber(n)
		o[p+"state_root"] = ans(gr, err)
		bh, err := bc.BlockHeaderHashByNumber(n)
		o[p+"hash"] = ans(bh, err)
		for i := uint64(0); i <= ps.MaxTxIdx; i++ {
			tx, err := bc.TransactionByBlockNumberAndIndex(n, i)
			o[fmt.Sprintf("%stx%d", p, i)] = ans(tx, err)
			tx2, rc, bhh, err := bc.TransactionAndReceiptByBlockNumberAndIndex(n, i)
			if err != nil {
				o[fmt.Sprintf("%stxrc%d", p, i)] = errClass(err)
			} else {
				o[fmt.Sprintf("%stxrc%d", p, i)] = digest(tx2) + digest(rc) + bhh.String()
			}
			st, err := bc.TransactionExecutionStatusByBlockNumberAndIndex(n, i)
			o[fmt.Sprintf("%sstatus%d", p, i)] = ans(st, err)
		}
	}
	for hash := range ps.Hashes {
		hash := hash
		p := "h" + hash.String() + "/"
		b, err := bc.BlockByHash(&hash)
		o[p+"block"] = ans(b, err)
		hd, err := bc.BlockHeaderByHash(&hash)
		o[p+"header"] = ans(hd, err)
		nn, err := bc.BlockNumberByHash(&hash)
		o[p+"number"] = ans(nn, err)
		su, err := bc.StateUpdateByHash(&hash)
		o[p+"state_update"] = ans(su, err)
	}
	for th := range ps.TxHashes {
		th := th
		p := "t" + th.String() + "/"
		tx, err := bc.TransactionByHash(&th)
		o[p+"tx"] = ans(tx, err)
		rc, bh, bn, err := bc.Receipt(&th)
		if err != nil {
			o[p+"receipt"] = errClass(err)
		} else {
			o[p+"receipt"] = digest(rc) + bh.String() + fmt.Sprint(bn)
		}
		bn2, ix, err := bc.BlockNumberAndIndexByTxHash((*felt.TransactionHash)(&th))
		if err != nil {
			o[p+"locator"] = errClass(err)
		} else {
			o[p+"locator"] = fmt.Sprintf("%d/%d", bn2, ix)
		}
	}
	for mh := range ps.MsgHashes {
		var eh eth.Hash
		copy(eh[:], mh)
		th, err := bc.L1HandlerTxnHash(&eh)
		o["msg/0x"+hex.EncodeToString([]byte(mh))] = ans(th, err)
	}
	if !ps.SkipState {
		if sr, closer, err := bc.HeadState(); err != nil {
			o["state/head"] = errClass(err)
		} else {
			probeState(o, "state/head/", sr, ps, true)
			closer()
		}
		for n := ps.MinNumber; n <= ps.MaxNumber; n++ {
			if sr, closer, err := bc.StateAtBlockNumber(n); err != nil {
				o[fmt.Sprintf("state/n%d", n)] = errClass(err)
			} else {
				probeState(o, fmt.Sprintf("state/n%d/", n), sr, ps, false)
				closer()
			}
		}
		for hash := range ps.Hashes {
			hash := hash
			if sr, closer, err := bc.StateAtBlockHash(&hash); err != nil {
				o["state/h"+hash.String()] = errClass(err)
			} else {
				probeState(o, "state/h"+hash.String()+"/", sr, ps, false)
				closer()
			}
		}
	}
	if !ps.SkipEvents {
		o["events/all"] = EventsDigest(bc, nil, nil)
		for a := range ps.Contracts {
			o["events/from/"+a.String()] = EventsDigest(bc, []felt.Address{felt.Address(a)}, nil)
		}
	}
	return o
}

func feltAns(v felt.Felt, err error) string {
	if err != nil {
		return errClass(err)
	}
	return v.String()
}

func probeState(o Obs, p string, sr core.StateReader, ps *ProbeSet, tries bool) {
	for a := range ps.Contracts {
		a := a
		q := p + a.String() + "/"
		o[q+"class"] = feltAns(sr.ContractClassHash(&a))
		o[q+"nonce"] = feltAns(sr.ContractNonce(&a))
		for k := range ps.Slots {
			k := k
			v, err := sr.ContractStorage(&a, &k)
			// zero and not-found are observationally the same answer for a storage slot
			if err != nil || v.IsZero() {
				continue
			}
			o[q+"s"+k.String()] = v.String()
		}
	}
	for c := range ps.Classes {
		c := c
		dc, err := sr.Class(&c)
		if err != nil {
			o[p+"class/"+c.String()] = errClass(err)
		} else {
			o[p+"class/"+c.String()] = fmt.Sprintf("at%d/%s", dc.At, digest(dc.Class))
		}
		sh := felt.SierraClassHash(c)
		cv, err := sr.CompiledClassHash(&sh)
		o[p+"casm/"+c.String()] = feltAns(felt.Felt(cv), err)
		cv2, err := sr.CompiledClassHashV2(&sh)
		o[p+"casm2/"+c.String()] = feltAns(felt.Felt(cv2), err)
	}
	if tries {
		if t, err := sr.ContractTrie(); err == nil {
			o[p+"contract_trie_root"] = feltAns(t.Hash())
		} else {
			o[p+"contract_trie_root"] = errClass(err)
		}
		if t, err := sr.ClassTrie(); err == nil {
			o[p+"class_trie_root"] = feltAns(t.Hash())
		} else {
			o[p+"class_trie_root"] = errClass(err)
		}
	}
}

// EventsDigest runs an event query over the whole chain, following continuation
// tokens, and returns a digest of the (ordered) result list.
func EventsDigest(bc *blockchain.Blockchain, addrs []felt.Address, keys [][]felt.Felt) string {
	f, err := bc.EventFilter(addrs, keys, nil)
	if err != nil {
		return errClass(err)
	}
	defer f.Close()
	var all []string
	var tok *blockchain.ContinuationToken
	for page := 0; page < 100000; page++ {
		evs, next, err := f.Events(tok, 50)
		if err != nil {
			return "ERR:" + err.Error()
		}
		for _, e := range evs {
			all = append(all, fmt.Sprintf("%d/%s/%s/%d/%d/%s", e.BlockNumber, e.BlockHash.String(), e.TransactionHash.String(), e.TransactionIndex, e.EventIndex, digest(e.Event)))
		}
		if next.IsEmpty() {
			break
		}
		nt := next
		tok = &nt
	}
	s := sha256.Sum256([]byte(strings.Join(all, "\n")))
	return fmt.Sprintf("%d events/%s", len(all), hex.EncodeToString(s[:8]))
}

// Diff lists the questions two observations answer differently (sorted, capped).
func Diff(a, b Obs, max int) []string {
	keys := map[string]struct{}{}
	for k := range a {
		keys[k] = struct{}{}
	}
	for k := range b {
		keys[k] = struct{}{}
	}
	var out []string
	for k := range keys {
		if a[k] != b[k] {
			out = append(out, fmt.Sprintf("%s: %q vs %q", k, a[k], b[k]))
		}
	}
	sort.Strings(out)
	if max > 0 && len(out) > max {
		out = append(out[:max], fmt.Sprintf("... %d more", len(out)-max))
	}
	return out
}

// NaiveEventsDigest is what EventsDigest(bc, nil, nil) must return for a node whose
// canonical chain is exactly `blocks`: a plain scan of all receipts in chain order.
func NaiveEventsDigest(blocks []*Blk) string {
	var all []string
	for _, b := range blocks {
		for ti, rc := range b.Block.Receipts {
			for ei, ev := range rc.Events {
				all = append(all, fmt.Sprintf("%d/%s/%s/%d/%d/%s", b.Block.Number, b.Block.Hash.String(), rc.TransactionHash.String(), ti, ei, digest(ev)))
			}
		}
	}
	s := sha256.Sum256([]byte(strings.Join(all, "\n")))
	return fmt.Sprintf("%d events/%s", len(all), hex.EncodeToString(s[:8]))
}

// NaiveEventsDigestFrom is NaiveEventsDigest restricted to events emitted by `from`.
func NaiveEventsDigestFrom(blocks []*Blk, from *felt.Felt) string {
	var all []string
	for _, b := range blocks {
		for ti, rc := range b.Block.Receipts {
			for ei, ev := range rc.Events {
				if !ev.From.Equal(from) {
					continue
				}
				all = append(all, fmt.Sprintf("%d/%s/%s/%d/%d/%s", b.Block.Number, b.Block.Hash.String(), rc.TransactionHash.String(), ti, ei, digest(ev)))
			}
		}
	}
	s := sha256.Sum256([]byte(strings.Join(all, "\n")))
	return fmt.Sprintf("%d events/%s", len(all), hex.EncodeToString(s[:8]))
}

package chain

import (
	"fmt"
	"math/big"
	"reflect"

	"github.com/NethermindEth/juno/blockchain"
	"github.com/NethermindEth/juno/blockchain/networks"
	"github.com/NethermindEth/juno/core"
	"github.com/NethermindEth/juno/core/felt"
	"github.com/NethermindEth/juno/db"
	"github.com/NethermindEth/juno/db/memory"
	_ "github.com/NethermindEth/juno/encoder/registry"
	"github.com/bits-and-blooms/bloom/v3"
)

// Node is a Blockchain over a store, with the options it was built with (so that a
// "restart" can recreate it over the same store).
type Node struct {
	BC       *blockchain.Blockchain
	DB       db.KeyValueStore
	NewState bool
	Opts     []blockchain.Option
	Net      *networks.Network // nil: Sepolia
}

func (n *Node) net() *networks.Network {
	if n.Net != nil {
		return n.Net
	}
	return &networks.Sepolia
}

// NewNodeOn is NewNode on a given network configuration (chain id, block-hash format metadata).
func NewNodeOn(net *networks.Network, store db.KeyValueStore, newState bool, extra ...blockchain.Option) *Node {
	opts := append([]blockchain.Option{blockchain.WithNewState(newState)}, extra...)
	return &Node{BC: blockchain.New(store, net, opts...), DB: store, NewState: newState, Opts: opts, Net: net}
}

func NewBuilderOn(net *networks.Network, newState bool) *Builder {
	return &Builder{NewNodeOn(net, memory.New(), newState)}
}

func NewNode(store db.KeyValueStore, newState bool, extra ...blockchain.Option) *Node {
	opts := append([]blockchain.Option{blockchain.WithNewState(newState)}, extra...)
	return &Node{BC: blockchain.New(store, &networks.Sepolia, opts...), DB: store, NewState: newState, Opts: opts}
}

func NewMemNode(newState bool, extra ...blockchain.Option) *Node {
	return NewNode(memory.New(), newState, extra...)
}

// Restart drops every in-memory object and reopens the node over the same store.
// graceful=true persists the running event filter first (what a clean shutdown does).
func (n *Node) Restart(graceful bool) error {
	if graceful {
		if err := n.BC.WriteRunningEventFilter(); err != nil {
			return err
		}
	}
	n.BC = blockchain.New(n.DB, n.net(), n.Opts...)
	return nil
}

// StoreBlk verifies and stores a block exactly as the synchroniser does:
// SanityCheckNewHeight, then Store with the commitments it returned.
func (n *Node) StoreBlk(b *Blk) error {
	cm, err := n.BC.SanityCheckNewHeight(b.Block, b.SU, b.Classes)
	if err != nil {
		return fmt.Errorf("sanity check: %w", err)
	}
	return n.BC.Store(b.Block, cm, b.SU, b.Classes)
}

// Builder materialises drafts: a node whose Finalise computes state root,
// commitments and block hash.
type Builder struct {
	*Node
}

func NewBuilder(newState bool) *Builder { return &Builder{NewMemNode(newState)} }

// Materialise finalises the draft on the builder's head and returns the block as
// any other node would receive it from the network.
func (b *Builder) Materialise(d *Draft) (*Blk, error) {
	if err := b.BC.Finalise(d.Block, d.SU, d.Classes, nil); err != nil {
		return nil, err
	}
	cm, err := b.BC.BlockCommitmentsByNumber(d.Block.Number)
	if err != nil {
		return nil, err
	}
	return &Blk{Block: d.Block, SU: d.SU, Classes: d.Classes, Commitments: cm}, nil
}

// Chain is a linear history: Blocks[i] has number i; States[i] is the abstract
// state after block i.
type Chain struct {
	Blocks []*Blk
	States []*State
}

func (c *Chain) Len() int { return len(c.Blocks) }

func (c *Chain) Tip() *Blk {
	if len(c.Blocks) == 0 {
		return nil
	}
	return c.Blocks[len(c.Blocks)-1]
}

func (c *Chain) TipState() *State {
	if len(c.States) == 0 {
		return NewState()
	}
	return c.States[len(c.States)-1]
}

// Prefix returns the chain cut after `n` blocks (shares the block objects).
func (c *Chain) Prefix(n int) *Chain {
	return &Chain{Blocks: append([]*Blk{}, c.Blocks[:n]...), States: append([]*State{}, c.States[:n]...)}
}

// Extend generates and materialises k more blocks on the chain's tip. The builder
// must currently be at the chain's tip.
func (g *Gen) Extend(c *Chain, b *Builder, k int) error {
	for i := 0; i < k; i++ {
		st := c.TipState()
		d := g.Next(c.Tip(), st)
		blk, err := b.Materialise(d)
		if err != nil {
			return fmt.Errorf("materialise block %d: %w", d.Block.Number, err)
		}
		ns := st.Clone()
		ns.Apply(blk.Block.Number, blk.Block.ProtocolVersion, blk.SU.StateDiff, blk.Classes)
		c.Blocks = append(c.Blocks, blk)
		c.States = append(c.States, ns)
	}
	return nil
}

// BuilderAt returns a fresh builder that has stored (with full verification) the
// first n blocks of c - the way to grow a fork without relying on RevertHead.
func BuilderAt(c *Chain, n int, newState bool) (*Builder, error) {
	b := NewBuilder(newState)
	for i := 0; i < n; i++ {
		if err := b.StoreBlk(c.Blocks[i]); err != nil {
			return nil, fmt.Errorf("replay block %d: %w", i, err)
		}
	}
	return b, nil
}

// ---------------------------------------------------------------- deep copy

var (
	bigIntT = reflect.TypeOf((*big.Int)(nil))
	bloomT  = reflect.TypeOf((*bloom.BloomFilter)(nil))
)

// DeepCopy copies any value built from exported fields, pointers, slices, maps,
// interfaces; *big.Int and *bloom.BloomFilter are handled specially. nil-ness and
// emptiness of slices/maps are preserved.
func DeepCopy[T any](v T) T {
	out := deepCopy(reflect.ValueOf(&v).Elem())
	return out.Interface().(T)
}

func deepCopy(v reflect.Value) reflect.Value {
	switch v.Kind() {
	case reflect.Pointer:
		if v.IsNil() {
			return reflect.Zero(v.Type())
		}
		switch v.Type() {
		case bigIntT:
			return reflect.ValueOf(new(big.Int).Set(v.Interface().(*big.Int)))
		case bloomT:
			return reflect.ValueOf(v.Interface().(*bloom.BloomFilter).Copy())
		}
		n := reflect.New(v.Type().Elem())
		n.Elem().Set(deepCopy(v.Elem()))
		return n
	case reflect.Interface:
		if v.IsNil() {
			return reflect.Zero(v.Type())
		}
		n := reflect.New(v.Type()).Elem()
		n.Set(deepCopy(v.Elem()))
		return n
	case reflect.Slice:
		if v.IsNil() {
			return reflect.Zero(v.Type())
		}
		n := reflect.MakeSlice(v.Type(), v.Len(), v.Len())
		for i := 0; i < v.Len(); i++ {
			n.Index(i).Set(deepCopy(v.Index(i)))
		}
		return n
	case reflect.Array:
		n := reflect.New(v.Type()).Elem()
		for i := 0; i < v.Len(); i++ {
			n.Index(i).Set(deepCopy(v.Index(i)))
		}
		return n
	case reflect.Map:
		if v.IsNil() {
			return reflect.Zero(v.Type())
		}
		n := reflect.MakeMapWithSize(v.Type(), v.Len())
		it := v.MapRange()
		for it.Next() {
			n.SetMapIndex(deepCopy(it.Key()), deepCopy(it.Value()))
		}
		return n
	case reflect.Struct:
		n := reflect.New(v.Type()).Elem()
		n.Set(v) // copies unexported fields shallowly
		for i := 0; i < v.NumField(); i++ {
			if v.Type().Field(i).IsExported() {
				n.Field(i).Set(deepCopy(v.Field(i)))
			}
		}
		return n
	default:
		return v
	}
}

// CloneBlk deep-copies a block with its state update, classes and commitments.
func CloneBlk(b *Blk) *Blk {
	return &Blk{Block: DeepCopy(b.Block), SU: DeepCopy(b.SU), Classes: DeepCopy(b.Classes), Commitments: DeepCopy(b.Commitments)}
}

var (
	_ = felt.Zero
	_ core.Block
)

// Package chain: synthetic chain generation, an independent naive reference model of
// what a node must answer, a recording/perturbing db wrapper and an exhaustive
// observational probe. Shared by the chain-family monitors (C01-C09, C16).
package chain

import (
	"sort"

	"github.com/NethermindEth/juno/core"
	"github.com/NethermindEth/juno/core/felt"
)

// Contract is the abstract state of one contract.
type Contract struct {
	Class      felt.Felt
	Nonce      felt.Felt
	Storage    map[felt.Felt]felt.Felt // non-zero slots only
	DeployedAt uint64
	System     bool // 0x1 / 0x2: exists only through storage writes, no class
}

// ClassInfo is the abstract state of one declared class.
type ClassInfo struct {
	DeclaredAt uint64
	Sierra     bool
	CasmV1     *felt.Felt // compiled class hash as declared before 0.14.1 (Poseidon)
	CasmV2     *felt.Felt // blake2s hash: declared >= 0.14.1, or computed from the definition
	MigratedAt *uint64    // block at which the class trie leaf switched from V1 to V2
	Def        core.ClassDefinition
}

// State is the naive model of Starknet state: plain maps, copied per block.
type State struct {
	Contracts map[felt.Felt]*Contract
	Classes   map[felt.Felt]*ClassInfo
}

func NewState() *State {
	return &State{Contracts: map[felt.Felt]*Contract{}, Classes: map[felt.Felt]*ClassInfo{}}
}

func (s *State) Clone() *State {
	n := NewState()
	for a, c := range s.Contracts {
		cc := *c
		cc.Storage = make(map[felt.Felt]felt.Felt, len(c.Storage))
		for k, v := range c.Storage {
			cc.Storage[k] = v
		}
		n.Contracts[a] = &cc
	}
	for h, c := range s.Classes {
		cc := *c
		n.Classes[h] = &cc
	}
	return n
}

func IsSystem(addr *felt.Felt) bool {
	return addr.Equal(felt.NewFromUint64[felt.Felt](1)) || addr.Equal(felt.NewFromUint64[felt.Felt](2))
}

// Apply applies block n's state diff (the abstract meaning of a Starknet state diff).
func (s *State) Apply(n uint64, ver string, d *core.StateDiff, classes map[felt.Felt]core.ClassDefinition) {
	v2 := VersionAtLeast(ver, "0.14.1")
	for h, def := range classes {
		if _, ok := s.Classes[h]; ok {
			continue
		}
		ci := &ClassInfo{DeclaredAt: n, Def: def}
		if sc, ok := def.(*core.SierraClass); ok {
			ci.Sierra = true
			if casm, ok := d.DeclaredV1Classes[h]; ok {
				if v2 {
					c := *casm
					ci.CasmV2 = &c
				} else {
					c := *casm
					ci.CasmV1 = &c
					if sc.Compiled != nil {
						h2 := sc.Compiled.Hash(core.HashVersionV2)
						ci.CasmV2 = &h2
					}
				}
			}
		}
		s.Classes[h] = ci
	}
	for sh := range d.MigratedClasses {
		if ci, ok := s.Classes[felt.Felt(sh)]; ok {
			nn := n
			ci.MigratedAt = &nn
		}
	}
	for a, ch := range d.DeployedContracts {
		s.Contracts[a] = &Contract{Class: *ch, Storage: map[felt.Felt]felt.Felt{}, DeployedAt: n}
	}
	for a, ch := range d.ReplacedClasses {
		if c, ok := s.Contracts[a]; ok {
			c.Class = *ch
		}
	}
	for a, nv := range d.Nonces {
		if c, ok := s.Contracts[a]; ok {
			c.Nonce = *nv
		}
	}
	for a, slots := range d.StorageDiffs {
		c, ok := s.Contracts[a]
		if !ok {
			if !IsSystem(&a) {
				continue
			}
			c = &Contract{Storage: map[felt.Felt]felt.Felt{}, DeployedAt: n, System: true}
			s.Contracts[a] = c
		}
		for k, v := range slots {
			if v.IsZero() {
				delete(c.Storage, k)
			} else {
				c.Storage[k] = *v
			}
		}
	}
}

// ClassLeaf returns the class-trie leaf input (compiled class hash) of a Sierra class
// in this state: V2 after migration or when declared under >= 0.14.1, else V1.
func (ci *ClassInfo) ActiveCasm() *felt.Felt {
	if ci.CasmV1 == nil || ci.MigratedAt != nil {
		return ci.CasmV2
	}
	return ci.CasmV1
}

func VersionAtLeast(ver, min string) bool {
	a, err := core.ParseBlockVersion(ver)
	if err != nil {
		return false
	}
	b, _ := core.ParseBlockVersion(min)
	return a.GreaterThanEqual(b)
}

func SortedFelts(m map[felt.Felt]struct{}) []felt.Felt {
	out := make([]felt.Felt, 0, len(m))
	for k := range m {
		out = append(out, k)
	}
	sort.Slice(out, func(i, j int) bool { return out[i].Cmp(&out[j]) < 0 })
	return out
}

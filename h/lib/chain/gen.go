package chain

import (
	"bytes"
	"compress/gzip"
	"encoding/base64"
	"encoding/json"
	"fmt"
	"math/big"
	"math/rand/v2"
	"sort"

	"github.com/NethermindEth/juno/blockchain/networks"
	"github.com/NethermindEth/juno/core"
	"github.com/NethermindEth/juno/core/crypto"
	"github.com/NethermindEth/juno/core/felt"
	"github.com/NethermindEth/juno/l1/eth"
)

func F(x uint64) *felt.Felt { return felt.NewFromUint64[felt.Felt](x) }

func TV(v uint64) *core.TransactionVersion { return new(core.TransactionVersion).SetUint64(v) }

// Blk is one materialised block with everything a node needs to verify and store it.
type Blk struct {
	Block       *core.Block
	SU          *core.StateUpdate
	Classes     map[felt.Felt]core.ClassDefinition
	Commitments *core.BlockCommitments
}

func (b *Blk) Number() uint64 { return b.Block.Number }

// Opts steers the generator.
type Opts struct {
	Net         *networks.Network // network configuration (nil: Sepolia)
	Versions    []string // protocol versions a chain may use, ascending; nil = all verified formats
	MaxTxs      int      // max transactions per block (default 4)
	NoNoopZero  bool     // never write zero to a slot that is already zero
	NoNoopWrite bool     // never write a slot's current value (implies NoNoopZero)
	NoSystem    bool     // never touch system contracts 0x1/0x2
	SystemOneIn int      // a block writes to a system contract with probability 1/SystemOneIn (0: 8)
	NoClasses   bool     // never declare classes
	NoMigration bool
	EmptyProb   float64 // probability of an empty block
	EventRich   bool    // more events per transaction
	Contracts   []uint64
	Slots       []uint64
	// DeclaredOnly: contracts are deployed with / replaced by declared classes only (a node
	// that fetches class definitions by hash, as the feeder-gateway data source does, cannot
	// be served a definition for a hash nothing declares)
	DeclaredOnly bool
}

var AllVersions = []string{"0.13.2", "0.13.4", "0.14.0", "0.14.1"}

var defaultContracts = []uint64{0x100, 0x101, 0x200, 0x201, 0x7fff0, 0x7fff1}
var defaultSlots = []uint64{2, 3, 8, 9, 1000, 1001, 0xffff}

// Gen generates valid blocks on top of an abstract state.
type Gen struct {
	Rng   *rand.Rand
	Net   *networks.Network
	Opt   Opts
	seq   uint64 // makes every transaction unique across forks
	verIx int
	// every class this generator ever declared, in order: a later block on another fork may
	// declare one of them again (a reorg usually re-includes the orphaned transactions)
	madeV0 []madeClass
	madeV1 []madeClass
}

type madeClass struct {
	h felt.Felt
	c core.ClassDefinition
}

// redeclarable picks, if there is one, a class declared earlier (on whatever fork) that the
// state this block builds on does not hold.
func (g *Gen) redeclarable(pool []madeClass, st *State) *madeClass {
	var cands []int
	for i := range pool {
		if _, ok := st.Classes[pool[i].h]; !ok {
			cands = append(cands, i)
		}
	}
	if len(cands) == 0 {
		return nil
	}
	return &pool[cands[g.Rng.IntN(len(cands))]]
}

func NewGen(rng *rand.Rand, opt Opts) *Gen {
	if opt.Versions == nil {
		opt.Versions = AllVersions
	}
	if opt.MaxTxs == 0 {
		opt.MaxTxs = 4
	}
	if opt.Contracts == nil {
		opt.Contracts = defaultContracts
	}
	if opt.Slots == nil {
		opt.Slots = defaultSlots
	}
	g := &Gen{Rng: rng, Net: &networks.Sepolia, Opt: opt, seq: uint64(rng.Uint32()) << 20}
	if opt.Net != nil {
		g.Net = opt.Net
	}
	g.verIx = rng.IntN(len(opt.Versions))
	return g
}

func (g *Gen) next() uint64 { g.seq++; return g.seq }

func (g *Gen) felts(n int) []felt.Felt {
	out := make([]felt.Felt, n)
	for i := range out {
		out[i] = *F(uint64(g.Rng.IntN(1 << 20)))
	}
	return out
}

func (g *Gen) bounds() map[core.Resource]core.ResourceBounds {
	return map[core.Resource]core.ResourceBounds{
		core.ResourceL1Gas:     {MaxAmount: uint64(g.Rng.IntN(1000)), MaxPricePerUnit: F(uint64(g.Rng.IntN(1 << 30)))},
		core.ResourceL2Gas:     {MaxAmount: uint64(g.Rng.IntN(1000)), MaxPricePerUnit: F(uint64(g.Rng.IntN(1 << 30)))},
		core.ResourceL1DataGas: {MaxAmount: uint64(g.Rng.IntN(1000)), MaxPricePerUnit: F(uint64(g.Rng.IntN(1 << 30)))},
	}
}

func (g *Gen) daMode() core.DataAvailabilityMode {
	if g.Rng.IntN(4) == 0 {
		return core.DAModeL2
	}
	return core.DAModeL1
}

// --- classes

func gz64(s string) string {
	var buf bytes.Buffer
	w := gzip.NewWriter(&buf)
	w.Write([]byte(s))
	w.Close()
	return base64.StdEncoding.EncodeToString(buf.Bytes())
}

func (g *Gen) cairo0Class() (felt.Felt, core.ClassDefinition) {
	id := g.next()
	c := &core.DeprecatedCairoClass{
		Abi:          json.RawMessage(fmt.Sprintf(`[{"name":"f%d","type":"function","inputs":[],"outputs":[]}]`, id)),
		Externals:    []core.DeprecatedEntryPoint{{Selector: F(id), Offset: F(1)}},
		L1Handlers:   []core.DeprecatedEntryPoint{},
		Constructors: []core.DeprecatedEntryPoint{},
		Program:      gz64(fmt.Sprintf(`{"prime":"0x800000000000011000000000000000000000000000000000000000000000001","data":["0x%x"],"builtins":[],"hints":{},"identifiers":{}}`, id)),
	}
	// the hash of a Cairo-0 class is not recomputed by any node (VM-dependent): any value is valid
	return *F(0xc0000000 + id), c
}

func (g *Gen) sierraClass() (felt.Felt, *core.SierraClass) {
	id := g.next()
	prog := []felt.Felt{*F(1), *F(3), *F(0), *F(id), *F(uint64(g.Rng.IntN(1 << 16)))}
	abi := fmt.Sprintf(`[{"type":"function","name":"g%d"}]`, id)
	prime, _ := new(big.Int).SetString("800000000000011000000000000000000000000000000000000000000000001", 16)
	c := &core.SierraClass{
		Abi:     abi,
		AbiHash: ptr(crypto.StarknetKeccak([]byte(abi))),
		EntryPoints: core.SierraEntryPointsByType{
			Constructor: []core.SierraEntryPoint{},
			External:    []core.SierraEntryPoint{{Index: 0, Selector: F(id)}},
			L1Handler:   []core.SierraEntryPoint{},
		},
		Program:         prog,
		ProgramHash:     ptr(crypto.PoseidonArray(prog)),
		SemanticVersion: "0.1.0",
		Compiled: &core.CasmClass{
			Bytecode:        []felt.Felt{*F(0x480680017fff8000), *F(id), *F(0x208b7fff7fff7ffe)},
			PythonicHints:   json.RawMessage(`[]`),
			CompilerVersion: "2.1.0",
			Hints:           json.RawMessage(`[]`),
			Prime:           prime,
			External:        []core.CasmEntryPoint{{Offset: 0, Builtins: []string{"range_check"}, Selector: F(id)}},
			L1Handler:       []core.CasmEntryPoint{},
			Constructor:     []core.CasmEntryPoint{},
		},
	}
	h, err := c.Hash()
	if err != nil {
		panic(err)
	}
	return h, c
}

func ptr[T any](v T) *T { return &v }

// --- block generation

// pickVersion moves the chain's protocol version monotonically upwards; the
// <0.14.0 -> >=0.14.0 step is only taken once the class trie is non-empty (on real
// networks it always was; with an empty class trie the two formulas disagree about
// the *same* state, so parent.NewRoot != child.OldRoot by construction).
func (g *Gen) pickVersion(st *State) string {
	vs := g.Opt.Versions
	if g.verIx < len(vs)-1 && g.Rng.IntN(6) == 0 {
		nxt := vs[g.verIx+1]
		crossing := !VersionAtLeast(vs[g.verIx], "0.14.0") && VersionAtLeast(nxt, "0.14.0")
		hasSierra := false
		for _, c := range st.Classes {
			if c.Sierra && c.ActiveCasm() != nil {
				hasSierra = true
			}
		}
		if !crossing || hasSierra {
			g.verIx++
		}
	}
	return vs[g.verIx]
}

// Draft is a generated but not yet materialised block.
type Draft struct {
	Block   *core.Block
	SU      *core.StateUpdate
	Classes map[felt.Felt]core.ClassDefinition
}

// Next generates block number n on top of `parent` (nil for genesis) and abstract
// state st (not modified). The returned draft lacks roots/hash until materialised.
func (g *Gen) Next(parent *Blk, st *State) *Draft {
	r := g.Rng
	n := uint64(0)
	parentHash := &felt.Zero
	oldRoot := &felt.Zero
	ts := uint64(1_700_000_000)
	if parent != nil {
		n = parent.Block.Number + 1
		parentHash = parent.Block.Hash
		oldRoot = parent.Block.GlobalStateRoot
		ts = parent.Block.Timestamp + 1 + uint64(r.IntN(30))
	}
	ver := g.pickVersion(st)
	sd := core.EmptyStateDiff()
	classes := map[felt.Felt]core.ClassDefinition{}
	var txs []core.Transaction
	var rcs []*core.TransactionReceipt
	work := st.Clone() // tracks this block's own effects so the diff stays valid

	addTx := func(tx core.Transaction) {
		h, err := core.TransactionHash(tx, g.Net)
		if err != nil {
			panic(err)
		}
		setHash(tx, &h)
		txs = append(txs, tx)
		rcs = append(rcs, g.receipt(tx, &h))
	}

	empty := r.Float64() < g.Opt.EmptyProb
	if !empty {
		// declarations: mostly one per declaring block, sometimes several (several class-trie
		// leaves written by one block), of either kind
		nDecl := 0
		if !g.Opt.NoClasses && r.IntN(4) == 0 {
			nDecl = 1
			if r.IntN(3) == 0 {
				nDecl += 1 + r.IntN(3)
			}
		}
		for d := 0; d < nDecl; d++ {
			if r.IntN(2) == 0 {
				var h felt.Felt
				var c core.ClassDefinition
				if m := g.redeclarable(g.madeV0, st); m != nil && r.IntN(2) == 0 {
					h, c = m.h, m.c
				} else {
					h, c = g.cairo0Class()
					g.madeV0 = append(g.madeV0, madeClass{h, c})
				}
				if _, dup := classes[h]; dup {
					continue
				}
				classes[h] = c
				sd.DeclaredV0Classes = append(sd.DeclaredV0Classes, &h)
				addTx(g.declareTx(&h, nil, uint64(r.IntN(2))))
			} else {
				var h felt.Felt
				var c *core.SierraClass
				if m := g.redeclarable(g.madeV1, st); m != nil && r.IntN(2) == 0 {
					h, c = m.h, m.c.(*core.SierraClass)
				} else {
					h, c = g.sierraClass()
					g.madeV1 = append(g.madeV1, madeClass{h, c})
				}
				if _, dup := classes[h]; dup {
					continue
				}
				classes[h] = c
				var casm felt.Felt
				if VersionAtLeast(ver, "0.14.1") {
					casm = c.Compiled.Hash(core.HashVersionV2)
				} else {
					casm = c.Compiled.Hash(core.HashVersionV1)
				}
				sd.DeclaredV1Classes[h] = &casm
				addTx(g.declareTx(&h, &casm, 2+uint64(r.IntN(2))))
			}
		}
		// CASM hash migration (>= 0.14.1): classes declared with a V1 hash get their V2 hash
		// (one per migrating block, sometimes several)
		if !g.Opt.NoMigration && VersionAtLeast(ver, "0.14.1") && r.IntN(3) == 0 {
			nMig := 1
			if r.IntN(3) == 0 {
				nMig += 1 + r.IntN(2)
			}
			for _, h := range sortedHashes(st.Classes) { // map order would make the chain depend on more than the seed
				ci := st.Classes[h]
				if ci.Sierra && ci.CasmV1 != nil && ci.MigratedAt == nil && ci.CasmV2 != nil {
					sd.MigratedClasses[felt.SierraClassHash(h)] = felt.CasmClassHash(*ci.CasmV2)
					if nMig--; nMig == 0 {
						break
					}
				}
			}
		}
		// contracts
		classPool := []felt.Felt{*F(0xc1), *F(0xc2), *F(0xc3)}
		if g.Opt.DeclaredOnly {
			classPool = nil
		}
		for _, h := range sortedHashes(st.Classes) {
			if len(classPool) < 8 {
				classPool = append(classPool, h)
			}
		}
		for _, h := range sortedHashes(classes) { // deploy a class declared in this very block
			classPool = append(classPool, h)
		}
		for _, a := range g.Opt.Contracts {
			addr := F(a)
			c, ok := work.Contracts[*addr]
			if !ok {
				if r.IntN(4) != 0 || len(classPool) == 0 {
					continue
				}
				cls := classPool[r.IntN(len(classPool))]
				sd.DeployedContracts[*addr] = &cls
				c = &Contract{Class: cls, Storage: map[felt.Felt]felt.Felt{}, DeployedAt: n}
				work.Contracts[*addr] = c
				switch r.IntN(3) {
				case 0:
					addTx(g.deployTx(addr, &cls))
				default:
					addTx(g.deployAccountTx(addr, &cls, 1+2*uint64(r.IntN(2))))
				}
			}
			_, justDeployed := sd.DeployedContracts[*addr]
			if r.IntN(3) == 0 {
				nn := new(felt.Felt).Add(&c.Nonce, F(1))
				c.Nonce = *nn
				sd.Nonces[*addr] = nn
				addTx(g.invokeTx(addr, []uint64{0, 1, 3, 3}[r.IntN(4)]))
			}
			if !justDeployed && r.IntN(6) == 0 && len(classPool) > 0 {
				cls := classPool[r.IntN(len(classPool))]
				c.Class = cls
				sd.ReplacedClasses[*addr] = &cls
			}
			g.storageWrites(sd, addr, c)
		}
		if !g.Opt.NoSystem && r.IntN(max(g.Opt.SystemOneIn, 1)+7*btoi(g.Opt.SystemOneIn == 0)) == 0 {
			addr := F(1 + uint64(r.IntN(2)))
			c, ok := work.Contracts[*addr]
			if !ok {
				c = &Contract{Storage: map[felt.Felt]felt.Felt{}, System: true}
				work.Contracts[*addr] = c
			}
			// system contracts store block-hash style mappings: always a non-zero value
			k := F(n / 2)
			v := F(0x5000 + g.next())
			sd.StorageDiffs[*addr] = map[felt.Felt]*felt.Felt{*k: v}
			c.Storage[*k] = *v
		}
		// extra traffic
		for i := r.IntN(g.Opt.MaxTxs + 1); i > 0 && len(txs) < g.Opt.MaxTxs+3; i-- {
			switch r.IntN(5) {
			case 0:
				addTx(g.l1HandlerTx())
			default:
				addTx(g.invokeTx(F(g.Opt.Contracts[r.IntN(len(g.Opt.Contracts))]), []uint64{0, 1, 3, 3}[r.IntN(4)]))
			}
		}
	}
	if txs == nil {
		txs = []core.Transaction{}
		rcs = []*core.TransactionReceipt{}
	}
	evCount := uint64(0)
	for _, rc := range rcs {
		evCount += uint64(len(rc.Events))
	}
	da := core.Calldata
	if r.IntN(2) == 0 {
		da = core.Blob
	}
	b := &core.Block{Header: &core.Header{
		ParentHash: parentHash, Number: n, SequencerAddress: F(0x5e9 + uint64(r.IntN(2))), Timestamp: ts,
		ProtocolVersion: ver, EventsBloom: core.EventsBloom(rcs),
		TransactionCount: uint64(len(txs)), EventCount: evCount,
		L1GasPriceETH: F(1 + uint64(r.IntN(1000))), L1GasPriceSTRK: F(1 + uint64(r.IntN(1000))), L1DAMode: da,
		L1DataGasPrice: &core.GasPrice{PriceInWei: F(1 + uint64(r.IntN(1000))), PriceInFri: F(1 + uint64(r.IntN(1000)))},
		L2GasPrice:     &core.GasPrice{PriceInWei: F(1 + uint64(r.IntN(1000))), PriceInFri: F(1 + uint64(r.IntN(1000)))},
	}, Transactions: txs, Receipts: rcs}
	su := &core.StateUpdate{OldRoot: oldRoot, StateDiff: &sd}
	return &Draft{Block: b, SU: su, Classes: classes}
}

func (g *Gen) storageWrites(sd core.StateDiff, addr *felt.Felt, c *Contract) {
	r := g.Rng
	for _, s := range g.Opt.Slots {
		if r.IntN(4) != 0 {
			continue
		}
		slot := F(s)
		cur, has := c.Storage[*slot]
		var v *felt.Felt
		switch r.IntN(5) {
		case 0: // zero write (delete, or no-op on an absent slot)
			v = F(0)
		case 1: // rewrite of the current value
			if has {
				vv := cur
				v = &vv
			} else {
				v = F(0)
			}
		default:
			v = F(1 + uint64(r.IntN(60)))
		}
		if v.IsZero() && !has && (g.Opt.NoNoopZero || g.Opt.NoNoopWrite) {
			continue
		}
		if has && v.Equal(&cur) && g.Opt.NoNoopWrite {
			continue
		}
		if sd.StorageDiffs[*addr] == nil {
			sd.StorageDiffs[*addr] = map[felt.Felt]*felt.Felt{}
		}
		sd.StorageDiffs[*addr][*slot] = v
		if v.IsZero() {
			delete(c.Storage, *slot)
		} else {
			c.Storage[*slot] = *v
		}
	}
}

func setHash(tx core.Transaction, h *felt.Felt) {
	switch t := tx.(type) {
	case *core.InvokeTransaction:
		t.TransactionHash = h
	case *core.DeclareTransaction:
		t.TransactionHash = h
	case *core.DeployAccountTransaction:
		t.TransactionHash = h
	case *core.L1HandlerTransaction:
		t.TransactionHash = h
	case *core.DeployTransaction:
		t.TransactionHash = h
	}
}

func (g *Gen) invokeTx(sender *felt.Felt, version uint64) core.Transaction {
	r := g.Rng
	cd := append([]felt.Felt{*F(g.next())}, g.felts(r.IntN(4))...)
	switch version {
	case 0:
		return &core.InvokeTransaction{CallData: cd, TransactionSignature: g.felts(r.IntN(3)), MaxFee: F(uint64(r.IntN(1 << 20))),
			ContractAddress: sender, Version: TV(0), EntryPointSelector: F(uint64(r.IntN(1 << 16)))}
	case 1:
		return &core.InvokeTransaction{CallData: cd, TransactionSignature: g.felts(r.IntN(3)), MaxFee: F(uint64(r.IntN(1 << 20))),
			Version: TV(1), Nonce: F(uint64(r.IntN(100))), SenderAddress: sender}
	default:
		tx := &core.InvokeTransaction{CallData: cd, TransactionSignature: g.felts(r.IntN(3)), Version: TV(3),
			Nonce: F(uint64(r.IntN(100))), SenderAddress: sender, ResourceBounds: g.bounds(), Tip: uint64(r.IntN(10)),
			PaymasterData: g.felts(r.IntN(2)), AccountDeploymentData: g.felts(r.IntN(2)),
			NonceDAMode: g.daMode(), FeeDAMode: g.daMode()}
		if r.IntN(4) == 0 {
			tx.ProofFacts = g.felts(1 + r.IntN(2))
		}
		return tx
	}
}

func (g *Gen) declareTx(classHash, casm *felt.Felt, version uint64) core.Transaction {
	r := g.Rng
	sender := F(g.Opt.Contracts[r.IntN(len(g.Opt.Contracts))])
	switch version {
	case 0:
		// declare v0 hashes are not recomputable; the hash is whatever the sequencer assigned
		return &core.DeclareTransaction{ClassHash: classHash, SenderAddress: sender, MaxFee: F(0), TransactionSignature: g.felts(r.IntN(2)),
			Nonce: F(0), Version: TV(0)}
	case 1:
		return &core.DeclareTransaction{ClassHash: classHash, SenderAddress: sender, MaxFee: F(uint64(r.IntN(1 << 20))), TransactionSignature: g.felts(r.IntN(2)),
			Nonce: F(g.next()), Version: TV(1)}
	case 2:
		return &core.DeclareTransaction{ClassHash: classHash, SenderAddress: sender, MaxFee: F(uint64(r.IntN(1 << 20))), TransactionSignature: g.felts(r.IntN(2)),
			Nonce: F(g.next()), Version: TV(2), CompiledClassHash: casm}
	default:
		return &core.DeclareTransaction{ClassHash: classHash, SenderAddress: sender, TransactionSignature: g.felts(r.IntN(2)),
			Nonce: F(g.next()), Version: TV(3), CompiledClassHash: casm, ResourceBounds: g.bounds(), Tip: uint64(r.IntN(10)),
			PaymasterData: g.felts(r.IntN(2)), AccountDeploymentData: g.felts(r.IntN(2)), NonceDAMode: g.daMode(), FeeDAMode: g.daMode()}
	}
}

func (g *Gen) deployTx(addr, classHash *felt.Felt) core.Transaction {
	return &core.DeployTransaction{TransactionHash: F(0xdd000000 + g.next()), ContractAddressSalt: F(g.next()), ContractAddress: addr,
		ClassHash: classHash, ConstructorCallData: g.felts(g.Rng.IntN(3)), Version: TV(0)}
}

func (g *Gen) deployAccountTx(addr, classHash *felt.Felt, version uint64) core.Transaction {
	r := g.Rng
	base := core.DeployTransaction{ContractAddressSalt: F(g.next()), ContractAddress: addr, ClassHash: classHash,
		ConstructorCallData: g.felts(r.IntN(3)), Version: TV(version)}
	if version == 1 {
		return &core.DeployAccountTransaction{DeployTransaction: base, MaxFee: F(uint64(r.IntN(1 << 20))), TransactionSignature: g.felts(r.IntN(3)), Nonce: F(0)}
	}
	return &core.DeployAccountTransaction{DeployTransaction: base, TransactionSignature: g.felts(r.IntN(3)), Nonce: F(0),
		ResourceBounds: g.bounds(), Tip: uint64(r.IntN(10)), PaymasterData: g.felts(r.IntN(2)), NonceDAMode: g.daMode(), FeeDAMode: g.daMode()}
}

func (g *Gen) l1HandlerTx() core.Transaction {
	r := g.Rng
	return &core.L1HandlerTransaction{ContractAddress: F(g.Opt.Contracts[r.IntN(len(g.Opt.Contracts))]), EntryPointSelector: F(uint64(r.IntN(1 << 16))),
		Nonce: F(g.next()), CallData: append([]felt.Felt{*F(0xe7000000 + uint64(r.IntN(16)))}, g.felts(r.IntN(3))...), Version: TV(0)}
}

var evKeyPool = []uint64{0x11, 0x12, 0x13, 0x99}

func (g *Gen) receipt(tx core.Transaction, h *felt.Felt) *core.TransactionReceipt {
	r := g.Rng
	rc := &core.TransactionReceipt{
		Fee: F(uint64(r.IntN(1 << 20))), FeeUnit: core.WEI, TransactionHash: h,
		Events: []*core.Event{}, L2ToL1Message: []*core.L2ToL1Message{},
		ExecutionResources: &core.ExecutionResources{
			Steps: uint64(r.IntN(5000)), MemoryHoles: uint64(r.IntN(10)),
			BuiltinInstanceCounter: core.BuiltinInstanceCounter{Pedersen: uint64(r.IntN(5)), RangeCheck: uint64(r.IntN(5))},
			DataAvailability:       &core.DataAvailability{L1Gas: uint64(r.IntN(100)), L1DataGas: uint64(r.IntN(100))},
			TotalGasConsumed:       &core.GasConsumed{L1Gas: uint64(r.IntN(100)), L1DataGas: uint64(r.IntN(100)), L2Gas: uint64(r.IntN(100))},
		},
	}
	if tx.TxVersion().Is(3) {
		rc.FeeUnit = core.STRK
	}
	maxEv := 3
	if g.Opt.EventRich {
		maxEv = 7
	}
	for i := r.IntN(maxEv + 1); i > 0; i-- {
		ev := &core.Event{From: F(g.Opt.Contracts[r.IntN(len(g.Opt.Contracts))]), Keys: []felt.Felt{}, Data: g.felts(r.IntN(3))}
		for k := r.IntN(4); k > 0; k-- {
			ev.Keys = append(ev.Keys, *F(evKeyPool[r.IntN(len(evKeyPool))]))
		}
		rc.Events = append(rc.Events, ev)
	}
	for i := r.IntN(5) / 3; i > 0; i-- {
		var to eth.Address
		to[19] = byte(1 + r.IntN(200))
		rc.L2ToL1Message = append(rc.L2ToL1Message, &core.L2ToL1Message{From: F(g.Opt.Contracts[r.IntN(len(g.Opt.Contracts))]), Payload: g.felts(r.IntN(3)), To: to})
	}
	if l1, ok := tx.(*core.L1HandlerTransaction); ok {
		var from eth.Address
		if len(l1.CallData) > 0 {
			b := l1.CallData[0].Bytes()
			copy(from[:], b[12:])
		}
		rc.L1ToL2Message = &core.L1ToL2Message{From: from, Nonce: l1.Nonce, Payload: l1.CallData[1:], Selector: l1.EntryPointSelector, To: l1.ContractAddress}
	}
	if r.IntN(6) == 0 {
		rc.Reverted = true
		rc.RevertReason = []string{"out of gas", "assert failed: échec ✓", ""}[r.IntN(3)]
		if rc.RevertReason == "" {
			rc.RevertReason = "x"
		}
	}
	return rc
}

// sortedHashes returns the keys of a felt-keyed map in ascending order: every choice the
// generator makes must be a function of the seed alone (replays re-generate the case).
func sortedHashes[V any](m map[felt.Felt]V) []felt.Felt {
	out := make([]felt.Felt, 0, len(m))
	for h := range m {
		out = append(out, h)
	}
	sort.Slice(out, func(i, j int) bool { return out[i].Cmp(&out[j]) < 0 })
	return out
}

func btoi(b bool) int {
	if b {
		return 1
	}
	return 0
}

package chain

import (
	"bytes"
	"encoding/binary"
	"errors"
	"runtime"
	"sort"
	"strconv"
	"sync"
	"sync/atomic"
	"time"

	"github.com/NethermindEth/juno/db"
	"github.com/NethermindEth/juno/db/memory"
)

// ErrInjected is the error every injected fault returns.
var ErrInjected = errors.New("verif: injected storage fault")

// Op is one write operation: 'P'ut, 'D'elete, 'R'ange delete [Key, Val).
type Op struct {
	Kind byte
	Key  []byte
	Val  []byte
}

// WriteSet is one atomic commit: a batch Write() or one direct write.
type WriteSet struct {
	Ops    []Op
	Direct bool
}

// RecDB wraps a KeyValueStore: records every committed write-set in order (under
// its commit lock, so the log is a linearisation of the commits), and injects
// faults: the k-th commit fails (nothing of it is applied), the k-th Put inside a
// batch fails, the k-th point read fails.
type RecDB struct {
	inner db.KeyValueStore

	mu      sync.Mutex
	log     []WriteSet
	commits int // commits attempted since Arm
	puts    int
	reads   int

	failCommit int // 1-based index since Arm; 0 = off
	failPut    int
	failRead   int
	Fired      bool // an injected fault fired since Arm

	// OnCommit, if set, is called under the commit lock after each successful commit.
	OnCommit func(index int, ws WriteSet)
	// FailCommitIf, if set, is asked under the commit lock before a write-set is applied;
	// answering true makes that commit fail with ErrInjected (nothing of it is applied).
	FailCommitIf func(ws WriteSet) bool

	// onRead, if set (SetOnRead), is called - outside every lock of RecDB, on the reader's own
	// goroutine - after each point read through the store or one of its snapshots: a place to
	// put a delay or a directed action between two reads of one operation.
	onRead atomic.Pointer[func(key []byte)]
}

// SetOnRead installs (nil: removes) the point-read hook.
func (d *RecDB) SetOnRead(f func(key []byte)) {
	if f == nil {
		d.onRead.Store(nil)
		return
	}
	d.onRead.Store(&f)
}

func (d *RecDB) didRead(key []byte) {
	if f := d.onRead.Load(); f != nil {
		(*f)(key)
	}
}

type recSnapshot struct {
	db.Snapshot
	d *RecDB
}

func (s recSnapshot) NewIterator(prefix []byte, withUpperBound bool) (db.Iterator, error) {
	return s.d.wrapIter(s.Snapshot.NewIterator(prefix, withUpperBound))
}

func (s recSnapshot) Get(key []byte, cb func([]byte) error) error {
	err := s.Snapshot.Get(key, cb)
	s.d.didRead(key)
	return err
}

func NewRecDB(inner db.KeyValueStore) *RecDB { return &RecDB{inner: inner} }

// Arm resets the fault counters: the failCommit-th commit / failPut-th batch put /
// failRead-th read from now on fails (0 disables each).
func (d *RecDB) Arm(failCommit, failPut, failRead int) {
	d.mu.Lock()
	d.commits, d.puts, d.reads = 0, 0, 0
	d.failCommit, d.failPut, d.failRead = failCommit, failPut, failRead
	d.Fired = false
	d.mu.Unlock()
}

// Counters returns commits, batch puts and reads seen since the last Arm.
func (d *RecDB) Counters() (commits, puts, reads int) {
	d.mu.Lock()
	defer d.mu.Unlock()
	return d.commits, d.puts, d.reads
}

func (d *RecDB) LogLen() int {
	d.mu.Lock()
	defer d.mu.Unlock()
	return len(d.log)
}

func (d *RecDB) Log() []WriteSet {
	d.mu.Lock()
	defer d.mu.Unlock()
	return append([]WriteSet{}, d.log...)
}

// Image replays the first k committed write-sets onto a fresh in-memory store:
// the durable state had the process died right after commit k.
func (d *RecDB) Image(k int) *memory.Database {
	d.mu.Lock()
	entries := d.log[:k]
	d.mu.Unlock()
	m := memory.New()
	for _, ws := range entries {
		ApplyWriteSet(m, ws)
	}
	return m
}

func ApplyWriteSet(m db.KeyValueStore, ws WriteSet) {
	for _, op := range ws.Ops {
		switch op.Kind {
		case 'P':
			m.Put(op.Key, op.Val)
		case 'D':
			m.Delete(op.Key)
		case 'R':
			m.DeleteRange(op.Key, op.Val)
		}
	}
}

func (d *RecDB) commit(ws WriteSet, apply func() error) error {
	d.mu.Lock()
	defer d.mu.Unlock()
	d.commits++
	if d.failCommit > 0 && d.commits == d.failCommit {
		d.Fired = true
		return ErrInjected
	}
	if d.FailCommitIf != nil && d.FailCommitIf(ws) {
		d.Fired = true
		return ErrInjected
	}
	if err := apply(); err != nil {
		return err
	}
	d.log = append(d.log, ws)
	if d.OnCommit != nil {
		d.OnCommit(len(d.log), ws)
	}
	return nil
}

func (d *RecDB) readFault() error {
	d.mu.Lock()
	defer d.mu.Unlock()
	d.reads++
	if d.failRead > 0 && d.reads == d.failRead {
		d.Fired = true
		return ErrInjected
	}
	return nil
}

func (d *RecDB) putFault() error {
	d.mu.Lock()
	defer d.mu.Unlock()
	d.puts++
	if d.failPut > 0 && d.puts == d.failPut {
		d.Fired = true
		return ErrInjected
	}
	return nil
}

// --- KeyValueStore

func (d *RecDB) Has(key []byte) (bool, error) {
	if err := d.readFault(); err != nil {
		return false, err
	}
	return d.inner.Has(key)
}

func (d *RecDB) Get(key []byte, cb func([]byte) error) error {
	if err := d.readFault(); err != nil {
		return err
	}
	err := d.inner.Get(key, cb)
	d.didRead(key)
	return err
}

func (d *RecDB) NewIterator(prefix []byte, withUpperBound bool) (db.Iterator, error) {
	return d.wrapIter(d.inner.NewIterator(prefix, withUpperBound))
}

func (d *RecDB) Put(key, value []byte) error {
	ws := WriteSet{Direct: true, Ops: []Op{{'P', bytes.Clone(key), bytes.Clone(value)}}}
	return d.commit(ws, func() error { return d.inner.Put(key, value) })
}

func (d *RecDB) Delete(key []byte) error {
	ws := WriteSet{Direct: true, Ops: []Op{{'D', bytes.Clone(key), nil}}}
	return d.commit(ws, func() error { return d.inner.Delete(key) })
}

func (d *RecDB) DeleteRange(start, end []byte) error {
	ws := WriteSet{Direct: true, Ops: []Op{{'R', bytes.Clone(start), bytes.Clone(end)}}}
	return d.commit(ws, func() error { return d.inner.DeleteRange(start, end) })
}

func (d *RecDB) NewBatch() db.Batch { return &recBatch{d: d, b: d.inner.NewBatch()} }
func (d *RecDB) NewBatchWithSize(n int) db.Batch {
	return &recBatch{d: d, b: d.inner.NewBatchWithSize(n)}
}
func (d *RecDB) NewIndexedBatch() db.IndexedBatch {
	ib := d.inner.NewIndexedBatch()
	return &recIBatch{recBatch{d: d, b: ib}, ib}
}

func (d *RecDB) NewIndexedBatchWithSize(n int) db.IndexedBatch {
	ib := d.inner.NewIndexedBatchWithSize(n)
	return &recIBatch{recBatch{d: d, b: ib}, ib}
}
func (d *RecDB) NewSnapshot() db.Snapshot { return recSnapshot{d.inner.NewSnapshot(), d} }

func (d *RecDB) Update(fn func(db.IndexedBatch) error) error {
	b := d.NewIndexedBatch()
	if err := fn(b); err != nil {
		b.Close()
		return err
	}
	return b.Write()
}

func (d *RecDB) Write(fn func(db.Batch) error) error {
	b := d.NewBatch()
	if err := fn(b); err != nil {
		b.Close()
		return err
	}
	return b.Write()
}
func (d *RecDB) Impl() any                                        { return d.inner.Impl() }
func (d *RecDB) Path() string                                     { return d.inner.Path() }
func (d *RecDB) WithListener(l db.EventListener) db.KeyValueStore { return d }
func (d *RecDB) Close() error                                     { return d.inner.Close() }
func (d *RecDB) Inner() db.KeyValueStore                          { return d.inner }

type recBatch struct {
	d   *RecDB
	b   db.Batch
	ops []Op
}

func (b *recBatch) Put(key, value []byte) error {
	if err := b.d.putFault(); err != nil {
		return err
	}
	b.ops = append(b.ops, Op{'P', bytes.Clone(key), bytes.Clone(value)})
	return b.b.Put(key, value)
}

func (b *recBatch) Delete(key []byte) error {
	b.ops = append(b.ops, Op{'D', bytes.Clone(key), nil})
	return b.b.Delete(key)
}

func (b *recBatch) DeleteRange(start, end []byte) error {
	b.ops = append(b.ops, Op{'R', bytes.Clone(start), bytes.Clone(end)})
	return b.b.DeleteRange(start, end)
}
func (b *recBatch) Size() int    { return b.b.Size() }
func (b *recBatch) Close() error { return b.b.Close() }
func (b *recBatch) Write() error {
	ws := WriteSet{Ops: b.ops}
	return b.d.commit(ws, b.b.Write)
}

type recIBatch struct {
	recBatch
	ib db.IndexedBatch
}

func (b *recIBatch) Has(key []byte) (bool, error) {
	if err := b.d.readFault(); err != nil {
		return false, err
	}
	return b.ib.Has(key)
}

func (b *recIBatch) Get(key []byte, cb func([]byte) error) error {
	if err := b.d.readFault(); err != nil {
		return err
	}
	err := b.ib.Get(key, cb)
	b.d.didRead(key)
	return err
}

func (b *recIBatch) NewIterator(prefix []byte, withUpperBound bool) (db.Iterator, error) {
	return b.d.wrapIter(b.ib.NewIterator(prefix, withUpperBound))
}

// recIter reports every positioning call of an iterator to the read hook (the position
// between an iterator seek and the next point read is where a reader that is not working
// on a snapshot can be overtaken).
type recIter struct {
	db.Iterator
	d *RecDB
}

func (d *RecDB) wrapIter(it db.Iterator, err error) (db.Iterator, error) {
	if err != nil || it == nil {
		return it, err
	}
	return recIter{it, d}, nil
}

func (i recIter) First() bool { ok := i.Iterator.First(); i.d.didRead(nil); return ok }
func (i recIter) Next() bool  { ok := i.Iterator.Next(); i.d.didRead(nil); return ok }
func (i recIter) Prev() bool  { ok := i.Iterator.Prev(); i.d.didRead(nil); return ok }
func (i recIter) Seek(k []byte) bool {
	ok := i.Iterator.Seek(k)
	i.d.didRead(k)
	return ok
}

// --- helpers over write-sets and stores

// HeadAfter returns the chain height a write-set sets (ok=false if it does not
// touch the chain-height key; deleted=true if it removes it, i.e. genesis reverted).
func HeadAfter(ws WriteSet) (height uint64, deleted, ok bool) {
	hk := db.ChainHeight.Key()
	for _, op := range ws.Ops {
		if !bytes.Equal(op.Key, hk) {
			continue
		}
		switch op.Kind {
		case 'P':
			if len(op.Val) == 8 {
				height, deleted, ok = binary.BigEndian.Uint64(op.Val), false, true
			}
		case 'D':
			height, deleted, ok = 0, true, true
		}
	}
	return
}

// KV is one raw database entry.
type KVPair struct{ K, V []byte }

// Dump returns every key/value of a store in key order.
func Dump(s db.KeyValueReader) []KVPair {
	it, err := s.NewIterator(nil, false)
	if err != nil {
		panic(err)
	}
	defer it.Close()
	var out []KVPair
	for ok := it.First(); ok; ok = it.Next() {
		v, _ := it.Value()
		out = append(out, KVPair{bytes.Clone(it.Key()), bytes.Clone(v)})
	}
	sort.Slice(out, func(i, j int) bool { return bytes.Compare(out[i].K, out[j].K) < 0 })
	return out
}

func DumpEqual(a, b []KVPair) bool {
	if len(a) != len(b) {
		return false
	}
	for i := range a {
		if !bytes.Equal(a[i].K, b[i].K) || !bytes.Equal(a[i].V, b[i].V) {
			return false
		}
	}
	return true
}

// Overtake runs read() on the calling goroutine. Right after read's k-th point read
// (through the store or one of its snapshots) write() is started on another goroutine and
// the reader waits until it has finished - or, when it cannot finish because it needs
// something the reader holds (a schedule the program cannot have), for at most grace;
// the write is always complete when Overtake returns. fired: read did reach its k-th
// read; inside: the write finished before the reader continued.
func (d *RecDB) Overtake(k int, grace time.Duration, read, write func()) (fired, inside bool) {
	return d.OvertakeAt(func(n int, _ []byte) bool { return n == k }, grace, read, write)
}

// OvertakeAt is Overtake with the position chosen by a predicate over (index of the reader's
// point read, key read): the write starts right after the first read for which at() is true
// (positioning calls of iterators report a nil key).
func (d *RecDB) OvertakeAt(at func(n int, key []byte) bool, grace time.Duration, read, write func()) (fired, inside bool) {
	me := goid()
	var cnt atomic.Int64
	done := make(chan struct{})
	d.SetOnRead(func(key []byte) {
		if goid() != me || !at(int(cnt.Add(1)), key) {
			return
		}
		d.SetOnRead(nil)
		fired = true
		go func() {
			defer close(done)
			write()
		}()
		select {
		case <-done:
			inside = true
		case <-time.After(grace):
		}
	})
	read()
	d.SetOnRead(nil)
	if fired {
		<-done
	}
	return fired, inside
}

func goid() uint64 {
	var buf [64]byte
	b := buf[:runtime.Stack(buf[:], false)]
	b = bytes.TrimPrefix(b, []byte("goroutine "))
	if i := bytes.IndexByte(b, ' '); i > 0 {
		n, _ := strconv.ParseUint(string(b[:i]), 10, 64)
		return n
	}
	return 0
}

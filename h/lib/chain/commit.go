package chain

import (
	"math/big"

	"github.com/NethermindEth/juno/core/crypto"
	"github.com/NethermindEth/juno/core/felt"
	"github.com/NethermindEth/juno/verifh/lib"
)

var (
	stateVersionTag = felt.NewFromBytes[felt.Felt]([]byte(`STARKNET_STATE_V0`))
	classLeafTag    = felt.NewFromBytes[felt.Felt]([]byte(`CONTRACT_CLASS_LEAF_V0`))
)

func bigOf(f *felt.Felt) *big.Int { return f.BigInt(new(big.Int)) }

// Commitment computes the Starknet state commitment of an abstract state from the
// protocol definition (independent of both Juno state backends): contract trie
// (Pedersen, height 251) over address -> H(H(H(class, storage_root), nonce), 0),
// class trie (Poseidon) over class hash -> Poseidon("CONTRACT_CLASS_LEAF_V0", casm),
// combined as Poseidon("STARKNET_STATE_V0", contracts, classes); before 0.14.0 a state
// with an empty class trie commits to the contract root alone; the empty state is 0.
func (s *State) Commitment(ver string) (root, contractRoot, classRoot felt.Felt) {
	leaves := map[string]lib.KV{}
	for a, c := range s.Contracts {
		st := map[string]lib.KV{}
		for k, v := range c.Storage {
			k, v := k, v
			st[bigOf(&k).String()] = lib.KV{K: bigOf(&k), V: &v}
		}
		sroot := lib.RefRoot(lib.SortedKVs(st), 251, crypto.Pedersen)
		h := crypto.Pedersen(&c.Class, &sroot)
		h = crypto.Pedersen(&h, &c.Nonce)
		h = crypto.Pedersen(&h, &felt.Zero)
		a := a
		leaves[bigOf(&a).String()] = lib.KV{K: bigOf(&a), V: &h}
	}
	contractRoot = lib.RefRoot(lib.SortedKVs(leaves), 251, crypto.Pedersen)
	cl := map[string]lib.KV{}
	for h, ci := range s.Classes {
		casm := ci.ActiveCasm()
		if !ci.Sierra || casm == nil {
			continue
		}
		leaf := crypto.Poseidon(classLeafTag, casm)
		h := h
		cl[bigOf(&h).String()] = lib.KV{K: bigOf(&h), V: &leaf}
	}
	classRoot = lib.RefRoot(lib.SortedKVs(cl), 251, crypto.Poseidon)
	switch {
	case contractRoot.IsZero() && classRoot.IsZero():
		return felt.Zero, contractRoot, classRoot
	case classRoot.IsZero() && !VersionAtLeast(ver, "0.14.0"):
		return contractRoot, contractRoot, classRoot
	}
	return crypto.PoseidonElems(stateVersionTag, &contractRoot, &classRoot), contractRoot, classRoot
}

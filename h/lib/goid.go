package lib

import (
	"bytes"
	"runtime"
	"strconv"
)

// GoID returns the id of the calling goroutine (parsed from its stack header). Used by
// directed-interleaving hooks that must act only on the goroutine that armed them.
func GoID() uint64 {
	var buf [64]byte
	b := buf[:runtime.Stack(buf[:], false)]
	b = bytes.TrimPrefix(b, []byte("goroutine "))
	if i := bytes.IndexByte(b, ' '); i > 0 {
		n, _ := strconv.ParseUint(string(b[:i]), 10, 64)
		return n
	}
	return 0
}

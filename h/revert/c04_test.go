package vrevert

import (
	"fmt"
	"regexp"
	"sort"
	"strings"
	"testing"

	"github.com/NethermindEth/juno/core"
	"github.com/NethermindEth/juno/verifh/lib"
	"github.com/NethermindEth/juno/verifh/lib/chain"
)

var idRe = regexp.MustCompile(`0x[0-9a-f]+|[0-9]+`)

// category strips identifiers from a probe question so that witnesses of the same
// kind share a class: "n12/txrc3" -> "n*/txrc*", "state/head/0x100/s0x3" -> "state/head/*/s*".
func category(q string) string {
	q = strings.SplitN(q, ":", 2)[0]
	return idRe.ReplaceAllString(q, "*")
}

func hasNoopZero(b *chain.Blk, before *chain.State) bool {
	for a, m := range b.SU.StateDiff.StorageDiffs {
		for k, v := range m {
			if !v.IsZero() {
				continue
			}
			c, ok := before.Contracts[a]
			if !ok {
				return true
			}
			if _, set := c.Storage[k]; !set {
				return true
			}
		}
	}
	return false
}

type scenario struct {
	Backend   string
	PrefixLen int
	Forks     []int // length of each successive fork; each is reverted down to its fork point before the next
	ForkAt    []int
}

func runScenario(r *lib.Run, idx int) {
	rng := lib.Rng("C04/scenario", uint64(idx))
	newState := idx%2 == 1
	backend := map[bool]string{false: "legacy", true: "new"}[newState]
	opts := chain.Opts{NoNoopZero: lib.Avoid("noop-zero-write")}
	if rng.IntN(4) == 0 {
		opts.Contracts = []uint64{0x100, 0x101}
		opts.Slots = []uint64{2, 3, 8}
	}
	g := chain.NewGen(rng, opts)
	ps := chain.NewProbeSet()

	maxPrefix := 8
	if !r.Quick() {
		maxPrefix = 20
	}
	sc := scenario{Backend: backend, PrefixLen: rng.IntN(maxPrefix + 1)}
	nf := 2 + rng.IntN(2)

	// node A follows every fork in turn; node B only the last one
	A := chain.NewMemNode(newState)
	cur := &chain.Chain{}
	builder := chain.NewBuilder(newState)
	if err := g.Extend(cur, builder, sc.PrefixLen); err != nil {
		r.Violation("generator:builder-rejects-valid-block", idx, err.Error(), sc)
		return
	}
	store := func(n *chain.Node, who string, blocks []*chain.Blk) bool {
		for _, b := range blocks {
			if err := n.StoreBlk(b); err != nil {
				r.Violation(backend+":valid-block-rejected:"+who, idx, fmt.Sprintf("%s: node %s rejects valid block %d: %v", backend, who, b.Number(), err), sc)
				return false
			}
		}
		return true
	}
	for _, b := range cur.Blocks {
		ps.AddBlock(b)
	}
	if !store(A, "A", cur.Blocks) {
		return
	}
	var last *chain.Chain
	for f := 0; f < nf; f++ {
		// fork point: anywhere in what A currently holds (including -1 = before genesis)
		at := cur.Len()
		if f > 0 {
			at = rng.IntN(cur.Len() + 1)
			if rng.IntN(6) == 0 {
				at = 0 // revert everything, genesis included
			}
		}
		sc.ForkAt = append(sc.ForkAt, at)
		// revert A down to the fork point
		for cur.Len() > at {
			tip := cur.Tip()
			before := chain.NewState()
			if cur.Len() >= 2 {
				before = cur.States[cur.Len()-2]
			}
			if err := A.BC.RevertHead(); err != nil {
				class := backend + ":revert-error:other"
				if hasNoopZero(tip, before) && strings.Contains(err.Error(), "check head state") {
					class = backend + ":revert-error:block-has-zero-write-to-unset-slot"
				}
				r.Violation(class, idx, fmt.Sprintf("%s: RevertHead of stored block %d fails: %v", backend, tip.Number(), err), sc)
				return
			}
			r.Count("reverts", 1)
			cur = cur.Prefix(cur.Len() - 1)
		}
		flen := 1 + rng.IntN(6)
		if f == nf-1 && flen < 2 {
			flen = 2 // keep one block back for the "next block" check
		}
		sc.Forks = append(sc.Forks, flen)
		var err error
		builder, err = chain.BuilderAt(cur, cur.Len(), newState)
		if err != nil {
			r.Violation("generator:builder-rejects-valid-block", idx, err.Error(), sc)
			return
		}
		from := cur.Len()
		if err := g.Extend(cur, builder, flen); err != nil {
			r.Violation("generator:builder-rejects-valid-block", idx, err.Error(), sc)
			return
		}
		for _, b := range cur.Blocks[from:] {
			ps.AddBlock(b)
		}
		upto := cur.Len()
		if f == nf-1 {
			upto-- // the last block is stored after the comparison
		}
		if !store(A, "A", cur.Blocks[from:upto]) {
			return
		}
		last = cur
	}
	// node B follows the final chain directly
	B := chain.NewMemNode(newState)
	if !store(B, "B", last.Blocks[:last.Len()-1]) {
		return
	}
	oa, ob := chain.Probe(A.BC, ps), chain.Probe(B.BC, ps)
	r.Eval(len(oa))
	r.Count("probe_questions", len(oa))
	diffs := chain.Diff(oa, ob, 0)
	if len(diffs) > 0 {
		cats := map[string]int{}
		for _, d := range diffs {
			cats[category(d)]++
		}
		var cl []string
		for c := range cats {
			cl = append(cl, c)
		}
		sort.Strings(cl)
		for _, c := range cl {
			var ex []string
			for _, d := range diffs {
				if category(d) == c && len(ex) < 4 {
					ex = append(ex, d)
				}
			}
			r.Violation(backend+":observable-difference:"+c, idx,
				fmt.Sprintf("%s: node that followed %d forks and reverted answers %q differently from a node that followed the last fork directly: %s", backend, len(sc.Forks), c, ex[0]),
				map[string]any{"scenario": sc, "examples(A vs B)": ex, "count": cats[c]})
		}
	}
	// both must accept the next block of the final fork, and agree afterwards
	nb := last.Tip()
	ea, eb := A.StoreBlk(nb), B.StoreBlk(nb)
	if ea != nil || eb != nil {
		r.Violation(backend+":next-block-rejected-after-reorg", idx, fmt.Sprintf("%s: next block %d after reorg: A err=%v, B err=%v", backend, nb.Number(), ea, eb), sc)
	} else {
		oa2, ob2 := chain.Probe(A.BC, ps), chain.Probe(B.BC, ps)
		r.Eval(len(oa2))
		if d := chain.Diff(oa2, ob2, 6); len(d) > 0 {
			r.Violation(backend+":observable-difference-after-next-block:"+category(d[0]), idx, "after storing the next block: "+d[0], map[string]any{"scenario": sc, "examples": d})
		}
	}
	// residue: raw key/value differences no accessor observes (reported, not judged)
	da, dbb := chain.Dump(A.DB), chain.Dump(B.DB)
	if !chain.DumpEqual(da, dbb) {
		r.Count("scenarios_with_unobservable_raw_kv_residue", 1)
	}
	r.Count("scenarios", 1)
	r.Count("forks_followed", len(sc.Forks))
	kinds := map[string]bool{}
	for _, b := range last.Blocks {
		for _, tx := range b.Block.Transactions {
			kinds[fmt.Sprintf("%T", tx)] = true
		}
		if len(b.SU.StateDiff.MigratedClasses) > 0 {
			kinds["casm-migration"] = true
		}
		if len(b.Classes) > 0 {
			kinds["declare"] = true
		}
		for _, tx := range b.Block.Transactions {
			if _, ok := tx.(*core.L1HandlerTransaction); ok {
				kinds["l1-handler"] = true
			}
		}
	}
	r.Case(fmt.Sprintf("%s-%d-%v-%v-%s", backend, sc.PrefixLen, sc.Forks, sc.ForkAt, nb.Block.Hash.String()))
	if idx < 4 {
		r.Sample(map[string]any{"case": idx, "scenario": sc, "probe_questions": len(oa), "final_height": nb.Number()})
	}
}

func TestC04(t *testing.T) {
	r := lib.Start("C04", "exploration")
	n := r.N(160, 4000)
	r.Cases(n, 0, func(idx int) { runScenario(r, idx) })
	r.Assume("observational identity is judged through the public reader API (blocks, txs, receipts, state updates, commitments, lookups by hash, L1-message lookups, head + historical state, trie roots, event queries) over the union probe set of all forks; raw key/value residue that no accessor can observe is counted, not judged")
	r.Finish("case = (backend, prefix length, 2-3 successive forks each reverted to a random fork point incl. below genesis); node A follows all forks with RevertHead, node B only the last; "+
		"every answer of the probe over the union of all forks' numbers/hashes/tx hashes/message hashes/classes/contracts/slots is compared, then both store the next block; distinct = distinct (scenario shape, final hash)", 40)
}

package vmigration

import (
	"context"
	"errors"
	"fmt"
	"math/rand/v2"
	"reflect"

	"github.com/NethermindEth/juno/core"
	"github.com/NethermindEth/juno/core/felt"
	"github.com/NethermindEth/juno/db"
	"github.com/NethermindEth/juno/db/memory"
	_ "github.com/NethermindEth/juno/encoder/registry"
	"github.com/NethermindEth/juno/l1/eth"
	"github.com/NethermindEth/juno/migration/blocktransactions/txlayout"
	"github.com/NethermindEth/juno/pruner"
)

// ------------------------------------------------------------------ content generation

func rfelt(rng *rand.Rand) *felt.Felt {
	var b [31]byte
	for i := range b {
		b[i] = byte(rng.UintN(256))
	}
	if rng.IntN(6) == 0 { // small values too
		return new(felt.Felt).SetUint64(rng.Uint64N(5))
	}
	return new(felt.Felt).SetBytes(b[:])
}

// rfelts returns a slice of 0..max felts; an empty slice is sometimes nil and
// sometimes allocated (the two encode differently).
func rfelts(rng *rand.Rand, minLen, maxLen int) []felt.Felt {
	n := minLen + rng.IntN(maxLen-minLen+1)
	if n == 0 {
		if rng.IntN(2) == 0 {
			return nil
		}
		return []felt.Felt{}
	}
	out := make([]felt.Felt, n)
	for i := range out {
		out[i] = *rfelt(rng)
	}
	return out
}

func rbounds(rng *rand.Rand) map[core.Resource]core.ResourceBounds {
	m := map[core.Resource]core.ResourceBounds{
		core.ResourceL1Gas: {MaxAmount: rng.Uint64N(1 << 40), MaxPricePerUnit: rfelt(rng)},
		core.ResourceL2Gas: {MaxAmount: rng.Uint64N(1 << 40), MaxPricePerUnit: rfelt(rng)},
	}
	if rng.IntN(2) == 0 {
		m[core.ResourceL1DataGas] = core.ResourceBounds{MaxAmount: rng.Uint64N(1 << 20), MaxPricePerUnit: rfelt(rng)}
	}
	return m
}

func ver(v uint64) *core.TransactionVersion { return new(core.TransactionVersion).SetUint64(v) }

const txKinds = 10

var txKindNames = [txKinds]string{
	"invoke-v0", "invoke-v1", "invoke-v3", "declare-v1", "declare-v2", "declare-v3",
	"deploy-v0", "deploy-account-v1", "deploy-account-v3", "l1-handler",
}

// genTx hand-builds one transaction of the given kind. Hashes are random (the
// migrations never verify them) and unique with overwhelming probability.
func genTx(rng *rand.Rand, kind int) core.Transaction {
	var hb [31]byte
	for i := range hb {
		hb[i] = byte(rng.UintN(256))
	}
	hb[0] |= 1 // never one of the small values
	h := new(felt.Felt).SetBytes(hb[:])
	da := func() core.DataAvailabilityMode { return core.DataAvailabilityMode(rng.IntN(2)) }
	switch kind {
	case 0:
		return &core.InvokeTransaction{
			TransactionHash: h, CallData: rfelts(rng, 0, 4), TransactionSignature: rfelts(rng, 0, 2),
			MaxFee: rfelt(rng), ContractAddress: rfelt(rng), Version: ver(0), EntryPointSelector: rfelt(rng),
		}
	case 1:
		return &core.InvokeTransaction{
			TransactionHash: h, CallData: rfelts(rng, 0, 5), TransactionSignature: rfelts(rng, 1, 2),
			MaxFee: rfelt(rng), Version: ver(1), Nonce: rfelt(rng), SenderAddress: rfelt(rng),
		}
	case 2:
		tx := &core.InvokeTransaction{
			TransactionHash: h, CallData: rfelts(rng, 0, 5), TransactionSignature: rfelts(rng, 1, 2),
			Version: ver(3), Nonce: rfelt(rng), SenderAddress: rfelt(rng),
			ResourceBounds: rbounds(rng), Tip: rng.Uint64N(1000), PaymasterData: rfelts(rng, 0, 2),
			AccountDeploymentData: rfelts(rng, 0, 2), NonceDAMode: da(), FeeDAMode: da(),
		}
		if rng.IntN(3) == 0 {
			tx.ProofFacts = rfelts(rng, 1, 3)
		}
		return tx
	case 3:
		return &core.DeclareTransaction{
			TransactionHash: h, ClassHash: rfelt(rng), SenderAddress: rfelt(rng), MaxFee: rfelt(rng),
			TransactionSignature: rfelts(rng, 0, 2), Nonce: rfelt(rng), Version: ver(1),
		}
	case 4:
		return &core.DeclareTransaction{
			TransactionHash: h, ClassHash: rfelt(rng), SenderAddress: rfelt(rng), MaxFee: rfelt(rng),
			TransactionSignature: rfelts(rng, 0, 2), Nonce: rfelt(rng), Version: ver(2), CompiledClassHash: rfelt(rng),
		}
	case 5:
		return &core.DeclareTransaction{
			TransactionHash: h, ClassHash: rfelt(rng), SenderAddress: rfelt(rng),
			TransactionSignature: rfelts(rng, 0, 2), Nonce: rfelt(rng), Version: ver(3), CompiledClassHash: rfelt(rng),
			ResourceBounds: rbounds(rng), Tip: rng.Uint64N(1000), PaymasterData: rfelts(rng, 0, 2),
			AccountDeploymentData: rfelts(rng, 0, 2), NonceDAMode: da(), FeeDAMode: da(),
		}
	case 6:
		return &core.DeployTransaction{
			TransactionHash: h, ContractAddressSalt: rfelt(rng), ContractAddress: rfelt(rng), ClassHash: rfelt(rng),
			ConstructorCallData: rfelts(rng, 0, 3), Version: ver(0),
		}
	case 7:
		return &core.DeployAccountTransaction{
			DeployTransaction: core.DeployTransaction{
				TransactionHash: h, ContractAddressSalt: rfelt(rng), ContractAddress: rfelt(rng), ClassHash: rfelt(rng),
				ConstructorCallData: rfelts(rng, 0, 3), Version: ver(1),
			},
			MaxFee: rfelt(rng), TransactionSignature: rfelts(rng, 0, 2), Nonce: rfelt(rng),
		}
	case 8:
		return &core.DeployAccountTransaction{
			DeployTransaction: core.DeployTransaction{
				TransactionHash: h, ContractAddressSalt: rfelt(rng), ContractAddress: rfelt(rng), ClassHash: rfelt(rng),
				ConstructorCallData: rfelts(rng, 0, 3), Version: ver(3),
			},
			TransactionSignature: rfelts(rng, 0, 2), Nonce: rfelt(rng),
			ResourceBounds: rbounds(rng), Tip: rng.Uint64N(1000), PaymasterData: rfelts(rng, 0, 2),
			NonceDAMode: da(), FeeDAMode: da(),
		}
	default:
		return &core.L1HandlerTransaction{
			TransactionHash: h, ContractAddress: rfelt(rng), EntryPointSelector: rfelt(rng), Nonce: rfelt(rng),
			CallData: rfelts(rng, 1, 4), Version: ver(0),
		}
	}
}

func genReceipt(rng *rand.Rand, tx core.Transaction) *core.TransactionReceipt {
	rc := &core.TransactionReceipt{
		Fee:             rfelt(rng),
		FeeUnit:         core.FeeUnit(rng.IntN(2)),
		TransactionHash: tx.Hash(),
	}
	nev := 0
	switch rng.IntN(4) {
	case 0:
	case 1:
		nev = 1
	default:
		nev = 1 + rng.IntN(4)
	}
	for e := 0; e < nev; e++ {
		rc.Events = append(rc.Events, &core.Event{From: rfelt(rng), Keys: rfelts(rng, 0, 3), Data: rfelts(rng, 0, 3)})
	}
	if rng.IntN(4) != 0 {
		rc.ExecutionResources = &core.ExecutionResources{
			BuiltinInstanceCounter: core.BuiltinInstanceCounter{Pedersen: rng.Uint64N(100), RangeCheck: rng.Uint64N(100), Poseidon: rng.Uint64N(9)},
			MemoryHoles:            rng.Uint64N(50),
			Steps:                  rng.Uint64N(100000),
		}
		if rng.IntN(2) == 0 {
			rc.ExecutionResources.DataAvailability = &core.DataAvailability{L1Gas: rng.Uint64N(99), L1DataGas: rng.Uint64N(99)}
		}
		if rng.IntN(2) == 0 {
			rc.ExecutionResources.TotalGasConsumed = &core.GasConsumed{L1Gas: rng.Uint64N(99), L1DataGas: rng.Uint64N(99), L2Gas: rng.Uint64N(9999)}
		}
	}
	if l1, ok := tx.(*core.L1HandlerTransaction); ok {
		var from eth.Address
		for i := range from {
			from[i] = byte(rng.UintN(256))
		}
		rc.L1ToL2Message = &core.L1ToL2Message{From: from, Nonce: l1.Nonce, Payload: rfelts(rng, 0, 3), Selector: l1.EntryPointSelector, To: l1.ContractAddress}
	}
	for m := rng.IntN(3) - 1; m > 0; m-- {
		var to eth.Address
		for i := range to {
			to[i] = byte(rng.UintN(256))
		}
		rc.L2ToL1Message = append(rc.L2ToL1Message, &core.L2ToL1Message{From: rfelt(rng), Payload: rfelts(rng, 0, 3), To: to})
	}
	if rng.IntN(5) == 0 {
		rc.Reverted = true
		rc.RevertReason = fmt.Sprintf("reverted: reason %d", rng.IntN(1000))
	}
	return rc
}

func genStateDiff(rng *rand.Rand) *core.StateDiff {
	sd := &core.StateDiff{
		StorageDiffs:      map[felt.Felt]map[felt.Felt]*felt.Felt{},
		Nonces:            map[felt.Felt]*felt.Felt{},
		DeployedContracts: map[felt.Felt]*felt.Felt{},
		DeclaredV1Classes: map[felt.Felt]*felt.Felt{},
		ReplacedClasses:   map[felt.Felt]*felt.Felt{},
	}
	if rng.IntN(5) == 0 {
		return sd // empty diff, length 0
	}
	for c := rng.IntN(3); c > 0; c-- {
		slots := map[felt.Felt]*felt.Felt{}
		for s := 1 + rng.IntN(4); s > 0; s-- {
			slots[*rfelt(rng)] = rfelt(rng)
		}
		sd.StorageDiffs[*rfelt(rng)] = slots
	}
	for c := rng.IntN(3); c > 0; c-- {
		sd.Nonces[*rfelt(rng)] = rfelt(rng)
	}
	for c := rng.IntN(2); c > 0; c-- {
		sd.DeployedContracts[*rfelt(rng)] = rfelt(rng)
	}
	for c := rng.IntN(2); c > 0; c-- {
		sd.DeclaredV0Classes = append(sd.DeclaredV0Classes, rfelt(rng))
	}
	for c := rng.IntN(2); c > 0; c-- {
		sd.DeclaredV1Classes[*rfelt(rng)] = rfelt(rng)
	}
	for c := rng.IntN(2); c > 0; c-- {
		sd.ReplacedClasses[*rfelt(rng)] = rfelt(rng)
	}
	if rng.IntN(4) == 0 {
		sd.MigratedClasses = map[felt.SierraClassHash]felt.CasmClassHash{
			felt.SierraClassHash(*rfelt(rng)): felt.CasmClassHash(*rfelt(rng)),
		}
	}
	return sd
}

type blockContent struct {
	Header      *core.Header
	Txs         []core.Transaction
	Receipts    []*core.TransactionReceipt
	Update      *core.StateUpdate
	Commitments *core.BlockCommitments // as stored before the upgrade (StateDiffLength 0)
}

// dbSpec describes one generated pre-upgrade database.
type dbSpec struct {
	Variant      string // "old-tx-layout" | "tx-migrated-then-pruned" | "empty-database"
	Blocks       int
	LeadingEmpty int    // blocks 0..LeadingEmpty-1 carry no transactions
	PrunedTo     uint64 // variant "tx-migrated-then-pruned": PruneUpto(PrunedTo) ran on the database
	TxTotal      int
	EmptyBlocks  int
}

func (s dbSpec) String() string {
	return fmt.Sprintf("%s blocks=%d leading-empty=%d empty=%d txs=%d pruned-to=%d", s.Variant, s.Blocks, s.LeadingEmpty, s.EmptyBlocks, s.TxTotal, s.PrunedTo)
}

func genSpec(rng *rand.Rand) dbSpec {
	var s dbSpec
	switch r := rng.IntN(40); {
	case r == 0:
		s.Variant = "empty-database"
		return s
	case r < 3:
		s.Blocks = 1
	case r < 8:
		s.Blocks = 2 + rng.IntN(10)
	case r < 14: // around the batch-size boundaries of the block-transactions migration (10 blocks per range)
		s.Blocks = []int{9, 10, 11, 19, 20, 21, 39, 40, 41}[rng.IntN(9)]
	default:
		s.Blocks = 12 + rng.IntN(49)
	}
	s.Variant = "old-tx-layout"
	if s.Blocks >= 3 && rng.IntN(4) == 0 {
		s.Variant = "tx-migrated-then-pruned"
		s.PrunedTo = 1 + rng.Uint64N(uint64(s.Blocks-1))
	}
	if rng.IntN(3) == 0 {
		s.LeadingEmpty = 1 + rng.IntN(min(s.Blocks, 25))
	}
	return s
}

func genChain(rng *rand.Rand, s *dbSpec) []blockContent {
	blocks := make([]blockContent, s.Blocks)
	parent := &felt.Zero
	root := &felt.Zero
	for n := range blocks {
		ntx := 0
		if n >= s.LeadingEmpty && rng.IntN(4) != 0 {
			ntx = 1 + rng.IntN(5)
		}
		b := &blocks[n]
		nev := 0
		for i := 0; i < ntx; i++ {
			tx := genTx(rng, rng.IntN(txKinds))
			rc := genReceipt(rng, tx)
			nev += len(rc.Events)
			b.Txs = append(b.Txs, tx)
			b.Receipts = append(b.Receipts, rc)
		}
		if ntx == 0 {
			s.EmptyBlocks++
		}
		s.TxTotal += ntx
		hash := rfelt(rng)
		newRoot := rfelt(rng)
		b.Header = &core.Header{
			Hash: hash, ParentHash: parent, Number: uint64(n), GlobalStateRoot: newRoot, SequencerAddress: rfelt(rng),
			TransactionCount: uint64(ntx), EventCount: uint64(nev), Timestamp: 1700000000 + uint64(n)*30,
			ProtocolVersion: "0.13.2", EventsBloom: core.EventsBloom(b.Receipts),
			L1GasPriceETH: rfelt(rng), L1GasPriceSTRK: rfelt(rng), L1DAMode: core.Blob,
			L1DataGasPrice: &core.GasPrice{PriceInWei: rfelt(rng), PriceInFri: rfelt(rng)},
			L2GasPrice:     &core.GasPrice{PriceInWei: rfelt(rng), PriceInFri: rfelt(rng)},
		}
		b.Update = &core.StateUpdate{BlockHash: hash, NewRoot: newRoot, OldRoot: root, StateDiff: genStateDiff(rng)}
		b.Commitments = &core.BlockCommitments{
			TransactionCommitment: rfelt(rng), EventCommitment: rfelt(rng), ReceiptCommitment: rfelt(rng), StateDiffCommitment: rfelt(rng),
		}
		parent, root = hash, newRoot
	}
	return blocks
}

// ------------------------------------------------------------------ pre-upgrade image + model

// model is what must be readable after the upgrade; it is obtained by reading
// the generated content back through the OLD per-transaction layout accessors
// (i.e. exactly what a pre-upgrade binary would have answered).
type model struct {
	spec    dbSpec
	blocks  []blockContent
	oldest  uint64 // first retained block
	txs     [][]core.Transaction
	rcs     [][]*core.TransactionReceipt
	lengths []uint64 // StateDiff.Length() per block
}

func must(err error) {
	if err != nil {
		panic(fmt.Sprintf("harness: %v", err))
	}
}

// buildPreImage writes the generated chain as a pre-upgrade database.
func buildPreImage(s dbSpec, blocks []blockContent) (*memory.Database, *model) {
	st := memory.New()
	m := &model{spec: s, blocks: blocks}
	if s.Variant == "empty-database" {
		return st, m
	}
	must(core.WriteChainHeight(st, uint64(len(blocks)-1)))
	scratch := memory.New()
	for n, b := range blocks {
		num := uint64(n)
		must(core.WriteBlockHeader(st, b.Header))
		must(core.WriteStateUpdateByBlockNum(st, num, b.Update))
		must(core.WriteBlockCommitment(st, num, b.Commitments))
		must(core.WriteL1HandlerMsgHashes(st, b.Txs))
		if s.Variant == "old-tx-layout" {
			must(txlayout.TransactionLayoutPerTx.WriteTransactionsAndReceipts(st, num, b.Txs, b.Receipts))
		} else {
			must(core.WriteTransactionsAndReceipts(st, num, b.Txs, b.Receipts))
		}
		must(txlayout.TransactionLayoutPerTx.WriteTransactionsAndReceipts(scratch, num, b.Txs, b.Receipts))
		txs, err := txlayout.TransactionLayoutPerTx.TransactionsByBlockNumber(scratch, num)
		must(err)
		rcs, err := txlayout.TransactionLayoutPerTx.ReceiptsByBlockNumber(scratch, num)
		must(err)
		if len(txs) != len(b.Txs) || len(rcs) != len(b.Receipts) {
			panic("harness: old layout does not read back what was written")
		}
		for i := range txs {
			if !txs[i].Hash().Equal(b.Txs[i].Hash()) || !rcs[i].TransactionHash.Equal(b.Txs[i].Hash()) || len(rcs[i].Events) != len(b.Receipts[i].Events) {
				panic("harness: old layout read-back disagrees with the generated content")
			}
		}
		m.txs = append(m.txs, txs)
		m.rcs = append(m.rcs, rcs)
		m.lengths = append(m.lengths, b.Update.StateDiff.Length())
	}
	if s.Variant == "tx-migrated-then-pruned" {
		// the database was upgraded by a binary that knew only the block-transactions
		// migration (+ the two optional slots, disabled), then pruned by the real pruner
		writeReleasedMeta(st, 0b0001, 0b0001)
		pruned, oldest, err := pruner.PruneUpto(context.Background(), st, s.PrunedTo, 1<<20)
		must(err)
		if pruned != s.PrunedTo || oldest != s.PrunedTo {
			panic(fmt.Sprintf("harness: PruneUpto(%d) pruned %d, oldest %d", s.PrunedTo, pruned, oldest))
		}
		m.oldest = s.PrunedTo
	}
	return st, m
}

// ------------------------------------------------------------------ accessor oracle

type blockIssue struct {
	Block uint64
	Kind  string
	Note  string
}

// blockState classifies what the CURRENT accessors return for block n.
//
//	"ok"            every accessor returns exactly the original content
//	"missing"       the block has no entry in the current layout
//	"blank"         the entry exists and holds ZERO transactions/receipts while the block had some
//	"mismatch:..."  anything else
func (m *model) blockState(r db.KeyValueReader, n uint64) (string, string) {
	wantTx, wantRc := m.txs[n], m.rcs[n]
	txs, err := core.GetTransactionsByBlockNumber(r, n)
	if err != nil {
		if errors.Is(err, db.ErrKeyNotFound) {
			return "missing", ""
		}
		return "mismatch:error", err.Error()
	}
	rcs, err := core.GetReceiptsByBlockNumber(r, n)
	if err != nil {
		return "mismatch:receipts-error", err.Error()
	}
	if len(wantTx) > 0 && len(txs) == 0 && len(rcs) == 0 {
		return "blank", fmt.Sprintf("0 transactions / 0 receipts, original %d", len(wantTx))
	}
	if len(txs) != len(wantTx) || len(rcs) != len(wantRc) {
		return "mismatch:count", fmt.Sprintf("%d txs / %d receipts, original %d", len(txs), len(rcs), len(wantTx))
	}
	for i := range wantTx {
		if !reflect.DeepEqual(txs[i], wantTx[i]) {
			return "mismatch:transaction", fmt.Sprintf("tx %d differs", i)
		}
		if !reflect.DeepEqual(rcs[i], wantRc[i]) {
			return "mismatch:receipt", fmt.Sprintf("receipt %d differs", i)
		}
	}
	// remaining accessors
	hashes, err := core.GetTransactionHashesByBlockNumber(r, n)
	if err != nil || len(hashes) != len(wantTx) {
		return "mismatch:hashes", fmt.Sprint(err, len(hashes))
	}
	evs, err := core.GetTransactionEventsByBlockNumber(r, n)
	if err != nil || len(evs) != len(wantTx) {
		return "mismatch:events", fmt.Sprint(err, len(evs))
	}
	t2, r2, err := core.GetTransactionsAndReceiptsByBlockNumber(r, n)
	if err != nil || !reflect.DeepEqual(t2, txs) || !reflect.DeepEqual(r2, rcs) {
		return "mismatch:txs-and-receipts", fmt.Sprint(err)
	}
	blk, err := core.GetBlockByNumber(r, n)
	if err != nil || !reflect.DeepEqual(blk.Transactions, txs) || !reflect.DeepEqual(blk.Receipts, rcs) {
		return "mismatch:block-by-number", fmt.Sprint(err)
	}
	i := 0
	for tx, err := range core.GetTransactionsByBlockNumberIter(r, n) {
		if err != nil || i >= len(wantTx) || !reflect.DeepEqual(tx, wantTx[i]) {
			return "mismatch:iterator", fmt.Sprint(err, i)
		}
		i++
	}
	if i != len(wantTx) {
		return "mismatch:iterator-count", fmt.Sprint(i)
	}
	for i := range wantTx {
		idx := uint64(i)
		if !hashes[i].Equal(wantTx[i].Hash()) {
			return "mismatch:hash", fmt.Sprint(i)
		}
		if !reflect.DeepEqual(evs[i].Events, wantRc[i].Events) || !evs[i].TransactionHash.Equal(wantTx[i].Hash()) {
			return "mismatch:event-projection", fmt.Sprint(i)
		}
		tx, err := core.GetTransactionByBlockAndIndex(r, n, idx)
		if err != nil || !reflect.DeepEqual(tx, wantTx[i]) {
			return "mismatch:tx-by-index", fmt.Sprint(err, i)
		}
		rc, err := core.GetReceiptByBlockAndIndex(r, n, idx)
		if err != nil || !reflect.DeepEqual(rc, wantRc[i]) {
			return "mismatch:receipt-by-index", fmt.Sprint(err, i)
		}
		tx2, rc2, err := core.GetTransactionAndReceiptByBlockAndIndex(r, n, idx)
		if err != nil || !reflect.DeepEqual(tx2, wantTx[i]) || !reflect.DeepEqual(rc2, wantRc[i]) {
			return "mismatch:tx-and-receipt-by-index", fmt.Sprint(err, i)
		}
		es, err := core.GetTransactionExecutionStatusByBlockAndIndex(r, n, idx)
		if err != nil || es.Reverted != wantRc[i].Reverted || es.RevertReason != wantRc[i].RevertReason {
			return "mismatch:execution-status", fmt.Sprint(err, i)
		}
		byHash, err := core.GetTransactionByHash(r, (*felt.TransactionHash)(wantTx[i].Hash()))
		if err != nil || !reflect.DeepEqual(byHash, wantTx[i]) {
			return "mismatch:tx-by-hash-lookup", fmt.Sprint(err, i)
		}
		bni, err := core.TransactionBlockNumbersAndIndicesByHashBucket.Get(r, (*felt.TransactionHash)(wantTx[i].Hash()))
		if err != nil || bni.Number != n || bni.Index != idx {
			return "mismatch:hash-to-position-lookup", fmt.Sprint(err, i)
		}
		if l1, ok := wantTx[i].(*core.L1HandlerTransaction); ok {
			h, err := core.GetL1HandlerTxnHashByMsgHash(r, l1.MessageHash())
			if err != nil || !h.Equal(l1.Hash()) {
				return "mismatch:l1-handler-message-lookup", fmt.Sprint(err, i)
			}
		}
	}
	return "ok", ""
}

// oldLayoutIntact reports whether block n is still completely readable through
// the OLD layout (per-transaction buckets) with its original content.
func (m *model) oldLayoutIntact(r db.KeyValueReader, n uint64) bool {
	txs, err := txlayout.TransactionLayoutPerTx.TransactionsByBlockNumber(r, n)
	if err != nil || len(txs) != len(m.txs[n]) {
		return false
	}
	rcs, err := txlayout.TransactionLayoutPerTx.ReceiptsByBlockNumber(r, n)
	if err != nil || len(rcs) != len(m.rcs[n]) {
		return false
	}
	for i := range txs {
		if !reflect.DeepEqual(txs[i], m.txs[n][i]) || !reflect.DeepEqual(rcs[i], m.rcs[n][i]) {
			return false
		}
	}
	return true
}

func oldBucketEntries(st *memory.Database) int {
	n := 0
	for k := range storeMap(st) {
		if len(k) > 0 && (k[0] == byte(db.TransactionsByBlockNumberAndIndex) || k[0] == byte(db.ReceiptsByBlockNumberAndIndex)) {
			n++
		}
	}
	return n
}

// commitmentIssues checks the block commitments of every retained block:
// unchanged fields and, when lengthDone, the back-filled state diff length.
func (m *model) commitmentIssues(r db.KeyValueReader, lengthDone bool) []blockIssue {
	var out []blockIssue
	for n := m.oldest; n < uint64(len(m.blocks)); n++ {
		c, err := core.GetBlockCommitmentByBlockNum(r, n)
		if err != nil {
			out = append(out, blockIssue{n, "commitments-unreadable", err.Error()})
			continue
		}
		w := m.blocks[n].Commitments
		if !c.TransactionCommitment.Equal(w.TransactionCommitment) || !c.EventCommitment.Equal(w.EventCommitment) ||
			!c.ReceiptCommitment.Equal(w.ReceiptCommitment) || !c.StateDiffCommitment.Equal(w.StateDiffCommitment) {
			out = append(out, blockIssue{n, "commitment-fields-changed", ""})
		}
		if lengthDone && c.StateDiffLength != m.lengths[n] {
			out = append(out, blockIssue{n, "state-diff-length-wrong", fmt.Sprintf("stored %d, state update has %d", c.StateDiffLength, m.lengths[n])})
		}
		if !lengthDone && c.StateDiffLength != 0 && c.StateDiffLength != m.lengths[n] {
			out = append(out, blockIssue{n, "state-diff-length-garbage", fmt.Sprintf("stored %d, state update has %d", c.StateDiffLength, m.lengths[n])})
		}
	}
	return out
}

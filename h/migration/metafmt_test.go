package vmigration

import (
	"bytes"
	"errors"
	"fmt"

	"github.com/NethermindEth/juno/db"
	"github.com/NethermindEth/juno/db/memory"
	"github.com/NethermindEth/juno/migration"
)

// The schema-metadata record as released binaries write it: one entry in bucket
// db.SchemaMetadata with an empty key; the value is the canonical-order CBOR map
//   { "CurrentVersion": uint, "LastTargetVersion": uint }
// "A database written by an earlier layout" carries its applied / targeted bits in
// exactly these bytes, so the harness writes the record of the databases it hands
// to the upgrade in this form (by definition, not through the code under test) and
// reads every record the upgrade leaves behind in this form too.

func cborUint(major byte, v uint64) []byte {
	m := major << 5
	switch {
	case v < 24:
		return []byte{m | byte(v)}
	case v < 1<<8:
		return []byte{m | 24, byte(v)}
	case v < 1<<16:
		return []byte{m | 25, byte(v >> 8), byte(v)}
	case v < 1<<32:
		return []byte{m | 26, byte(v >> 24), byte(v >> 16), byte(v >> 8), byte(v)}
	default:
		out := []byte{m | 27}
		for s := 56; s >= 0; s -= 8 {
			out = append(out, byte(v>>uint(s)))
		}
		return out
	}
}

func releasedMetaBytes(cur, last uint64) []byte {
	var b []byte
	b = append(b, 0xa2)
	b = append(b, cborUint(3, uint64(len("CurrentVersion")))...)
	b = append(b, "CurrentVersion"...)
	b = append(b, cborUint(0, cur)...)
	b = append(b, cborUint(3, uint64(len("LastTargetVersion")))...)
	b = append(b, "LastTargetVersion"...)
	b = append(b, cborUint(0, last)...)
	return b
}

func metaKey() []byte { return db.SchemaMetadata.Key() }

// writeReleasedMeta stores the record the way an earlier binary left it.
func writeReleasedMeta(w db.KeyValueWriter, cur, last migration.SchemaVersion) {
	must(w.Put(metaKey(), releasedMetaBytes(uint64(cur), uint64(last))))
}

func readCborUint(b []byte, major byte) (uint64, []byte, error) {
	if len(b) == 0 || b[0]>>5 != major {
		return 0, nil, fmt.Errorf("expected CBOR major type %d", major)
	}
	ai := b[0] & 31
	b = b[1:]
	n := 0
	switch {
	case ai < 24:
		return uint64(ai), b, nil
	case ai == 24:
		n = 1
	case ai == 25:
		n = 2
	case ai == 26:
		n = 4
	case ai == 27:
		n = 8
	default:
		return 0, nil, errors.New("indefinite / reserved length")
	}
	if len(b) < n {
		return 0, nil, errors.New("truncated")
	}
	var v uint64
	for i := 0; i < n; i++ {
		v = v<<8 | uint64(b[i])
	}
	return v, b[n:], nil
}

// parseReleasedMeta reads a record the way a released binary reads it: a map whose
// entries "CurrentVersion" and "LastTargetVersion" carry the bits; unknown keys are
// ignored, missing ones read as 0 - so a record that spells the keys differently
// reads as "nothing applied, nothing targeted".
func parseReleasedMeta(b []byte) (cur, last uint64, known int, err error) {
	n, rest, err := readCborUint(b, 5)
	if err != nil {
		return 0, 0, 0, err
	}
	for i := uint64(0); i < n; i++ {
		var kl, v uint64
		if kl, rest, err = readCborUint(rest, 3); err != nil {
			return 0, 0, 0, err
		}
		if uint64(len(rest)) < kl {
			return 0, 0, 0, errors.New("truncated key")
		}
		k := string(rest[:kl])
		rest = rest[kl:]
		if v, rest, err = readCborUint(rest, 0); err != nil {
			return 0, 0, 0, err
		}
		switch k {
		case "CurrentVersion":
			cur, known = v, known+1
		case "LastTargetVersion":
			last, known = v, known+1
		}
	}
	if len(rest) != 0 {
		return 0, 0, 0, errors.New("trailing bytes")
	}
	return cur, last, known, nil
}

// metaFormatIssue: whatever record is in the database must mean the same to a
// released binary (previous or next start of another build on this database) as it
// means to this one.
func metaFormatIssue(st *memory.Database) *issue {
	raw, err := memGet(st, metaKey())
	if err != nil {
		return nil
	}
	md, gerr := migration.GetSchemaMetadata(st)
	cur, last, known, perr := parseReleasedMeta(raw)
	switch {
	case perr != nil:
		return &issue{"schema-metadata-record-not-in-the-released-format", fmt.Sprintf("record %x: %v", raw, perr)}
	case gerr != nil:
		return &issue{"schema-metadata-record-unreadable", fmt.Sprintf("record %x: %v", raw, gerr)}
	case known != 2 || cur != uint64(md.CurrentVersion) || last != uint64(md.LastTargetVersion):
		return &issue{"schema-metadata-record-not-in-the-released-format",
			fmt.Sprintf("record %x reads as current=%b last-target=%b in the released format (%d of 2 known keys), this binary reads current=%b last-target=%b",
				raw, cur, last, known, uint64(md.CurrentVersion), uint64(md.LastTargetVersion))}
	}
	return nil
}

func memGet(st *memory.Database, key []byte) ([]byte, error) {
	var out []byte
	err := st.Get(key, func(v []byte) error {
		out = bytes.Clone(v)
		return nil
	})
	return out, err
}

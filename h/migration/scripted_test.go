package vmigration

import (
	"context"
	"errors"
	"fmt"
	"slices"
	"strings"
	"sync"

	"github.com/NethermindEth/juno/blockchain/networks"
	"github.com/NethermindEth/juno/db"
	"github.com/NethermindEth/juno/db/memory"
	"github.com/NethermindEth/juno/migration"
	"github.com/NethermindEth/juno/utils/log"
	"github.com/NethermindEth/juno/verifh/lib"
)

// ------------------------------------------------------------------ scripted migrations

const markerPrefix = 0xF3 // harness-owned key space (no Juno bucket uses it)

func markerKey(slot, step, j int) []byte { return []byte{markerPrefix, byte(slot), byte(step), byte(j)} }

// how a scripted migration reports that it observed the cancellation
const (
	cancelStateNil     = iota // (state, nil)
	cancelStateCtxErr         // (state, ctx.Err())
	cancelStateWrapped        // (state, fmt.Errorf("...: %w", ctx.Err()))
	cancelNilCtxErr           // (nil, ctx.Err())   "error occurred", no resume token
	cancelStyles
)

var cancelStyleNames = [cancelStyles]string{"(state,nil)", "(state,ctx.Err())", "(state,wrapped ctx.Err())", "(nil,ctx.Err())"}

type behaviour struct {
	YieldAfter  int // >0: return (state,nil) with a live context after this many steps of one call
	FailAtStep  int // >=0: return an error instead of executing this step
	FailState   bool
	CancelStyle int
}

type callRec struct {
	Slot        int
	BeforeState []byte
	StartStep   int
	Outcome     string // "complete" | "live-yield" | "cancel:<style>" | "fail" | "write-error"
	State       []byte
	LogLenAtRet int
}

type callLog struct {
	mu    sync.Mutex
	calls []callRec
}

var errBoom = errors.New("scripted migration failure")

// scriptedMig implements migration.Migration. Its work is `steps` batches of two
// marker keys each; the resume token is {0xA0+slot, nextStep}.
type scriptedMig struct {
	slot, steps int
	beh         behaviour
	cl          *callLog
	rec         *recDB

	next   int
	before []byte
}

func (m *scriptedMig) token() []byte { return []byte{0xA0 + byte(m.slot), byte(m.next)} }

func (m *scriptedMig) Before(state []byte) error {
	m.before = slices.Clone(state)
	m.next = 0
	if len(state) == 2 && state[0] == 0xA0+byte(m.slot) && int(state[1]) <= m.steps {
		m.next = int(state[1])
	}
	return nil
}

func (m *scriptedMig) Migrate(ctx context.Context, database db.KeyValueStore, _ *networks.Network, _ log.StructuredLogger) (st []byte, err error) {
	cr := callRec{Slot: m.slot, BeforeState: m.before, StartStep: m.next}
	defer func() {
		cr.State = slices.Clone(st)
		if m.rec != nil {
			cr.LogLenAtRet = len(m.rec.commitLog())
		}
		m.cl.mu.Lock()
		m.cl.calls = append(m.cl.calls, cr)
		m.cl.mu.Unlock()
	}()
	done := 0
	for m.next < m.steps {
		if cerr := ctx.Err(); cerr != nil {
			cr.Outcome = "cancel:" + cancelStyleNames[m.beh.CancelStyle]
			switch m.beh.CancelStyle {
			case cancelStateNil:
				return m.token(), nil
			case cancelStateCtxErr:
				return m.token(), cerr
			case cancelStateWrapped:
				return m.token(), fmt.Errorf("scripted migration interrupted: %w", cerr)
			default:
				return nil, cerr
			}
		}
		if m.beh.FailAtStep == m.next {
			cr.Outcome = "fail"
			if m.beh.FailState {
				return m.token(), errBoom
			}
			return nil, errBoom
		}
		if m.beh.YieldAfter > 0 && done == m.beh.YieldAfter {
			cr.Outcome = "live-yield"
			return m.token(), nil
		}
		b := database.NewBatch()
		for j := 0; j < 2; j++ {
			if err := b.Put(markerKey(m.slot, m.next, j), []byte{byte(m.slot), byte(m.next)}); err != nil {
				cr.Outcome = "write-error"
				return nil, err
			}
		}
		if err := b.Write(); err != nil {
			cr.Outcome = "write-error"
			return nil, err
		}
		m.next++
		done++
	}
	cr.Outcome = "complete"
	return nil, nil
}

func markersPresent(st *memory.Database, slot, upto int) bool {
	mm := storeMap(st)
	for s := 0; s < upto; s++ {
		for j := 0; j < 2; j++ {
			if _, ok := mm[string(markerKey(slot, s, j))]; !ok {
				return false
			}
		}
	}
	return true
}

// ------------------------------------------------------------------ lineage of binaries over one database

type slotDef struct {
	Optional bool
	Steps    int
}

type binary struct {
	N       int    // number of registry slots of this binary (a prefix of the lineage's slot list)
	Enabled []bool // for optional slots
}

func (b binary) target(slots []slotDef) migration.SchemaVersion {
	var t migration.SchemaVersion
	for i := 0; i < b.N; i++ {
		if !slots[i].Optional || b.Enabled[i] {
			t.Set(uint8(i))
		}
	}
	return t
}

func (b binary) String(slots []slotDef) string {
	var sb strings.Builder
	for i := 0; i < b.N; i++ {
		switch {
		case !slots[i].Optional:
			sb.WriteByte('M')
		case b.Enabled[i]:
			sb.WriteByte('O')
		default:
			sb.WriteByte('o')
		}
	}
	return sb.String()
}

type metaView struct {
	Current, Last migration.SchemaVersion
	States        map[int][]byte
}

func readMeta(st *memory.Database, nslots int) metaView {
	mv := metaView{States: map[int][]byte{}}
	md, err := migration.GetSchemaMetadata(st)
	if err == nil {
		mv.Current, mv.Last = md.CurrentVersion, md.LastTargetVersion
	} else if !errors.Is(err, db.ErrKeyNotFound) {
		panic(err)
	}
	for i := 0; i < nslots; i++ {
		s, err := migration.GetIntermediateState(st, uint8(i))
		if err == nil {
			if s == nil {
				s = []byte{}
			}
			mv.States[i] = s
		}
	}
	return mv
}

type runnerWitness struct {
	Slots   string
	History []string
	Detail  string
}

// runnerLineage drives one database through a sequence of binaries and
// interruptions with scripted migrations and checks the runner's bookkeeping.
func runnerLineage(r *lib.Run, idx int) {
	rng := lib.Rng("C18/runner", uint64(idx))
	// every third lineage also contains the two shapes that the unchanged tree is
	// known to mishandle (see the final report): migrations answering a
	// cancellation with (nil, ctx.Err()) and binaries older than the last target.
	// The other lineages stay inside the handled space, so that one open finding
	// does not end most lineages after their first runs.
	hostile := idx%3 == 0
	nslots := 1 + rng.IntN(5)
	slots := make([]slotDef, nslots)
	slotStr := ""
	for i := range slots {
		slots[i] = slotDef{Optional: rng.IntN(5) < 2, Steps: 1 + rng.IntN(3)}
		if slots[i].Optional {
			slotStr += fmt.Sprintf("opt%d ", slots[i].Steps)
		} else {
			slotStr += fmt.Sprintf("man%d ", slots[i].Steps)
		}
	}
	st := memory.New()
	var history []string
	reported := map[string]bool{}
	viol := func(class, detail string) {
		if reported[class] {
			return
		}
		reported[class] = true
		r.Violation(class, idx, detail, runnerWitness{Slots: slotStr, History: slices.Clone(history), Detail: detail})
	}

	everTargeted := migration.SchemaVersion(0)
	maxN := 1
	cur := binary{N: 1 + rng.IntN(nslots), Enabled: make([]bool, nslots)}
	for i := range cur.Enabled {
		cur.Enabled[i] = rng.IntN(2) == 0
	}
	nruns := 2 + rng.IntN(5)
	for run := 0; run <= nruns; run++ {
		final := run == nruns
		if final {
			// a binary that knows every slot seen so far, with every previously
			// targeted optional migration enabled, and no interruption
			cur = binary{N: maxN, Enabled: make([]bool, nslots)}
			for i := 0; i < maxN; i++ {
				cur.Enabled[i] = everTargeted.Has(uint8(i))
			}
		} else if run > 0 {
			nb := binary{N: cur.N, Enabled: slices.Clone(cur.Enabled)}
			switch rng.IntN(6) {
			case 0:
				nb.N = max(1, nb.N-1)
				if !hostile {
					nb.N = max(nb.N, readMeta(st, nslots).Last.HighestBit()+1)
				}
			case 1, 2:
				nb.N = min(nslots, nb.N+1+rng.IntN(2))
			}
			for i := range nb.Enabled {
				switch rng.IntN(8) {
				case 0:
					nb.Enabled[i] = false
				case 1, 2:
					nb.Enabled[i] = true
				}
			}
			cur = nb
		}
		maxN = max(maxN, cur.N)
		target := cur.target(slots)
		pre := readMeta(st, nslots)
		preStore := st.Copy()

		// interruption of this run
		kind := "clean"
		if !final {
			kind = []string{"clean", "clean", "cancel", "cancel", "cancel", "crash", "crash", "write-error", "cancel+crash", "read-error"}[rng.IntN(10)]
		}
		work := st.Copy()
		rec := newRecDB(work)
		ctx, cancel := context.WithCancel(context.Background())
		rec.cancel = cancel
		// drawn from a generous bound on the operations of a run; a point beyond the
		// run's last operation leaves the run uninterrupted (counted separately)
		cancelPoint := int64(0)
		if strings.HasPrefix(kind, "cancel") {
			cancelPoint = 1 + rng.Int64N(6+int64(cur.N)*10)
			rec.cancelAt = cancelPoint
		}
		if kind == "write-error" {
			rec.failAt = rng.IntN(2 + cur.N*3)
		}
		// one point read fails (an I/O error that goes away): the run may stop with the error or cope;
		// whatever it does, a migration that is (re)started must be handed the state the database holds
		readErr := kind == "read-error"
		if readErr {
			rec.failReadAt = 1 + rng.Int64N(3+int64(cur.N)*2)
		}
		cl := &callLog{}
		reg := migration.NewRegistry()
		behs := make([]behaviour, cur.N)
		for i := 0; i < cur.N; i++ {
			b := behaviour{FailAtStep: -1, CancelStyle: rng.IntN(cancelStyles)}
			if !hostile && b.CancelStyle == cancelNilCtxErr {
				b.CancelStyle = rng.IntN(cancelNilCtxErr)
			}
			if !final {
				switch rng.IntN(10) {
				case 0:
					b.YieldAfter = 1
				case 1:
					b.FailAtStep = rng.IntN(slots[i].Steps)
					b.FailState = rng.IntN(2) == 0
				}
			}
			behs[i] = b
			m := &scriptedMig{slot: i, steps: slots[i].Steps, beh: b, cl: cl, rec: rec}
			if slots[i].Optional {
				reg.WithOptional(m, cur.Enabled[i], fmt.Sprintf("opt-%d", i))
			} else {
				reg.With(m)
			}
		}
		desc := fmt.Sprintf("run%d binary=%s target=%05b kind=%s cancelAt=%d failAt=%d | before: current=%05b last=%05b states=%v",
			run, cur.String(slots), uint64(target), kind, cancelPoint, rec.failAt, uint64(pre.Current), uint64(pre.Last), pre.States)
		history = append(history, desc)
		r.Eval(1)
		r.Count("runner.runs", 1)
		r.Count("runner.run-kind:"+kind, 1)

		// ---- NewRunner: refusal oracle
		mustRefuse := (pre.Current|pre.Last)&^target != 0
		runner, nerr := migration.NewRunner(reg, rec, &networks.Sepolia, log.NewNopZapLogger())
		if mustRefuse {
			r.Count("runner.refusals-expected", 1)
			if nerr == nil {
				beyond := (pre.Current | pre.Last) &^ target >> uint(cur.N) << uint(cur.N)
				within := ((pre.Current | pre.Last) &^ target) &^ beyond
				switch {
				case within == 0 && pre.Current&^target == 0:
					viol("newrunner-accepts-database-targeted-by-migration-unknown-to-this-binary",
						fmt.Sprintf("binary with %d slots (target %05b) opened a database whose LastTargetVersion=%05b names migration(s) the binary does not have (not yet applied: current=%05b); NewRunner returned no error", cur.N, uint64(target), uint64(pre.Last), uint64(pre.Current)))
				case pre.Current&^target != 0:
					viol("newrunner-accepts-database-with-unknown-applied-migration",
						fmt.Sprintf("target %05b, current=%05b: NewRunner returned no error", uint64(target), uint64(pre.Current)))
				default:
					viol("newrunner-accepts-opt-out",
						fmt.Sprintf("target %05b, last target=%05b: NewRunner returned no error", uint64(target), uint64(pre.Last)))
				}
			} else {
				r.Count("runner.refusals-observed", 1)
				if d := dumpDiff(work, preStore, 3); d != nil {
					viol("newrunner-refusal-modified-database", fmt.Sprint(d))
				}
			}
			if final {
				panic("harness: final binary must be acceptable")
			}
			cancel()
			history[len(history)-1] += " => refused=" + fmt.Sprint(nerr != nil)
			if nerr != nil {
				continue
			}
			// an accepted database that had to be refused: stop the lineage here, the
			// oracle has no expectation for what follows
			return
		}
		if nerr != nil && readErr && errors.Is(nerr, errInjectedRead) {
			// the failing read hit NewRunner: nothing was started
			r.Count("runner.read-error-hit-NewRunner", 1)
			history[len(history)-1] += " => NewRunner: " + nerr.Error()
			cancel()
			continue
		}
		if nerr != nil {
			viol("newrunner-refuses-acceptable-database", fmt.Sprintf("target %05b current=%05b last=%05b: %v", uint64(target), uint64(pre.Current), uint64(pre.Last), nerr))
			cancel()
			return
		}
		everTargeted |= target

		rerr := runner.Run(ctx)
		cancelled := ctx.Err() != nil
		cancel()
		clog := rec.commitLog()
		_, ck := rec.opKinds()
		if cancelPoint > 0 {
			if ck != "" {
				r.Count("runner.cancel-landed-on:"+ck, 1)
			} else {
				r.Count("runner.cancel-point-beyond-run", 1)
			}
		}

		// resulting store (crash = replay of a prefix of the commit log onto the store the run started from)
		after := work
		crashK := -1
		if strings.HasSuffix(kind, "crash") {
			crashK = rng.IntN(len(clog) + 1)
			after = replayLog(preStore, clog[:crashK])
			r.Count("runner.crash-images", 1)
		}
		post := readMeta(after, nslots)
		if is := metaFormatIssue(after); is != nil {
			viol(is.Class, is.Detail)
		}
		history[len(history)-1] += fmt.Sprintf(" => err=%v calls=%s commits=%d crashAfter=%d | after: current=%05b last=%05b states=%v",
			rerr, fmtCalls(cl.calls), len(clog), crashK, uint64(post.Current), uint64(post.Last), post.States)

		// ---- order of calls: ascending over the pending set, nothing after a stop
		pending := target &^ pre.Current
		var pend []int
		for i := range pending.Iter() {
			pend = append(pend, int(i))
		}
		stopped := false
		sawYield, sawFail := false, false
		completedAt := map[int]int{} // slot -> commit-log length when Migrate returned (nil,nil)
		for ci, c := range cl.calls {
			if stopped {
				viol("runner-calls-migration-after-failed-or-cancelled-one", fmt.Sprintf("call %d (slot %d) follows a migration that returned an error / observed cancellation", ci, c.Slot))
				break
			}
			if ci >= len(pend) || pend[ci] != c.Slot {
				viol("runner-calls-migrations-out-of-order-or-not-pending", fmt.Sprintf("calls %s, pending slots %v", fmtCalls(cl.calls), pend))
				break
			}
			want := pre.States[c.Slot]
			if !bytesEqualNilEmpty(c.BeforeState, want) {
				viol("runner-before-state-differs-from-stored-state", fmt.Sprintf("slot %d: Before got %v, database held %v", c.Slot, c.BeforeState, want))
			}
			switch {
			case c.Outcome == "complete":
				completedAt[c.Slot] = c.LogLenAtRet
			case c.Outcome == "live-yield":
				sawYield = true
				r.Count("runner.live-yields", 1)
			case strings.HasPrefix(c.Outcome, "cancel:"):
				stopped = true
				r.Count("runner.cancel-observed-by-migration:"+c.Outcome[7:], 1)
			default:
				stopped, sawFail = true, true
				r.Count("runner.migration-"+c.Outcome, 1)
			}
			r.Count("runner.migrate-calls", 1)
		}
		if !stopped && len(cl.calls) < len(pend) && !cancelled && rec.failAt < 0 && !(readErr && rerr != nil) {
			viol("runner-skips-pending-migration", fmt.Sprintf("calls %s, pending slots %v, run returned %v", fmtCalls(cl.calls), pend, rerr))
		}
		if rerr == nil && (sawFail || stopped) {
			viol("runner-run-returns-nil-after-failure-or-cancellation", fmt.Sprintf("calls %s cancelled=%v", fmtCalls(cl.calls), cancelled))
		}

		// ---- image invariants (hold for every image: complete, cancelled, crashed)
		if pre.Current&^post.Current != 0 {
			viol("applied-bit-cleared", fmt.Sprintf("current %05b -> %05b", uint64(pre.Current), uint64(post.Current)))
		}
		if post.Current&^(pre.Current|target) != 0 {
			viol("applied-bit-set-for-untargeted-migration", fmt.Sprintf("current %05b target %05b", uint64(post.Current), uint64(target)))
		}
		if post.Last != pre.Last && post.Last != target {
			viol("last-target-neither-old-nor-new", fmt.Sprintf("last %05b", uint64(post.Last)))
		}
		for i := 0; i < nslots; i++ {
			bit := post.Current.Has(uint8(i))
			s, hasState := post.States[i]
			if bit && hasState {
				viol("intermediate-state-present-with-applied-bit", fmt.Sprintf("slot %d state %v", i, s))
			}
			if bit && !pre.Current.Has(uint8(i)) {
				// newly applied in this run: which Migrate return value preceded it?
				shape := "not-called"
				for _, c := range cl.calls {
					if c.Slot == i {
						shape = c.Outcome
					}
				}
				switch {
				case shape == "complete":
					if at := completedAt[i]; crashK >= 0 && at > crashK {
						viol("applied-bit-durable-before-migration-returned", fmt.Sprintf("slot %d: bit is in the image of the first %d commits, Migrate returned after %d", i, crashK, at))
					}
				case shape == "cancel:"+cancelStyleNames[cancelNilCtxErr]:
					viol("runner-marks-migration-applied-when-it-returns-nil-state-with-context-error",
						fmt.Sprintf("slot %d (%d steps, resumed at step %d): Migrate observed the cancellation and returned (nil, ctx.Err()); the runner set the applied bit", i, slots[i].Steps, startStepOf(cl.calls, i)))
				default:
					viol("applied-bit-set-after-migration-returned:"+shape, fmt.Sprintf("slot %d", i))
				}
			}
			if bit && len(reported) == 0 && !markersPresent(after, i, slots[i].Steps) {
				viol("applied-bit-set-but-migration-work-incomplete", fmt.Sprintf("slot %d (%d steps) has its applied bit set, its markers are incomplete", i, slots[i].Steps))
			}
			if hasState && !bit {
				if len(s) == 2 && s[0] == 0xA0+byte(i) && !markersPresent(after, i, int(s[1])) {
					viol("resume-token-ahead-of-durable-work", fmt.Sprintf("slot %d state %v", i, s))
				}
			}
		}

		// ---- exact expectations when nothing was injected into the store
		if readErr {
			r.Count(fmt.Sprintf("runner.read-error-runs:returned-error=%v", rerr != nil), 1)
		}
		if crashK < 0 && rec.failAt < 0 && !(readErr && rerr != nil) {
			if post.Last != target {
				viol("last-target-not-recorded", fmt.Sprintf("last %05b target %05b", uint64(post.Last), uint64(target)))
			}
			for _, c := range cl.calls {
				bit := post.Current.Has(uint8(c.Slot))
				s, hasState := post.States[c.Slot]
				switch {
				case c.Outcome == "complete":
					if !bit {
						viol("completed-migration-not-marked-applied", fmt.Sprintf("slot %d", c.Slot))
					}
				case c.Outcome == "live-yield" || (strings.HasPrefix(c.Outcome, "cancel:") && c.State != nil):
					if bit {
						viol("applied-bit-set-for-migration-that-returned-resume-state", fmt.Sprintf("slot %d outcome %s", c.Slot, c.Outcome))
					}
					if !hasState || !slices.Equal(s, c.State) {
						viol("returned-resume-state-not-saved", fmt.Sprintf("slot %d returned %v, database holds %v (present=%v)", c.Slot, c.State, s, hasState))
					}
				case c.Outcome == "fail":
					if bit {
						viol("applied-bit-set-for-failed-migration", fmt.Sprintf("slot %d", c.Slot))
					}
				}
			}
			if rerr == nil && !sawYield && post.Current&target != target {
				viol("run-returns-nil-with-unapplied-target", fmt.Sprintf("current %05b target %05b", uint64(post.Current), uint64(target)))
			}
		}
		if final {
			if rerr != nil {
				viol("final-clean-run-fails", rerr.Error())
			}
			if post.Current&target != target || len(post.States) != 0 {
				viol("final-clean-run-leaves-pending-work", fmt.Sprintf("current %05b target %05b states %v", uint64(post.Current), uint64(target), post.States))
			}
			for i := 0; i < cur.N; i++ {
				if target.Has(uint8(i)) && !markersPresent(after, i, slots[i].Steps) {
					viol("final-database-misses-migration-work", fmt.Sprintf("slot %d", i))
				}
			}
		}
		r.Case(fmt.Sprintf("runner|%s|%s|%s|c%d|%s", slotStr, cur.String(slots), kind, len(cl.calls), fmtCalls(cl.calls)))
		st = after
		if len(reported) > 0 {
			return // the database left the contract; nothing that follows is attributable
		}
	}
	if idx == 1 || idx == 2 {
		r.Sample(map[string]any{"part": "runner bookkeeping lineage", "case": idx, "slots": slotStr, "history": history})
	}
}

func startStepOf(cs []callRec, slot int) int {
	for _, c := range cs {
		if c.Slot == slot {
			return c.StartStep
		}
	}
	return -1
}

func bytesEqualNilEmpty(a, b []byte) bool {
	if len(a) == 0 && len(b) == 0 {
		return true
	}
	return slices.Equal(a, b)
}

func fmtCalls(cs []callRec) string {
	var parts []string
	for _, c := range cs {
		parts = append(parts, fmt.Sprintf("%d@%d:%s", c.Slot, c.StartStep, c.Outcome))
	}
	return "[" + strings.Join(parts, " ") + "]"
}

// ------------------------------------------------------------------ exhaustive refusal matrix

type noopMig struct{}

func (noopMig) Before([]byte) error { return nil }
func (noopMig) Migrate(context.Context, db.KeyValueStore, *networks.Network, log.StructuredLogger) ([]byte, error) {
	return nil, nil
}

// refusalMatrix enumerates every registry of 1..5 slots (mandatory / optional
// enabled / optional disabled) against every stored (CurrentVersion ⊆
// LastTargetVersion) over bits 0..n (one bit beyond the registry) and checks
// NewRunner's accept/refuse decision.
func refusalMatrix(r *lib.Run) {
	type miss struct {
		Registry      string
		Current, Last string
		Err           string
	}
	reported := map[string]int{}
	for n := 1; n <= 5; n++ {
		pow := 1
		for i := 0; i < n; i++ {
			pow *= 3
		}
		for code := 0; code < pow; code++ {
			kinds := make([]int, n) // 0 mandatory, 1 optional enabled, 2 optional disabled
			c := code
			var target migration.SchemaVersion
			name := ""
			for i := 0; i < n; i++ {
				kinds[i] = c % 3
				c /= 3
				if kinds[i] != 2 {
					target.Set(uint8(i))
				}
				name += string("MOo"[kinds[i]])
			}
			for last := uint64(0); last < 1<<uint(n+1); last++ {
				for cur := last; ; cur = (cur - 1) & last { // all subsets of last
					store := memory.New()
					if last != 0 || cur != 0 || code%2 == 0 {
						writeReleasedMeta(store, migration.SchemaVersion(cur), migration.SchemaVersion(last))
					}
					reg := migration.NewRegistry()
					for i := 0; i < n; i++ {
						if kinds[i] == 0 {
							reg.With(noopMig{})
						} else {
							reg.WithOptional(noopMig{}, kinds[i] == 1, fmt.Sprintf("opt-%d", i))
						}
					}
					_, err := migration.NewRunner(reg, store, &networks.Sepolia, log.NewNopZapLogger())
					r.Eval(1)
					mustRefuse := migration.SchemaVersion(last|cur)&^target != 0
					r.Count("matrix.combinations", 1)
					if mustRefuse {
						r.Count("matrix.must-refuse", 1)
					}
					if mustRefuse != (err != nil) {
						cls := "newrunner-refuses-acceptable-database"
						if mustRefuse {
							off := migration.SchemaVersion(last|cur) &^ target
							switch {
							case migration.SchemaVersion(cur)&^target != 0:
								cls = "newrunner-accepts-database-with-unknown-applied-migration"
							case uint64(off)>>uint(n) != 0 && uint64(off)&(1<<uint(n)-1) == 0:
								cls = "newrunner-accepts-database-targeted-by-migration-unknown-to-this-binary"
							default:
								cls = "newrunner-accepts-opt-out"
							}
						}
						reported[cls]++
						if reported[cls] == 1 {
							r.Violation(cls, -1, fmt.Sprintf("registry %s (target %06b), stored current=%06b last-target=%06b: NewRunner error = %v, must refuse = %v",
								name, uint64(target), cur, last, err, mustRefuse),
								miss{Registry: name, Current: fmt.Sprintf("%06b", cur), Last: fmt.Sprintf("%06b", last), Err: fmt.Sprint(err)})
						}
					}
					if cur == 0 {
						break
					}
				}
			}
			r.Case("matrix|" + name)
		}
	}
	for cls, n := range reported {
		r.Count("matrix.wrong-decisions:"+cls, n)
	}
}


package vmigration

import (
	"context"
	"errors"
	"slices"
	"sync"
	"sync/atomic"

	"github.com/NethermindEth/juno/db"
	"github.com/NethermindEth/juno/db/memory"
)

// recDB is a db.KeyValueStore wrapper that records and perturbs.
//
//   - Every committed write-set is appended to a commit log under the commit
//     lock: a batch Write() is ONE atomic entry, a direct Put/Delete/DeleteRange
//     is one entry each. A crash after k commits is the replay of the first k
//     entries onto a copy of the store the run started from (replayLog).
//   - Every read, batch operation, commit and direct write is an "operation";
//     when the cancelAt-th operation is seen the run's context is cancelled
//     (the operation itself still executes).
//   - failAt >= 0: once failAt entries are committed every further commit or
//     direct write returns errInjectedWrite and is not applied.
type recDB struct {
	inner db.KeyValueStore

	mu     sync.Mutex // commit lock
	log    []logEntry
	failAt int

	nops     atomic.Int64
	nreads   atomic.Int64
	// failReadAt > 0: the failReadAt-th point read (Get / Has) returns errInjectedRead, once
	failReadAt int64
	cancelAt   int64
	cancel   context.CancelFunc

	kmu        sync.Mutex
	kinds      map[string]int
	cancelKind string
}

const (
	opPut byte = iota
	opDel
	opDelRange
)

type wop struct {
	kind byte
	a, b []byte
}

type logEntry struct {
	ops  []wop
	kind string // "batch" | "put" | "delete" | "delete-range"
}

var errInjectedWrite = errors.New("verif: injected write failure (process is dead)")
var errInjectedRead = errors.New("verif: injected read failure")

func (d *recDB) readFault() error {
	if n := d.nreads.Add(1); d.failReadAt > 0 && n == d.failReadAt {
		return errInjectedRead
	}
	return nil
}

func newRecDB(inner db.KeyValueStore) *recDB {
	return &recDB{inner: inner, failAt: -1, kinds: map[string]int{}}
}

func (d *recDB) tick(kind string) {
	n := d.nops.Add(1)
	d.kmu.Lock()
	d.kinds[kind]++
	fire := d.cancelAt > 0 && n == d.cancelAt && d.cancel != nil
	if fire {
		d.cancelKind = kind
	}
	d.kmu.Unlock()
	if fire {
		d.cancel()
	}
}

func (d *recDB) commit(kind string, ops []wop, apply func() error) error {
	d.mu.Lock()
	defer d.mu.Unlock()
	if d.failAt >= 0 && len(d.log) >= d.failAt {
		return errInjectedWrite
	}
	if err := apply(); err != nil {
		return err
	}
	d.log = append(d.log, logEntry{ops: ops, kind: kind})
	return nil
}

func (d *recDB) commitLog() []logEntry {
	d.mu.Lock()
	defer d.mu.Unlock()
	return slices.Clone(d.log)
}

func (d *recDB) opCount() int64 { return d.nops.Load() }

func (d *recDB) opKinds() (map[string]int, string) {
	d.kmu.Lock()
	defer d.kmu.Unlock()
	out := map[string]int{}
	for k, v := range d.kinds {
		out[k] = v
	}
	return out, d.cancelKind
}

// ---- reads

func (d *recDB) Has(key []byte) (bool, error) {
	d.tick("read:has")
	if err := d.readFault(); err != nil {
		return false, err
	}
	return d.inner.Has(key)
}

func (d *recDB) Get(key []byte, cb func([]byte) error) error {
	d.tick("read:get")
	if err := d.readFault(); err != nil {
		return err
	}
	return d.inner.Get(key, cb)
}

func (d *recDB) NewIterator(prefix []byte, withUpperBound bool) (db.Iterator, error) {
	d.tick("read:iterator")
	return d.inner.NewIterator(prefix, withUpperBound)
}

func (d *recDB) NewSnapshot() db.Snapshot {
	d.tick("read:snapshot")
	return d.inner.NewSnapshot()
}

// ---- direct writes

func (d *recDB) Put(key, value []byte) error {
	d.tick("direct:put")
	k, v := slices.Clone(key), slices.Clone(value)
	return d.commit("put", []wop{{opPut, k, v}}, func() error { return d.inner.Put(k, v) })
}

func (d *recDB) Delete(key []byte) error {
	d.tick("direct:delete")
	k := slices.Clone(key)
	return d.commit("delete", []wop{{opDel, k, nil}}, func() error { return d.inner.Delete(k) })
}

func (d *recDB) DeleteRange(start, end []byte) error {
	d.tick("direct:delete-range")
	s, e := slices.Clone(start), slices.Clone(end)
	return d.commit("delete-range", []wop{{opDelRange, s, e}}, func() error { return d.inner.DeleteRange(s, e) })
}

// ---- batches

type recBatch struct {
	d     *recDB
	inner db.Batch
	ops   []wop
}

func (b *recBatch) Put(key, value []byte) error {
	b.d.tick("batch:put")
	b.ops = append(b.ops, wop{opPut, slices.Clone(key), slices.Clone(value)})
	return b.inner.Put(key, value)
}

func (b *recBatch) Delete(key []byte) error {
	b.d.tick("batch:delete")
	b.ops = append(b.ops, wop{opDel, slices.Clone(key), nil})
	return b.inner.Delete(key)
}

func (b *recBatch) DeleteRange(start, end []byte) error {
	b.d.tick("batch:delete-range")
	b.ops = append(b.ops, wop{opDelRange, slices.Clone(start), slices.Clone(end)})
	return b.inner.DeleteRange(start, end)
}

func (b *recBatch) Size() int { return b.inner.Size() }

func (b *recBatch) Write() error {
	b.d.tick("commit:batch-write")
	ops := b.ops
	b.ops = nil
	return b.d.commit("batch", ops, b.inner.Write)
}

func (b *recBatch) Close() error { return b.inner.Close() }

type recIndexedBatch struct {
	recBatch
	rd db.IndexedBatch
}

func (b *recIndexedBatch) Has(key []byte) (bool, error) {
	b.d.tick("read:has")
	return b.rd.Has(key)
}

func (b *recIndexedBatch) Get(key []byte, cb func([]byte) error) error {
	b.d.tick("read:get")
	return b.rd.Get(key, cb)
}

func (b *recIndexedBatch) NewIterator(prefix []byte, withUpperBound bool) (db.Iterator, error) {
	b.d.tick("read:iterator")
	return b.rd.NewIterator(prefix, withUpperBound)
}

func (d *recDB) NewBatch() db.Batch {
	d.tick("batch:new")
	return &recBatch{d: d, inner: d.inner.NewBatch()}
}

func (d *recDB) NewBatchWithSize(n int) db.Batch {
	d.tick("batch:new")
	return &recBatch{d: d, inner: d.inner.NewBatchWithSize(n)}
}

func (d *recDB) NewIndexedBatch() db.IndexedBatch {
	d.tick("batch:new")
	ib := d.inner.NewIndexedBatch()
	return &recIndexedBatch{recBatch: recBatch{d: d, inner: ib}, rd: ib}
}

func (d *recDB) NewIndexedBatchWithSize(n int) db.IndexedBatch {
	d.tick("batch:new")
	ib := d.inner.NewIndexedBatchWithSize(n)
	return &recIndexedBatch{recBatch: recBatch{d: d, inner: ib}, rd: ib}
}

// ---- helpers of the interface

func (d *recDB) Update(fn func(db.IndexedBatch) error) error {
	b := d.NewIndexedBatch()
	if err := fn(b); err != nil {
		return err
	}
	return b.Write()
}

func (d *recDB) Write(fn func(db.Batch) error) error {
	b := d.NewBatch()
	if err := fn(b); err != nil {
		return err
	}
	return b.Write()
}

func (d *recDB) Impl() any                                        { return d.inner.Impl() }
func (d *recDB) Path() string                                     { return d.inner.Path() }
func (d *recDB) WithListener(db.EventListener) db.KeyValueStore { return d }
func (d *recDB) Close() error                                     { return nil }

var _ db.KeyValueStore = (*recDB)(nil)

// replayLog builds the crash image "process died after the first len(entries)
// commits": a copy of base with the entries applied in commit order. Range
// deletes are evaluated at commit time (pebble semantics).
func replayLog(base *memory.Database, entries []logEntry) *memory.Database {
	st := base.Copy()
	for _, e := range entries {
		for _, o := range e.ops {
			switch o.kind {
			case opPut:
				_ = st.Put(o.a, o.b)
			case opDel:
				_ = st.Delete(o.a)
			case opDelRange:
				_ = st.DeleteRange(o.a, o.b)
			}
		}
	}
	return st
}

func storeMap(st *memory.Database) map[string][]byte {
	return st.Impl().(map[string][]byte)
}

// dumpDiff compares two stores key by key; returns up to max differing keys.
func dumpDiff(a, b *memory.Database, max int) []string {
	ma, mb := storeMap(a), storeMap(b)
	var out []string
	add := func(s string) {
		if len(out) < max {
			out = append(out, s)
		}
	}
	n := 0
	for k, va := range ma {
		vb, ok := mb[k]
		if !ok {
			n++
			add("only-in-observed:" + hexKey(k))
		} else if !slices.Equal(va, vb) {
			n++
			add("value-differs:" + hexKey(k))
		}
	}
	for k := range mb {
		if _, ok := ma[k]; !ok {
			n++
			add("missing-in-observed:" + hexKey(k))
		}
	}
	if n == 0 {
		return nil
	}
	slices.Sort(out)
	return out
}

func hexKey(k string) string {
	const hexd = "0123456789abcdef"
	if len(k) > 24 {
		k = k[:24]
	}
	b := make([]byte, 0, 2*len(k))
	for i := 0; i < len(k); i++ {
		b = append(b, hexd[k[i]>>4], hexd[k[i]&15])
	}
	return string(b)
}

package vmigration

import (
	"context"
	"errors"
	"fmt"
	"slices"
	"sort"
	"strings"
	"testing"
	"time"

	"github.com/NethermindEth/juno/blockchain/networks"
	"github.com/NethermindEth/juno/db/memory"
	"github.com/NethermindEth/juno/migration"
	"github.com/NethermindEth/juno/migration/blocktransactions"
	"github.com/NethermindEth/juno/migration/statedifflength"
	"github.com/NethermindEth/juno/pruner"
	"github.com/NethermindEth/juno/utils/log"
	"github.com/NethermindEth/juno/verifh/lib"
)

// Registry of the upgrade scenario (mirrors node.registerMigrations):
//
//	slot 0  blocktransactions.Migrator   (mandatory, real)
//	slot 1  scripted marker migration    (optional "opt-a")
//	slot 2  scripted marker migration    (optional "opt-b")
//	slot 3  statedifflength.Migrator     (mandatory, real)
const (
	slotBT  = 0
	slotA   = 1
	slotB   = 2
	slotSDL = 3
	nSlots  = 4
)

type flags [2]bool

func (f flags) target() migration.SchemaVersion {
	t := migration.SchemaVersion(0b1001)
	if f[0] {
		t.Set(slotA)
	}
	if f[1] {
		t.Set(slotB)
	}
	return t
}

func (f flags) String() string { return fmt.Sprintf("opt-a=%v,opt-b=%v", f[0], f[1]) }

const optSteps = 2

func buildRegistry(f flags, rec *recDB, cl *callLog) *migration.Registry {
	beh := behaviour{FailAtStep: -1, CancelStyle: cancelStateNil}
	return migration.NewRegistry().
		With(&blocktransactions.Migrator{}).
		WithOptional(&scriptedMig{slot: slotA, steps: optSteps, beh: beh, cl: cl, rec: rec}, f[0], "opt-a").
		WithOptional(&scriptedMig{slot: slotB, steps: optSteps, beh: beh, cl: cl, rec: rec}, f[1], "opt-b").
		With(&statedifflength.Migrator{})
}

type stepOut struct {
	store      *memory.Database // store after the run (no crash applied)
	log        []logEntry
	ops        int64
	reads      int64
	kinds      map[string]int
	cancelKind string
	newErr     error
	runErr     error
	cancelled  bool
}

// runUpgrade starts a fresh "process" on a copy of pre: new migrator objects,
// NewRunner, Run. cancelAt > 0 cancels the context at the cancelAt-th database
// operation; failAt >= 0 makes every commit after the failAt-th fail.
func runUpgrade(pre *memory.Database, f flags, cancelAt int64, failAt int, failReadAt ...int64) stepOut {
	work := pre.Copy()
	rec := newRecDB(work)
	if len(failReadAt) > 0 {
		rec.failReadAt = failReadAt[0]
	}
	ctx, cancel := context.WithCancel(context.Background())
	defer cancel()
	rec.cancel, rec.cancelAt, rec.failAt = cancel, cancelAt, failAt
	out := stepOut{store: work}
	runner, err := migration.NewRunner(buildRegistry(f, rec, &callLog{}), rec, &networks.Sepolia, log.NewNopZapLogger())
	if err != nil {
		out.newErr = err
		return out
	}
	out.runErr = runner.Run(ctx)
	out.cancelled = ctx.Err() != nil
	out.log = rec.commitLog()
	out.ops = rec.opCount()
	out.reads = rec.nreads.Load()
	out.kinds, out.cancelKind = rec.opKinds()
	return out
}

// ------------------------------------------------------------------ oracles

type issue struct {
	Class  string
	Detail string
}

// imageCheck holds the invariants of ANY reachable database image (complete,
// cancelled, crashed): no block content is lost, applied bits tell the truth,
// resume state and applied bit exclude each other. It also records which blocks
// are completely migrated in this image (okNew).
func imageCheck(st *memory.Database, m *model, okNew map[uint64]bool) []issue {
	var out []issue
	mv := readMeta(st, nSlots)
	if is := metaFormatIssue(st); is != nil {
		out = append(out, *is)
	}
	if uint64(mv.Current)>>nSlots != 0 {
		out = append(out, issue{"applied-bit-for-unknown-migration", fmt.Sprintf("current=%b", uint64(mv.Current))})
	}
	for i := 0; i < nSlots; i++ {
		if _, has := mv.States[i]; has && mv.Current.Has(uint8(i)) {
			out = append(out, issue{"intermediate-state-present-with-applied-bit", fmt.Sprintf("slot %d", i)})
		}
	}
	if m.spec.Variant == "empty-database" {
		return out
	}
	btDone := mv.Current.Has(slotBT)
	if btDone && oldBucketEntries(st) != 0 {
		out = append(out, issue{"blocktransactions-marked-applied-with-old-buckets-populated", fmt.Sprintf("%d old-layout entries", oldBucketEntries(st))})
	}
	for n := m.oldest; n < uint64(len(m.blocks)); n++ {
		state, note := m.blockState(st, n)
		if state == "ok" {
			okNew[n] = true
			continue
		}
		if state == "missing" && !btDone && m.oldLayoutIntact(st, n) {
			continue // not migrated yet, old layout still complete
		}
		cls := classifyBlock(m, n, state, okNew)
		out = append(out, issue{cls, fmt.Sprintf("block %d: %s %s; old layout intact=%v", n, state, note, m.oldLayoutIntact(st, n))})
	}
	for _, ci := range m.commitmentIssues(st, mv.Current.Has(slotSDL)) {
		out = append(out, issue{"statedifflength-" + ci.Kind, fmt.Sprintf("block %d: %s", ci.Block, ci.Note)})
	}
	for _, s := range []int{slotA, slotB} {
		if mv.Current.Has(uint8(s)) && !markersPresent(st, s, optSteps) {
			out = append(out, issue{"applied-bit-set-but-migration-work-incomplete", fmt.Sprintf("slot %d", s)})
		}
	}
	return out
}

// firstTxRangeStart is the first block the block-transactions migration visits.
func (m *model) firstTxRangeStart() uint64 {
	for n := range m.txs {
		if len(m.txs[n]) > 0 {
			return uint64(n) - uint64(n)%10
		}
	}
	return uint64(len(m.txs))
}

func classifyBlock(m *model, n uint64, state string, okBefore map[uint64]bool) string {
	switch {
	case state == "blank" && okBefore[n]:
		return "blocktransactions-resume-blanks-migrated-block"
	case state == "blank":
		return "blocktransactions-block-blank"
	case state == "missing" && len(m.txs[n]) == 0 && n < m.firstTxRangeStart():
		return "blocktransactions-empty-block-below-first-transaction-range-has-no-entry"
	case state == "missing" && len(m.txs[n]) == 0:
		return "blocktransactions-empty-block-left-without-entry-by-interrupted-run"
	case state == "missing":
		return "blocktransactions-block-missing"
	default:
		return "blocktransactions-block-" + state
	}
}

// finalCheck: the upgrade ran to completion; everything must be there.
func finalCheck(st *memory.Database, m *model, f flags, runErr error, baseline *memory.Database, okBefore map[uint64]bool) []issue {
	var out []issue
	if runErr != nil {
		return []issue{{"upgrade-rerun-fails:" + normErr(runErr), runErr.Error()}}
	}
	mv := readMeta(st, nSlots)
	if mv.Current != f.target() {
		out = append(out, issue{"completed-run-leaves-unapplied-target", fmt.Sprintf("current=%04b target=%04b", uint64(mv.Current), uint64(f.target()))})
	}
	if mv.Last != f.target() {
		out = append(out, issue{"last-target-not-recorded", fmt.Sprintf("last=%04b target=%04b", uint64(mv.Last), uint64(f.target()))})
	}
	if len(mv.States) != 0 {
		out = append(out, issue{"intermediate-state-left-after-completion", fmt.Sprint(mv.States)})
	}
	if m.spec.Variant != "empty-database" {
		if e := oldBucketEntries(st); e != 0 {
			out = append(out, issue{"blocktransactions-old-buckets-not-cleared", fmt.Sprintf("%d entries", e)})
		}
		perClass := map[string][]uint64{}
		for n := m.oldest; n < uint64(len(m.blocks)); n++ {
			state, _ := m.blockState(st, n)
			if state == "ok" {
				continue
			}
			cls := classifyBlock(m, n, state, okBefore)
			perClass[cls] = append(perClass[cls], n)
		}
		for cls, ns := range perClass {
			out = append(out, issue{cls, fmt.Sprintf("%d of %d blocks: %v", len(ns), len(m.blocks), trunc(ns, 12))})
		}
		for _, ci := range m.commitmentIssues(st, true) {
			out = append(out, issue{"statedifflength-" + ci.Kind, fmt.Sprintf("block %d: %s", ci.Block, ci.Note)})
		}
	}
	if len(out) == 0 && baseline != nil {
		if d := dumpDiff(st, baseline, 6); d != nil {
			out = append(out, issue{"final-database-differs-from-uninterrupted-upgrade", strings.Join(d, " ")})
		}
	}
	sort.Slice(out, func(i, j int) bool { return out[i].Class < out[j].Class })
	return out
}

func trunc(ns []uint64, k int) []uint64 {
	if len(ns) > k {
		return ns[:k]
	}
	return ns
}

func normErr(err error) string {
	s := err.Error()
	// strip numbers so that the class names the failure, not the block
	var b strings.Builder
	for _, c := range s {
		if c >= '0' && c <= '9' {
			continue
		}
		b.WriteRune(c)
	}
	s = b.String()
	if len(s) > 90 {
		s = s[:90]
	}
	return strings.ReplaceAll(strings.TrimSpace(s), " ", "-")
}

// ------------------------------------------------------------------ one database, all interruption plans

type planStep struct {
	Kind     string // "crash" | "cancel" | "write-error" | "cancel+crash" | "read-error"
	FailReadAt int64
	CancelAt int64
	FailAt   int
	CrashAt  int // commits surviving (crash kinds)
	Flags    string
	Note     string
}

type planWitness struct {
	Database string
	Steps    []planStep
	Final    string
	Issues   []issue
}

type dbCase struct {
	r        *lib.Run
	idx      int
	m        *model
	pre      *memory.Database
	base     map[flags]*memory.Database
	reported map[string]int
}

func (c *dbCase) baseline(f flags) *memory.Database {
	if b, ok := c.base[f]; ok {
		return b
	}
	o := runUpgrade(c.pre, f, 0, -1)
	if o.newErr != nil || o.runErr != nil {
		c.base[f] = nil
		return nil
	}
	c.base[f] = o.store
	return o.store
}

func (c *dbCase) report(steps []planStep, final string, iss []issue) {
	seen := map[string]bool{}
	for _, is := range iss {
		if seen[is.Class] {
			continue
		}
		seen[is.Class] = true
		c.reported[is.Class]++
		if c.reported[is.Class] > 1 {
			continue // one witness per class and database; the rest is counted
		}
		var mine []issue
		for _, j := range iss {
			if j.Class == is.Class && len(mine) < 6 {
				mine = append(mine, j)
			}
		}
		c.r.Violation(is.Class, c.idx, fmt.Sprintf("%s | plan %s | %s", c.m.spec, fmtPlan(steps), is.Detail),
			planWitness{Database: c.m.spec.String(), Steps: steps, Final: final, Issues: mine})
	}
}

func fmtPlan(steps []planStep) string {
	if len(steps) == 0 {
		return "uninterrupted"
	}
	var parts []string
	for _, s := range steps {
		switch s.Kind {
		case "crash":
			parts = append(parts, fmt.Sprintf("crash-after-commit-%d", s.CrashAt))
		case "cancel":
			parts = append(parts, fmt.Sprintf("cancel-at-op-%d", s.CancelAt))
		case "write-error":
			parts = append(parts, fmt.Sprintf("writes-fail-after-commit-%d", s.FailAt))
		case "read-error":
			parts = append(parts, fmt.Sprintf("point-read-%d-fails", s.FailReadAt))
		default:
			parts = append(parts, fmt.Sprintf("cancel-at-op-%d+crash-after-commit-%d", s.CancelAt, s.CrashAt))
		}
	}
	return strings.Join(parts, " -> ") + " -> clean run"
}

// finish runs the clean final run on image and applies the final oracle.
func (c *dbCase) finish(image *memory.Database, f flags, steps []planStep, okBefore map[uint64]bool) {
	o := runUpgrade(image, f, 0, -1)
	c.r.Eval(1)
	c.r.Count("upgrade.final-clean-runs", 1)
	if o.newErr != nil {
		c.report(steps, f.String(), []issue{{"newrunner-refuses-own-interrupted-database", o.newErr.Error()}})
		return
	}
	base := c.baseline(f)
	iss := finalCheck(o.store, c.m, f, o.runErr, base, okBefore)
	c.r.Count("upgrade.blocks-verified-through-current-accessors", len(c.m.blocks)-int(c.m.oldest))
	if len(iss) > 0 {
		c.report(steps, f.String(), iss)
	}
	// running again on the finished database must be a no-op
	if len(iss) == 0 && len(steps) > 0 && steps[0].CrashAt%5 == 0 {
		o2 := runUpgrade(o.store, f, 0, -1)
		if o2.newErr != nil || o2.runErr != nil {
			c.report(steps, f.String(), []issue{{"rerun-on-finished-database-fails", fmt.Sprint(o2.newErr, o2.runErr)}})
		} else if d := dumpDiff(o2.store, o.store, 4); d != nil {
			c.report(steps, f.String(), []issue{{"rerun-on-finished-database-changes-it", strings.Join(d, " ")}})
		}
		c.r.Count("upgrade.idempotence-reruns", 1)
	}
}

// interrupt performs one interrupted run on image and returns the surviving image.
func (c *dbCase) interrupt(image *memory.Database, f flags, st *planStep, okNew map[uint64]bool, steps []planStep) (*memory.Database, bool) {
	o := runUpgrade(image, f, st.CancelAt, st.FailAt, st.FailReadAt)
	c.r.Eval(1)
	if o.newErr != nil {
		if st.Kind == "read-error" && errors.Is(o.newErr, errInjectedRead) {
			return image, true // the failing read hit NewRunner: nothing was started
		}
		c.report(steps, f.String(), []issue{{"newrunner-refuses-own-interrupted-database", o.newErr.Error()}})
		return nil, false
	}
	after := o.store
	if st.CancelAt > 0 {
		c.r.Count("upgrade.cancelled-runs", 1)
		if o.cancelKind != "" {
			c.r.Count("upgrade.cancel-landed-on:"+o.cancelKind, 1)
		} else {
			c.r.Count("upgrade.cancel-point-beyond-run", 1)
		}
	}
	switch st.Kind {
	case "cancel":
		if o.cancelled && o.runErr != nil && !errors.Is(o.runErr, context.Canceled) {
			c.report(steps, f.String(), []issue{{"cancelled-run-fails-with-foreign-error:" + normErr(o.runErr), o.runErr.Error()}})
		}
		if !o.cancelled && o.runErr != nil {
			c.report(steps, f.String(), []issue{{"upgrade-run-fails:" + normErr(o.runErr), o.runErr.Error()}})
		}
	case "read-error":
		// one point read fails (an I/O error that goes away): the run may fail or cope, and whatever it
		// committed before returning is what the next start finds
		c.r.Count("upgrade.read-error-runs", 1)
		if o.runErr != nil {
			c.r.Count("upgrade.read-error-runs-that-failed", 1)
		}
		if o.runErr == nil && readMeta(after, nSlots).Current != f.target() {
			c.report(steps, f.String(), []issue{{"run-returns-nil-without-completing-after-a-read-error", ""}})
		}
		st.Note = fmt.Sprintf("run error: %v", o.runErr)
	case "write-error":
		c.r.Count("upgrade.write-error-runs", 1)
		if len(o.log) > st.FailAt {
			panic("harness: commit beyond the failure point")
		}
		if o.runErr == nil && len(o.log) == st.FailAt && readMeta(after, nSlots).Current != f.target() {
			c.report(steps, f.String(), []issue{{"run-returns-nil-although-writes-failed", ""}})
		}
		st.Note = fmt.Sprintf("run error: %v", o.runErr)
	}
	if strings.HasSuffix(st.Kind, "crash") {
		k := st.CrashAt
		if k > len(o.log) {
			k = len(o.log)
			st.CrashAt = k
		}
		after = replayLog(image, o.log[:k])
		c.r.Count("upgrade.crash-images", 1)
	}
	iss := imageCheck(after, c.m, okNew)
	c.r.Count("upgrade.images-checked", 1)
	if len(iss) > 0 {
		c.report(steps, "(image after the interrupted run)", iss)
	}
	return after, true
}

// upgradeCase: work item idx = (database idx/4, section idx%4). Every section
// regenerates the same database, records its own uninterrupted upgrade and then
// handles one group of interruption plans:
//
//	section 0  crash image after EVERY commit of the recorded execution (exhaustive), one restart
//	section 1  cancellation at the k-th database operation; failing writes; one restart
//	section 2,3  chains of 2..4 interruptions, optional migrations switched on along the way
func upgradeCase(r *lib.Run, idx int) {
	dbIdx, sec := idx/upgradeSections, idx%upgradeSections
	rng := lib.Rng("C18/upgrade", uint64(dbIdx))
	spec := genSpec(rng)
	blocks := genChain(rng, &spec)
	pre, m := buildPreImage(spec, blocks)
	c := &dbCase{r: r, idx: idx, m: m, pre: pre, base: map[flags]*memory.Database{}, reported: map[string]int{}}
	f0 := flags{}
	if rng.IntN(2) == 0 {
		f0 = flags{rng.IntN(2) == 0, rng.IntN(2) == 0}
	}
	rng = lib.Rng("C18/plans", uint64(idx))
	if sec == 0 {
		r.Count("db.databases", 1)
		r.Count("db.variant:"+spec.Variant, 1)
		r.Count("db.blocks", spec.Blocks)
		r.Count("db.empty-blocks", spec.EmptyBlocks)
		r.Count("db.transactions", spec.TxTotal)
		if spec.LeadingEmpty > 0 {
			r.Count("db.with-leading-empty-blocks", 1)
		}
		if spec.Variant == "empty-database" {
			r.Count("db.trivial", 1)
		}
		for _, b := range blocks {
			for _, tx := range b.Txs {
				r.Count("db.tx-kind:"+fmt.Sprintf("%T", tx)[6:], 1)
			}
			for _, rc := range b.Receipts {
				r.Count("db.events", len(rc.Events))
			}
		}
	}

	// sanity of the pre-image itself
	if iss := imageCheck(pre, m, map[uint64]bool{}); len(iss) > 0 {
		panic(fmt.Sprintf("harness: generated pre-upgrade database violates the image invariants: %v", iss))
	}

	// ---- uninterrupted upgrade, recorded
	base := runUpgrade(pre, f0, 0, -1)
	r.Eval(1)
	if base.newErr != nil {
		c.report(nil, f0.String(), []issue{{"newrunner-refuses-pre-upgrade-database", base.newErr.Error()}})
		return
	}
	if base.runErr != nil {
		c.report(nil, f0.String(), []issue{{"upgrade-run-fails:" + normErr(base.runErr), base.runErr.Error()}})
		return
	}
	c.base[f0] = base.store
	if d := dumpDiff(replayLog(pre, base.log), base.store, 4); d != nil {
		panic(fmt.Sprintf("harness: replay of the commit log does not reproduce the store: %v", d))
	}
	if iss := finalCheck(base.store, m, f0, nil, nil, map[uint64]bool{}); len(iss) > 0 {
		c.report(nil, f0.String(), iss)
	}
	r.Count("upgrade.uninterrupted-runs", 1)
	shape := fmt.Sprintf("%s|b%d|le%d|p%d|%s", spec.Variant, spec.Blocks, spec.LeadingEmpty, spec.PrunedTo, f0)
	var points []int64

	switch sec {
	case 0:
		r.Case(shape + "|uninterrupted")
		r.Count("upgrade.commit-log-entries", len(base.log))
		r.Count("upgrade.db-operations", int(base.ops))
		for k, v := range base.kinds {
			r.Count("upgrade.op:"+k, v)
		}
		// crash after every commit of the recorded execution, one restart
		for k := 0; k <= len(base.log); k++ {
			image := replayLog(pre, base.log[:k])
			okNew := map[uint64]bool{}
			steps := []planStep{{Kind: "crash", CrashAt: k, FailAt: -1, Flags: f0.String()}}
			if k < len(base.log) {
				steps[0].Note = "next commit would have been a " + base.log[k].kind
			}
			iss := imageCheck(image, m, okNew)
			r.Eval(1)
			r.Count("upgrade.crash-images", 1)
			r.Count("upgrade.images-checked", 1)
			if len(iss) > 0 {
				c.report(steps, "(crash image)", iss)
			}
			c.finish(image, f0, steps, okNew)
			r.Case(fmt.Sprintf("%s|crash|%d/%d", shape, k, len(base.log)))
			r.Count("upgrade.plans:1-restart", 1)
		}

	case 1:
		// cancellation observed at the k-th database operation, one restart
		points = []int64{1, 2, 3, base.ops, base.ops - 1}
		for i := 0; i < 9 && base.ops > 4; i++ {
			points = append(points, 1+rng.Int64N(base.ops))
		}
		slices.Sort(points)
		points = slices.Compact(points)
		for _, k := range points {
			if k < 1 {
				continue
			}
			steps := []planStep{{Kind: "cancel", CancelAt: k, FailAt: -1, Flags: f0.String()}}
			okNew := map[uint64]bool{}
			image, ok := c.interrupt(pre, f0, &steps[0], okNew, steps)
			if !ok {
				continue
			}
			c.finish(image, f0, steps, okNew)
			r.Case(fmt.Sprintf("%s|cancel|%d/%d", shape, k, base.ops))
			r.Count("upgrade.plans:1-restart", 1)
		}
		// the retention floor moves between two starts: a start is cancelled while the state-diff-length
		// backfill is under way (its checkpoint is saved), and before the backfill resumes block data below
		// a cutoff ABOVE that checkpoint is pruned - what the history-pruner migration does when the next
		// start enables pruning (it is registered ahead of the backfill). Here its effect is produced with
		// the real pruner.PruneUpto on the interrupted image. The resumed upgrade must complete and every
		// retained block must be intact.
		if len(c.m.blocks) >= 4 {
			tried := 0
			for _, k := range points {
				if k < 1 || tried >= 3 {
					continue
				}
				steps := []planStep{{Kind: "cancel", CancelAt: k, FailAt: -1, Flags: f0.String()}}
				okNew := map[uint64]bool{}
				o := runUpgrade(pre, f0, k, -1)
				if o.newErr != nil || !o.cancelled {
					continue
				}
				mv := readMeta(o.store, nSlots)
				if !mv.Current.Has(0) || mv.Current.Has(3) {
					continue // the transaction-layout migration must be complete (the pruner reads the new layout), the backfill not
				}
				tried++
				hi := uint64(len(c.m.blocks) - 1)
				if hi <= c.m.oldest+1 {
					continue
				}
				cut := c.m.oldest + 1 + rng.Uint64N(hi-c.m.oldest-1)
				image := o.store.Copy()
				if _, _, err := pruner.PruneUpto(context.Background(), image, cut, 1<<20); err != nil {
					r.Inconclusive("prune-between-starts-failed")
					continue
				}
				steps = append(steps, planStep{Kind: "prune-between-starts", FailAt: -1, Flags: f0.String(), Note: fmt.Sprintf("pruner.PruneUpto(%d) on the interrupted database (backfill checkpoint state: %x)", cut, mv.States[3])})
				saved := c.m.oldest
				c.m.oldest = cut
				fin := runUpgrade(image, f0, 0, -1)
				r.Eval(1)
				r.Count("upgrade.plans:backfill-cancelled-then-pruned-above-its-checkpoint", 1)
				switch {
				case fin.newErr != nil:
					c.report(steps, f0.String(), []issue{{"newrunner-refuses-own-interrupted-database", fin.newErr.Error()}})
				default:
					if iss := finalCheck(fin.store, c.m, f0, fin.runErr, nil, okNew); len(iss) > 0 {
						for i := range iss {
							iss[i].Class = "after-prune-between-starts:" + iss[i].Class
						}
						c.report(steps, f0.String(), iss)
					}
				}
				c.m.oldest = saved
				r.Case(fmt.Sprintf("%s|cancel-prune|%d/%d|cut%d", shape, k, base.ops, cut))
			}
		}
		// one failing point read
		for i := 0; i < 6 && base.reads > 0; i++ {
			k := 1 + rng.Int64N(base.reads)
			steps := []planStep{{Kind: "read-error", FailReadAt: k, FailAt: -1, Flags: f0.String()}}
			okNew := map[uint64]bool{}
			image, ok := c.interrupt(pre, f0, &steps[0], okNew, steps)
			if !ok {
				continue
			}
			c.finish(image, f0, steps, okNew)
			r.Case(fmt.Sprintf("%s|read-error|%d/%d", shape, k, base.reads))
			r.Count("upgrade.plans:1-restart", 1)
		}
		// write failures (the k-th and every later commit fails)
		for i := 0; i < 3 && len(base.log) > 0; i++ {
			k := rng.IntN(len(base.log))
			steps := []planStep{{Kind: "write-error", FailAt: k, Flags: f0.String()}}
			okNew := map[uint64]bool{}
			image, ok := c.interrupt(pre, f0, &steps[0], okNew, steps)
			if !ok {
				continue
			}
			c.finish(image, f0, steps, okNew)
			r.Case(fmt.Sprintf("%s|write-error|%d", shape, k))
			r.Count("upgrade.plans:1-restart", 1)
		}

	default:
		// 2..4 restarts, mixed interruptions, optional migrations switched on along the way
		for p := 0; p < 4; p++ {
			nint := 2 + rng.IntN(3)
			f := f0
			image := pre
			okNew := map[uint64]bool{}
			var steps []planStep
			okPlan := true
			for s := 0; s < nint && okPlan; s++ {
				if rng.IntN(3) == 0 {
					f[rng.IntN(2)] = true
				}
				st := planStep{Kind: []string{"crash", "crash", "cancel", "cancel+crash", "write-error", "read-error"}[rng.IntN(6)], FailAt: -1, Flags: f.String()}
				switch st.Kind {
				case "read-error":
					st.FailReadAt = 1 + rng.Int64N(max(base.reads, 1))
				case "crash":
					st.CrashAt = rng.IntN(len(base.log) + 1)
				case "cancel":
					st.CancelAt = 1 + rng.Int64N(max(base.ops, 1))
				case "cancel+crash":
					st.CancelAt = 1 + rng.Int64N(max(base.ops, 1))
					st.CrashAt = rng.IntN(len(base.log) + 1)
				case "write-error":
					st.FailAt = rng.IntN(len(base.log) + 1)
				}
				steps = append(steps, st)
				image, okPlan = c.interrupt(image, f, &steps[len(steps)-1], okNew, steps)
			}
			if !okPlan {
				continue
			}
			c.finish(image, f, steps, okNew)
			kinds := ""
			for _, s := range steps {
				kinds += s.Kind + ">"
			}
			r.Case(fmt.Sprintf("%s|multi|%s|%s", shape, kinds, f))
			r.Count(fmt.Sprintf("upgrade.plans:%d-restarts", nint), 1)
		}
	}
	for cls, n := range c.reported {
		r.Count("upgrade.plans-violating:"+cls, n)
	}
	if dbIdx < 1 && sec < 3 {
		r.Sample(map[string]any{
			"part": "upgrade fault enumeration", "case": idx, "database": spec.String(), "section": sec, "optional_flags": f0.String(),
			"commit_log_of_uninterrupted_run": logKinds(base.log), "db_operations": base.ops,
			"crash_points": len(base.log) + 1, "cancel_points": points, "violating_plans_by_class": c.reported,
		})
	}
}

const upgradeSections = 4

func logKinds(l []logEntry) []string {
	var out []string
	for _, e := range l {
		out = append(out, fmt.Sprintf("%s(%d ops)", e.kind, len(e.ops)))
	}
	return out
}


func TestC18(t *testing.T) {
	r := lib.Start("C18", "fault_enumeration")
	n := r.N(56, 1000)
	t0 := time.Now()
	r.Cases(n*upgradeSections, 0, func(idx int) { upgradeCase(r, idx) })
	t1 := time.Now()
	nr := r.N(1600, 40000)
	r.Cases(nr, 0, func(idx int) { runnerLineage(r, idx) })
	t2 := time.Now()
	r.Cases(legacyBase+r.N(24, 400), 0, func(idx int) {
		if idx >= legacyBase {
			legacyLineage(r, idx-legacyBase)
		}
	})
	if !r.Skip(-1) {
		refusalMatrix(r)
	}
	r.Note(fmt.Sprintf("wall (informative only): upgrade part %.1fs, runner lineages %.1fs, refusal matrix %.1fs", t1.Sub(t0).Seconds(), t2.Sub(t1).Seconds(), time.Since(t2).Seconds()))
	r.Assume("the in-memory backend (db/memory) stands in for pebble: a batch Write is atomic, range deletes inside a batch take effect at commit; crash images are prefixes of the recorded commit log (no torn batches, no reordering of commits)")
	r.Assume("transaction/receipt content is hand-built and unverified (the migrations never verify hashes); 'original content' = what the old per-transaction layout accessors return for the generated blocks")
	r.Assume("a pruned prefix is only generated for databases whose transactions are already in the combined layout (pruning is registered after the block-transactions migration, so an old-layout database cannot have been pruned)")
	r.Finish("case = generated pre-upgrade database (0..60 blocks, 10 transaction kinds, receipts with events/messages/reverts, empty blocks, leading empty blocks, "+
		"optionally already tx-migrated + pruned by the real pruner) upgraded by the real migration.NewRunner/Run with blocktransactions + 2 optional scripted + statedifflength migrators; "+
		"faults: crash image after EVERY commit of the recorded uninterrupted execution, cancellation at the k-th db operation, failing writes, 2-4 chained restarts with optional migrations switched on; "+
		"oracle per image: every block readable with its exact original content through the current accessors or still complete in the old layout, applied bits truthful, state/bit exclusive; "+
		"oracle after the final clean run: all accessors/lookups equal the original content for every retained block, state-diff lengths back-filled, old buckets empty, bookkeeping complete, kv dump equal to the uninterrupted upgrade. "+
		"Plus scripted-migration lineages (1..5 slots, binaries growing/shrinking, opt-in/opt-out, live yield, failures, 4 ways of reporting cancellation, crash/cancel/write-error) checked against the runner contract, "+
		"and the exhaustive NewRunner accept/refuse matrix over all registries of 1..5 slots x all stored (current ⊆ last-target) bitsets. distinct = (database shape, interruption plan) / lineage shapes / registries", 300)
}

package vmigration

// The legacy migration runner (migration/deprecated, the first thing node/migration.go runs on
// every start) with its last two migrations: a database left by a release that predates them
// (legacy schema version 20) is upgraded by the real deprecated.MigrateIfNeeded under
// cancellation and process deaths, restarted until it completes, and compared with the
// (each process lifetime gets fresh migrator objects through an export added by the build overlay)
// uninterrupted upgrade of the same database: same key/value dump, legacy schema version
// complete with no leftover intermediate state, and every L1-handler transaction of every block
// resolvable by its message hash through the current accessor.
//
// Death points: a first start is cancelled at a random database operation (so that a migration
// leaves a checkpoint); on the image it leaves, a second process is run once per committed write
// k of the undisturbed continuation and dies right after its k-th commit (EVERY k); a last start
// on each image runs undisturbed.

import (
	"context"
	"errors"
	"fmt"
	"math/rand/v2"

	"github.com/NethermindEth/juno/blockchain/networks"
	"github.com/NethermindEth/juno/core"
	"github.com/NethermindEth/juno/core/felt"
	"github.com/NethermindEth/juno/db"
	"github.com/NethermindEth/juno/db/memory"
	"github.com/NethermindEth/juno/migration/deprecated" //nolint:staticcheck
	"github.com/NethermindEth/juno/utils/log"
	"github.com/NethermindEth/juno/verifh/lib"
)

const legacyBase = 200_000

// legacyPreImage: an old-layout database as a release before the last two legacy migrations left
// it: no message-hash lookups yet, legacy schema version 20.
func legacyPreImage(rng *rand.Rand) (*memory.Database, *model, dbSpec) {
	s := dbSpec{Variant: "old-tx-layout", Blocks: 12 + rng.IntN(50)}
	if rng.IntN(3) == 0 {
		s.LeadingEmpty = 1 + rng.IntN(10)
	}
	blocks := genChain(rng, &s)
	for i := range blocks {
		// the class-hash metadata migration reads class definitions for declared Sierra classes;
		// the generated databases carry none
		blocks[i].Update.StateDiff.DeclaredV1Classes = map[felt.Felt]*felt.Felt{}
		blocks[i].Update.StateDiff.MigratedClasses = nil
	}
	st, m := buildPreImage(s, blocks)
	must(st.DeleteRange(db.L1HandlerTxnHashByMsgHash.Key(), db.L1HandlerTxnHashByMsgHash.Key([]byte{0xff, 0xff, 0xff, 0xff, 0xff, 0xff, 0xff, 0xff, 0xff, 0xff, 0xff, 0xff, 0xff, 0xff, 0xff, 0xff, 0xff, 0xff, 0xff, 0xff, 0xff, 0xff, 0xff, 0xff, 0xff, 0xff, 0xff, 0xff, 0xff, 0xff, 0xff, 0xff, 0xff})))
	must(st.Put(db.DeprecatedSchemaVersion.Key(), []byte{0, 0, 0, 0, 0, 0, 0, 20}))
	return st, m, s
}

type legacyOut struct {
	err       error
	cancelled bool
	commits   int
	ops       int64
}

// legacyStart runs one process lifetime of the legacy runner on work (modified in place).
// cancelAt > 0: the context is cancelled at that database operation; dieAfter >= 0: every write
// after the dieAfter-th committed one fails (the process is dead).
func legacyStart(work *memory.Database, cancelAt int64, dieAfter int) legacyOut {
	rec := newRecDB(work)
	ctx, cancel := context.WithCancel(context.Background())
	defer cancel()
	rec.cancel, rec.cancelAt, rec.failAt = cancel, cancelAt, dieAfter
	err := deprecated.VerifMigrateIfNeededFreshProcess(ctx, rec, &networks.Sepolia, log.NewNopZapLogger())
	return legacyOut{err: err, cancelled: ctx.Err() != nil, commits: len(rec.commitLog()), ops: rec.opCount()}
}

func legacyIssues(st *memory.Database, m *model, wantVersion uint64) []string {
	var out []string
	meta, err := deprecated.SchemaMetadata(log.NewNopZapLogger(), st)
	if err != nil {
		return []string{"schema metadata unreadable: " + err.Error()}
	}
	if meta.Version != wantVersion {
		out = append(out, fmt.Sprintf("legacy schema version %d, the uninterrupted upgrade ends at %d", meta.Version, wantVersion))
	}
	if len(meta.IntermediateState) != 0 {
		out = append(out, fmt.Sprintf("intermediate state left behind after completion (%d bytes)", len(meta.IntermediateState)))
	}
	missing, wrong := 0, 0
	first := ""
	for n, txs := range m.txs {
		for i, tx := range txs {
			l1, ok := tx.(*core.L1HandlerTransaction)
			if !ok {
				continue
			}
			h, err := core.GetL1HandlerTxnHashByMsgHash(st, l1.MessageHash())
			switch {
			case err != nil:
				missing++
				if first == "" {
					first = fmt.Sprintf("block %d tx %d: %v", n, i, err)
				}
			case !h.Equal(tx.Hash()):
				wrong++
				if first == "" {
					first = fmt.Sprintf("block %d tx %d: resolves to %s", n, i, h.String())
				}
			}
		}
	}
	if missing+wrong > 0 {
		out = append(out, fmt.Sprintf("message-hash lookups after the upgrade: %d missing, %d wrong (first: %s)", missing, wrong, first))
	}
	return out
}

func legacyLineage(r *lib.Run, idx int) {
	rng := lib.Rng("C18/legacy", uint64(idx))
	pre, m, spec := legacyPreImage(rng)
	l1txs := 0
	for _, txs := range m.txs {
		for _, tx := range txs {
			if _, ok := tx.(*core.L1HandlerTransaction); ok {
				l1txs++
			}
		}
	}
	report := func(class, brief string, extra map[string]any) {
		w := map[string]any{"database": spec.String(), "l1_handler_transactions": l1txs}
		for k, v := range extra {
			w[k] = v
		}
		r.Violation(class, legacyBase+idx, "legacy runner: "+brief, w)
	}
	// reference: the uninterrupted upgrade
	ref := pre.Copy()
	ro := legacyStart(ref, 0, -1)
	r.Eval(1)
	if ro.err != nil {
		report("legacy-runner:uninterrupted-upgrade-fails", ro.err.Error(), nil)
		return
	}
	meta, err := deprecated.SchemaMetadata(log.NewNopZapLogger(), ref)
	if err != nil || meta.Version <= 20 {
		report("legacy-runner:uninterrupted-upgrade-did-not-advance", fmt.Sprintf("version %d err %v", meta.Version, err), nil)
		return
	}
	if is := legacyIssues(ref, m, meta.Version); len(is) > 0 {
		report("legacy-runner:uninterrupted-upgrade-incomplete", is[0], map[string]any{"issues": is})
		return
	}
	// first start: cancelled somewhere
	cancelAt := 1 + rng.Int64N(max(ro.ops, 2))
	img := pre.Copy()
	o1 := legacyStart(img, cancelAt, -1)
	if o1.err != nil && !errors.Is(o1.err, context.Canceled) {
		report("legacy-runner:cancelled-start-fails-with-another-error", o1.err.Error(), map[string]any{"cancel_at_op": cancelAt})
		return
	}
	r.Count("legacy.first_starts_cancelled", 1)
	// undisturbed continuation, to count its commits
	cont := img.Copy()
	oc := legacyStart(cont, 0, -1)
	if oc.err != nil {
		report("legacy-runner:resume-after-cancellation-fails", oc.err.Error(), map[string]any{"cancel_at_op": cancelAt})
		return
	}
	check := func(st *memory.Database, plan string) bool {
		r.Eval(1)
		is := legacyIssues(st, m, meta.Version)
		if len(is) == 0 {
			if d := dumpDiff(ref, st, 4); len(d) > 0 {
				is = append(is, "key/value dump differs from the uninterrupted upgrade: "+fmt.Sprint(d))
			}
		}
		if len(is) > 0 {
			cls := "legacy-runner:final-database-differs"
			if len(is[0]) > 20 && is[0][:20] == "message-hash lookups" {
				cls = "legacy-runner:lookups-missing-after-completed-upgrade"
			}
			report(cls, plan+": "+is[0], map[string]any{"plan": plan, "issues": is, "cancel_at_op": cancelAt})
			return false
		}
		return true
	}
	if !check(cont, "cancelled start, undisturbed restart") {
		return
	}
	// second process dies right after its k-th commit, for every k; third start undisturbed
	for k := 0; k <= oc.commits; k++ {
		dead := img.Copy()
		legacyStart(dead, 0, k)
		r.Count("legacy.death_points", 1)
		of := legacyStart(dead, 0, -1)
		if of.err != nil {
			report("legacy-runner:restart-after-process-death-fails", fmt.Sprintf("death after commit %d of %d: %v", k, oc.commits, of.err), map[string]any{"cancel_at_op": cancelAt, "death_after_commit": k})
			return
		}
		if !check(dead, fmt.Sprintf("cancelled start, second start dies after its commit %d of %d, third start undisturbed", k, oc.commits)) {
			return
		}
	}
	r.Count("legacy.lineages", 1)
	r.Case(fmt.Sprintf("legacy|%s|l1=%d|cancel@%d|commits=%d", spec.String(), l1txs, cancelAt, oc.commits))
}

package vjsonrpc

import (
	"fmt"
	"math/rand/v2"
	"strconv"
	"strings"
)

// gen is the grammar-based input generator. All randomness comes from rng.
type gen struct {
	rng    *rand.Rand
	prefix string
	n      int
	ids    []string // ids already used in this input (for deliberate duplicates)
	feats  map[string]int
}

func newGen(rng *rand.Rand, prefix string) *gen {
	return &gen{rng: rng, prefix: prefix, feats: map[string]int{}}
}

func (g *gen) feat(s string)      { g.feats[s]++ }
func (g *gen) p(pct int) bool     { return g.rng.IntN(100) < pct }
func (g *gen) pick(n int) int     { return g.rng.IntN(n) }
func pickS[T any](g *gen, s []T) T { return s[g.rng.IntN(len(s))] }

func (g *gen) ws() string {
	if g.p(75) {
		return ""
	}
	opts := []string{" ", "\n", "\t", "\r", "  ", " \n\t", "\r\n"}
	return pickS(g, opts)
}

func (g *gen) tagRaw() string {
	g.n++
	return g.prefix + strconv.Itoa(g.n)
}

// strLit renders a JSON string literal for s, sometimes with escapes.
func (g *gen) strLit(s string) string {
	if g.p(85) {
		return strconv.Quote(s)
	}
	var sb strings.Builder
	sb.WriteByte('"')
	for _, c := range s {
		if c < 0x80 && g.p(30) {
			fmt.Fprintf(&sb, `\u%04x`, c)
		} else if c == '"' || c == '\\' {
			sb.WriteByte('\\')
			sb.WriteRune(c)
		} else {
			sb.WriteRune(c)
		}
	}
	sb.WriteByte('"')
	return sb.String()
}

var weirdSuffix = []string{"", "", "", "", "é", "日本", `\n`, `\"q\"`, `\\`, `😀`, `\ud800`, "<a&b>", " ", "\xff\xfe", `\u0000`, " "}

// tagLit = unique tag as a JSON string literal, sometimes with hostile characters.
func (g *gen) tagLit() string {
	t := g.tagRaw()
	if g.p(80) {
		return g.strLit(t)
	}
	return `"` + t + pickS(g, weirdSuffix) + `"`
}

func (g *gen) intLit() string {
	switch g.pick(12) {
	case 0:
		return "0"
	case 1:
		return "-0"
	case 2:
		return "9223372036854775807"
	case 3:
		return "-9223372036854775808"
	case 4:
		return strconv.FormatInt(g.rng.Int64(), 10)
	case 5:
		return "-" + strconv.Itoa(g.pick(1000))
	default:
		return strconv.Itoa(g.pick(100000))
	}
}

func (g *gen) structLit(validA bool) string {
	a := strconv.Itoa(1 + g.pick(1000))
	if !validA {
		a = pickS(g, []string{"0", "-5", "-0"})
	}
	switch g.pick(4) {
	case 0:
		return `{"A":` + a + `}`
	case 1:
		return `{"A":` + g.ws() + a + `,"B":` + g.strLit("b"+strconv.Itoa(g.pick(100))) + `}`
	case 2:
		return `{"B":"x",` + g.ws() + `"A":` + a + `}`
	default:
		return `{ "A" : ` + a + ` }`
	}
}

func (g *gen) anyLit(depth int) string {
	k := g.pick(10)
	if depth <= 0 && k >= 7 {
		k = g.pick(7)
	}
	switch k {
	case 0:
		return "null"
	case 1:
		return pickS(g, []string{"true", "false"})
	case 2:
		return strconv.Itoa(g.pick(1 << 30))
	case 3:
		return pickS(g, []string{"1.5", "-2.25e-3", "1e3", "0.1", "9007199254740992", "-1E+2", "1e308", "5e-324", "123456.789"})
	case 4, 5:
		return `"` + "s" + strconv.Itoa(g.pick(1000)) + pickS(g, weirdSuffix) + `"`
	case 6:
		return pickS(g, []string{"[]", "{}", `""`})
	case 7, 8:
		n := g.pick(4)
		parts := make([]string, n)
		for i := range parts {
			parts[i] = g.anyLit(depth - 1)
		}
		return "[" + strings.Join(parts, ","+g.ws()) + "]"
	default:
		n := g.pick(4)
		parts := make([]string, n)
		for i := range parts {
			parts[i] = `"k` + strconv.Itoa(i) + `":` + g.anyLit(depth-1)
		}
		return "{" + strings.Join(parts, ",") + "}"
	}
}

func (g *gen) validVal(k pkind) string {
	switch k {
	case kString:
		return g.tagLit()
	case kPtrString:
		if g.p(15) {
			return "null"
		}
		return g.tagLit()
	case kInt:
		return g.intLit()
	case kPtrInt:
		if g.p(25) {
			return "null"
		}
		return g.intLit()
	case kBool:
		return pickS(g, []string{"true", "false"})
	case kIntSlice:
		switch g.pick(5) {
		case 0:
			return "null"
		case 1:
			return "[]"
		}
		n := 1 + g.pick(4)
		parts := make([]string, n)
		for i := range parts {
			parts[i] = g.intLit()
		}
		return "[" + strings.Join(parts, ","+g.ws()) + "]"
	case kAny:
		return g.anyLit(3)
	case kMapAny:
		if g.p(15) {
			return "null"
		}
		n := g.pick(4)
		parts := make([]string, n)
		for i := range parts {
			parts[i] = `"m` + strconv.Itoa(i) + `":` + g.anyLit(2)
		}
		return "{" + strings.Join(parts, ",") + "}"
	case kStruct:
		return g.structLit(true)
	case kPtrStruct:
		if g.p(20) {
			return "null"
		}
		return g.structLit(true)
	case kStructSlice:
		switch g.pick(6) {
		case 0:
			return "null"
		case 1:
			return "[]"
		}
		n := 1 + g.pick(3)
		parts := make([]string, n)
		for i := range parts {
			parts[i] = g.structLit(true)
		}
		return "[" + strings.Join(parts, ",") + "]"
	case kStructSliceSlice, kPtrStructSliceSlice:
		switch g.pick(8) {
		case 0:
			return "null"
		case 1:
			return "[]"
		}
		n := 1 + g.pick(3)
		parts := make([]string, n)
		for i := range parts {
			if k == kPtrStructSliceSlice && g.p(20) {
				parts[i] = "[" + g.structLit(true) + ",null]"
				continue
			}
			parts[i] = g.validVal(kStructSlice)
		}
		return "[" + strings.Join(parts, ",") + "]"
	case kMapStructSlice:
		switch g.pick(8) {
		case 0:
			return "null"
		case 1:
			return "{}"
		}
		n := 1 + g.pick(3)
		parts := make([]string, n)
		for i := range parts {
			parts[i] = `"key` + strconv.Itoa(i) + `":` + g.validVal(kStructSlice)
		}
		return "{" + strings.Join(parts, ",") + "}"
	case kMapPtrStruct:
		switch g.pick(6) {
		case 0:
			return "null"
		case 1:
			return "{}"
		}
		n := 1 + g.pick(3)
		parts := make([]string, n)
		for i := range parts {
			v := g.structLit(true)
			if g.p(15) {
				v = "null"
			}
			parts[i] = `"key` + strconv.Itoa(i) + `":` + v
		}
		return "{" + strings.Join(parts, ",") + "}"
	}
	return "null"
}

func (g *gen) invalidVal(k pkind) string {
	switch k {
	case kString:
		return pickS(g, []string{"5", "true", "[]", `["t"]`, `{"tag":"t"}`, "1.5"})
	case kPtrString:
		return pickS(g, []string{"5", "true", "[]", "{}"})
	case kInt, kPtrInt:
		return pickS(g, []string{`"3"`, "true", "[1]", "{}", "1.5", "9223372036854775808", "-9223372036854775809", "1e400", "123456789012345678901234567890", `""`, "0.5e-3"})
	case kBool:
		return pickS(g, []string{"0", "1", `"true"`, "[]", "{}"})
	case kIntSlice:
		return pickS(g, []string{"5", `"x"`, `{"0":1}`, `["a"]`, "[1.5]", "[[1]]", "true", "[9223372036854775808]"})
	case kMapAny:
		return pickS(g, []string{"5", `"x"`, "[]", "[1]", "true"})
	case kStruct, kPtrStruct:
		return pickS(g, []string{g.structLit(false), `{"A":"x"}`, "5", `"s"`, "[]", "{}", `{"A":1,"B":5}`, `{"B":"only"}`, "true", `{"A":1.5}`})
	case kStructSlice:
		return pickS(g, []string{"[" + g.structLit(false) + "]", "5", `{"A":1}`, "[5]", `"x"`, "[" + g.structLit(true) + "," + g.structLit(false) + "]", "[{}]"})
	case kMapPtrStruct:
		return pickS(g, []string{`{"k":` + g.structLit(false) + `}`, "[]", "5", `{"k":5}`, `"x"`, `{"a":` + g.structLit(true) + `,"b":{}}`})
	case kStructSliceSlice, kPtrStructSliceSlice:
		// a rule broken only inside the inner container, next to valid neighbours
		return pickS(g, []string{"[[" + g.structLit(false) + "]]", "[[" + g.structLit(true) + "],[" + g.structLit(true) + "," + g.structLit(false) + "]]",
			"[[" + g.structLit(true) + "," + g.structLit(true) + "],[],[" + g.structLit(false) + "]]", "[[{}]]", "5", "[5]", "[[5]]", `{"A":1}`, "[" + g.structLit(true) + "]"})
	case kMapStructSlice:
		return pickS(g, []string{`{"k":[` + g.structLit(false) + `]}`, `{"a":[` + g.structLit(true) + `],"b":[` + g.structLit(true) + `,` + g.structLit(false) + `]}`,
			`{"a":[],"b":[{}]}`, "[]", "5", `{"k":5}`, `{"k":[5]}`, `{"k":` + g.structLit(true) + `}`})
	}
	return ""
}

// unsureVal: values whose decoding the specification leaves to the server.
func (g *gen) unsureVal(k pkind) string {
	switch k {
	case kString, kBool:
		return "null"
	case kInt, kPtrInt:
		return pickS(g, []string{"null", "1.0", "1e2", "3E0"})
	case kIntSlice:
		return pickS(g, []string{"[null]", "[1.0]"})
	case kAny, kMapAny:
		return pickS(g, []string{`{"a":1,"a":2}`, `{"x":9007199254740993}`, `{"x":1e999}`})
	case kStruct, kPtrStruct:
		return pickS(g, []string{`{"a":5}`, `{"A":1,"A":2}`, `{"A":1,"C":3}`, `{"A":null}`, `{"A":2,"B":null}`})
	case kStructSlice:
		return pickS(g, []string{`[{"a":5}]`, `[null]`})
	case kMapPtrStruct:
		return pickS(g, []string{`{"k":{"A":1},"k":{"A":2}}`, `{"k":{"a":1}}`})
	case kStructSliceSlice:
		return pickS(g, []string{`[[{"a":5}]]`, `[[null]]`})
	case kPtrStructSliceSlice:
		return pickS(g, []string{`[[{"a":5}]]`, `[[{"A":1,"C":3}]]`})
	case kMapStructSlice:
		return pickS(g, []string{`{"k":[{"A":1}],"k":[{"A":2}]}`, `{"k":[{"a":1}]}`, `{"k":[null]}`})
	}
	return "null"
}

var unknownMethods = []string{"nope", "starknet_blockNumber", "Ping", "ping ", " ping", "rpc.discover", "echo2", "pin", "ﬁail", "sub\u0000", "echo\n", strings.Repeat("m", 300), "方法"}

// call renders (method, params) for a registered method; form: 0 positional, 1 named, 2 absent, 3 empty array, 4 empty object.
type paramPlan struct {
	m      *mspec
	vals   []string // one literal per parameter actually supplied (prefix of the list for positional)
	names  []string
	form   int
	extra  string // literal of an extra positional / unknown-named parameter
	exName string
}

func (g *gen) renderParams(pl *paramPlan) (string, bool) {
	switch pl.form {
	case 2:
		return "", false
	case 3:
		return "[" + g.ws() + "]", true
	case 4:
		return "{" + g.ws() + "}", true
	case 0:
		parts := append([]string{}, pl.vals...)
		if pl.extra != "" {
			parts = append(parts, pl.extra)
		}
		return "[" + g.ws() + strings.Join(parts, g.ws()+","+g.ws()) + g.ws() + "]", true
	default:
		idx := g.rng.Perm(len(pl.vals))
		parts := make([]string, 0, len(idx)+1)
		for _, i := range idx {
			parts = append(parts, g.strLit(pl.names[i])+g.ws()+":"+g.ws()+pl.vals[i])
		}
		if pl.extra != "" {
			parts = append(parts, g.strLit(pl.exName)+":"+pl.extra)
			j := g.pick(len(parts))
			parts[j], parts[len(parts)-1] = parts[len(parts)-1], parts[j]
		}
		return "{" + g.ws() + strings.Join(parts, g.ws()+","+g.ws()) + g.ws() + "}", true
	}
}

// planCall chooses the supplied parameters (and parameter-level damage) for m.
func (g *gen) planCall(m *mspec, clean bool) *paramPlan {
	pl := &paramPlan{m: m}
	np := len(m.Params)
	req := 0
	for _, p := range m.Params {
		if !p.Optional {
			req++
		}
	}
	pl.form = g.pick(2)
	// how many of the optional tail to supply
	supply := req
	if np > req {
		supply = req + g.pick(np-req+1)
	}
	if pl.form == 1 && np > req && g.p(30) {
		// named form may skip an optional in the middle: supply a random subset
		supply = np
	}
	for i := 0; i < supply; i++ {
		pl.vals = append(pl.vals, g.validVal(m.Params[i].Kind))
		pl.names = append(pl.names, m.Params[i].Name)
	}
	if pl.form == 1 && supply == np && np > req && g.p(50) {
		// drop one optional parameter (possibly not the last) from the named form
		j := req + g.pick(np-req)
		pl.vals = append(pl.vals[:j], pl.vals[j+1:]...)
		pl.names = append(pl.names[:j], pl.names[j+1:]...)
		g.feat("named:optional-omitted")
	}
	if np == 0 || (req == 0 && g.p(25)) {
		pl.form = pickS(g, []int{2, 2, 3, 4})
		pl.vals, pl.names = nil, nil
	}
	if clean || g.p(62) {
		return pl
	}
	// parameter-level damage
	switch d := g.pick(9); {
	case d == 0 && len(pl.vals) > 0 && req > 0: // drop a required parameter
		if pl.form == 0 {
			pl.vals = pl.vals[:g.pick(min(req, len(pl.vals)))]
			pl.names = pl.names[:len(pl.vals)]
		} else {
			j := g.pick(min(req, len(pl.vals)))
			pl.vals = append(pl.vals[:j], pl.vals[j+1:]...)
			pl.names = append(pl.names[:j], pl.names[j+1:]...)
		}
		g.feat("params:missing-required")
	case d == 1: // one parameter too many / unknown name
		if pl.form > 1 {
			pl.form = g.pick(2)
		}
		if pl.form == 0 {
			for i := len(pl.vals); i < np; i++ {
				pl.vals = append(pl.vals, g.validVal(m.Params[i].Kind))
				pl.names = append(pl.names, m.Params[i].Name)
			}
		}
		pl.extra = g.anyLit(1)
		pl.exName = pickS(g, []string{"junk", "Tag", "tag ", "", "TAG", "n2"})
		g.feat("params:extra")
	case (d == 2 || d == 3 || d == 4) && len(pl.vals) > 0: // ill-typed value
		j := g.pick(len(pl.vals))
		if v := g.invalidVal(m.Params[j].kindOr(pl, j)); v != "" {
			pl.vals[j] = v
			g.feat("params:ill-typed")
		}
	case d == 5 && len(pl.vals) > 0: // decoder-specific value -> lenient oracle
		j := g.pick(len(pl.vals))
		pl.vals[j] = g.unsureVal(m.Params[j].kindOr(pl, j))
		g.feat("params:decoder-specific")
	case d == 6:
		pl.form = pickS(g, []int{2, 3, 4})
		pl.vals, pl.names = nil, nil
		g.feat("params:absent-or-empty")
	case d == 7 && pl.form == 1 && len(pl.vals) > 0: // duplicate name
		j := g.pick(len(pl.vals))
		pl.vals = append(pl.vals, g.validVal(m.Params[j].kindOr(pl, j)))
		pl.names = append(pl.names, pl.names[j])
		g.feat("params:duplicate-name")
	case d == 8 && pl.form == 0 && len(pl.vals) >= 2: // swap two positional values
		pl.vals[0], pl.vals[1] = pl.vals[1], pl.vals[0]
		g.feat("params:swapped")
	}
	return pl
}

// kindOr maps a supplied slot back to its parameter kind (names may have been removed).
func (p pspec) kindOr(pl *paramPlan, j int) pkind {
	for _, q := range pl.m.Params {
		if q.Name == pl.names[j] {
			return q.Kind
		}
	}
	return p.Kind
}

func (g *gen) idLit() (string, bool) {
	fresh := func() string {
		g.n++
		return strconv.Itoa(g.n*7 + g.pick(7))
	}
	var id string
	switch d := g.pick(100); {
	case d < 52:
		id = fresh()
	case d < 60:
		id = g.strLit("id-" + fresh())
	case d < 72:
		g.feat("id:absent")
		return "", false
	case d < 76:
		g.feat("id:null")
		return "null", true
	case d < 80 && len(g.ids) > 0:
		g.feat("id:duplicate")
		return pickS(g, g.ids), true
	case d < 83:
		g.feat("id:odd-string")
		id = pickS(g, []string{`""`, `" "`, `"` + strings.Repeat("x", 500) + `"`, `"1"`, `"nu\u0000ll"`, `"null"`, `"é😀"`, `"\ud800"`, `"<&>"`, `"1"`})
	case d < 86:
		g.feat("id:odd-integer")
		id = pickS(g, []string{"0", "-0", "-17", "9223372036854775807", "18446744073709551616", "123456789012345678901234567890", "-99999999999999999999"})
	case d < 90:
		g.feat("id:fractional-or-exponent")
		id = pickS(g, []string{"1.5", "1.0", "1e2", "2E-1", "-0.0", "1e400", "44.37"})
	default:
		g.feat("id:ill-typed")
		return pickS(g, []string{"true", "false", "[1]", "[]", "{}", `{"id":1}`, `["x"]`}), true
	}
	g.ids = append(g.ids, id)
	return id, true
}

type member struct{ k, v string }

// request renders one request object. clean = no damage at all (valid call, unique int id).
func (g *gen) request(clean bool) string {
	var mem []member
	// jsonrpc
	if clean || g.p(88) {
		mem = append(mem, member{"jsonrpc", `"2.0"`})
	} else {
		g.feat("jsonrpc:damaged")
		if v := pickS(g, []string{"", `"1.0"`, `"2"`, `"2.00"`, "2.0", "2", "null", `["2.0"]`, `"2.0 "`, `"2.0"`, `""`, "true", `{"v":"2.0"}`}); v != "" {
			mem = append(mem, member{"jsonrpc", v})
		}
	}
	// method + params
	var ms *mspec
	switch d := g.pick(100); {
	case clean || d < 80:
		ms = &methodTable[g.pick(len(methodTable))]
		mem = append(mem, member{"method", g.strLit(ms.Name)})
	case d < 92:
		g.feat("method:unknown")
		mem = append(mem, member{"method", strconv.Quote(pickS(g, unknownMethods))})
	default:
		g.feat("method:damaged")
		if v := pickS(g, []string{"", `""`, "5", "null", `["ping"]`, `{"m":"ping"}`, "true", "1.5"}); v != "" {
			mem = append(mem, member{"method", v})
		}
	}
	switch {
	case ms != nil:
		pl := g.planCall(ms, clean)
		if ms.Name == "fail" && len(pl.vals) >= 2 && pl.names[1] == "code" && g.p(90) {
			// keep application error codes away from the protocol codes
			if _, err := strconv.Atoi(pl.vals[1]); err == nil {
				pl.vals[1] = strconv.Itoa(1 + g.pick(99))
			}
		}
		if v, ok := g.renderParams(pl); ok {
			mem = append(mem, member{"params", v})
		}
		g.feat("form:" + []string{"positional", "named", "absent", "empty-array", "empty-object"}[pl.form])
	case g.p(60):
		mem = append(mem, member{"params", pickS(g, []string{"[]", "{}", "[1,2]", `{"a":1}`, `["` + g.tagRaw() + `"]`})})
	}
	if !clean && g.p(7) {
		g.feat("params:non-structured")
		v := pickS(g, []string{"5", `"x"`, "true", "null", "null", "1.5", `""`})
		replaced := false
		for i := range mem {
			if mem[i].k == "params" {
				mem[i].v, replaced = v, true
			}
		}
		if !replaced {
			mem = append(mem, member{"params", v})
		}
	}
	// id
	if clean {
		g.n++
		mem = append(mem, member{"id", strconv.Itoa(g.n*7 + 1)})
	} else if v, ok := g.idLit(); ok {
		mem = append(mem, member{"id", v})
	}
	if !clean {
		if g.p(3) {
			g.feat("envelope:extra-member")
			mem = append(mem, member{pickS(g, []string{"extra", "result", "error", "meta", ""}), g.anyLit(1)})
		}
		if g.p(2) && len(mem) > 0 {
			g.feat("envelope:duplicate-key")
			d := pickS(g, mem)
			if g.p(50) {
				d.v = g.anyLit(1)
			}
			mem = append(mem, d)
		}
		if g.p(2) && len(mem) > 0 {
			g.feat("envelope:case-variant-key")
			j := g.pick(len(mem))
			for mem[j].k == "" {
				j = (j + 1) % len(mem)
			}
			if g.p(50) {
				mem[j].k = strings.ToUpper(mem[j].k)
			} else {
				mem = append(mem, member{strings.ToUpper(mem[j].k[:1]) + mem[j].k[1:], g.anyLit(1)})
			}
		}
	}
	if !clean || g.p(50) {
		g.rng.Shuffle(len(mem), func(i, j int) { mem[i], mem[j] = mem[j], mem[i] })
	}
	parts := make([]string, len(mem))
	for i, m := range mem {
		parts[i] = strconv.Quote(m.k) + g.ws() + ":" + g.ws() + m.v
	}
	return "{" + g.ws() + strings.Join(parts, g.ws()+","+g.ws()) + g.ws() + "}"
}

// twin renders the same valid call twice: by position and by name.
func (g *gen) twin() []string {
	var ms *mspec
	for {
		ms = &methodTable[g.pick(len(methodTable))]
		if len(ms.Params) > 0 {
			break
		}
	}
	pl := g.planCall(ms, true)
	if pl.form > 1 {
		pl.form = 0
	}
	// named form needs every supplied value named; positional needs a prefix: planCall(clean)
	// only removes an optional in named form, so rebuild a prefix plan
	n := len(pl.vals)
	for i := 0; i < n; i++ {
		if pl.names[i] != ms.Params[i].Name {
			n = i
			break
		}
	}
	pl.vals, pl.names = pl.vals[:n], pl.names[:n]
	out := make([]string, 2)
	for f := 0; f < 2; f++ {
		pl.form = f
		ps, _ := g.renderParams(pl)
		g.n++
		out[f] = fmt.Sprintf(`{"jsonrpc":"2.0","method":%s,"params":%s,"id":%d}`, strconv.Quote(ms.Name), ps, g.n*7)
	}
	g.feat("twin:positional+named")
	return out
}

func (g *gen) junkEntry() string {
	g.feat("batch:non-object-entry")
	return pickS(g, []string{"1", `"x"`, "null", "true", "[]", "[" + g.request(true) + "]", "{}", "1.5", `[1,2]`, `""`})
}

func (g *gen) batch(n int, cleanPct int) string {
	var parts []string
	for len(parts) < n {
		switch {
		case g.p(8):
			parts = append(parts, g.junkEntry())
		case g.p(8):
			parts = append(parts, g.twin()...)
		default:
			parts = append(parts, g.request(g.p(cleanPct)))
		}
	}
	g.rng.Shuffle(len(parts), func(i, j int) { parts[i], parts[j] = parts[j], parts[i] })
	return "[" + g.ws() + strings.Join(parts, g.ws()+","+g.ws()) + g.ws() + "]"
}

func (g *gen) leadingWS() string {
	switch d := g.pick(100); {
	case d < 80:
		return ""
	case d < 92:
		return strings.Repeat(pickS(g, []string{" ", "\n", "\t", "\r\n"}), 1+g.pick(6))
	case d < 96:
		g.feat("leading-ws:>=100")
		return strings.Repeat(pickS(g, []string{" ", "\n", " \t"}), 100+g.pick(120))
	default:
		g.feat("leading:non-json-space")
		return pickS(g, []string{"\ufeff", "\v", "\f", "\u00a0", "\x00", "//c\n"})
	}
}

var structural = []string{"{", "}", "[", "]", ",", ":", `"`, "\\", "e", "E", ".", "-", "+", "0", "1", "null", "true", "false", " ", "\n", `\u`, `\ud800`, "\x00", "\xff", "/*", "'", "id", `"id"`, `"method"`, `"params"`, `"jsonrpc"`}

func (g *gen) mutate(in string) string {
	b := []byte(in)
	nm := 1 + g.pick(3)
	for k := 0; k < nm; k++ {
		if len(b) == 0 {
			b = []byte(pickS(g, structural))
			continue
		}
		pos := g.pick(len(b))
		switch g.pick(8) {
		case 0: // delete a byte
			b = append(b[:pos], b[pos+1:]...)
		case 1: // insert a structural token
			t := pickS(g, structural)
			b = append(b[:pos], append([]byte(t), b[pos:]...)...)
		case 2: // overwrite with a structural byte
			t := pickS(g, structural)
			b[pos] = t[0]
		case 3: // random byte
			b[pos] = byte(g.pick(256))
		case 4: // truncate
			b = b[:pos]
		case 5: // duplicate a span
			end := min(len(b), pos+1+g.pick(40))
			span := append([]byte{}, b[pos:end]...)
			b = append(b[:end], append(span, b[end:]...)...)
		case 6: // delete a span
			end := min(len(b), pos+1+g.pick(20))
			b = append(b[:pos], b[end:]...)
		case 7: // swap two bytes
			q := g.pick(len(b))
			b[pos], b[q] = b[q], b[pos]
		}
	}
	return string(b)
}

func (g *gen) arbitrary() string {
	switch g.pick(12) {
	case 0:
		return ""
	case 1:
		return strings.Repeat(pickS(g, []string{" ", "\n", "\t"}), 1+g.pick(300))
	case 2: // random bytes
		b := make([]byte, g.pick(64))
		for i := range b {
			b[i] = byte(g.pick(256))
		}
		return string(b)
	case 3: // token soup
		n := 1 + g.pick(30)
		var sb strings.Builder
		for i := 0; i < n; i++ {
			sb.WriteString(pickS(g, structural))
		}
		return sb.String()
	case 4: // deep nesting, closed or not, around the decoder's depth limit
		d := pickS(g, []int{50, 1000, 9999, 10000, 10001, 20000})
		open, cl := "[", "]"
		if g.p(40) {
			open, cl = `{"a":`, "}"
		}
		s := strings.Repeat(open, d)
		if open != "[" {
			s += "1"
		}
		if g.p(70) {
			s += strings.Repeat(cl, d)
		}
		g.feat("deep-nesting")
		return s
	case 5: // top-level scalars
		return pickS(g, []string{"5", "-1.5e3", `"ping"`, "true", "false", "null", `""`, "0", "1e999", "nul", "tru", "-", `"unterminated`})
	case 6: // huge number members
		g.feat("huge-numbers")
		big := strings.Repeat("9", 50+g.pick(400))
		return pickS(g, []string{
			`{"jsonrpc":"2.0","method":"echo","params":["h1"],"id":` + big + `}`,
			`{"jsonrpc":"2.0","method":"sub","params":["h2",` + big + `,1],"id":1}`,
			`{"jsonrpc":"2.0","method":"sub","params":["h3",1e` + big[:5] + `,1],"id":2}`,
			`{"jsonrpc":` + big + `,"method":"ping","id":3}`,
			`{"jsonrpc":"2.0","method":"anyp","params":["h4",1e-` + big[:4] + `],"id":4}`,
			`{"jsonrpc":"2.0","method":"fail","params":["h5",` + big + `],"id":5}`,
		})
	case 7: // long strings
		g.feat("long-strings")
		s := strings.Repeat(pickS(g, []string{"a", "é", `\n`, `A`}), 500+g.pick(3000))
		return pickS(g, []string{
			`{"jsonrpc":"2.0","method":"echo","params":["` + s + `"],"id":1}`,
			`{"jsonrpc":"2.0","method":"` + s + `","id":2}`,
			`{"jsonrpc":"2.0","method":"ping","id":"` + s + `"}`,
			`{"jsonrpc":"2.0","method":"echo","params":{"tag":"x","` + s + `":1},"id":3}`,
		})
	case 8: // two values / trailing garbage
		g.feat("trailing-bytes")
		return g.request(true) + pickS(g, []string{" ", "\n", "x", "}", "]", ",", g.request(true), "[" + g.request(true) + "]", "\x00", "garbage"})
	case 9: // array-ish but broken
		return pickS(g, []string{"[", "[,]", "[1,]", "[{]", "[{}", "[]]", "[[]]", "[[],[]]", "[{}]", "[{},{}]", "[null]", `[""]`, " [ ] ", "[\n]"})
	case 10: // object-ish but broken
		return pickS(g, []string{"{", "{]", "{}", `{"jsonrpc"}`, `{"jsonrpc":}`, `{"jsonrpc":"2.0",}`, `{,}`, `{"a":1}}`, `{"jsonrpc":"2.0","method":"ping","id":1`, `{"jsonrpc":"2.0" "method":"ping"}`, `{'jsonrpc':'2.0'}`, `{jsonrpc:"2.0"}`})
	default:
		return pickS(g, []string{"\ufeff{}", "\x00", "\xff\xfe", "<xml/>", "GET / HTTP/1.1\r\n\r\n", "--", "// c", "NaN", "Infinity", "0x10", "01", "+1", ".5", "1.", `"\x"`, `"\ud800"`})
	}
}

// input produces one generated input and its category.
func (g *gen) input() (string, string) {
	switch d := g.pick(100); {
	case d < 30:
		return g.leadingWS() + g.request(g.p(15)) + g.trail(), "single"
	case d < 62:
		n := 1 + g.pick(12)
		if g.p(10) {
			n = 1
		}
		return g.leadingWS() + g.batch(n, 35) + g.trail(), "batch"
	case d < 66:
		n := 40 + g.pick(260)
		return g.leadingWS() + g.batch(n, 70), "big-batch"
	case d < 86:
		var base string
		if g.p(50) {
			base = g.request(g.p(60))
		} else {
			base = g.batch(1+g.pick(5), 60)
		}
		return g.mutate(base), "mutated"
	default:
		return g.arbitrary(), "arbitrary"
	}
}

func (g *gen) trail() string {
	if g.p(96) {
		return pickS(g, []string{"", "", "", "\n", " ", "\r\n"})
	}
	g.feat("trailing-bytes")
	return pickS(g, []string{"x", "}", "]", " 1", "\n{}", ",", "\x00"})
}

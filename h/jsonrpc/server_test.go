package vjsonrpc

import (
	"context"
	"encoding/json"
	"net/http"
	"sync"

	"github.com/NethermindEth/juno/jsonrpc"
	"github.com/NethermindEth/juno/utils/log"
	"github.com/go-playground/validator/v10"
)

// ---------------------------------------------------------------- recording handlers

// call is one observed handler invocation: the method and the JSON encoding
// of the argument list the handler actually received.
type call struct {
	Method string `json:"method"`
	Args   string `json:"args"`
}

type recorder struct {
	mu    sync.Mutex
	calls []call
	// onFirst, if set, is called once at the next recorded invocation (the harness uses it to
	// cancel the context of the request being served from inside the first handler that runs)
	onFirst func()
}

func (r *recorder) take() []call {
	r.mu.Lock()
	defer r.mu.Unlock()
	c := r.calls
	r.calls = nil
	return c
}

// rec logs the invocation and returns the echo every handler answers with:
// {"m": method, "a": [args...]} - so a response carries the arguments that
// handler saw, and correlation id <-> payload can be checked.
func (r *recorder) rec(method string, args ...any) any {
	if args == nil {
		args = []any{}
	}
	b, err := json.Marshal(args)
	if err != nil {
		panic("harness: cannot marshal handler args: " + err.Error())
	}
	r.mu.Lock()
	r.calls = append(r.calls, call{Method: method, Args: string(b)})
	f := r.onFirst
	r.onFirst = nil
	r.mu.Unlock()
	if f != nil {
		f()
	}
	return map[string]any{"m": method, "a": json.RawMessage(b)}
}

// vs is the struct parameter with a validator rule.
type vs struct {
	A int    `json:"A" validate:"min=1"`
	B string `json:"B"`
}

// ---------------------------------------------------------------- parameter kinds (shared with the spec side)

type pkind int

const (
	kString pkind = iota
	kInt
	kBool
	kPtrInt
	kPtrString
	kIntSlice
	kAny
	kMapAny
	kStruct
	kPtrStruct
	kStructSlice
	kMapPtrStruct
	// containers of containers of validated structs: the validator must reach the inner elements
	kStructSliceSlice    // [][]vs
	kMapStructSlice      // map[string][]vs
	kPtrStructSliceSlice // [][]*vs
)

type pspec struct {
	Name     string
	Optional bool
	Kind     pkind
}

// mspec is the harness' own description of a registered method; the spec
// classifier binds parameters from this table, never from Juno's.
type mspec struct {
	Name   string
	Params []pspec
	// how the handler answers
	Reply int
}

const (
	replyEcho    = iota // result = {"m":..,"a":[..]}
	replyConst          // result = constant string (no-parameter methods)
	replyAppErr         // error {code: <arg "code">, message:"app", data: echo}
	replyNullPtr        // result = typed nil pointer -> "result":null must be present
)

var methodTable = []mspec{
	{Name: "ping", Reply: replyConst},
	{Name: "ctxping", Reply: replyConst},
	{Name: "echo", Params: []pspec{{"tag", false, kString}}},
	{Name: "sub", Params: []pspec{{"tag", false, kString}, {"minuend", false, kInt}, {"subtrahend", false, kInt}}},
	{Name: "ctxsub", Params: []pspec{{"tag", false, kString}, {"a", false, kInt}, {"b", false, kInt}}},
	{Name: "ctxopt", Params: []pspec{{"tag", false, kString}, {"o1", true, kPtrInt}, {"o2", true, kIntSlice}}},
	{Name: "opt", Params: []pspec{{"tag", false, kString}, {"n", false, kInt}, {"o1", true, kPtrInt}, {"o2", true, kIntSlice}}},
	{Name: "allopt", Params: []pspec{{"tag", true, kPtrString}, {"flag", true, kBool}}},
	{Name: "vstruct", Params: []pspec{{"tag", false, kString}, {"v", false, kStruct}}},
	{Name: "vptr", Params: []pspec{{"tag", false, kString}, {"v", true, kPtrStruct}}},
	{Name: "vslice", Params: []pspec{{"tag", false, kString}, {"vs", false, kStructSlice}}},
	{Name: "vmap", Params: []pspec{{"tag", false, kString}, {"m", false, kMapPtrStruct}}},
	{Name: "vnest", Params: []pspec{{"tag", false, kString}, {"vv", false, kStructSliceSlice}}},
	{Name: "vmapslice", Params: []pspec{{"tag", false, kString}, {"ms", false, kMapStructSlice}}},
	{Name: "vnestptr", Params: []pspec{{"tag", false, kString}, {"pp", true, kPtrStructSliceSlice}}},
	{Name: "anyp", Params: []pspec{{"tag", false, kString}, {"x", false, kAny}, {"m", true, kMapAny}}},
	{Name: "hdr", Params: []pspec{{"tag", false, kString}}},
	{Name: "fail", Params: []pspec{{"tag", false, kString}, {"code", false, kInt}}, Reply: replyAppErr},
	{Name: "nullres", Params: []pspec{{"tag", false, kString}}, Reply: replyNullPtr},
}

var methodByName = func() map[string]*mspec {
	m := map[string]*mspec{}
	for i := range methodTable {
		m[methodTable[i].Name] = &methodTable[i]
	}
	return m
}()

func jparams(ps []pspec) []jsonrpc.Parameter {
	out := make([]jsonrpc.Parameter, len(ps))
	for i, p := range ps {
		out[i] = jsonrpc.Parameter{Name: p.Name, Optional: p.Optional}
	}
	return out
}

var sharedValidator = validator.New()

// hsrv is one Juno jsonrpc.Server with the recording method table.
type hsrv struct {
	pool int
	srv  *jsonrpc.Server
	http *jsonrpc.HTTP
	rec  *recorder
}

func newHsrv(poolSize int) *hsrv {
	rec := &recorder{}
	srv := jsonrpc.NewServer(poolSize, log.NewNopZapLogger()).WithValidator(sharedValidator)
	handlers := map[string]any{
		"ping": func() (any, *jsonrpc.Error) { rec.rec("ping"); return "pong", nil },
		"ctxping": func(ctx context.Context) (any, *jsonrpc.Error) {
			if ctx == nil {
				panic("harness: nil context passed to handler")
			}
			rec.rec("ctxping")
			return "ctxpong", nil
		},
		"echo": func(tag string) (any, *jsonrpc.Error) { return rec.rec("echo", tag), nil },
		"sub": func(tag string, a, b int) (any, *jsonrpc.Error) {
			return rec.rec("sub", tag, a, b), nil
		},
		"ctxsub": func(ctx context.Context, tag string, a, b int) (any, *jsonrpc.Error) {
			if ctx == nil {
				panic("harness: nil context passed to handler")
			}
			return rec.rec("ctxsub", tag, a, b), nil
		},
		"ctxopt": func(ctx context.Context, tag string, o1 *int, o2 []int) (any, *jsonrpc.Error) {
			if ctx == nil {
				panic("harness: nil context passed to handler")
			}
			return rec.rec("ctxopt", tag, o1, o2), nil
		},
		"opt": func(tag string, n int, o1 *int, o2 []int) (any, *jsonrpc.Error) {
			return rec.rec("opt", tag, n, o1, o2), nil
		},
		"allopt": func(tag *string, flag bool) (any, *jsonrpc.Error) {
			return rec.rec("allopt", tag, flag), nil
		},
		"vstruct": func(tag string, v vs) (any, *jsonrpc.Error) { return rec.rec("vstruct", tag, v), nil },
		"vptr":    func(tag string, v *vs) (any, *jsonrpc.Error) { return rec.rec("vptr", tag, v), nil },
		"vslice":  func(tag string, v []vs) (any, *jsonrpc.Error) { return rec.rec("vslice", tag, v), nil },
		"vmap": func(tag string, m map[string]*vs) (any, *jsonrpc.Error) {
			return rec.rec("vmap", tag, m), nil
		},
		"vnest": func(tag string, v [][]vs) (any, *jsonrpc.Error) { return rec.rec("vnest", tag, v), nil },
		"vmapslice": func(tag string, m map[string][]vs) (any, *jsonrpc.Error) {
			return rec.rec("vmapslice", tag, m), nil
		},
		"vnestptr": func(tag string, v [][]*vs) (any, *jsonrpc.Error) { return rec.rec("vnestptr", tag, v), nil },
		"anyp": func(tag string, x any, m map[string]any) (any, *jsonrpc.Error) {
			return rec.rec("anyp", tag, x, m), nil
		},
		"hdr": func(tag string) (any, http.Header, *jsonrpc.Error) {
			return rec.rec("hdr", tag), http.Header{"X-Verif-Tag": []string{"1"}}, nil
		},
		"fail": func(tag string, code int) (any, *jsonrpc.Error) {
			e := rec.rec("fail", tag, code)
			// a non-nil result next to the error: the response must still carry the error only
			return e, &jsonrpc.Error{Code: code, Message: "app", Data: e}
		},
		"nullres": func(tag string) (*int, *jsonrpc.Error) {
			rec.rec("nullres", tag)
			return nil, nil
		},
	}
	for i := range methodTable {
		m := &methodTable[i]
		if err := srv.RegisterMethods(jsonrpc.Method{Name: m.Name, Params: jparams(m.Params), Handler: handlers[m.Name]}); err != nil {
			panic("harness: RegisterMethods(" + m.Name + "): " + err.Error())
		}
	}
	return &hsrv{pool: poolSize, srv: srv, http: jsonrpc.NewHTTP(srv, log.NewNopZapLogger()), rec: rec}
}

// server cache: jsonrpc.Server never stops its pool workers, so servers are
// reused (exclusively by one case at a time) instead of created per case.
var (
	cacheMu sync.Mutex
	cache   = map[int][]*hsrv{}
)

func getSrv(poolSize int) *hsrv {
	cacheMu.Lock()
	l := cache[poolSize]
	if n := len(l); n > 0 {
		s := l[n-1]
		cache[poolSize] = l[:n-1]
		cacheMu.Unlock()
		return s
	}
	cacheMu.Unlock()
	return newHsrv(poolSize)
}

func putSrv(s *hsrv) {
	s.rec.take()
	cacheMu.Lock()
	cache[s.pool] = append(cache[s.pool], s)
	cacheMu.Unlock()
}

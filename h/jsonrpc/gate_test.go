package vjsonrpc

// The HTTP admission gate (jsonrpc.Gate, installed with HTTP.WithGate) decides whether a request
// is processed at all: a slot that is taken and never given back makes every later request queue
// until its deadline ("neither crashes nor hangs"). Monitor: conservation of slots. Each round a
// holder occupies the only slot, several requests queue up with their own cancellable contexts,
// the holder releases, and - directed - some of the queued contexts are cancelled right after the
// release (before / while the gate hands the slot over) or right before it. Every Acquire that
// returned nil is matched by exactly one Release by the harness; an Acquire that returned an error
// owns nothing. When all goroutines have finished (quiescence, no clock involved) the gate must be
// empty: Running()==0, Queued()==0, and a fresh Acquire succeeds without waiting.

import (
	"context"
	"fmt"
	"sync"
	"time"

	"github.com/NethermindEth/juno/jsonrpc"
	"github.com/NethermindEth/juno/verifh/lib"
)

const gateBase = 3_500_000_000

func gateCase(r *lib.Run, idx int) {
	rng := lib.Rng("C11/gate", uint64(idx-gateBase))
	slots := 1 + rng.IntN(2)
	queued := 1 + rng.IntN(4)
	gate := jsonrpc.NewGate(uint(slots), uint64(queued))
	rounds := 20 + rng.IntN(30)
	for round := 0; round < rounds; round++ {
		// holders fill every slot
		for s := 0; s < slots; s++ {
			if err := gate.Acquire(context.Background()); err != nil {
				r.Violation("gate:free-slot-refused", idx, fmt.Sprintf("round %d: Acquire on a gate with free slots: %v (running %d, queued %d)", round, err, gate.Running(), gate.Queued()), nil)
				return
			}
		}
		type waiter struct {
			cancel context.CancelFunc
			err    error
		}
		ws := make([]*waiter, queued)
		var wg sync.WaitGroup
		entered := make(chan struct{}, queued)
		for i := range ws {
			ctx, cancel := context.WithCancel(context.Background())
			w := &waiter{cancel: cancel}
			ws[i] = w
			wg.Add(1)
			go func() {
				defer wg.Done()
				entered <- struct{}{}
				w.err = gate.Acquire(ctx)
				if w.err == nil {
					gate.Release()
				}
			}()
		}
		for range ws {
			<-entered
		}
		// directed: cancellations land right before / right after the slot is handed over
		mode := rng.IntN(4)
		victim := rng.IntN(queued)
		if mode == 0 {
			ws[victim].cancel()
		}
		gate.Release()
		if mode == 1 || mode == 2 {
			ws[victim].cancel()
		}
		if mode == 2 {
			ws[rng.IntN(queued)].cancel()
		}
		for s := 1; s < slots; s++ {
			gate.Release()
		}
		// every waiter either gets a slot and returns it, or is cancelled. On a gate that lost a
		// slot the remaining waiters would wait for ever: after a generous pause (normal: a few
		// microseconds) everybody still waiting is cancelled, which makes every Acquire return.
		// The clock only brings quiescence about; the verdict below is the conservation invariant.
		fin := make(chan struct{})
		go func() { wg.Wait(); close(fin) }()
		tm := time.NewTimer(10 * time.Second)
		select {
		case <-fin:
		case <-tm.C:
			r.Count("gate.rounds_where_waiters_had_to_be_cancelled_to_finish", 1)
		}
		tm.Stop()
		for _, w := range ws {
			w.cancel()
		}
		<-fin
		r.Eval(1)
		r.Count("gate.rounds", 1)
		if gate.Running() != 0 || gate.Queued() != 0 {
			got, cancelled := 0, 0
			for _, w := range ws {
				if w.err == nil {
					got++
				} else {
					cancelled++
				}
			}
			r.Violation("gate:slot-not-conserved", idx,
				fmt.Sprintf("round %d (slots %d, queued %d, cancel mode %d): all requests have finished (%d admitted and released, %d cancelled) but the gate reports running=%d queued=%d",
					round, slots, queued, mode, got, cancelled, gate.Running(), gate.Queued()), nil)
			return
		}
	}
	r.Case(fmt.Sprintf("gate|%d|%d|%d", slots, queued, rounds))
}

package vjsonrpc

import (
	"fmt"
	"strings"
)

// fixedInputs: the examples of the JSON-RPC 2.0 specification (section 7)
// mapped onto the harness methods, and inputs at the boundaries of the
// server's fixed-size buffers.
func fixedInputs() []string {
	one := `{"jsonrpc":"2.0","method":"sub","params":["f1",42,23],"id":1}`
	named := `{"jsonrpc":"2.0","method":"sub","params":{"subtrahend":23,"tag":"f2","minuend":42},"id":3}`
	batch := `[` + one + `,{"jsonrpc":"2.0","method":"echo","params":["f3"]},` + named + `,{"foo":"boo"},{"jsonrpc":"2.0","method":"foo.get","params":{"name":"myself"},"id":"5"},{"jsonrpc":"2.0","method":"ping","id":"9"}]`
	in := []string{
		one, named,
		`{"jsonrpc":"2.0","method":"echo","params":["f4"]}`,
		`{"jsonrpc":"2.0","method":"ping"}`,
		`{"jsonrpc":"2.0","method":"foobar","id":"1"}`,
		`{"jsonrpc":"2.0","method":"foobar,"params":"bar","baz]`,
		`{"jsonrpc":"2.0","method":1,"params":"bar"}`,
		`[{"jsonrpc":"2.0","method":"sub","params":["f5",1,2],"id":"1"},{"jsonrpc":"2.0","method"]`,
		`[]`, `[1]`, `[1,2,3]`, batch,
		`[{"jsonrpc":"2.0","method":"echo","params":["f6"]},{"jsonrpc":"2.0","method":"echo","params":["f7"]}]`,
	}
	for _, n := range []int{1, 15, 16, 17, 126, 127, 128, 129, 130, 255, 256, 257, 511, 512, 513, 4095, 4096, 4097} {
		for _, w := range []string{" ", "\n"} {
			pad := strings.Repeat(w, n)
			in = append(in,
				pad+fmt.Sprintf(`{"jsonrpc":"2.0","method":"echo","params":["p%d"],"id":%d}`, n, n),
				pad+fmt.Sprintf(`[{"jsonrpc":"2.0","method":"echo","params":["q%d"],"id":%d},{"jsonrpc":"2.0","method":"ping","id":"x"}]`, n, n),
				pad+`[]`,
				pad+`[{"jsonrpc":"2.0","method":"echo","params":["n"]}]`,
			)
		}
	}
	// long members around the 512-byte error window and the 128-byte reader
	for _, n := range []int{100, 127, 128, 500, 511, 512, 513, 1024, 5000} {
		s := strings.Repeat("a", n)
		in = append(in,
			`{"jsonrpc":"2.0","method":"echo","params":["`+s+`"],"id":1}`,
			`{"jsonrpc":"2.0","method":"echo","params":["`+s+`"],"id":1`,
			`{"jsonrpc":5,"method":"echo","params":["`+s+`"],"id":1}`,
			`[{"jsonrpc":"2.0","method":"echo","params":["`+s+`"],"id":1},{]`,
			`{"jsonrpc":"2.0","method":"echo","params":["`+strings.Repeat("é", n)+`"],"id":@}`,
			strings.Repeat("\n", n)+`{"jsonrpc":"2.0","method":"echo","params":["x"],"id":}`,
		)
	}
	return in
}

// selfTest feeds the monitor hand-written observations with a known verdict,
// so that a broken oracle shows up as a broken check, not as silence.
func selfTest() error {
	type tc struct {
		in, out string
		calls   []call
		want    string // "" held, otherwise class prefix
	}
	subCall := call{"sub", `["t",5,3]`}
	req := `{"jsonrpc":"2.0","method":"sub","params":["t",5,3],"id":7}`
	okOut := `{"jsonrpc":"2.0","result":{"m":"sub","a":["t",5,3]},"id":7}`
	cases := []tc{
		{req, okOut, []call{subCall}, ""},
		{req, okOut, nil, "missing-invocation"},
		{req, okOut, []call{subCall, subCall}, "handler-invoked-more-than-once"},
		{req, okOut, []call{{"sub", `["t",3,5]`}}, "args-mismatch"},
		{req, `{"jsonrpc":"2.0","result":{"m":"sub","a":["t",3,5]},"id":7}`, []call{subCall}, "wrong-payload"},
		{req, `{"jsonrpc":"2.0","result":{"m":"sub","a":["t",5,3]},"id":8}`, []call{subCall}, "wrong-id"},
		{req, `{"jsonrpc":"2.0","result":{"m":"sub","a":["t",5,3]},"id":"7"}`, []call{subCall}, "wrong-id"},
		{req, `{"jsonrpc":"2.0","result":{"m":"sub","a":["t",5,3]}}`, []call{subCall}, "malformed-output:response-without-id"},
		{req, `{"jsonrpc":"2.0","id":7}`, []call{subCall}, "malformed-output:response-with-neither"},
		{req, `{"jsonrpc":"2.0","result":1,"error":{"code":1,"message":"x"},"id":7}`, []call{subCall}, "malformed-output:response-with-result-and-error"},
		{req, `[` + okOut + `]`, []call{subCall}, "single-request-answered-with-array"},
		{req, ``, []call{subCall}, "lost-response"},
		{req, okOut + okOut, []call{subCall}, "malformed-output:trailing"},
		{req, `{"jsonrpc":"2.0","error":{"code":-32602,"message":"Invalid Params"},"id":7}`, nil, "wrong-outcome"},
		{`{"jsonrpc":"2.0","method":"sub","params":{"tag":"t","minuend":5,"subtrahend":3},"id":7}`, okOut, []call{subCall}, ""},
		{`{"jsonrpc":"2.0","method":"sub","params":["t",5,3]}`, ``, []call{subCall}, ""},
		{`{"jsonrpc":"2.0","method":"sub","params":["t",5,3]}`, ``, nil, "missing-invocation"},
		{`{"jsonrpc":"2.0","method":"sub","params":["t",5]}`, ``, nil, ""},
		{`{"jsonrpc":"2.0","method":"sub","params":["t",5]}`, ``, []call{{"sub", `["t",5,0]`}}, "handler-invoked-for-invalid-request"},
		{`{"jsonrpc":"2.0","method":"nope"}`, `{"jsonrpc":"2.0","error":{"code":-32601,"message":"x"},"id":null}`, nil, "notification-answered"},
		{`[` + req + `,` + req + `]`, `[` + okOut + `,` + okOut + `]`, []call{subCall, subCall}, ""},
		{`[` + req + `,` + req + `]`, `[` + okOut + `]`, []call{subCall, subCall}, "lost-response"},
		{`[` + req + `]`, `[` + okOut + `,` + okOut + `]`, []call{subCall}, "duplicated-response"},
		{`[` + req + `]`, okOut, []call{subCall}, "batch-answered-with-single-object"},
		{`[1]`, `[{"jsonrpc":"2.0","error":{"code":-32600,"message":"x"},"id":null}]`, nil, ""},
		{`[1]`, `[{"jsonrpc":"2.0","error":{"code":-32700,"message":"x"},"id":null}]`, nil, "wrong-outcome"},
		{`5`, `{"jsonrpc":"2.0","error":{"code":-32700,"message":"x"},"id":null}`, nil, ""},
		{`5`, `{"jsonrpc":"2.0","error":{"code":-32600,"message":"x"},"id":null}`, nil, ""},
		{`{]`, `{"jsonrpc":"2.0","error":{"code":-32600,"message":"x"},"id":null}`, nil, "wrong-outcome"},
		{`{"jsonrpc":"2.0","method":"ping","id":null}`, ``, []call{{"ping", `[]`}}, ""},
		{`{"jsonrpc":"2.0","method":"ping","id":null}`, `{"jsonrpc":"2.0","result":"pong","id":null}`, []call{{"ping", `[]`}}, ""},
		{`{"jsonrpc":"2.0","method":"ping","id":1.5}`, `{"jsonrpc":"2.0","error":{"code":-32600,"message":"x"},"id":null}`, nil, ""},
		{`{"jsonrpc":"2.0","method":"ping","id":1.5}`, `{"jsonrpc":"2.0","result":"pong","id":1.5}`, []call{{"ping", `[]`}}, ""},
		{`{"jsonrpc":"2.0","method":"ping","id":1.5}`, `{"jsonrpc":"2.0","result":"pong","id":1.5}`, nil, "missing-invocation"},
		{`{"jsonrpc":"2.0","method":"fail","params":["t",44],"id":1}`, `{"jsonrpc":"2.0","error":{"code":44,"message":"app","data":{"m":"fail","a":["t",44]}},"id":1}`, []call{{"fail", `["t",44]`}}, ""},
		{`{"jsonrpc":"2.0","method":"opt","params":{"tag":"t","n":1,"o2":[1,2]},"id":1}`, `{"jsonrpc":"2.0","result":{"m":"opt","a":["t",1,null,[1,2]]},"id":1}`, []call{{"opt", `["t",1,null,[1,2]]`}}, ""},
		{`{"jsonrpc":"2.0","method":"opt","params":{"tag":"t","n":1,"o2":[1,2]},"id":1}`, `{"jsonrpc":"2.0","result":{"m":"opt","a":["t",1,1,[1,2]]},"id":1}`, []call{{"opt", `["t",1,1,[1,2]]`}}, "wrong-payload"},
		{`{"jsonrpc":"2.0","method":"vstruct","params":["t",{"A":0}],"id":1}`, `{"jsonrpc":"2.0","result":{"m":"vstruct","a":["t",{"A":0,"B":""}]},"id":1}`, []call{{"vstruct", `["t",{"A":0,"B":""}]`}}, "wrong-outcome"},
		{`{"jsonrpc":"1.0","method":"ping","id":[1]}`, `{"jsonrpc":"2.0","error":{"code":-32600,"message":"x"},"id":[1]}`, nil, "ill-typed-id-echoed"},
		{`{"jsonrpc":"1.0","method":"ping","id":[1]}`, `{"jsonrpc":"2.0","error":{"code":-32600,"message":"x"},"id":null}`, nil, ""},
		{`[{"jsonrpc":"2.0","method":"nope"},{"jsonrpc":"1.0","method":"ping","id":{}}]`, `[{"jsonrpc":"2.0","error":{"code":-32600,"message":"x"},"id":{}},{"jsonrpc":"2.0","error":{"code":-32601,"message":"x"},"id":null}]`, nil, "ill-typed-id-echoed+notification-answered"},
		{req + "x", okOut, []call{subCall}, ""},
		{req + "x", `{"jsonrpc":"2.0","error":{"code":-32700,"message":"x"},"id":null}`, nil, ""},
		{req + "x", `{"jsonrpc":"2.0","error":{"code":-32700,"message":"x"},"id":null}`, []call{subCall}, "unexpected-response"},
		{`[` + req + `,{"jsonrpc":"2.0","method":"echo","params":["u"]}]`, `[` + okOut + `]`, []call{{"echo", `["u"]`}, subCall}, ""},
		{`[` + req + `,{"jsonrpc":"2.0","method":"echo","params":["u"]}]`, `[` + okOut + `]`, []call{subCall}, "missing-invocation"},
		{`[{"jsonrpc":"2.0","method":"echo","params":["u"]}]`, `[]`, []call{{"echo", `["u"]`}}, "malformed-output:empty-array"},
		// decoder-specific parameters: rejected, or accepted consistently
		{`{"jsonrpc":"2.0","method":"sub","params":["t",null,3],"id":7}`, `{"jsonrpc":"2.0","error":{"code":-32602,"message":"x"},"id":7}`, nil, ""},
		{`{"jsonrpc":"2.0","method":"sub","params":["t",null,3],"id":7}`, `{"jsonrpc":"2.0","result":{"m":"sub","a":["t",0,3]},"id":7}`, []call{{"sub", `["t",0,3]`}}, ""},
		{`{"jsonrpc":"2.0","method":"sub","params":["t",null,3],"id":7}`, `{"jsonrpc":"2.0","result":{"m":"sub","a":["t",0,3]},"id":7}`, []call{{"sub", `["t",1,3]`}}, "args-mismatch"},
		{`{"jsonrpc":"2.0","method":"sub","params":["t",null,3],"id":7}`, `{"jsonrpc":"2.0","result":{"m":"sub","a":["t",0,3]},"id":8}`, []call{{"sub", `["t",0,3]`}}, "wrong-"},
		{`{"jsonrpc":"2.0","method":"sub","params":["t",null,3],"id":7}`, `{"jsonrpc":"2.0","error":{"code":-32602,"message":"x"},"id":7}`, []call{{"sub", `["t",0,3]`}}, "handler-invoked"},
		{`{"jsonrpc":"2.0","method":"sub","params":["t",null,3]}`, ``, []call{{"sub", `["t",0,3]`}}, ""},
		{`{"jsonrpc":"2.0","method":"sub","params":["t",null,3]}`, ``, nil, ""},
		{`{"jsonrpc":"2.0","method":"sub","params":["t",null,3]}`, ``, []call{{"sub", `["t",0,3]`}, {"sub", `["t",0,3]`}}, "handler-invoked-more-than-once"},
		// ambiguous envelope: any consistent reading
		{`{"jsonrpc":"2.0","method":"ping","id":1,"id":2}`, `{"jsonrpc":"2.0","result":"pong","id":2}`, []call{{"ping", `[]`}}, ""},
		{`{"jsonrpc":"2.0","method":"ping","id":1,"id":2}`, `{"jsonrpc":"2.0","result":"pong","id":1}`, []call{{"ping", `[]`}}, ""},
		{`{"jsonrpc":"2.0","method":"ping","id":1,"id":2}`, `{"jsonrpc":"2.0","result":"pong","id":3}`, []call{{"ping", `[]`}}, "wrong-id"},
		{`{"jsonrpc":"2.0","METHOD":"ping","id":1}`, `{"jsonrpc":"2.0","result":"pong","id":1}`, []call{{"ping", `[]`}}, ""},
		{`{"jsonrpc":"2.0","METHOD":"ping","id":1}`, `{"jsonrpc":"2.0","error":{"code":-32600,"message":"x"},"id":1}`, nil, ""},
		{`{"jsonrpc":"2.0","METHOD":"ping","id":1}`, `{"jsonrpc":"2.0","error":{"code":-32600,"message":"x"},"id":1}`, []call{{"ping", `[]`}}, "handler-invoked"},
		{`{"jsonrpc":"2.0","method":"nullres","params":["t"],"id":1}`, `{"jsonrpc":"2.0","result":null,"id":1}`, []call{{"nullres", `["t"]`}}, ""},
	}
	for i, c := range cases {
		ex := classify([]byte(c.in))
		res := judgeExecution(&ex, []byte(c.out), c.calls)
		if res.incon != "" {
			return fmt.Errorf("self-test %d: inconclusive %s", i, res.incon)
		}
		if c.want == "" && res.class != "" {
			return fmt.Errorf("self-test %d: %s / %s judged %q (%s), want held", i, c.in, c.out, res.class, res.detail)
		}
		if c.want != "" && !strings.HasPrefix(res.class, c.want) {
			return fmt.Errorf("self-test %d: %s / %s judged %q, want %q...", i, c.in, c.out, res.class, c.want)
		}
	}
	return nil
}

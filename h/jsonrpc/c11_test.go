package vjsonrpc

import (
	"bytes"
	"compress/gzip"
	"context"
	"fmt"
	"io"
	"net"
	"net/http"
	"net/http/httptest"
	"sort"
	"strconv"
	"strings"
	"sync"
	"testing"
	"time"

	"github.com/NethermindEth/juno/jsonrpc"
	"github.com/NethermindEth/juno/utils/log"
	"github.com/NethermindEth/juno/verifh/lib"
	"github.com/coder/websocket"
)

// hangLimit is the one wall-clock verdict of the design: a small request that
// is not answered within this time (normal: microseconds) counts as a hang.
const hangLimit = 60 * time.Second

type execution struct {
	out     []byte
	calls   []call
	problem string // transport-level anomaly (class suffix), "" if none
	detail  string
}

// rwBuf is the io.ReadWriter handed to HandleReadWriter.
type rwBuf struct {
	r      *bytes.Reader
	mu     sync.Mutex
	out    bytes.Buffer
	writes int
}

func (b *rwBuf) Read(p []byte) (int, error) { return b.r.Read(p) }
func (b *rwBuf) Write(p []byte) (int, error) {
	b.mu.Lock()
	defer b.mu.Unlock()
	b.writes++
	return b.out.Write(p)
}

var transports = []string{"HandleReader", "HandleReadWriter", "HTTP", "HTTP+gzip"}

// segReader hands its content out in pieces (TCP segments of an HTTP body, websocket frames):
// sizes follow a seeded pattern that mixes tiny, medium (just under / over the server's 128- and
// 512-byte buffer sizes) and large reads. What a request means cannot depend on how it was cut up.
type segReader struct {
	b    []byte
	seed uint64
	n    int
}

func (s *segReader) Read(p []byte) (int, error) {
	if len(s.b) == 0 {
		return 0, io.EOF
	}
	s.seed = s.seed*6364136223846793005 + 1442695040888963407
	sizes := []int{1, 7, 100, 127, 128, 129, 300, 511, 512, 513, 600, 104, 2000}
	k := sizes[int(s.seed>>33)%len(sizes)]
	k = min(k, len(s.b), len(p))
	copy(p, s.b[:k])
	s.b = s.b[k:]
	s.n++
	return k, nil
}

func runTransport(s *hsrv, tr string, in []byte) (ex execution) {
	switch tr {
	case "HandleReader+context-already-cancelled", "HandleReader+context-cancelled-by-first-handler":
		// The caller's context ends while (or before) the message is served - a server-side request
		// timeout, a client that went away. The test handlers ignore their context, so every request
		// must still get its one response: what was asked for is independent of the deadline.
		ctx, cancel := context.WithCancel(context.Background())
		defer cancel()
		if tr == "HandleReader+context-already-cancelled" {
			cancel()
		} else {
			s.rec.mu.Lock()
			s.rec.onFirst = cancel
			s.rec.mu.Unlock()
			defer func() {
				s.rec.mu.Lock()
				s.rec.onFirst = nil
				s.rec.mu.Unlock()
			}()
		}
		out, hdr, err := s.srv.HandleReader(ctx, bytes.NewReader(in))
		if err != nil {
			return execution{problem: "handler-error", detail: err.Error()}
		}
		if hdr == nil {
			return execution{problem: "nil-header", detail: "HandleReader returned a nil http.Header"}
		}
		ex.out = out
	case "HandleReader+segmented":
		out, hdr, err := s.srv.HandleReader(context.Background(), &segReader{b: in, seed: uint64(len(in))*2654435761 + uint64(in[len(in)/2])})
		if err != nil {
			return execution{problem: "handler-error", detail: err.Error()}
		}
		if hdr == nil {
			return execution{problem: "nil-header", detail: "HandleReader returned a nil http.Header"}
		}
		ex.out = out
	case "HTTP+segmented":
		req := httptest.NewRequest(http.MethodPost, "/", &segReader{b: in, seed: uint64(len(in))*40503 + uint64(in[0])})
		w := httptest.NewRecorder()
		s.http.ServeHTTP(w, req)
		if w.Code != http.StatusOK {
			return execution{problem: "http-status-" + strconv.Itoa(w.Code), detail: w.Body.String()}
		}
		ex.out = append([]byte{}, w.Body.Bytes()...)
	case "HandleReader":
		out, hdr, err := s.srv.HandleReader(context.Background(), bytes.NewReader(in))
		if err != nil {
			return execution{problem: "handler-error", detail: err.Error()}
		}
		if hdr == nil {
			return execution{problem: "nil-header", detail: "HandleReader returned a nil http.Header"}
		}
		ex.out = out
	case "HandleReadWriter":
		rw := &rwBuf{r: bytes.NewReader(in)}
		if err := s.srv.HandleReadWriter(context.Background(), 0, rw); err != nil {
			return execution{problem: "handler-error", detail: err.Error()}
		}
		if rw.writes > 1 {
			return execution{problem: "response-written-in-pieces", detail: fmt.Sprintf("%d writes for one message", rw.writes)}
		}
		ex.out = append([]byte{}, rw.out.Bytes()...)
	default:
		req := httptest.NewRequest(http.MethodPost, "/", bytes.NewReader(in))
		if tr == "HTTP+gzip" {
			req.Header.Set("Accept-Encoding", "gzip")
		}
		w := httptest.NewRecorder()
		s.http.ServeHTTP(w, req)
		if w.Code != http.StatusOK {
			return execution{problem: "http-status-" + strconv.Itoa(w.Code), detail: w.Body.String()}
		}
		body := w.Body.Bytes()
		if len(body) > 0 {
			if ct := w.Header().Get("Content-Type"); ct != "application/json" {
				return execution{problem: "http-content-type", detail: ct}
			}
		}
		if w.Header().Get("Content-Encoding") == "gzip" {
			zr, err := gzip.NewReader(bytes.NewReader(body))
			if err != nil {
				return execution{problem: "http-gzip", detail: err.Error()}
			}
			body, err = io.ReadAll(zr)
			if err != nil {
				return execution{problem: "http-gzip", detail: err.Error()}
			}
		} else if cl := w.Header().Get("Content-Length"); cl != "" && cl != strconv.Itoa(len(body)) {
			return execution{problem: "http-content-length", detail: cl + " != " + strconv.Itoa(len(body))}
		}
		ex.out = append([]byte{}, body...)
	}
	return ex
}

// execute runs one input through one transport under the hang watchdog; a
// panic in Juno code is caught here so that the witness names the transport.
func execute(s *hsrv, tr string, in []byte) (ex execution, hung bool) {
	done := make(chan execution, 1)
	go func() {
		defer func() {
			if p := recover(); p != nil {
				done <- execution{problem: "panic", detail: fmt.Sprint(p)}
			}
		}()
		done <- runTransport(s, tr, in)
	}()
	t := time.NewTimer(hangLimit)
	defer t.Stop()
	select {
	case ex = <-done:
		ex.calls = s.rec.take()
		return ex, false
	case <-t.C:
		return execution{}, true
	}
}

type witness struct {
	Transport string   `json:"transport"`
	Pool      int      `json:"pool_workers"`
	Category  string   `json:"category"`
	Input     string   `json:"input"`
	InputLen  int      `json:"input_len"`
	Output    string   `json:"output"`
	Calls     []call   `json:"handler_invocations"`
	Expected  []string `json:"expected_per_request"`
	Detail    string   `json:"detail"`
}

func clip(s string, n int) string {
	if len(s) <= n {
		return s
	}
	return s[:n/2] + fmt.Sprintf(" ...(%d bytes)... ", len(s)-n) + s[len(s)-n/2:]
}

func describeExpect(ex *expectation) []string {
	var out []string
	for i, e := range ex.entries {
		if i >= 12 {
			out = append(out, fmt.Sprintf("...(%d entries)", len(ex.entries)))
			break
		}
		a := e.alts
		s := e.desc + " =>"
		for j, x := range a {
			if j > 0 {
				s += " |"
			}
			if len(x.resp) == 0 {
				s += " no-response"
			} else {
				s += " " + clip(strings.Join(x.resp, " or "), 300)
			}
			if x.inv != "" {
				s += " + invoke " + clip(x.inv, 200)
			}
		}
		out = append(out, s)
	}
	if ex.lenient != "" {
		out = append(out, "lenient oracle: "+ex.lenient)
	}
	return out
}

func mkWitness(tr string, pool int, cat string, in []byte, e execution, ex *expectation, detail string) witness {
	c := e.calls
	if len(c) > 12 {
		c = c[:12]
	}
	return witness{Transport: tr, Pool: pool, Category: cat, Input: clip(string(in), 40000), InputLen: len(in),
		Output: clip(string(e.out), 40000), Calls: c, Expected: describeExpect(ex), Detail: detail}
}

// structural key of an input = category + container + sorted request kinds
func structKey(cat string, ex *expectation) string {
	ds := make([]string, 0, len(ex.entries))
	for _, e := range ex.entries {
		ds = append(ds, e.desc)
	}
	sort.Strings(ds)
	if len(ds) > 16 {
		ds = append(ds[:16], fmt.Sprintf("+%d", len(ds)-16))
	}
	return fmt.Sprintf("%s|b=%v|l=%s|%s", cat, ex.batch, ex.lenient, strings.Join(ds, ","))
}

func countExpectation(r *lib.Run, ex *expectation) {
	for _, e := range ex.entries {
		d := e.desc
		if i := strings.IndexByte(d, '+'); i >= 0 {
			for _, soft := range strings.Split(d[i+1:], "+") {
				r.Count("requests.latitude."+soft, 1)
			}
			d = d[:i]
		}
		if i := strings.Index(d, ":valid:"); i >= 0 {
			r.Count("requests.valid-call."+d[i+7:], 1)
		}
		r.Count("requests."+baseDesc(d), 1)
	}
}

// checkInput runs one input through all in-process transports.
func checkInput(r *lib.Run, idx int, cat string, in []byte, pool int, sample bool) {
	ex := classify(in)
	s := getSrv(pool)
	healthy := true
	// every input goes through HandleReader and one of the three wrapping transports
	trs := []string{transports[0], transports[1+idx%3]}
	if ex.batch || idx%8 == 0 {
		trs = append(trs, []string{"HandleReader+context-already-cancelled", "HandleReader+context-cancelled-by-first-handler"}[idx/3%2])
	}
	if len(in) > 200 {
		trs = append(trs, []string{"HandleReader+segmented", "HTTP+segmented"}[idx%2])
	}
	for _, tr := range trs {
		e, hung := execute(s, tr, in)
		r.Eval(1)
		r.Count("executions."+tr, 1)
		if hung {
			r.Violation("hang:"+tr, idx, "request not answered within 60 s", mkWitness(tr, pool, cat, in, e, &ex, "no answer within the hang limit"))
			healthy = false
			break
		}
		if e.problem != "" {
			cls := e.problem + ":" + tr
			if e.problem == "panic" {
				cls = "panic:" + tr + ":" + baseDesc(firstDesc(&ex))
			}
			r.Violation(cls, idx, e.problem+": "+clip(e.detail, 300), mkWitness(tr, pool, cat, in, e, &ex, e.detail))
			continue
		}
		res := judgeExecution(&ex, e.out, e.calls)
		switch {
		case res.incon != "":
			r.Inconclusive(res.incon)
		case res.class != "":
			r.Violation(res.class, idx, tr+": "+clip(res.detail, 400), mkWitness(tr, pool, cat, in, e, &ex, res.detail))
		}
		if tr == "HandleReader" {
			r.Count("handler_invocations_checked", len(e.calls))
			if len(e.out) == 0 {
				r.Count("outputs.empty", 1)
			} else if ex.batch {
				r.Count("outputs.array", 1)
			} else {
				r.Count("outputs.object", 1)
			}
			if sample && res.class == "" && res.incon == "" {
				r.Sample(map[string]any{"case": idx, "category": cat, "pool_workers": pool, "input": clip(string(in), 600),
					"expected": describeExpect(&ex), "output": clip(string(e.out), 600), "handler_invocations": e.calls})
			}
		}
	}
	if healthy {
		putSrv(s)
	}
	if ex.lenient != "" {
		r.Count("inputs.lenient-oracle."+ex.lenient, 1)
	} else {
		r.Count("inputs.full-oracle", 1)
	}
	if ex.invalidJSON {
		r.Count("inputs.invalid-json", 1)
	}
	r.Count("inputs.category."+cat, 1)
	r.Count("pool_workers."+strconv.Itoa(pool), 1)
	if ex.batch {
		r.Count("batches", 1)
		r.Count("batch_entries", len(ex.entries))
	}
	countExpectation(r, &ex)
	r.Case(structKey(cat, &ex))
}

func firstDesc(ex *expectation) string {
	if len(ex.entries) == 0 {
		return "?"
	}
	return ex.entries[0].desc
}

// ---------------------------------------------------------------- concurrent batches on one server

func concurrentCase(r *lib.Run, idx int) {
	k := idx - concBase
	rng := lib.Rng("C11/concurrent", uint64(k))
	pool := 1 + k%16
	s := newHsrv(pool) // not cached: shared by several goroutines here
	clients := 2 + rng.IntN(7)
	type job struct {
		in  []byte
		tr  string
		pre string
	}
	var jobs []job
	for c := 0; c < clients; c++ {
		nb := 1 + rng.IntN(3)
		for b := 0; b < nb; b++ {
			pre := fmt.Sprintf("c%db%d_", c, b)
			g := newGen(lib.Rng("C11/concurrent/gen", uint64(k)<<16|uint64(c)<<8|uint64(b)), pre)
			// tagged methods only: the invocation log is split per batch by tag prefix
			var parts []string
			n := 1 + rng.IntN(120)
			for len(parts) < n {
				var req string
				for {
					// keep the tag (first argument) intact so that invocations can be attributed
					sw, ds := g.feats["params:swapped"], g.feats["params:decoder-specific"]
					req = g.request(g.p(75))
					cx := classify([]byte(req))
					d := firstDesc(&cx)
					if !strings.Contains(d, "ping") && !strings.Contains(d, "allopt") && d != "ambiguous-envelope" && len(cx.entries[0].unsure) == 0 &&
						sw == g.feats["params:swapped"] && ds == g.feats["params:decoder-specific"] {
						break
					}
				}
				parts = append(parts, req)
			}
			in := "[" + strings.Join(parts, ",") + "]"
			if rng.IntN(6) == 0 {
				in = parts[0] // a single request among the batches
			}
			jobs = append(jobs, job{in: []byte(in), tr: []string{"HandleReader", "HTTP", "HandleReadWriter"}[rng.IntN(3)], pre: pre})
		}
	}
	outs := make([]execution, len(jobs))
	var wg sync.WaitGroup
	done := make(chan struct{})
	for i := range jobs {
		wg.Add(1)
		go func() {
			defer wg.Done()
			defer func() {
				if p := recover(); p != nil {
					outs[i] = execution{problem: "panic", detail: fmt.Sprint(p)}
				}
			}()
			outs[i] = runTransport(s, jobs[i].tr, jobs[i].in)
		}()
	}
	go func() { wg.Wait(); close(done) }()
	select {
	case <-done:
	case <-time.After(hangLimit):
		r.Violation("hang:concurrent-batches", idx, "concurrent batches not answered within 60 s",
			map[string]any{"pool_workers": pool, "clients": clients, "batches": len(jobs)})
		return
	}
	calls := s.rec.take()
	byPre := map[string][]call{}
	for _, c := range calls {
		pre := ""
		if i := strings.Index(c.Args, `["`); i == 0 {
			if j := strings.IndexByte(c.Args[2:], '_'); j >= 0 {
				pre = c.Args[2 : 2+j+1]
			}
		}
		byPre[pre] = append(byPre[pre], c)
	}
	for i, j := range jobs {
		ex := classify(j.in)
		e := outs[i]
		e.calls = byPre[j.pre]
		delete(byPre, j.pre)
		r.Eval(1)
		r.Count("concurrent.batches", 1)
		r.Count("concurrent.entries", len(ex.entries))
		if e.problem != "" {
			r.Violation(e.problem+":"+j.tr, idx, e.problem+": "+clip(e.detail, 300), mkWitness(j.tr, pool, "concurrent", j.in, e, &ex, e.detail))
			continue
		}
		res := judgeExecution(&ex, e.out, e.calls)
		switch {
		case res.incon != "":
			r.Inconclusive(res.incon)
		case res.class != "":
			r.Violation(res.class, idx, "concurrent batches, "+j.tr+": "+clip(res.detail, 400), mkWitness(j.tr, pool, "concurrent", j.in, e, &ex, res.detail))
		}
	}
	for pre, cs := range byPre {
		r.Violation("concurrent:handler-invoked-for-no-request", idx, fmt.Sprintf("%d invocations with tag prefix %q belong to no submitted batch", len(cs), pre),
			map[string]any{"pool_workers": pool, "calls": cs[:min(len(cs), 5)]})
	}
	r.Count("concurrent.rounds", 1)
	r.Count("concurrent.pool_workers."+strconv.Itoa(pool), 1)
	r.Case(fmt.Sprintf("concurrent|pool=%d|clients=%d|jobs=%d", pool, clients, len(jobs)))
}

// ---------------------------------------------------------------- websocket transport over loopback

func websocketPhase(r *lib.Run, nConns, perConn int) {
	l, err := net.Listen("tcp", "127.0.0.1:0")
	if err != nil {
		r.Assume("websocket transport NOT exercised: loopback listen failed in this sandbox (" + err.Error() + "); HandleReadWriter, which it wraps, is exercised directly")
		return
	}
	l.Close()
	var wg sync.WaitGroup
	for c := 0; c < nConns; c++ {
		wg.Add(1)
		go func() {
			defer wg.Done()
			defer func() {
				if p := recover(); p != nil {
					r.Violation("panic:websocket-client-side", c, fmt.Sprint(p), nil)
				}
			}()
			websocketConn(r, c, perConn)
		}()
	}
	wg.Wait()
	r.Cases(r.N(24, 200), 0, func(idx int) { websocketSlots(r, idx) })
}

// websocketSlots: the websocket endpoint admits a bounded number of connections. Whatever arrives
// at it - plain GET / POST requests, handshakes with a foreign Origin or a bad version, valid
// clients that connect, talk and leave - a valid client must still be admitted and answered as long
// as fewer connections than the bound are open ("neither crashes nor hangs ... for every input").
func websocketSlots(r *lib.Run, idx int) {
	rng := lib.Rng("C11/ws-slots", uint64(idx))
	slots := int64(2 + rng.IntN(4))
	s := newHsrv(2)
	ws := jsonrpc.NewWebsocket(s.srv, nil, log.NewNopZapLogger()).WithMaxConnections(slots)
	ts := httptest.NewServer(ws)
	defer ts.Close()
	ctx, cancel := context.WithTimeout(context.Background(), hangLimit)
	defer cancel()
	open := []*websocket.Conn{}
	defer func() {
		for _, c := range open {
			c.Close(websocket.StatusNormalClosure, "")
		}
	}()
	refused, served := 0, 0
	probe := func(when string) bool {
		conn, resp, err := websocket.Dial(ctx, ts.URL, nil) //nolint:bodyclose
		if err != nil {
			code := 0
			if resp != nil {
				code = resp.StatusCode
			}
			r.Violation("websocket:valid-client-refused-although-slots-are-free", idx,
				fmt.Sprintf("%s: %d of %d connection slots are in use, %d handshakes were refused and %d clients served and gone before; a valid client is turned away (HTTP %d): %v", when, len(open), slots, refused, served, code, err),
				map[string]any{"slots": slots, "open": len(open), "refused_handshakes_before": refused, "clients_served_before": served})
			return false
		}
		msg := fmt.Sprintf(`{"jsonrpc":"2.0","method":"ping","id":"slot-%d-%d"}`, idx, served)
		want := fmt.Sprintf(`{"jsonrpc":"2.0","result":"pong","id":"slot-%d-%d"}`, idx, served)
		if err := conn.Write(ctx, websocket.MessageText, []byte(msg)); err == nil {
			if _, m, err := conn.Read(ctx); err != nil || string(m) != want {
				r.Violation("websocket:admitted-client-not-answered", idx, fmt.Sprintf("%s: reply %q err %v", when, m, err), nil)
			}
		}
		conn.Close(websocket.StatusNormalClosure, "")
		served++
		s.rec.take()
		return true
	}
	steps := 3*int(slots) + rng.IntN(8)
	for i := 0; i < steps; i++ {
		switch x := rng.IntN(10); {
		case x < 6:
			// a request that is not (or not an acceptable) websocket handshake
			var req *http.Request
			switch rng.IntN(4) {
			case 0:
				req, _ = http.NewRequestWithContext(ctx, http.MethodGet, ts.URL, http.NoBody)
			case 1:
				req, _ = http.NewRequestWithContext(ctx, http.MethodPost, ts.URL, strings.NewReader(`{"jsonrpc":"2.0","method":"ping","id":1}`))
			case 2:
				req, _ = http.NewRequestWithContext(ctx, http.MethodGet, ts.URL, http.NoBody)
				req.Header.Set("Connection", "Upgrade")
				req.Header.Set("Upgrade", "websocket")
				req.Header.Set("Sec-WebSocket-Version", "13")
				req.Header.Set("Sec-WebSocket-Key", "dGhlIHNhbXBsZSBub25jZQ==")
				req.Header.Set("Origin", "https://elsewhere.example")
			default:
				req, _ = http.NewRequestWithContext(ctx, http.MethodGet, ts.URL, http.NoBody)
				req.Header.Set("Connection", "Upgrade")
				req.Header.Set("Upgrade", "websocket")
				req.Header.Set("Sec-WebSocket-Version", "7")
				req.Header.Set("Sec-WebSocket-Key", "dGhlIHNhbXBsZSBub25jZQ==")
			}
			if resp, err := http.DefaultClient.Do(req); err == nil {
				if resp.StatusCode == http.StatusSwitchingProtocols {
					r.Count("websocket_slots.odd_handshake_accepted", 1)
				} else {
					refused++
				}
				resp.Body.Close()
			}
		case x < 8 && int64(len(open)) < slots-1:
			if conn, _, err := websocket.Dial(ctx, ts.URL, nil); err == nil { //nolint:bodyclose
				open = append(open, conn) // a client that stays
			}
		case x == 8 && len(open) > 0:
			open[0].Close(websocket.StatusNormalClosure, "")
			open = open[1:]
		default:
			if !probe(fmt.Sprintf("step %d", i)) {
				return
			}
		}
	}
	ok := probe("end")
	r.Eval(steps + 1)
	r.Count("websocket_slots.scenarios", 1)
	r.Count("websocket_slots.refused_handshakes", refused)
	r.Count("websocket_slots.valid_clients_served", served)
	if ok && refused >= int(slots) {
		r.Count("websocket_slots.scenarios_with_more_refusals_than_slots", 1)
	}
	r.Case(fmt.Sprintf("ws-slots|%d|refused=%d|served=%d", slots, min(refused, 9), min(served, 5)))
}

func websocketConn(r *lib.Run, c, perConn int) {
	s := newHsrv(1 + c%16)
	ws := jsonrpc.NewWebsocket(s.srv, nil, log.NewNopZapLogger())
	ts := httptest.NewServer(ws)
	defer ts.Close()
	ctx, cancel := context.WithCancel(context.Background())
	defer cancel()
	dial := func() *websocket.Conn {
		conn, _, err := websocket.Dial(ctx, ts.URL, nil) //nolint:bodyclose
		if err != nil {
			r.Inconclusive("websocket-dial")
			return nil
		}
		conn.SetReadLimit(64 << 20)
		return conn
	}
	conn := dial()
	if conn == nil {
		return
	}
	defer func() { conn.Close(websocket.StatusNormalClosure, "") }()
	for k := 0; k < perConn; k++ {
		idx := wsBase + c*perConn + k
		if r.Skip(idx) {
			continue
		}
		g := newGen(lib.Rng("C11/ws", uint64(idx)), "w")
		inS, cat := g.input()
		in := []byte(inS)
		if len(in) > 1<<20 {
			continue
		}
		ex := classify(in)
		sentinel := fmt.Sprintf(`{"jsonrpc":"2.0","method":"ping","id":"__sentinel_%d"}`, idx)
		wantSentinel := fmt.Sprintf(`{"jsonrpc":"2.0","result":"pong","id":"__sentinel_%d"}`, idx)
		rctx, rcancel := context.WithTimeout(ctx, hangLimit)
		var msgs [][]byte
		fail := ""
		if err := conn.Write(rctx, websocket.MessageBinary, in); err != nil {
			fail = "write:" + err.Error()
		} else if err := conn.Write(rctx, websocket.MessageText, []byte(sentinel)); err != nil {
			fail = "write-sentinel:" + err.Error()
		} else {
			for {
				_, m, err := conn.Read(rctx)
				if err != nil {
					fail = "read:" + err.Error()
					break
				}
				if string(m) == wantSentinel {
					break
				}
				msgs = append(msgs, m)
				if len(msgs) > 3 {
					break
				}
			}
		}
		timedOut := rctx.Err() != nil
		rcancel()
		r.Eval(1)
		r.Count("executions.websocket", 1)
		calls := s.rec.take()
		// drop the sentinel's own invocation
		for i := len(calls) - 1; i >= 0; i-- {
			if calls[i].Method == "ping" {
				calls = append(calls[:i], calls[i+1:]...)
				break
			}
		}
		e := execution{calls: calls}
		if len(msgs) > 0 {
			e.out = msgs[0]
		}
		switch {
		case timedOut:
			r.Violation("hang:websocket", idx, "websocket message not answered within 60 s", mkWitness("websocket", s.pool, cat, in, e, &ex, fail))
			return
		case fail != "":
			r.Violation("websocket-connection-broken", idx, "connection failed after a message: "+clip(fail, 200), mkWitness("websocket", s.pool, cat, in, e, &ex, fail))
			conn.Close(websocket.StatusNormalClosure, "")
			if conn = dial(); conn == nil {
				return
			}
			continue
		case len(msgs) > 1:
			r.Violation("websocket-more-than-one-message", idx, fmt.Sprintf("%d messages for one request message", len(msgs)), mkWitness("websocket", s.pool, cat, in, e, &ex, string(msgs[1])))
			continue
		}
		res := judgeExecution(&ex, e.out, e.calls)
		switch {
		case res.incon != "":
			r.Inconclusive(res.incon)
		case res.class != "":
			r.Violation(res.class, idx, "websocket: "+clip(res.detail, 400), mkWitness("websocket", s.pool, cat, in, e, &ex, res.detail))
		}
		r.Case(structKey("ws:"+cat, &ex))
	}
}

// ---------------------------------------------------------------- entry point

// case index spaces (so that --replay of one case re-runs exactly that case)
const (
	fixedBase = 1_000_000_000
	concBase  = 2_000_000_000
	wsBase    = 3_000_000_000
)

// parallel is lib.Run.Cases for an index space starting at base.
func parallel(r *lib.Run, n, workers, base int, fn func(idx int)) {
	ch := make(chan int)
	var wg sync.WaitGroup
	for w := 0; w < workers; w++ {
		wg.Add(1)
		go func() {
			defer wg.Done()
			for i := range ch {
				func() {
					defer func() {
						if p := recover(); p != nil {
							r.Violation("panic", i, fmt.Sprintf("panic: %v", p), map[string]any{"panic": fmt.Sprint(p)})
						}
					}()
					fn(i)
				}()
			}
		}()
	}
	for i := 0; i < n; i++ {
		if !r.Skip(base + i) {
			ch <- base + i
		}
	}
	close(ch)
	wg.Wait()
}

func TestC11(t *testing.T) {
	r := lib.Start("C11", "exploration")
	if err := selfTest(); err != nil {
		t.Fatalf("oracle self-test failed (harness broken): %v", err)
	}
	n := r.N(50000, 600000)
	t0 := time.Now()
	var featMu sync.Mutex
	feats := map[string]int{}
	r.Cases(n, 0, func(idx int) {
		rng := lib.Rng("C11/input", uint64(idx))
		g := newGen(rng, "t")
		in, cat := g.input()
		pool := 1 + rng.IntN(16)
		checkInput(r, idx, cat, []byte(in), pool, idx < 400 && idx%97 == 3)
		featMu.Lock()
		for k, v := range g.feats {
			feats[k] += v
		}
		featMu.Unlock()
	})
	for k, v := range feats {
		r.Count("generator."+k, v)
	}
	t1 := time.Now()
	// fixed inputs taken from the specification's examples and the boundary of Juno's batch sniffing
	for i, in := range fixedInputs() {
		if !r.Skip(fixedBase + i) {
			checkInput(r, fixedBase+i, "fixed", []byte(in), 1+i%16, false)
		}
	}
	nc := r.N(96, 2400)
	parallel(r, nc, 4, concBase, func(idx int) { concurrentCase(r, idx) })
	parallel(r, r.N(64, 1200), 4, gateBase, func(idx int) { gateCase(r, idx) })
	t2 := time.Now()
	nws := r.N(4000, 100000)
	websocketPhase(r, 8, max(1, nws/8))
	r.Note(fmt.Sprintf("phase wall (informational): generated inputs %.1fs, fixed+concurrent %.1fs, websocket %.1fs", t1.Sub(t0).Seconds(), t2.Sub(t1).Seconds(), time.Since(t2).Seconds()))

	r.Assume("JSON syntax validity and the extent of the first JSON value are decided by encoding/json on both sides (DESIGN C11); the classifier shares no other code with Juno")
	r.Assume("test handlers are total and never panic; handler panics (server.go TODO) are outside this property")
	r.Assume("latitude accepted: single-request envelope decode failures may be -32700 or -32600; id:null may be answered or treated as a notification; " +
		"fractional/exponent ids, params:null, unknown envelope members and an empty method name may be rejected with -32600; trailing bytes after the first value may be ignored or rejected; " +
		"error responses to invalid requests may carry the request id or null")
	r.Assume("requests whose reading is decoder-specific are judged per request against every consistent reading: duplicate / case-variant envelope keys = {exact, case-folded} x {first, last wins}; " +
		"parameters such as null into a non-pointer, 1.0 for an integer, unknown struct fields, duplicate names, integers beyond 2^53 in untyped parameters = either -32602 or an invocation whose recorded arguments the response echoes under the request's id")
	r.Assume("the only wall-clock verdict: a request not answered within 60 s is reported as a hang")
	r.Finish("case = one generated input (grammar over jsonrpc/method/params/id presence and type, ids of every JSON type, positional/named/optional binding, batches mixing valid, invalid, "+
		"notification and non-object entries, byte-level mutations, arbitrary bytes, deep nesting, huge numbers) sent through HandleReader and one of HandleReadWriter / HTTP / HTTP+gzip (rotating) on a server with a "+
		"1..16-worker pool and 16 recording handlers, plus websocket messages over loopback and rounds of concurrent batches on one shared server; an independent classifier derives per request the acceptable "+
		"responses {id, result echo | error code} and the required handler invocation; the monitor requires: no panic/hang, empty output iff nothing must be answered, otherwise well-formed JSON-RPC 2.0 "+
		"(object for single, array for batch, version, id member, exactly one of result/error), and a one-to-one assignment of responses and recorded invocations (with exact arguments) to requests; "+
		"distinct = distinct (category, container, multiset of request kinds)", 500)
}

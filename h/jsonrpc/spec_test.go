package vjsonrpc

import (
	"bytes"
	"encoding/json"
	"fmt"
	"io"
	"math"
	"math/big"
	"sort"
	"strconv"
	"strings"
)

// ---------------------------------------------------------------- JSON tree (keeps duplicate keys and number literals)

type node struct {
	k    byte // 'o' object, 'a' array, 's' string, 'n' number, 'b' bool, 'z' null
	s    string
	b    bool
	keys []string
	kids []*node
}

// firstValue splits the input into the first JSON value (validity decided by
// encoding/json, as DESIGN C11 prescribes) and whatever follows it.
func firstValue(in []byte) (raw json.RawMessage, rest []byte, err error) {
	dec := json.NewDecoder(bytes.NewReader(in))
	if err = dec.Decode(&raw); err != nil {
		return nil, nil, err
	}
	off := dec.InputOffset()
	return raw, in[off:], nil
}

// parseTree parses a known-valid JSON text.
func parseTree(raw []byte) (*node, error) {
	dec := json.NewDecoder(bytes.NewReader(raw))
	dec.UseNumber()
	n, err := parseTok(dec)
	if err != nil {
		return nil, err
	}
	if _, err := dec.Token(); err != io.EOF {
		return nil, fmt.Errorf("trailing data after JSON value")
	}
	return n, nil
}

func parseTok(dec *json.Decoder) (*node, error) {
	t, err := dec.Token()
	if err != nil {
		return nil, err
	}
	switch v := t.(type) {
	case json.Delim:
		switch v {
		case '{':
			n := &node{k: 'o'}
			for dec.More() {
				kt, err := dec.Token()
				if err != nil {
					return nil, err
				}
				ks, ok := kt.(string)
				if !ok {
					return nil, fmt.Errorf("non-string key")
				}
				kid, err := parseTok(dec)
				if err != nil {
					return nil, err
				}
				n.keys = append(n.keys, ks)
				n.kids = append(n.kids, kid)
			}
			if _, err := dec.Token(); err != nil {
				return nil, err
			}
			return n, nil
		case '[':
			n := &node{k: 'a'}
			for dec.More() {
				kid, err := parseTok(dec)
				if err != nil {
					return nil, err
				}
				n.kids = append(n.kids, kid)
			}
			if _, err := dec.Token(); err != nil {
				return nil, err
			}
			return n, nil
		}
		return nil, fmt.Errorf("unexpected delimiter %v", v)
	case string:
		return &node{k: 's', s: v}, nil
	case json.Number:
		return &node{k: 'n', s: string(v)}, nil
	case bool:
		return &node{k: 'b', b: v}, nil
	case nil:
		return &node{k: 'z'}, nil
	}
	return nil, fmt.Errorf("unexpected token %T", t)
}

func (n *node) get(key string) (*node, int) {
	var out *node
	cnt := 0
	for i, k := range n.keys {
		if k == key {
			out = n.kids[i]
			cnt++
		}
	}
	return out, cnt
}

func (n *node) hasDupKeys() bool {
	seen := map[string]bool{}
	for _, k := range n.keys {
		if seen[k] {
			return true
		}
		seen[k] = true
	}
	return false
}

func isIntLit(lit string) bool { return !strings.ContainsAny(lit, ".eE") }

const maxExact = 1 << 53

// normNum gives one canonical text per numeric value as far as the
// comparison needs it: exact for integers in int64, float64 otherwise.
func normNum(lit string) string {
	if isIntLit(lit) {
		if v, err := strconv.ParseInt(lit, 10, 64); err == nil {
			return strconv.FormatInt(v, 10)
		}
	}
	f, err := strconv.ParseFloat(lit, 64)
	if err != nil && !math.IsInf(f, 0) {
		return "lit:" + lit
	}
	if !math.IsInf(f, 0) && f == math.Trunc(f) && math.Abs(f) <= maxExact {
		return strconv.FormatInt(int64(f), 10)
	}
	return "f:" + strconv.FormatFloat(f, 'g', -1, 64)
}

// canon renders a tree with sorted keys and canonical numbers; two JSON
// texts with equal canon() denote the same value.
func canon(n *node) string {
	var sb strings.Builder
	canonTo(&sb, n)
	return sb.String()
}

func canonTo(sb *strings.Builder, n *node) {
	switch n.k {
	case 'o':
		idx := make([]int, len(n.keys))
		for i := range idx {
			idx[i] = i
		}
		sort.SliceStable(idx, func(a, b int) bool { return n.keys[idx[a]] < n.keys[idx[b]] })
		sb.WriteByte('{')
		for j, i := range idx {
			if j > 0 {
				sb.WriteByte(',')
			}
			sb.WriteString(strconv.Quote(n.keys[i]))
			sb.WriteByte(':')
			canonTo(sb, n.kids[i])
		}
		sb.WriteByte('}')
	case 'a':
		sb.WriteByte('[')
		for i, k := range n.kids {
			if i > 0 {
				sb.WriteByte(',')
			}
			canonTo(sb, k)
		}
		sb.WriteByte(']')
	case 's':
		sb.WriteString(strconv.Quote(n.s))
	case 'n':
		sb.WriteString(normNum(n.s))
	case 'b':
		if n.b {
			sb.WriteString("true")
		} else {
			sb.WriteString("false")
		}
	default:
		sb.WriteString("null")
	}
}

func canonID(n *node) string {
	switch n.k {
	case 's':
		return strconv.Quote(n.s)
	case 'n':
		if isIntLit(n.s) {
			lit := n.s
			neg := strings.HasPrefix(lit, "-")
			d := strings.TrimPrefix(lit, "-")
			if d == "0" {
				return "0"
			}
			if neg {
				return "-" + d
			}
			return d
		}
		return normNum(n.s)
	case 'z':
		return "null"
	}
	return "?"
}

// ---------------------------------------------------------------- parameter judges

type verdict int

const (
	vValid verdict = iota
	vInvalid
	vUnsure // the specification leaves the decoding to the server: outcome completed from the observation (expandUnsure)
)

func judgeInt(n *node) (verdict, string) {
	switch n.k {
	case 'n':
		if isIntLit(n.s) {
			if v, err := strconv.ParseInt(n.s, 10, 64); err == nil {
				return vValid, strconv.FormatInt(v, 10)
			}
			return vInvalid, ""
		}
		r, ok := new(big.Rat).SetString(n.s)
		if !ok {
			return vUnsure, ""
		}
		if !r.IsInt() {
			return vInvalid, ""
		}
		if r.Num().IsInt64() {
			return vUnsure, "" // 1.0, 1e2: integral value, non-integer literal
		}
		return vInvalid, ""
	case 'z':
		return vUnsure, ""
	}
	return vInvalid, ""
}

func judgeStruct(n *node) (verdict, string) {
	switch n.k {
	case 'o':
		if n.hasDupKeys() {
			return vUnsure, ""
		}
		a, b := "0", `""`
		for i, k := range n.keys {
			switch k {
			case "A":
				v, c := judgeInt(n.kids[i])
				if v != vValid {
					return v, ""
				}
				a = c
			case "B":
				if n.kids[i].k == 'z' {
					return vUnsure, ""
				}
				if n.kids[i].k != 's' {
					return vInvalid, ""
				}
				b = strconv.Quote(n.kids[i].s)
			default:
				return vUnsure, "" // unknown / case-variant field: decoder-specific
			}
		}
		av, _ := strconv.ParseInt(a, 10, 64)
		if av < 1 {
			return vInvalid, "" // validator rule min=1
		}
		return vValid, `{"A":` + a + `,"B":` + b + `}`
	case 'z':
		return vInvalid, "" // zero struct fails the validator, a strict decoder rejects null: -32602 either way
	}
	return vInvalid, ""
}

// treeAny renders an arbitrary value for an `any` parameter; unsure for
// things whose Go decoding is lossy (duplicate keys, integers beyond 2^53).
func anyOK(n *node) bool {
	switch n.k {
	case 'o':
		if n.hasDupKeys() {
			return false
		}
		for _, k := range n.kids {
			if !anyOK(k) {
				return false
			}
		}
	case 'a':
		for _, k := range n.kids {
			if !anyOK(k) {
				return false
			}
		}
	case 'n':
		if _, err := strconv.ParseFloat(n.s, 64); err != nil {
			return false
		}
		if isIntLit(n.s) {
			v, err := strconv.ParseInt(n.s, 10, 64)
			if err != nil || v > maxExact || v < -maxExact {
				return false
			}
		}
	}
	return true
}

func judge(kind pkind, n *node) (verdict, string) {
	switch kind {
	case kString:
		switch n.k {
		case 's':
			return vValid, strconv.Quote(n.s)
		case 'z':
			return vUnsure, ""
		}
		return vInvalid, ""
	case kPtrString:
		switch n.k {
		case 's':
			return vValid, strconv.Quote(n.s)
		case 'z':
			return vValid, "null"
		}
		return vInvalid, ""
	case kInt:
		return judgeInt(n)
	case kPtrInt:
		if n.k == 'z' {
			return vValid, "null"
		}
		return judgeInt(n)
	case kBool:
		switch n.k {
		case 'b':
			if n.b {
				return vValid, "true"
			}
			return vValid, "false"
		case 'z':
			return vUnsure, ""
		}
		return vInvalid, ""
	case kIntSlice:
		switch n.k {
		case 'z':
			return vValid, "null"
		case 'a':
			parts := make([]string, len(n.kids))
			for i, k := range n.kids {
				v, c := judgeInt(k)
				if v != vValid {
					return v, ""
				}
				parts[i] = c
			}
			return vValid, "[" + strings.Join(parts, ",") + "]"
		}
		return vInvalid, ""
	case kAny:
		if !anyOK(n) {
			return vUnsure, ""
		}
		return vValid, canon(n)
	case kMapAny:
		switch n.k {
		case 'z':
			return vValid, "null"
		case 'o':
			if !anyOK(n) {
				return vUnsure, ""
			}
			return vValid, canon(n)
		}
		return vInvalid, ""
	case kStruct:
		return judgeStruct(n)
	case kPtrStruct:
		if n.k == 'z' {
			return vValid, "null"
		}
		return judgeStruct(n)
	case kStructSlice:
		switch n.k {
		case 'z':
			return vValid, "null"
		case 'a':
			parts := make([]string, len(n.kids))
			for i, k := range n.kids {
				v, c := judgeStruct(k)
				if v != vValid {
					return v, ""
				}
				parts[i] = c
			}
			return vValid, "[" + strings.Join(parts, ",") + "]"
		}
		return vInvalid, ""
	case kStructSliceSlice, kPtrStructSliceSlice:
		switch n.k {
		case 'z':
			return vValid, "null"
		case 'a':
			parts := make([]string, len(n.kids))
			for i, kid := range n.kids {
				switch kid.k {
				case 'z':
					parts[i] = "null"
				case 'a':
					inner := make([]string, len(kid.kids))
					for j, e := range kid.kids {
						if kind == kPtrStructSliceSlice && e.k == 'z' {
							inner[j] = "null"
							continue
						}
						v, c := judgeStruct(e)
						if v != vValid {
							return v, ""
						}
						inner[j] = c
					}
					parts[i] = "[" + strings.Join(inner, ",") + "]"
				default:
					return vInvalid, ""
				}
			}
			return vValid, "[" + strings.Join(parts, ",") + "]"
		}
		return vInvalid, ""
	case kMapStructSlice:
		switch n.k {
		case 'z':
			return vValid, "null"
		case 'o':
			if n.hasDupKeys() {
				return vUnsure, ""
			}
			idx := make([]int, len(n.keys))
			for i := range idx {
				idx[i] = i
			}
			sort.Slice(idx, func(a, b int) bool { return n.keys[idx[a]] < n.keys[idx[b]] })
			parts := make([]string, 0, len(idx))
			for _, i := range idx {
				v, c := judge(kStructSlice, n.kids[i])
				if v != vValid {
					return v, ""
				}
				parts = append(parts, strconv.Quote(n.keys[i])+":"+c)
			}
			return vValid, "{" + strings.Join(parts, ",") + "}"
		}
		return vInvalid, ""
	case kMapPtrStruct:
		switch n.k {
		case 'z':
			return vValid, "null"
		case 'o':
			if n.hasDupKeys() {
				return vUnsure, ""
			}
			idx := make([]int, len(n.keys))
			for i := range idx {
				idx[i] = i
			}
			sort.Slice(idx, func(a, b int) bool { return n.keys[idx[a]] < n.keys[idx[b]] })
			parts := make([]string, 0, len(idx))
			for _, i := range idx {
				c := "null"
				if n.kids[i].k != 'z' {
					var v verdict
					v, c = judgeStruct(n.kids[i])
					if v != vValid {
						return v, ""
					}
				}
				parts = append(parts, strconv.Quote(n.keys[i])+":"+c)
			}
			return vValid, "{" + strings.Join(parts, ",") + "}"
		}
		return vInvalid, ""
	}
	return vUnsure, ""
}

func zeroOf(kind pkind) string {
	switch kind {
	case kString:
		return `""`
	case kInt:
		return "0"
	case kBool:
		return "false"
	}
	return "null"
}

// bind applies the JSON-RPC parameter rules (by-position / by-name, optional
// tail, unknown names rejected) for method m to the params member.
func bind(m *mspec, params *node) (verdict, []string) {
	required := 0
	for _, p := range m.Params {
		if !p.Optional {
			required++
		}
	}
	args := make([]string, len(m.Params))
	for i, p := range m.Params {
		args[i] = zeroOf(p.Kind)
	}
	if params == nil || len(params.kids) == 0 {
		if required > 0 {
			return vInvalid, nil
		}
		return vValid, args
	}
	unsure := false
	switch params.k {
	case 'a':
		if len(params.kids) < required || len(params.kids) > len(m.Params) {
			return vInvalid, nil
		}
		for i, k := range params.kids {
			v, c := judge(m.Params[i].Kind, k)
			switch v {
			case vInvalid:
				return vInvalid, nil
			case vUnsure:
				unsure = true
			}
			args[i] = c
		}
	case 'o':
		for _, k := range params.keys {
			known := false
			for _, p := range m.Params {
				known = known || p.Name == k
			}
			if !known {
				return vInvalid, nil // unknown parameter name
			}
		}
		if params.hasDupKeys() {
			return vUnsure, nil
		}
		used := 0
		for i, p := range m.Params {
			k, cnt := params.get(p.Name)
			if cnt == 0 {
				if !p.Optional {
					return vInvalid, nil
				}
				continue
			}
			used++
			v, c := judge(p.Kind, k)
			switch v {
			case vInvalid:
				return vInvalid, nil
			case vUnsure:
				unsure = true
			}
			args[i] = c
		}
		if used != len(params.keys) {
			return vInvalid, nil // unknown parameter names
		}
	}
	if unsure {
		return vUnsure, nil
	}
	return vValid, args
}

// ---------------------------------------------------------------- expected outcomes

var protoCodes = map[int]bool{-32700: true, -32600: true, -32601: true, -32602: true}

func errKey(code int, id string, dataCanon string) string {
	if protoCodes[code] {
		return fmt.Sprintf("E%d|%s", code, id)
	}
	return fmt.Sprintf("A%d|%s|%s", code, id, dataCanon)
}

func resKey(id, resultCanon string) string { return "R|" + id + "|" + resultCanon }

func invKey(method string, args []string) string {
	return method + "|[" + strings.Join(args, ",") + "]"
}

func echoCanon(method string, args []string) string {
	return `{"a":[` + strings.Join(args, ",") + `],"m":` + strconv.Quote(method) + `}`
}

// alt is one acceptable joint outcome for a request entry.
type alt struct {
	resp []string // acceptable response keys; empty = no response
	inv  string   // handler invocation this outcome implies ("" = none)
}

type entry struct {
	desc string
	alts []alt // alts[0] is the plain reading of the specification
	// notifErr: for a notification that fails (unknown method / bad params) the
	// error response a server would send if it wrongly answered notifications;
	// used only to name that deviation precisely.
	notifErr string
	notifWhy string
	// unsure: calls whose parameter decoding the specification leaves open;
	// their acceptable outcomes are completed from the observation (expandUnsure).
	unsure []unsureSpec
}

// mode: whether (and under which id) a request is answered.
type mode struct {
	respond bool
	id      string
}

type unsureSpec struct {
	ms    *mspec
	modes []mode
}

type expectation struct {
	invalidJSON bool
	batch       bool // output must be an array (or nothing)
	entries     []entry
	whole       []string // alternative whole-input answers (single object, no invocation)
	lenient     string   // non-empty: why only the well-formedness oracle applies
	leadingWS   int      // JSON whitespace bytes before the first value
	maxEntries  int
}

func keysFor(codes []int, ids []string) []string {
	var out []string
	for _, c := range codes {
		for _, id := range ids {
			out = append(out, errKey(c, id, ""))
		}
	}
	return out
}

func foldsToEnvelope(k string) bool {
	for _, e := range []string{"jsonrpc", "method", "params", "id"} {
		if k != e && strings.EqualFold(k, e) {
			return true
		}
	}
	return false
}

var envelopeKeys = []string{"jsonrpc", "method", "params", "id"}

func envelopeName(k string, fold bool) string {
	for _, e := range envelopeKeys {
		if k == e || (fold && strings.EqualFold(k, e)) {
			return e
		}
	}
	return ""
}

// classifyEntry: a request object whose envelope keys are duplicated or differ
// only in case has no single reading (RFC 8259 leaves duplicate names open, Go
// matches keys case-insensitively); every consistent reading is accepted:
// {exact, case-folded} x {first, last occurrence wins}.
func classifyEntry(n *node, inBatch bool) entry {
	ambiguous := false
	if n.k == 'o' {
		cnt := map[string]int{}
		for _, k := range n.keys {
			if foldsToEnvelope(k) {
				ambiguous = true
			}
			if e := envelopeName(k, false); e != "" {
				cnt[e]++
				if cnt[e] > 1 {
					ambiguous = true
				}
			}
		}
	}
	if !ambiguous {
		return classifyPlain(n, inBatch)
	}
	out := entry{desc: "ambiguous-envelope"}
	seen := map[string]bool{}
	addAlts := func(e entry) {
		for _, a := range e.alts {
			k := strings.Join(a.resp, "\x00") + "\x01" + a.inv
			if !seen[k] {
				seen[k] = true
				out.alts = append(out.alts, a)
			}
		}
		out.unsure = append(out.unsure, e.unsure...)
		if out.notifErr == "" {
			out.notifErr, out.notifWhy = e.notifErr, e.notifWhy
		}
	}
	badType := false
	for _, fold := range []bool{true, false} {
		for _, last := range []bool{true, false} {
			for _, nullNoop := range []bool{false, true} {
				// nullNoop: an occurrence with value null leaves what another occurrence of the same member
				// set (encoding/json: null into a non-pointer field is a no-op, so `"jsonrpc":"2.0","jsonrpc":null`
				// reads as "2.0")
				occ := map[string]int{}
				for i, k := range n.keys {
					if e := envelopeName(k, fold); e != "" && n.kids[i].k != 'z' {
						occ[e]++
					}
				}
				v := &node{k: 'o'}
				pos := map[string]int{}
				extra := false
				for i, k := range n.keys {
					e := envelopeName(k, fold)
					if e == "" {
						extra = true
						continue
					}
					if nullNoop && n.kids[i].k == 'z' && occ[e] > 0 {
						continue
					}
					if (e == "jsonrpc" || e == "method") && n.kids[i].k != 's' {
						badType = true
					}
					if j, ok := pos[e]; ok {
						if last {
							v.kids[j] = n.kids[i]
						}
						continue
					}
					pos[e] = len(v.keys)
					v.keys = append(v.keys, e)
					v.kids = append(v.kids, n.kids[i])
				}
				if extra {
					v.keys = append(v.keys, "x-other-member")
					v.kids = append(v.kids, &node{k: 'z'})
				}
				addAlts(classifyPlain(v, inBatch))
			}
		}
	}
	if badType {
		// any ill-typed occurrence may fail the envelope decoding
		codes := []int{-32600}
		if !inBatch {
			codes = []int{-32700, -32600}
		}
		ids := []string{"null"}
		for i, k := range n.keys {
			if envelopeName(k, true) == "id" && (n.kids[i].k == 's' || n.kids[i].k == 'n') {
				ids = append(ids, canonID(n.kids[i]))
			}
		}
		addAlts(entry{alts: []alt{{resp: keysFor(codes, ids)}}})
	}
	return out
}

func classifyPlain(n *node, inBatch bool) entry {
	envCodes := []int{-32700, -32600}
	if inBatch {
		envCodes = []int{-32600}
	}
	if n.k != 'o' {
		return entry{desc: "non-object", alts: []alt{{resp: keysFor(envCodes, []string{"null"})}}}
	}
	ver, c1 := n.get("jsonrpc")
	meth, c2 := n.get("method")
	params, c3 := n.get("params")
	id, c4 := n.get("id")
	unknownMembers := len(n.keys) - c1 - c2 - c3 - c4

	// --- id
	const (
		idAbsent = iota
		idNull
		idOK
		idFrac
		idBad
	)
	idClass, idCanon := idAbsent, ""
	if id != nil {
		switch id.k {
		case 'z':
			idClass = idNull
		case 's':
			idClass, idCanon = idOK, canonID(id)
		case 'n':
			idClass, idCanon = idOK, canonID(id)
			if !isIntLit(id.s) {
				idClass = idFrac
			}
		default:
			idClass = idBad
		}
	}
	errIDs := []string{"null"}
	if idClass == idOK || idClass == idFrac {
		errIDs = append(errIDs, idCanon)
	}

	// --- envelope shape
	typeMismatch := (ver != nil && ver.k != 's') || (meth != nil && meth.k != 's')
	hard := ver == nil || (ver.k == 's' && ver.s != "2.0") || meth == nil || idClass == idBad ||
		(params != nil && (params.k == 's' || params.k == 'n' || params.k == 'b'))
	if typeMismatch {
		codes := envCodes
		if !inBatch {
			codes = []int{-32700, -32600}
		}
		if idClass == idBad {
			errIDs = []string{"null"}
		}
		return entry{desc: "invalid-request:member-type", alts: []alt{{resp: keysFor(codes, errIDs)}}}
	}
	if hard {
		if idClass == idBad {
			errIDs = []string{"null"}
		}
		return entry{desc: "invalid-request", alts: []alt{{resp: keysFor([]int{-32600}, errIDs)}}}
	}

	var e entry
	var soft []string
	if params != nil && params.k == 'z' {
		soft = append(soft, "params-null")
		params = nil
	}
	if unknownMembers > 0 {
		soft = append(soft, "extra-member")
	}
	if idClass == idFrac {
		soft = append(soft, "fractional-id")
	}

	// respond modes
	var modes []mode
	switch idClass {
	case idAbsent:
		modes = []mode{{false, ""}}
	case idNull:
		modes = []mode{{false, ""}, {true, "null"}}
	default:
		modes = []mode{{true, idCanon}}
	}
	notif := idClass == idAbsent || idClass == idNull

	add := func(desc string, mk func(m mode) alt) {
		e.desc = desc
		for _, m := range modes {
			e.alts = append(e.alts, mk(m))
		}
	}
	prefix := "call"
	if notif {
		prefix = "notification"
	}
	if idClass == idNull {
		prefix = "null-id"
	}

	switch ms, found := methodByName[meth.s]; {
	case meth.s == "":
		// "" is a String, so -32601 is defensible; Juno's tests pin -32600
		add(prefix+":empty-method", func(m mode) alt {
			if m.respond {
				return alt{resp: []string{errKey(-32600, m.id, ""), errKey(-32600, "null", ""), errKey(-32601, m.id, "")}}
			}
			return alt{resp: []string{errKey(-32600, "null", "")}}
		})
		if notif {
			e.alts = append(e.alts, alt{})
		}
	case !found:
		add(prefix+":unknown-method", func(m mode) alt {
			if m.respond {
				return alt{resp: []string{errKey(-32601, m.id, "")}}
			}
			return alt{}
		})
		if idClass == idAbsent {
			e.notifErr, e.notifWhy = errKey(-32601, "null", ""), "unknown-method"
		}
	default:
		v, args := bind(ms, params)
		switch v {
		case vUnsure:
			e.desc = prefix + ":decoder-specific-params"
			e.unsure = []unsureSpec{{ms: ms, modes: modes}}
			if idClass == idAbsent {
				e.notifErr, e.notifWhy = errKey(-32602, "null", ""), "bad-params"
			}
		case vInvalid:
			add(prefix+":bad-params", func(m mode) alt {
				if m.respond {
					return alt{resp: []string{errKey(-32602, m.id, "")}}
				}
				return alt{}
			})
			if idClass == idAbsent {
				e.notifErr, e.notifWhy = errKey(-32602, "null", ""), "bad-params"
			}
		default:
			ik := invKey(ms.Name, args)
			add(prefix+":valid:"+ms.Name, func(m mode) alt {
				if !m.respond {
					return alt{inv: ik}
				}
				switch ms.Reply {
				case replyConst:
					return alt{resp: []string{resKey(m.id, strconv.Quote(map[string]string{"ping": "pong", "ctxping": "ctxpong"}[ms.Name]))}, inv: ik}
				case replyAppErr:
					code, _ := strconv.Atoi(args[1])
					return alt{resp: []string{errKey(code, m.id, echoCanon(ms.Name, args))}, inv: ik}
				case replyNullPtr:
					return alt{resp: []string{resKey(m.id, "null")}, inv: ik}
				}
				return alt{resp: []string{resKey(m.id, echoCanon(ms.Name, args))}, inv: ik}
			})
		}
	}
	if len(soft) > 0 {
		// latitude: a server may also reject these as Invalid Request
		e.alts = append(e.alts, alt{resp: keysFor([]int{-32600}, errIDs)})
		e.desc += "+" + strings.Join(soft, "+")
	}
	return e
}

// classify is the independent specification classifier: input bytes -> what a
// conforming JSON-RPC 2.0 server may answer and which handlers it must run.
func classify(in []byte) expectation {
	raw, rest, err := firstValue(in)
	if err != nil {
		return expectation{invalidJSON: true, maxEntries: 1, entries: []entry{{desc: "invalid-json", alts: []alt{{resp: []string{errKey(-32700, "null", "")}}}}}}
	}
	top, err := parseTree(raw)
	if err != nil {
		// cannot happen for a value encoding/json accepted; keep it visible
		return expectation{lenient: "harness-tree-parser-rejected-valid-json", maxEntries: 1 << 20}
	}
	var ex expectation
	ex.leadingWS = len(in) - len(bytes.TrimLeft(in, " \t\r\n"))
	if len(bytes.TrimLeft(rest, " \t\r\n")) > 0 {
		// trailing bytes may be ignored - or the whole input rejected
		ex.whole = []string{errKey(-32700, "null", ""), errKey(-32600, "null", "")}
	}
	if top.k == 'a' {
		if len(top.kids) == 0 {
			ex.entries = []entry{{desc: "empty-batch", alts: []alt{{resp: []string{errKey(-32600, "null", "")}}}}}
			ex.maxEntries = 1
			return ex
		}
		ex.batch = true
		for _, k := range top.kids {
			ex.entries = append(ex.entries, classifyEntry(k, true))
		}
		ex.maxEntries = len(top.kids)
		return ex
	}
	ex.entries = []entry{classifyEntry(top, false)}
	ex.maxEntries = 1
	return ex
}

// ---------------------------------------------------------------- observed output

type obsResp struct {
	key     string
	kind    string // "result", "E-32601", "app-error"
	id      string
	badID   bool   // id member is neither string, number nor null
	nullKey string // key with the id read as null (badID only)
}

// parseOutput checks well-formedness of the bytes a transport returned.
// problem != "" describes the first malformation (class suffix).
func parseOutput(out []byte) (resps []obsResp, isArray bool, problem string) {
	if len(out) == 0 {
		return nil, false, ""
	}
	raw, rest, err := firstValue(out)
	if err != nil {
		return nil, false, "not-json"
	}
	if len(bytes.TrimSpace(rest)) > 0 {
		return nil, false, "trailing-bytes-after-json"
	}
	top, err := parseTree(raw)
	if err != nil {
		return nil, false, "not-json"
	}
	var objs []*node
	switch top.k {
	case 'o':
		objs = []*node{top}
	case 'a':
		isArray = true
		if len(top.kids) == 0 {
			return nil, true, "empty-array"
		}
		objs = top.kids
	default:
		return nil, false, "top-level-scalar"
	}
	for _, o := range objs {
		r, p := parseResp(o)
		if p != "" {
			return nil, isArray, p
		}
		resps = append(resps, r)
	}
	return resps, isArray, ""
}

func parseResp(o *node) (obsResp, string) {
	if o.k != 'o' {
		return obsResp{}, "response-not-an-object"
	}
	if o.hasDupKeys() {
		return obsResp{}, "response-duplicate-member"
	}
	for _, k := range o.keys {
		switch k {
		case "jsonrpc", "result", "error", "id":
		default:
			return obsResp{}, "response-unknown-member"
		}
	}
	ver, _ := o.get("jsonrpc")
	if ver == nil || ver.k != 's' || ver.s != "2.0" {
		return obsResp{}, "response-version-not-2.0"
	}
	id, c := o.get("id")
	if c == 0 {
		return obsResp{}, "response-without-id"
	}
	badID := id.k != 's' && id.k != 'n' && id.k != 'z'
	res, cr := o.get("result")
	er, ce := o.get("error")
	switch {
	case cr == 1 && ce == 1:
		return obsResp{}, "response-with-result-and-error"
	case cr == 0 && ce == 0:
		return obsResp{}, "response-with-neither-result-nor-error"
	}
	idc := canonID(id)
	if badID {
		idc = "<ill-typed:" + canon(id) + ">"
	}
	if cr == 1 {
		return obsResp{key: resKey(idc, canon(res)), kind: "result", id: idc, badID: badID, nullKey: resKey("null", canon(res))}, ""
	}
	if er.k != 'o' || er.hasDupKeys() {
		return obsResp{}, "error-not-an-object"
	}
	code, cc := er.get("code")
	msg, cm := er.get("message")
	data, cd := er.get("data")
	if cc != 1 || code.k != 'n' || !isIntLit(code.s) {
		return obsResp{}, "error-code-not-an-integer"
	}
	if cm != 1 || msg.k != 's' {
		return obsResp{}, "error-message-not-a-string"
	}
	if len(er.keys) != cc+cm+cd {
		return obsResp{}, "error-unknown-member"
	}
	cv, err := strconv.Atoi(code.s)
	if err != nil {
		return obsResp{}, "error-code-not-an-integer"
	}
	dc := ""
	if data != nil {
		dc = canon(data)
	}
	kind := "app-error"
	if protoCodes[cv] {
		kind = fmt.Sprintf("E%d", cv)
	}
	return obsResp{key: errKey(cv, idc, dc), kind: kind, id: idc, badID: badID, nullKey: errKey(cv, "null", dc)}, ""
}

func canonCalls(calls []call) ([]string, string) {
	out := make([]string, len(calls))
	for i, c := range calls {
		t, err := parseTree([]byte(c.Args))
		if err != nil || t.k != 'a' {
			return nil, "harness: unparsable recorded args " + c.Args
		}
		parts := make([]string, len(t.kids))
		for j, k := range t.kids {
			parts[j] = canon(k)
		}
		out[i] = invKey(c.Method, parts)
	}
	return out, ""
}

// ---------------------------------------------------------------- joint matching

type matcher struct {
	entries []entry
	resp    map[string]int
	inv     map[string]int
	nresp   int
	ninv    int
	steps   int
	over    bool
}

const matchBudget = 400000

func (m *matcher) solve(i int) bool {
	if i == len(m.entries) {
		return m.nresp == 0 && m.ninv == 0
	}
	if m.nresp > len(m.entries)-i || m.ninv > len(m.entries)-i {
		return false
	}
	m.steps++
	if m.steps > matchBudget {
		m.over = true
		return false
	}
	for _, a := range m.entries[i].alts {
		if a.inv != "" {
			if m.inv[a.inv] == 0 {
				continue
			}
			m.inv[a.inv]--
			m.ninv--
		}
		if len(a.resp) == 0 {
			if m.solve(i + 1) {
				return true
			}
		} else {
			var tried [4]string
			nt := 0
		keys:
			for _, k := range a.resp {
				if m.resp[k] == 0 {
					continue
				}
				for _, t := range tried[:nt] {
					if t == k {
						continue keys
					}
				}
				if nt < len(tried) {
					tried[nt] = k
					nt++
				}
				m.resp[k]--
				m.nresp--
				if m.solve(i + 1) {
					return true
				}
				m.resp[k]++
				m.nresp++
				if m.over {
					break
				}
			}
		}
		if a.inv != "" {
			m.inv[a.inv]++
			m.ninv++
		}
		if m.over {
			return false
		}
	}
	return false
}

// verdict of one execution
type result struct {
	class   string // "" = held
	detail  string
	incon   string
	lenient bool
}

func kindOfKey(k string) string {
	switch {
	case strings.HasPrefix(k, "R|"):
		return "result"
	case strings.HasPrefix(k, "A"):
		return "app-error"
	case strings.HasPrefix(k, "E"):
		return k[:strings.IndexByte(k, '|')]
	}
	return "?"
}

func payloadOfKey(k string) string {
	p := strings.SplitN(k, "|", 3)
	if len(p) == 3 {
		return p[2]
	}
	return ""
}

func idOfKey(k string) string {
	p := strings.SplitN(k, "|", 3)
	if len(p) >= 2 {
		return p[1]
	}
	return ""
}

// judgeExecution is the monitor: expectation x (output bytes, invocation log).
func judgeExecution(ex *expectation, out []byte, calls []call) result {
	resps, isArray, problem := parseOutput(out)
	if problem != "" {
		return result{class: "malformed-output:" + problem, detail: "output is not a well-formed JSON-RPC 2.0 response (" + problem + ")"}
	}
	obsInv, herr := canonCalls(calls)
	if herr != "" {
		return result{incon: "harness-args"}
	}
	badIDs := 0
	for _, r := range resps {
		if r.badID {
			badIDs++
		}
	}
	if ex.lenient != "" {
		if badIDs > 0 {
			return result{class: "ill-typed-id-echoed", detail: "a response carries an id that is neither string, number nor null", lenient: true}
		}
		if len(resps) > ex.maxEntries {
			return result{class: "more-responses-than-requests", detail: fmt.Sprintf("%d responses for %d request entries", len(resps), ex.maxEntries), lenient: true}
		}
		if len(calls) > ex.maxEntries {
			return result{class: "more-invocations-than-requests", detail: fmt.Sprintf("%d handler invocations for %d request entries", len(calls), ex.maxEntries), lenient: true}
		}
		if ex.batch != isArray && len(out) > 0 {
			return result{class: shapeClass(ex, resps, isArray), detail: "response container does not match the request container", lenient: true}
		}
		return result{lenient: true}
	}
	// whole-input alternative (trailing bytes rejected)
	if len(ex.whole) > 0 && !isArray && len(resps) == 1 && len(calls) == 0 {
		for _, k := range ex.whole {
			if resps[0].key == k {
				return result{}
			}
		}
	}
	if len(out) > 0 && ex.batch != isArray {
		return result{class: shapeClass(ex, resps, isArray), detail: "response container does not match the request container"}
	}
	ex = expandUnsure(ex, resps, obsInv)
	ok, over := trySolve(ex, resps, obsInv, false, false)
	if ok {
		return result{}
	}
	if over {
		return result{incon: "matching-search-budget"}
	}
	// Named deviations: is the execution consistent once exactly this deviation is granted?
	type hyp struct{ id, notif bool }
	for _, h := range []hyp{{true, false}, {false, true}, {true, true}} {
		if h.id && badIDs == 0 {
			continue
		}
		if ok, _ := trySolve(ex, resps, obsInv, h.id, h.notif); !ok {
			continue
		}
		var cls, det []string
		if h.id {
			cls = append(cls, "ill-typed-id-echoed")
			det = append(det, "an Invalid Request response echoes an id that is neither string, number nor null (the specification requires null when the id cannot be determined)")
		}
		if h.notif {
			why := answeredNotifications(ex, resps)
			cls = append(cls, "notification-answered")
			det = append(det, "a notification (request without id) that fails with "+why+" was answered with an error response carrying id null; the specification forbids replying to notifications")
		}
		return result{class: strings.Join(cls, "+"), detail: strings.Join(det, "; ") + ". Everything else in this execution is consistent."}
	}
	c, d := diagnose(ex, resps, obsInv)
	if c == "wrong-outcome:empty-batch:got=E-32700" && ex.leadingWS >= 128 {
		c += ":leading-whitespace>=128"
	}
	return result{class: c, detail: d}
}

// trySolve runs the joint matching; grantID reads ill-typed response ids as
// null, grantNotif lets failing notifications be answered with their error.
func trySolve(ex *expectation, resps []obsResp, obsInv []string, grantID, grantNotif bool) (ok, over bool) {
	m := &matcher{resp: map[string]int{}, inv: map[string]int{}}
	for _, r := range resps {
		k := r.key
		if r.badID && grantID {
			k = r.nullKey
		}
		m.resp[k]++
		m.nresp++
	}
	for _, k := range obsInv {
		m.inv[k]++
		m.ninv++
	}
	ord := make([]entry, len(ex.entries))
	copy(ord, ex.entries)
	if grantNotif {
		for i, e := range ord {
			if e.notifErr != "" {
				ord[i].alts = append(append([]alt{}, e.alts...), alt{resp: []string{e.notifErr}})
			}
		}
	}
	// entries with fewest options first
	sort.SliceStable(ord, func(a, b int) bool { return optCount(ord[a]) < optCount(ord[b]) })
	m.entries = ord
	ok = m.solve(0)
	return ok, m.over
}

func answeredNotifications(ex *expectation, resps []obsResp) string {
	whys := map[string]bool{}
	for _, e := range ex.entries {
		if e.notifErr == "" {
			continue
		}
		for _, r := range resps {
			if r.key == e.notifErr {
				whys[e.notifWhy] = true
			}
		}
	}
	var l []string
	for w := range whys {
		l = append(l, w)
	}
	sort.Strings(l)
	return strings.Join(l, "+")
}

func optCount(e entry) int {
	n := 0
	for _, a := range e.alts {
		n += max(1, len(a.resp))
	}
	return n
}

func shapeClass(ex *expectation, resps []obsResp, isArray bool) string {
	k := "?"
	if len(resps) > 0 {
		k = resps[0].kind
	}
	if ex.batch && !isArray {
		if ex.leadingWS >= 128 {
			return "batch-answered-with-single-object:" + k + ":leading-whitespace>=128"
		}
		return "batch-answered-with-single-object:" + k
	}
	return "single-request-answered-with-array:" + k
}

// baseDesc strips input-specific detail from a request kind so that class
// strings classify the defect, not the input.
func baseDesc(d string) string {
	if i := strings.IndexByte(d, '+'); i >= 0 {
		d = d[:i]
	}
	if i := strings.Index(d, ":valid:"); i >= 0 {
		d = d[:i+6]
	}
	return d
}

// diagnose names the discrepancy that remains after the already-named
// deviations (ill-typed id echoed, failing notification answered) are granted:
// a maximum response<->request matching leaves unmatched responses and
// unanswered requests, which are paired up by id / payload.
func diagnose(ex *expectation, resps []obsResp, obsInv []string) (string, string) {
	entries := make([]entry, len(ex.entries))
	copy(entries, ex.entries)
	for i, e := range entries {
		if e.notifErr != "" {
			for _, r := range resps {
				if r.key == e.notifErr {
					entries[i].alts = append(append([]alt{}, e.alts...), alt{resp: []string{e.notifErr}})
					break
				}
			}
		}
	}
	keys := make([]string, len(resps))
	for i, r := range resps {
		keys[i] = r.key
		if r.badID {
			keys[i] = r.nullKey
			resps[i].id = "null"
		}
	}
	accepts := map[string][]int{} // response key -> entries accepting it
	for j, e := range entries {
		seen := map[string]bool{}
		for _, a := range e.alts {
			for _, k := range a.resp {
				if !seen[k] {
					seen[k] = true
					accepts[k] = append(accepts[k], j)
				}
			}
		}
	}
	// Kuhn's matching in two phases: first cover the requests that must be
	// answered, then place the remaining responses (augmenting paths keep
	// every vertex that is already matched).
	matchE := make([]int, len(entries)) // entry -> response
	for j := range matchE {
		matchE[j] = -1
	}
	matchR := make([]int, len(resps))
	for i := range matchR {
		matchR[i] = -1
	}
	byKey := map[string][]int{} // response key -> response indices
	for i, k := range keys {
		byKey[k] = append(byKey[k], i)
	}
	mustRespond := func(e entry) bool {
		for _, a := range e.alts {
			if len(a.resp) == 0 {
				return false
			}
		}
		return true
	}
	var tryE func(j int, seenR []bool) bool
	var tryR func(i int, seenE []bool) bool
	tryE = func(j int, seenR []bool) bool {
		for _, a := range entries[j].alts {
			for _, k := range a.resp {
				for _, i := range byKey[k] {
					if seenR[i] {
						continue
					}
					seenR[i] = true
					if matchR[i] < 0 || tryE(matchR[i], seenR) {
						matchE[j], matchR[i] = i, j
						return true
					}
				}
			}
		}
		return false
	}
	tryR = func(i int, seenE []bool) bool {
		for _, j := range accepts[keys[i]] {
			if seenE[j] {
				continue
			}
			seenE[j] = true
			if matchE[j] < 0 || tryR(matchE[j], seenE) {
				matchE[j], matchR[i] = i, j
				return true
			}
		}
		return false
	}
	for j, e := range entries {
		if mustRespond(e) {
			tryE(j, make([]bool, len(resps)))
		}
	}
	var unR []int
	for i := range resps {
		if matchR[i] < 0 && !tryR(i, make([]bool, len(entries))) {
			unR = append(unR, i)
		}
	}
	var unE []int
	for j, e := range entries {
		if matchE[j] < 0 && mustRespond(e) {
			unE = append(unE, j)
		}
	}
	desc := func(j int) string { return baseDesc(entries[j].desc) }
	sameID := func(j int, id, kind string) string {
		for _, a := range entries[j].alts {
			for _, k := range a.resp {
				if idOfKey(k) == id && kindOfKey(k) != kind {
					return k
				}
			}
		}
		return ""
	}
	for _, i := range unR {
		r := resps[i]
		for _, j := range unE {
			for _, a := range entries[j].alts {
				for _, k := range a.resp {
					if kindOfKey(k) == r.kind && payloadOfKey(k) == payloadOfKey(keys[i]) && idOfKey(k) != r.id {
						return "wrong-id:" + desc(j) + ":" + r.kind, fmt.Sprintf("response %s carries id %s, request %d (%s) has id %s", clipS(keys[i]), r.id, j, entries[j].desc, idOfKey(k))
					}
				}
			}
		}
		for _, j := range unE {
			if k := sameID(j, r.id, r.kind); k != "" {
				return "wrong-outcome:" + desc(j) + ":got=" + r.kind, fmt.Sprintf("request %d (%s) with id %s: acceptable %s, observed %s", j, entries[j].desc, r.id, clipS(k), clipS(keys[i]))
			}
		}
		if len(accepts[keys[i]]) > 0 {
			return "duplicated-response:" + r.kind, fmt.Sprintf("response %s occurs more often than requests that may produce it (%d)", clipS(keys[i]), len(accepts[keys[i]]))
		}
		for j := range entries {
			if k := sameID(j, r.id, r.kind); k != "" && r.id != "null" {
				return "wrong-outcome:" + desc(j) + ":got=" + r.kind, fmt.Sprintf("request %d (%s) with id %s: acceptable %s, observed %s", j, entries[j].desc, r.id, clipS(k), clipS(keys[i]))
			}
		}
		if r.kind == "result" || r.kind == "app-error" {
			for j, e := range entries {
				for _, a := range e.alts {
					for _, k := range a.resp {
						if kindOfKey(k) == r.kind && idOfKey(k) == r.id {
							return "wrong-payload:" + desc(j) + ":" + r.kind, fmt.Sprintf("request %d (%s): acceptable %s, observed %s", j, e.desc, clipS(k), clipS(keys[i]))
						}
					}
				}
			}
			return "wrong-payload:" + r.kind, fmt.Sprintf("response %s does not echo the arguments of any request", clipS(keys[i]))
		}
		return "unexpected-response:" + r.kind, fmt.Sprintf("response %s matches no request of the input", clipS(keys[i]))
	}
	if len(unE) > 0 {
		j := unE[0]
		return "lost-response:" + desc(j), fmt.Sprintf("no response for request %d (%s); acceptable: %v", j, entries[j].desc, clipS(strings.Join(entries[j].alts[0].resp, " or ")))
	}
	// responses can all be attributed; now the invocations
	allowedInv := map[string][]int{}
	for j, e := range entries {
		for _, a := range e.alts {
			if a.inv != "" {
				allowedInv[a.inv] = append(allowedInv[a.inv], j)
			}
		}
	}
	invCount := map[string]int{}
	for _, k := range obsInv {
		invCount[k]++
	}
	for k, c := range invCount {
		m := k[:strings.IndexByte(k, '|')]
		if len(allowedInv[k]) == 0 {
			for ak, js := range allowedInv {
				if strings.HasPrefix(ak, m+"|") && invCount[ak] == 0 {
					return "args-mismatch:" + desc(js[0]), fmt.Sprintf("handler ran as %s, caller supplied %s", clipS(k), clipS(ak))
				}
			}
			return "handler-invoked-for-invalid-request", fmt.Sprintf("handler ran as %s although no valid request asks for it", clipS(k))
		}
		if c > len(allowedInv[k]) {
			return "handler-invoked-more-than-once", fmt.Sprintf("%s ran %d times for %d request(s)", clipS(k), c, len(allowedInv[k]))
		}
	}
	for j, e := range entries {
		// the alternative that was matched (or the silent ones) decide whether the handler had to run
		need, forbid := "", false
		if i := matchE[j]; i >= 0 {
			for _, a := range e.alts {
				for _, k := range a.resp {
					if k == keys[i] {
						if a.inv != "" {
							need = a.inv
						} else {
							forbid = true
						}
					}
				}
			}
		} else {
			all := true
			for _, a := range e.alts {
				if len(a.resp) == 0 && a.inv == "" {
					all = false
				}
			}
			if all && len(e.alts) > 0 {
				for _, a := range e.alts {
					if len(a.resp) == 0 {
						need = a.inv
					}
				}
			}
		}
		if need != "" && invCount[need] == 0 {
			return "missing-invocation:" + desc(j), fmt.Sprintf("handler was not run for request %d (%s): %s", j, e.desc, clipS(need))
		}
		if forbid && need == "" {
			for _, a := range e.alts {
				if a.inv != "" && invCount[a.inv] > 0 && len(allowedInv[a.inv]) == 1 {
					return "handler-invoked-for-rejected-request:" + desc(j), fmt.Sprintf("request %d (%s) was answered with %s but its handler ran: %s", j, e.desc, clipS(keys[matchE[j]]), clipS(a.inv))
				}
			}
		}
	}
	if len(resps) > len(entries) {
		return "more-responses-than-requests", fmt.Sprintf("%d responses for %d requests", len(resps), len(entries))
	}
	return "no-consistent-assignment", "responses and invocations are individually plausible but cannot be assigned one-to-one to the requests"
}

func clipS(s string) string {
	if len(s) > 300 {
		return s[:150] + "..." + s[len(s)-100:]
	}
	return s
}

// expandUnsure completes requests with decoder-specific parameters: such a
// request is either rejected (-32602, handler not run) or accepted - then its
// response must carry this request's id and echo exactly the arguments of one
// recorded invocation of that method. The candidates are read off the
// observation; the joint matching still uses every response and invocation once.
func expandUnsure(ex *expectation, resps []obsResp, obsInv []string) *expectation {
	any := false
	for _, e := range ex.entries {
		any = any || len(e.unsure) > 0
	}
	if !any {
		return ex
	}
	out := *ex
	out.entries = make([]entry, len(ex.entries))
	copy(out.entries, ex.entries)
	for i, e := range out.entries {
		if len(e.unsure) == 0 {
			continue
		}
		alts := append([]alt{}, e.alts...)
		seen := map[string]bool{}
		add := func(a alt) {
			k := strings.Join(a.resp, "\x00") + "\x01" + a.inv
			if !seen[k] {
				seen[k] = true
				alts = append(alts, a)
			}
		}
		for _, u := range e.unsure {
			suffix := `,"m":` + strconv.Quote(u.ms.Name) + `}`
			for _, m := range u.modes {
				if !m.respond {
					add(alt{})
					for _, k := range obsInv {
						if strings.HasPrefix(k, u.ms.Name+"|") {
							add(alt{inv: k})
						}
					}
					continue
				}
				add(alt{resp: []string{errKey(-32602, m.id, "")}})
				for _, r := range resps {
					if r.id != m.id || r.badID {
						continue
					}
					switch u.ms.Reply {
					case replyNullPtr:
						if r.key == resKey(m.id, "null") {
							for _, k := range obsInv {
								if strings.HasPrefix(k, u.ms.Name+"|") {
									add(alt{resp: []string{r.key}, inv: k})
								}
							}
						}
					default:
						if (u.ms.Reply == replyAppErr) != (r.kind == "app-error") || r.kind == "" || strings.HasPrefix(r.kind, "E") {
							continue
						}
						pl := payloadOfKey(r.key)
						if strings.HasPrefix(pl, `{"a":`) && strings.HasSuffix(pl, suffix) {
							add(alt{resp: []string{r.key}, inv: u.ms.Name + "|" + pl[len(`{"a":`):len(pl)-len(suffix)]})
						}
					}
				}
			}
		}
		out.entries[i].alts = alts
	}
	return &out
}

package vevents

import (
	"fmt"
	"math/rand/v2"
	"os"
	stdsync "sync"
	"sync/atomic"

	"github.com/NethermindEth/juno/blockchain"
	"github.com/NethermindEth/juno/blockchain/networks"
	"github.com/NethermindEth/juno/core"
	"github.com/NethermindEth/juno/core/felt"
	"github.com/NethermindEth/juno/db"
	"github.com/NethermindEth/juno/db/memory"
	"github.com/NethermindEth/juno/db/pebblev2"
	"github.com/NethermindEth/juno/pruner"
	"github.com/NethermindEth/juno/verifh/lib"
	"github.com/NethermindEth/juno/verifh/lib/chain"
)

// workload (ii): chains of 8192 x {1,2} + delta mostly empty blocks, built directly on
// the node under observation with Blockchain.Finalise, event-bearing blocks around the
// window boundaries, then histories of query / revert / regrow-with-different-events /
// restart, and finally a phase with concurrent readers.

var (
	longAddrs   = []felt.Felt{*F(0xA1), *F(0xA2), *F(0xA3), *F(0xB1), *F(0xB2), *F(0xC1)}
	longAddrsQ  = append(append([]felt.Felt{}, longAddrs...), *F(0xDEAD))
	longKeys    = []felt.Felt{*F(1), *F(2), *F(3), *F(4)}
	longKeysQ   = append(append([]felt.Felt{}, longKeys...), *F(99))
	longVersion = "0.14.0"
)

type longSim struct {
	r      *lib.Run
	idx    int
	rng    *rand.Rand
	node   *chain.Node
	e      *env
	forkID uint64
	salt   uint64
	k      uint64 // number of completed windows of the base chain
	dead   bool
}

// pacer bounds the work of reader goroutines relative to the writer's progress
// (budget tokens per writer step) so that readers overlap the writer without spinning.
type pacer struct {
	ch   chan struct{}
	done chan struct{}
}

func newPacer() *pacer { return &pacer{ch: make(chan struct{}, 4096), done: make(chan struct{})} }

func (p *pacer) step(n int) {
	for i := 0; i < n; i++ {
		select {
		case p.ch <- struct{}{}:
		default:
			return
		}
	}
}

func (p *pacer) take() bool {
	select {
	case <-p.ch:
		return true
	case <-p.done:
		return false
	}
}

// mkLongBlock builds block n on parent with nTx transactions carrying the given events.
func (s *longSim) mkLongBlock(n uint64, parent *mBlock, txEvents [][]*core.Event) (*core.Block, *core.StateUpdate) {
	parentHash, oldRoot := &felt.Zero, &felt.Zero
	if parent != nil {
		parentHash, oldRoot = parent.Hash, parent.Root
	}
	rcs := []*core.TransactionReceipt{}
	txs := []core.Transaction{}
	nev := uint64(0)
	for _, evs := range txEvents {
		s.salt++
		tx := &core.InvokeTransaction{
			CallData:             []felt.Felt{*F(s.salt), *F(s.forkID)},
			TransactionSignature: []felt.Felt{*F(1)},
			MaxFee:               F(1),
			Version:              new(core.TransactionVersion).SetUint64(1),
			Nonce:                F(n),
			SenderAddress:        F(5),
		}
		h, err := core.TransactionHash(tx, &networks.Sepolia)
		if err != nil {
			panic(err)
		}
		tx.TransactionHash = &h
		if evs == nil {
			evs = []*core.Event{}
		}
		rcs = append(rcs, &core.TransactionReceipt{Fee: F(1), Events: evs, TransactionHash: &h,
			ExecutionResources: &core.ExecutionResources{TotalGasConsumed: &core.GasConsumed{}}})
		txs = append(txs, tx)
		nev += uint64(len(evs))
	}
	b := &core.Block{Header: &core.Header{
		ParentHash: parentHash, Number: n, SequencerAddress: F(7), Timestamp: 1000 + n + 100000*s.forkID,
		ProtocolVersion: longVersion, EventsBloom: core.EventsBloom(rcs),
		TransactionCount: uint64(len(txs)), EventCount: nev,
		L1GasPriceETH: F(1), L1GasPriceSTRK: F(2), L1DAMode: core.Blob,
		L1DataGasPrice: &core.GasPrice{PriceInWei: F(3), PriceInFri: F(4)},
		L2GasPrice:     &core.GasPrice{PriceInWei: F(5), PriceInFri: F(6)},
	}, Transactions: txs, Receipts: rcs}
	sd := core.EmptyStateDiff()
	return b, &core.StateUpdate{OldRoot: oldRoot, StateDiff: &sd}
}

func (s *longSim) genEvents() [][]*core.Event {
	rng := s.rng
	ntx := 1 + rng.IntN(3)
	out := make([][]*core.Event, ntx)
	// a block's events come mostly from one or two contracts, so that forks differ by contract
	primary := longAddrs[rng.IntN(len(longAddrs))]
	for t := 0; t < ntx; t++ {
		for i := rng.IntN(5); i > 0; i-- {
			from := primary
			if rng.IntN(4) == 0 {
				from = longAddrs[rng.IntN(len(longAddrs))]
			}
			s.salt++
			ev := &core.Event{From: &from, Keys: []felt.Felt{}, Data: []felt.Felt{*F(s.salt)}}
			for k := rng.IntN(4); k > 0; k-- {
				ev.Keys = append(ev.Keys, longKeys[rng.IntN(len(longKeys))])
			}
			out[t] = append(out[t], ev)
		}
	}
	return out
}

// grow appends blocks up to height `to` (inclusive); withEvents decides per height.
func (s *longSim) grow(to uint64, withEvents func(n uint64) bool) {
	t := s.e.t
	for n := uint64(len(t.blocks)); n <= to && !s.dead; n++ {
		var parent *mBlock
		if n > 0 {
			parent = t.blocks[n-1]
		}
		var evs [][]*core.Event
		if withEvents(n) {
			evs = s.genEvents()
			s.r.Count("long_event_blocks", 1)
		}
		b, su := s.mkLongBlock(n, parent, evs)
		if err := s.node.BC.Finalise(b, su, nil, nil); err != nil {
			s.fail(fmt.Sprintf("store block %d", n), err)
			return
		}
		t.push(modelOfBlock(b))
	}
}

func (s *longSim) fail(what string, err error) {
	s.dead = true
	s.e.t.note("%s FAILED: %v", what, err)
	if cls, ok := storeErrClass(err); ok {
		s.r.Violation(cls, s.idx, fmt.Sprintf("[long] %s: %v", what, err), map[string]any{"history": s.e.t.log, "error": err.Error()})
		return
	}
	s.r.Inconclusive("long:" + what + "-failed")
	s.r.Note(fmt.Sprintf("long case %d: %s failed: %s", s.idx, what, shortErr(err)))
}

func (s *longSim) revertTo(head uint64) {
	t := s.e.t
	old := t.head()
	if head >= old {
		return
	}
	cross := (head+1)/window != (old+1)/window // the running filter swaps back to the previous window
	t.note("revert head %d -> %d (depth %d, crosses-window-boundary=%v)", old, head, old-head, cross)
	for t.head() > head {
		if err := s.node.BC.RevertHead(); err != nil {
			s.fail("revert", err)
			return
		}
		t.pop()
	}
	t.reorgs++
	s.r.Count(s.e.tag+"_reorgs", 1)
	s.r.Count(s.e.tag+"_reverted_blocks", int(old-head))
	if cross {
		t.crossReorg++
		s.r.Count("long_reorgs_across_window_boundary", 1)
	}
}

func (s *longSim) regrow(to uint64) {
	s.forkID++
	s.e.t.note("regrow (fork %d) head %d -> %d with different events", s.forkID, s.e.t.head(), to)
	s.grow(to, func(n uint64) bool {
		d := n % window
		if d > window/2 {
			d = window - d
		}
		if d < 10 {
			return s.rng.IntN(10) < 7
		}
		return s.rng.IntN(10) < 3
	})
}

func (s *longSim) restart(graceful bool) {
	t := s.e.t
	t.note("restart graceful=%v at head %d (snapshot on disk from clock %d, next %d)", graceful, t.head(), t.snapClock, t.snapNext)
	if err := s.node.Restart(graceful); err != nil {
		s.fail("restart", err)
		return
	}
	t.restarted(graceful)
	if graceful {
		s.r.Count("graceful_restarts", 1)
	} else {
		s.r.Count("ungraceful_restarts", 1)
		if t.snapClock > 0 {
			s.r.Count("ungraceful_restarts_over_older_snapshot", 1)
		}
	}
}

func (s *longSim) genQuery() (query, bool) {
	rng := s.rng
	t := s.e.t
	head := t.head()
	q := query{F: genFilter(rng, longAddrsQ, longKeysQ, 3)}
	bnd := window * (1 + uint64(rng.IntN(int(s.k))))
	switch x := rng.IntN(20); {
	case x < 7:
		q.From, q.To = 0, head
	case x < 8:
		q.Defaults = true
	case x < 14:
		a, b := uint64(rng.IntN(40)), uint64(rng.IntN(40))
		q.From, q.To = bnd-a, min(head, bnd+b)
	case x < 15:
		q.From, q.To = bnd-uint64(rng.IntN(40)), bnd-1
	case x < 16:
		q.From, q.To = bnd, head
	case x < 18:
		// a block that carries events
		for tries := 0; tries < 50; tries++ {
			n := head - uint64(rng.IntN(int(min(head, 80))+1))
			if len(t.blocks[n].Txs) > 0 {
				q.From, q.To = n, n
				break
			}
		}
		if q.To == 0 {
			q.To = head
		}
	default:
		a, b := uint64(rng.IntN(int(head)+1)), uint64(rng.IntN(int(head)+1))
		if a > b {
			a, b = b, a
		}
		q.From, q.To = a, b
	}
	if q.To > head {
		q.To = head
	}
	span := uint64(0)
	if q.Defaults {
		span = head
	} else if q.To >= q.From {
		span = q.To - q.From
	}
	return q, q.F.wild() && span > 256
}

func (s *longSim) queries(n int) {
	for i := 0; i < n && !s.dead; i++ {
		q, wide := s.genQuery()
		want, _, _ := s.e.expected(q)
		pgs := pagingsFor(s.rng, len(want), wide, 2)
		s.e.check(q, pgs, s.e.t.head()+1)
		pos := "other"
		if !q.Defaults && q.To >= q.From {
			switch {
			case q.From/window != q.To/window:
				pos = "spans-boundary"
			case q.To/window == s.e.t.runningWindow():
				pos = "running-window"
			default:
				pos = "persisted-window"
			}
		}
		s.r.Count("long_queries_"+pos, 1)
		s.r.Case(fmt.Sprintf("long|%s|n%d|%s|%s|x%d|w%d", q.F.shape(), bucket(len(want)), pos, s.e.t.epochKind, min(s.e.t.crossReorg, 3), s.k))
	}
}

// revertTarget picks the new head for one reorg of the given class around boundary bnd.
func (s *longSim) revertTarget(class int, bnd uint64) uint64 {
	rng := s.rng
	head := s.e.t.head()
	var tgt uint64
	switch class {
	case 0: // within the head's window
		ws := head - head%window
		if head == ws {
			tgt = head - 1
		} else {
			tgt = head - 1 - uint64(rng.IntN(int(min(head-ws, 20))))
		}
	case 1: // exactly to the boundary: last block of the old window, its first block, or one before
		tgt = bnd - 2 + uint64(rng.IntN(3))
	case 2: // across the boundary
		tgt = bnd - 2 - uint64(rng.IntN(12))
	default: // down into the previous window
		tgt = bnd - 14 - uint64(rng.IntN(30))
	}
	if tgt >= head {
		tgt = head - 1
	}
	return tgt
}

func (s *longSim) regrowTarget(bnd uint64) uint64 {
	rng := s.rng
	head := s.e.t.head()
	var tgt uint64
	switch rng.IntN(6) {
	case 0: // stay short of the boundary (no rollover)
		tgt = bnd - 2 - uint64(rng.IntN(4))
	case 1: // rollover is the very last insert
		tgt = bnd - 1
	case 2:
		tgt = bnd
	default:
		tgt = bnd + 1 + uint64(rng.IntN(30))
	}
	if tgt <= head {
		tgt = head + 1 + uint64(rng.IntN(4))
	}
	return tgt
}

func (s *longSim) round() {
	rng := s.rng
	if rng.IntN(10) < 8 {
		s.queries(3)
	}
	switch rng.IntN(10) {
	case 0, 1:
		s.restart(true)
	case 2:
		s.restart(false)
	}
	if s.dead {
		return
	}
	bnd := window * s.k
	class := []int{0, 1, 2, 2, 2, 3, 3}[rng.IntN(7)]
	if s.e.t.head() < bnd-1 {
		// head sits in the old window (an earlier regrow stopped short): grow over the boundary first, sometimes
		if rng.IntN(2) == 0 {
			s.regrow(bnd + uint64(rng.IntN(10)))
			s.queries(2)
		} else {
			class = 0
		}
	}
	if s.dead {
		return
	}
	s.revertTo(s.revertTarget(class, bnd))
	if s.dead {
		return
	}
	if rng.IntN(10) < 3 {
		s.queries(2)
	}
	switch rng.IntN(12) {
	case 0:
		s.restart(true)
	case 1:
		s.restart(false)
	}
	if s.dead {
		return
	}
	s.regrow(s.regrowTarget(bnd))
	if s.dead {
		return
	}
	s.queries(4)
	switch rng.IntN(10) {
	case 0, 1:
		s.restart(true)
		s.queries(2)
	case 2, 3:
		s.restart(false)
		s.queries(2)
	}
}

// concurrentPhase: readers issue event queries while the writer reverts and regrows
// across the boundary. The readers' answers are not judged (the chain moves under
// them); the race detector watches, and the exact check runs again after quiescence.
func (s *longSim) concurrentPhase(bnd uint64) {
	t := s.e.t
	bc := s.node.BC
	var wg stdsync.WaitGroup
	var reads, errs atomic.Int64
	t.note("concurrent phase: 4 readers querying while the writer reorgs across %d", bnd)
	// whatever window a reader touches may be cached from now on
	phaseStart := t.tick()
	pc := newPacer()
	for rd := 0; rd < 4; rd++ {
		wg.Add(1)
		rrng := lib.Rng("C09/long/reader", uint64(s.idx*16+rd))
		go func() {
			defer wg.Done()
			for pc.take() {
				f := genFilter(rrng, longAddrsQ, longKeysQ, 3)
				if len(f.Addrs) == 0 {
					f.Addrs = []felt.Felt{longAddrs[rrng.IntN(len(longAddrs))]}
				}
				ef, err := bc.EventFilter(f.addresses(), f.Keys, noPre)
				if err != nil {
					errs.Add(1)
					continue
				}
				if rrng.IntN(2) == 0 {
					ef.SetRangeEndBlockByNumber(blockchain.EventFilterFrom, bnd-uint64(rrng.IntN(60)))
				}
				var tok *blockchain.ContinuationToken
				for p := 0; p < 50; p++ {
					_, next, err := ef.Events(tok, uint64(1+rrng.IntN(8)))
					if err != nil {
						errs.Add(1)
						break
					}
					if next.IsEmpty() {
						break
					}
					tok = &next
				}
				reads.Add(1)
			}
		}()
	}
	for i := 0; i < 3 && !s.dead; i++ {
		pc.step(8)
		tgt := bnd - 2 - uint64(s.rng.IntN(10))
		for s.e.t.head() > tgt && !s.dead {
			s.revertTo(s.e.t.head() - 1 - uint64(s.rng.IntN(3)))
			pc.step(4)
		}
		if s.dead {
			break
		}
		s.forkID++
		up := bnd + 1 + uint64(s.rng.IntN(10))
		t.note("regrow (fork %d) to %d under concurrent readers", s.forkID, up)
		for s.e.t.head() < up && !s.dead {
			s.grow(s.e.t.head()+1, func(uint64) bool { return s.rng.IntN(2) == 0 })
			pc.step(4)
		}
	}
	close(pc.done)
	wg.Wait()
	for w := uint64(0); w <= t.head()/window; w++ {
		if _, ok := t.cachedAt[w]; !ok && w != t.runningWindow() {
			t.cachedAt[w] = phaseStart
		}
	}
	s.r.Count("concurrent_reader_queries", int(reads.Load()))
	s.r.Count("concurrent_reader_errors(not judged)", int(errs.Load()))
}

// hookStore lets the harness act at one precise point of an event query: right after the
// query has read a persisted bloom window from storage (and before it can do anything with it).
// The armed action runs on the reader's own goroutine, inside the store's Get - a delay injected
// at a collaborator boundary; Juno is not touched.
type hookStore struct {
	db.KeyValueStore
	mu      stdsync.Mutex
	afterBloomFetch func()
	fired   int
	// inTxn, if armed, runs once at the start of the next write transaction (Write / Update) of
	// the node - i.e. after the operation was entered and before anything of it is committed -
	// on the writer's own goroutine.
	inTxn      func()
	inTxnFired int
}

func (h *hookStore) takeInTxn() func() {
	h.mu.Lock()
	defer h.mu.Unlock()
	f := h.inTxn
	h.inTxn = nil
	if f != nil {
		h.inTxnFired++
	}
	return f
}

func (h *hookStore) Write(fn func(db.Batch) error) error {
	if f := h.takeInTxn(); f != nil {
		f()
	}
	return h.KeyValueStore.Write(fn)
}

func (h *hookStore) Update(fn func(db.IndexedBatch) error) error {
	if f := h.takeInTxn(); f != nil {
		f()
	}
	return h.KeyValueStore.Update(fn)
}

func (h *hookStore) Get(key []byte, cb func([]byte) error) error {
	err := h.KeyValueStore.Get(key, cb)
	if err == nil && len(key) == 1+db.AggregatedBloomFilterRangeKeySize && key[0] == byte(db.AggregatedBloomFilters) {
		h.mu.Lock()
		f := h.afterBloomFetch
		h.afterBloomFetch = nil
		h.mu.Unlock()
		if f != nil {
			h.fired++
			f()
		}
	}
	return err
}

// fetchOvertakenByReorg: an event query has just fetched the completed window below bnd from
// storage when the chain is reorganised back across bnd and regrown with other events - all of it
// before the query continues. The in-flight query's own answer is not judged; afterwards, on
// the quiescent node, every query must see the replacement blocks' events.
func (s *longSim) fetchOvertakenByReorg(hs *hookStore, bnd uint64) {
	if s.e.t.head() <= bnd {
		return
	}
	s.restart(false) // fresh process: nothing cached
	if s.dead {
		return
	}
	t := s.e.t
	// initialise the (lazy) running filter with a query that stays inside the running window: its
	// initialisation reads persisted windows under the filter's own lock, and the action below must
	// not run inside that (it would be the harness deadlocking itself, on one goroutine)
	if ef, err := s.node.BC.EventFilter(nil, nil, noPre); err == nil {
		_ = ef.SetRangeEndBlockByNumber(blockchain.EventFilterFrom, t.head())
		_ = ef.SetRangeEndBlockByNumber(blockchain.EventFilterTo, t.head())
		_, _, _ = ef.Events(nil, 10)
		ef.Close()
	}
	t.note("directed: a query fetches window [%d,%d] from storage; before it continues the chain is reorganised across %d", bnd-window, bnd-1, bnd)
	hs.mu.Lock()
	hs.afterBloomFetch = func() {
		s.revertTo(bnd - 2 - uint64(s.rng.IntN(6)))
		if !s.dead {
			s.regrow(bnd + 1 + uint64(s.rng.IntN(8)))
		}
	}
	before := hs.fired
	hs.mu.Unlock()
	addr := longAddrs[s.rng.IntN(len(longAddrs))]
	if ef, err := s.node.BC.EventFilter([]felt.Address{felt.Address(addr)}, nil, noPre); err == nil {
		_ = ef.SetRangeEndBlockByNumber(blockchain.EventFilterFrom, bnd-40)
		_ = ef.SetRangeEndBlockByNumber(blockchain.EventFilterTo, bnd-1)
		var tok *blockchain.ContinuationToken
		for p := 0; p < 200; p++ {
			_, next, err := ef.Events(tok, 50)
			if err != nil || next.IsEmpty() {
				break
			}
			tok = &next
		}
		ef.Close()
	}
	hs.mu.Lock()
	hs.afterBloomFetch = nil
	fired := hs.fired > before
	hs.mu.Unlock()
	if fired {
		s.r.Count("long_directed_window_fetch_overtaken_by_reorg", 1)
		w := (bnd - 1) / window
		t.cachedAt[w] = t.tick() // the overtaken query may have cached it (for the classifier)
	} else {
		s.r.Count("long_directed_window_fetch_not_reached", 1)
	}
	if !s.dead {
		s.queries(6)
	}
}

// queryInsideRevert: the head is the last block of a completed (persisted) bloom window. It is
// reverted, and an event query over that window runs after RevertHead was entered and before its
// database transaction commits (the query runs on the reverting goroutine, at the start of the
// transaction: no lock of the node is held there). It may load and cache the window as it still
// is on disk. Then the chain regrows on another fork across the boundary; afterwards, on the
// quiescent node, every query must see the replacement blocks' events.
func (s *longSim) queryInsideRevert(hs *hookStore, bnd uint64) {
	if s.e.t.head() < bnd-1 {
		return
	}
	t := s.e.t
	s.revertTo(bnd - 1)
	if s.dead {
		return
	}
	if s.rng.IntN(2) == 0 {
		s.restart(false) // fresh process: nothing cached
		if s.dead {
			return
		}
	}
	if ef, err := s.node.BC.EventFilter(nil, nil, noPre); err == nil {
		_ = ef.SetRangeEndBlockByNumber(blockchain.EventFilterFrom, t.head())
		_ = ef.SetRangeEndBlockByNumber(blockchain.EventFilterTo, t.head())
		_, _, _ = ef.Events(nil, 10)
		ef.Close()
	}
	t.note("directed: head %d is the last block of window [%d,%d]; while it is being reverted (transaction open) a query loads that window", bnd-1, bnd-window, bnd-1)
	addr := longAddrs[s.rng.IntN(len(longAddrs))]
	hs.mu.Lock()
	before := hs.inTxnFired
	hs.inTxn = func() {
		ef, err := s.node.BC.EventFilter([]felt.Address{felt.Address(addr)}, nil, noPre)
		if err != nil {
			return
		}
		defer ef.Close()
		_ = ef.SetRangeEndBlockByNumber(blockchain.EventFilterFrom, bnd-40)
		_ = ef.SetRangeEndBlockByNumber(blockchain.EventFilterTo, bnd-1)
		var tok *blockchain.ContinuationToken
		for p := 0; p < 200; p++ {
			_, next, err := ef.Events(tok, 50)
			if err != nil || next.IsEmpty() {
				break
			}
			tok = &next
		}
	}
	hs.mu.Unlock()
	// mostly the reorg's LAST revert is the one that reopens the window (fork point bnd-2): a later
	// revert would be another chance for the node to drop whatever the query cached
	deeper := uint64(0)
	if s.rng.IntN(3) == 0 {
		deeper = 1 + uint64(s.rng.IntN(3))
	}
	s.revertTo(bnd - 2 - deeper)
	hs.mu.Lock()
	hs.inTxn = nil
	fired := hs.inTxnFired > before
	hs.mu.Unlock()
	if fired {
		s.r.Count("long_directed_query_inside_the_revert_of_a_window's_last_block", 1)
		t.cachedAt[(bnd-1)/window] = t.tick()
	} else {
		s.r.Count("long_directed_query_inside_revert_not_reached", 1)
	}
	if !s.dead {
		s.regrow(bnd + 1 + uint64(s.rng.IntN(8)))
	}
	if !s.dead {
		s.queries(6)
	}
}

func longCase(r *lib.Run, idx int) {
	rng := lib.Rng("C09/long", uint64(idx))
	s := &longSim{r: r, idx: idx, rng: rng, k: 1}
	if idx%3 == 2 {
		s.k = 2
	}
	newState := rng.IntN(2) == 1
	var nodeOpts []blockchain.Option
	prunerInit := rng.IntN(4) == 0
	if prunerInit {
		nodeOpts = append(nodeOpts, blockchain.WithRunningEventFilterInitializer(pruner.InitializeRunningEventFilter))
		r.Count("cases_with_pruner_initializer", 1)
	}
	var store db.KeyValueStore = memory.New()
	backend := "memory"
	if !r.Quick() && idx%4 == 1 {
		dir, err := os.MkdirTemp("", "c09-long-")
		if err != nil {
			r.Inconclusive("long:tempdir")
			return
		}
		defer os.RemoveAll(dir)
		pdb, err := pebblev2.New(dir)
		if err != nil {
			r.Inconclusive("long:pebble-open")
			return
		}
		defer pdb.Close()
		store, backend = pdb, "pebble"
	}
	hs := &hookStore{KeyValueStore: store}
	store = hs
	s.node = chain.NewNode(store, newState, nodeOpts...)
	s.e = &env{r: r, idx: idx, tag: "long", t: newTracker(), bc: func() *blockchain.Blockchain { return s.node.BC }}
	delta := 1 + uint64(rng.IntN(30))
	base := window*s.k + delta
	// event-bearing heights of the base chain
	evAt := map[uint64]bool{0: rng.IntN(2) == 0, 1: true}
	for b := uint64(1); b <= s.k; b++ {
		for off := -10; off <= 10; off++ {
			if rng.IntN(10) < 6 {
				evAt[uint64(int64(b*window)+int64(off))] = true
			}
		}
	}
	for i := 0; i < 12; i++ {
		evAt[uint64(rng.IntN(int(base)))] = true
	}
	for n := base - 5; n <= base; n++ {
		evAt[n] = evAt[n] || rng.IntN(2) == 0
	}
	s.e.t.note("backend=%s new-state=%v pruner-initializer=%v: grow to %d (%d windows + %d), %d event-bearing heights", backend, newState, prunerInit, base, s.k, delta, len(evAt))
	s.grow(base, func(n uint64) bool { return evAt[n] })
	if s.dead {
		return
	}
	r.Count("long_blocks_built", int(base)+1)
	if !r.Race || idx == 0 {
		s.fetchOvertakenByReorg(hs, window*s.k)
		if s.dead {
			return
		}
		s.queryInsideRevert(hs, window*s.k)
		if s.dead {
			return
		}
	}
	rounds := 6
	if !r.Quick() {
		rounds = 10
	}
	if r.Race {
		rounds = 3
	}
	for i := 0; i < rounds && !s.dead; i++ {
		s.e.t.note("--- round %d", i)
		if i == rounds-1 && idx%2 == 0 {
			// make sure every other case ends on the riskiest shape: revert across the
			// boundary, ungraceful stop, regrow
			s.queries(2)
			s.revertTo(s.revertTarget(2, window*s.k))
			if !s.dead {
				s.restart(false)
			}
			if !s.dead {
				s.regrow(s.regrowTarget(window * s.k))
			}
			if !s.dead {
				s.queries(4)
			}
			continue
		}
		s.round()
	}

	if s.dead {
		return
	}
	bnd := window * s.k
	if s.e.t.head() < bnd+1 {
		s.regrow(bnd + 3)
	}
	if !s.dead {
		s.concurrentPhase(bnd)
	}
	if !s.dead {
		s.queries(4)
	}
	r.Count("long_cases", 1)
	if idx < 2 {
		log := s.e.t.log
		if len(log) > 70 {
			log = append(append(append([]string{}, log[:25]...), "..."), log[len(log)-45:]...)
		}
		r.Sample(map[string]any{"workload": "long", "case": idx, "history": log, "final_head": s.e.t.head()})
	}
}

package vevents

// workload (iv): long chains on a PRUNING node. The real pruner service
// (pruner.Pruner.Run, fed by a new-head feed and the Blockchain's L1-head feed) removes
// everything below a retention floor that sits inside, exactly on, or beyond an
// 8192-block bloom-window boundary - the aggregated filters of whole windows below the
// floor go with it - and the running filter is brought up by the pruning-aware initialiser
// (snapshot resume clamped to the floor / rebuild rooted at the floor's window). Then:
// event queries over retained blocks (starting exactly at the floor, just above it, at the
// window boundary) must still equal the naive scan, across reorgs at the tip, graceful and
// ungraceful restarts (each a fresh retention floor seeded from the database) and a second
// prune that moves the floor across the next boundary. A query starting below the floor
// must fail or be complete - never a partial answer.

import (
	"context"
	"fmt"
	"os"
	"sync"
	"time"

	"github.com/NethermindEth/juno/blockchain"
	"github.com/NethermindEth/juno/blockchain/networks"
	"github.com/NethermindEth/juno/core"
	"github.com/NethermindEth/juno/db"
	"github.com/NethermindEth/juno/db/memory"
	"github.com/NethermindEth/juno/db/pebblev2"
	"github.com/NethermindEth/juno/feed"
	"github.com/NethermindEth/juno/pruner"
	"github.com/NethermindEth/juno/utils/log"
	"github.com/NethermindEth/juno/verifh/lib"
	"github.com/NethermindEth/juno/verifh/lib/chain"
)

const pruneWatchdog = 300 * time.Second // a prune of ~10^4 blocks takes well under a second; firing => inconclusive

type pruneSvc struct {
	heads  *feed.Feed[*core.Block]
	cancel context.CancelFunc
	done   chan struct{}
	mu     sync.Mutex
	prunes []uint64 // oldestKept of every completed prune
	errs   []string
	sig    chan struct{}
}

func startPruneSvc(store db.KeyValueStore, floor *pruner.RetentionFloor, bc *blockchain.Blockchain, retained uint64, batch int) *pruneSvc {
	s := &pruneSvc{heads: feed.New[*core.Block](), done: make(chan struct{}), sig: make(chan struct{}, 1024)}
	opts := []pruner.Option{
		pruner.WithL2HeadsPerPrune(1),
		pruner.WithListener(&pruner.SelectiveListener{
			OnPruneCb: func(oldest, _ uint64, _ time.Duration) {
				s.mu.Lock()
				s.prunes = append(s.prunes, oldest)
				s.mu.Unlock()
				s.sig <- struct{}{}
			},
			OnPruneErrorCb: func(err error) {
				s.mu.Lock()
				s.errs = append(s.errs, err.Error())
				s.mu.Unlock()
				s.sig <- struct{}{}
			},
		}),
	}
	if batch > 0 {
		opts = append(opts, pruner.WithTargetBatchByteSize(batch))
	}
	p := pruner.New(store, floor, retained, s.heads.Subscribe(), bc.SubscribeL1Head().Subscription, log.NewNopZapLogger(), opts...)
	ctx, cancel := context.WithCancel(context.Background())
	s.cancel = cancel
	go func() { _ = p.Run(ctx); close(s.done) }()
	return s
}

func (s *pruneSvc) stop() {
	s.cancel()
	<-s.done
}

// await waits until a prune reported oldestKept >= want (ok), an error was reported
// (errs), or the watchdog fired (neither).
func (s *pruneSvc) await(want uint64) (ok bool, errs []string) {
	dl := time.NewTimer(pruneWatchdog)
	defer dl.Stop()
	for {
		s.mu.Lock()
		for _, o := range s.prunes {
			ok = ok || o >= want
		}
		errs = append([]string{}, s.errs...)
		s.mu.Unlock()
		if ok || len(errs) > 0 {
			return ok, errs
		}
		select {
		case <-s.sig:
		case <-dl.C:
			return false, nil
		}
	}
}

type prunedSim struct {
	*longSim
	store    db.KeyValueStore
	newState bool
	floorObj *pruner.RetentionFloor
	svc      *pruneSvc
	retained uint64
	batch    int
	floor    uint64 // the model's floor (oldest retained block)
}

func (p *prunedSim) open() {
	p.floorObj = &pruner.RetentionFloor{}
	if err := p.floorObj.Seed(p.store); err != nil {
		p.fail("seed retention floor", err)
		return
	}
	p.node.Opts = []blockchain.Option{blockchain.WithNewState(p.newState), blockchain.WithRetentionFloor(p.floorObj),
		blockchain.WithRunningEventFilterInitializer(pruner.InitializeRunningEventFilter)}
	p.node.BC = blockchain.New(p.store, &networks.Sepolia, p.node.Opts...)
	p.svc = startPruneSvc(p.store, p.floorObj, p.node.BC, p.retained, p.batch)
}

// restart = a new process: pruner service stopped, (graceful: filter snapshot written,)
// fresh floor seeded from the database, fresh Blockchain, fresh pruner service.
func (p *prunedSim) restartPruned(graceful bool) {
	t := p.e.t
	t.note("restart (pruning node) graceful=%v at head %d floor %d", graceful, t.head(), p.floor)
	p.svc.stop()
	if graceful {
		if err := p.node.BC.WriteRunningEventFilter(); err != nil {
			p.fail("write running event filter", err)
			return
		}
	}
	p.open()
	if p.dead {
		return
	}
	t.restarted(graceful)
	p.r.Count(fmt.Sprintf("pruned_restarts/graceful=%v", graceful), 1)
	got, err := pruner.OldestRetainedBlock(p.store)
	if err != nil || got != p.floor {
		p.dead = true
		p.r.Violation("pruned:floor-after-restart-differs", p.idx, fmt.Sprintf("oldest retained block after restart = %d (err %v), the last completed prune reported %d", got, err, p.floor),
			map[string]any{"history": t.log})
	}
}

// pruneTo makes the pruner move the floor to F: L1 head L < head with L - retained = F.
func (p *prunedSim) pruneTo(F uint64) {
	t := p.e.t
	head := t.head()
	L := F + p.retained
	if L >= head || F <= p.floor {
		t.note("prune to %d skipped (head %d, retained %d, floor %d)", F, head, p.retained, p.floor)
		return
	}
	blk, err := p.node.BC.BlockByNumber(L)
	if err != nil {
		p.fail("read block for L1 head", err)
		return
	}
	t.note("L1 head -> %d (local head %d, retained %d): floor must move %d -> %d (window of the floor %d -> %d)", L, head, p.retained, p.floor, F, p.floor/window, F/window)
	if err := p.node.BC.SetL1Head(&core.L1Head{BlockNumber: L, BlockHash: blk.Hash, StateRoot: blk.GlobalStateRoot}); err != nil {
		p.fail("set L1 head", err)
		return
	}
	ok, errs := p.svc.await(F)
	switch {
	case len(errs) > 0:
		p.dead = true
		p.r.Violation("pruned:pruner-reports-error", p.idx, fmt.Sprintf("prune towards floor %d failed without any injected fault: %s", F, errs[0]), map[string]any{"history": t.log, "errors": errs})
		return
	case !ok:
		p.dead = true
		p.r.Inconclusive("watchdog:pruned-long:prune-not-reported")
		return
	}
	if (p.floor+window-1)/window != (F+window-1)/window || F%window == 0 {
		p.r.Count("prunes_moving_the_floor_across_or_onto_a_window_boundary", 1)
	}
	p.r.Count("prunes_completed", 1)
	p.r.Count("blocks_pruned", int(F-p.floor))
	p.floor = F
	got, err := pruner.OldestRetainedBlock(p.store)
	if err != nil || got != F {
		p.dead = true
		p.r.Violation("pruned:floor-differs-from-target", p.idx, fmt.Sprintf("oldest retained block = %d (err %v) after the prune reported %d", got, err, F), map[string]any{"history": t.log})
	}
}

// prunedQuery draws a query over retained blocks.
func (p *prunedSim) prunedQuery() (query, bool) {
	rng, t, F := p.rng, p.e.t, p.floor
	head := t.head()
	q := query{F: genFilter(rng, longAddrsQ, longKeysQ, 3)}
	nb := (F/window + 1) * window // first boundary above the floor
	switch x := rng.IntN(20); {
	case x < 6:
		q.From, q.To = F, head
	case x < 9:
		q.From, q.To = F+uint64(rng.IntN(3)), min(head, F+uint64(rng.IntN(60)))
	case x < 12 && nb <= head:
		a, b := uint64(rng.IntN(40)), uint64(rng.IntN(40))
		q.From, q.To = max(F, nb-min(nb, a)), min(head, nb+b)
	case x < 14 && nb <= head:
		q.From, q.To = nb, head
	case x < 16:
		for tries := 0; tries < 50; tries++ {
			n := head - uint64(rng.IntN(int(min(head-F, 80))+1))
			if len(t.blocks[n].Txs) > 0 {
				q.From, q.To = n, n
				break
			}
		}
		if q.To == 0 {
			q.From, q.To = F, head
		}
	default:
		a, b := F+uint64(rng.IntN(int(head-F)+1)), F+uint64(rng.IntN(int(head-F)+1))
		if a > b {
			a, b = b, a
		}
		q.From, q.To = a, b
	}
	if q.From < F {
		q.From = F
	}
	if q.To > head {
		q.To = head
	}
	span := uint64(0)
	if q.To >= q.From {
		span = q.To - q.From
	}
	return q, q.F.wild() && span > 256
}

func (p *prunedSim) prunedQueries(n int) {
	for i := 0; i < n && !p.dead; i++ {
		q, wide := p.prunedQuery()
		want, _, _ := p.e.expected(q)
		pgs := pagingsFor(p.rng, len(want), wide, 2)
		p.e.check(q, pgs, p.e.t.head()+1)
		pos := "inside-floor-window"
		switch {
		case q.From == p.floor:
			pos = "from-floor"
		case q.From/window != q.To/window:
			pos = "spans-boundary"
		}
		if p.floor%window == 0 {
			pos += ":floor-on-boundary"
		} else if p.floor >= window {
			pos += ":windows-below-floor-deleted"
		}
		p.r.Count("pruned_queries_"+pos, 1)
		p.r.Case(fmt.Sprintf("pruned|%s|n%d|%s|%s|w%d", q.F.shape(), bucket(len(want)), pos, p.e.t.epochKind, p.floor/window))
	}
}

// belowFloor: a query that starts below the floor must fail or be complete.
func (p *prunedSim) belowFloor(n int) {
	if p.floor == 0 {
		return
	}
	for i := 0; i < n && !p.dead; i++ {
		q := query{F: genFilter(p.rng, longAddrsQ, longKeysQ, 2)}
		q.From = p.floor - 1 - uint64(p.rng.IntN(int(min(p.floor, 30))))
		q.To = p.e.t.head()
		if p.rng.IntN(3) == 0 {
			q.To = min(p.e.t.head(), p.floor+uint64(p.rng.IntN(20)))
		}
		want, from, to := p.e.expected(q)
		res := runDirect(p.node.BC, q, paging{Chunk: uint64(len(want)) + 1000, Limit: -1}, noPre, 4)
		p.r.Eval(1)
		if res.Proto != "" {
			p.r.Count("below_floor_queries_refused", 1)
			continue
		}
		if d := compare(want, res.Got, p.e.all(), q.F, from, to); d != nil {
			p.e.report("pruned:below-floor-query-answered-partially", q, paging{}, res, want, d, "direct")
			continue
		}
		p.r.Count("below_floor_queries_answered_completely", 1)
	}
}

func prunedLongCase(r *lib.Run, idx int) {
	rng := lib.Rng("C09/pruned", uint64(idx))
	ls := &longSim{r: r, idx: idx, rng: rng, k: 1}
	class := idx % 4
	if class == 3 {
		ls.k = 2
	}
	p := &prunedSim{longSim: ls, newState: rng.IntN(2) == 1}
	p.store = memory.New()
	backend := "memory"
	if !r.Quick() && idx%3 == 1 {
		dir, err := os.MkdirTemp("", "c09-pruned-")
		if err != nil {
			r.Inconclusive("pruned:tempdir")
			return
		}
		defer os.RemoveAll(dir)
		pdb, err := pebblev2.New(dir)
		if err != nil {
			r.Inconclusive("pruned:pebble-open")
			return
		}
		defer pdb.Close()
		p.store, backend = pdb, "pebble"
	}
	p.batch = []int{1, 0, 4096}[rng.IntN(3)]
	ls.node = &chain.Node{DB: p.store, NewState: p.newState}
	ls.e = &env{r: r, idx: idx, tag: "pruned", t: newTracker(), bc: func() *blockchain.Blockchain { return ls.node.BC }}
	delta := 40 + uint64(rng.IntN(40))
	base := window*ls.k + delta
	// floors of the two prunes
	var f1, f2 uint64
	switch class {
	case 0: // just below the boundary, then across it
		f1, f2 = window-1-uint64(rng.IntN(30)), window+uint64(rng.IntN(12))
		if idx%8 == 4 {
			f1 = window - 1 // the floor is the LAST block of a window: that window's filter must survive
		}
	case 1: // exactly on the boundary, then inside the next window
		f1, f2 = window, window+1+uint64(rng.IntN(20))
	case 2: // deep inside window 0, then a little further
		f1 = 500 + uint64(rng.IntN(7000))
		f2 = f1 + 1 + uint64(rng.IntN(40))
	default: // two windows: floor inside window 1 (window 0 deleted), then across / onto the second boundary
		f1 = window + 1 + uint64(rng.IntN(4000))
		f2 = 2*window - 3 + uint64(rng.IntN(8))
	}
	p.retained = base - 1 - f1 // L1 head = base-1 puts the floor at f1
	evAt := map[uint64]bool{}
	for _, c := range []uint64{f1, f2, window, window * ls.k, base} {
		for off := -10; off <= 10; off++ {
			if n := int64(c) + int64(off); n >= 0 && rng.IntN(10) < 6 {
				evAt[uint64(n)] = true
			}
		}
	}
	for i := 0; i < 12; i++ {
		evAt[uint64(rng.IntN(int(base)))] = true
	}
	ls.e.t.note("pruning node, backend=%s new-state=%v batch=%d: grow to %d (%d windows + %d); floors %d then %d; retained %d", backend, p.newState, p.batch, base, ls.k, delta, f1, f2, p.retained)
	p.open()
	if p.dead {
		return
	}
	defer func() { p.svc.stop() }()
	ls.grow(base, func(n uint64) bool { return evAt[n] })
	if p.dead {
		return
	}
	r.Count("pruned_long_blocks_built", int(base)+1)
	ls.queries(2) // unpruned yet: warms the window cache with filters that are about to be deleted
	if rng.IntN(2) == 0 {
		p.restartPruned(rng.IntN(2) == 0)
	}
	if p.dead {
		return
	}

	p.pruneTo(f1)
	if p.dead {
		return
	}
	p.prunedQueries(5)
	p.belowFloor(2)
	if p.dead {
		return
	}
	p.restartPruned(false) // rebuild / resume against the floor
	p.prunedQueries(4)
	if p.dead {
		return
	}

	// reorg at the tip, regrow further; the floor follows (second prune)
	head := ls.e.t.head()
	depth := 1 + uint64(rng.IntN(int(min(20, head-p.floor-2))))
	ls.revertTo(head - depth)
	if p.dead {
		return
	}
	if rng.IntN(2) == 0 {
		p.prunedQueries(2)
	}
	grow := f2 - f1
	ls.regrow(head + grow + uint64(rng.IntN(5)))
	if p.dead {
		return
	}
	p.prunedQueries(2)
	if rng.IntN(2) == 0 {
		p.restartPruned(true)
	}
	if p.dead {
		return
	}
	p.pruneTo(ls.e.t.head() - 1 - p.retained)
	if p.dead {
		return
	}
	p.prunedQueries(5)
	p.belowFloor(2)
	if p.dead {
		return
	}
	p.restartPruned(rng.IntN(3) == 0)
	p.prunedQueries(4)
	if p.dead {
		return
	}
	// a last reorg + ungraceful restart + regrowth on the pruned database
	head = ls.e.t.head()
	if head-p.floor > 3 {
		ls.revertTo(head - 1 - uint64(rng.IntN(int(min(10, head-p.floor-2)))))
		if !p.dead {
			p.restartPruned(false)
		}
		if !p.dead {
			ls.regrow(head + 1 + uint64(rng.IntN(6)))
		}
		if !p.dead {
			p.prunedQueries(4)
			p.belowFloor(1)
		}
	}
	r.Count("pruned_long_cases", 1)
	if idx < 502 {
		lg := ls.e.t.log
		if len(lg) > 60 {
			lg = append(append(append([]string{}, lg[:20]...), "..."), lg[len(lg)-40:]...)
		}
		r.Sample(map[string]any{"workload": "pruned-long", "case": idx, "history": lg, "final_head": ls.e.t.head(), "final_floor": p.floor})
	}
}

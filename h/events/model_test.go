package vevents

import (
	"fmt"
	"math/rand/v2"
	"sort"
	"strings"

	"github.com/NethermindEth/juno/blockchain"
	"github.com/NethermindEth/juno/core"
	"github.com/NethermindEth/juno/core/felt"
)

// ---------------------------------------------------------------- reference model
//
// The model is a plain list of blocks with their receipts' events. The oracle is a
// naive scan over it; it shares no code with Juno's three-level bloom index, the
// matcher or the token logic (only felt equality).

const window = uint64(8192) // core.NumBlocksPerFilter, restated on purpose

func F(x uint64) *felt.Felt { return felt.NewFromUint64[felt.Felt](x) }

type mTx struct {
	Hash   felt.Felt
	Events []*core.Event
}

type mBlock struct {
	Num    uint64
	Hash   *felt.Felt // nil for a pre-confirmed block
	Root   *felt.Felt
	Txs    []mTx
	Stored uint64 // logical clock at which this block object became the block at height Num
	// StaleSnap: at an ungraceful restart the snapshot on disk predated this block, yet the
	// initialiser's rules (caught up / same-window gap) made it resume that snapshot for
	// this height. The bits stay wrong (also through a later rollover into the persisted
	// window, or a later graceful snapshot) until the height is stored again.
	StaleSnap bool
}

func modelOfBlock(b *core.Block) *mBlock {
	m := &mBlock{Num: b.Number, Hash: b.Hash, Root: b.GlobalStateRoot}
	for _, rc := range b.Receipts {
		m.Txs = append(m.Txs, mTx{Hash: *rc.TransactionHash, Events: rc.Events})
	}
	return m
}

// filt is an event filter as the spec defines it.
type filt struct {
	Addrs []felt.Felt
	Keys  [][]felt.Felt
}

func (f filt) String() string {
	var sb strings.Builder
	sb.WriteString("addr=[")
	for i, a := range f.Addrs {
		if i > 0 {
			sb.WriteByte(',')
		}
		sb.WriteString(a.String())
	}
	sb.WriteString("] keys=[")
	for i, alts := range f.Keys {
		if i > 0 {
			sb.WriteByte(',')
		}
		sb.WriteByte('[')
		for j, k := range alts {
			if j > 0 {
				sb.WriteByte('|')
			}
			sb.WriteString(k.String())
		}
		sb.WriteByte(']')
	}
	sb.WriteByte(']')
	return sb.String()
}

func (f filt) wild() bool { return len(f.Addrs) == 0 && len(f.Keys) == 0 }

// shape is a structural key of the filter (for the distinct-case count).
func (f filt) shape() string {
	s := fmt.Sprintf("a%d", len(f.Addrs))
	for _, alts := range f.Keys {
		s += fmt.Sprintf("k%d", len(alts))
	}
	return s
}

// matches is the spec rule: address set (empty = any); per position a set of
// alternatives (empty = wildcard); an event lacking a constrained position does not
// match. Generated filters never end in an empty position, so "event has at least as
// many keys as the filter has positions" (Juno) and "trailing wildcards are stripped"
// (other clients) coincide.
func (f filt) matches(e *core.Event) bool {
	if len(f.Addrs) > 0 {
		ok := false
		for i := range f.Addrs {
			if e.From != nil && f.Addrs[i].Equal(e.From) {
				ok = true
			}
		}
		if !ok {
			return false
		}
	}
	for pos, alts := range f.Keys {
		if len(alts) == 0 {
			continue
		}
		if pos >= len(e.Keys) {
			return false
		}
		ok := false
		for i := range alts {
			if alts[i].Equal(&e.Keys[pos]) {
				ok = true
			}
		}
		if !ok {
			return false
		}
	}
	return true
}

func (f filt) addresses() []felt.Address {
	if f.Addrs == nil {
		return nil
	}
	out := make([]felt.Address, len(f.Addrs))
	for i := range f.Addrs {
		out[i] = felt.Address(f.Addrs[i])
	}
	return out
}

// tagged is the normalised, comparable form of one returned / expected event.
type tagged struct {
	Block  uint64
	BHash  string
	TxHash string
	TxIdx  uint
	EvIdx  uint
	Body   string
}

func (t tagged) pos() string { return fmt.Sprintf("%d/%d/%d", t.Block, t.TxIdx, t.EvIdx) }
func (t tagged) String() string {
	return fmt.Sprintf("blk=%d bh=%s tx=%s txi=%d evi=%d %s", t.Block, t.BHash, t.TxHash, t.TxIdx, t.EvIdx, t.Body)
}

func feltStr(f *felt.Felt) string {
	if f == nil {
		return "nil"
	}
	return f.String()
}

func bodyOf(e *core.Event) string {
	var sb strings.Builder
	sb.WriteString("from=" + feltStr(e.From) + " keys=")
	for i := range e.Keys {
		sb.WriteString(e.Keys[i].String() + ",")
	}
	sb.WriteString(" data=")
	for i := range e.Data {
		sb.WriteString(e.Data[i].String() + ",")
	}
	return sb.String()
}

func tagOfFiltered(fe *blockchain.FilteredEvent) tagged {
	t := tagged{Block: fe.BlockNumber, BHash: feltStr(fe.BlockHash), TxHash: feltStr(fe.TransactionHash),
		TxIdx: fe.TransactionIndex, EvIdx: fe.EventIndex}
	if fe.Event != nil {
		t.Body = bodyOf(fe.Event)
	} else {
		t.Body = "nil-event"
	}
	return t
}

// scan is THE oracle: all events of blocks[from..to] (by block number, in chain order)
// that match f, tagged with their position.
func scan(blocks []*mBlock, f filt, from, to uint64) []tagged {
	var out []tagged
	for _, b := range blocks {
		if b.Num < from || b.Num > to {
			continue
		}
		for ti := range b.Txs {
			for ei, e := range b.Txs[ti].Events {
				if !f.matches(e) {
					continue
				}
				out = append(out, tagged{Block: b.Num, BHash: feltStr(b.Hash), TxHash: b.Txs[ti].Hash.String(),
					TxIdx: uint(ti), EvIdx: uint(ei), Body: bodyOf(e)})
			}
		}
	}
	return out
}

// ---------------------------------------------------------------- comparison / classification

type diffKind struct {
	Kind   string // "", "missing", "extra-wrong-tag", "extra-nonmatching", "extra-outside-range", "extra-not-canonical", "duplicate", "order"
	Field  string // for wrong tags
	Index  int    // index in got (or want for missing) of the first discrepancy
	Event  tagged // the offending event
	Detail string
}

// compare returns the first discrepancy between the expected list and the observed one.
func compare(want, got []tagged, all []*mBlock, f filt, from, to uint64) *diffKind {
	if len(want) == len(got) {
		same := true
		for i := range want {
			if want[i] != got[i] {
				same = false
				break
			}
		}
		if same {
			return nil
		}
	}
	wantCnt := map[tagged]int{}
	wantPos := map[string]tagged{}
	for _, w := range want {
		wantCnt[w]++
		wantPos[w.pos()] = w
	}
	gotCnt := map[tagged]int{}
	for i, g := range got {
		gotCnt[g]++
		if gotCnt[g] > wantCnt[g] {
			if wantCnt[g] > 0 {
				return &diffKind{Kind: "duplicate", Index: i, Event: g}
			}
			// an event the oracle does not list
			return explainExtra(g, i, wantPos, all, f, from, to)
		}
	}
	for i, w := range want {
		if gotCnt[w] < wantCnt[w] {
			return &diffKind{Kind: "missing", Index: i, Event: w}
		}
	}
	for i := range want {
		if want[i] != got[i] {
			return &diffKind{Kind: "order", Index: i, Event: got[i], Detail: "expected here " + want[i].String()}
		}
	}
	return &diffKind{Kind: "order", Index: 0}
}

// explainExtra says why an observed event is not in the oracle's list.
func explainExtra(g tagged, i int, wantPos map[string]tagged, all []*mBlock, f filt, from, to uint64) *diffKind {
	var blk *mBlock
	for _, b := range all {
		if b.Num == g.Block {
			blk = b
		}
	}
	if blk == nil {
		return &diffKind{Kind: "extra-not-canonical", Index: i, Event: g, Detail: "no such block on the canonical chain"}
	}
	// is it, tags and all, an event of the canonical block?
	if int(g.TxIdx) < len(blk.Txs) && int(g.EvIdx) < len(blk.Txs[g.TxIdx].Events) {
		e := blk.Txs[g.TxIdx].Events[g.EvIdx]
		if bodyOf(e) == g.Body && blk.Txs[g.TxIdx].Hash.String() == g.TxHash {
			switch {
			case g.Block < from || g.Block > to:
				return &diffKind{Kind: "extra-outside-range", Index: i, Event: g}
			case feltStr(blk.Hash) != g.BHash:
				return &diffKind{Kind: "extra-wrong-tag", Field: "block_hash", Index: i, Event: g, Detail: "canonical block hash " + feltStr(blk.Hash)}
			case !f.matches(e):
				return &diffKind{Kind: "extra-nonmatching", Index: i, Event: g}
			}
			return &diffKind{Kind: "duplicate", Index: i, Event: g}
		}
	}
	if w, ok := wantPos[g.pos()]; ok {
		fld := "body"
		switch {
		case w.BHash != g.BHash:
			fld = "block_hash"
		case w.TxHash != g.TxHash:
			fld = "transaction_hash"
		}
		if fld != "body" {
			return &diffKind{Kind: "extra-wrong-tag", Field: fld, Index: i, Event: g, Detail: "expected " + w.String()}
		}
	}
	// the same event under other indices?
	for ti := range blk.Txs {
		if blk.Txs[ti].Hash.String() != g.TxHash {
			continue
		}
		for ei, e := range blk.Txs[ti].Events {
			if bodyOf(e) != g.Body {
				continue
			}
			fld := "event_index"
			if uint(ti) != g.TxIdx {
				fld = "transaction_index"
			}
			return &diffKind{Kind: "extra-wrong-tag", Field: fld, Index: i, Event: g,
				Detail: fmt.Sprintf("the canonical block has this event at tx %d event %d", ti, ei)}
		}
	}
	if g.Block < from || g.Block > to {
		return &diffKind{Kind: "extra-outside-range", Index: i, Event: g}
	}
	return &diffKind{Kind: "extra-not-canonical", Index: i, Event: g, Detail: "the canonical block at that height holds no such event"}
}

// ---------------------------------------------------------------- history context
//
// The tracker records, independently of Juno, what happened to the node so that a
// false negative can be attributed to the *shape of the history* that produced it.

type tracker struct {
	clock      uint64
	blocks     []*mBlock // canonical chain model (index = number)
	epochKind  string    // how the current Blockchain object came to be: fresh | graceful | ungraceful
	cachedAt   map[uint64]uint64
	epochClock uint64 // clock at which the current Blockchain object was created
	snapClock  uint64 // clock of the last WriteRunningEventFilter (0 = none on disk)
	snapNext   uint64 // head+1 at that time
	reorgs     int
	crossReorg int
	log        []string
}

func newTracker() *tracker {
	return &tracker{epochKind: "fresh", cachedAt: map[uint64]uint64{}}
}

func (t *tracker) tick() uint64 { t.clock++; return t.clock }

func (t *tracker) note(format string, a ...any) {
	if len(t.log) < 400 {
		t.log = append(t.log, fmt.Sprintf(format, a...))
	}
}

func (t *tracker) head() uint64 { return uint64(len(t.blocks)) - 1 }

func (t *tracker) push(b *mBlock) {
	b.Stored = t.tick()
	t.blocks = append(t.blocks, b)
}

func (t *tracker) pop() { t.blocks = t.blocks[:len(t.blocks)-1]; t.tick() }

// runningWindow is the window the in-memory running filter must cover: the one of head+1.
func (t *tracker) runningWindow() uint64 { return uint64(len(t.blocks)) / window }

// queried records that a query over [from,to] ran now: persisted windows it touched may
// from now on sit in the LRU of this Blockchain object.
func (t *tracker) queried(from, to uint64) {
	if len(t.blocks) == 0 || from > to {
		return
	}
	if to > t.head() {
		to = t.head()
	}
	rw := t.runningWindow()
	for w := from / window; w <= to/window; w++ {
		if w == rw {
			continue
		}
		if _, ok := t.cachedAt[w]; !ok {
			t.cachedAt[w] = t.tick()
		}
	}
}

func (t *tracker) restarted(graceful bool) {
	t.cachedAt = map[uint64]uint64{}
	if graceful {
		t.epochKind = "graceful"
		t.snapClock = t.tick()
		t.snapNext = uint64(len(t.blocks))
	} else {
		t.epochKind = "ungraceful"
		if t.snapClock > 0 && len(t.blocks) > 0 {
			head := t.head()
			resumed := t.snapNext == head+1 || (t.snapNext <= head && head/window == t.snapNext/window)
			if resumed {
				for n := t.snapNext - t.snapNext%window; n < t.snapNext && n <= head; n++ {
					if t.blocks[n].Stored > t.snapClock {
						t.blocks[n].StaleSnap = true
					}
				}
			}
		}
	}
	t.epochClock = t.tick()
}

// falseNegativeClass attributes a missing event of block n.
func (t *tracker) falseNegativeClass(n uint64) string {
	if n >= uint64(len(t.blocks)) {
		return "false-negative:pre-confirmed-block"
	}
	b := t.blocks[n]
	w := n / window
	rw := t.runningWindow()
	if b.StaleSnap {
		// the snapshot on disk predated this block, claimed to cover its height, and was
		// resumed by an ungraceful restart
		return "false-negative:stale-snapshot-after-reorg-ungraceful-restart"
	}
	if w != rw {
		if at, ok := t.cachedAt[w]; ok && b.Stored > at {
			// the block was (re)stored after a query of this Blockchain object had
			// loaded the persisted window
			return "false-negative:stale-cached-window-after-reorg"
		}
		return fmt.Sprintf("false-negative:persisted-window:%s-start:reorgs=%v", t.epochKind, t.reorgs > 0)
	}
	return fmt.Sprintf("false-negative:running-window:%s-start:reorgs=%v", t.epochKind, t.reorgs > 0)
}

// ---------------------------------------------------------------- filter generation

// genFilter draws a filter over the given vocabularies; never ends in an empty position.
func genFilter(rng *rand.Rand, addrPool, keyPool []felt.Felt, maxPos int) filt {
	var f filt
	switch rng.IntN(10) {
	case 0, 1, 2, 3: // any address
	case 4, 5, 6:
		f.Addrs = []felt.Felt{addrPool[rng.IntN(len(addrPool))]}
	default:
		n := 2 + rng.IntN(2)
		for i := 0; i < n; i++ {
			f.Addrs = append(f.Addrs, addrPool[rng.IntN(len(addrPool))])
		}
	}
	if rng.IntN(4) != 0 {
		npos := 1 + rng.IntN(maxPos)
		for p := 0; p < npos; p++ {
			var alts []felt.Felt
			switch rng.IntN(6) {
			case 0, 1: // wildcard
			case 2, 3, 4:
				alts = []felt.Felt{keyPool[rng.IntN(len(keyPool))]}
			default:
				for i := 2 + rng.IntN(2); i > 0; i-- {
					alts = append(alts, keyPool[rng.IntN(len(keyPool))])
				}
			}
			f.Keys = append(f.Keys, alts)
		}
		for len(f.Keys) > 0 && len(f.Keys[len(f.Keys)-1]) == 0 {
			f.Keys = f.Keys[:len(f.Keys)-1]
		}
		if len(f.Keys) == 0 {
			f.Keys = nil
		}
	}
	return f
}

func sortedKeys(m map[string]int) []string {
	out := make([]string, 0, len(m))
	for k := range m {
		out = append(out, k)
	}
	sort.Strings(out)
	return out
}

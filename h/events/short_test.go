package vevents

import (
	"fmt"
	"math/rand/v2"
	"strings"

	"github.com/NethermindEth/juno/blockchain"
	"github.com/NethermindEth/juno/core"
	"github.com/NethermindEth/juno/core/felt"
	"github.com/NethermindEth/juno/core/pending"
	"github.com/NethermindEth/juno/pruner"
	"github.com/NethermindEth/juno/verifh/lib"
	"github.com/NethermindEth/juno/verifh/lib/chain"
)

// workload (i): short rich chains from lib/chain's generator, random filters, ranges,
// chunk sizes and scan limits, reorgs, graceful / ungraceful restarts, a pre-confirmed
// chain on top, and the same queries through starknet_getEvents.

var shortKeyPool = []felt.Felt{*F(0x11), *F(0x12), *F(0x13), *F(0x99), *F(0x14)}

func shortAddrPool(g *chain.Gen) []felt.Felt {
	var out []felt.Felt
	for _, a := range g.Opt.Contracts {
		out = append(out, *F(a))
	}
	return append(out, *F(0xdead))
}

func genShortQuery(rng *rand.Rand, g *chain.Gen, head uint64, npre int) query {
	q := query{F: genFilter(rng, shortAddrPool(g), shortKeyPool, 3)}
	tip := head + uint64(npre)
	switch x := rng.IntN(20); {
	case x < 7:
		q.From, q.To = 0, head
	case x < 9:
		q.Defaults = true
	case x < 15:
		a, b := uint64(rng.IntN(int(head)+1)), uint64(rng.IntN(int(head)+1))
		if a > b {
			a, b = b, a
		}
		q.From, q.To = a, b
	case x < 16:
		q.From = uint64(rng.IntN(int(head) + 1))
		q.To = q.From
	case x < 17 && rng.IntN(2) == 0:
		// from_block above the chain (a poller asking from "last seen + 1"): nothing is there
		q.From = head + 1 + uint64(rng.IntN(3))
		q.To = head + uint64(rng.IntN(5))
	case x < 17:
		q.From, q.To = 1+uint64(rng.IntN(int(head)+1)), 0
		if q.From > 0 {
			q.To = uint64(rng.IntN(int(q.From)))
		}
	default:
		q.From = uint64(rng.IntN(int(head) + 1))
		q.To = head + 1 + uint64(rng.IntN(4))
	}
	if npre > 0 && !q.Defaults {
		switch rng.IntN(6) {
		case 0, 1, 2:
			q.ToPre = true
		case 3:
			q.ToPre = true
			q.From = head + uint64(rng.IntN(npre+1))
		case 4:
			q.FromPre, q.ToPre = true, true
		case 5:
			q.To = head + uint64(rng.IntN(int(tip-head)+2))
		}
	}
	return q
}

func storeErrClass(err error) (string, bool) {
	s := err.Error()
	if strings.Contains(s, "into window") || strings.Contains(s, "running event filter") || strings.Contains(s, "aggregated") ||
		strings.Contains(s, "block number is not within range") {
		return "store-refused-by-event-index:" + errClass(err), true
	}
	return "", false
}

type shortSim struct {
	r     *lib.Run
	idx   int
	rng   *rand.Rand
	g     *chain.Gen
	new   bool
	c     *chain.Chain
	b     *chain.Builder
	node  *chain.Node
	e     *env
	fork  int
	dead  bool
	steps []string
}

func (s *shortSim) fail(what string, err error) {
	s.dead = true
	if cls, ok := storeErrClass(err); ok {
		s.e.t.note("%s FAILED: %v", what, err)
		s.r.Violation(cls, s.idx, fmt.Sprintf("[short] %s: %v", what, err), map[string]any{"history": s.e.t.log, "error": err.Error()})
		return
	}
	// not an event-index matter (another property's business): no verdict for this case
	s.r.Inconclusive("short:" + what + "-failed")
	s.r.Note(fmt.Sprintf("short case %d: %s failed: %s", s.idx, what, shortErr(err)))
}

func (s *shortSim) storeTip(from int) {
	for i := from; i < s.c.Len() && !s.dead; i++ {
		if err := s.node.StoreBlk(s.c.Blocks[i]); err != nil {
			s.fail(fmt.Sprintf("store block %d", i), err)
			return
		}
		s.e.t.push(modelOfBlock(s.c.Blocks[i].Block))
	}
}

func (s *shortSim) queries(n int, rpcToo bool) {
	head := s.e.t.head()
	for i := 0; i < n && !s.dead; i++ {
		q := genShortQuery(s.rng, s.g, head, len(s.e.pre))
		want, _, _ := s.e.expected(q)
		pgs := pagingsFor(s.rng, len(want), false, 3)
		ok := s.e.check(q, pgs, head+4)
		s.r.Case(fmt.Sprintf("short|%s|n%d|pre%d|%s|r%d", q.F.shape(), bucket(len(want)), len(s.e.pre), s.e.t.epochKind, min(s.e.t.reorgs, 2)))
		if ok && rpcToo && len(s.e.pre) == 0 {
			s.rpcQuery(q)
		}
	}
}

func bucket(n int) int {
	switch {
	case n == 0:
		return 0
	case n == 1:
		return 1
	case n < 5:
		return 2
	case n < 20:
		return 3
	default:
		return 4
	}
}

func (s *shortSim) reorg() {
	n := s.c.Len()
	if n < 3 {
		return
	}
	d := 1 + s.rng.IntN(min(n-1, 7))
	k := s.rng.IntN(d + 4)
	s.e.t.note("revert %d blocks (head %d -> %d), regrow %d", d, n-1, n-1-d, k)
	for i := 0; i < d; i++ {
		if err := s.node.BC.RevertHead(); err != nil {
			s.fail("revert", err)
			return
		}
		s.e.t.pop()
	}
	s.e.t.reorgs++
	s.r.Count("short_reorgs", 1)
	forkc := s.c.Prefix(n - d)
	fb, err := chain.BuilderAt(forkc, n-d, s.new)
	if err != nil {
		s.dead = true
		s.r.Inconclusive("short:builder-replay-failed")
		return
	}
	if err := s.g.Extend(forkc, fb, k); err != nil {
		s.dead = true
		s.r.Inconclusive("short:generator-failed")
		s.r.Note("generator: " + shortErr(err))
		return
	}
	s.c, s.b = forkc, fb
	s.storeTip(n - d)
}

func (s *shortSim) restart(graceful bool) {
	s.e.t.note("restart graceful=%v at head %d", graceful, s.e.t.head())
	if err := s.node.Restart(graceful); err != nil {
		s.fail("restart", err)
		return
	}
	s.e.t.restarted(graceful)
	if graceful {
		s.r.Count("graceful_restarts", 1)
	} else {
		s.r.Count("ungraceful_restarts", 1)
		if s.e.t.snapClock > 0 {
			s.r.Count("ungraceful_restarts_over_older_snapshot", 1)
		}
	}
}

// setPre puts n pre-confirmed blocks (generated, never stored) on top of the head.
func (s *shortSim) setPre(n int) {
	s.e.pre, s.e.preC = nil, nil
	parent := s.c.Tip()
	st := s.c.TipState()
	for i := 0; i < n; i++ {
		d := s.g.Next(parent, st)
		blk := d.Block
		blk.Hash = nil
		s.e.preC = append(s.e.preC, &pending.PreConfirmed{Block: blk, StateUpdate: d.SU})
		s.e.pre = append(s.e.pre, modelOfBlock(blk))
		parent = &chain.Blk{Block: &core.Block{Header: &core.Header{Number: blk.Number, Hash: F(0x9000 + uint64(i)),
			GlobalStateRoot: parent.Block.GlobalStateRoot, Timestamp: blk.Timestamp}}}
	}
	if n > 0 {
		s.e.t.note("pre-confirmed chain of %d blocks above head %d", n, s.e.t.head())
		s.r.Count("preconfirmed_chains", 1)
	}
}

func shortCase(r *lib.Run, idx int) {
	rng := lib.Rng("C09/short", uint64(idx))
	newState := rng.IntN(2) == 1
	opts := chain.Opts{EventRich: true, NoNoopZero: lib.Avoid("noop-zero-write"), EmptyProb: []float64{0, 0.2, 0.5}[rng.IntN(3)], MaxTxs: 2 + rng.IntN(4),
		NoClasses: rng.IntN(2) == 0}
	s := &shortSim{r: r, idx: idx, rng: rng, g: chain.NewGen(rng, opts), new: newState, c: &chain.Chain{}, b: chain.NewBuilder(newState)}
	var nodeOpts []blockchain.Option
	prunerInit := rng.IntN(4) == 0
	// template (every fifth case, half of them with the pruning node's filter initialiser): a graceful
	// stop (snapshot written), a restart that stores only 1-3 blocks, a process death, a restart -
	// the snapshot the last start finds is a few blocks behind the head, with no reorg in between
	template := idx%5 == 4
	if template && idx%10 == 9 {
		prunerInit = true
	}
	if prunerInit {
		nodeOpts = append(nodeOpts, blockchain.WithRunningEventFilterInitializer(pruner.InitializeRunningEventFilter))
		r.Count("cases_with_pruner_initializer", 1)
	}
	s.node = chain.NewMemNode(newState, nodeOpts...)
	s.e = &env{r: r, idx: idx, tag: "short", t: newTracker(), bc: func() *blockchain.Blockchain { return s.node.BC }}
	n0 := 3 + rng.IntN(22)
	if err := s.g.Extend(s.c, s.b, n0); err != nil {
		r.Inconclusive("short:generator-failed")
		r.Note("generator: " + shortErr(err))
		return
	}
	s.e.t.note("new-state=%v pruner-initializer=%v; store %d generated blocks", newState, prunerInit, n0)
	s.storeTip(0)
	rpcToo := idx%3 == 0
	if template && !s.dead {
		s.restart(true)
		if !s.dead {
			k := 1 + rng.IntN(3)
			from := s.c.Len()
			if err := s.g.Extend(s.c, s.b, k); err != nil {
				s.dead = true
				r.Inconclusive("short:generator-failed")
				return
			}
			s.e.t.note("grow %d blocks (snapshot stays %d behind)", k, k)
			s.storeTip(from)
			r.Count("short_template_snapshot_behind_head_by_"+fmt.Sprint(k), 1)
		}
		if !s.dead {
			s.restart(false)
		}
		if !s.dead {
			s.queries(4, rpcToo)
		}
	}
	nsteps := 3 + rng.IntN(6)
	for i := 0; i < nsteps && !s.dead; i++ {
		switch x := rng.IntN(10); {
		case x < 4:
			s.queries(2+rng.IntN(3), rpcToo)
		case x < 7:
			s.reorg()
		case x < 8:
			s.restart(true)
		case x < 9:
			s.restart(false)
		default:
			k := 1 + rng.IntN(3)
			from := s.c.Len()
			if err := s.g.Extend(s.c, s.b, k); err != nil {
				s.dead = true
				r.Inconclusive("short:generator-failed")
				break
			}
			s.e.t.note("grow %d blocks", k)
			s.storeTip(from)
		}
	}
	if s.dead {
		return
	}
	s.queries(3, rpcToo)
	if rng.IntN(2) == 0 {
		s.setPre(1 + rng.IntN(3))
		s.queries(4, false)
	}
	nev := 0
	for _, b := range s.e.t.blocks {
		for _, tx := range b.Txs {
			nev += len(tx.Events)
		}
	}
	r.Count("short_cases", 1)
	r.Count("short_chain_events", nev)
	if idx < 2 {
		r.Sample(map[string]any{"workload": "short", "case": idx, "history": s.e.t.log, "final_head": s.e.t.head(), "events_on_final_chain": nev})
	}
}

package vevents

import (
	"fmt"
	stdsync "sync"
	"sync/atomic"

	"github.com/NethermindEth/juno/blockchain"
	"github.com/NethermindEth/juno/core/felt"
	"github.com/NethermindEth/juno/verifh/lib"
	"github.com/NethermindEth/juno/verifh/lib/chain"
)

// workload (iii): a short chain, reader goroutines issuing event queries while one
// writer stores and reverts blocks. What the readers get back is not judged (no
// isolation is promised); the race detector observes the accesses (run.py turns its
// reports into violations), a panic is a violation, and once the writer has stopped the
// exact oracle is applied again.
func stressCase(r *lib.Run, idx int) {
	rng := lib.Rng("C09/stress", uint64(idx))
	newState := rng.IntN(2) == 1
	s := &longSim{r: r, idx: idx, rng: rng, k: 0}
	s.node = chain.NewMemNode(newState)
	s.e = &env{r: r, idx: idx, tag: "stress", t: newTracker(), bc: func() *blockchain.Blockchain { return s.node.BC }}
	t := s.e.t
	t.note("new-state=%v: grow to 20, then 8 readers vs 1 writer", newState)
	s.grow(20, func(uint64) bool { return rng.IntN(2) == 0 })
	if s.dead {
		return
	}
	bc := s.node.BC
	var wg stdsync.WaitGroup
	var reads, errs atomic.Int64
	pc := newPacer()
	for rd := 0; rd < 6; rd++ {
		wg.Add(1)
		rrng := lib.Rng("C09/stress/reader", uint64(idx*16+rd))
		go func() {
			defer wg.Done()
			for pc.take() {
				f := genFilter(rrng, longAddrsQ, longKeysQ, 3)
				ef, err := bc.EventFilter(f.addresses(), f.Keys, noPre)
				if err != nil {
					errs.Add(1)
					continue
				}
				if rrng.IntN(3) == 0 {
					ef = ef.WithLimit(uint(1 + rrng.IntN(4)))
				}
				var tok *blockchain.ContinuationToken
				for p := 0; p < 200; p++ {
					_, next, err := ef.Events(tok, uint64(1+rrng.IntN(8)))
					if err != nil {
						errs.Add(1)
						break
					}
					if next.IsEmpty() {
						break
					}
					tok = &next
				}
				reads.Add(1)
			}
		}()
	}
	steps := 300
	for i := 0; i < steps && !s.dead; i++ {
		pc.step(3)
		if t.head() > 4 && rng.IntN(10) < 3 {
			d := 1 + uint64(rng.IntN(3))
			s.revertTo(t.head() - d)
			s.forkID++
			continue
		}
		s.grow(t.head()+1, func(uint64) bool { return rng.IntN(3) != 0 })
	}
	close(pc.done)
	wg.Wait()
	r.Count("concurrent_reader_queries", int(reads.Load()))
	r.Count("concurrent_reader_errors(not judged)", int(errs.Load()))
	r.Count("stress_writer_steps", steps)
	if s.dead {
		return
	}
	head := t.head()
	for i := 0; i < 6; i++ {
		q := query{F: genFilter(rng, longAddrsQ, longKeysQ, 3), From: 0, To: head}
		if i%2 == 1 {
			a, b := uint64(rng.IntN(int(head)+1)), uint64(rng.IntN(int(head)+1))
			if a > b {
				a, b = b, a
			}
			q.From, q.To = a, b
		}
		want, _, _ := s.e.expected(q)
		s.e.check(q, pagingsFor(rng, len(want), false, 2), head+1)
		r.Case(fmt.Sprintf("stress|%s|n%d", q.F.shape(), bucket(len(want))))
	}
	r.Count("stress_cases", 1)
	_ = felt.Zero
}

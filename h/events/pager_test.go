package vevents

import (
	"fmt"
	"math"
	"math/rand/v2"
	"regexp"
	"strings"

	"github.com/NethermindEth/juno/blockchain"
	"github.com/NethermindEth/juno/core/pending"
	"github.com/NethermindEth/juno/sync/preconfirmed"
	"github.com/NethermindEth/juno/verifh/lib"
)

// query = filter + block range. FromPre / ToPre select the pre_confirmed tag for that end.
type query struct {
	F        filt
	From, To uint64
	FromPre  bool
	ToPre    bool
	Defaults bool // leave the range at what Blockchain.EventFilter sets (0 .. head)
}

func (q query) String() string {
	fr, to := fmt.Sprint(q.From), fmt.Sprint(q.To)
	if q.FromPre {
		fr = "pre_confirmed"
	}
	if q.ToPre {
		to = "pre_confirmed"
	}
	if q.Defaults {
		fr, to = "default(0)", "default(head)"
	}
	return fmt.Sprintf("%s range=[%s,%s]", q.F.String(), fr, to)
}

// paging = how the result is fetched.
type paging struct {
	Chunk     uint64
	Limit     int  // scan limit passed to WithLimit; -1 = WithLimit not called
	Reuse     bool // reuse one EventFilter object for all pages (else a new one per page, like the RPC handler)
	StrTokens bool // pass tokens through String()/FromString() (what a client does)
}

func (p paging) String() string {
	return fmt.Sprintf("chunk=%d limit=%d reuse=%v str=%v", p.Chunk, p.Limit, p.Reuse, p.StrTokens)
}

type pageRec struct {
	N     int
	Token string // token returned with this page ("" = last page)
}

type runResult struct {
	Got   []tagged
	Pages []pageRec
	Proto string // protocol-level violation class ("" = none)
	Note  string
}

type preFn = func() (blockchain.PreConfirmedReader, error)

func noPre() (blockchain.PreConfirmedReader, error) { return nil, nil }

// preChainOf wraps pre-confirmed blocks in Juno's own chain reader.
func preChainOf(pre []*pending.PreConfirmed) preFn {
	if len(pre) == 0 {
		return noPre
	}
	return func() (blockchain.PreConfirmedReader, error) {
		c, err := preconfirmed.NewChain(pre...)
		if err != nil {
			return nil, err
		}
		return &c, nil
	}
}

var digits = regexp.MustCompile(`[0-9]+`)

func errClass(err error) string {
	s := err.Error()
	if len(s) > 120 {
		s = s[:120]
	}
	return digits.ReplaceAllString(s, "N")
}

func tokLess(ab, ap, bb, bp uint64) bool { return ab < bb || (ab == bb && ap < bp) }

// runDirect fetches all pages of q through Blockchain.EventFilter(...).Events.
func runDirect(bc *blockchain.Blockchain, q query, pg paging, pre preFn, maxPages int) runResult {
	var res runResult
	mk := func() (blockchain.EventFilterer, error) {
		ef, err := bc.EventFilter(q.F.addresses(), q.F.Keys, pre)
		if err != nil {
			return nil, err
		}
		if !q.Defaults {
			fr, to := q.From, q.To
			if q.FromPre {
				fr = blockchain.PreConfirmedFilterSentinel
			}
			if q.ToPre {
				to = blockchain.PreConfirmedFilterSentinel
			}
			if err := ef.SetRangeEndBlockByNumber(blockchain.EventFilterFrom, fr); err != nil {
				return nil, err
			}
			if err := ef.SetRangeEndBlockByNumber(blockchain.EventFilterTo, to); err != nil {
				return nil, err
			}
		}
		if pg.Limit >= 0 {
			return ef.WithLimit(uint(pg.Limit)), nil
		}
		return ef, nil
	}
	var ef blockchain.EventFilterer
	var tok *blockchain.ContinuationToken
	var prevB, prevP uint64
	havePrev := false
	for {
		if len(res.Pages) >= maxPages {
			res.Proto = "token:no-termination"
			res.Note = fmt.Sprintf("%d pages fetched, still a continuation token", len(res.Pages))
			return res
		}
		if ef == nil || !pg.Reuse {
			var err error
			if ef, err = mk(); err != nil {
				res.Proto = "query-error:" + errClass(err)
				res.Note = err.Error()
				return res
			}
		}
		evs, next, err := ef.Events(tok, pg.Chunk)
		if err != nil {
			res.Proto = "query-error:" + errClass(err)
			res.Note = err.Error()
			return res
		}
		for i := range evs {
			res.Got = append(res.Got, tagOfFiltered(&evs[i]))
		}
		rec := pageRec{N: len(evs)}
		if !next.IsEmpty() {
			rec.Token = next.String()
		}
		res.Pages = append(res.Pages, rec)
		if uint64(len(evs)) > pg.Chunk {
			res.Proto = "page-exceeds-chunk-size"
			res.Note = fmt.Sprintf("page %d has %d events, chunk size %d", len(res.Pages)-1, len(evs), pg.Chunk)
			return res
		}
		if next.IsEmpty() {
			return res
		}
		var b, p uint64
		if _, err := fmt.Sscanf(next.String(), "%d-%d", &b, &p); err != nil {
			res.Proto = "token:unparsable"
			res.Note = next.String()
			return res
		}
		if havePrev && !tokLess(prevB, prevP, b, p) {
			res.Proto = "token:no-progress"
			res.Note = fmt.Sprintf("token %d-%d after token %d-%d", b, p, prevB, prevP)
			return res
		}
		prevB, prevP, havePrev = b, p, true
		if pg.StrTokens {
			tok = new(blockchain.ContinuationToken)
			if err := tok.FromString(next.String()); err != nil {
				res.Proto = "token:unparsable"
				res.Note = next.String()
				return res
			}
		} else {
			n := next
			tok = &n
		}
	}
}

// edgeKind names the kind of page edge a (non-final) page ended at.
func edgeKind(prev pageRec, chunk uint64) string {
	var b, k uint64
	fmt.Sscanf(prev.Token, "%d-%d", &b, &k)
	switch {
	case k > 0:
		return "chunk-edge-mid-block"
	case uint64(prev.N) == chunk:
		return "chunk-edge-block-start"
	default:
		return "scan-limit-edge"
	}
}

// edgeOf names the page edge at which position i of the concatenated result lies.
func edgeOf(res runResult, i int, chunk uint64) string {
	cum := 0
	edge := ""
	for p, pr := range res.Pages {
		if i == cum && p > 0 {
			edge = edgeKind(res.Pages[p-1], chunk)
		}
		cum += pr.N
		if i < cum {
			if edge != "" {
				return edge
			}
			return "inside-page"
		}
	}
	if edge != "" {
		return edge
	}
	return "after-last-page"
}

// env is what one node under observation looks like to the checker.
type env struct {
	r     *lib.Run
	idx   int
	tag   string // workload tag ("short", "long")
	bc    func() *blockchain.Blockchain
	t     *tracker
	pre   []*mBlock               // model of the pre-confirmed chain (may be empty)
	preC  []*pending.PreConfirmed // the same, as handed to Juno
	fired map[string]bool
}

func (e *env) all() []*mBlock {
	if len(e.pre) == 0 {
		return e.t.blocks
	}
	return append(append([]*mBlock{}, e.t.blocks...), e.pre...)
}

// expected computes the oracle's answer for q.
func (e *env) expected(q query) ([]tagged, uint64, uint64) {
	all := e.all()
	if q.Defaults {
		return scan(all, q.F, 0, e.t.head()), 0, e.t.head()
	}
	from, to := q.From, q.To
	if q.FromPre {
		from = math.MaxUint64
		if len(e.pre) > 0 {
			from = e.pre[len(e.pre)-1].Num
		}
	}
	if q.ToPre {
		to = math.MaxUint64
	}
	return scan(all, q.F, from, to), from, to
}

func trim(ts []tagged, around int) []string {
	lo, hi := around-4, around+5
	if lo < 0 {
		lo = 0
	}
	if hi > len(ts) {
		hi = len(ts)
	}
	out := []string{fmt.Sprintf("(%d events; showing %d..%d)", len(ts), lo, hi-1)}
	for i := lo; i < hi; i++ {
		out = append(out, fmt.Sprintf("#%d %s", i, ts[i].String()))
	}
	return out
}

func (e *env) report(class string, q query, pg paging, res runResult, want []tagged, d *diffKind, via string) {
	if e.fired == nil {
		e.fired = map[string]bool{}
	}
	if e.fired[class] {
		e.r.Count("repeat_witnesses_suppressed", 1)
		return
	}
	e.fired[class] = true
	brief := fmt.Sprintf("[%s/%s] %s | %s -> %s", e.tag, via, q.String(), pg.String(), class)
	w := map[string]any{
		"workload": e.tag, "via": via, "query": q.String(), "paging": pg.String(), "history": e.t.log,
		"head": e.t.head(), "pre_confirmed_blocks": len(e.pre), "pages": res.Pages, "note": res.Note,
		"epoch_start": e.t.epochKind,
	}
	at := 0
	if d != nil {
		at = d.Index
		w["discrepancy"] = map[string]any{"kind": d.Kind, "field": d.Field, "index": d.Index, "event": d.Event.String(), "detail": d.Detail}
		brief += fmt.Sprintf(" | %s %s", d.Kind, d.Event.String())
	}
	if res.Note != "" {
		brief += " | " + res.Note
	}
	w["expected"] = trim(want, at)
	w["observed"] = trim(res.Got, at)
	e.r.Violation(class, e.idx, brief, w)
}

// classify turns a discrepancy into the violation class.
func (e *env) classify(d *diffKind, res runResult, pg paging, pagedOnly bool) string {
	var cls string
	switch d.Kind {
	case "missing":
		if pagedOnly {
			return "paging:skipped-event:" + edgeOf(res, firstDiff(res.Got, d), pg.Chunk)
		}
		return e.t.falseNegativeClass(d.Event.Block)
	case "duplicate":
		cls = "duplicate-event"
		if pagedOnly {
			return "paging:duplicate-event:" + edgeOf(res, d.Index, pg.Chunk)
		}
	case "extra-wrong-tag":
		cls = "wrong-tag:" + d.Field
	case "extra-nonmatching":
		cls = "false-positive:non-matching-event"
	case "extra-outside-range":
		cls = "false-positive:outside-range"
	case "extra-not-canonical":
		cls = "false-positive:event-not-on-canonical-chain"
	default:
		cls = "wrong-order"
	}
	if pagedOnly {
		cls = "paging:" + cls + ":" + edgeOf(res, d.Index, pg.Chunk)
	}
	return cls
}

// firstDiff: for a missing event, the position in the observed list where it should be.
func firstDiff(got []tagged, d *diffKind) int {
	for i, g := range got {
		if g.Block > d.Event.Block || (g.Block == d.Event.Block && (g.TxIdx > d.Event.TxIdx || (g.TxIdx == d.Event.TxIdx && g.EvIdx > d.Event.EvIdx))) {
			return i
		}
	}
	return len(got)
}

// pagingsFor draws the (chunk, limit) pairs for a query with nWant expected events.
func pagingsFor(rng *rand.Rand, nWant int, wide bool, k int) []paging {
	chunks := []uint64{1, 2, 3, 5, 17}
	if nWant > 1 {
		chunks = append(chunks, uint64(nWant), uint64(nWant-1), uint64(nWant+1), uint64(1+rng.IntN(nWant)))
	}
	limits := []int{-1, -1, 0, 1, 2, 3, 7}
	var out []paging
	for i := 0; i < k; i++ {
		pg := paging{Chunk: chunks[rng.IntN(len(chunks))], Limit: limits[rng.IntN(len(limits))], Reuse: rng.IntN(2) == 0, StrTokens: rng.IntN(2) == 0}
		if wide && pg.Limit > 0 {
			// every block of the range is a candidate: keep the number of pages bounded
			pg.Limit = 1500 + rng.IntN(3000)
		}
		if wide && nWant > 200 && pg.Chunk < 17 {
			pg.Chunk = 17 + uint64(rng.IntN(50))
		}
		out = append(out, pg)
	}
	return out
}

// check runs q unpaged and under each paging and compares with the oracle.
// Returns false if something was reported.
func (e *env) check(q query, pgs []paging, wideBlocks uint64) bool {
	want, from, to := e.expected(q)
	bc := e.bc()
	pre := preChainOf(e.preC)
	full := paging{Chunk: uint64(len(want)) + 1000, Limit: -1}
	res := runDirect(bc, q, full, pre, 4)
	e.t.queried(from, to)
	e.t.note("query %s -> %d events expected", q.String(), len(want))
	e.r.Eval(1)
	e.r.Count("queries", 1)
	e.r.Count("events_expected", len(want))
	if len(want) > 0 {
		e.r.Count("queries_with_nonempty_answer", 1)
	}
	if res.Proto != "" {
		e.report(res.Proto, q, full, res, want, nil, "direct")
		return false
	}
	if d := compare(want, res.Got, e.all(), q.F, from, to); d != nil {
		e.report(e.classify(d, res, full, false), q, full, res, want, d, "direct")
		return false
	}
	ok := true
	for _, pg := range pgs {
		maxPages := len(want) + 16
		if pg.Limit > 0 {
			maxPages += int(wideBlocks)/pg.Limit + 64
		}
		res := runDirect(bc, q, pg, pre, maxPages)
		e.r.Eval(1)
		e.r.Count("paged_runs", 1)
		e.r.Count("pages", len(res.Pages))
		if len(res.Pages) > 1 {
			e.r.Count("paged_runs_with_continuation", 1)
		}
		for i, p := range res.Pages {
			if p.Token == "" {
				continue
			}
			_ = i
			switch edgeKind(p, pg.Chunk) {
			case "chunk-edge-mid-block":
				e.r.Count("tokens_mid_block", 1)
			case "chunk-edge-block-start":
				e.r.Count("tokens_chunk_at_block_start", 1)
			case "scan-limit-edge":
				e.r.Count("tokens_scan_limit", 1)
			}
		}
		if res.Proto != "" {
			e.report(res.Proto, q, pg, res, want, nil, "direct")
			ok = false
			continue
		}
		if d := compare(want, res.Got, e.all(), q.F, from, to); d != nil {
			e.report(e.classify(d, res, pg, true), q, pg, res, want, d, "direct")
			ok = false
		}
	}
	return ok
}

func shortErr(err error) string {
	s := err.Error()
	if i := strings.IndexByte(s, '\n'); i >= 0 {
		s = s[:i]
	}
	return s
}

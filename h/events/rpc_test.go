package vevents

import (
	"context"
	"encoding/json"
	"fmt"
	"strings"

	"github.com/NethermindEth/juno/blockchain"
	"github.com/NethermindEth/juno/blockchain/networks"
	"github.com/NethermindEth/juno/jsonrpc"
	"github.com/NethermindEth/juno/rpc"
	"github.com/NethermindEth/juno/sync"
	"github.com/NethermindEth/juno/utils/log"
)

// starknet_getEvents (spec v0.10 method table) over the real JSON-RPC server, on the
// same Blockchain object the direct queries use.

type rpcEvent struct {
	From   string   `json:"from_address"`
	Keys   []string `json:"keys"`
	Data   []string `json:"data"`
	Block  *uint64  `json:"block_number"`
	BHash  *string  `json:"block_hash"`
	TxHash string   `json:"transaction_hash"`
	TxIdx  uint     `json:"transaction_index"`
	EvIdx  uint     `json:"event_index"`
}

type rpcResp struct {
	Result *struct {
		Events []rpcEvent `json:"events"`
		Token  string     `json:"continuation_token"`
	} `json:"result"`
	Error *struct {
		Code    int             `json:"code"`
		Message string          `json:"message"`
		Data    json.RawMessage `json:"data"`
	} `json:"error"`
}

func newRPCServer(bc *blockchain.Blockchain, limit int) (*jsonrpc.Server, error) {
	logger := log.NewNopZapLogger()
	h := rpc.New(bc, &sync.NoopSynchronizer{}, nil, "verif", logger, &networks.Sepolia)
	if limit >= 0 {
		h = h.WithFilterLimit(uint(limit))
	}
	srv := jsonrpc.NewServer(2, logger)
	methods, _ := h.MethodsV0_10()
	if err := srv.RegisterMethods(methods...); err != nil {
		return nil, err
	}
	return srv, nil
}

func (s *shortSim) blockID(n uint64, allowLatest bool) string {
	head := s.e.t.head()
	if n > head {
		return fmt.Sprintf(`{"block_number":%d}`, n)
	}
	switch s.rng.IntN(4) {
	case 0:
		return fmt.Sprintf(`{"block_hash":"%s"}`, s.e.t.blocks[n].Hash.String())
	case 1:
		if n == head && allowLatest {
			return `"latest"`
		}
	}
	return fmt.Sprintf(`{"block_number":%d}`, n)
}

// rpcQuery pages q through starknet_getEvents and compares with the oracle.
func (s *shortSim) rpcQuery(q query) {
	if q.FromPre || q.ToPre {
		return
	}
	e := s.e
	want, from, to := e.expected(q)
	// the handler clamps a numeric to_block to the head; the oracle's answer is the same
	// either way (there is nothing above the head on this node)
	limit := []int{-1, -1, 1, 2, 5}[s.rng.IntN(5)]
	srv, err := newRPCServer(s.node.BC, limit)
	if err != nil {
		s.r.Inconclusive("rpc:server-setup-failed")
		return
	}
	chunk := pagingsFor(s.rng, len(want), false, 1)[0].Chunk
	pg := paging{Chunk: chunk, Limit: limit, StrTokens: true}
	var parts []string
	if !q.Defaults {
		parts = append(parts, `"from_block":`+s.blockID(q.From, false), `"to_block":`+s.blockID(q.To, true))
	}
	if q.F.Addrs != nil {
		if len(q.F.Addrs) == 1 && s.rng.IntN(2) == 0 {
			parts = append(parts, fmt.Sprintf(`"address":"%s"`, q.F.Addrs[0].String()))
		} else {
			var as []string
			for i := range q.F.Addrs {
				as = append(as, `"`+q.F.Addrs[i].String()+`"`)
			}
			parts = append(parts, `"address":[`+strings.Join(as, ",")+`]`)
		}
	}
	if q.F.Keys != nil {
		var ps []string
		for _, alts := range q.F.Keys {
			var ks []string
			for i := range alts {
				ks = append(ks, `"`+alts[i].String()+`"`)
			}
			ps = append(ps, "["+strings.Join(ks, ",")+"]")
		}
		parts = append(parts, `"keys":[`+strings.Join(ps, ",")+`]`)
	}
	parts = append(parts, fmt.Sprintf(`"chunk_size":%d`, chunk))
	var res runResult
	token := ""
	maxPages := len(want) + int(e.t.head()) + 16
	var prevB, prevP uint64
	for page := 0; ; page++ {
		if page >= maxPages {
			res.Proto = "token:no-termination"
			break
		}
		p := parts
		if token != "" {
			p = append(append([]string{}, parts...), fmt.Sprintf(`"continuation_token":"%s"`, token))
		}
		req := fmt.Sprintf(`{"jsonrpc":"2.0","id":%d,"method":"starknet_getEvents","params":{"filter":{%s}}}`, page+1, strings.Join(p, ","))
		raw, _, err := srv.HandleReader(context.Background(), strings.NewReader(req))
		if err != nil {
			res.Proto = "rpc:transport-error"
			res.Note = err.Error()
			break
		}
		var rr rpcResp
		if err := json.Unmarshal(raw, &rr); err != nil || (rr.Result == nil && rr.Error == nil) {
			res.Proto = "rpc:malformed-response"
			res.Note = string(raw)
			break
		}
		if rr.Error != nil {
			res.Proto = fmt.Sprintf("rpc:error-response:%d", rr.Error.Code)
			res.Note = req + " -> " + string(raw)
			break
		}
		for _, ev := range rr.Result.Events {
			t := tagged{TxHash: ev.TxHash, TxIdx: ev.TxIdx, EvIdx: ev.EvIdx, BHash: "nil"}
			if ev.Block != nil {
				t.Block = *ev.Block
			}
			if ev.BHash != nil {
				t.BHash = *ev.BHash
			}
			t.Body = "from=" + ev.From + " keys="
			for _, k := range ev.Keys {
				t.Body += k + ","
			}
			t.Body += " data="
			for _, d := range ev.Data {
				t.Body += d + ","
			}
			res.Got = append(res.Got, t)
		}
		res.Pages = append(res.Pages, pageRec{N: len(rr.Result.Events), Token: rr.Result.Token})
		if uint64(len(rr.Result.Events)) > chunk {
			res.Proto = "page-exceeds-chunk-size"
			break
		}
		if rr.Result.Token == "" {
			break
		}
		var b, k uint64
		if _, err := fmt.Sscanf(rr.Result.Token, "%d-%d", &b, &k); err == nil {
			if page > 0 && !tokLess(prevB, prevP, b, k) {
				res.Proto = "token:no-progress"
				res.Note = fmt.Sprintf("token %s after %d-%d", rr.Result.Token, prevB, prevP)
				break
			}
			prevB, prevP = b, k
		}
		token = rr.Result.Token
	}
	e.t.queried(from, to)
	s.r.Eval(1)
	s.r.Count("rpc_queries", 1)
	s.r.Count("rpc_pages", len(res.Pages))
	if res.Proto != "" {
		e.report("rpc:"+strings.TrimPrefix(res.Proto, "rpc:"), q, pg, res, want, nil, "starknet_getEvents")
		return
	}
	if d := compare(want, res.Got, e.all(), q.F, from, to); d != nil {
		// direct queries of the same filter ran just before: a discrepancy here that they
		// did not show is the RPC layer's
		// (a single-page answer that differs is an index/adapter matter, a multi-page one a
		// paging matter of the handler's chunk size / scan limit)
		cls := e.classify(d, res, pg, len(res.Pages) > 1)
		e.report("rpc:"+cls, q, pg, res, want, d, "starknet_getEvents")
	}
}

package vevents

import (
	"testing"
	"time"

	"github.com/NethermindEth/juno/verifh/lib"
)

func TestC09(t *testing.T) {
	r := lib.Start("C09", "exploration")

	nLong := r.N(3, 40)
	nShort := r.N(160, 2400)
	nStress := r.N(4, 40)
	if r.Race {
		// the race detector is the observer of this workload: do not scale it away
		nStress = 2
		if !r.Quick() {
			nStress = 8
		}
	}

	// long histories first (they dominate the wall time), in parallel with each other
	// one case list for the three workloads (long histories first: they dominate the
	// wall time and overlap with the rest); index ranges are disjoint so that --replay
	// finds the case
	const shortBase, stressBase, prunedBase = 1_000, 100_000, 500
	nPruned := r.N(4, 24)
	if r.Race {
		nPruned = 0
		if !r.Quick() {
			nPruned = 2
		}
	}
	t0 := time.Now() // logged only, never used by an oracle
	r.Cases(stressBase+nStress, 0, func(idx int) {
		switch {
		case idx >= prunedBase && idx < prunedBase+nPruned:
			prunedLongCase(r, idx)
		case idx < nLong:
			longCase(r, idx)
		case idx >= shortBase && idx < shortBase+nShort:
			shortCase(r, idx)
		case idx >= stressBase:
			stressCase(r, idx)
		}
	})
	t.Logf("%d long, %d pruned long, %d short, %d stress cases in %.1fs", nLong, nPruned, nShort, nStress, time.Since(t0).Seconds())

	r.Assume("block hashes / transaction hashes used as tags are the ones Blockchain.Finalise and the chain generator computed (C02's business); the oracle recomputes nothing cryptographic")
	r.Assume("Header.EventsBloom is derived from the receipts by the harness exactly as Juno's adapters do (core.EventsBloom); Store does not verify it")
	r.Assume("filters ending in an empty key position are not generated (Juno and other clients disagree there and the property does not settle it); chunk size 0 is not generated")
	r.Assume("answers of queries that run concurrently with a store / revert are not judged (no isolation is promised); only race reports, panics and the answers after quiescence are")
	r.Finish("case = one (history, query, paging) evaluation: the concatenation of all pages obtained by following continuation tokens through Blockchain.EventFilter(...).Events "+
		"(and starknet_getEvents for a third of the short cases) must equal a naive scan of the receipts of the canonical range (plus a pre-confirmed chain when asked) under the spec matching rule, "+
		"with block number/hash, tx hash/index and event index; no page exceeds the chunk size; tokens strictly advance. Histories: short generated rich chains with reorgs, graceful/ungraceful restarts, "+
		"pre-confirmed chains; long chains of 8192*{1,2}+delta blocks with reverts within / to / across the window boundary, regrowth with different events, restarts over older snapshots, "+
		"concurrent readers; distinct = (workload, filter shape, answer-size bucket, window position, restart kind, reorg count)", 60)
}

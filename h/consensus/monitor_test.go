package vconsensus

// Online monitors. They see (a) every message the harness delivered to a
// validator and (b) every action the validator's real state machine returned,
// and demand that each action is justified by the Tendermint rules over (a):
//
//   agreement     all Commit actions for a height carry the same value id
//   validity      committed proposal comes from proposer(h,r), is Valid, was delivered
//   equivocation  at most one prevote id and one precommit id per (h,r)
//   lock rule     non-nil prevote for id != lockedValue needs proposal(v,vr) + quorum
//                 prevotes(vr,id(v)) with lockedRound <= vr < r  (lock shadow =
//                 the validator's own last non-nil precommit of this height)
//   thresholds    every action presupposing 2f+1 / f+1 is backed by delivered
//                 voting power of distinct senders: 3P >= 2N resp. 3P >= N

import (
	"fmt"
	"os"
	"strings"

	"github.com/NethermindEth/juno/consensus/types"
)

type voteRec struct {
	val  uint64
	mask uint32
}

type propRec struct {
	val uint64
	vr  types.Round
}

type roundLog struct {
	props              []propRec
	pv, pc             []voteRec
	anyPV, anyPC, anyM uint32
	ownPV, ownPC       uint64
	hasOwnPV, hasOwnPC bool
}

type heightLog struct {
	rounds      []roundLog
	lockedRound types.Round
	lockedVal   uint64
}

func (s *sim) hl(nd *node, h types.Height) *heightLog {
	i := int(h) - int(s.c.h0)
	if i < 0 || i >= len(nd.logs) {
		return nil
	}
	if nd.logs[i] == nil {
		nd.logs[i] = &heightLog{lockedRound: -1}
	}
	return nd.logs[i]
}

func (l *heightLog) rl(r types.Round) *roundLog {
	if l == nil || r < 0 || r > 2047 {
		return nil
	}
	for len(l.rounds) <= int(r) {
		l.rounds = append(l.rounds, roundLog{})
	}
	return &l.rounds[r]
}

func addVote(l []voteRec, val uint64, from int8) []voteRec {
	for k := range l {
		if l[k].val == val {
			l[k].mask |= 1 << uint(from)
			return l
		}
	}
	return append(l, voteRec{val, 1 << uint(from)})
}

func voteMask(l []voteRec, val uint64) uint32 {
	for k := range l {
		if l[k].val == val {
			return l[k].mask
		}
	}
	return 0
}

// record a message as "known to validator nd" (delivered by the harness or sent by nd itself).
func (s *sim) record(nd *node, m msg) {
	if m.h < nd.h {
		return // Tendermint drops messages of decided heights
	}
	rl := s.hl(nd, m.h).rl(m.r)
	if rl == nil {
		return
	}
	switch m.kind {
	case kProposal:
		if int(m.from) != s.c.proposer(m.h, m.r) {
			return // only proposer(h,r)'s proposals may ever justify anything
		}
		for _, p := range rl.props {
			if p.val == m.val && p.vr == m.vr {
				return
			}
		}
		rl.props = append(rl.props, propRec{m.val, m.vr})
		rl.anyM |= 1 << uint(m.from)
	case kPrevote:
		rl.pv = addVote(rl.pv, m.val, m.from)
		rl.anyPV |= 1 << uint(m.from)
		rl.anyM |= 1 << uint(m.from)
	case kPrecommit:
		rl.pc = addVote(rl.pc, m.val, m.from)
		rl.anyPC |= 1 << uint(m.from)
		rl.anyM |= 1 << uint(m.from)
	}
}

func (s *sim) monDelivered(nd *node, m msg) {
	if m.h < nd.h {
		s.st.rejectedByAge++
	}
	if m.kind == kPrecommit && m.h > nd.h {
		if nd.futPC == nil {
			nd.futPC = map[[3]int64]uint32{}
		}
		nd.futPC[[3]int64{int64(m.h), int64(m.r), int64(m.val)}] |= 1 << uint(m.from)
	}
	s.record(nd, m)
}

type witness struct {
	Case      int      `json:"case"`
	Config    string   `json:"config"`
	Validator int      `json:"validator"`
	Height    uint     `json:"height"`
	Round     int      `json:"round"`
	Input     string   `json:"input_event"`
	Detail    string   `json:"detail"`
	Known     []string `json:"known_to_validator_for_height"`
	Trace     []string `json:"last_events"`
	Steps     int      `json:"steps"`
}

// VERIF_C12_AGREEMENT_ONLY=1 (drill aid, never set by run.py): every oracle
// except agreement only counts, so that a mutant's end-to-end consequence -
// two different commits - can be shown to be reachable and detected.
var agreementOnly = os.Getenv("VERIF_C12_AGREEMENT_ONLY") == "1"

func (s *sim) violation(class, detail string, nd *node, in msg) {
	if s.violated {
		return
	}
	if agreementOnly && !strings.HasPrefix(class, "agreement:") {
		s.suppressed++
		return
	}
	s.violated = true
	w := witness{Case: s.idx, Config: s.c.String(), Input: in.String(), Detail: detail, Steps: s.steps}
	if s.sysDevs != nil {
		w.Detail += fmt.Sprintf(" [systematic schedule: FIFO base with deviations %v]", s.sysDevs)
	}
	if nd != nil {
		w.Validator, w.Height, w.Round = nd.i, uint(nd.h), int(nd.round)
		if l := s.hl(nd, nd.h); l != nil {
			w.Known = append(w.Known, fmt.Sprintf("shadow lock: round=%d value=%s", l.lockedRound, valStr(l.lockedVal)))
			for r := range l.rounds {
				rl := &l.rounds[r]
				for _, p := range rl.props {
					w.Known = append(w.Known, fmt.Sprintf("r%d proposal val=%s vr=%d", r, valStr(p.val), p.vr))
				}
				for _, v := range rl.pv {
					w.Known = append(w.Known, fmt.Sprintf("r%d prevotes id=%s senders=%s power=%d", r, valStr(v.val), maskStr(v.mask), s.c.maskPower(nd.h, v.mask)))
				}
				for _, v := range rl.pc {
					w.Known = append(w.Known, fmt.Sprintf("r%d precommits id=%s senders=%s power=%d", r, valStr(v.val), maskStr(v.mask), s.c.maskPower(nd.h, v.mask)))
				}
			}
		}
	}
	from := 0
	if s.ntrace > len(s.trace) {
		from = s.ntrace - len(s.trace)
	}
	for k := from; k < s.ntrace; k++ {
		e := s.trace[k%len(s.trace)]
		w.Trace = append(w.Trace, fmt.Sprintf("-> v%d %s", e.to, e.m))
	}
	brief := class + ": " + detail
	if nd != nil {
		brief = fmt.Sprintf("validator %d at h%d r%d on %s: %s", nd.i, nd.h, nd.round, in, detail)
	}
	s.r.Violation(class, s.idx, brief, w)
}

func maskStr(m uint32) string {
	s := "{"
	for i := 0; m != 0; i, m = i+1, m>>1 {
		if m&1 != 0 {
			if len(s) > 1 {
				s += ","
			}
			s += fmt.Sprint(i)
		}
	}
	return s + "}"
}

func (s *sim) ownSanity(nd *node, in msg, m msg) bool {
	if int(m.from) != nd.i || m.h != nd.h {
		s.violation("harness:message-with-foreign-header", fmt.Sprintf("emitted %s while at height %d", m, nd.h), nd, in)
		return false
	}
	if m.r > s.st.maxRound {
		s.st.maxRound = m.r
	}
	return true
}

// a StartRound(r) became visible (own proposal or propose-timeout scheduling)
func (s *sim) monRound(nd *node, in msg, r types.Round) {
	defer func() { nd.round = r }()
	if r > s.st.maxRound {
		s.st.maxRound = r
	}
	switch {
	case in.kind == kStart && r == 0:
		return
	case in.kind == kTimeout && in.step == types.StepPrecommit && in.h == nd.h && in.r == r-1 && nd.round == r-1:
		s.st.roundsByTimeout++
		return
	}
	// line 55: f+1 messages of round r > round_p
	var p types.VotingPower
	if rl := s.hl(nd, nd.h).rl(r); rl != nil {
		p = s.c.maskPower(nd.h, rl.anyM)
	}
	if (in.kind > kPrecommit && in.kind != kSync) || in.h != nd.h || in.r != r || r <= nd.round || !s.c.isFPlus1(nd.h, p) {
		s.violation("threshold:round-entered-without-f+1-messages-of-that-round",
			fmt.Sprintf("entered round %d from round %d holding messages of round %d from power %d of %d (needs 3P>=N)", r, nd.round, r, p, s.c.total[s.c.hidx(nd.h)]), nd, in)
		return
	}
	s.st.skips++
}

func (s *sim) monOwnProposal(nd *node, in msg, m msg) {
	if !s.ownSanity(nd, in, m) {
		return
	}
	s.monRound(nd, in, m.r)
	s.record(nd, m)
}

func (s *sim) monTimeout(nd *node, in msg, t types.Timeout) {
	if t.Height != nd.h {
		s.violation("harness:timeout-for-foreign-height", fmt.Sprintf("scheduled %v at height %d", t, nd.h), nd, in)
		return
	}
	switch t.Step {
	case types.StepPropose:
		s.monRound(nd, in, t.Round)
	case types.StepPrevote:
		rl := s.hl(nd, nd.h).rl(t.Round)
		p := s.c.maskPower(nd.h, rl.anyPV)
		if !s.c.isQuorum(nd.h, p) {
			s.violation("threshold:prevote-timeout-scheduled-below-quorum", fmt.Sprintf("timeoutPrevote(r%d) scheduled with prevotes of power %d, quorum %d", t.Round, p, s.c.quorum(nd.h)), nd, in)
		} else if p == s.c.quorum(nd.h) {
			s.st.nearQuorum++
		}
	case types.StepPrecommit:
		rl := s.hl(nd, nd.h).rl(t.Round)
		p := s.c.maskPower(nd.h, rl.anyPC)
		if !s.c.isQuorum(nd.h, p) {
			s.violation("threshold:precommit-timeout-scheduled-below-quorum", fmt.Sprintf("timeoutPrecommit(r%d) scheduled with precommits of power %d, quorum %d", t.Round, p, s.c.quorum(nd.h)), nd, in)
		} else if p == s.c.quorum(nd.h) {
			s.st.nearQuorum++
		}
	}
}

func (s *sim) monOwnPrevote(nd *node, in msg, m msg) {
	if !s.ownSanity(nd, in, m) {
		return
	}
	l := s.hl(nd, nd.h)
	rl := l.rl(m.r)
	if rl.hasOwnPV && rl.ownPV != m.val {
		s.violation("equivocation:two-different-prevotes-in-one-round", fmt.Sprintf("prevoted %s and then %s in h%d r%d", valStr(rl.ownPV), valStr(m.val), m.h, m.r), nd, in)
		return
	}
	// classification of what the lock was tested against (evidence) ------------
	props := append([]propRec(nil), rl.props...)
	for _, p := range props {
		if !validVal(p.val) {
			continue
		}
		polka := p.vr >= 0 && p.vr < m.r && s.c.isQuorum(nd.h, s.c.maskPower(nd.h, voteMask(l.rl(p.vr).pv, p.val)))
		if l.lockedRound >= 0 && p.val != l.lockedVal {
			switch {
			case p.vr == -1:
				s.st.lockFresh++
			case polka && p.vr >= l.lockedRound:
				s.st.lockAllowed++
			case polka:
				s.st.lockStale++
			case p.vr >= 0:
				s.st.lockForged++
			}
		} else if l.lockedRound < 0 && p.vr >= 0 && !polka {
			s.st.forgedSeenUnlocked++
		}
	}
	rl = l.rl(m.r)
	// justification of a non-nil prevote ----------------------------------------
	if m.val != 0 {
		// Any delivered proposal of this round with this id may justify the
		// prevote; if none does, the report is classified by the first one
		// delivered (the one a validator that keeps one proposal per round holds).
		ok, first := false, true
		class, why := "unjustified-prevote:no-proposal-with-this-id-from-the-round-proposer",
			fmt.Sprintf("prevoted %s in r%d; no proposal with that id from proposer v%d was delivered", valStr(m.val), m.r, s.c.proposer(m.h, m.r))
		for _, p := range props {
			if p.val != m.val {
				continue
			}
			cl, wh := "", ""
			lockOK := l.lockedRound == -1 || l.lockedVal == m.val
			switch {
			case !validVal(p.val):
				cl, wh = "validity:prevote-for-invalid-value", fmt.Sprintf("prevoted %s which the application rejects", valStr(m.val))
			case p.vr == -1:
				if lockOK {
					ok = true
				} else {
					cl = "lock-rule:prevote-for-fresh-proposal(vr=-1)-conflicting-with-lock"
					wh = fmt.Sprintf("locked on %s in round %d, prevoted %s proposed with valid round -1 in r%d", valStr(l.lockedVal), l.lockedRound, valStr(m.val), m.r)
				}
			case p.vr >= 0 && p.vr < m.r:
				pw := s.c.maskPower(nd.h, voteMask(l.rl(p.vr).pv, p.val))
				switch {
				case !s.c.isQuorum(nd.h, pw):
					cl = "threshold:prevote-on-valid-round-without-quorum-of-prevotes"
					wh = fmt.Sprintf("prevoted %s (vr=%d) in r%d holding prevotes(r%d,%s) of power %d, quorum %d", valStr(m.val), p.vr, m.r, p.vr, valStr(m.val), pw, s.c.quorum(nd.h))
				case lockOK || l.lockedRound <= p.vr:
					ok = true
					if !lockOK {
						s.st.unlocks++
					}
				default:
					cl = "lock-rule:prevote-on-polka-older-than-lock(vr<lockedRound)"
					wh = fmt.Sprintf("locked on %s in round %d, prevoted %s in r%d on a proposal whose valid round %d is older than the lock", valStr(l.lockedVal), l.lockedRound, valStr(m.val), m.r, p.vr)
				}
			default:
				cl = "unjustified-prevote:valid-round-out-of-range"
				wh = fmt.Sprintf("prevoted %s in r%d on a proposal with valid round %d", valStr(m.val), m.r, p.vr)
			}
			if ok {
				break
			}
			if first {
				class, why, first = cl, wh, false
			}
		}
		if !ok {
			s.violation(class, why, nd, in)
			return
		}
	}
	rl.hasOwnPV, rl.ownPV = true, m.val
	s.record(nd, m)
}

func (s *sim) monOwnPrecommit(nd *node, in msg, m msg) {
	if !s.ownSanity(nd, in, m) {
		return
	}
	l := s.hl(nd, nd.h)
	rl := l.rl(m.r)
	if rl.hasOwnPC && rl.ownPC != m.val {
		s.violation("equivocation:two-different-precommits-in-one-round", fmt.Sprintf("precommitted %s and then %s in h%d r%d", valStr(rl.ownPC), valStr(m.val), m.h, m.r), nd, in)
		return
	}
	if m.val == 0 {
		// line 44 (quorum of nil prevotes) or OnTimeoutPrevote
		byTimeout := in.kind == kTimeout && in.step == types.StepPrevote && in.h == m.h && in.r == m.r
		if !byTimeout {
			p := s.c.maskPower(nd.h, voteMask(rl.pv, 0))
			if !s.c.isQuorum(nd.h, p) {
				s.violation("threshold:precommit-nil-below-quorum-of-nil-prevotes", fmt.Sprintf("precommitted nil in r%d without timeout, nil prevotes of power %d, quorum %d", m.r, p, s.c.quorum(nd.h)), nd, in)
				return
			} else if p == s.c.quorum(nd.h) {
				s.st.nearQuorum++
			}
		}
	} else {
		// line 36
		has := false
		for _, p := range rl.props {
			if p.val == m.val {
				has = true
			}
		}
		if !has {
			s.violation("unjustified-precommit:no-proposal-with-this-id-from-the-round-proposer", fmt.Sprintf("precommitted %s in r%d; no such proposal from proposer v%d delivered", valStr(m.val), m.r, s.c.proposer(m.h, m.r)), nd, in)
			return
		}
		if !validVal(m.val) {
			s.violation("validity:precommit-for-invalid-value", fmt.Sprintf("precommitted %s which the application rejects", valStr(m.val)), nd, in)
			return
		}
		p := s.c.maskPower(nd.h, voteMask(rl.pv, m.val))
		if !s.c.isQuorum(nd.h, p) {
			s.violation("threshold:precommit-value-below-quorum-of-prevotes", fmt.Sprintf("precommitted %s in r%d holding prevotes of power %d, quorum %d of total %d", valStr(m.val), m.r, p, s.c.quorum(nd.h), s.c.total[s.c.hidx(nd.h)]), nd, in)
			return
		} else if p == s.c.quorum(nd.h) {
			s.st.nearQuorum++
		}
		s.st.locks++
		if l.lockedRound >= 0 && l.lockedVal != m.val {
			s.st.relocks++
		}
		l.lockedRound, l.lockedVal = m.r, m.val
	}
	rl.hasOwnPC, rl.ownPC = true, m.val
	s.record(nd, m)
}

func (s *sim) monCommit(nd *node, in msg, m msg) {
	if m.h != nd.h {
		s.violation("agreement:commit-for-a-height-other-than-the-current-one", fmt.Sprintf("committed h%d while at h%d", m.h, nd.h), nd, in)
		if s.violated {
			return
		}
	}
	if int(m.from) != s.c.proposer(m.h, m.r) {
		s.violation("validity:committed-proposal-not-from-the-round-proposer", fmt.Sprintf("committed %s proposed by v%d in r%d whose proposer is v%d", valStr(m.val), m.from, m.r, s.c.proposer(m.h, m.r)), nd, in)
		if s.violated {
			return
		}
	}
	if !validVal(m.val) {
		s.violation("validity:committed-value-rejected-by-application", fmt.Sprintf("committed %s", valStr(m.val)), nd, in)
		if s.violated {
			return
		}
	}
	rl := s.hl(nd, nd.h).rl(m.r)
	has := false
	for _, p := range rl.props {
		if p.val == m.val {
			has = true
		}
	}
	if !has {
		s.violation("validity:committed-value-never-proposed-to-this-validator", fmt.Sprintf("committed %s (r%d) without a delivered proposal", valStr(m.val), m.r), nd, in)
		if s.violated {
			return
		}
	}
	p := s.c.maskPower(nd.h, voteMask(rl.pc, m.val))
	if !s.c.isQuorum(nd.h, p) {
		s.violation("threshold:commit-below-quorum-of-precommits", fmt.Sprintf("committed %s (r%d) holding precommits of power %d, quorum %d of total %d", valStr(m.val), m.r, p, s.c.quorum(nd.h), s.c.total[s.c.hidx(nd.h)]), nd, in)
		if s.violated {
			return
		}
	} else if p == s.c.quorum(nd.h) {
		s.st.nearQuorum++
	}
	if old, ok := s.decided[m.h]; ok && old != m.val {
		s.violation("agreement:two-correct-validators-committed-different-values",
			fmt.Sprintf("validator %d committed %s for height %d, validator %d committed %s", s.decider[m.h], valStr(old), m.h, nd.i, valStr(m.val)), nd, in)
		if s.violated {
			return
		}
	}
	if _, already := s.decided[m.h]; !already { // the first decision's round stands (a sync body attributes its own round)
		s.decided[m.h], s.decider[m.h], s.decRound[m.h], s.decVR[m.h] = m.val, nd.i, m.r, m.vr
	}
	s.st.commits++
}

package vconsensus

// Attack templates: goal-directed schedules that build the interleavings in
// which a weakened guard becomes visible. Each returns whether the situation it
// aims at was actually reached ("hit"); the monitors run throughout exactly as
// in the random runs. Templates work for any n / weights for which the needed
// power splits exist; otherwise they give up early (a "miss").

import (
	"github.com/NethermindEth/juno/consensus/types"
)

// prerun decides every height below ha with a fair schedule, holding back all
// messages of height >= ha.
func (s *sim) prerun(ha types.Height) bool {
	for sweep := 0; sweep < 300 && !s.violated; sweep++ {
		s.pump(func(to int, m *msg) bool { return m.h < ha })
		all := true
		for _, i := range s.c.correct {
			if s.nodes[i].h < ha {
				all = false
			}
		}
		if all {
			return true
		}
		for _, i := range s.c.correct {
			nd := s.nodes[i]
			for k := 0; k < len(nd.timeouts); {
				if nd.timeouts[k].Height < ha && nd.h < ha {
					s.fireAt(i, k)
					k = 0
					continue
				}
				k++
			}
		}
	}
	return false
}

func (s *sim) shuffled(l []int) []int {
	out := append([]int(nil), l...)
	s.rng.Shuffle(len(out), func(i, j int) { out[i], out[j] = out[j], out[i] })
	return out
}

// belowQuorum picks, among `voters` (other than `to`), a maximal set whose power
// together with `own` stays strictly below the quorum of height h.
func (s *sim) belowQuorum(h types.Height, to int, voters []int, own types.VotingPower) (mask uint32, p types.VotingPower) {
	p = own
	for _, v := range s.shuffled(voters) {
		if v == to {
			continue
		}
		if w := s.c.pw(h, v); !s.c.isQuorum(h, p+w) {
			p += w
			mask |= 1 << uint(v)
		}
	}
	return mask, p
}

func (s *sim) setPower(h types.Height, l []int) types.VotingPower {
	var p types.VotingPower
	for _, i := range l {
		p += s.c.pw(h, i)
	}
	return p
}

func (s *sim) ownPV(i int, h types.Height, r types.Round) (uint64, bool) {
	rl := s.hl(s.nodes[i], h).rl(r)
	if rl == nil {
		return 0, false
	}
	return rl.ownPV, rl.hasOwnPV
}

func (s *sim) ownPC(i int, h types.Height, r types.Round) (uint64, bool) {
	rl := s.hl(s.nodes[i], h).rl(r)
	if rl == nil {
		return 0, false
	}
	return rl.ownPC, rl.hasOwnPC
}

func (s *sim) byzAll(kind uint8, h types.Height, r types.Round, val uint64, dests ...int) {
	for _, b := range s.c.byz {
		s.byzSend(msg{kind: kind, from: int8(b), h: h, r: r, val: val}, dests...)
	}
}

func (s *sim) fireAll(l []int, h types.Height, step types.Step, r types.Round) {
	for _, i := range l {
		if s.nodes[i].h == h {
			s.fire(i, step, r)
		}
	}
}

func (s *sim) allInRound(l []int, h types.Height, r types.Round) bool {
	for _, i := range l {
		if nd := s.nodes[i]; nd.done || nd.h != h || nd.round != r {
			return false
		}
	}
	return true
}

func isKind(m *msg, kind uint8, h types.Height, r types.Round) bool {
	return m.kind == kind && m.h == h && m.r == r
}

// ---------------------------------------------------------------- T1
//
// "polka seen by a subset" twice, then a proposal whose valid round is older
// than the victim's lock:
//
//	r0  correct proposer offers Y; only `seer` sees the polka (locks Y@0);
//	r1  proposer offers fresh X; only `victim` sees the polka (locks X@1);
//	    the victim then learns the round-0 polka for Y;
//	r2  (Y, vr=0) is proposed (legitimately by seer, or by a byzantine proposer).
//
// Line 29 demands lockedRound(1) <= vr(0) or lockedValue = Y: the victim must prevote nil.
func tplStalePolka(s *sim, ha types.Height) (hit bool) {
	c := s.c
	if len(c.byz) == 0 || len(c.correct) < 3 {
		return false
	}
	C := s.shuffled(c.correct)
	seer, victim, rest := C[0], C[1], C[2:]
	nonseers := C[1:]
	b := c.byz[s.rng.IntN(len(c.byz))]
	hi := c.hidx(ha)
	t := append([]int8(nil), c.prop[hi]...)
	t[0] = int8(C[s.rng.IntN(len(C))])
	byzR1 := s.rng.IntN(3) != 0
	if byzR1 {
		t[1] = int8(b)
	} else {
		t[1] = int8(nonseers[s.rng.IntN(len(nonseers))])
	}
	byzR2 := s.rng.IntN(2) == 0
	if byzR2 {
		t[2] = int8(b)
	} else {
		t[2] = int8(seer)
	}
	c.prop[hi] = t
	s.start()
	if !s.prerun(ha) {
		return false
	}
	bp := c.byzPower(ha)
	// ---- round 0
	s.pump(func(to int, m *msg) bool { return isKind(m, kProposal, ha, 0) })
	Y, ok := s.ownPV(seer, ha, 0)
	if !ok || Y == 0 {
		return false
	}
	allow := map[int]uint32{}
	for _, to := range nonseers {
		mask, p := s.belowQuorum(ha, to, C, c.pw(ha, to))
		if !c.isQuorum(ha, p+bp) {
			return false
		}
		allow[to] = mask
	}
	s.byzAll(kPrevote, ha, 0, Y, seer)
	s.byzAll(kPrevote, ha, 0, 0, nonseers...)
	s.pump(func(to int, m *msg) bool {
		return isKind(m, kPrevote, ha, 0) && (to == seer || allow[to]&(1<<uint(m.from)) != 0)
	})
	if v, ok := s.ownPC(seer, ha, 0); !ok || v != Y {
		return false
	}
	s.fireAll(nonseers, ha, types.StepPrevote, 0)
	s.byzAll(kPrecommit, ha, 0, 0, C...)
	s.pump(func(to int, m *msg) bool { return isKind(m, kPrecommit, ha, 0) })
	s.fireAll(C, ha, types.StepPrecommit, 0)
	if !s.allInRound(C, ha, 1) {
		return false
	}
	// ---- round 1
	var X uint64
	if byzR1 {
		X = s.byzValue(b, ha, 0, false)
		s.byzSend(msg{kind: kProposal, from: int8(b), h: ha, r: 1, val: X, vr: -1}, C...)
	} else {
		s.pump(func(to int, m *msg) bool { return isKind(m, kProposal, ha, 1) })
		X, _ = s.ownPV(int(t[1]), ha, 1)
	}
	if v, ok := s.ownPV(victim, ha, 1); !ok || v != X || X == 0 || X == Y {
		return false
	}
	if !c.isQuorum(ha, s.setPower(ha, nonseers)+bp) {
		return false
	}
	// deep variant: every non-seer sees the round-1 polka and locks X@1, one of
	// them (w) additionally sees the quorum of precommits and DECIDES X; in round
	// 2 byzantine validators back (Y, vr=0) with prevotes and precommits. Any
	// validator that wrongly gives up its lock on X@1 for the older polka lets Y
	// be decided as well (end-to-end disagreement).
	deep := len(rest) >= 1 && s.rng.IntN(2) == 0
	lockers, others := []int{victim}, append([]int{seer}, rest...)
	w := -1
	if deep {
		lockers, others = nonseers, []int{seer}
		w = rest[0]
	}
	isLocker := map[int]bool{}
	for _, i := range lockers {
		isLocker[i] = true
	}
	allow = map[int]uint32{}
	for _, to := range others {
		own := c.pw(ha, to)
		if to == seer {
			own = 0
		}
		mask, p := s.belowQuorum(ha, to, nonseers, own)
		if to == seer {
			p += c.pw(ha, to)
		}
		if !c.isQuorum(ha, p+bp) {
			return false
		}
		allow[to] = mask | 1<<uint(seer)
	}
	s.byzAll(kPrevote, ha, 1, X, lockers...)
	s.byzAll(kPrevote, ha, 1, 0, others...)
	s.pump(func(to int, m *msg) bool {
		return isKind(m, kPrevote, ha, 1) && (isLocker[to] || allow[to]&(1<<uint(m.from)) != 0)
	})
	for _, i := range lockers {
		if v, ok := s.ownPC(i, ha, 1); !ok || v != X {
			return false
		}
	}
	s.fireAll(others, ha, types.StepPropose, 1) // seer may still wait for a proposal
	s.fireAll(others, ha, types.StepPrevote, 1)
	if deep {
		allow = map[int]uint32{}
		for _, to := range C {
			if to == w {
				continue
			}
			own := c.pw(ha, to)
			if to == seer {
				own = 0
			}
			mask, p := s.belowQuorum(ha, to, nonseers, own)
			if to == seer {
				p += c.pw(ha, to)
			}
			if !c.isQuorum(ha, p+bp) {
				return false
			}
			allow[to] = mask | 1<<uint(seer)
		}
		s.byzAll(kPrecommit, ha, 1, X, w)
		for _, to := range C {
			if to != w {
				s.byzAll(kPrecommit, ha, 1, 0, to)
			}
		}
		s.pump(func(to int, m *msg) bool {
			return isKind(m, kPrecommit, ha, 1) && (to == w || allow[to]&(1<<uint(m.from)) != 0)
		})
		if v, ok := s.decided[ha]; !ok || v != X {
			return false
		}
	} else {
		s.byzAll(kPrecommit, ha, 1, 0, C...)
		s.pump(func(to int, m *msg) bool { return isKind(m, kPrecommit, ha, 1) })
	}
	var left []int
	for _, i := range C {
		if i != w {
			left = append(left, i)
		}
	}
	s.fireAll(left, ha, types.StepPrecommit, 1)
	if !s.allInRound(left, ha, 2) {
		return false
	}
	// ---- the locked validators learn the round-0 polka
	s.pump(func(to int, m *msg) bool { return isKind(m, kPrevote, ha, 0) && isLocker[to] && to != w })
	// ---- round 2
	if byzR2 {
		s.byzSend(msg{kind: kProposal, from: int8(b), h: ha, r: 2, val: Y, vr: 0}, left...)
	} else {
		s.pump(func(to int, m *msg) bool { return isKind(m, kProposal, ha, 2) })
	}
	_, hit = s.ownPV(victim, ha, 2)
	if deep {
		s.byzAll(kPrevote, ha, 2, Y, left...)
		s.pump(func(to int, m *msg) bool { return isKind(m, kPrevote, ha, 2) })
		s.byzAll(kPrecommit, ha, 2, Y, left...)
		s.pump(func(to int, m *msg) bool { return isKind(m, kPrecommit, ha, 2) })
		if hit {
			s.st.deepHits++
		}
	}
	return hit
}

// ---------------------------------------------------------------- T2
//
// One correct validator sees the quorum of precommits and commits Y; the others
// (all locked on Y@0) time out into a round whose byzantine proposer offers a
// different value X - fresh (vr=-1) or with a forged valid round 0.
func tplCommitSeenByOne(s *sim, ha types.Height) (hit bool) {
	c := s.c
	if len(c.byz) == 0 || len(c.correct) < 2 {
		return false
	}
	C := s.shuffled(c.correct)
	d, O := C[0], C[1:]
	b := c.byz[s.rng.IntN(len(c.byz))]
	hi := c.hidx(ha)
	t := append([]int8(nil), c.prop[hi]...)
	t[0] = int8(C[s.rng.IntN(len(C))])
	t[1] = int8(b)
	t[2] = int8(O[s.rng.IntN(len(O))])
	c.prop[hi] = t
	s.start()
	if !s.prerun(ha) {
		return false
	}
	bp := c.byzPower(ha)
	s.pump(func(to int, m *msg) bool { return isKind(m, kProposal, ha, 0) })
	s.pump(func(to int, m *msg) bool { return isKind(m, kPrevote, ha, 0) })
	Y, ok := s.ownPC(d, ha, 0)
	if !ok || Y == 0 {
		return false
	}
	allow := map[int]uint32{}
	for _, to := range O {
		if v, ok := s.ownPC(to, ha, 0); !ok || v != Y {
			return false
		}
		mask, p := s.belowQuorum(ha, to, C, c.pw(ha, to))
		if !c.isQuorum(ha, p+bp) {
			return false
		}
		allow[to] = mask
	}
	s.byzAll(kPrecommit, ha, 0, Y, d)
	s.byzAll(kPrecommit, ha, 0, 0, O...)
	s.pump(func(to int, m *msg) bool {
		return isKind(m, kPrecommit, ha, 0) && (to == d || allow[to]&(1<<uint(m.from)) != 0)
	})
	if v, ok := s.decided[ha]; !ok || v != Y || s.nodes[d].h == ha && !s.nodes[d].done {
		return false
	}
	s.fireAll(O, ha, types.StepPrecommit, 0)
	if !s.allInRound(O, ha, 1) {
		return false
	}
	X := s.byzValue(b, ha, 0, false)
	forged := s.rng.IntN(2) == 0
	vr := types.Round(-1)
	if forged {
		vr = 0
	}
	s.byzSend(msg{kind: kProposal, from: int8(b), h: ha, r: 1, val: X, vr: vr}, O...)
	s.byzAll(kPrevote, ha, 1, X, O...)
	s.fireAll(O, ha, types.StepPropose, 1)
	s.pump(func(to int, m *msg) bool { return isKind(m, kPrevote, ha, 1) })
	hit = true
	for _, o := range O {
		if _, ok := s.ownPV(o, ha, 1); !ok {
			hit = false
		}
	}
	s.fireAll(O, ha, types.StepPrevote, 1)
	s.byzAll(kPrecommit, ha, 1, X, O...)
	s.pump(func(to int, m *msg) bool { return isKind(m, kPrecommit, ha, 1) })
	s.fireAll(O, ha, types.StepPrecommit, 1)
	s.pump(func(to int, m *msg) bool { return m.h == ha && m.r == 2 })
	return hit
}

// ---------------------------------------------------------------- T3
//
// Equivocating byzantine proposer at the quorum edge: group G1 (correct power
// + byzantine power as close below the quorum as the weights allow) is offered
// Z, the rest Z'; byzantine validators prevote and precommit both ids to
// everybody. Nobody in G1 may treat Z as having a polka; in round 1 the same
// proposer offers (Z, vr=0) - a forged valid round.
func tplSplitAtQuorumEdge(s *sim, ha types.Height) (hit bool) {
	c := s.c
	if len(c.byz) == 0 || len(c.correct) < 2 {
		return false
	}
	C := s.shuffled(c.correct)
	b := c.byz[s.rng.IntN(len(c.byz))]
	hi := c.hidx(ha)
	t := append([]int8(nil), c.prop[hi]...)
	t[0], t[1] = int8(b), int8(b)
	c.prop[hi] = t
	bp := c.byzPower(ha)
	var G1, G2 []int
	p := bp
	for _, i := range C {
		if w := c.pw(ha, i); !c.isQuorum(ha, p+w) && len(G1) < len(C)-1 {
			p += w
			G1 = append(G1, i)
		} else {
			G2 = append(G2, i)
		}
	}
	if len(G1) == 0 || len(G2) == 0 {
		return false
	}
	s.start()
	if !s.prerun(ha) {
		return false
	}
	Z, Z2 := s.byzValue(b, ha, 0, false), s.byzValue(b, ha, 1, false)
	s.byzSend(msg{kind: kProposal, from: int8(b), h: ha, r: 0, val: Z, vr: -1}, G1...)
	s.byzSend(msg{kind: kProposal, from: int8(b), h: ha, r: 0, val: Z2, vr: -1}, G2...)
	s.byzAll(kPrevote, ha, 0, Z, C...)
	s.byzAll(kPrevote, ha, 0, Z2, C...)
	s.pump(func(to int, m *msg) bool { return isKind(m, kPrevote, ha, 0) })
	s.fireAll(C, ha, types.StepPrevote, 0)
	s.byzAll(kPrecommit, ha, 0, Z, C...)
	s.byzAll(kPrecommit, ha, 0, Z2, C...)
	s.pump(func(to int, m *msg) bool { return isKind(m, kPrecommit, ha, 0) })
	s.fireAll(C, ha, types.StepPrecommit, 0)
	// round 1: forged valid round for Z
	var still []int
	for _, i := range C {
		if nd := s.nodes[i]; !nd.done && nd.h == ha && nd.round == 1 {
			still = append(still, i)
		}
	}
	if len(still) == 0 {
		return false
	}
	s.byzSend(msg{kind: kProposal, from: int8(b), h: ha, r: 1, val: Z, vr: 0}, still...)
	if p+0 == c.quorum(ha)-1 {
		s.st.belowQuorumIdle++ // the split sat exactly one unit of power below the quorum
	}
	s.fireAll(still, ha, types.StepPropose, 1)
	s.pump(func(to int, m *msg) bool { return m.h == ha && m.r == 1 })
	return true
}

package vconsensus

import (
	"fmt"
	"runtime/debug"
	"sync/atomic"
	"testing"
	"time"

	"github.com/NethermindEth/juno/verifh/lib"
)

// bound of the progress check: sweeps of the synchronous suffix. The unchanged
// tree needed at most 42 (measured over 1.5M + 3x200k schedules, all n); bound > 20x.
const maxSuffixSweeps = 1000

var tplNames = []string{"random", "T1-stale-polka-vs-lock", "T2-commit-seen-by-one", "T3-split-at-quorum-edge+forged-valid-round"}

func pickN(x int) int {
	switch {
	case x < 70:
		return 4
	case x < 90:
		return 7
	default:
		return 10
	}
}

func runCase(r *lib.Run, idx int, maxRound, maxSweeps *atomic.Int64) {
	rng := lib.Rng("C12/schedule", uint64(idx))
	kind := 0
	if x := idx % 10; x >= 6 {
		kind = 1 + (x-6)%3
		if x == 9 {
			kind = 1 // the stale-polka template gets two slots
		}
	}
	n := pickN(rng.IntN(100))
	minByz := 0
	if kind != 0 {
		minByz = 1
	}
	c := genConfig(rng, n, minByz)
	c.label = tplNames[kind]
	s := newSim(r, idx, c, rng)
	for _, ch := range []byte(c.String()) { // the configuration is part of the schedule's identity
		s.mix(uint64(ch))
	}
	s.consistentProposer = rng.IntN(2) == 0
	prof := genProfile(rng, c)
	hit := false
	switch kind {
	case 0:
		s.start()
	default:
		ha := c.h0
		if c.heights > 1 && rng.IntN(4) == 0 {
			ha++
		}
		switch kind {
		case 1:
			hit = tplStalePolka(s, ha)
		case 2:
			hit = tplCommitSeenByOne(s, ha)
		case 3:
			hit = tplSplitAtQuorumEdge(s, ha)
		}
		s.start() // no-op unless the template gave up before starting the machines
		prof.budget /= 2
	}
	s.runRandom(prof)
	randomSteps := s.steps
	sweeps, progressed := 0, true
	if !s.violated {
		sweeps, progressed = s.runSuffix(maxSuffixSweeps)
	}
	st := &s.st
	r.Eval(1)
	r.Case(fmt.Sprintf("%016x", s.hash))
	r.Count("schedules", 1)
	r.Count("schedules_"+tplNames[kind], 1)
	r.Count(fmt.Sprintf("schedules_n%d", n), 1)
	r.Count(fmt.Sprintf("configs_total_power_mod3=%d", c.total[0]%3), 1)
	fmax := (c.total[0] - 1) / 3
	if c.byzPower(c.h0) == fmax {
		r.Count("configs_byzantine_power_exactly_max_below_third", 1)
	}
	if len(c.byz) == 0 {
		r.Count("configs_without_byzantine", 1)
	}
	weighted := false
	for _, w := range c.power[0] {
		if w != c.power[0][0] {
			weighted = true
		}
	}
	if weighted {
		r.Count("configs_weighted_power", 1)
	}
	if kind != 0 {
		if hit {
			r.Count("template_hits_"+tplNames[kind], 1)
		} else {
			r.Count("template_misses_"+tplNames[kind], 1)
		}
	}
	r.Count("steps(deliveries+timeouts+injections)", s.steps)
	r.Count("steps_in_adversarial_phase", randomSteps)
	r.Count("messages_delivered", st.delivered)
	r.Count("timeouts_fired", st.timeoutsFired)
	r.Count("byzantine_injections", st.byzInj)
	r.Count("byzantine_equivocating_injections", st.byzEquiv)
	r.Count("messages_dropped", st.drops)
	r.Count("messages_duplicated", st.dups)
	r.Count("commits_by_correct_validators", st.commits)
	r.Count("lock_events(non-nil precommit)", st.locks)
	r.Count("relock_on_different_value", st.relocks)
	r.Count("unlock_events(prevote other value on newer polka)", st.unlocks)
	r.Count("locktest_fresh_proposal_vs_lock", st.lockFresh)
	r.Count("locktest_polka_older_than_lock", st.lockStale)
	r.Count("locktest_polka_at_or_after_lock(unlock allowed)", st.lockAllowed)
	r.Count("locktest_forged_valid_round_no_polka_vs_lock", st.lockForged)
	r.Count("forged_valid_round_no_polka_seen_unlocked", st.forgedSeenUnlocked)
	r.Count("round_skips(f+1)", st.skips)
	r.Count("rounds_entered_by_timeout", st.roundsByTimeout)
	r.Count("quorum_actions_at_exact_threshold", st.nearQuorum)
	r.Count("split_exactly_one_below_quorum", st.belowQuorumIdle)
	r.Count("trigger_sync_actions", st.triggerSync)
	r.Count("sync_bodies_delivered_to_lagging_validators(decided block as consensus/sync extracts it)", st.syncHonest)
	r.Count("commits_reached_through_a_sync_body", st.syncCommits)
	r.Count("sync_bodies_unused(validator holds another proposal of that proposer for the attributed round; liveness, not judged)", st.syncUnusedOtherProposal)
	r.Count("sync_bodies_unused(other; liveness, not judged)", st.syncUnusedOther)
	r.Count("sync_triggered_with_a_quorum_of_the_current_but_not_of_the_future_height(observation)", st.syncTriggerBelowFutureQuorum)
	r.Count("template_T1_deep_variant_hits(one validator decided X before the stale proposal)", st.deepHits)
	r.Count("stale_height_messages_delivered", st.rejectedByAge)
	if s.suppressed > 0 {
		r.Count("suppressed_non_agreement_reports(drill mode)", s.suppressed)
	}
	if s.byzProposalEquivocation {
		r.Count("schedules_with_equivocating_byzantine_proposer", 1)
	}
	for {
		old := maxRound.Load()
		if int64(st.maxRound) <= old || maxRound.CompareAndSwap(old, int64(st.maxRound)) {
			break
		}
	}
	switch {
	case st.maxRound >= 8:
		r.Count("schedules_reaching_round>=8", 1)
	case st.maxRound >= 4:
		r.Count("schedules_reaching_round>=4", 1)
	case st.maxRound >= 2:
		r.Count("schedules_reaching_round>=2", 1)
	}
	if s.violated {
		r.Count("violating_schedules_"+tplNames[kind], 1)
		return
	}
	for {
		old := maxSweeps.Load()
		if int64(sweeps) <= old || maxSweeps.CompareAndSwap(old, int64(sweeps)) {
			break
		}
	}
	if s.allDone() && randomSteps == s.steps {
		r.Count("decided_within_adversarial_phase", 1)
	}
	if !progressed {
		// A validator keeps only the FIRST proposal of a round. One that was handed
		// the losing proposal of an equivocating byzantine proposer for the round
		// in which the others decided can never use line 49 for that round, and
		// the others may then lack a quorum of live correct power. The paper's
		// termination argument (which keeps every message) does not cover that
		// validator, so such stalls are counted, not judged.
		wedged := 0
		if s.byzProposalEquivocation {
			for _, i := range c.correct {
				nd := s.nodes[i]
				if v, ok := s.decided[nd.h]; ok && !nd.done {
					if rl := s.hl(nd, nd.h).rl(s.decRound[nd.h]); rl != nil && len(rl.props) > 0 && rl.props[0].val != v {
						wedged++
					}
				}
			}
		}
		// Second exemption: Juno evaluates line 49 only for the current round (on
		// start/timeouts) or for the round of the message just accepted. If the
		// quorum for round rc completes in another way - by the validator's own
		// precommit sent while it processes a message of a different round, or
		// from messages buffered before the height started - and no further
		// round-rc message arrives, line 49 is never evaluated for rc although the
		// paper's rule is enabled over the validator's message log. Such a
		// validator recovers only through the sync path (not driven here).
		// Counted, not judged: termination is not part of the property.
		unevaluated := 0
		for _, i := range c.correct {
			nd := s.nodes[i]
			if v, ok := s.decided[nd.h]; ok && !nd.done {
				if rl := s.hl(nd, nd.h).rl(s.decRound[nd.h]); rl != nil && len(rl.props) > 0 && rl.props[0].val == v &&
					c.isQuorum(nd.h, c.maskPower(nd.h, voteMask(rl.pc, v))) {
					unevaluated++
				}
			}
		}
		if wedged > 0 {
			r.Count("progress_not_applicable(validator holds losing first proposal of decision round)", 1)
			r.Count("validators_wedged_on_losing_first_proposal", wedged)
		} else if unevaluated > 0 {
			r.Count("progress_not_applicable(validator holds proposal+precommit quorum of the decision round, line 49 not re-evaluated)", 1)
		} else {
			var where []string
			var stuck *node
			for _, i := range c.correct {
				nd := s.nodes[i]
				if !nd.done && stuck == nil {
					stuck = nd
				}
				where = append(where, fmt.Sprintf("v%d:h%d/r%d/done=%v/timeouts=%d", i, nd.h, nd.round, nd.done, len(nd.timeouts)))
			}
			s.violation("progress:no-decision-within-bound-after-synchronous-suffix",
				fmt.Sprintf("after %d sweeps of the synchronous suffix (all messages gossiped, byzantine silent) not every correct validator decided: %v; decided so far %v in rounds %v", sweeps, where, s.decided, s.decRound), stuck, msg{kind: kStart})
			r.Count("violating_schedules_"+tplNames[kind], 1)
		}
	}
	if idx < 4 || (kind == 1 && hit && idx < 40) {
		r.Sample(map[string]any{
			"case": idx, "config": c.String(), "kind": tplNames[kind], "template_hit": hit,
			"adversary": fmt.Sprintf("%+v", *prof), "steps": s.steps, "max_round": st.maxRound,
			"decided": fmt.Sprint(s.decided), "suffix_sweeps": sweeps, "schedule_hash": fmt.Sprintf("%016x", s.hash),
			"locks": st.locks, "unlocks": st.unlocks, "byz_injections": st.byzInj,
		})
	}
}

func TestC12(t *testing.T) {
	debug.SetGCPercent(400) // many small short-lived allocations per schedule; heap stays tiny
	r := lib.Start("C12", "exploration")
	n := r.N(200000, 6000000)
	var maxRound, maxSweeps atomic.Int64
	r.Cases(n, 0, func(idx int) {
		// Watchdog (never a verdict): a state machine that does not return (e.g.
		// an upon-rule that stays enabled forever) must not hang the check. A
		// schedule normally takes ~1 ms; 120 s is > 1000x even on a loaded host.
		done := make(chan any, 1)
		go func() {
			defer func() { done <- recover() }()
			runCase(r, idx, &maxRound, &maxSweeps)
		}()
		select {
		case p := <-done:
			if p != nil {
				panic(p) // re-raised in the worker: lib.Cases records it as class "panic"
			}
		case <-time.After(120 * time.Second):
			r.Inconclusive("watchdog: a Process* call did not return within 120s")
		}
	})
	systematicLayer(r)
	r.Count("max_round_reached", int(maxRound.Load()))
	r.Count("max_suffix_sweeps_needed", int(maxSweeps.Load()))
	r.Assume("messages are authenticated: a byzantine validator cannot send under a correct validator's address (signatures are checked below the state machine)")
	r.Assume("random sampling plus guided adversaries, plus - for n=4, one height, equal power - EVERY schedule with at most two deviations (reorder / drop / early timeout / one of 9 byzantine actions, at any step) from the FIFO base schedule, executed on the real state machines; that is a bounded family, not all schedules")
	r.Assume("catch-up through the sync protocol is driven at the state-machine boundary: the harness plays the block fetcher (ProcessSync with the block decided for the lagging validator's height, built as consensus/sync.MessageExtractor builds it: proposer's first round, valid round -1, one precommit of the sync sender, which the validator set grants quorum power - the sync path trusts its block source, so hostile bodies are outside the model); the driver's fetch loop and WAL replay are C13's")
	r.Finish("case = one schedule: n in {4,7,10} real tendermint state machines (starknet types), equal or weighted voting power (totals of every residue mod 3, "+
		"per-height power changes), byzantine power strictly below a third (often the largest such), scripted proposer table, 1-3 heights, driven like the driver "+
		"(ProcessStart(0), no loop-back, every ScheduleTimeout a deliverable event) by a seeded adversary: reordering, loss, duplication, arbitrary timeout firing, "+
		"byzantine injections from a finite alphabet (values seen/own/invalid, rounds -1..max+3, valid rounds -2..r+1, non-proposer proposals, unknown sender, "+
		"different content to different peers, quorum-completing votes for a single target) or by one of three attack templates followed by the adversary; then a "+
		"synchronous suffix. Online oracles over every action returned by Process*: agreement, validity (proposer, Valid, delivered), no equivocation, lock rule "+
		"against the messages the harness itself delivered, thresholds 3P>=2N / 3P>=N over distinct delivered senders, bounded progress (<= 1000 sweeps) after the "+
		"suffix, except for validators that hold the losing first proposal of an equivocating proposer for the decision round or that already hold proposal + precommit quorum of the decision round (Juno re-evaluates line 49 only for the current / just-received round). distinct = distinct schedule hashes", 1000)
}

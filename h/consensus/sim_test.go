package vconsensus

// Simulated network around n real tendermint state machines. Everything the
// machines emit goes through sim.handle (where the online monitors sit, see
// monitor_test.go); everything they receive goes through sim.deliver.

import (
	"fmt"
	"math"
	"math/rand/v2"
	"os"
	"strconv"

	"github.com/NethermindEth/juno/consensus/starknet"
	"github.com/NethermindEth/juno/consensus/tendermint"
	"github.com/NethermindEth/juno/consensus/types"
	"github.com/NethermindEth/juno/consensus/types/actions"
	"github.com/NethermindEth/juno/core/felt"
	"github.com/NethermindEth/juno/utils/log"
	"github.com/NethermindEth/juno/verifh/lib"
)

// VERIF_C12_TRACE=<validator index>: print every event delivered to that validator (debug aid for replays)
var traceNode = func() int {
	if v, err := strconv.Atoi(os.Getenv("VERIF_C12_TRACE")); err == nil {
		return v
	}
	return -1
}()

type SM = tendermint.StateMachine[starknet.Value, starknet.Hash, starknet.Address]

const (
	kProposal uint8 = iota
	kPrevote
	kPrecommit
	kTimeout
	kStart
	kSync
)

var kindName = [...]string{"PROPOSAL", "PREVOTE", "PRECOMMIT", "TIMEOUT", "START", "SYNC"}

// msg is the harness' own compact form of a consensus message / timeout.
// val 0 = nil id. Value ids are small integers stored in limb 0 of the felt;
// a value is valid iff its id is even.
type msg struct {
	kind uint8
	from int8 // validator index; n = "ghost" (not in the validator set)
	h    types.Height
	r    types.Round
	val  uint64
	vr   types.Round
	step types.Step
}

func (m msg) String() string {
	switch m.kind {
	case kTimeout:
		return fmt.Sprintf("TIMEOUT(%s h%d r%d)", m.step, m.h, m.r)
	case kStart:
		return "START"
	case kSync:
		return fmt.Sprintf("SYNC(h%d: proposal of v%d r%d val=%s vr=%d + precommits)", m.h, m.from, m.r, valStr(m.val), m.vr)
	case kProposal:
		return fmt.Sprintf("PROPOSAL(from v%d h%d r%d val=%s vr=%d)", m.from, m.h, m.r, valStr(m.val), m.vr)
	}
	return fmt.Sprintf("%s(from v%d h%d r%d id=%s)", kindName[m.kind], m.from, m.h, m.r, valStr(m.val))
}

func valStr(v uint64) string {
	if v == 0 {
		return "nil"
	}
	s := fmt.Sprintf("%#x", v)
	if v&1 == 1 {
		s += "(invalid)"
	}
	return s
}

type flight struct {
	to int8
	m  msg
}

func addrOf(i int) starknet.Address   { return starknet.Address{uint64(i + 1), 0, 0, 0} }
func hashOf(v uint64) starknet.Hash   { return starknet.Hash{v, 0, 0, 0} }
func valueOf(v uint64) starknet.Value { return starknet.Value{v, 0, 0, 0} }
func idOfHash(h *starknet.Hash) uint64 {
	if h == nil {
		return 0
	}
	if h[1] != 0 || h[2] != 0 || h[3] != 0 {
		return ^uint64(0)
	}
	return h[0]
}
func idOfValue(v *starknet.Value) uint64 {
	if v == nil {
		return 0
	}
	h := starknet.Hash(*v)
	return idOfHash(&h)
}
func idxOfAddr(a *starknet.Address) int {
	if a[1] != 0 || a[2] != 0 || a[3] != 0 || a[0] == 0 {
		return -1
	}
	return int(a[0] - 1)
}
func validVal(v uint64) bool { return v != 0 && v&1 == 0 }

// ---------------------------------------------------------------- configuration

type config struct {
	n       int
	isByz   []bool
	correct []int
	byz     []int
	h0      types.Height
	heights int                   // heights every correct validator has to decide
	power   [][]types.VotingPower // [height index][validator]
	total   []types.VotingPower
	prop    [][]int8 // [height index][round]; rounds beyond the table are round-robin
	label   string
}

func (c *config) hidx(h types.Height) int {
	i := int(h) - int(c.h0)
	if i < 0 {
		return 0
	}
	if i >= len(c.power) {
		return len(c.power) - 1
	}
	return i
}

func (c *config) proposer(h types.Height, r types.Round) int {
	if r < 0 {
		r = 0
	}
	t := c.prop[c.hidx(h)]
	if int(r) < len(t) {
		return int(t[r])
	}
	return (int(h) + int(r)) % c.n
}

func (c *config) pw(h types.Height, i int) types.VotingPower {
	if i < 0 || i >= c.n {
		return 0
	}
	return c.power[c.hidx(h)][i]
}

// syncBit marks the sync sender in the monitor's sender masks: its one vote carries the whole power.
const syncIdx = 31

func (c *config) maskPower(h types.Height, mask uint32) types.VotingPower {
	if mask&(1<<syncIdx) != 0 {
		return c.total[c.hidx(h)]
	}
	p := c.power[c.hidx(h)]
	var s types.VotingPower
	for i := 0; mask != 0 && i < c.n; i, mask = i+1, mask>>1 {
		if mask&1 != 0 {
			s += p[i]
		}
	}
	return s
}

// Independent statement of the thresholds (not Juno's arithmetic):
// a quorum is any power P with 3P >= 2N; "f+1" is any power P with 3P >= N,
// i.e. more than every power strictly below N/3 can muster.
func (c *config) isQuorum(h types.Height, p types.VotingPower) bool {
	return 3*uint64(p) >= 2*uint64(c.total[c.hidx(h)])
}

func (c *config) isFPlus1(h types.Height, p types.VotingPower) bool {
	return 3*uint64(p) >= uint64(c.total[c.hidx(h)])
}

func (c *config) quorum(h types.Height) types.VotingPower {
	return (2*c.total[c.hidx(h)] + 2) / 3
}

func (c *config) byzPower(h types.Height) types.VotingPower {
	var s types.VotingPower
	for _, b := range c.byz {
		s += c.pw(h, b)
	}
	return s
}

func (c *config) String() string {
	return fmt.Sprintf("%s n=%d byz=%v h0=%d heights=%d power=%v total=%v proposers=%v", c.label, c.n, c.byz, c.h0, c.heights, c.power, c.total, c.prop)
}

type valset struct{ c *config }

func (v valset) TotalVotingPower(h types.Height) types.VotingPower { return v.c.total[v.c.hidx(h)] }
func (v valset) ValidatorVotingPower(h types.Height, a *starknet.Address) types.VotingPower {
	if *a == syncSender {
		return v.c.total[v.c.hidx(h)] // as the node's validator set does (consensus/mock.go)
	}
	return v.c.pw(h, idxOfAddr(a))
}
func (v valset) Proposer(h types.Height, r types.Round) starknet.Address {
	return addrOf(v.c.proposer(h, r))
}

// application of validator `owner`: fresh valid value per call.
type app struct {
	owner int
	seq   *uint64
}

func (a app) Value() starknet.Value {
	*a.seq++
	return valueOf((uint64(a.owner+1)<<16 | *a.seq) << 1)
}
func (a app) Valid(v starknet.Value) bool { return validVal(idOfValue(&v)) }

// ---------------------------------------------------------------- simulator

type node struct {
	i        int
	sm       SM
	h        types.Height
	round    types.Round
	done     bool
	logs     []*heightLog
	timeouts []types.Timeout
	seq      uint64
	// every precommit delivered for a height above the validator's own at that time, any round
	// (the per-round logs only keep rounds >= 0): (height, round, value) -> senders
	futPC map[[3]int64]uint32
}

type event struct {
	to int8
	m  msg
}

type sim struct {
	r     *lib.Run
	idx   int
	c     *config
	rng   *rand.Rand
	nodes []*node // only correct validators have a machine; byzantine entries are nil
	fl    []flight
	// gossip: every message a correct validator broadcast or received from a
	// byzantine validator (what a gossip layer would eventually spread)
	gossip   []msg
	gossipTo []uint32      // per gossip entry: validators it was already delivered to
	gossiped map[msg]int32 // message -> index in gossip
	decided  map[types.Height]uint64
	decider  map[types.Height]int
	decRound map[types.Height]types.Round
	decVR    map[types.Height]types.Round
	// byzantine proposers re-send their first proposal of a round instead of a new one
	consistentProposer bool
	seen               map[types.Height][]uint64 // value ids proposed at a height (adversary's alphabet)
	hash               uint64
	steps              int
	violated           bool
	started            bool
	suppressed         int
	trace              [128]event
	ntrace             int
	st                 stats
	byzProps           map[[2]int64]msg // (h,r) -> first proposal a byzantine proposer sent
	// set when a byzantine proposer sent two different proposals for one (h,r)
	byzProposalEquivocation bool
	// systematic mode: the deviations this schedule consists of (for the witness)
	sysDevs []deviation
}

type stats struct {
	maxRound                                      types.Round
	commits, locks, relocks, unlocks              int
	lockFresh, lockStale, lockAllowed, lockForged int
	forgedSeenUnlocked                            int
	byzInj, byzEquiv, drops, dups, timeoutsFired  int
	delivered, rejectedByAge                      int
	skips, roundsByTimeout                        int
	triggerSync, walWrites                        int
	syncHonest, syncCommits                       int
	syncUnusedOtherProposal, syncUnusedOther      int
	syncTriggerBelowFutureQuorum                  int
	nearQuorum                                    int // actions taken with exactly quorum power (edge hit)
	belowQuorumIdle                               int
	deepHits                                      int
}

func newSim(r *lib.Run, idx int, c *config, rng *rand.Rand) *sim {
	s := &sim{
		r: r, idx: idx, c: c, rng: rng, nodes: make([]*node, c.n),
		decided: map[types.Height]uint64{}, decider: map[types.Height]int{}, decRound: map[types.Height]types.Round{}, decVR: map[types.Height]types.Round{},
		seen: map[types.Height][]uint64{}, gossiped: map[msg]int32{}, hash: 1469598103934665603,
		byzProps: map[[2]int64]msg{},
	}
	vs := valset{c}
	for _, i := range c.correct {
		nd := &node{i: i, h: c.h0, round: -1, logs: make([]*heightLog, c.heights+2)}
		nd.sm = tendermint.New[starknet.Value, starknet.Hash, starknet.Address](
			log.NewNopZapLogger(), addrOf(i), app{i, &nd.seq}, vs, c.h0)
		s.nodes[i] = nd
	}
	return s
}

func (s *sim) start() {
	if s.started {
		return
	}
	s.started = true
	for _, i := range s.c.correct {
		nd := s.nodes[i]
		s.handle(nd, msg{kind: kStart, h: nd.h}, nd.sm.ProcessStart(0))
	}
}

func (s *sim) mix(x uint64) {
	s.hash ^= x
	s.hash *= 1099511628211
}

func (s *sim) note(to int, m msg) {
	s.mix(uint64(to)<<56 ^ uint64(m.kind)<<48 ^ uint64(uint8(m.from))<<40 ^ uint64(m.h)<<32 ^ uint64(uint16(m.r))<<16 ^ uint64(uint8(m.vr))<<8 ^ uint64(m.step))
	s.mix(m.val)
	s.trace[s.ntrace%len(s.trace)] = event{int8(to), m}
	s.ntrace++
}

func (s *sim) allDone() bool {
	for _, i := range s.c.correct {
		if !s.nodes[i].done {
			return false
		}
	}
	return true
}

func (s *sim) addGossip(m msg) {
	if _, ok := s.gossiped[m]; ok {
		return
	}
	s.gossiped[m] = int32(len(s.gossip))
	s.gossip = append(s.gossip, m)
	s.gossipTo = append(s.gossipTo, 0)
}

func (s *sim) sawValue(h types.Height, v uint64) {
	if v == 0 {
		return
	}
	l := s.seen[h]
	for _, x := range l {
		if x == v {
			return
		}
	}
	if len(l) < 12 {
		s.seen[h] = append(l, v)
	}
}

// deliver hands m to the real state machine of validator `to` and runs the
// monitors over the actions it returns.
func (s *sim) deliver(to int, m msg) {
	nd := s.nodes[to]
	if nd == nil || nd.done || s.violated {
		return
	}
	s.steps++
	s.note(to, m)
	if m.kind != kTimeout {
		if k, ok := s.gossiped[m]; ok {
			s.gossipTo[k] |= 1 << uint(to)
		}
	}
	var acts []starknet.Action
	switch m.kind {
	case kTimeout:
		s.st.timeoutsFired++
		acts = nd.sm.ProcessTimeout(types.Timeout{Step: m.step, Height: m.h, Round: m.r})
	case kProposal:
		s.monDelivered(nd, m)
		v := valueOf(m.val)
		acts = nd.sm.ProcessProposal(&starknet.Proposal{
			MessageHeader: starknet.MessageHeader{Height: m.h, Round: m.r, Sender: addrOf(int(m.from))},
			ValidRound:    m.vr, Value: &v,
		})
	case kPrevote:
		s.monDelivered(nd, m)
		acts = nd.sm.ProcessPrevote(&starknet.Prevote{
			MessageHeader: starknet.MessageHeader{Height: m.h, Round: m.r, Sender: addrOf(int(m.from))}, ID: idPtr(m.val),
		})
	case kPrecommit:
		s.monDelivered(nd, m)
		acts = nd.sm.ProcessPrecommit(&starknet.Precommit{
			MessageHeader: starknet.MessageHeader{Height: m.h, Round: m.r, Sender: addrOf(int(m.from))}, ID: idPtr(m.val),
		})
	}
	s.st.delivered++
	if traceNode >= 0 && to == traceNode {
		out := ""
		for _, a := range acts {
			out += fmt.Sprintf(" %T", a)
			if t, ok := a.(*actions.ScheduleTimeout); ok {
				out += fmt.Sprintf("%v", *t)
			}
		}
		fmt.Printf("TRACE step=%d v%d(h%d r%d) <- %s =>%s\n", s.steps, to, nd.h, nd.round, m, out)
	}
	s.handle(nd, m, acts)
}

func idPtr(v uint64) *starknet.Hash {
	if v == 0 {
		return nil
	}
	h := hashOf(v)
	return &h
}

func (s *sim) broadcast(from int, m msg) {
	s.addGossip(m)
	for _, j := range s.c.correct {
		if j != from && !s.nodes[j].done {
			s.fl = append(s.fl, flight{int8(j), m})
		}
	}
}

// handle = the driver's execute(): network effects of the actions plus the monitors.
func (s *sim) handle(nd *node, in msg, acts []starknet.Action) {
	committed := false
	for _, a := range acts {
		if s.violated {
			return
		}
		switch a := a.(type) {
		case *starknet.WriteWAL:
			s.st.walWrites++
		case *starknet.BroadcastProposal:
			m := msg{kind: kProposal, from: int8(idxOfAddr(&a.Sender)), h: a.Height, r: a.Round, val: idOfValue(a.Value), vr: a.ValidRound}
			s.monOwnProposal(nd, in, m)
			s.sawValue(m.h, m.val)
			s.broadcast(nd.i, m)
		case *starknet.BroadcastPrevote:
			m := msg{kind: kPrevote, from: int8(idxOfAddr(&a.Sender)), h: a.Height, r: a.Round, val: idOfHash(a.ID)}
			s.monOwnPrevote(nd, in, m)
			s.broadcast(nd.i, m)
		case *starknet.BroadcastPrecommit:
			m := msg{kind: kPrecommit, from: int8(idxOfAddr(&a.Sender)), h: a.Height, r: a.Round, val: idOfHash(a.ID)}
			s.monOwnPrecommit(nd, in, m)
			s.broadcast(nd.i, m)
		case *actions.ScheduleTimeout:
			s.monTimeout(nd, in, types.Timeout(*a))
			nd.timeouts = append(nd.timeouts, types.Timeout(*a))
		case *starknet.Commit:
			s.monCommit(nd, in, msg{kind: kProposal, from: int8(idxOfAddr(&a.Sender)), h: a.Height, r: a.Round, val: idOfValue(a.Value), vr: a.ValidRound})
			committed = true
		case *actions.TriggerSync:
			s.st.triggerSync++
			s.monTriggerSync(nd, in, a)
		default:
			s.violation("harness:unknown-action-type", fmt.Sprintf("action %T", a), nd, in)
		}
	}
	if committed && !s.violated {
		if in.kind == kSync {
			s.st.syncCommits++
		}
		nd.h++
		nd.round = -1
		nd.timeouts = nd.timeouts[:0]
		if int(nd.h)-int(s.c.h0) >= s.c.heights {
			nd.done = true
			return
		}
		s.handle(nd, msg{kind: kStart, h: nd.h}, nd.sm.ProcessStart(0))
	}
}

// fire delivers one scheduled timeout of validator i (by position).
func (s *sim) fireAt(i, k int) {
	nd := s.nodes[i]
	t := nd.timeouts[k]
	nd.timeouts = append(nd.timeouts[:k], nd.timeouts[k+1:]...)
	s.deliver(i, msg{kind: kTimeout, from: int8(i), h: t.Height, r: t.Round, step: t.Step})
}

// fire delivers the scheduled timeout (step, current height, round r) of validator i if there is one.
func (s *sim) fire(i int, step types.Step, r types.Round) bool {
	nd := s.nodes[i]
	if nd == nil || nd.done {
		return false
	}
	for k, t := range nd.timeouts {
		if t.Step == step && t.Round == r && t.Height == nd.h {
			s.fireAt(i, k)
			return true
		}
	}
	return false
}

// pump delivers in-flight messages accepted by allow (in random order) until none is left.
func (s *sim) pump(allow func(to int, m *msg) bool) int {
	n := 0
	var batch []flight
	for guard := 0; guard < 10000 && !s.violated; guard++ {
		batch = batch[:0]
		k := 0
		for _, f := range s.fl {
			if allow(int(f.to), &f.m) {
				batch = append(batch, f)
			} else {
				s.fl[k] = f
				k++
			}
		}
		s.fl = s.fl[:k]
		if len(batch) == 0 {
			return n
		}
		s.rng.Shuffle(len(batch), func(i, j int) { batch[i], batch[j] = batch[j], batch[i] })
		for _, f := range batch {
			s.deliver(int(f.to), f.m)
			n++
		}
	}
	return n
}

// byzSend: a byzantine validator hands m to the listed correct validators right now.
func (s *sim) byzSend(m msg, dests ...int) {
	if m.kind == kProposal {
		s.sawValue(m.h, m.val)
		if int(m.from) == s.c.proposer(m.h, m.r) {
			k := [2]int64{int64(m.h), int64(m.r)}
			if old, ok := s.byzProps[k]; !ok {
				s.byzProps[k] = m
			} else if old != m {
				s.byzProposalEquivocation = true
			}
		}
	}
	s.addGossip(m)
	for _, d := range dests {
		if s.violated {
			return
		}
		s.st.byzInj++
		s.deliver(d, m)
	}
}

// ---------------------------------------------------------------- catch-up through the sync protocol

// monTriggerSync: a TriggerSync action claims that a quorum of precommits for one value exists at
// a height above the validator's own; the precommits the harness delivered to it must contain one.
func (s *sim) monTriggerSync(nd *node, in msg, a *actions.TriggerSync) {
	if a.End <= nd.h || a.Start > a.End || a.Start < nd.h {
		s.violation("sync:trigger-range-inconsistent", fmt.Sprintf("TriggerSync{Start:%d End:%d} while at height %d", a.Start, a.End, nd.h), nd, in)
		return
	}
	// best support among the delivered precommits for one value in one round at height End
	var best types.VotingPower
	for k, mask := range nd.futPC {
		if types.Height(k[0]) == a.End && k[2] != 0 {
			best = max(best, s.c.maskPower(a.End, mask))
		}
	}
	switch {
	case s.c.isQuorum(a.End, best):
	case s.c.isQuorum(nd.h, best):
		// Juno compares the future height's votes with the CURRENT height's quorum; with validator
		// sets that change between heights that is less than a quorum of the future height. No vote
		// or decision depends on it (the action only starts a block fetch), so it is outside C12's
		// statement: counted as an observation.
		s.st.syncTriggerBelowFutureQuorum++
	default:
		s.violation("threshold:sync-triggered-below-quorum-of-future-precommits",
			fmt.Sprintf("TriggerSync{Start:%d End:%d} at height %d: the precommits delivered for one value at height %d carry power %d - neither a quorum of that height (total %d) nor of the current one (total %d)",
				a.Start, a.End, nd.h, a.End, best, s.c.total[s.c.hidx(a.End)], s.c.total[s.c.hidx(nd.h)]), nd, in)
	}
}

// syncSender is the address consensus/sync attributes its single precommit to (the validator
// set grants it quorum power: the sync path trusts the block it is handed).
var syncSender = felt.FromUint64[starknet.Address](math.MaxUint64)

// deliverSync plays the block fetcher + message extractor for validator `to`, which is behind:
// the block decided for its current height is handed over in one ProcessSync call, built the way
// consensus/sync.MessageExtractor builds it - a proposal attributed to the block's proposer in the
// FIRST round that validator proposes in (the block does not carry its round), valid round -1, and
// one precommit of the sync sender. The state machine must commit exactly that value and carry on
// at the next height (with the future-height messages it already holds).
func (s *sim) deliverSync(to int) bool {
	nd := s.nodes[to]
	if nd == nil || nd.done || s.violated {
		return false
	}
	h := nd.h
	val, decided := s.decided[h]
	if !decided {
		return false
	}
	p := s.c.proposer(h, s.decRound[h])
	r := types.Round(0)
	for s.c.proposer(h, r) != p {
		r++
	}
	prop := msg{kind: kProposal, from: int8(p), h: h, r: r, val: val, vr: -1}
	s.st.syncHonest++
	s.steps++
	in := msg{kind: kSync, from: prop.from, h: h, r: prop.r, val: prop.val, vr: prop.vr}
	s.note(to, in)
	s.monDelivered(nd, prop)
	s.monDelivered(nd, msg{kind: kPrecommit, from: syncIdx, h: h, r: r, val: val})
	v := valueOf(prop.val)
	pr := &starknet.Proposal{MessageHeader: starknet.MessageHeader{Height: h, Round: r, Sender: addrOf(p)}, ValidRound: -1, Value: &v}
	ps := []starknet.Precommit{{MessageHeader: starknet.MessageHeader{Height: h, Round: r, Sender: syncSender}, ID: idPtr(val)}}
	before := nd.h
	acts := nd.sm.ProcessSync(pr, ps)
	s.handle(nd, in, acts)
	if !s.violated && nd.h == before && !nd.done {
		// Not judged (liveness, and C12 is about safety): the extractor attributes the block to the
		// FIRST round its proposer proposes in; a validator that already holds another proposal of that
		// proposer for that round (it equivocated, or the block was decided in a later round of the same
		// proposer) keeps the first one and cannot use the body.
		other := false
		if rl := s.hl(nd, h).rl(r); rl != nil {
			for _, pp := range rl.props {
				other = other || pp.val != val
			}
		}
		if other {
			s.st.syncUnusedOtherProposal++
		} else {
			s.st.syncUnusedOther++
		}
	}
	return true
}

// syncRandom: a validator that is behind (its height is decided by someone) gets the sync body.
func (s *sim) syncRandom() bool {
	var behind []int
	for _, i := range s.c.correct {
		nd := s.nodes[i]
		if nd.done {
			continue
		}
		if _, ok := s.decided[nd.h]; ok {
			behind = append(behind, i)
		}
	}
	if len(behind) == 0 {
		return false
	}
	return s.deliverSync(behind[s.rng.IntN(len(behind))])
}
